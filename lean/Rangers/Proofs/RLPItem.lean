import Rangers.Proofs.RLPHead
/-! Round-trip and uniqueness for the generic item coder (`decItemF` / `encode`). -/
namespace Rangers.RLP
open Rangers

mutual
  /-- every payload is shorter than 2^64: exactly the items the encoder can produce -/
  def Item.sizeOK : Item → Prop
    | .str b => b.length < 2 ^ 64
    | .list xs => Item.sizeOKs xs ∧ (encodeList xs).length < 2 ^ 64
  def Item.sizeOKs : List Item → Prop
    | [] => True
    | x :: xs => x.sizeOK ∧ Item.sizeOKs xs
end

mutual
  /-- recursion depth `decItemF` needs on `encode it` -/
  def fuelI : Item → Nat
    | .str _ => 1
    | .list xs => 1 + fuelL xs
  def fuelL : List Item → Nat
    | [] => 1
    | x :: xs => 1 + max (fuelI x) (fuelL xs)
end

theorem split3 (buf : Bytes) (ts cs : Nat) :
    buf = buf.take ts ++ ((buf.drop ts).take cs ++ buf.drop (ts + cs)) := by
  have h1 : buf.drop (ts + cs) = (buf.drop ts).drop cs := by
    rw [List.drop_drop]
  rw [h1, List.take_append_drop, List.take_append_drop]

theorem encHead_ne_nil (s l n : Nat) : encHead s l n ≠ [] := by
  unfold encHead; split <;> simp

theorem encHead_length_pos (s l n : Nat) : 0 < (encHead s l n).length := by
  have := encHead_ne_nil s l n
  cases h : encHead s l n with
  | nil => exact absurd h this
  | cons _ _ => simp

theorem encString_nonbyte (c : Bytes) (h : ¬ (c.length = 1 ∧ headLt128 c = true)) :
    encString c = encHead 0x80 0xb7 c.length ++ c := by
  cases c with
  | nil => simp [encString]
  | cons x xs =>
    cases xs with
    | nil =>
      have hx : ¬ x.toNat < 128 := by simpa [headLt128] using h
      have : ¬ x.toNat ≤ 0x7f := by omega
      simp [encString, this]
    | cons y ys => simp [encString]

theorem encString_byte (x : UInt8) (h : x.toNat < 0x80) : encString [x] = [x] := by
  have : x.toNat ≤ 0x7f := by omega
  simp [encString, this]

theorem encString_ne_nil (b : Bytes) : encString b ≠ [] := by
  unfold encString
  split
  · split
    · simp
    · have := encHead_ne_nil 0x80 0xb7 1; simp [this]
  · have := encHead_ne_nil 0x80 0xb7 b.length; simp [this]

theorem encode_ne_nil (it : Item) : encode it ≠ [] := by
  cases it with
  | str b => simpa [encode] using encString_ne_nil b
  | list xs => simp [encode, encListPayload, encHead_ne_nil]

theorem headLt128_append (b rest : Bytes) (hb : b ≠ []) : headLt128 (b ++ rest) = headLt128 b := by
  cases b with
  | nil => exact absurd rfl hb
  | cons x xs => rfl

/-- soundness: whatever the decoder accepts is the encoder's output for the decoded item -/
theorem dec_sound : ∀ f,
    (∀ buf it rest, decItemF f buf = .ok (it, rest) → buf = encode it ++ rest) ∧
    (∀ buf xs, decItemsF f buf = .ok xs → buf = encodeList xs) := by
  intro f
  induction f with
  | zero => exact ⟨by intro _ _ _ h; simp [decItemF] at h, by intro _ _ h; simp [decItemsF] at h⟩
  | succ f ih =>
    refine ⟨?_, ?_⟩
    · intro buf it rest h
      simp only [decItemF] at h
      cases hk : readKind buf with
      | error e => rw [hk] at h; cases h
      | ok r =>
        obtain ⟨k, ts, cs⟩ := r
        rw [hk] at h
        simp only at h
        obtain ⟨hlen, _, hcases⟩ := readKind_inv hk
        have hsp := split3 buf ts cs
        have hclen : ((buf.drop ts).take cs).length = cs := by
          simp only [List.length_take, List.length_drop]; omega
        rcases hcases with ⟨hk1, hts, hcs, x, tl, hbuf, hx⟩ | ⟨hk1, hhead, hcanon⟩ | ⟨hk1, hhead⟩
        · subst hk1 hts hcs hbuf
          simp only at h
          injection h with h; injection h with h1 h2
          subst h1 h2
          simp [encode, encString_byte x hx]
        · subst hk1
          simp only at h
          injection h with h; injection h with h1 h2
          subst h1 h2
          simp only [encode]
          have hc' : ¬ (((buf.drop ts).take cs).length = 1 ∧ headLt128 ((buf.drop ts).take cs) = true) := by
            intro ⟨ha, hb⟩
            rw [hclen] at ha
            apply hcanon
            refine ⟨ha, ?_⟩
            subst ha
            cases hd : buf.drop ts with
            | nil => rw [hd] at hb; simp [headLt128] at hb
            | cons y ys => rw [hd] at hb; simpa [headLt128] using hb
          rw [encString_nonbyte _ hc', hclen, ← hhead, List.append_assoc]
          exact hsp
        · subst hk1
          simp only at h
          cases hd : decItemsF f ((buf.drop ts).take cs) with
          | error e => rw [hd] at h; cases h
          | ok xs =>
            rw [hd] at h
            simp only at h
            injection h with h; injection h with h1 h2
            subst h1 h2
            have hp := ih.2 _ _ hd
            simp only [encode, encListPayload]
            rw [← hp, hclen, ← hhead, List.append_assoc]
            exact hsp
    · intro buf xs h
      simp only [decItemsF] at h
      cases buf with
      | nil => simp only at h; injection h with h; subst h; rfl
      | cons b tl =>
        simp only at h
        cases hd : decItemF f (b :: tl) with
        | error e => rw [hd] at h; cases h
        | ok r =>
          obtain ⟨x, rest⟩ := r
          rw [hd] at h
          simp only at h
          cases hd2 : decItemsF f rest with
          | error e => rw [hd2] at h; cases h
          | ok xs' =>
            rw [hd2] at h
            simp only at h
            injection h with h; subst h
            rw [ih.1 _ _ _ hd, ih.2 _ _ hd2]
            simp [encodeList]

theorem take_drop_head (h t : Bytes) (n : Nat) (r : Bytes) (hn : t.length = n) :
    ((h ++ (t ++ r)).drop h.length).take n = t ∧ (h ++ (t ++ r)).drop (h.length + n) = r := by
  subst hn
  constructor
  · rw [List.drop_left' rfl, List.take_left' rfl]
  · rw [← List.append_assoc, List.drop_left' (by simp)]

/-- completeness: the decoder accepts every encoder output and returns the item -/
theorem dec_complete : ∀ f,
    (∀ it rest, it.sizeOK → fuelI it ≤ f → decItemF f (encode it ++ rest) = .ok (it, rest)) ∧
    (∀ xs, Item.sizeOKs xs → fuelL xs ≤ f → decItemsF f (encodeList xs) = .ok xs) := by
  intro f
  induction f with
  | zero =>
    refine ⟨?_, ?_⟩
    · intro it _ _ h; cases it <;> simp [fuelI] at h
    · intro xs _ h; cases xs <;> simp [fuelL] at h
  | succ f ih =>
    refine ⟨?_, ?_⟩
    · intro it rest hok hf
      cases it with
      | str b =>
        simp only [Item.sizeOK] at hok
        simp only [encode, decItemF]
        by_cases hb : b.length = 1 ∧ headLt128 b = true
        · obtain ⟨h1, h2⟩ := hb
          cases b with
          | nil => simp at h1
          | cons x xs =>
            cases xs with
            | cons _ _ => simp at h1
            | nil =>
              have hx : x.toNat < 0x80 := by simpa [headLt128] using h2
              rw [encString_byte x hx]
              simp only [List.cons_append, List.nil_append]
              rw [readKind_byte x rest hx]
              simp
        · rw [encString_nonbyte b hb, List.append_assoc]
          have hc : ¬ (b.length = 1 ∧ headLt128 (b ++ rest) = true) := by
            intro ⟨h1, h2⟩
            apply hb
            refine ⟨h1, ?_⟩
            rw [headLt128_append] at h2
            · exact h2
            · intro he; subst he; simp at h1
          rw [readKind_str b.length (b ++ rest) hok (by simp) hc]
          simp only
          obtain ⟨t1, t2⟩ := take_drop_head (encHead 0x80 0xb7 b.length) b b.length rest rfl
          rw [t1, t2]
      | list xs =>
        simp only [Item.sizeOK] at hok
        simp only [fuelI] at hf
        simp only [encode, encListPayload, decItemF]
        rw [List.append_assoc, readKind_list _ (encodeList xs ++ rest) hok.2 (by simp)]
        simp only
        obtain ⟨t1, t2⟩ := take_drop_head (encHead 0xc0 0xf7 (encodeList xs).length) (encodeList xs) _ rest rfl
        rw [t1, t2, ih.2 xs hok.1 (by omega)]
    · intro xs hok hf
      cases xs with
      | nil => simp [encodeList, decItemsF]
      | cons x xs' =>
        simp only [Item.sizeOKs] at hok
        simp only [fuelL] at hf
        simp only [encodeList]
        have hne := encode_ne_nil x
        cases hb : encode x ++ encodeList xs' with
        | nil => simp at hb; exact absurd hb.1 hne
        | cons c cs =>
          simp only [decItemsF]
          rw [← hb, ih.1 x _ hok.1 (by omega)]
          simp only
          rw [ih.2 xs' hok.2 (by omega)]

theorem readSize_ne_fuel (b : Bytes) (n : Nat) : readSize b n ≠ .error .fuel := by
  unfold readSize
  split
  · simp
  · split
    · simp
    · dsimp only
      split <;> simp

theorem readKind_ne_fuel (buf : Bytes) : readKind buf ≠ .error .fuel := by
  cases buf with
  | nil => simp [readKind]
  | cons b tl =>
    simp only [readKind]
    intro h
    split at h
    · rename_i e he
      injection h with h
      subst h
      split at he
      · cases he
      · split at he
        · split at he <;> cases he
        · split at he
          · split at he
            · rename_i e' hr
              injection he with he
              subst he
              exact readSize_ne_fuel _ _ hr
            · cases he
          · split at he
            · cases he
            · split at he
              · rename_i e' hr
                injection he with he
                subst he
                exact readSize_ne_fuel _ _ hr
              · cases he
    · split at h <;> cases h

/-- more fuel never changes a result that was not a fuel error -/
theorem dec_mono : ∀ f,
    (∀ b r, decItemF f b = r → r ≠ .error .fuel → decItemF (f + 1) b = r) ∧
    (∀ b r, decItemsF f b = r → r ≠ .error .fuel → decItemsF (f + 1) b = r) := by
  intro f
  induction f with
  | zero =>
    exact ⟨by intro b r h hne; simp [decItemF] at h; exact absurd h.symm hne,
           by intro b r h hne; simp [decItemsF] at h; exact absurd h.symm hne⟩
  | succ f ih =>
    refine ⟨?_, ?_⟩
    · intro b r h hne
      rw [decItemF] at h ⊢
      cases hk : readKind b with
      | error e => rw [hk] at h
                   exact h
      | ok t =>
        obtain ⟨k, ts, cs⟩ := t
        rw [hk] at h
        simp only at h ⊢
        cases k with
        | list =>
          simp only at h ⊢
          cases hd : decItemsF f ((b.drop ts).take cs) with
          | error e =>
            rw [hd] at h
            simp only at h
            have he : e ≠ .fuel := by intro he; subst he; exact hne h.symm
            rw [ih.2 _ _ hd (by simpa using he)]
            exact h
          | ok xs =>
            rw [hd] at h
            rw [ih.2 _ _ hd (by simp)]
            exact h
        | byte => exact h
        | string => exact h
    · intro b r h hne
      cases b with
      | nil => simp only [decItemsF] at h ⊢; exact h
      | cons c cs =>
        rw [decItemsF] at h ⊢
        cases hd : decItemF f (c :: cs) with
        | error e =>
          rw [hd] at h
          simp only at h
          have he : e ≠ .fuel := by intro he; subst he; exact hne h.symm
          rw [ih.1 _ _ hd (by simpa using he)]
          exact h
        | ok t =>
          obtain ⟨x, rest⟩ := t
          rw [hd] at h
          rw [ih.1 _ _ hd (by simp)]
          simp only at h ⊢
          cases hd2 : decItemsF f rest with
          | error e =>
            rw [hd2] at h
            simp only at h
            have he : e ≠ .fuel := by intro he; subst he; exact hne h.symm
            rw [ih.2 _ _ hd2 (by simpa using he)]
            exact h
          | ok xs =>
            rw [hd2] at h
            rw [ih.2 _ _ hd2 (by simp)]
            exact h

theorem dec_mono_le {f g : Nat} (hfg : f ≤ g) (b : Bytes) (r : Except Err (Item × Bytes))
    (h : decItemF f b = r) (hne : r ≠ .error .fuel) : decItemF g b = r := by
  induction hfg with
  | refl => exact h
  | step _ ih => exact (dec_mono _).1 _ _ ih hne

/-- the fuel handed out by `decodeItem` is never exhausted -/
theorem dec_fuel_suffices : ∀ f,
    (∀ b : Bytes, 2 * b.length + 1 ≤ f → decItemF f b ≠ .error .fuel) ∧
    (∀ b : Bytes, 2 * b.length + 2 ≤ f → decItemsF f b ≠ .error .fuel) := by
  intro f
  induction f with
  | zero => exact ⟨by intro b h; omega, by intro b h; omega⟩
  | succ f ih =>
    refine ⟨?_, ?_⟩
    · intro b hf
      rw [decItemF]
      cases hk : readKind b with
      | error e =>
        simp only
        intro h; injection h with h; subst h
        exact readKind_ne_fuel b hk
      | ok t =>
        obtain ⟨k, ts, cs⟩ := t
        simp only
        obtain ⟨hlen, _, hcases⟩ := readKind_inv hk
        cases k with
        | byte => simp
        | string => simp
        | list =>
          simp only
          rcases hcases with ⟨hk1, _⟩ | ⟨hk1, _⟩ | ⟨_, hhead⟩
          · cases hk1
          · cases hk1
          · have hts : 1 ≤ ts := by
              have h1 := encHead_length_pos 0xc0 0xf7 cs
              rw [← hhead] at h1
              simp only [List.length_take] at h1
              omega
            have hcl : ((b.drop ts).take cs).length ≤ b.length - 1 := by
              simp only [List.length_take, List.length_drop]; omega
            have := ih.2 ((b.drop ts).take cs) (by omega)
            cases hd : decItemsF f ((b.drop ts).take cs) with
            | error e =>
              simp only
              intro h; injection h with h; subst h
              exact this hd
            | ok xs => simp
    · intro b hf
      cases b with
      | nil => simp [decItemsF]
      | cons c cs =>
        rw [decItemsF]
        have h1 := ih.1 (c :: cs) (by omega)
        cases hd : decItemF f (c :: cs) with
        | error e =>
          simp only
          intro h; injection h with h; subst h
          exact h1 hd
        | ok t =>
          obtain ⟨x, rest⟩ := t
          simp only
          have hs := (dec_sound f).1 _ _ _ hd
          have hne := encode_ne_nil x
          have hl : rest.length < (c :: cs).length := by
            rw [hs]
            simp only [List.length_append]
            have : 0 < (encode x).length := by
              cases he : encode x with
              | nil => exact absurd he hne
              | cons _ _ => simp
            omega
          have h2 := ih.2 rest (by simp only [List.length_cons] at hl hf; omega)
          cases hd2 : decItemsF f rest with
          | error e =>
            simp only
            intro h; injection h with h; subst h
            exact h2 hd2
          | ok xs => simp

end Rangers.RLP
