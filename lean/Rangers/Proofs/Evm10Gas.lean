import Rangers.Proofs.Evm10Run
/-!
C10 — gas non-interference: gas decides only WHETHER an instruction runs, never WHAT it computes
(for every modelled instruction except GAS itself, including the memory opcodes and jumps).
-/
namespace Rangers.Proofs.Evm10
open Rangers Rangers.Model.Evm10 Rangers.Model.Evm10.U256

/-- the same frame with other gas bookkeeping -/
def setGas (f : Frame) (g l : Nat) : Frame := { f with gas := g, lastGasCost := l }

def mapGas (g l : Nat) : ExecResult → ExecResult
  | .ok f res => .ok (setGas f g l) res
  | r => r

theorem validJumpdest_setGas (f : Frame) (g l : Nat) (d : Word) :
    validJumpdest (setGas f g l) d = validJumpdest f d := rfl

theorem execOp_setGas (H : Bytes → Bytes) (e : Exec) (f : Frame) (g l : Nat) (he : e ≠ .opGas) :
    execOp H e (setGas f g l) = mapGas g l (execOp H e f) := by
  cases e <;> simp only [execOp, bin, un, pushW, setGas] <;> try (exact absurd rfl he)
  case opJump =>
    rcases hs : f.stack with _ | ⟨d, rest⟩ <;> simp only [mapGas]
    have hv' : validJumpdest { f with stack := d :: rest, gas := g, lastGasCost := l } d =
        validJumpdest f d := rfl
    simp only [hv']
    by_cases hv : validJumpdest f d = true <;> simp [hv, setGas]
  case opJumpi =>
    rcases hs : f.stack with _ | ⟨d, _ | ⟨c, rest⟩⟩ <;> simp only [mapGas]
    have hv' : validJumpdest { f with stack := d :: c :: rest, gas := g, lastGasCost := l } d =
        validJumpdest f d := rfl
    simp only [hv']
    by_cases hz : isZero c = true
    · simp [hz, setGas]
    · by_cases hv : validJumpdest f d = true <;> simp [hz, hv, setGas]
  case opPush1 =>
    simp only [mapGas]
    by_cases hc : f.pc + 1 < f.code.length <;> simp [hc, setGas]
  case opReturnDataCopy =>
    rcases hs : f.stack with _ | ⟨a, _ | ⟨b, _ | ⟨c, rest⟩⟩⟩ <;> simp only [mapGas]
    by_cases h1 : isUint64 b = true
    · by_cases h2 : isUint64 (add b c) = true
      · by_cases h4 : f.returnData.length < lo64 (add b c)
        · simp [h1, h2, h4]
        · by_cases h3 : lo64 (add b c) < lo64 b
          · simp [h1, h2, h4, h3]
          · cases hm : Mem.set f.mem (lo64 a) (lo64 c)
              (List.take (lo64 (add b c) - lo64 b) (List.drop (lo64 b) f.returnData)) <;>
              simp [h1, h2, h4, h3, hm, setGas]
      · simp [h1, h2]
    · simp [h1]
  all_goals (repeat' split)
  all_goals (first | rfl | simp_all [mapGas, setGas])


theorem memSized_unique {info : OpInfo} {st : List Word} {a b : Nat}
    (ha : MemSized info st a) (hb : MemSized info st b) : a = b := by
  rcases ha with ⟨h1, e1⟩ | ⟨s1, h1, e1⟩ <;> rcases hb with ⟨h2, e2⟩ | ⟨s2, h2, e2⟩
  · rw [e1, e2]
  · rw [h1] at h2; simp at h2
  · rw [h1] at h2; simp at h2
  · rw [h1] at h2
    simp only [MemSizeResult.size.injEq] at h2
    rw [h2.1] at e1
    rw [e1] at e2
    simpa using e2

/-- **Gas non-interference at step level**: two frames that differ only in their gas bookkeeping
and both continue arrive at frames that agree on stack, memory, pc, return data and code — for
every instruction but GAS (arithmetic, memory opcodes, jumps alike). -/
theorem step_gas_noninterference {H : Bytes → Bytes} {t : Table} {p : GasParams} {f fa fb : Frame}
    {g l : Nat} (ha : step H t p f = .next fa) (hb : step H t p (setGas f g l) = .next fb)
    (hng : ∀ info, t.get (getOp f.code f.pc) = some info → info.exec ≠ .opGas) :
    fb = setGas fa fb.gas fb.lastGasCost := by
  obtain ⟨ia, ga, la, ma, f1, r1, hga, _, _, hma, hxa, hfa⟩ := step_next_decomp ha
  obtain ⟨ib, gb, lb, mb, f2, r2, hgb, _, _, hmb, hxb, hfb⟩ := step_next_decomp hb
  have hgb' : t.get (getOp f.code f.pc) = some ib := hgb
  rw [hga] at hgb'
  have : ia = ib := by simpa using hgb'
  subst this
  have hmm : ma = mb := memSized_unique hma hmb
  subst hmm
  have hne := hng ia hga
  have hpre : preExec (setGas f g l) gb lb ma = setGas (preExec f ga la ma) gb lb := rfl
  rw [hpre, execOp_setGas H ia.exec _ gb lb hne, hxa] at hxb
  simp only [mapGas, ExecResult.ok.injEq] at hxb
  obtain ⟨e1, e2⟩ := hxb
  subst hfa hfb
  rw [← e1, ← e2]
  unfold postExec setGas
  split <;> split <;> rfl


theorem step_code {H : Bytes → Bytes} {t : Table} {p : GasParams} {f f' : Frame}
    (hs : step H t p f = .next f') : f'.code = f.code := by
  obtain ⟨info, g2, l2, ms, f1, res, _, _, _, _, hex, hf'⟩ := step_next_decomp hs
  obtain ⟨a, _⟩ := execOp_frame hex
  subst hf'
  unfold postExec
  simp only
  split <;> split <;> simp_all [preExec]

/-- **Gas non-interference along a run**: for code without the GAS opcode, two runs of the same
length that both continue, started from frames differing only in gas, stay equal in everything
but gas — stack, memory (MSTORE/MCOPY/…), pc (JUMP/JUMPI), return data — at every step. -/
theorem stepsTo_gas_noninterference {H : Bytes → Bytes} {t : Table} {p : GasParams} {k : Nat}
    {f fa : Frame} (ha : StepsTo H t p k f fa) :
    ∀ {g l : Nat} {fb : Frame}, StepsTo H t p k (setGas f g l) fb →
      (∀ pc info, t.get (getOp f.code pc) = some info → info.exec ≠ .opGas) →
      fb = setGas fa fb.gas fb.lastGasCost := by
  induction ha with
  | zero f => intro g l fb hb _; cases hb; rfl
  | @succ k f f1 f2 hs _ ih =>
    intro g l fb hb hng
    cases hb with
    | succ hs' hrest =>
      rename_i f1'
      have h1 := step_gas_noninterference hs hs' (fun info h => hng _ info h)
      rw [h1] at hrest
      have hc : f1.code = f.code := step_code hs
      exact ih hrest (fun pc info h => hng pc info (by rw [← hc]; exact h))

end Rangers.Proofs.Evm10
