import Rangers.Proofs.MinerSum
/-! C20: key separation over a universe of ids, the frame of a registry write sequence, the `Clean`
    invariant (an id that is not registered has no stake) and point updates of the total stake. -/
namespace Rangers.Miner

/-- The four storage keys of a miner id. -/
def keysOf (cfg : Cfg) (i : Bytes) : List Bytes := [i, cfg.H i, cfg.H (cfg.H i), cfg.H (cfg.H (cfg.H i))]

/-- Key-family separation on a universe of ids: each id has four distinct keys and different ids share none. -/
def SepU (cfg : Cfg) (U : List Bytes) : Prop :=
  (∀ i ∈ U, (keysOf cfg i).Nodup) ∧ (∀ i ∈ U, ∀ j ∈ U, i ≠ j → ∀ k ∈ keysOf cfg i, k ∉ keysOf cfg j)

theorem sep_untouched (cfg : Cfg) (U : List Bytes) (hs : SepU cfg U) (i j : Bytes) (hi : i ∈ U) (hj : j ∈ U) :
    Untouched cfg i j := by
  by_cases hij : i = j
  · subst hij
    have := hs.1 i hi
    simp only [keysOf, List.nodup_cons, List.mem_cons, List.not_mem_nil, or_false, not_or] at this
    exact ⟨fun e => this.1.1 e.symm, this.2.1.1, this.2.1.2⟩
  · have h := hs.2 i hi j hj hij
    simp only [keysOf, List.mem_cons, List.not_mem_nil, or_false, not_or, forall_eq_or_imp, forall_eq] at h
    exact ⟨fun e => h.1.2.1 e.symm, fun e => h.2.2.1.2.1 e.symm, fun e => h.2.2.2.2.1 e.symm⟩

theorem sep_stake_ne (cfg : Cfg) (U : List Bytes) (hs : SepU cfg U) (i j : Bytes) (hi : i ∈ U) (hj : j ∈ U) (hij : i ≠ j) :
    cfg.H j ≠ cfg.H i := by
  have h := hs.2 i hi j hj hij
  simp only [keysOf, List.mem_cons, List.not_mem_nil, or_false, not_or, forall_eq_or_imp, forall_eq] at h
  exact fun e => h.2.1.2.1 e.symm

/-- `st'` differs from `st` in the live registry only at keys of `i` in registry `dT`. -/
def OnlyKeys (cfg : Cfg) (st st' : State) (dT : DbId) (i : Bytes) : Prop :=
  ∀ d q, (d ≠ dT ∨ q ∉ keysOf cfg i) → (st'.live d).get q = (st.live d).get q

theorem onlyKeys_refl (cfg : Cfg) (st st' : State) (dT : DbId) (i : Bytes) (h : st'.live = st.live) : OnlyKeys cfg st st' dT i := by
  intro d q _; rw [h]

theorem onlyKeys_write (cfg : Cfg) (st st0 : State) (dT : DbId) (i k v : Bytes) (hk : k ∈ keysOf cfg i)
    (h : OnlyKeys cfg st0 st dT i) : OnlyKeys cfg st0 (st.write dT k v) dT i := by
  intro d q hq
  rw [write_get]
  have : ¬ (d = dT ∧ q = k) := by
    rintro ⟨rfl, rfl⟩
    rcases hq with hq | hq
    · exact hq rfl
    · exact hq hk
  rw [if_neg this]
  exact h d q hq

theorem onlyKeys_updateMiner (cfg : Cfg) (st st0 : State) (m : Miner) (oi : Option Info)
    (h : OnlyKeys cfg st0 st (dbOfType m.typ) m.id) : OnlyKeys cfg st0 (updateMiner cfg st m oi) (dbOfType m.typ) m.id := by
  unfold updateMiner
  cases oi with
  | none =>
    exact onlyKeys_write _ _ _ _ _ _ _ (by simp [keysOf, slotStatus]) (onlyKeys_write _ _ _ _ _ _ _ (by simp [keysOf, slotAcct])
      (onlyKeys_write _ _ _ _ _ _ _ (by simp [keysOf, slotStake]) h))
  | some info =>
    exact onlyKeys_write _ _ _ _ _ _ _ (by simp [keysOf, slotStatus]) (onlyKeys_write _ _ _ _ _ _ _ (by simp [keysOf, slotAcct])
      (onlyKeys_write _ _ _ _ _ _ _ (by simp [keysOf, slotStake]) (onlyKeys_write _ _ _ _ _ _ _ (by simp [keysOf]) h)))

theorem onlyKeys_removeMiner (cfg : Cfg) (st st0 : State) (id acc : Bytes) (t l : Nat)
    (h : OnlyKeys cfg st0 st (dbOfType t) id) : OnlyKeys cfg st0 (removeMiner cfg st id acc t l) (dbOfType t) id := by
  unfold removeMiner
  split
  · exact onlyKeys_write _ _ _ _ _ _ _ (by simp [keysOf, slotStatus]) (onlyKeys_write _ _ _ _ _ _ _ (by simp [keysOf, slotAcct])
      (onlyKeys_write _ _ _ _ _ _ _ (by simp [keysOf, slotStake]) (onlyKeys_write _ _ _ _ _ _ _ (by simp [keysOf]) h)))
  · exact onlyKeys_write _ _ _ _ _ _ _ (by simp [keysOf, slotStatus]) (onlyKeys_write _ _ _ _ _ _ _ (by simp [keysOf, slotStake]) h)

theorem getMinerById_frame (cfg : Cfg) (st st' : State) (dT d : DbId) (i j : Bytes) (h : OnlyKeys cfg st st' dT i)
    (hne : d ≠ dT ∨ ∀ k ∈ keysOf cfg j, k ∉ keysOf cfg i) : getMinerById cfg st' d j = getMinerById cfg st d j := by
  have hk : ∀ k ∈ keysOf cfg j, (st'.live d).get k = (st.live d).get k := by
    intro k hk
    apply h
    rcases hne with hne | hne
    · exact Or.inl hne
    · exact Or.inr (hne k hk)
  unfold getMinerById readMiner slotStake slotAcct slotStatus
  rw [hk j (by simp [keysOf]), hk (cfg.H j) (by simp [keysOf]), hk (cfg.H (cfg.H j)) (by simp [keysOf]),
    hk (cfg.H (cfg.H (cfg.H j))) (by simp [keysOf])]

theorem stakeAt_frame (cfg : Cfg) (st st' : State) (dT d : DbId) (i j : Bytes) (h : OnlyKeys cfg st st' dT i)
    (hne : d ≠ dT ∨ cfg.H j ∉ keysOf cfg i) : stakeAt cfg st' d j = stakeAt cfg st d j := by
  unfold stakeAt slotStake
  rw [h d (cfg.H j) hne]

theorem sep_keys_disjoint (cfg : Cfg) (U : List Bytes) (hs : SepU cfg U) (i j : Bytes) (hi : i ∈ U) (hj : j ∈ U) (hij : j ≠ i) :
    ∀ k ∈ keysOf cfg j, k ∉ keysOf cfg i := hs.2 j hj i hi hij

/-- An id (of the universe) that a registry does not know has no stake recorded there. -/
def Clean (cfg : Cfg) (U : List Bytes) (st : State) : Prop :=
  ∀ d j, j ∈ U → getMinerById cfg st d j = none → stakeAt cfg st d j = 0

theorem clean_step (cfg : Cfg) (U : List Bytes) (st st' : State) (dT : DbId) (i : Bytes) (hs : SepU cfg U) (hi : i ∈ U)
    (hc : Clean cfg U st) (hok : OnlyKeys cfg st st' dT i)
    (ht : getMinerById cfg st' dT i = none → stakeAt cfg st' dT i = 0) : Clean cfg U st' := by
  intro d j hj hnone
  by_cases hdj : d = dT ∧ j = i
  · obtain ⟨rfl, rfl⟩ := hdj; exact ht hnone
  · have hne : d ≠ dT ∨ j ≠ i := by
      by_cases hd : d = dT
      · exact Or.inr (fun e => hdj ⟨hd, e⟩)
      · exact Or.inl hd
    have h1 : getMinerById cfg st' d j = getMinerById cfg st d j := by
      apply getMinerById_frame cfg st st' dT d i j hok
      rcases hne with h | h
      · exact Or.inl h
      · exact Or.inr (sep_keys_disjoint cfg U hs i j hi hj h)
    have h2 : stakeAt cfg st' d j = stakeAt cfg st d j := by
      apply stakeAt_frame cfg st st' dT d i j hok
      rcases hne with h | h
      · exact Or.inl h
      · exact Or.inr (sep_keys_disjoint cfg U hs i j hi hj h _ (by simp [keysOf]))
    rw [h2]; exact hc d j hj (h1 ▸ hnone)

theorem clean_of_live (cfg : Cfg) (U : List Bytes) (st st' : State) (h : st'.live = st.live) (hc : Clean cfg U st) : Clean cfg U st' := by
  intro d j hj hn
  have : getMinerById cfg st d j = none := by rw [← getMinerById_congr cfg st st' h]; exact hn
  rw [stakeAt_of_live cfg st st' h]; exact hc d j hj this

theorem getMinerById_isSome (cfg : Cfg) (st : State) (d : DbId) (id : Bytes) :
    (getMinerById cfg st d id).isSome ↔ (st.live d).get id ≠ [] ∧ (cfg.dec ((st.live d).get id)).isSome := by
  unfold getMinerById
  by_cases hv : (st.live d).get id = []
  · simp [hv]
  · simp only [hv, if_false, ne_eq, not_false_eq_true, true_and]
    cases cfg.dec ((st.live d).get id) <;> simp

/-- The record slot is what makes a miner present. -/
theorem present_of_rec (cfg : Cfg) (st st' : State) (d : DbId) (i : Bytes) (h : (st'.live d).get i = (st.live d).get i)
    (hp : getMinerById cfg st d i ≠ none) : getMinerById cfg st' d i ≠ none := by
  have h1 := (getMinerById_isSome cfg st d i).mp (Option.isSome_iff_ne_none.mpr hp)
  rw [← h] at h1
  exact Option.isSome_iff_ne_none.mp ((getMinerById_isSome cfg st' d i).mpr h1)

/-- Stake recorded over the whole universe, in all three registries. -/
def stakeTotal (cfg : Cfg) (st : State) (U : List Bytes) : Nat :=
  (U.map (stakeAt cfg st .val)).sum + (U.map (stakeAt cfg st .prop)).sum + (U.map (stakeAt cfg st .zero)).sum

theorem stakeTotal_point (cfg : Cfg) (U : List Bytes) (st st' : State) (dT : DbId) (i : Bytes) (hs : SepU cfg U) (hn : U.Nodup)
    (hi : i ∈ U) (hok : OnlyKeys cfg st st' dT i) :
    stakeTotal cfg st' U + stakeAt cfg st dT i = stakeTotal cfg st U + stakeAt cfg st' dT i := by
  have hother : ∀ d, d ≠ dT → (U.map (stakeAt cfg st' d)).sum = (U.map (stakeAt cfg st d)).sum := by
    intro d hd
    apply sum_congr
    intro j _
    exact stakeAt_frame cfg st st' dT d i j hok (Or.inl hd)
  have hsame : (U.map (stakeAt cfg st' dT)).sum + stakeAt cfg st dT i = (U.map (stakeAt cfg st dT)).sum + stakeAt cfg st' dT i := by
    apply sum_point U _ _ i hi hn
    intro j hj hne
    exact stakeAt_frame cfg st st' dT dT i j hok (Or.inr (sep_keys_disjoint cfg U hs i j hi hj hne _ (by simp [keysOf])))
  unfold stakeTotal
  cases dT
  · rw [hother .prop (by decide), hother .zero (by decide)]; omega
  · rw [hother .val (by decide), hother .zero (by decide)]; omega
  · rw [hother .val (by decide), hother .prop (by decide)]; omega

theorem stakeTotal_of_live (cfg : Cfg) (U : List Bytes) (st st' : State) (h : st'.live = st.live) :
    stakeTotal cfg st' U = stakeTotal cfg st U := by
  unfold stakeTotal stakeAt; rw [h]

end Rangers.Miner
