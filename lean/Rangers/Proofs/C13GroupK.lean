import Mathlib.Tactic.Ring
import Mathlib.Tactic.Linarith
import Rangers.Model.Shamir
/-! `GetGroupK`: the IEEE-754 double quotient followed by `math.Ceil` is the exact integer ceiling
    whenever `n·thr < 2^52`. -/
namespace Rangers.Proofs.C13
open Rangers.Model.Shamir

/-- Rounding a quotient to a multiple of `2^-s` (either direction, the upward one only when the
    quotient is inexact) does not change its ceiling, provided the grid is at least as fine as
    `1/b`. -/
theorem ceil_round_aux (a b P q' : Nat) (hb : 0 < b) (hs : b ≤ P)
    (hq : q' = a * P / b ∨ (q' = a * P / b + 1 ∧ 0 < a * P % b)) :
    (q' + P - 1) / P = (a + b - 1) / b := by
  have hP : 0 < P := by omega
  set c := (a + b - 1) / b with hc
  have hdm := Nat.div_add_mod (a + b - 1) b
  have hml := Nat.mod_lt (a + b - 1) hb
  rw [← hc] at hdm
  have h3 : a ≤ b * c := by omega
  have h4 : b * c ≤ a + (b - 1) := by omega
  have hdm2 := Nat.div_add_mod (a * P) b
  have hml2 := Nat.mod_lt (a * P) hb
  set q := a * P / b with hq0
  set rem := a * P % b with hrem
  have h3P : a * P ≤ b * (c * P) := by
    calc a * P ≤ (b * c) * P := Nat.mul_le_mul_right P h3
      _ = b * (c * P) := by ring
  have h4P : b * (c * P) ≤ a * P + (b * P - P) := by
    calc b * (c * P) = (b * c) * P := by ring
      _ ≤ (a + (b - 1)) * P := Nat.mul_le_mul_right P h4
      _ = a * P + (b * P - P) := by rw [Nat.add_mul, Nat.sub_mul, Nat.one_mul]
  have hbP : P ≤ b * P := Nat.le_mul_of_pos_left P hb
  -- upper bound: q' ≤ c*P
  have hup : q' ≤ c * P := by
    rcases hq with h | ⟨h, hr⟩
    · rw [h]
      have : b * q ≤ b * (c * P) := by omega
      exact Nat.le_of_mul_le_mul_left this hb
    · rw [h]
      have : b * q < b * (c * P) := by omega
      exact Nat.lt_of_mul_lt_mul_left this
  -- lower bound: c*P < q + P
  have hlo : c * P < q + P := by
    by_contra hcon
    have hle : q + P ≤ c * P := by omega
    have := Nat.mul_le_mul_left b hle
    rw [Nat.mul_add] at this
    omega
  have hq' : q ≤ q' := by rcases hq with h | ⟨h, _⟩ <;> omega
  rw [Nat.div_eq_iff hP]
  have e1 : P * c = c * P := Nat.mul_comm _ _
  have e2 : P * (c + 1) = c * P + P := by ring
  constructor <;> omega

theorem bitLen_le_of_lt (a k : Nat) (h : a < 2 ^ k) : bitLen a ≤ k := by
  unfold bitLen
  split
  · omega
  · rename_i h0
    have := (Nat.log2_lt h0).2 h
    omega

theorem lt_two_pow_bitLen (b : Nat) : b < 2 ^ bitLen b := by
  unfold bitLen
  split
  · rename_i h; subst h; simp
  · exact Nat.lt_log2_self

theorem ceil_fdiv53 (a b : Nat) (ha : 0 < a) (hb : 0 < b) (ha52 : a < 2 ^ 52) :
    ceilDyadic (fdiv53 a b) = (a + b - 1) / b := by
  have hbl := bitLen_le_of_lt a 52 ha52
  have hbb := lt_two_pow_bitLen b
  unfold fdiv53 ceilDyadic
  simp only
  set s0 := 53 + bitLen b - bitLen a with hs0
  set s := (if 2 ^ 53 ≤ (a <<< s0) / b then s0 - 1 else s0) with hs
  have hsge : bitLen b ≤ s := by
    rw [hs]; split <;> omega
  have hbs : b ≤ 2 ^ s := by
    have : 2 ^ bitLen b ≤ 2 ^ s := Nat.pow_le_pow_right (by omega) hsge
    omega
  rw [Nat.shiftLeft_eq]
  apply ceil_round_aux a b (2 ^ s) _ hb hbs
  split
  · rename_i hcond
    right
    refine ⟨rfl, ?_⟩
    rcases hcond with h | ⟨h, _⟩ <;> omega
  · left; rfl

theorem getGroupK_formula (thr div n : Nat) (hdiv : 0 < div) (hd53 : div < 2 ^ 53) (ha : n * thr < 2 ^ 52) :
    getGroupK thr div n = some ((n * thr + div - 1) / div) := by
  unfold getGroupK
  simp only
  have hd0 : div ≠ 0 := by omega
  simp only [hd0, if_false]
  by_cases h0 : n * thr = 0
  · simp only [h0, if_true, Nat.zero_add]
    congr 1
    exact (Nat.div_eq_of_lt (by omega)).symm
  · simp only [h0, if_false]
    have : ¬ (2 ^ 53 ≤ n * thr ∨ 2 ^ 53 ≤ div) := by omega
    simp only [this, if_false]
    rw [ceil_fdiv53 (n * thr) div (by omega) hdiv ha]

theorem getGroupK_51 (n : Nat) (hn : n < 2 ^ 46) : getGroupK 51 100 n = some ((n * 51 + 99) / 100) := by
  have := getGroupK_formula 51 100 n (by omega) (by omega) (by omega)
  simpa using this

theorem getGroupK_51_bounds (n k : Nat) (hn0 : 0 < n) (hn : n < 2 ^ 46) (hk : getGroupK 51 100 n = some k) :
    1 ≤ k ∧ k ≤ n ∧ n < 2 * k := by
  rw [getGroupK_51 n hn] at hk
  injection hk with hk
  omega

end Rangers.Proofs.C13
