import Rangers.Proofs.JournalRootSteps2
import Rangers.Proofs.JournalSteps4
/-! `RevAt c SimR` for GetAllRefund (a reader that copies the whole storage trie into the read cache). -/
namespace Rangers.Proofs.JournalG
open Rangers Rangers.Model.Journal Rangers.Proofs.Journal

variable {c : Cfg}

theorem cacheFold_isEmpty (l cd : List (Key × Val)) (h : cd.isEmpty = false) :
    (l.foldl (fun c p => if (mget c p.1).isSome then c else mset c p.1 p.2) cd).isEmpty = false := by
  induction l generalizing cd with
  | nil => exact h
  | cons p t ih =>
    simp only [List.foldl]
    apply ih
    split
    · exact h
    · exact isEmpty_mset _ _ _

/-- the bulk cache fill must not turn an empty read cache into a non-empty one -/
def CacheAllOkObj (o : Obj) : Prop := o.cached.isEmpty = false ∨ o.strie = []

instance (o : Obj) : Decidable (CacheAllOkObj o) := by unfold CacheAllOkObj; infer_instance

theorem XObj_cacheAll (o : Obj) (h : CacheAllOkObj o) : XObj o.cacheAll o := by
  refine ⟨rfl, rfl, rfl, rfl, fun _ => rfl, ?_, rfl⟩
  rcases h with h | h
  · show (o.strie.foldl _ o.cached).isEmpty = o.cached.isEmpty
    rw [cacheFold_isEmpty _ _ h, h]
  · simp [Obj.cacheAll, h]

/-- side condition of `GetAllRefund` for the root theorem -/
def AllRefundOk (s : ADB) (a : Addr) : Prop :=
  CreateOk s a ∧ (match res s a with | .live o => CacheAllOkObj o | _ => True)

instance (s : ADB) (a : Addr) : Decidable (AllRefundOk s a) := by
  unfold AllRefundOk; apply instDecidableAnd (dq := ?_); split <;> infer_instance

theorem revAtR_getAllRefund (s : ADB) (a : Addr) (hok : AllRefundOk s a) : RevAt c SimR (fun x => (getAllRefund x a).1) s :=
  revAtR_viaResolveNew s a _ (fun s1 o => putObj s1 a o.cacheAll) true
    (fun h => by simp [getAllRefund, h])
    (fun h => by simp only [getAllRefund, h, Bool.false_eq_true, if_false]; rcases resolveNew s a with ⟨s1, _ | _⟩ <;> rfl)
    hok.1 (fun s1 o _ hm hd hl => by
      have hres : res s1 a = .live o := by rw [res_def, hm]; simp [hd]
      have hco : CacheAllOkObj o := by
        rcases hl with hl | ⟨_, rfl⟩
        · have := hok.2; rw [hl] at this; exact this
        · exact Or.inr rfl
      have hold : Proofs.Journal.RevAt c (fun x => putObj x a o.cacheAll) s1 :=
        Proofs.Journal.RevAt.of_sim (fun h => h) rfl rfl rfl (fun _ =>
          sim_of_res_upd (a := a) (o := o) rfl (putObj_Frame _ _ _) hres
            (fun b => res_putObj s1 a b _ (by exact hd)) ⟨rfl, rfl, rfl, fun k => cacheAll_get o k, rfl⟩)
      refine RevAtR.strengthen hold (fun E hj _ => ?_)
      have hE : E = [] := by simpa [putObj] using hj
      subst hE
      rw [undoAll_nil]
      refine ⟨fun b => Iff.rfl, fun b => ?_⟩
      rw [res_putObj s1 a b _ (by exact hd)]
      by_cases hab : a = b
      · subst hab; simp only [if_true, hres]; exact .live (XObj_cacheAll o hco)
      · simp only [hab, if_false]; exact XRes.refl _)

end Rangers.Proofs.JournalG
