import Mathlib.AlgebraicGeometry.EllipticCurve.Affine.Point
import Mathlib.FieldTheory.Finite.Basic
import Rangers.Model.Bls14Verify
import Rangers.Proofs.Bls14Field
/-!
The model's G1 arithmetic IS the group law of the elliptic curve `y² = x³ + 3` over `ZMod p`
(Mathlib's `WeierstrassCurve.Affine.Point`), given that `p` is prime.
-/
namespace Rangers.Proofs.Bls14
open Rangers Rangers.Model.Bls14

variable [hp : Fact (Nat.Prime P)]

/-- The base field. -/
abbrev F := ZMod P

/-- `y² = x³ + 3`. -/
def W : WeierstrassCurve.Affine F := { a₁ := 0, a₂ := 0, a₃ := 0, a₄ := 0, a₆ := (B : F) }

theorem natCast_ne_zero_of_lt (n : ℕ) (h0 : 0 < n) (hl : n < P) : (n : F) ≠ 0 := by
  rw [Ne, ZMod.natCast_eq_zero_iff]
  exact Nat.not_dvd_of_pos_of_lt h0 hl

theorem two_ne_zero' : (2 : F) ≠ 0 := by
  have := natCast_ne_zero_of_lt 2 (by decide) (by decide)
  exact_mod_cast this

theorem three_ne_zero' : (3 : F) ≠ 0 := by
  have := natCast_ne_zero_of_lt 3 (by decide) (by decide)
  exact_mod_cast this

theorem W_Δ_ne_zero : W.Δ ≠ 0 := by
  have h : W.Δ = -((3888 : ℕ) : F) := by
    simp only [W, WeierstrassCurve.Δ, WeierstrassCurve.b₂, WeierstrassCurve.b₄, WeierstrassCurve.b₆,
      WeierstrassCurve.b₈, B, Generated.Bls14.curveB]
    push_cast; ring
  rw [h, neg_ne_zero]
  exact natCast_ne_zero_of_lt 3888 (by decide) (by decide)

/-! ### casts of the model's field operations -/

theorem cast_fmul (a b : ℕ) : ((fmul a b : ℕ) : F) = a * b := by
  simp [fmul, ZMod.natCast_mod]

theorem cast_fadd (a b : ℕ) : ((fadd a b : ℕ) : F) = a + b := by
  simp [fadd, ZMod.natCast_mod]

theorem cast_fsub (a b : ℕ) : ((fsub a b : ℕ) : F) = a - b := by
  have hle : b % P ≤ P := Nat.le_of_lt (Nat.mod_lt _ P_pos)
  simp [fsub, ZMod.natCast_mod, Nat.cast_sub hle, sub_eq_add_neg]

theorem cast_fneg (a : ℕ) : ((fneg a : ℕ) : F) = -a := by
  have hle : a % P ≤ P := Nat.le_of_lt (Nat.mod_lt _ P_pos)
  simp [fneg, ZMod.natCast_mod, Nat.cast_sub hle]

theorem cast_finv (a : ℕ) : ((finv a : ℕ) : F) = (a : F)⁻¹ := by
  unfold finv
  rw [powMod_spec _ _ _ (by decide), ZMod.natCast_mod, Nat.cast_pow]
  by_cases h0 : (a : F) = 0
  · rw [h0, inv_zero, zero_pow (by decide)]
  · have h1 : (a : F) ^ (P - 1) = 1 := ZMod.pow_card_sub_one_eq_one h0
    have h2 : (a : F) ^ (P - 2) * (a : F) = 1 := by
      rw [← pow_succ]
      have : P - 2 + 1 = P - 1 := by decide
      rw [this, h1]
    exact eq_inv_of_mul_eq_one_left h2

/-- The Nat-level curve test is the Weierstrass equation over `ZMod p`. -/
theorem onCurveXY_iff (x y : ℕ) : onCurveXY x y = true ↔ W.Equation (x : F) (y : F) := by
  rw [WeierstrassCurve.Affine.equation_iff]
  simp only [W, onCurveXY, beq_iff_eq, zero_mul, add_zero]
  rw [← ZMod.natCast_eq_natCast_iff']
  push_cast
  constructor <;> intro h <;> linear_combination h

/-! ### interpretation of model points -/

theorem nonsing {X Y : F} (h : W.Equation X Y) : W.Nonsingular X Y :=
  (WeierstrassCurve.Affine.equation_iff_nonsingular_of_Δ_ne_zero W_Δ_ne_zero).mp h

theorem eqn_of_nonsing {X Y : F} (h : W.Nonsingular X Y) : W.Equation X Y :=
  (WeierstrassCurve.Affine.equation_iff_nonsingular_of_Δ_ne_zero W_Δ_ne_zero).mpr h

open Classical in
/-- Meaning of a model point in the Mathlib group. Off-curve pairs ↦ 0 (they are never valid). -/
noncomputable def ι : Pt → W.Point
  | .inf => 0
  | .aff x y => if h : W.Equation (x : F) (y : F) then .some _ _ (nonsing h) else 0

/-- A value the Go code can hold after a successful decode: on the curve, coordinates reduced. -/
def Valid (q : Pt) : Prop := q.onCurve = true ∧ q.reduced = true

theorem some_congr {X Y X' Y' : F} (h : W.Nonsingular X Y) (h' : W.Nonsingular X' Y')
    (hx : X = X') (hy : Y = Y') :
    (WeierstrassCurve.Affine.Point.some X Y h : W.Point) = .some X' Y' h' := by
  subst hx; subst hy; rfl

/-- If the casts of `(x, y)` are the coordinates of a Mathlib point, `ι (x, y)` is that point. -/
theorem ι_eq_some (x y : ℕ) {X Y : F} (hn : W.Nonsingular X Y) (hx : (x : F) = X) (hy : (y : F) = Y) :
    ι (.aff x y) = .some X Y hn ∧ onCurveXY x y = true := by
  subst hx; subst hy
  have he := eqn_of_nonsing hn
  exact ⟨by simp [ι, he], (onCurveXY_iff x y).mpr he⟩

theorem ι_aff {x y : ℕ} (h : onCurveXY x y = true) :
    ι (.aff x y) = .some _ _ (nonsing ((onCurveXY_iff x y).mp h)) :=
  (ι_eq_some x y _ rfl rfl).1

theorem natCast_inj_of_lt {a b : ℕ} (ha : a < P) (hb : b < P) (h : (a : F) = b) : a = b := by
  rw [ZMod.natCast_eq_natCast_iff'] at h
  rwa [Nat.mod_eq_of_lt ha, Nat.mod_eq_of_lt hb] at h

/-- `ι` is injective on valid points. -/
theorem ι_inj (a b : Pt) (ha : Valid a) (hb : Valid b) (h : ι a = ι b) : a = b := by
  cases a with
  | inf =>
    cases b with
    | inf => rfl
    | aff x y =>
      rw [ι_aff hb.1] at h
      exact absurd h.symm (WeierstrassCurve.Affine.Point.some_ne_zero _)
  | aff x y =>
    cases b with
    | inf =>
      rw [ι_aff ha.1] at h
      exact absurd h (WeierstrassCurve.Affine.Point.some_ne_zero _)
    | aff x' y' =>
      rw [ι_aff ha.1, ι_aff hb.1] at h
      injection h with hx hy
      have ra := ha.2; have rb := hb.2
      simp only [Pt.reduced, Bool.and_eq_true, decide_eq_true_eq] at ra rb
      rw [natCast_inj_of_lt ra.1 rb.1 hx, natCast_inj_of_lt ra.2 rb.2 hy]

/-- The model's negation is the group's. -/
theorem ι_neg (a : Pt) (ha : Valid a) : Valid a.neg ∧ ι a.neg = -ι a := by
  cases a with
  | inf => exact ⟨⟨rfl, rfl⟩, by simp [Pt.neg, ι]⟩
  | aff x y =>
    have ra := ha.2
    simp only [Pt.reduced, Bool.and_eq_true, decide_eq_true_eq] at ra
    rw [ι_aff ha.1, WeierstrassCurve.Affine.Point.neg_some]
    have hn := (WeierstrassCurve.Affine.nonsingular_neg (W' := W) (x : F) (y : F)).mpr
      (nonsing ((onCurveXY_iff x y).mp ha.1))
    have := ι_eq_some x (fneg y) hn rfl (by rw [cast_fneg]; simp [W])
    exact ⟨⟨this.2, by simp [Pt.neg, Pt.reduced, ra.1, fneg_lt]⟩, this.1⟩

/-! ### addition -/

theorem beq_mod_iff (a b : ℕ) : (a % P == b % P) = true ↔ (a : F) = b := by
  rw [beq_iff_eq, ZMod.natCast_eq_natCast_iff']

theorem beq_mod_zero_iff (a : ℕ) : (a % P == 0) = true ↔ (a : F) = 0 := by
  rw [beq_iff_eq, ZMod.natCast_eq_zero_iff, Nat.dvd_iff_mod_eq_zero]

theorem negY_eq (X Y : F) : W.negY X Y = -Y := by simp [W]

theorem ι_double (x y : ℕ) (ha : Valid (.aff x y)) :
    Valid (Pt.double (.aff x y)) ∧ ι (Pt.double (.aff x y)) = ι (.aff x y) + ι (.aff x y) := by
  have h1 := (onCurveXY_iff x y).mp ha.1
  rw [ι_aff ha.1]
  by_cases hy0 : (y : F) = 0
  · have hb : (y % P == 0) = true := (beq_mod_zero_iff y).mpr hy0
    have hY : (y : F) = W.negY (x : F) (y : F) := by rw [negY_eq, hy0, neg_zero]
    rw [WeierstrassCurve.Affine.Point.add_self_of_Y_eq hY]
    simp only [Pt.double, hb, if_true]
    exact ⟨⟨rfl, rfl⟩, rfl⟩
  · have hb : ¬ (y % P == 0) = true := fun h => hy0 ((beq_mod_zero_iff y).mp h)
    have hY : (y : F) ≠ W.negY (x : F) (y : F) := by
      rw [negY_eq]
      intro h
      have : (2 : F) * y = 0 := by linear_combination h
      rcases mul_eq_zero.mp this with h2 | h2
      · exact two_ne_zero' h2
      · exact hy0 h2
    rw [WeierstrassCurve.Affine.Point.add_self_of_Y_ne hY]
    simp only [Pt.double, hb]
    have hsl : W.slope (x : F) x y y = 3 * (x : F) ^ 2 * (2 * (y : F))⁻¹ := by
      rw [WeierstrassCurve.Affine.slope_of_Y_ne (W := W) rfl hY, negY_eq, div_eq_mul_inv]
      simp only [W]
      congr 1
      · ring
      · congr 1; ring
    have key := ι_eq_some
      (fsub (fmul (fmul (fmul 3 (fmul x x)) (finv (fmul 2 y))) (fmul (fmul 3 (fmul x x)) (finv (fmul 2 y)))) (fmul 2 x))
      (fsub (fmul (fmul (fmul 3 (fmul x x)) (finv (fmul 2 y)))
        (fsub x (fsub (fmul (fmul (fmul 3 (fmul x x)) (finv (fmul 2 y))) (fmul (fmul 3 (fmul x x)) (finv (fmul 2 y)))) (fmul 2 x)))) y)
      (WeierstrassCurve.Affine.nonsingular_add (nonsing h1) (nonsing h1) fun hxy => hY hxy.right)
      (by
        rw [hsl]
        simp only [cast_fsub, cast_fmul, cast_finv, WeierstrassCurve.Affine.addX, W]
        push_cast
        ring)
      (by
        rw [hsl]
        simp only [cast_fsub, cast_fmul, cast_finv, WeierstrassCurve.Affine.addY,
          WeierstrassCurve.Affine.negAddY, WeierstrassCurve.Affine.addX, W,
          WeierstrassCurve.Affine.negY]
        push_cast
        ring)
    exact ⟨⟨key.2, by simp [Pt.reduced, fsub_lt]⟩, key.1⟩

/-- The model's addition is the group's, and stays inside the valid points. -/
theorem ι_add (a b : Pt) (ha : Valid a) (hb : Valid b) :
    Valid (a.add b) ∧ ι (a.add b) = ι a + ι b := by
  cases a with
  | inf =>
    cases b with
    | inf => exact ⟨⟨rfl, rfl⟩, by simp [Pt.add, ι]⟩
    | aff x y => exact ⟨hb, by simp [Pt.add, ι]⟩
  | aff x1 y1 =>
    cases b with
    | inf => exact ⟨ha, by simp [Pt.add, ι]⟩
    | aff x2 y2 =>
      have h1 := (onCurveXY_iff x1 y1).mp ha.1
      have h2 := (onCurveXY_iff x2 y2).mp hb.1
      by_cases hx : (x1 : F) = x2
      · have hbx : (x1 % P == x2 % P) = true := (beq_mod_iff x1 x2).mpr hx
        by_cases hy : (y1 : F) = y2
        · -- same point: doubling
          have hby : (y1 % P == y2 % P) = true := (beq_mod_iff y1 y2).mpr hy
          have rb := hb.2; have ra := ha.2
          simp only [Pt.reduced, Bool.and_eq_true, decide_eq_true_eq] at ra rb
          have e1 : x2 = x1 := (natCast_inj_of_lt ra.1 rb.1 hx).symm
          have e2 : y2 = y1 := (natCast_inj_of_lt ra.2 rb.2 hy).symm
          subst e1; subst e2
          simp only [Pt.add, hbx, hby, if_true]
          exact ι_double x2 y2 ha
        · -- opposite points
          have hby : ¬ (y1 % P == y2 % P) = true := fun h => hy ((beq_mod_iff y1 y2).mp h)
          have hneg : (y1 : F) = W.negY (x2 : F) (y2 : F) :=
            (WeierstrassCurve.Affine.Y_eq_of_X_eq h1 h2 hx).resolve_left hy
          simp only [Pt.add, hbx, hby, if_true]
          rw [ι_aff ha.1, ι_aff hb.1, WeierstrassCurve.Affine.Point.add_of_Y_eq hx hneg]
          exact ⟨⟨rfl, rfl⟩, rfl⟩
      · have hbx : ¬ (x1 % P == x2 % P) = true := fun h => hx ((beq_mod_iff x1 x2).mp h)
        simp only [Pt.add, hbx]
        rw [ι_aff ha.1, ι_aff hb.1, WeierstrassCurve.Affine.Point.add_of_X_ne hx]
        have hsl : W.slope (x1 : F) x2 y1 y2 = ((y2 : F) - y1) * ((x2 : F) - x1)⁻¹ := by
          rw [WeierstrassCurve.Affine.slope_of_X_ne hx, div_eq_mul_inv, ← neg_sub (y2 : F) y1,
            ← neg_sub (x2 : F) x1, inv_neg, neg_mul_neg]
        have key := ι_eq_some
          (fsub (fsub (fmul (fmul (fsub y2 y1) (finv (fsub x2 x1))) (fmul (fsub y2 y1) (finv (fsub x2 x1)))) x1) x2)
          (fsub (fmul (fmul (fsub y2 y1) (finv (fsub x2 x1)))
            (fsub x1 (fsub (fsub (fmul (fmul (fsub y2 y1) (finv (fsub x2 x1))) (fmul (fsub y2 y1) (finv (fsub x2 x1)))) x1) x2))) y1)
          (WeierstrassCurve.Affine.nonsingular_add (nonsing h1) (nonsing h2) fun hxy => hx hxy.left)
          (by
            rw [hsl]
            simp only [cast_fsub, cast_fmul, cast_finv, WeierstrassCurve.Affine.addX, W]
            ring)
          (by
            rw [hsl]
            simp only [cast_fsub, cast_fmul, cast_finv, WeierstrassCurve.Affine.addY,
              WeierstrassCurve.Affine.negAddY, WeierstrassCurve.Affine.addX, W,
              WeierstrassCurve.Affine.negY]
            ring)
        exact ⟨⟨key.2, by simp [Pt.reduced, fsub_lt]⟩, key.1⟩

/-! ### scalar multiplication -/

/-- Value of a little-endian bit list. -/
def ofBitsLE : List Bool → ℕ
  | [] => 0
  | b :: bs => (if b then 1 else 0) + 2 * ofBitsLE bs

omit hp in
theorem ofBitsLE_bitsLE (fuel k : ℕ) (h : k < 2 ^ fuel) : ofBitsLE (bitsLE fuel k) = k := by
  induction fuel generalizing k with
  | zero =>
    have : k = 0 := by simpa using h
    subst this; rfl
  | succ fuel ih =>
    rw [bitsLE]
    split
    · next h0 => subst h0; rfl
    · have hk : k / 2 < 2 ^ fuel := by rw [Nat.pow_succ] at h; omega
      simp only [ofBitsLE, ih _ hk, beq_iff_eq]
      split <;> omega

theorem ι_mul_bits (a : Pt) (ha : Valid a) (bs : List Bool) :
    Valid (bs.foldr (fun b s => if b then Pt.add (Pt.double s) a else Pt.double s) .inf) ∧
    ι (bs.foldr (fun b s => if b then Pt.add (Pt.double s) a else Pt.double s) .inf)
      = ofBitsLE bs • ι a := by
  induction bs with
  | nil => exact ⟨⟨rfl, rfl⟩, by simp [ofBitsLE, ι]⟩
  | cons b bs ih =>
    simp only [List.foldr_cons]
    set s := bs.foldr (fun b s => if b then Pt.add (Pt.double s) a else Pt.double s) .inf with hs
    have hd : Valid (Pt.double s) ∧ ι (Pt.double s) = ι s + ι s := by
      cases hs' : s with
      | inf => exact ⟨⟨rfl, rfl⟩, by simp [Pt.double, ι]⟩
      | aff x y => rw [hs'] at ih; exact ι_double x y ih.1
    cases b with
    | false =>
      simp only [Bool.false_eq_true, if_false, ofBitsLE]
      refine ⟨hd.1, ?_⟩
      rw [hd.2, ih.2, zero_add, two_mul, add_nsmul]
    | true =>
      simp only [if_true, ofBitsLE]
      have := ι_add (Pt.double s) a hd.1 ha
      refine ⟨this.1, ?_⟩
      rw [this.2, hd.2, ih.2, add_nsmul, one_nsmul, two_mul, add_nsmul, add_comm]

/-- The model's double-and-add is scalar multiplication in the group (scalars below 2^512). -/
theorem ι_mul (a : Pt) (ha : Valid a) (k : ℕ) (hk : k < 2 ^ 512) :
    Valid (Pt.mul a k) ∧ ι (Pt.mul a k) = k • ι a := by
  unfold Pt.mul
  rw [List.foldl_reverse]
  have := ι_mul_bits a ha (bitsLE 512 k)
  rw [ofBitsLE_bitsLE 512 k hk] at this
  exact this

end Rangers.Proofs.Bls14
