import Rangers.Proofs.ChainStoreSafe
/-!
Fork choice end to end: after a crash-free delivery the new chain is not lighter than the old one,
where weight is (cumulative QN, then prove value and hash of the FIRST block above the fork point).
The re-entry of `addBlockOnChain` after `removeFromCommonAncestor` is followed through: the removal
stops exactly at the fork point, and the re-entry inserts the coming block on top of it.
-/
namespace Rangers.Proofs.ChainStore
open Rangers.Model.ChainStore

/-! ### lists -/

theorem suffix_mem {α} {a b : List α} (h : a <:+ b) {x : α} (hx : x ∈ a) : x ∈ b := by
  obtain ⟨p, rfl⟩ := h
  exact List.mem_append_right _ hx

theorem head_of_latest {T : Nat → Option Block} {d : Disk} {m : Mem} {c : List Block} (inv : Inv T d m c) :
    ∃ rest, c = m.latest :: rest := by
  have := inv.latest
  cases c with
  | nil => simp at this
  | cons z rest => simp at this; subst this; exact ⟨rest, rfl⟩

/-- two chain members at the same height are the same block -/
theorem ChainInv.height_inj {d : Disk} {c : List Block} (ci : ChainInv d c) {x y : Block} (hx : x ∈ c) (hy : y ∈ c)
    (h : x.height = y.height) : x = y := by
  have a := ci.heights_mem x hx
  have b := ci.heights_mem y hy
  rw [h, b] at a
  simpa using a.symm

/-- along a linked chain of tree blocks the cumulative QN does not decrease towards the head -/
theorem qn_le_head {T : Nat → Option Block} (vt : ValidTree T) :
    ∀ (c : List Block) (x : Block), Linked (x :: c) → (∀ z ∈ x :: c, T z.hash = some z) →
      ∀ z ∈ x :: c, z.totalQN ≤ x.totalQN := by
  intro c
  induction c with
  | nil => intro x _ _ z hz; simp at hz; subst hz; exact Nat.le_refl _
  | cons y rest ih =>
    intro x hl hT z hz
    rcases List.mem_cons.mp hz with e | e
    · subst e; exact Nat.le_refl _
    · have h1 := ih y hl.2.2 (fun w hw => hT w (List.mem_cons_of_mem _ hw)) z e
      have hy := hT y (List.mem_cons_of_mem _ (List.mem_cons_self ..))
      have hx := hT x (List.mem_cons_self ..)
      have := (vt.parent x y hx (by rw [hl.1]; exact hy)).2
      omega

/-- in a linked chain, the member one height above `anc` is `anc`'s child -/
theorem Linked.child_of : ∀ (c : List Block), Linked c → ∀ anc ln, anc ∈ c → ln ∈ c →
    ln.height = anc.height + 1 → ln.pre = anc.hash := by
  intro c
  induction c with
  | nil => intro h; exact absurd h (by simp [Linked])
  | cons x rest ih =>
    intro hl anc ln ha hn hh
    rcases List.mem_cons.mp hn with e1 | e1 <;> rcases List.mem_cons.mp ha with e2 | e2
    · subst e1; subst e2; omega
    · subst e1
      cases rest with
      | nil => cases e2
      | cons y r2 =>
        have hxy : ln.pre = y.hash ∧ y.height < ln.height ∧ Linked (y :: r2) := hl
        rcases List.mem_cons.mp e2 with e3 | e3
        · subst e3; exact hxy.1
        · have := hxy.2.2.lt_head anc e3
          omega
    · subst e2
      have := hl.lt_head ln e1
      omega
    · have hne : rest ≠ [] := by intro e; rw [e] at e1; cases e1
      exact ih (hl.tail hne) anc ln e2 e1 hh

/-! ### `remove` and the verified cache -/

theorem remove_verified (s : St) (x : Block) :
    (remove s x).1.mem.verified = s.mem.verified.filter (fun h => h != x.hash) := by
  unfold remove
  simp only
  split
  · simp [removeA]
  · simp only [removeB, unmark]
    split <;> simp [removeA]

theorem remove_future (s : St) (x : Block) : (remove s x).1.mem.future = s.mem.future := by
  unfold remove
  simp only
  split
  · simp [removeA]
  · simp only [removeB, unmark]
    split <;> simp [removeA]

/-! ### `removeFromCommonAncestor` stops exactly at the fork point -/

theorem removeLoop_safe {T : Nat → Option Block} (anc : Block) :
    ∀ (n : Nat) (s : St) (c : List Block), Safe s → Inv T s.disk s.mem c → anc ∈ c →
      s.mem.latest.height ≤ anc.height + n →
      Safe (removeLoop anc.height n s) ∧
      ∃ c2, Inv T (removeLoop anc.height n s).disk (removeLoop anc.height n s).mem c2 ∧ c2 <:+ c ∧
        (removeLoop anc.height n s).mem.latest = anc ∧
        (∀ h ∈ s.mem.verified, (∀ z ∈ c, z.hash ≠ h) → h ∈ (removeLoop anc.height n s).mem.verified) ∧
        (∀ t ∈ s.mem.pending, t ∈ (removeLoop anc.height n s).mem.pending) ∧
        (∀ x ∈ c, x ∉ c2 → ∀ t ∈ x.txs, t ∈ (removeLoop anc.height n s).mem.pending) := by
  intro n
  induction n with
  | zero =>
    intro s c hs inv ha hb
    refine ⟨hs, c, inv, List.suffix_refl _, ?_, fun h hh _ => hh, fun t ht => ht, fun x hx hn => absurd hx hn⟩
    obtain ⟨rest, hc⟩ := head_of_latest inv
    have hmem : s.mem.latest ∈ c := by rw [hc]; exact List.mem_cons_self ..
    have hle : anc.height ≤ s.mem.latest.height := by
      have := inv.chain.linked
      rw [hc] at this
      exact this.le_head anc (by rw [← hc]; exact ha)
    show s.mem.latest = anc
    exact inv.chain.height_inj hmem ha (by simp only [Nat.add_zero] at hb; omega)
  | succ n ih =>
    intro s c hs inv ha hb
    unfold removeLoop
    simp only
    obtain ⟨rest, hc⟩ := head_of_latest inv
    have hmem : s.mem.latest ∈ c := by rw [hc]; exact List.mem_cons_self ..
    cases hL : s.lookupHeight (anc.height + n + 1) with
    | none =>
      simp only
      refine ih s c hs inv ha ?_
      have h1 := lookupHeight_none hL
      have h2 := inv.chain.heights_mem _ hmem
      by_cases e : s.mem.latest.height = anc.height + n + 1
      · rw [e, h1] at h2; cases h2
      · omega
    | some hd =>
      simp only
      have h1 := lookupHeight_heights inv hL
      have h2 := inv.chain.heights_only _ _ h1
      have hle : hd.height ≤ s.mem.latest.height := by
        have := inv.chain.linked
        rw [hc] at this
        exact this.le_head hd (by rw [← hc]; exact h2.1)
      have hlat : s.mem.latest.height = anc.height + n + 1 := by omega
      have hhd : hd = s.mem.latest := inv.chain.height_inj h2.1 hmem (by omega)
      have hblk : s.disk.blocks hd.hash = some s.mem.latest := by
        rw [hhd]; exact inv.chain.blocks_mem _ hmem
      rw [hblk]
      simp only
      have hrest : rest ≠ [] := by
        intro e
        have := inv.chain.linked
        rw [hc, e] at this
        have : s.mem.latest.height = 0 := this
        omega
      have inv' : Inv T s.disk s.mem (s.mem.latest :: rest) := by rw [← hc]; exact inv
      have hsafe := safe_remove s.mem.latest s hs
      have hR := Out.of_alive (remove_spec hs.1 inv' hrest) hsafe.1
      have hanc : anc ∈ rest := by
        rw [hc] at ha
        rcases List.mem_cons.mp ha with e | e
        · rw [e] at hlat; omega
        · exact e
      have hb' : (remove s s.mem.latest).1.mem.latest.height ≤ anc.height + n := by
        have hl := hR.1.latest
        have hlk := inv'.chain.linked
        cases rest with
        | nil => exact absurd rfl hrest
        | cons y r2 =>
          simp at hl
          have : y.height < s.mem.latest.height := hlk.2.1
          rw [← hl]; omega
      obtain ⟨hs2, c2, inv2, hsuf, hl2, hv2, hp2, hr2⟩ := ih _ rest hsafe hR.1 hanc hb'
      refine ⟨hs2, c2, inv2, ?_, hl2, ?_, fun t ht => hp2 t (hR.2.2.1 t ht), ?_⟩
      rotate_left 2
      · intro x hx hn t ht
        rw [hc] at hx
        rcases List.mem_cons.mp hx with e | e
        · subst e; exact hp2 t (hR.2.1 t ht).2
        · exact hr2 x e hn t ht
      · rw [hc]; exact List.IsSuffix.trans hsuf (List.suffix_cons _ _)
      · intro h hh hz
        apply hv2 h
        · rw [remove_verified]
          simp only [List.mem_filter, bne_iff_ne, ne_eq]
          exact ⟨hh, fun e => hz _ hmem e.symm⟩
        · intro z hzr
          exact hz z (by rw [hc]; exact List.mem_cons_of_mem _ hzr)

/-! ### extending the head: the old chain stays, the block goes on top -/

/-- nothing pending is lost except into a block of the new chain -/
def Kept (pend : List Nat) (c' : List Block) (pend' : List Nat) : Prop :=
  ∀ t ∈ pend, t ∈ pend' ∨ ∃ y ∈ c', t ∈ y.txs

theorem verify_pending (s : St) (b : Block) : (verify s b).1.mem.pending = s.mem.pending := by
  unfold verify
  repeat' split
  all_goals rfl

/-- what `insertB ∘ insertA` gives a node that cannot die -/
theorem insertAB_safe {T : Nat → Option Block} {s : St} {b y : Block} {c : List Block} (hs : Safe s)
    (inv : Inv T s.disk s.mem c) (hp : b.pre = y.hash) (hy : c.head? = some y) (hh : y.height < b.height)
    (hn : s.disk.blocks b.hash = none) (hT : T b.hash = some b) (hfresh : ∀ z ∈ c, ∀ t ∈ b.txs, t ∉ z.txs) :
    Safe (insertB (insertA s b) b) ∧ Inv T (insertB (insertA s b) b).disk (insertB (insertA s b) b).mem (b :: c) ∧
      (∀ t ∈ s.mem.pending, t ∉ b.txs → t ∈ (insertB (insertA s b) b).mem.pending) := by
  have hsafe : Safe (insertB (insertA s b) b) := safe_insertB b _ (safe_writes _ s hs)
  have := Out.of_alive (insertAB_spec hs.1 inv hp hy hh hn hT hfresh) hsafe.1
  exact ⟨hsafe, this.1, this.2.2.2.2⟩

theorem insertBlock_ext {T : Nat → Option Block} {s : St} {b y : Block} {c : List Block}
    (cont : St → Block → St)
    (hcont : ∀ s' f c', Safe s' → Inv T s'.disk s'.mem c' → T f.hash = some f → f.pre = s'.mem.latest.hash →
      Safe (cont s' f) ∧ ∃ c'', Inv T (cont s' f).disk (cont s' f).mem c'' ∧ c' <:+ c'' ∧
        Kept s'.mem.pending c'' (cont s' f).mem.pending)
    (hs : Safe s) (inv : Inv T s.disk s.mem c) (hp : b.pre = y.hash) (hy : c.head? = some y)
    (hh : y.height < b.height) (hn : s.disk.blocks b.hash = none) (hT : T b.hash = some b)
    (hv : s.mem.verified.contains b.hash = true) (hfresh : ∀ z ∈ c, ∀ t ∈ b.txs, t ∉ z.txs) :
    Safe (insertBlock cont s b).1 ∧
    ∃ c', Inv T (insertBlock cont s b).1.disk (insertBlock cont s b).1.mem c' ∧ (b :: c) <:+ c' ∧
      Kept s.mem.pending c' (insertBlock cont s b).1.mem.pending := by
  rw [insertBlock_hit cont s b hv]
  obtain ⟨hsB, invB, hkB⟩ := insertAB_safe (s := touchVerified s b) hs (touchVerified_inv inv) hp hy hh hn hT hfresh
  cases hf : (insertB (insertA (touchVerified s b) b) b).mem.future b.hash with
  | none =>
    simp only
    refine ⟨hsB, b :: c, invB, List.suffix_refl _, ?_⟩
    intro t ht
    by_cases hb : t ∈ b.txs
    · exact Or.inr ⟨b, List.mem_cons_self .., hb⟩
    · exact Or.inl (hkB t ht hb)
  | some f =>
    simp only
    have hfut := invB.fut _ _ hf
    have hlat : (insertB (insertA (touchVerified s b) b) b).mem.latest = b := by
      have := invB.latest; simp at this; exact this.symm
    obtain ⟨h1, c'', h2, h3, h4⟩ := hcont _ f _ hsB invB hfut.2 (by rw [hlat]; exact hfut.1)
    refine ⟨h1, c'', h2, h3, ?_⟩
    intro t ht
    by_cases hb : t ∈ b.txs
    · exact Or.inr ⟨b, suffix_mem h3 (List.mem_cons_self ..), hb⟩
    · exact h4 t (hkB t ht hb)

/-- a block whose parent is the head: whatever happens (duplicate, rejected, inserted with a cascade of
    parked orphans), the old chain is a suffix of the new one -/
theorem addCore_ext {T : Nat → Option Block} (vt : ValidTree T) :
    ∀ (fuel : Nat) (s : St) (b : Block) (c : List Block), Safe s → Inv T s.disk s.mem c → T b.hash = some b →
      b.pre = s.mem.latest.hash →
      Safe (addCore fuel s b).1 ∧ ∃ c', Inv T (addCore fuel s b).1.disk (addCore fuel s b).1.mem c' ∧ c <:+ c' ∧
        Kept s.mem.pending c' (addCore fuel s b).1.mem.pending := by
  intro fuel
  induction fuel with
  | zero => intro s b c hs inv _ _; exact ⟨hs, c, inv, List.suffix_refl _, fun t ht => Or.inl ht⟩
  | succ fuel ih =>
    intro s b c hs inv hT hpre
    unfold addCore
    simp only
    split
    · exact ⟨hs, c, inv, List.suffix_refl _, fun t ht => Or.inl ht⟩
    · rename_i hex
      have hnb : s.disk.blocks b.hash = none := by
        cases hb : s.disk.blocks b.hash with
        | none => rfl
        | some z => exact absurd (Or.inr (by simp [hb])) hex
      have vs := verify_spec inv hT
      have hsv : Safe (verify s b).1 := safe_verify b s hs
      have hvp := verify_pending s b
      split
      · rename_i s1 heq
        have e : (verify s b).1 = s1 := by rw [heq]
        rw [← e]
        exact ⟨hsv, c, by rw [vs.1]; exact vs.2.2.1, List.suffix_refl _, fun t ht => Or.inl (by rw [hvp]; exact ht)⟩
      · rename_i s1 heq
        have e : (verify s b).1 = s1 := by rw [heq]
        have e2 : (verify s b).2 = true := by rw [heq]
        rw [e] at vs hsv hvp
        have inv1 : Inv T s1.disk s1.mem c := by rw [vs.1]; exact vs.2.2.1
        first | rw [if_pos hpre] | skip
        obtain ⟨rest, hc⟩ := head_of_latest inv
        have hmemc : s.mem.latest ∈ c := by rw [hc]; exact List.mem_cons_self ..
        have hval := vt.parent b s.mem.latest hT (by rw [hpre]; exact inv.fromT _ hmemc)
        obtain ⟨h1, c', h2, h3, h4⟩ := insertBlock_ext (fun s f => (addCore fuel s f).1)
          (fun s' f c' hs' inv' hTf hpf => ih s' f c' hs' inv' hTf hpf) hsv inv1 hpre inv.latest hval.1
          (by rw [vs.1]; exact hnb) hT (vs.2.2.2.2 e2) (fresh_on_chain vt inv.chain.linked inv.fromT inv.latest hpre hT)
        exact ⟨h1, c', h2, List.IsSuffix.trans (List.suffix_cons _ _) h3, by rw [← hvp]; exact h4⟩

/-- … and if the block is new and its verification is cached (the re-entry after a reorg), it is
    inserted: `b :: c` is a suffix of the new chain -/
theorem addCore_inserts {T : Nat → Option Block} (vt : ValidTree T) (fuel : Nat) (s : St) (b : Block) (c : List Block)
    (hs : Safe s) (inv : Inv T s.disk s.mem c) (hT : T b.hash = some b) (hpre : b.pre = s.mem.latest.hash)
    (hnb : s.disk.blocks b.hash = none) (hne : b.hash ≠ s.mem.latest.hash)
    (hv : s.mem.verified.contains b.hash = true) :
    Safe (addCore (fuel + 1) s b).1 ∧
    ∃ c', Inv T (addCore (fuel + 1) s b).1.disk (addCore (fuel + 1) s b).1.mem c' ∧ (b :: c) <:+ c' ∧
      Kept s.mem.pending c' (addCore (fuel + 1) s b).1.mem.pending := by
  unfold addCore
  simp only
  have hex : ¬ (b.hash = s.mem.latest.hash ∨ (s.disk.blocks b.hash).isSome = true) := by
    intro h
    rcases h with h | h
    · exact hne h
    · rw [hnb] at h; cases h
  rw [if_neg hex]
  have hver : verify s b = (s, true) := by
    unfold verify
    rw [if_pos hv]
  rw [hver]
  simp only
  rw [if_pos hpre]
  obtain ⟨rest, hc⟩ := head_of_latest inv
  have hmemc : s.mem.latest ∈ c := by rw [hc]; exact List.mem_cons_self ..
  have hval := vt.parent b s.mem.latest hT (by rw [hpre]; exact inv.fromT _ hmemc)
  exact insertBlock_ext (fun s f => (addCore fuel s f).1)
    (fun s' f c' hs' inv' hTf hpf => addCore_ext vt fuel s' f c' hs' inv' hTf hpf) hs inv hpre inv.latest hval.1 hnb hT hv
    (fresh_on_chain vt inv.chain.linked inv.fromT inv.latest hpre hT)

/-! ### the weight order of the property -/

/-- `c'` is not lighter than `c`: `c'` extends `c`; or its head has a larger cumulative QN; or the same
    cumulative QN and, at the fork point `fork` (on both chains), the first block `nb` of `c'` above it is
    not beaten by the first block `ln` of `c` above it on (prove value, then hash). -/
def WeightGE (c c' : List Block) : Prop :=
  c <:+ c' ∨ ∃ hd hd', c.head? = some hd ∧ c'.head? = some hd' ∧
    (hd.totalQN < hd'.totalQN ∨
     (hd.totalQN = hd'.totalQN ∧ ∃ fork ∈ c, fork ∈ c' ∧ ∃ ln ∈ c, ∃ nb ∈ c',
        ln.pre = fork.hash ∧ nb.pre = fork.hash ∧ pvGreater ln nb = false))

theorem WeightGE.refl (c : List Block) : WeightGE c c := Or.inl (List.suffix_refl _)

/-- transactions of the blocks a reorg removed are pending again, unless the new chain contains them -/
def RemovedPending (c c' : List Block) (pend' : List Nat) : Prop :=
  ∀ x ∈ c, x ∉ c' → ∀ t ∈ x.txs, t ∈ pend' ∨ ∃ y ∈ c', t ∈ y.txs

theorem RemovedPending.of_suffix {c c' : List Block} (h : c <:+ c') (p : List Nat) : RemovedPending c c' p :=
  fun _ hx hn => absurd (suffix_mem h hx) hn

/-- the reorg path: remove down to the fork point, re-enter, insert -/
theorem reorg_weight {T : Nat → Option Block} (vt : ValidTree T) (fuel : Nat) (s1 : St) (b anc : Block) (c : List Block)
    (hs : Safe s1) (inv : Inv T s1.disk s1.mem c) (hT : T b.hash = some b)
    (hanc : s1.disk.blocks b.pre = some anc) (hnb : s1.disk.blocks b.hash = none)
    (hv : s1.mem.verified.contains b.hash = true) (hqn : s1.mem.latest.totalQN ≤ b.totalQN)
    (htie : b.totalQN = s1.mem.latest.totalQN →
      ∃ ln, s1.lookupHeight (anc.height + 1) = some ln ∧ pvGreater ln b = false) :
    Safe (addCore (fuel + 1) (removeFromCommonAncestor s1 anc) b).1 ∧
    ∃ c', Inv T (addCore (fuel + 1) (removeFromCommonAncestor s1 anc) b).1.disk
        (addCore (fuel + 1) (removeFromCommonAncestor s1 anc) b).1.mem c' ∧ WeightGE c c' ∧
        RemovedPending c c' (addCore (fuel + 1) (removeFromCommonAncestor s1 anc) b).1.mem.pending := by
  have hancc := inv.chain.blocks_only _ _ hanc
  have hfresh : ∀ z ∈ c, z.hash ≠ b.hash := by
    intro z hz e
    have := inv.chain.blocks_mem z hz
    rw [e, hnb] at this; cases this
  obtain ⟨hs2, c2, inv2, hsuf, hlat2, hver2, hpend2, hrem2⟩ :=
    removeLoop_safe (T := T) anc (s1.mem.latest.height - anc.height) s1 c hs inv hancc.1 (by omega)
  rw [show removeFromCommonAncestor s1 anc = removeLoop anc.height (s1.mem.latest.height - anc.height) s1 from rfl]
  generalize removeLoop anc.height (s1.mem.latest.height - anc.height) s1 = s2 at hs2 inv2 hlat2 hver2 hpend2 hrem2 ⊢
  have hv2 : s2.mem.verified.contains b.hash = true := by
    have := hver2 b.hash (by simpa using hv) hfresh
    simpa using this
  have hnb2 : s2.disk.blocks b.hash = none := by
    cases hb : s2.disk.blocks b.hash with
    | none => rfl
    | some z =>
      have hz := inv2.chain.blocks_only _ _ hb
      exact absurd hz.2 (hfresh z (suffix_mem hsuf hz.1))
  have hpre2 : b.pre = s2.mem.latest.hash := by rw [hlat2]; exact hancc.2.symm
  have hne2 : b.hash ≠ s2.mem.latest.hash := by
    rw [hlat2]
    exact fun e => hfresh anc hancc.1 e.symm
  obtain ⟨hs3, c', inv3, hsuf3, hk3⟩ := addCore_inserts vt fuel s2 b c2 hs2 inv2 hT hpre2 hnb2 hne2 hv2
  generalize (addCore (fuel + 1) s2 b).1 = s3 at hs3 inv3 hk3 ⊢
  refine ⟨hs3, c', inv3, Or.inr ?_, ?_⟩
  rotate_left
  · intro x hx hn t ht
    have hx2 : x ∉ c2 := fun h => hn (suffix_mem hsuf3 (List.mem_cons_of_mem _ h))
    exact hk3 t (hrem2 x hx hx2 t ht)
  obtain ⟨rest, hc⟩ := head_of_latest inv
  obtain ⟨rest', hc'⟩ := head_of_latest inv3
  have hbc' : b ∈ c' := suffix_mem hsuf3 (List.mem_cons_self ..)
  have hqb : b.totalQN ≤ s3.mem.latest.totalQN := by
    have hl := inv3.chain.linked
    rw [hc'] at hl
    exact qn_le_head vt rest' _ hl (by rw [← hc']; exact inv3.fromT) b (by rw [← hc']; exact hbc')
  refine ⟨s1.mem.latest, s3.mem.latest, by rw [hc]; rfl, by rw [hc']; rfl, ?_⟩
  by_cases hgt : s1.mem.latest.totalQN < s3.mem.latest.totalQN
  · exact Or.inl hgt
  · have heq : b.totalQN = s1.mem.latest.totalQN := by omega
    obtain ⟨ln, hln, hpv⟩ := htie heq
    have h1 := lookupHeight_heights inv hln
    have h2 := inv.chain.heights_only _ _ h1
    have hanc2 : anc ∈ c2 := by
      obtain ⟨r2, hc2⟩ := head_of_latest inv2
      rw [hc2, hlat2]; exact List.mem_cons_self ..
    refine Or.inr ⟨by omega, anc, hancc.1, suffix_mem hsuf3 (List.mem_cons_of_mem _ hanc2), ln, h2.1, b, hbc', ?_, ?_, hpv⟩
    · exact Linked.child_of c inv.chain.linked anc ln hancc.1 h2.1 h2.2
    · exact hancc.2.symm

/-- **Fork choice, end to end** (for `addBlockOnChain`). -/
theorem addCore_weight {T : Nat → Option Block} (vt : ValidTree T) (fuel : Nat) (s : St) (b : Block) (c : List Block)
    (hs : Safe s) (inv : Inv T s.disk s.mem c) (hT : T b.hash = some b) :
    Safe (addCore (fuel + 2) s b).1 ∧
    ∃ c', Inv T (addCore (fuel + 2) s b).1.disk (addCore (fuel + 2) s b).1.mem c' ∧ WeightGE c c' ∧
      RemovedPending c c' (addCore (fuel + 2) s b).1.mem.pending := by
  by_cases hpre : b.pre = s.mem.latest.hash
  · obtain ⟨h1, c', h2, h3, _⟩ := addCore_ext vt (fuel + 2) s b c hs inv hT hpre
    exact ⟨h1, c', h2, Or.inl h3, RemovedPending.of_suffix h3 _⟩
  · unfold addCore
    simp only
    split
    · exact ⟨hs, c, inv, WeightGE.refl c, RemovedPending.of_suffix (List.suffix_refl _) _⟩
    · rename_i hex
      have hnb : s.disk.blocks b.hash = none := by
        cases hb : s.disk.blocks b.hash with
        | none => rfl
        | some z => exact absurd (Or.inr (by simp [hb])) hex
      have vs := verify_spec inv hT
      have hsv : Safe (verify s b).1 := safe_verify b s hs
      have hl := verify_lookup s b
      split
      · rename_i s1 heq
        have e : (verify s b).1 = s1 := by rw [heq]
        rw [← e]
        exact ⟨hsv, c, by rw [vs.1]; exact vs.2.2.1, WeightGE.refl c, RemovedPending.of_suffix (List.suffix_refl _) _⟩
      · rename_i s1 heq
        have e : (verify s b).1 = s1 := by rw [heq]
        have e2 : (verify s b).2 = true := by rw [heq]
        rw [e] at vs hsv hl
        have inv1 : Inv T s1.disk s1.mem c := by rw [vs.1]; exact vs.2.2.1
        have hver := vs.2.2.2.2 e2
        have hlat : s1.mem.latest = s.mem.latest := vs.2.2.2.1
        first | rw [if_neg hpre] | skip
        split
        · exact ⟨hsv, c, inv1, WeightGE.refl c, RemovedPending.of_suffix (List.suffix_refl _) _⟩
        · rename_i hnlt
          split
          · exact ⟨hsv, c, inv1, WeightGE.refl c, RemovedPending.of_suffix (List.suffix_refl _) _⟩
          · rename_i anc hanc
            split
            · rename_i hgt
              exact reorg_weight vt fuel s1 b anc c hsv inv1 hT hanc (by rw [vs.1]; exact hnb) hver
                (by rw [hlat]; omega) (by intro h; rw [hlat] at h; omega)
            · rename_i hngt
              split
              · exact ⟨hsv, c, inv1, WeightGE.refl c, RemovedPending.of_suffix (List.suffix_refl _) _⟩
              · rename_i ln hln
                split
                · exact ⟨hsv, c, inv1, WeightGE.refl c, RemovedPending.of_suffix (List.suffix_refl _) _⟩
                · rename_i hpv
                  exact reorg_weight vt fuel s1 b anc c hsv inv1 hT hanc (by rw [vs.1]; exact hnb) hver
                    (by rw [hlat]; omega) (fun _ => ⟨ln, hln, by simpa using hpv⟩)

end Rangers.Proofs.ChainStore
