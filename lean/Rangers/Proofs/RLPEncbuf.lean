import Rangers.Model.RLPEncbuf
import Rangers.Proofs.RLPItem
/-! The two-phase encoder buffer produces exactly `encode`. -/
namespace Rangers.RLP
open Rangers

mutual
  /-- string data an item contributes to `encbuf.str` -/
  def sdata : Item → Bytes
    | .str b => encString b
    | .list xs => sdataL xs
  def sdataL : List Item → Bytes
    | [] => []
    | x :: xs => sdata x ++ sdataL xs
end

mutual
  /-- total length of the list headers inside an item -/
  def hsz : Item → Nat
    | .str _ => 0
    | .list xs => (encHead 0xc0 0xf7 (encodeList xs).length).length + hszL xs
  def hszL : List Item → Nat
    | [] => 0
    | x :: xs => hsz x + hszL xs
end

mutual
  /-- the list heads an item appends, when its string data starts at offset `off` -/
  def heads : Item → Nat → List (Nat × Nat)
    | .str _, _ => []
    | .list xs, off => (off, (encodeList xs).length) :: headsL xs off
  def headsL : List Item → Nat → List (Nat × Nat)
    | [], _ => []
    | x :: xs, off => heads x off ++ headsL xs (off + (sdata x).length)
end

mutual
  theorem enc_len (it : Item) : (encode it).length = (sdata it).length + hsz it := by
    cases it with
    | str b => simp [encode, sdata, hsz]
    | list xs =>
      simp only [encode, encListPayload, sdata, hsz, List.length_append]
      rw [encL_len xs]; omega
  theorem encL_len (xs : List Item) : (encodeList xs).length = (sdataL xs).length + hszL xs := by
    cases xs with
    | nil => simp [encodeList, sdataL, hszL]
    | cons x xs =>
      simp only [encodeList, sdataL, hszL, List.length_append]
      rw [enc_len x, encL_len xs]; omega
end

theorem encHead_len (sz : Nat) : (encHead 0xc0 0xf7 sz).length = if sz < 56 then 1 else 1 + intsize sz := by
  unfold encHead intsize
  split <;> simp <;> omega

theorem set_mid {α : Type} (L : List α) (a a' : α) (T : List α) : (L ++ a :: T).set L.length a' = L ++ a' :: T := by
  induction L with
  | nil => simp
  | cons x xs ih => simp [ih]

theorem get_mid {α : Type} (L : List α) (a : α) (T : List α) : (L ++ a :: T)[L.length]? = some a := by
  induction L with
  | nil => simp
  | cons x xs ih => simpa using ih

mutual
  /-- what the writer does to the buffer -/
  theorem wItem_spec (it : Item) (w : EncBuf) :
      wItem it w = { str := w.str ++ sdata it, lheads := w.lheads ++ heads it w.str.length, lhsize := w.lhsize + hsz it } := by
    cases it with
    | str b => simp [wItem, EncBuf.encodeString, sdata, heads, hsz]
    | list xs =>
      simp only [wItem, EncBuf.list]
      rw [wItems_spec xs]
      simp only [EncBuf.listEnd, List.append_assoc, List.singleton_append]
      rw [get_mid]
      simp only [EncBuf.size, List.length_append]
      have hsz' : w.str.length + (sdataL xs).length + (w.lhsize + hszL xs) - w.str.length - w.lhsize = (encodeList xs).length := by
        rw [encL_len xs]; omega
      rw [hsz', set_mid]
      simp only [sdata, heads, hsz, encHead_len]
      congr 1
      omega
  theorem wItems_spec (xs : List Item) (w : EncBuf) :
      wItems xs w = { str := w.str ++ sdataL xs, lheads := w.lheads ++ headsL xs w.str.length, lhsize := w.lhsize + hszL xs } := by
    cases xs with
    | nil => simp [wItems, sdataL, headsL, hszL]
    | cons x xs =>
      simp only [wItems]
      rw [wItem_spec x, wItems_spec xs]
      simp only [sdataL, headsL, hszL, List.append_assoc, List.length_append, Nat.add_assoc]
end

/-- the next head (if any) starts at or after position `n` -/
def okT : List (Nat × Nat) → Nat → Prop
  | [], _ => True
  | (o, _) :: _, n => n ≤ o

theorem okT_mono {T : List (Nat × Nat)} {n m : Nat} (h : okT T n) (hm : m ≤ n) : okT T m := by
  cases T with
  | nil => trivial
  | cons t _ => obtain ⟨o, _⟩ := t; simp only [okT] at h ⊢; omega

/-- rendering may copy `n` bytes of string data first when no head starts before them -/
theorem render_advance (T : List (Nat × Nat)) (S : Bytes) (pos n : Nat) (h : okT T (pos + n)) (hS : pos + n ≤ S.length) :
    renderFrom T S pos = (S.drop pos).take n ++ renderFrom T S (pos + n) := by
  cases T with
  | nil =>
    simp only [renderFrom]
    rw [← List.drop_drop, List.take_append_drop]
  | cons t hs =>
    obtain ⟨o, sz⟩ := t
    simp only [okT] at h
    simp only [renderFrom]
    have h1 : o - pos = n + (o - (pos + n)) := by omega
    rw [h1, List.take_add, ← List.drop_drop]
    simp [List.append_assoc]

theorem okT_heads (it : Item) (off : Nat) (T : List (Nat × Nat)) (h : okT T (off + (sdata it).length)) :
    okT (heads it off ++ T) off := by
  cases it with
  | str b => simpa [heads] using okT_mono h (by omega)
  | list xs => simp [heads, okT]

theorem okT_headsL : ∀ (xs : List Item) (off : Nat) (T : List (Nat × Nat)), okT T (off + (sdataL xs).length) →
    okT (headsL xs off ++ T) off := by
  intro xs
  induction xs with
  | nil => intro off T h; simpa [headsL, sdataL] using h
  | cons x xs ih =>
    intro off T h
    simp only [headsL, List.append_assoc]
    apply okT_heads
    apply ih
    simpa [sdataL, Nat.add_assoc] using h

mutual
  /-- rendering the heads of an item (followed by later heads `T`) yields its encoding -/
  theorem render_item (it : Item) (off : Nat) (pre post : Bytes) (T : List (Nat × Nat))
      (hpre : pre.length = off) (hT : okT T (off + (sdata it).length)) :
      renderFrom (heads it off ++ T) (pre ++ (sdata it ++ post)) off
        = encode it ++ renderFrom T (pre ++ (sdata it ++ post)) (off + (sdata it).length) := by
    cases it with
    | str b =>
      simp only [heads, List.nil_append, sdata, encode]
      rw [render_advance T _ off (encString b).length (by simpa [sdata] using hT) (by simp [hpre])]
      congr 1
      rw [List.drop_left' hpre, List.take_left' rfl]
    | list xs =>
      simp only [heads, List.cons_append, renderFrom, Nat.sub_self, List.take_zero, List.nil_append, sdata, encode, encListPayload]
      rw [render_items xs off pre post T hpre (by simpa [sdata] using hT), List.append_assoc]
  theorem render_items (xs : List Item) (off : Nat) (pre post : Bytes) (T : List (Nat × Nat))
      (hpre : pre.length = off) (hT : okT T (off + (sdataL xs).length)) :
      renderFrom (headsL xs off ++ T) (pre ++ (sdataL xs ++ post)) off
        = encodeList xs ++ renderFrom T (pre ++ (sdataL xs ++ post)) (off + (sdataL xs).length) := by
    cases xs with
    | nil => simp [headsL, sdataL, encodeList]
    | cons x xs =>
      simp only [headsL, sdataL, encodeList, List.append_assoc, List.length_append]
      have hT' : okT (headsL xs (off + (sdata x).length) ++ T) (off + (sdata x).length) :=
        okT_headsL xs _ T (by simpa [sdataL, Nat.add_assoc] using hT)
      rw [render_item x off pre (sdataL xs ++ post) _ hpre hT']
      have hS : pre ++ (sdata x ++ (sdataL xs ++ post)) = (pre ++ sdata x) ++ (sdataL xs ++ post) := by simp
      rw [hS, render_items xs (off + (sdata x).length) (pre ++ sdata x) post T (by simp [hpre])
        (by simpa [sdataL, Nat.add_assoc] using hT), Nat.add_assoc]
end

/-- `EncodeToBytes` through `encbuf` (string data + list heads, `toBytes`) is the recursive `encode`. -/
theorem encodeViaBuf_eq (it : Item) : encodeViaBuf it = encode it := by
  unfold encodeViaBuf EncBuf.toBytes
  rw [wItem_spec]
  simp only [EncBuf.empty, List.nil_append, List.length_nil, Nat.zero_add]
  have := render_item it 0 [] [] [] rfl trivial
  simp only [List.append_nil, List.nil_append, Nat.zero_add, renderFrom] at this
  rw [this, List.drop_of_length_le (Nat.le_refl _)]
  simp

end Rangers.RLP
