import Rangers.Proofs.TrieCanon
/- Histories: the trie after any op sequence represents the map the history defines, and is its only minimal-form representation. -/
namespace Rangers.Trie
open Rangers

/-! ### byte keys -/

theorem nibs_hexOfBytes (bs : Bytes) : Nibs (hexOfBytes bs) := by
  induction bs with
  | nil => simp [hexOfBytes, Nibs]
  | cons b bs ih =>
    simp only [hexOfBytes, nibs_cons]
    have := b.toNat_lt
    refine ⟨by omega, by omega, ih⟩

theorem validKey_keybytesToHex (bs : Bytes) : ValidKey (keybytesToHex bs) :=
  (validKey_iff _).mpr ⟨hexOfBytes bs, rfl, nibs_hexOfBytes bs⟩

theorem hexOfBytes_injective {a b : Bytes} (h : hexOfBytes a = hexOfBytes b) : a = b := by
  induction a generalizing b with
  | nil => cases b with
    | nil => rfl
    | cons y b => simp [hexOfBytes] at h
  | cons x a ih =>
    cases b with
    | nil => simp [hexOfBytes] at h
    | cons y b =>
      simp only [hexOfBytes, List.cons.injEq] at h
      obtain ⟨h1, h2, h3⟩ := h
      have : x.toNat = y.toNat := by omega
      rw [UInt8.toNat_inj.mp this, ih h3]

theorem keybytesToHex_injective {a b : Bytes} (h : keybytesToHex a = keybytesToHex b) : a = b := by
  unfold keybytesToHex at h
  exact hexOfBytes_injective (List.append_cancel_right h)

/-! ### the invariant of a history -/

/-- the trie `t` represents the byte-key map `m` -/
structure Represents (t : Node) (m : Bytes → Option Bytes) : Prop where
  wf : WFRoot t
  agree : ∀ k, content t (keybytesToHex k) = m k
  only : ∀ κ, (∀ k, κ ≠ keybytesToHex k) → content t κ = none

theorem represents_empty : Represents .nil (fun _ => none) :=
  ⟨Or.inl rfl, fun _ => by simp, fun _ _ => by simp⟩

theorem represents_insert {t : Node} {m : Bytes → Option Bytes} (h : Represents t m) (k v : Bytes) (hv : v ≠ []) :
    Represents (insert t (keybytesToHex k) (.value v)).2 (fun k' => if k' = k then some v else m k') := by
  have hk := validKey_keybytesToHex k
  refine ⟨Or.inr (insert_wf v hv t _ h.wf hk), fun k' => ?_, fun κ hκ => ?_⟩
  · rw [content_insert v t _ h.wf hk, h.agree]
    by_cases hkk : k' = k
    · subst hkk; simp
    · have : keybytesToHex k' ≠ keybytesToHex k := fun h0 => hkk (keybytesToHex_injective h0)
      simp [hkk, this]
  · rw [content_insert v t _ h.wf hk, if_neg (hκ k), h.only κ hκ]

theorem represents_delete {t : Node} {m : Bytes → Option Bytes} (h : Represents t m) (k : Bytes) :
    Represents (delete t (keybytesToHex k)).2 (fun k' => if k' = k then none else m k') := by
  have hk := validKey_keybytesToHex k
  refine ⟨delete_wf t _ h.wf hk, fun k' => ?_, fun κ hκ => ?_⟩
  · rw [content_delete t _ h.wf hk, h.agree]
    by_cases hkk : k' = k
    · subst hkk; simp
    · have : keybytesToHex k' ≠ keybytesToHex k := fun h0 => hkk (keybytesToHex_injective h0)
      simp [hkk, this]
  · rw [content_delete t _ h.wf hk, if_neg (hκ k), h.only κ hκ]

theorem represents_applyOp {t : Node} {m : Bytes → Option Bytes} (h : Represents t m) (op : Op) :
    Represents (applyOp t op) (specStep m op) := by
  cases op with
  | upd k v =>
    simp only [applyOp, update, specStep]
    by_cases hv : v = []
    · subst hv; simpa using represents_delete h k
    · have : (v.length != 0) = true := by
        simp only [bne_iff_ne, ne_eq, List.length_eq_zero_iff]; exact hv
      simp only [this, if_true, hv, if_false]
      exact represents_insert h k v hv
  | del k => exact represents_delete h k
  | _ => exact h

theorem represents_foldl (ops : List Op) {t : Node} {m : Bytes → Option Bytes} (h : Represents t m) :
    Represents (ops.foldl applyOp t) (ops.foldl specStep m) := by
  induction ops generalizing t m with
  | nil => exact h
  | cons op ops ih => exact ih (represents_applyOp h op)

theorem represents_run (ops : List Op) : Represents (run ops) (finalMap ops) :=
  represents_foldl ops represents_empty

/-- a map has at most one minimal-form representation -/
theorem represents_unique {a b : Node} {m : Bytes → Option Bytes} (ha : Represents a m) (hb : Represents b m) : a = b := by
  apply wf_unique_iter a b ha.wf hb.wf
  apply sorted_ext _ _ (sortedKeys_iter a) (sortedKeys_iter b)
  intro κ
  show content a κ = content b κ
  by_cases h : ∃ k, κ = keybytesToHex k
  · obtain ⟨k, rfl⟩ := h
    rw [ha.agree, hb.agree]
  · have h' : ∀ k, κ ≠ keybytesToHex k := fun k hk => h ⟨k, hk⟩
    rw [ha.only κ h', hb.only κ h']

end Rangers.Trie
