import Rangers.Proofs.C13IdKey
/-! `Signature.Serialize` / `Deserialize` round trip on valid points (no primality needed). -/
namespace Rangers.Proofs.C13G1
open Rangers Rangers.Model Rangers.Model.Bls14 Rangers.Proofs.Bls14 Rangers.Proofs.C13 Rangers.Generated

theorem padLeft32_length (x : Nat) (hx : x < 256 ^ 32) : (padLeft 32 (natToBE x)).length = 32 := by
  have := natToBE_length_le 32 x hx
  simp only [padLeft, List.length_append, List.length_replicate]; omega

theorem beToNat_padLeft32 (x : Nat) (hx : x < 256 ^ 32) : beToNat (padLeft 32 (natToBE x)) = x := by
  unfold padLeft
  rw [beToNat_replicate_zero, beToNat_natToBE 32 x hx]

theorem sign_roundtrip (q : G1.Point) (hv : Valid1 q) :
    G1.deserializeSign bnCurve (G1.serializeSign (some q)) = some q := by
  cases q with
  | inf =>
    decide
  | aff x y =>
    obtain ⟨hoc, hred⟩ := hv
    simp only [φ, Pt.reduced, Bool.and_eq_true, decide_eq_true_eq] at hred
    have hx : x < 256 ^ 32 := lt_trans hred.1 P_lt
    have hy : y < 256 ^ 32 := lt_trans hred.2 P_lt
    have lx := padLeft32_length x hx
    have ly := padLeft32_length y hy
    have hlen : (padLeft 32 (natToBE x) ++ padLeft 32 (natToBE y)).length = 64 := by
      rw [List.length_append, lx, ly]
    have ht : (padLeft 32 (natToBE x) ++ padLeft 32 (natToBE y)).take 32 = padLeft 32 (natToBE x) := by
      rw [List.take_append_of_le_length (by omega), List.take_of_length_le (by omega)]
    have hd : ((padLeft 32 (natToBE x) ++ padLeft 32 (natToBE y)).drop 32).take 32 = padLeft 32 (natToBE y) := by
      rw [List.drop_append_of_le_length (by omega), List.drop_of_length_le (by omega), List.nil_append,
        List.take_of_length_le (by omega)]
    have hon : G1.isOnCurve bnCurve (.aff x y) = true := by rw [isOnCurve_eq]; exact hoc
    have hnz : ¬ (x = 0 ∧ y = 0) := by
      rintro ⟨rfl, rfl⟩
      revert hon; decide
    have hxm : x % bnCurve.p = x := Nat.mod_eq_of_lt hred.1
    have hym : y % bnCurve.p = y := Nat.mod_eq_of_lt hred.2
    have hu : G1.unmarshal bnCurve (padLeft 32 (natToBE x) ++ padLeft 32 (natToBE y)) = .ok (.aff x y) := by
      unfold G1.unmarshal
      rw [if_neg (by omega), ht, hd, beToNat_padLeft32 x hx, beToNat_padLeft32 y hy, hxm, hym]
      simp only [hnz, if_false, hon, if_true]
    simp only [G1.deserializeSign, G1.serializeSign, G1.marshal, hlen, hu]
    simp

end Rangers.Proofs.C13G1
