import Rangers.Proofs.DecimalArith
import Mathlib.Tactic.SplitIfs
/-!
Totality of the C18 model: `strToBigInt` never reaches the `ErrNaN` panic of
`Float.Mul` / `Float.Quo` (0·Inf, 0/0, Inf/Inf), for any input string and any
decimal count. The only place an infinity can meet a zero is `pow5`, and `pow5`
is always a positive finite float or +Inf.
-/
namespace Rangers.Decimal

/-- positive finite float with non-negative binary exponent, or +Inf -/
def posOrInf : BF → Prop
  | .fin false m e => 0 < m ∧ 0 ≤ e
  | .inf false => True
  | _ => False

theorem roundMant_pos (mode : Mode) (p m : Nat) (st : Bool) (hp : 1 ≤ p) (hm : 0 < m) :
    0 < (roundMant mode p m st).1 := by
  unfold roundMant
  by_cases h : bitLen m ≤ p
  · simp [h, hm]
  · simp only [h, if_false]
    have hlow : 2 ^ (bitLen m - 1) ≤ m := two_pow_bitLen_le hm
    have hq : 0 < m / 2 ^ (bitLen m - p) := by
      apply Nat.div_pos _ (Nat.two_pow_pos _)
      exact le_trans (Nat.pow_le_pow_right (by norm_num) (by omega)) hlow
    cases mode <;> dsimp only <;> split <;> omega

theorem finish_ne_nan (neg : Bool) (mode : Mode) (p m : Nat) (e : Int) (st : Bool) :
    finish neg mode p m e st ≠ .nan := by
  unfold finish
  rcases roundMant mode p m st with ⟨m', s⟩
  dsimp only
  split_ifs <;> simp

theorem finish_posOrInf (mode : Mode) (p m : Nat) (e : Int) (st : Bool) (hp : 1 ≤ p) (hm : 0 < m)
    (he : 0 ≤ e) : posOrInf (finish false mode p m e st) := by
  unfold finish
  have hpos := roundMant_pos mode p m st hp hm
  rcases hrm : roundMant mode p m st with ⟨m', s⟩
  rw [hrm] at hpos
  have h1 : m ≠ 0 := by omega
  have h2 : ¬ ((bitLen m : Int) + e < minExp) := by unfold minExp; omega
  simp only [h1, if_false, h2]
  split_ifs
  · trivial
  · exact ⟨hpos, by omega⟩

theorem mul_posOrInf (mode : Mode) (p : Nat) (x y : BF) (hp : 1 ≤ p) (hx : posOrInf x) (hy : posOrInf y) :
    posOrInf (mul mode p x y) := by
  cases x with
  | nan => exact absurd hx (by simp [posOrInf])
  | zero b => exact absurd hx (by simp [posOrInf])
  | inf bx =>
    cases bx with
    | true => exact absurd hx (by simp [posOrInf])
    | false =>
      cases y with
      | nan => exact absurd hy (by simp [posOrInf])
      | zero b => exact absurd hy (by simp [posOrInf])
      | inf by' =>
        cases by' with
        | true => exact absurd hy (by simp [posOrInf])
        | false => simp [mul, BF.isNeg, posOrInf]
      | fin ny my ey =>
        cases ny with
        | true => exact absurd hy (by simp [posOrInf])
        | false => simp [mul, BF.isNeg, posOrInf]
  | fin nx mx ex =>
    cases nx with
    | true => exact absurd hx (by simp [posOrInf])
    | false =>
      obtain ⟨hmx, hex⟩ := hx
      cases y with
      | nan => exact absurd hy (by simp [posOrInf])
      | zero b => exact absurd hy (by simp [posOrInf])
      | inf by' =>
        cases by' with
        | true => exact absurd hy (by simp [posOrInf])
        | false => simp [mul, BF.isNeg, posOrInf]
      | fin ny my ey =>
        cases ny with
        | true => exact absurd hy (by simp [posOrInf])
        | false =>
          obtain ⟨hmy, hey⟩ := hy
          simp only [mul, bne_self_eq_false]
          exact finish_posOrInf mode p (mx * my) (ex + ey) false hp (Nat.mul_pos hmx hmy) (by omega)

theorem pow5Loop_posOrInf (fuel n : Nat) (z f : BF) (hz : posOrInf z) (hf : posOrInf f) :
    posOrInf (pow5Loop fuel n z f) := by
  induction fuel generalizing n z f with
  | zero => simpa [pow5Loop] using hz
  | succ k ih =>
    unfold pow5Loop
    by_cases hn : n = 0
    · simpa [hn] using hz
    · simp only [hn, if_false]
      apply ih
      · split_ifs
        · exact mul_posOrInf _ _ _ _ (by norm_num [prec]) hz hf
        · exact hz
      · exact mul_posOrInf _ _ _ _ (by norm_num [prec]) hf hf

theorem pow5_posOrInf (n : Nat) : posOrInf (pow5 n) := by
  unfold pow5
  split_ifs
  · exact ⟨by positivity, le_refl _⟩
  · exact pow5Loop_posOrInf _ _ _ _ ⟨by positivity, le_refl _⟩ ⟨by norm_num, le_refl _⟩

theorem quo_fin_ne_nan (mode : Mode) (p : Nat) (n : Bool) (m : Nat) (e : Int) (y : BF) (hy : posOrInf y) :
    quo mode p (.fin n m e) y ≠ .nan := by
  cases y with
  | nan => exact absurd hy (by simp [posOrInf])
  | zero b => exact absurd hy (by simp [posOrInf])
  | inf b => simp [quo]
  | fin ny my ey => simp only [quo]; exact finish_ne_nan _ _ _ _ _ _

theorem mul_fin_ne_nan (mode : Mode) (p : Nat) (n : Bool) (m : Nat) (e : Int) (y : BF) (hy : posOrInf y) :
    mul mode p (.fin n m e) y ≠ .nan := by
  cases y with
  | nan => exact absurd hy (by simp [posOrInf])
  | zero b => exact absurd hy (by simp [posOrInf])
  | inf b => simp [mul]
  | fin ny my ey => simp only [mul]; exact finish_ne_nan _ _ _ _ _ _

theorem buildFloat_ne_nan (neg : Bool) (mant : Nat) (fc exp : Int) (eb : Nat) (z : BF)
    (h : buildFloat neg mant fc exp eb = some z) : z ≠ .nan := by
  unfold buildFloat at h
  dsimp only at h
  generalize (if fc < 0 then fc else 0) = d at h
  generalize (if eb = 10 then exp else 0) = x at h
  split_ifs at h
  all_goals (simp only [Option.some.injEq] at h; subst h)
  · exact finish_ne_nan _ _ _ _ _ _
  · exact quo_fin_ne_nan _ _ _ _ _ _ (pow5_posOrInf _)
  · exact mul_fin_ne_nan _ _ _ _ _ _ (pow5_posOrInf _)

theorem scanBody_ne_nan (neg : Bool) (r : Str) (z : BF) (h : scanBody neg r = some z) : z ≠ .nan := by
  unfold scanBody at h
  dsimp only at h
  by_cases hc : (scanMant r true 0 0 none).count = 0
  · simp [hc] at h
  · simp only [hc, if_false] at h
    cases hse : scanExp (scanMant r true 0 0 none).rest with
    | none => simp [hse] at h
    | some t =>
      obtain ⟨exp, ebase, rest⟩ := t
      simp only [hse] at h
      by_cases hm : (scanMant r true 0 0 none).mant = 0
      · simp only [hm, if_true] at h
        split_ifs at h
        simp only [Option.some.injEq] at h
        subst h; simp
      · simp only [hm, if_false] at h
        cases hb : buildFloat neg (scanMant r true 0 0 none).mant
            (fcountOf (scanMant r true 0 0 none).dp (scanMant r true 0 0 none).count) exp ebase with
        | none => simp [hb] at h
        | some z' =>
          simp only [hb] at h
          split_ifs at h
          simp only [Option.some.injEq] at h
          subst h
          exact buildFloat_ne_nan _ _ _ _ _ _ hb

theorem scanFloat_ne_nan (s : Str) (z : BF) (h : scanFloat s = some z) : z ≠ .nan := by
  unfold scanFloat at h
  split at h
  · simp at h
  · split_ifs at h <;> exact scanBody_ne_nan _ _ _ h

theorem parseFloat_ne_nan (s : Str) (z : BF) (h : parseFloat s = some z) : z ≠ .nan := by
  unfold parseFloat at h
  split_ifs at h
  · simp only [Option.some.injEq] at h; subst h; simp
  · simp only [Option.some.injEq] at h; subst h; simp
  · exact scanFloat_ne_nan _ _ h

/-- `target.Mul(target, base)` with a finite non-zero `base` never panics. -/
theorem mul_base_ne_nan (t : BF) (b : Nat) (ht : t ≠ .nan) :
    mul .away prec t (.fin false b 0) ≠ .nan := by
  cases t with
  | nan => exact absurd rfl ht
  | zero n => simp [mul]
  | inf n => simp [mul]
  | fin n m e => simp only [mul]; exact finish_ne_nan _ _ _ _ _ _

theorem strToBigInt_ne_panic (s : Str) (d : Int) : strToBigInt s d ≠ .panic := by
  unfold strToBigInt
  split_ifs
  · simp
  · split
    · simp
    · rename_i target htarget
      have h1 := parseFloat_ne_nan s target htarget
      have h2 := mul_base_ne_nan target (10 ^ d.toNat) h1
      unfold baseFloat
      split
      · rename_i heq; exact absurd heq h2
      · simp

end Rangers.Decimal
