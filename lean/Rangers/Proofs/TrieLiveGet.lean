import Rangers.Proofs.TrieLiveDefs
import Rangers.Proofs.TrieTotal
/- Resolution of hash nodes and `tryGet` on live tries. -/
namespace Rangers.Trie
open Rangers

theorem Stored.child_short {H : Bytes → Bytes} {st : Store} {k : Key} {v : Node} (h : Stored H st (.short k v)) :
    Stored H st v := fun e he => h e (storeOf_child_short H false k v e he)

theorem Stored.child_full {H : Bytes → Bytes} {st : Store} {cs : List Node} (h : Stored H st (.full cs))
    {c : Node} (hc : c ∈ cs) : Stored H st c := fun e he => h e (storeOf_child_full H false cs c hc e he)

theorem Stored.self {H : Bytes → Bytes} {st : Store} {t : Node} (h : Stored H st t) (hwf : WF t)
    (hbig : 32 ≤ (enc H t).length) : st.lookup (H (enc H t)) = some (collapse H t) :=
  h _ (self_mem_storeOf H false t hwf (Or.inr hbig))

theorem refOf_nil (H : Bytes → Bytes) : refOf H .nil = .empty := rfl
theorem refOf_of_ne_nil (H : Bytes → Bytes) (c : Node) (h : c ≠ .nil) :
    refOf H c = if (enc H c).length < 32 then collapse H c else .hashRef (H (enc H c)) := by
  cases c <;> first | exact absurd rfl h | rfl

/-- expanding a stored collapsed node yields a loaded live node standing for the same subtree -/
theorem expandNode_collapse (H : Bytes → Bytes) (st : Store) (t : Node) :
    WF t → Stored H st t →
      (∀ gen hh child, FlagOK H st child { hash := hh, gen := gen, dirty := false } t →
        ∃ l, expandNode gen hh (collapse H t) = some l ∧ AbsL H st child t l) ∧
      (∀ gen, ∃ l, expandNode gen none (refOf H t) = some l ∧ AbsR H st true t l) := by
  induction t using Node.induct with
  | hnil => intro h; exact absurd h not_WF_nil
  | hval b => intro h; exact absurd h (not_WF_value b)
  | hshort kk v ih =>
    intro hwf hst
    have hA : ∀ gen hh child, FlagOK H st child { hash := hh, gen := gen, dirty := false } (.short kk v) →
        ∃ l, expandNode gen hh (collapse H (.short kk v)) = some l ∧ AbsL H st child (.short kk v) l := by
      intro gen hh child hfl
      rcases (WF_short_iff kk v).mp hwf with ⟨b, rfl, hkk, hb⟩ | ⟨cs, rfl, hne, hnib, hfull⟩
      · obtain ⟨n, rfl, hn⟩ := (validKey_iff kk).mp hkk
        rw [collapse_leaf]
        refine ⟨.short (n ++ [16]) (.value b) { hash := hh, gen := gen, dirty := false },
          by simp [expandNode, compact_roundtrip_term n hn], ?_⟩
        exact AbsL_short.mpr ⟨_, _, rfl, AbsR_value.mpr rfl, hfl⟩
      · obtain ⟨l', hl', habs⟩ := (ih hfull hst.child_short).2 gen
        rw [collapse_ext]
        refine ⟨.short kk l' { hash := hh, gen := gen, dirty := false },
          by simp [expandNode, compact_roundtrip_nibs kk hnib, hl'], ?_⟩
        exact AbsL_short.mpr ⟨_, _, rfl, habs, hfl⟩
    refine ⟨hA, fun gen => ?_⟩
    rw [refOf_of_ne_nil H _ (by simp)]
    split
    · rename_i hsmall
      obtain ⟨l, hl, habs⟩ := hA gen none true (flagOK_embedded gen hst hsmall)
      exact ⟨l, hl, Or.inl habs⟩
    · rename_i hbig
      have hbig' : 32 ≤ (enc H (.short kk v)).length := by omega
      exact ⟨_, by simp [expandNode], Or.inr ⟨rfl, hwf, fun _ => hbig', hst, hst.self hwf hbig'⟩⟩
  | hfull cs ih =>
    intro hwf hst
    obtain ⟨hlen, hslots, hcnt⟩ := (WF_full_iff cs).mp hwf
    have hA : ∀ gen hh child, FlagOK H st child { hash := hh, gen := gen, dirty := false } (.full cs) →
        ∃ l, expandNode gen hh (collapse H (.full cs)) = some l ∧ AbsL H st child (.full cs) l := by
      intro gen hh child hfl
      rw [collapse_full H cs hlen]
      -- the 16 hashed slots
      have hkids : ∀ (xs : List Node), (∀ x ∈ xs, x = .nil ∨ (x ∈ cs ∧ WF x)) →
          ∃ ls, expandNodeL gen (xs.map (refOf H)) = some ls ∧ ls.length = xs.length ∧
            ∀ i, i < xs.length → AbsR H st true (xs[i]?.getD .nil) (ls[i]?.getD .nil) := by
        intro xs
        induction xs with
        | nil => intro _; exact ⟨[], rfl, rfl, fun i hi => by simp at hi⟩
        | cons x xs ihx =>
          intro hx
          obtain ⟨ls, hls, hlen', hpt⟩ := ihx (fun y hy => hx y (by simp [hy]))
          have hx0 : ∃ l, expandNode gen none (refOf H x) = some l ∧ AbsR H st true x l := by
            rcases hx x (by simp) with rfl | ⟨hmem, hwfx⟩
            · exact ⟨.nil, by simp [refOf, expandNode], AbsR_nil.mpr rfl⟩
            · exact (ih x hmem hwfx (hst.child_full hmem)).2 gen
          obtain ⟨l, hl, habs⟩ := hx0
          refine ⟨l :: ls, by simp [expandNodeL, hl, hls], by simp [hlen'], fun i hi => ?_⟩
          cases i with
          | zero => simpa using habs
          | succ i => simpa using hpt i (by simpa using hi)
      have htake : ∀ x ∈ cs.take 16, x = .nil ∨ (x ∈ cs ∧ WF x) := by
        intro x hx
        obtain ⟨i, hi, hxi⟩ := List.getElem_of_mem hx
        have hi16 : i < 16 := by simp at hi; omega
        have hxi' : cs[i]?.getD .nil = x := by
          rw [List.getElem_take] at hxi
          simp [List.getElem?_eq_getElem (show i < cs.length by omega), hxi]
        rcases hslots i (by omega) with h | h
        · left; rw [← hxi']; exact h
        · right
          have : ¬ i = 16 := by omega
          simp only [this, if_false, hxi'] at h
          exact ⟨List.mem_of_mem_take hx, h⟩
      obtain ⟨ls, hls, hlen', hpt⟩ := hkids (cs.take 16) htake
      have hl16 : ls.length = 16 := by rw [hlen']; simp [hlen]
      -- the value slot
      let vb : Bytes := match cs[16]?.getD .nil with | .value b => b | _ => []
      let slot : LNode := if vb.isEmpty then LNode.nil else .value vb
      have hslot : AbsR H st true (cs[16]?.getD .nil) slot := by
        rcases hslots 16 (by omega) with h | h
        · have : slot = .nil := by simp [slot, vb, h]
          rw [h, this]; exact AbsR_nil.mpr rfl
        · simp only [if_true] at h
          obtain ⟨b, hb, hbne⟩ := h
          have : slot = .value b := by
            have hne : b.isEmpty = false := by cases b <;> simp_all
            simp [slot, vb, hb, hne]
          rw [hb, this]; exact AbsR_value.mpr rfl
      refine ⟨.full (ls ++ [slot]) { hash := hh, gen := gen, dirty := false },
        by simp only [expandNode, hls, Option.map_some]; rfl, ?_⟩
      refine AbsL_full.mpr ⟨_, _, rfl, by simp [hlen, hl16], fun i hi => ?_, hfl⟩
      by_cases hi16 : i < 16
      · have := hpt i (by simp [hlen]; omega)
        rw [List.getElem?_take_of_lt hi16] at this
        rw [List.getElem?_append_left (by omega)]
        exact this
      · have : i = 16 := by omega
        subst this
        rw [List.getElem?_append_right (by omega)]
        simpa [hl16] using hslot
    refine ⟨hA, fun gen => ?_⟩
    rw [refOf_of_ne_nil H _ (by simp)]
    split
    · rename_i hsmall
      obtain ⟨l, hl, habs⟩ := hA gen none true (flagOK_embedded gen hst hsmall)
      exact ⟨l, hl, Or.inl habs⟩
    · rename_i hbig
      have hbig' : 32 ≤ (enc H (.full cs)).length := by omega
      exact ⟨_, by simp [expandNode], Or.inr ⟨rfl, hwf, fun _ => hbig', hst, hst.self hwf hbig'⟩⟩

/-- **resolution**: a hash node standing for `t` resolves to a loaded node standing for `t` -/
theorem resolve_hashOf {H : Bytes → Bytes} {st : Store} {child : Bool} {t : Node} {l : LNode}
    (h : HashOf H st child t l) (gen : Nat) :
    ∃ l', resolveHash st gen (H (enc H t)) = some l' ∧ AbsL H st child t l' := by
  obtain ⟨_, hwf, hbig, hst, hlk⟩ := h
  have hfl : FlagOK H st child { hash := some (H (enc H t)), gen := gen, dirty := false } t := by
    refine ⟨fun x hx => ?_, fun _ => ⟨hst, hlk⟩⟩
    simp only [Option.some.injEq] at hx
    subst hx
    exact ⟨rfl, hbig⟩
  obtain ⟨l', hl', habs⟩ := (expandNode_collapse H st t hwf hst).1 gen _ child hfl
  exact ⟨l', by simp [resolveHash, hlk, hl'], habs⟩



/-! ### small helpers -/

theorem prefix_cond_iff (kk key : Key) : (kk.length ≤ key.length ∧ key.take kk.length = kk) ↔ kk <+: key := by
  constructor
  · rintro ⟨_, h⟩; exact List.prefix_iff_eq_take.mpr h.symm
  · intro h; exact ⟨h.length_le, (List.prefix_iff_eq_take.mp h).symm⟩

theorem FlagOK.setGen {H : Bytes → Bytes} {st : Store} {child : Bool} {fl : Flag} {t : Node} (g : Nat)
    (h : FlagOK H st child fl t) : FlagOK H st child { fl with gen := g } t := h

theorem AbsR_set {H : Bytes → Bytes} {st : Store} {cs : List Node} {lcs : List LNode} {i : Nat} {c : Node} {lc : LNode}
    (hlen : cs.length = lcs.length) (hi : i < cs.length)
    (hpt : ∀ j, j < cs.length → AbsR H st true (cs[j]?.getD .nil) (lcs[j]?.getD .nil))
    (hc : AbsR H st true c lc) :
    ∀ j, j < (cs.set i c).length → AbsR H st true ((cs.set i c)[j]?.getD .nil) ((lcs.set i lc)[j]?.getD .nil) := by
  intro j hj
  simp only [List.length_set] at hj
  simp only [List.getElem?_set]
  by_cases hij : i = j
  · subst hij
    have : i < lcs.length := by omega
    simp [hi, this, hc]
  · simp only [hij, if_false]; exact hpt j hj

/-- the live counterpart of `slot_cases` -/
theorem live_slot {H : Bytes → Bytes} {st : Store} {cs : List Node} {lcs : List LNode}
    (hlen : cs.length = lcs.length)
    (hpt : ∀ j, j < cs.length → AbsR H st true (cs[j]?.getD .nil) (lcs[j]?.getD .nil))
    {i : Nat} (hi : i < cs.length) : AbsR H st true (cs[i]?.getD .nil) (lcs.getD i .nil) := by
  simpa using hpt i hi

/-! ### `tryGet` on a live trie reads what the loaded trie reads -/

theorem getL_refines (H : Bytes → Bytes) (st : Store) (gen : Nat) (t : Node) :
    ∀ child l key f, WFRoot t → ValidKey key → AbsR H st child t l → 2 * key.length + 2 ≤ f →
      ∃ l' dr, getL st gen f l key = some (get t key, l', dr) ∧ AbsR H st child t l' := by
  induction t using Node.induct with
  | hnil =>
    intro child l key f _ _ habs hf
    rw [AbsR_nil.mp habs]
    obtain ⟨f', rfl⟩ : ∃ f', f = f' + 1 := ⟨f - 1, by omega⟩
    exact ⟨.nil, false, by simp [getL], AbsR_nil.mpr rfl⟩
  | hval b => intro child l key f h; rcases h with h | h <;> simp [WF] at h
  | hshort kk v ih =>
    intro child l key f hwf hk habs hf
    have hwf : WF (.short kk v) := hwf.resolve_left (by simp)
    -- loaded case
    have hQ : ∀ l f, AbsL H st child (.short kk v) l → 2 * key.length + 1 ≤ f →
        ∃ l' dr, getL st gen f l key = some (get (.short kk v) key, l', dr) ∧ AbsR H st child (.short kk v) l' := by
      intro l f hl hf
      obtain ⟨lv, fl, rfl, hv, hfl⟩ := AbsL_short.mp hl
      obtain ⟨f', rfl⟩ : ∃ f', f = f' + 1 := ⟨f - 1, by omega⟩
      rw [get_short]
      simp only [getL, prefix_cond_iff]
      by_cases hp : kk <+: key
      · simp only [hp, if_true]
        rcases (WF_short_iff kk v).mp hwf with ⟨b, rfl, hkk, hb⟩ | ⟨cs, rfl, hne, hnib, hfull⟩
        · have heq : kk = key := hk.eq_of_prefix hkk hp
          subst heq
          obtain rfl := AbsR_value.mp hv
          obtain ⟨f'', rfl⟩ : ∃ f'', f' = f'' + 1 := ⟨f' - 1, by have := hk.ne_nil; cases kk <;> simp_all <;> omega⟩
          exact ⟨_, false, by simp [getL], Or.inl hl⟩
        · have hk2 : ValidKey (key.drop kk.length) := hk.drop_of_nibs hp hnib
          have hlen : (key.drop kk.length).length + 1 ≤ key.length := by
            have : kk.length ≠ 0 := by simpa using hne
            have := hp.length_le
            simp only [List.length_drop]; omega
          obtain ⟨l2, dr, hg, habs2⟩ := ih true lv _ f' (Or.inr hfull) hk2 hv (by omega)
          rw [hg]
          cases dr with
          | false => exact ⟨_, false, by simp, Or.inl hl⟩
          | true =>
            exact ⟨_, true, by simp, Or.inl (AbsL_short.mpr ⟨l2, _, rfl, habs2, hfl.setGen gen⟩)⟩
      · simp only [hp, if_false]
        exact ⟨_, false, rfl, Or.inl hl⟩
    rcases habs with hl | hh
    · exact hQ l f hl (by omega)
    · obtain ⟨l1, hres, hl1⟩ := resolve_hashOf hh gen
      obtain ⟨f', rfl⟩ : ∃ f', f = f' + 1 := ⟨f - 1, by omega⟩
      obtain ⟨l2, dr, hg, habs2⟩ := hQ l1 f' hl1 (by omega)
      rw [hh.1]
      exact ⟨l2, true, by simp [getL, hres, hg], habs2⟩
  | hfull cs ih =>
    intro child l key f hwf hk habs hf
    have hwf : WF (.full cs) := hwf.resolve_left (by simp)
    obtain ⟨i, r, rfl⟩ : ∃ x r, key = x :: r := by
      cases key with
      | nil => exact absurd rfl hk.ne_nil
      | cons x r => exact ⟨x, r, rfl⟩
    obtain ⟨hi, hc⟩ := slot_cases hwf hk
    have hQ : ∀ l f, AbsL H st child (.full cs) l → 2 * (i :: r).length + 1 ≤ f →
        ∃ l' dr, getL st gen f l (i :: r) = some (get (.full cs) (i :: r), l', dr) ∧ AbsR H st child (.full cs) l' := by
      intro l f hl hf
      obtain ⟨lcs, fl, rfl, hlen, hpt, hfl⟩ := AbsL_full.mp hl
      obtain ⟨f', rfl⟩ : ∃ f', f = f' + 1 := ⟨f - 1, by omega⟩
      have hil : i < lcs.length := by omega
      have hci := live_slot hlen hpt hi
      rw [get_full_cons]
      simp only [getL, hil, if_true]
      simp only [List.length_cons] at hf
      obtain ⟨f'', rfl⟩ : ∃ f'', f' = f'' + 1 := ⟨f' - 1, by omega⟩
      have hsub : ∃ l2 dr, getL st gen (f'' + 1) (lcs.getD i .nil) r = some (get (cs[i]?.getD .nil) r, l2, dr) ∧
          AbsR H st true (cs[i]?.getD .nil) l2 := by
        rcases hc with ⟨rfl, h | ⟨b, h⟩⟩ | ⟨hr, hroot, h | hmem⟩
        · rw [h] at hci ⊢; rw [AbsR_nil.mp hci]; exact ⟨_, false, by simp [getL], AbsR_nil.mpr rfl⟩
        · rw [h] at hci ⊢; rw [AbsR_value.mp hci]; exact ⟨_, false, by simp [getL], AbsR_value.mpr rfl⟩
        · rw [h] at hci ⊢; rw [AbsR_nil.mp hci]; exact ⟨_, false, by simp [getL], AbsR_nil.mpr rfl⟩
        · exact ih _ hmem true _ r _ hroot hr hci (by omega)
      obtain ⟨l2, dr, hg, habs2⟩ := hsub
      rw [hg]
      cases dr with
      | false => exact ⟨_, false, by simp, Or.inl hl⟩
      | true =>
        refine ⟨_, true, by simp, Or.inl (AbsL_full.mpr ⟨lcs.set i l2, _, rfl, by simp [hlen], ?_, hfl.setGen gen⟩)⟩
        have := AbsR_set (c := cs[i]?.getD .nil) hlen hi hpt habs2
        simpa [set_getD_self] using this
    rcases habs with hl | hh
    · exact hQ l f hl (by omega)
    · obtain ⟨l1, hres, hl1⟩ := resolve_hashOf hh gen
      obtain ⟨f', rfl⟩ : ∃ f', f = f' + 1 := ⟨f - 1, by omega⟩
      obtain ⟨l2, dr, hg, habs2⟩ := hQ l1 f' hl1 (by omega)
      rw [hh.1]
      exact ⟨l2, true, by simp [getL, hres, hg], habs2⟩

end Rangers.Trie
