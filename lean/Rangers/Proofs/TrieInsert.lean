import Rangers.Proofs.TrieWF
/- `insert`: structure lemmas, abstract content after insert, preservation of the minimal form. -/
namespace Rangers.Trie
open Rangers

theorem insert_not_dirty (n : Node) (k : Key) (val : Node) (h : (insert n k val).1 = false) :
    (insert n k val).2 = n := by
  cases n with
  | nil => cases k <;> simp [insert] at h
  | value b =>
    cases k with
    | nil =>
      cases val with
      | value w => simp [insert] at h ⊢; exact h.symm
      | _ => simp [insert] at h
    | cons x r => simp [insert] at h
  | short kk v =>
    cases k with
    | nil => simp [insert] at h
    | cons x r =>
      simp only [insert] at h ⊢
      split at h
      · split at h
        · rename_i h1 h2
          simp only [Bool.not_eq_true'] at h2
          rw [h1] at h2
          simp [h1, h2]
        · simp at h
      · split at h <;> simp at h
  | full cs =>
    cases k with
    | nil => simp [insert] at h
    | cons x r =>
      simp only [insert] at h ⊢
      split at h
      · rename_i h1; simp [h1]
      · simp at h

theorem insert_snd_short (kk : Key) (v : Node) (x : Nat) (r : Key) (val : Node)
    (hm : prefixLen (x :: r) kk = kk.length) :
    (insert (.short kk v) (x :: r) val).2 = .short kk (insert v ((x :: r).drop kk.length) val).2 := by
  simp only [insert, hm, if_true]
  split
  · rename_i h
    have := insert_not_dirty v _ val (by simpa using h)
    simp [this]
  · rfl

theorem insert_snd_full (cs : List Node) (i : Nat) (r : Key) (val : Node) (hi : i < cs.length) :
    (insert (.full cs) (i :: r) val).2 = .full (cs.set i (insert (cs[i]?.getD .nil) r val).2) := by
  simp only [insert, insertAt_eq cs i r val hi]
  split
  · rename_i h
    have := insert_not_dirty (cs[i]?.getD .nil) r val (by simpa using h)
    rw [this, set_getD_self]
  · rfl

theorem insert_snd_split (kk : Key) (v : Node) (x : Nat) (r : Key) (val : Node)
    (hm : prefixLen (x :: r) kk ≠ kk.length) :
    (insert (.short kk v) (x :: r) val).2 =
      let m := prefixLen (x :: r) kk
      let branch := Node.full ((emptyFull.set (kk.getD m 0) (mkLeaf (kk.drop (m + 1)) v)).set ((x :: r).getD m 0)
                      (mkLeaf ((x :: r).drop (m + 1)) val))
      if m = 0 then branch else .short ((x :: r).take m) branch := by
  simp only [insert, hm, if_false]
  split <;> rfl



/-! ### abstract content of the pieces `insert` builds -/

theorem content_short_nil (n : Node) (k : Key) : content (.short [] n) k = content n k := by
  simp [content_short]

theorem content_mkLeaf (ks : Key) (n : Node) (k : Key) : content (mkLeaf ks n) k = content (.short ks n) k := by
  unfold mkLeaf
  cases ks with
  | nil => simp [content_short_nil]
  | cons x r => simp

theorem prefix_drop_eq_nil_iff {kk k : Key} (h : kk <+: k) : k.drop kk.length = [] ↔ k = kk := by
  obtain ⟨s, rfl⟩ := h
  simp

theorem content_leaf (kk : Key) (b : Bytes) (k : Key) :
    content (.short kk (.value b)) k = if k = kk then some b else none := by
  rw [content_short]
  by_cases h : kk <+: k
  · simp only [h, if_true, content_value, prefix_drop_eq_nil_iff h]
  · have : k ≠ kk := by intro h0; subst h0; exact h (List.prefix_refl _)
    simp [h, this]

theorem emptyFull_length : emptyFull.length = 17 := by simp [emptyFull]
theorem emptyFull_getD (i : Nat) : emptyFull[i]?.getD .nil = .nil := by
  unfold emptyFull; exact getD_replicate_nil 17 i

theorem getD_branch (a b i : Nat) (c1 c2 : Node) (ha : a < 17) (hb : b < 17) :
    ((emptyFull.set a c1).set b c2)[i]?.getD .nil = if i = b then c2 else if i = a then c1 else .nil := by
  rw [getD_set _ _ _ _ (by rw [List.length_set, emptyFull_length]; exact hb),
      getD_set _ _ _ _ (by rw [emptyFull_length]; exact ha), emptyFull_getD]

theorem content_branch (P kA kB : Key) (a b : Nat) (v : Node) (val : Bytes)
    (ha : a < 17) (hb : b < 17) (hab : a ≠ b) (k' : Key) :
    content (.short P (.full ((emptyFull.set a (mkLeaf kA v)).set b (mkLeaf kB (.value val))))) k'
      = if k' = P ++ b :: kB then some val else content (.short (P ++ a :: kA) v) k' := by
  rw [content_short]
  by_cases hP : P <+: k'
  · obtain ⟨s, rfl⟩ := hP
    simp only [List.prefix_append, if_true, List.drop_left, List.append_cancel_left_eq]
    cases s with
    | nil =>
      have h2 : ¬ (P ++ a :: kA <+: P) := by
        intro h; have := h.length_le; simp at this; omega
      rw [content_full_nil, content_short]
      simp [h2]
    | cons i r =>
      rw [content_full_cons, getD_branch _ _ _ _ _ ha hb, content_short]
      simp only [List.prefix_append_right_inj, List.cons_prefix_cons, List.cons.injEq]
      by_cases hib : i = b
      · subst hib
        have : ¬ a = i := hab
        simp [content_mkLeaf, content_leaf, this]
      · simp only [hib, if_false, false_and]
        by_cases hia : i = a
        · subst hia
          simp [content_mkLeaf, content_short, List.length_append]
        · have : ¬ a = i := fun h => hia h.symm
          simp [hia, this]
  · have h1 : k' ≠ P ++ b :: kB := by
      intro h0; subst h0; exact hP (List.prefix_append _ _)
    have h2 : ¬ (P ++ a :: kA <+: k') := by
      intro h0; exact hP (List.IsPrefix.trans (List.prefix_append _ _) h0)
    simp [hP, h1, content_short, h2]



theorem insert_nil_snd (key : Key) (val : Node) (h : key ≠ []) : (insert .nil key val).2 = .short key val := by
  cases key with
  | nil => exact absurd rfl h
  | cons x r => simp [insert]

theorem content_insert_nil (key : Key) (val : Bytes) (k' : Key) (hk : ValidKey key) :
    content (insert .nil key (.value val)).2 k' = if k' = key then some val else content .nil k' := by
  rw [insert_nil_snd _ _ hk.ne_nil, content_leaf]; simp

/-- inserting at a value position (the remaining key is empty) -/
theorem insert_at_value_pos (c : Node) (val : Bytes) (hc : c = .nil ∨ ∃ b, c = .value b) :
    (insert c [] (.value val)).2 = .value val := by
  rcases hc with rfl | ⟨b, rfl⟩ <;> simp [insert]

theorem prefix_drop_eq_iff {kk k1 k2 : Key} (h1 : kk <+: k1) (h2 : kk <+: k2) :
    k1.drop kk.length = k2.drop kk.length ↔ k1 = k2 := by
  obtain ⟨s1, rfl⟩ := h1
  obtain ⟨s2, rfl⟩ := h2
  simp

theorem content_insert (val : Bytes) (t : Node) :
    ∀ key, WFRoot t → ValidKey key → ∀ k',
      content (insert t key (.value val)).2 k' = if k' = key then some val else content t k' := by
  induction t using Node.induct with
  | hnil => intro key _ hk k'; exact content_insert_nil key val k' hk
  | hval b => intro key h; rcases h with h | h <;> simp [WF] at h
  | hshort kk v ih =>
    intro key hwf hk k'
    have hwf : WF (.short kk v) := hwf.resolve_left (by simp)
    obtain ⟨x, r, rfl⟩ : ∃ x r, key = x :: r := by
      cases key with
      | nil => exact absurd rfl hk.ne_nil
      | cons x r => exact ⟨x, r, rfl⟩
    by_cases hm : prefixLen (x :: r) kk = kk.length
    · -- the short node's key is a prefix of the inserted key
      have hpre : kk <+: x :: r := (prefixLen_eq_right_iff _ _).mp hm
      rw [insert_snd_short _ _ _ _ _ hm, content_short, content_short]
      rcases (WF_short_iff kk v).mp hwf with ⟨b, rfl, hkk, hb⟩ | ⟨cs, rfl, hne, hnib, hfull⟩
      · -- leaf: the keys coincide
        have heq : kk = x :: r := hk.eq_of_prefix hkk hpre
        have hd : (x :: r).drop kk.length = [] := by rw [heq]; simp
        rw [hd, insert_at_value_pos _ _ (Or.inr ⟨b, rfl⟩)]
        by_cases hp' : kk <+: k'
        · simp only [hp', if_true, content_value, prefix_drop_eq_nil_iff hp', ← heq]
          by_cases h : k' = kk <;> simp [h]
        · have : k' ≠ x :: r := by intro h0; rw [h0] at hp'; exact hp' hpre
          simp [hp', this]
      · -- extension: recurse into the full node
        have hk2 : ValidKey ((x :: r).drop kk.length) := hk.drop_of_nibs hpre hnib
        by_cases hp' : kk <+: k'
        · simp only [hp', if_true]
          rw [ih _ (Or.inr hfull) hk2]
          simp only [prefix_drop_eq_iff hp' hpre]
        · have : k' ≠ x :: r := by intro h0; rw [h0] at hp'; exact hp' hpre
          simp [hp', this]
    · -- the keys diverge inside the short node's key: branch out
      have hlt : prefixLen (x :: r) kk < kk.length :=
        Nat.lt_of_le_of_ne (prefixLen_le_right _ _) hm
      have hnp : ¬ ((x :: r) <+: kk) := by
        rcases (WF_short_iff kk v).mp hwf with ⟨b, rfl, hkk, hb⟩ | ⟨cs, rfl, hne, hnib, hfull⟩
        · intro h
          have := hkk.eq_of_prefix hk h
          rw [← this] at hm
          exact hm ((prefixLen_eq_right_iff _ _).mpr (List.prefix_refl _))
        · exact hk.not_prefix_nibs hnib
      have hlt2 : prefixLen (x :: r) kk < (x :: r).length :=
        Nat.lt_of_le_of_ne (prefixLen_le_left _ _) (fun h => hnp ((prefixLen_eq_left_iff _ _).mp h))
      have hne := prefixLen_getD_ne _ _ hlt2 hlt
      have hle1 : ∀ y ∈ kk, y ≤ 16 := by
        rcases (WF_short_iff kk v).mp hwf with ⟨b, rfl, hkk, hb⟩ | ⟨cs, rfl, _, hnib, hfull⟩
        · exact hkk.le16
        · intro y hy; exact Nat.le_of_lt (hnib y hy)
      have ha : kk.getD (prefixLen (x :: r) kk) 0 < 17 := by
        have := hle1 _ (List.getElem_mem hlt)
        simp only [List.getD_eq_getElem?_getD, List.getElem?_eq_getElem hlt, Option.getD_some]; omega
      have hb : (x :: r).getD (prefixLen (x :: r) kk) 0 < 17 := by
        have := hk.le16 _ (List.getElem_mem hlt2)
        simp only [List.getD_eq_getElem?_getD, List.getElem?_eq_getElem hlt2, Option.getD_some]; omega
      have hsplit1 := key_split kk _ hlt
      have hsplit2 := key_split (x :: r) _ hlt2
      have hcb := content_branch ((x :: r).take (prefixLen (x :: r) kk)) (kk.drop (prefixLen (x :: r) kk + 1))
        ((x :: r).drop (prefixLen (x :: r) kk + 1)) _ _ v val ha hb (Ne.symm hne) k'
      rw [← hsplit2, prefixLen_take, ← hsplit1] at hcb
      rw [insert_snd_split _ _ _ _ _ hm]
      simp only []
      split
      · rename_i h0
        rw [h0] at hcb
        simp only [List.take_zero, content_short_nil] at hcb
        rw [h0]; exact hcb
      · rw [prefixLen_take] ; exact hcb
  | hfull cs ih =>
    intro key hwf hk k'
    have hwf : WF (.full cs) := hwf.resolve_left (by simp)
    obtain ⟨hlen, hslots, hcnt⟩ := (WF_full_iff cs).mp hwf
    obtain ⟨i, r, rfl⟩ : ∃ x r, key = x :: r := by
      cases key with
      | nil => exact absurd rfl hk.ne_nil
      | cons x r => exact ⟨x, r, rfl⟩
    have hi : i < 17 := by
      have := hk.le16 i (by simp); omega
    rw [insert_snd_full cs i r _ (by omega)]
    cases k' with
    | nil => simp [content_full_nil]
    | cons j r' =>
      rw [content_full_cons, content_full_cons, getD_set _ _ _ _ (by omega)]
      by_cases hji : j = i
      · subst hji
        simp only [if_true, List.cons.injEq, true_and]
        rcases (validKey_cons j r).mp hk with ⟨rfl, rfl⟩ | ⟨hj16, hr⟩
        · -- the value slot
          have hs := hslots 16 (by omega)
          have hc : cs[16]?.getD .nil = .nil ∨ ∃ b, cs[16]?.getD .nil = .value b := by
            rcases hs with h | h
            · exact Or.inl h
            · simp only [if_true] at h
              obtain ⟨b, hb, _⟩ := h; exact Or.inr ⟨b, hb⟩
          rw [insert_at_value_pos _ _ hc, content_value]
          by_cases h : r' = []
          · simp [h]
          · simp only [h, if_false]
            rcases hc with h1 | ⟨b, h1⟩ <;> simp [h1, content_value, h]
        · have hs := hslots j (by omega)
          have hroot : WFRoot (cs[j]?.getD .nil) := by
            rcases hs with h | h
            · exact Or.inl h
            · have : ¬ j = 16 := by omega
              simp only [this, if_false] at h; exact Or.inr h
          rcases getD_mem_or_nil cs j with h0 | hmem
          · rw [h0]; exact content_insert_nil r val r' hr
          · exact ih _ hmem r hroot hr r'
      · simp [hji]


theorem ValidKey.drop_lt {k : Key} (hk : ValidKey k) (m : Nat) (h : m < k.length) :
    ValidKey (k.drop m) ∧ Nibs (k.take m) := by
  obtain ⟨n, rfl, hn⟩ := (validKey_iff k).mp hk
  have hm : m ≤ n.length := by simp at h; omega
  rw [List.drop_append_of_le_length hm, List.take_append_of_le_length hm]
  exact ⟨(validKey_append _ _ (by simp)).mpr ⟨hn.drop m, by simp [ValidKey]⟩, hn.take m⟩

theorem mkLeaf_ne_nil (ks : Key) (n : Node) (h : n ≠ .nil) : mkLeaf ks n ≠ .nil := by
  unfold mkLeaf; split
  · exact h
  · simp

theorem slotOK_mkLeaf_value (b : Nat) (kB : Key) (val : Bytes) (hk : ValidKey (b :: kB)) (hv : val ≠ []) :
    SlotOK b (mkLeaf kB (.value val)) := by
  right
  rcases (validKey_cons b kB).mp hk with ⟨rfl, rfl⟩ | ⟨hb, hkB⟩
  · simp [mkLeaf, hv]
  · have : ¬ b = 16 := by omega
    have hne : kB ≠ [] := hkB.ne_nil
    simp only [this, if_false, mkLeaf, List.isEmpty_iff, hne]
    exact (WF_short_iff _ _).mpr (Or.inl ⟨val, rfl, hkB, hv⟩)

theorem slotOK_mkLeaf_full (a : Nat) (kA : Key) (cs : List Node) (ha : a < 16) (hn : Nibs kA) (hwf : WF (.full cs)) :
    SlotOK a (mkLeaf kA (.full cs)) := by
  right
  have : ¬ a = 16 := by omega
  simp only [this, if_false, mkLeaf]
  split
  · exact hwf
  · rename_i h
    exact (WF_short_iff _ _).mpr (Or.inr ⟨cs, rfl, by simpa using h, hn, hwf⟩)

theorem WF_branch (a b : Nat) (c1 c2 : Node) (ha : a < 17) (hb : b < 17) (hab : a ≠ b)
    (h1 : SlotOK a c1) (h2 : SlotOK b c2) (n1 : c1 ≠ .nil) (n2 : c2 ≠ .nil) :
    WF (.full ((emptyFull.set a c1).set b c2)) := by
  rw [WF_full_iff]
  refine ⟨by simp [emptyFull_length], fun j hj => ?_, ?_⟩
  · rw [getD_branch _ _ _ _ _ ha hb]
    by_cases hjb : j = b
    · subst hjb; simpa using h2
    · by_cases hja : j = a
      · subst hja; simpa [hjb] using h1
      · simp [hjb, hja, SlotOK]
  · apply countNN_ge_two_of _ a b hab (by simp [emptyFull_length]; exact ha) (by simp [emptyFull_length]; exact hb)
    · rw [getD_branch _ _ _ _ _ ha hb]; simp [hab, n1]
    · rw [getD_branch _ _ _ _ _ ha hb]; simp [n2]

theorem insert_full_is_full (cs : List Node) (i : Nat) (r : Key) (val : Node) (hi : i < cs.length) :
    ∃ cs', (insert (.full cs) (i :: r) val).2 = .full cs' := ⟨_, insert_snd_full cs i r val hi⟩

theorem insert_wf_nil (key : Key) (val : Bytes) (hk : ValidKey key) (hv : val ≠ []) :
    WF (insert .nil key (.value val)).2 := by
  rw [insert_nil_snd _ _ hk.ne_nil]
  exact (WF_short_iff _ _).mpr (Or.inl ⟨val, rfl, hk, hv⟩)

theorem insert_wf (val : Bytes) (hv : val ≠ []) (t : Node) :
    ∀ key, WFRoot t → ValidKey key → WF (insert t key (.value val)).2 := by
  induction t using Node.induct with
  | hnil => intro key _ hk; exact insert_wf_nil key val hk hv
  | hval b => intro key h; rcases h with h | h <;> simp [WF] at h
  | hshort kk v ih =>
    intro key hwf hk
    have hwf : WF (.short kk v) := hwf.resolve_left (by simp)
    obtain ⟨x, r, rfl⟩ : ∃ x r, key = x :: r := by
      cases key with
      | nil => exact absurd rfl hk.ne_nil
      | cons x r => exact ⟨x, r, rfl⟩
    by_cases hm : prefixLen (x :: r) kk = kk.length
    · have hpre : kk <+: x :: r := (prefixLen_eq_right_iff _ _).mp hm
      rw [insert_snd_short _ _ _ _ _ hm]
      rcases (WF_short_iff kk v).mp hwf with ⟨b, rfl, hkk, hb⟩ | ⟨cs, rfl, hne, hnib, hfull⟩
      · have heq : kk = x :: r := hk.eq_of_prefix hkk hpre
        have hd : (x :: r).drop kk.length = [] := by rw [heq]; simp
        rw [hd, insert_at_value_pos _ _ (Or.inr ⟨b, rfl⟩)]
        exact (WF_short_iff _ _).mpr (Or.inl ⟨val, rfl, hkk, hv⟩)
      · have hk2 : ValidKey ((x :: r).drop kk.length) := hk.drop_of_nibs hpre hnib
        have hw := ih _ (Or.inr hfull) hk2
        obtain ⟨y, r2, hyr⟩ : ∃ y r2, (x :: r).drop kk.length = y :: r2 := by
          cases h : (x :: r).drop kk.length with
          | nil => rw [h] at hk2; exact absurd rfl hk2.ne_nil
          | cons y r2 => exact ⟨y, r2, rfl⟩
        have hlen := ((WF_full_iff cs).mp hfull).1
        have hy : y < 17 := by
          have := hk2.le16 y (by rw [hyr]; simp); omega
        rw [hyr] at hw ⊢
        obtain ⟨cs', hcs'⟩ := insert_full_is_full cs y r2 (.value val) (by omega)
        rw [hcs'] at hw ⊢
        exact (WF_short_iff _ _).mpr (Or.inr ⟨cs', rfl, hne, hnib, hw⟩)
    · have hlt : prefixLen (x :: r) kk < kk.length :=
        Nat.lt_of_le_of_ne (prefixLen_le_right _ _) hm
      have hnp : ¬ ((x :: r) <+: kk) := by
        rcases (WF_short_iff kk v).mp hwf with ⟨b, rfl, hkk, hb⟩ | ⟨cs, rfl, hne, hnib, hfull⟩
        · intro h
          have := hkk.eq_of_prefix hk h
          rw [← this] at hm
          exact hm ((prefixLen_eq_right_iff _ _).mpr (List.prefix_refl _))
        · exact hk.not_prefix_nibs hnib
      have hlt2 : prefixLen (x :: r) kk < (x :: r).length :=
        Nat.lt_of_le_of_ne (prefixLen_le_left _ _) (fun h => hnp ((prefixLen_eq_left_iff _ _).mp h))
      have hne := prefixLen_getD_ne _ _ hlt2 hlt
      generalize hmdef : prefixLen (x :: r) kk = m at *
      have hsplit1 := key_split kk _ hlt
      have hsplit2 := key_split (x :: r) _ hlt2
      obtain ⟨hvd2, hnt2⟩ := hk.drop_lt m hlt2
      have hd2 : (x :: r).drop m = (x :: r).getD m 0 :: (x :: r).drop (m + 1) := by
        conv => lhs; rw [hsplit2]
        rw [List.drop_left' (by simp only [List.length_take]; omega)]
      have hd1 : kk.drop m = kk.getD m 0 :: kk.drop (m + 1) := by
        conv => lhs; rw [hsplit1]
        rw [List.drop_left' (by simp only [List.length_take]; omega)]
      rw [hd2] at hvd2
      have hb17 : (x :: r).getD m 0 < 17 := by
        have := hvd2.le16 _ (List.mem_cons_self); omega
      have h2 : SlotOK ((x :: r).getD m 0) (mkLeaf ((x :: r).drop (m + 1)) (.value val)) :=
        slotOK_mkLeaf_value _ _ _ hvd2 hv
      have hbr : ∃ (h1 : kk.getD m 0 < 17), SlotOK (kk.getD m 0) (mkLeaf (kk.drop (m + 1)) v) ∧ v ≠ .nil := by
        rcases (WF_short_iff kk v).mp hwf with ⟨b, rfl, hkk, hb⟩ | ⟨cs, rfl, _, hnib, hfull⟩
        · obtain ⟨hvd1, _⟩ := hkk.drop_lt m hlt
          rw [hd1] at hvd1
          have := hvd1.le16 _ (List.mem_cons_self)
          exact ⟨by omega, slotOK_mkLeaf_value _ _ _ hvd1 hb, by simp⟩
        · have hnd := hnib.drop m
          rw [hd1] at hnd
          have ha := hnd _ (List.mem_cons_self)
          exact ⟨by omega, slotOK_mkLeaf_full _ _ _ ha (fun y hy => hnd y (List.mem_cons_of_mem _ hy)) hfull, by simp⟩
      obtain ⟨ha17, h1, hvn⟩ := hbr
      have hwb := WF_branch _ _ _ _ ha17 hb17 (Ne.symm hne) h1 h2 (mkLeaf_ne_nil _ _ hvn) (mkLeaf_ne_nil _ _ (by simp))
      rw [insert_snd_split _ _ _ _ _ (by rw [hmdef]; exact hm)]
      simp only [hmdef]
      split
      · exact hwb
      · rename_i hm0
        refine (WF_short_iff _ _).mpr (Or.inr ⟨_, rfl, ?_, hnt2, hwb⟩)
        intro h0
        have := congrArg List.length h0
        simp at this
        omega
  | hfull cs ih =>
    intro key hwf hk
    have hwf : WF (.full cs) := hwf.resolve_left (by simp)
    obtain ⟨hlen, hslots, hcnt⟩ := (WF_full_iff cs).mp hwf
    obtain ⟨i, r, rfl⟩ : ∃ x r, key = x :: r := by
      cases key with
      | nil => exact absurd rfl hk.ne_nil
      | cons x r => exact ⟨x, r, rfl⟩
    have hi : i < 17 := by
      have := hk.le16 i (by simp); omega
    rw [insert_snd_full cs i r _ (by omega), WF_full_iff]
    have hX : SlotOK i (insert (cs[i]?.getD .nil) r (.value val)).2 ∧ (insert (cs[i]?.getD .nil) r (.value val)).2 ≠ .nil := by
      rcases (validKey_cons i r).mp hk with ⟨rfl, rfl⟩ | ⟨hj16, hr⟩
      · have hs := hslots 16 (by omega)
        have hc : cs[16]?.getD .nil = .nil ∨ ∃ b, cs[16]?.getD .nil = .value b := by
          rcases hs with h | h
          · exact Or.inl h
          · simp only [if_true] at h
            obtain ⟨b, hb, _⟩ := h; exact Or.inr ⟨b, hb⟩
        rw [insert_at_value_pos _ _ hc]
        exact ⟨Or.inr (by simp [hv]), by simp⟩
      · have hs := hslots i (by omega)
        have hne16 : ¬ i = 16 := by omega
        have hroot : WFRoot (cs[i]?.getD .nil) := by
          rcases hs with h | h
          · exact Or.inl h
          · simp only [hne16, if_false] at h; exact Or.inr h
        have hw : WF (insert (cs[i]?.getD .nil) r (.value val)).2 := by
          rcases getD_mem_or_nil cs i with h0 | hmem
          · rw [h0]; exact insert_wf_nil r val hr hv
          · exact ih _ hmem r hroot hr
        exact ⟨Or.inr (by simp only [hne16, if_false]; exact hw), hw.ne_nil⟩
    refine ⟨by simp [hlen], fun j hj => ?_, ?_⟩
    · rw [getD_set _ _ _ _ (by omega)]
      by_cases hji : j = i
      · subst hji; simpa using hX.1
      · simpa [hji] using hslots j hj
    · have := countNN_set cs i (insert (cs[i]?.getD .nil) r (.value val)).2 (by omega)
      have hnn : isNil (insert (cs[i]?.getD .nil) r (.value val)).2 = false := (isNil_false_iff _).mpr hX.2
      rw [hnn] at this
      simp only [Bool.false_eq_true, if_false] at this
      split at this <;> omega

end Rangers.Trie
