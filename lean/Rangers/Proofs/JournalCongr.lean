import Rangers.Proofs.JournalUndo
/-! `undo` and `undoAll` respect `Sim`. -/
namespace Rangers.Proofs.Journal
open Rangers Rangers.Model.Journal

theorem putObj_Frame (s : ADB) (a : Addr) (o : Obj) : Frame (putObj s a o) s :=
  ⟨rfl, rfl, rfl, rfl, rfl, rfl, fun _ _ => rfl, rfl, rfl, rfl⟩

theorem res_putObj (s : ADB) (a b : Addr) (o : Obj) (hd : o.deleted = false) :
    res (putObj s a o) b = if a = b then Res.live o else res s b :=
  res_of_mset (s := s) (r := putObj s a o) rfl rfl hd b

theorem undo_crashed (c : Cfg) {s : ADB} (h : s.crashed = true) (e : Entry) : undo c s e = s := by
  unfold undo; simp [h]

/-- modifying the object at a live address the same way on both sides -/
theorem modify_congr {s t : ADB} (h : Sim s t) (hs : s.crashed = false) (a : Addr) (f : Obj → Obj)
    (hfd : ∀ o, (f o).deleted = o.deleted)
    (hf : ∀ o o', ObjSim s.codes o o' → ObjSim s.codes { f o with armed := false } { f o' with armed := false })
    (Fs Ft : ADB → Obj → ADB)
    (hFs : ∀ (u : ADB) (o : Obj), mget u.objs a = some o → Fs u o = markDirty u a (f o)) :
    Sim (match resolve s a with | (s1, none) => crash s1 | (s1, some o) => Fs s1 o)
        (match resolve t a with | (t1, none) => crash t1 | (t1, some o) => Fs t1 o) := by
  have ht : t.crashed = false := h.crashed ▸ hs
  have R := h.objs hs a
  cases hrs : res s a with
  | deleted =>
    rw [hrs] at R
    rw [resolve_deleted hrs, resolve_deleted R.of_deleted]; exact Sim.of_crashed rfl rfl
  | absent =>
    rw [hrs] at R
    rw [(resolve_absent hrs).1, (resolve_absent R.of_absent).1]; exact Sim.of_crashed rfl rfl
  | live o =>
    rw [hrs] at R
    obtain ⟨o', hrt, ho⟩ := R.of_live
    have hd : o.deleted = false := by obtain ⟨_, _, _, hd, _⟩ := resolve_live hrs; exact hd
    have hd' : o'.deleted = false := by obtain ⟨_, _, _, hd, _⟩ := resolve_live hrt; exact hd
    obtain ⟨s1, e1, m1, f1, c1, r1⟩ := modify_live hrs f ((hfd o).trans hd)
    obtain ⟨t1, e2, m2, f2, c2, r2⟩ := modify_live hrt f ((hfd o').trans hd')
    rw [e1, e2]
    simp only [hFs s1 o m1, hFs t1 o' m2]
    exact sim_upd h hs f1 f2 (c1.trans hs) (c2.trans ht) r1 r2 (hf o o' ho)

/-- general form: any way `F` of storing `g o` at `a` that keeps the frame -/
theorem modify_congr' {s t : ADB} (h : Sim s t) (hs : s.crashed = false) (a : Addr) (g : Obj → Obj)
    (hg : ∀ o o', ObjSim s.codes o o' → ObjSim s.codes (g o) (g o'))
    (F : ADB → Obj → ADB)
    (hF : ∀ (u : ADB) (o : Obj), mget u.objs a = some o → o.deleted = false →
      Frame (F u o) u ∧ (F u o).crashed = u.crashed ∧ ∀ b, res (F u o) b = if a = b then Res.live (g o) else res u b) :
    Sim (match resolve s a with | (s1, none) => crash s1 | (s1, some o) => F s1 o)
        (match resolve t a with | (t1, none) => crash t1 | (t1, some o) => F t1 o) := by
  have ht : t.crashed = false := h.crashed ▸ hs
  have R := h.objs hs a
  cases hrs : res s a with
  | deleted =>
    rw [hrs] at R
    rw [resolve_deleted hrs, resolve_deleted R.of_deleted]; exact Sim.of_crashed rfl rfl
  | absent =>
    rw [hrs] at R
    rw [(resolve_absent hrs).1, (resolve_absent R.of_absent).1]; exact Sim.of_crashed rfl rfl
  | live o =>
    rw [hrs] at R
    obtain ⟨o', hrt, ho⟩ := R.of_live
    obtain ⟨s1, e1, m1, hd, hf1, r1⟩ := resolve_live hrs
    obtain ⟨t1, e2, m2, hd', hf2, r2⟩ := resolve_live hrt
    have fs1 : Frame s1 s := by rw [hf1]; exact ⟨rfl, rfl, rfl, rfl, rfl, rfl, fun _ _ => rfl, rfl, rfl, rfl⟩
    have ft1 : Frame t1 t := by rw [hf2]; exact ⟨rfl, rfl, rfl, rfl, rfl, rfl, fun _ _ => rfl, rfl, rfl, rfl⟩
    have cs1 : s1.crashed = s.crashed := by rw [hf1]
    have ct1 : t1.crashed = t.crashed := by rw [hf2]
    obtain ⟨a1, a2, a3⟩ := hF s1 o m1 hd
    obtain ⟨b1, b2, b3⟩ := hF t1 o' m2 hd'
    rw [e1, e2]
    simp only
    refine sim_upd (a := a) h hs (a1.trans fs1) (b1.trans ft1) (a2.trans (cs1.trans hs)) (b2.trans (ct1.trans ht))
      (fun b => ?_) (fun b => ?_) (hg o o' ho)
    · rw [a3 b]; by_cases hab : a = b <;> simp [hab, r1 b]
    · rw [b3 b]; by_cases hab : a = b <;> simp [hab, r2 b]

theorem undo_congr (c : Cfg) {s t : ADB} (h : Sim s t) (e : Entry) : Sim (undo c s e) (undo c t e) := by
  by_cases hs : s.crashed = true
  · rw [undo_crashed c hs, undo_crashed c (h.crashed ▸ hs)]; exact h
  have hs : s.crashed = false := by simpa using hs
  have ht : t.crashed = false := h.crashed ▸ hs
  have F := h.frame hs
  cases e with
  | create a =>
    simp only [undo, hs, ht, Bool.false_eq_true, if_false]
    refine ⟨rfl, fun _ => ⟨F.trie, F.codes, F.refund, F.logs, F.logSize, F.al, F.transient, F.thash, F.bhash, F.txIndex⟩, fun _ b => ?_⟩
    simp only [res_def, mget_mdel]
    by_cases hab : a = b
    · simp only [hab, if_true, F.trie]; exact ResRel.refl _ _
    · simp only [hab, if_false]; exact h.objs hs b
  | suicide a prev prevBal =>
    simp only [undo, hs, ht, Bool.false_eq_true, if_false]
    have R := h.objs hs a
    cases hrs : res s a with
    | deleted =>
      rw [hrs] at R
      rw [resolve_deleted hrs, resolve_deleted R.of_deleted]; exact h
    | absent =>
      rw [hrs] at R
      rw [(resolve_absent hrs).1, (resolve_absent R.of_absent).1]; exact h
    | live o =>
      rw [hrs] at R
      obtain ⟨o', hrt, ho⟩ := R.of_live
      obtain ⟨s1, e1, m1, hd, hf1, r1⟩ := resolve_live hrs
      obtain ⟨t1, e2, m2, hd', hf2, r2⟩ := resolve_live hrt
      rw [e1, e2]
      simp only
      apply setBalanceRaw_congr
      have fs1 : Frame s1 s := by rw [hf1]; exact ⟨rfl, rfl, rfl, rfl, rfl, rfl, fun _ _ => rfl, rfl, rfl, rfl⟩
      have ft1 : Frame t1 t := by rw [hf2]; exact ⟨rfl, rfl, rfl, rfl, rfl, rfl, fun _ _ => rfl, rfl, rfl, rfl⟩
      have cs1 : s1.crashed = s.crashed := by rw [hf1]
      have ct1 : t1.crashed = t.crashed := by rw [hf2]
      refine sim_upd (a := a) (os := { o with suicided := prev }) (ot := { o' with suicided := prev }) h hs
        ((putObj_Frame _ _ _).trans fs1) ((putObj_Frame _ _ _).trans ft1) (cs1.trans hs) (ct1.trans ht)
        (fun b => ?_) (fun b => ?_) ⟨ho.1, ho.2.1, rfl, ho.2.2.2.1, ho.2.2.2.2⟩
      · rw [res_putObj s1 a b _ (by exact hd)]; by_cases hab : a = b <;> simp [hab, r1 b]
      · rw [res_putObj t1 a b _ (by exact hd')]; by_cases hab : a = b <;> simp [hab, r2 b]
  | nonce a prev =>
    simp only [undo, hs, ht, Bool.false_eq_true, if_false]
    exact modify_congr h hs a (fun o => { o with nonce := prev }) (fun _ => rfl)
      (fun o o' ho => ⟨rfl, ho.2.1, ho.2.2.1, ho.2.2.2.1, ho.2.2.2.2⟩)
      (fun u _ => setNonceRaw u a prev) (fun u _ => setNonceRaw u a prev)
      (fun u o hm => by simp [setNonceRaw, hm])
  | storage a k prev =>
    simp only [undo, hs, ht, Bool.false_eq_true, if_false]
    exact modify_congr h hs a (fun o => { o with cached := mset o.cached k prev, dirty := mset o.dirty k prev }) (fun _ => rfl)
      (fun o o' ho => ⟨ho.1, ho.2.1, ho.2.2.1, fun k' => by
          have := ho.2.2.2.1 k'
          simp only [Obj.get, mget_mset] at this ⊢
          by_cases hk : k = k' <;> simp [hk, this], ho.2.2.2.2⟩)
      (fun u _ => setDataRaw u a k prev) (fun u _ => setDataRaw u a k prev)
      (fun u o hm => by simp [setDataRaw, hm])
  | code a prevCode prevHash =>
    simp only [undo, hs, ht, Bool.false_eq_true, if_false]
    exact modify_congr h hs a (fun o => { o with code := prevCode, codeHash := toHash prevHash, dirtyCode := true }) (fun _ => rfl)
      (fun o o' ho => ⟨ho.1, rfl, ho.2.2.1, ho.2.2.2.1, rfl⟩)
      (fun u _ => setCodeRaw u a (toHash prevHash) prevCode) (fun u _ => setCodeRaw u a (toHash prevHash) prevCode)
      (fun u o hm => by simp [setCodeRaw, hm])
  | refund prev =>
    simp only [undo, hs, ht, Bool.false_eq_true, if_false]
    exact ⟨rfl, fun _ => ⟨F.trie, F.codes, rfl, F.logs, F.logSize, F.al, F.transient, F.thash, F.bhash, F.txIndex⟩,
      fun _ b => h.objs hs b⟩
  | addLog th =>
    simp only [undo, hs, ht, Bool.false_eq_true, if_false, ← F.logs, ← F.logSize]
    split
    · exact Sim.of_crashed rfl rfl
    · exact ⟨rfl, fun _ => ⟨F.trie, F.codes, F.refund, rfl, rfl, F.al, F.transient, F.thash, F.bhash, F.txIndex⟩,
        fun _ b => h.objs hs b⟩
    · exact ⟨rfl, fun _ => ⟨F.trie, F.codes, F.refund, rfl, rfl, F.al, F.transient, F.thash, F.bhash, F.txIndex⟩,
        fun _ b => h.objs hs b⟩
  | touch a prev prevDirty =>
    simp only [undo, hs, ht, Bool.false_eq_true, if_false]
    split
    · refine modify_congr' h hs a (fun o => { o with touched := prev })
        (fun o o' ho => ⟨ho.1, ho.2.1, ho.2.2.1, ho.2.2.2.1, ho.2.2.2.2⟩) _ (fun u o _ hd => ?_)
      split
      · refine ⟨⟨rfl, rfl, rfl, rfl, rfl, rfl, fun _ _ => rfl, rfl, rfl, rfl⟩, rfl, fun b => ?_⟩
        rw [← res_putObj u a b _ (by exact hd)]
        exact res_congr rfl rfl b
      · exact ⟨putObj_Frame _ _ _, rfl, fun b => res_putObj u a b _ (by exact hd)⟩
    · exact h
  | alAddr a =>
    simp only [undo, hs, ht, Bool.false_eq_true, if_false, ← F.al]
    exact ⟨rfl, fun _ => ⟨F.trie, F.codes, F.refund, F.logs, F.logSize, rfl, F.transient, F.thash, F.bhash, F.txIndex⟩,
      fun _ b => h.objs hs b⟩
  | alSlot a slot =>
    simp only [undo, hs, ht, Bool.false_eq_true, if_false, ← F.al]
    split
    · exact Sim.of_crashed rfl rfl
    · exact ⟨rfl, fun _ => ⟨F.trie, F.codes, F.refund, F.logs, F.logSize, rfl, F.transient, F.thash, F.bhash, F.txIndex⟩,
        fun _ b => h.objs hs b⟩
  | transient a k prev =>
    simp only [undo, hs, ht, Bool.false_eq_true, if_false]
    refine ⟨rfl, fun _ => ⟨F.trie, F.codes, F.refund, F.logs, F.logSize, F.al, fun a' k' => ?_, F.thash, F.bhash, F.txIndex⟩,
      fun _ b => h.objs hs b⟩
    simp only [tget_tset, F.transient]

theorem undoAll_congr (c : Cfg) (es : List Entry) {s t : ADB} (h : Sim s t) :
    Sim (undoAll c s es) (undoAll c t es) := by
  unfold undoAll
  generalize es.reverse = l
  induction l generalizing s t with
  | nil => exact h
  | cons e l ih => exact ih (undo_congr c h e)

theorem undoAll_append (c : Cfg) (s : ADB) (a b : List Entry) :
    undoAll c s (a ++ b) = undoAll c (undoAll c s b) a := by
  simp [undoAll, List.reverse_append, List.foldl_append]

theorem undoAll_nil (c : Cfg) (s : ADB) : undoAll c s [] = s := rfl

theorem undoAll_crashed (c : Cfg) {s : ADB} (h : s.crashed = true) (es : List Entry) : undoAll c s es = s := by
  unfold undoAll
  generalize es.reverse = l
  induction l with
  | nil => rfl
  | cons e l ih => simp only [List.foldl, undo_crashed c h e, ih]

end Rangers.Proofs.Journal
