import Rangers.Proofs.Evm10Arith
/-!
C10 — specification-side vocabulary (written from the Yellow Paper, independent of the
model) and the bridging lemmas to the `BitVec` library notions used in the proofs.
-/
namespace Rangers.Proofs.Evm10
open Rangers Rangers.Model.Evm10 Rangers.Model.Evm10.U256

/-- The signed reading of a word: "treated as two's complement signed 256-bit integers"
(Yellow Paper, Appendix H.2, SDIV/SMOD/SLT/SGT/SAR). -/
def sval (x : Word) : Int :=
  if x.toNat < 2 ^ 255 then (x.toNat : Int) else (x.toNat : Int) - 2 ^ 256

theorem sval_eq_toInt (x : Word) : sval x = x.toInt := by
  unfold sval
  rw [BitVec.toInt_eq_toNat_cond]
  have : (2:Nat) ^ 256 = 2 * 2 ^ 255 := by omega
  by_cases h : x.toNat < 2 ^ 255
  · have h' : 2 * x.toNat < 2 ^ 256 := by omega
    simp [h, h']
  · have h' : ¬ 2 * x.toNat < 2 ^ 256 := by omega
    simp only [h, h', if_false]
    norm_cast

theorem sval_zero_iff (x : Word) : sval x = 0 ↔ x = 0#256 := by
  rw [sval_eq_toInt]
  constructor
  · intro h
    have := BitVec.toInt_inj.1 (show x.toInt = (0#256 : BitVec 256).toInt by simpa using h)
    exact this
  · intro h; subst h; simp

end Rangers.Proofs.Evm10
