import Rangers.Proofs.DecimalFormat
/-!
Exponent forms (`[sign] digits [ "." digits ] ("e"|"E") [sign] digits`): what
`Float.scan` builds for them and that `strToBigInt` is still exact. C18 itself speaks of
plain decimal strings; this covers the `e`-notation amounts the code also accepts.
-/
namespace Rangers.Decimal

theorem spanDigits_all (ds : Str) (h : allDig ds) : spanDigits ds = (ds, []) := by
  induction ds with
  | nil => rfl
  | cons c cs ih =>
    obtain ⟨hc, hcs⟩ := allDig_cons.mp h
    rw [spanDigits, if_pos hc, ih hcs]

theorem scanMant_stop (c : Char) (cs : Str) (fo : Bool) (m cnt : Nat) (dp : Option Nat)
    (hc : isDig c = false) (hdot : c ≠ '.') :
    scanMant (c :: cs) fo m cnt dp = ⟨m, cnt, dp, c :: cs⟩ := by
  rw [scanMant]
  simp [hc, hdot]

/-- `nat.scan` on a plain body followed by something that is neither a digit nor '.' -/
theorem scanMant_plain_rest (ip fp : Str) (dot : Bool) (c : Char) (cs : Str) (hip : allDig ip)
    (hfp : allDig fp) (hdot : dot = false → fp = []) (hc : isDig c = false) (hcd : c ≠ '.') :
    scanMant (plainBody ip fp dot ++ c :: cs) true 0 0 none =
      ⟨Nat.ofDigitChars 10 (ip ++ fp) 0, ip.length + fp.length,
        if dot then some ip.length else none, c :: cs⟩ := by
  unfold plainBody
  cases dot with
  | false =>
    have : fp = [] := hdot rfl
    subst this
    simp only [Bool.false_eq_true, if_false, List.append_nil]
    rw [scanMant_digits ip _ true 0 0 none hip, scanMant_stop c cs _ _ _ _ hc hcd]
    simp
  | true =>
    simp only [if_true, List.append_assoc, List.cons_append]
    rw [scanMant_digits ip _ true 0 0 none hip, scanMant_dot,
      scanMant_digits fp _ false _ _ _ hfp, scanMant_stop c cs _ _ _ _ hc hcd, Nat.ofDigitChars_append]
    simp

/-- decimal exponent suffix -/
def expSuffix (upper : Bool) (esg : Option Bool) (eds : Str) : Str :=
  (if upper then 'E' else 'e') :: (signStr esg ++ eds)

theorem scanExp_suffix (upper : Bool) (esg : Option Bool) (eds : Str) (hd : allDig eds) (hne : eds ≠ [])
    (hv : Nat.ofDigitChars 10 eds 0 < 2 ^ 63) :
    scanExp (expSuffix upper esg eds) =
      some (if signNeg esg then -((Nat.ofDigitChars 10 eds 0 : ℕ) : Int) else ((Nat.ofDigitChars 10 eds 0 : ℕ) : Int), 10, []) := by
  obtain ⟨e0, et, rfl⟩ := List.exists_cons_of_ne_nil hne
  have he0 := (allDig_cons.mp hd).1
  have hm := isDig_ne_minus he0
  have hp := isDig_ne_plus he0
  unfold expSuffix scanExp
  have hbase : (if ((if upper = true then 'E' else 'e') = 'e' || (if upper = true then 'E' else 'e') = 'E') = true then 10
      else if ((if upper = true then 'E' else 'e') = 'p' || (if upper = true then 'E' else 'e') = 'P') = true then 2 else 0) = 10 := by
    cases upper <;> simp
  simp only [hbase]
  have hsign : expSign (signStr esg ++ e0 :: et) = (signNeg esg, e0 :: et) := by
    cases esg with
    | none =>
      simp only [signStr, List.nil_append, signNeg]
      unfold expSign
      split
      · rename_i h; injection h with h1 _; exact absurd h1 hm
      · rename_i h; injection h with h1 _; exact absurd h1 hp
      · rfl
    | some b => cases b <;> rfl
  simp only [hsign, spanDigits_all _ hd]
  cases hs : signNeg esg <;> simp <;> omega

/-- `Float.scan`'s arithmetic half for `f` fraction digits and decimal exponent `K ≤ f`:
    the same float as a plain decimal with `f - K` fraction digits. -/
theorem buildFloat_exp_small (neg : Bool) (M f : Nat) (fcount K : Int)
    (hfc : (if fcount < 0 then fcount else 0) = -(f : Int)) (hK : K ≤ f)
    (hf : f ≤ 1000000) (hK2 : -1000000 ≤ K) (hM : bitLen M ≤ 1000000) :
    buildFloat neg M fcount K 10 = some (plainFloat neg M ((f : Int) - K).toNat) := by
  unfold buildFloat
  simp only [hfc, reduceIte]
  have hr1 : ¬ ((bitLen M : Int) + -(f : Int) + K < minExp) := by unfold minExp; omega
  have hr2 : ¬ ((bitLen M : Int) + -(f : Int) + K > maxExp) := by unfold maxExp; omega
  simp only [hr1, hr2, decide_false, Bool.or_self, Bool.false_eq_true, if_false]
  unfold plainFloat
  by_cases hg : (f : Int) - K = 0
  · have h0 : -(f : Int) + K = 0 := by omega
    simp [hg, h0]
  · have hlt : -(f : Int) + K < 0 := by omega
    have hne : -(f : Int) + K ≠ 0 := by omega
    have hg0 : ((f : Int) - K).toNat ≠ 0 := by omega
    have e1 : (-(-(f : Int) + K)).toNat = ((f : Int) - K).toNat := by congr 1; omega
    have e2 : -(f : Int) + K = -((((f : Int) - K).toNat : ℕ) : Int) := by omega
    simp only [hne, if_false, hlt, if_true, hg0, e1]
    rw [← e2]

/-- … and for `K > f`: the mantissa times an exact power of five (an integer value). -/
theorem buildFloat_exp_large (neg : Bool) (M f : Nat) (fcount K : Int)
    (hfc : (if fcount < 0 then fcount else 0) = -(f : Int)) (hK : (f : Int) < K)
    (hK2 : K ≤ 1000000) (hM : bitLen M ≤ 1000000) :
    buildFloat neg M fcount K 10 =
      some (mul .away prec (.fin neg M (K - f)) (pow5 (K - f).toNat)) := by
  unfold buildFloat
  simp only [hfc, reduceIte]
  have hr1 : ¬ ((bitLen M : Int) + -(f : Int) + K < minExp) := by unfold minExp; omega
  have hr2 : ¬ ((bitLen M : Int) + -(f : Int) + K > maxExp) := by unfold maxExp; omega
  simp only [hr1, hr2, decide_false, Bool.or_self, Bool.false_eq_true, if_false]
  have e1 : -(f : Int) + K = K - f := by omega
  have hne : K - (f : Int) ≠ 0 := by omega
  have hnl : ¬ (K - (f : Int) < 0) := by omega
  simp only [e1, hne, if_false, hnl]

/-- value level, `K > f`: multiply by `5^k` (k = K - f ≤ 248), by `10^d`, truncate:
    exactly `M·10^(k+d)` when that is below `2^510`. -/
theorem exp_large_scaled (neg : Bool) (M k d : Nat) (hM : 0 < M) (hk : k ≤ 248)
    (hbound : M * 10 ^ (k + d) < 2 ^ 510) :
    ∃ m e, mul .away prec (mul .away prec (.fin neg M (k : Int)) (pow5 k)) (baseFloat (d : Int)) = .fin neg m e ∧
      toInt (.fin neg m e) =
        if neg then -((M * 10 ^ (k + d) : ℕ) : Int) else ((M * 10 ^ (k + d) : ℕ) : Int) := by
  have hp1 : 1 ≤ prec := by norm_num [prec]
  have h10pos : 0 < 10 ^ (k + d) := by positivity
  have hMlt : M < 2 ^ 510 := lt_of_le_of_lt (Nat.le_mul_of_pos_right _ h10pos) hbound
  have hMbits : bitLen M ≤ 510 := bitLen_le_of_lt hMlt
  have hkd : k + d < 510 := by
    have h1 : 10 ^ (k + d) < 2 ^ 510 := lt_of_le_of_lt (Nat.le_mul_of_pos_left _ hM) hbound
    have h2 : 2 ^ (k + d) ≤ 10 ^ (k + d) := Nat.pow_le_pow_left (by norm_num) _
    exact (Nat.pow_lt_pow_iff_right (by norm_num : 1 < 2)).mp (lt_of_le_of_lt h2 h1)
  have h5bits : bitLen (5 ^ k) ≤ 3 * k + 1 := bitLen_pow_le 5 3 k (by norm_num)
  have hbbits : bitLen (10 ^ d) ≤ 4 * d + 1 := bitLen_pow_le 10 4 d (by norm_num)
  rw [pow5_exact k (by omega)]
  obtain ⟨mz, ez, hz, hmz, z1, z2⟩ := mul_away_spec prec neg M (5 ^ k) (k : Int) hp1 hM (by positivity)
    (by omega) (by omega) (by omega) (by omega)
  rw [hz]
  -- size of the intermediate float, needed for the second multiplication
  have hzb : bitLen mz ≤ 2000 ∧ -2000 ≤ ez ∧ ez ≤ 2000 := by
    have hfin := finish_fin_of_small (neg != false) .away prec (M * 5 ^ k) ((k : Int) + 0) false hp1
      (by positivity) (by omega) (by omega) (by have := bitLen_mul_le M (5 ^ k); omega)
    have hmul : mul .away prec (.fin neg M (k : Int)) (.fin false (5 ^ k) 0) =
        finish (neg != false) .away prec (M * 5 ^ k) ((k : Int) + 0) false := rfl
    rw [hmul, hfin] at hz
    injection hz with _ hm he
    have h1 := bitLen_mono (roundMant_fst_le .away prec (M * 5 ^ k) false hp1)
    have h2 := roundMant_snd_le .away prec (M * 5 ^ k) false
    have h3 := bitLen_mul_le M (5 ^ k)
    subst hm; subst he
    refine ⟨by omega, by omega, by omega⟩
  have hbase : baseFloat (d : Int) = .fin false (10 ^ d) 0 := by
    unfold baseFloat; rw [Int.toNat_natCast]
  rw [hbase]
  obtain ⟨mw, ew, hw, hmw, w1, w2⟩ := mul_away_spec prec neg mz (10 ^ d) ez hp1 hmz (by positivity)
    (by omega) (by omega) (by omega) (by omega)
  refine ⟨mw, ew, hw, ?_⟩
  have hPE : (2 : ℚ) ^ (prec - 1) = 2 * 2 ^ 510 := by
    show (2 : ℚ) ^ 511 = 2 * 2 ^ 510
    rw [pow_succ, mul_comm]
  rw [hPE] at z2 w2
  have hval : mag M (k : Int) * ((5 ^ k : ℕ) : ℚ) * ((10 ^ d : ℕ) : ℚ) = ((M * 10 ^ (k + d) : ℕ) : ℚ) / ((1 : ℕ) : ℚ) := by
    unfold mag
    rw [zpow_natCast]
    push_cast
    have : (10 : ℚ) ^ (k + d) = 2 ^ k * 5 ^ k * 10 ^ d := by
      rw [pow_add, ← mul_pow]; norm_num
    rw [this]; ring
  have hA : ((M * 10 ^ (k + d) : ℕ) : ℚ) ≤ 2 ^ 510 - 1 := by
    have h1 : M * 10 ^ (k + d) + 1 ≤ 2 ^ 510 := hbound
    have h2 : ((M * 10 ^ (k + d) + 1 : ℕ) : ℚ) ≤ ((2 ^ 510 : ℕ) : ℚ) := Nat.cast_le.mpr h1
    rw [Nat.cast_add, Nat.cast_one, Nat.cast_pow, Nat.cast_ofNat] at h2
    linarith
  have h10q : (0 : ℚ) < ((10 ^ d : ℕ) : ℚ) := by positivity
  have hEpos : (0 : ℚ) < 1 + 1 / (2 * 2 ^ 510) := by positivity
  have x1 : ((M * 10 ^ (k + d) : ℕ) : ℚ) / ((1 : ℕ) : ℚ) ≤ mag mw ew := by
    rw [← hval]
    exact le_trans (mul_le_mul_of_nonneg_right z1 (le_of_lt h10q)) w1
  have x2 : mag mw ew < ((M * 10 ^ (k + d) : ℕ) : ℚ) / ((1 : ℕ) : ℚ)
      * (1 + 1 / (2 * 2 ^ 510)) * (1 + 1 / (2 * 2 ^ 510)) := by
    rw [← hval]
    calc mag mw ew < mag mz ez * ((10 ^ d : ℕ) : ℚ) * (1 + 1 / (2 * 2 ^ 510)) := w2
      _ ≤ mag M (k : Int) * ((5 ^ k : ℕ) : ℚ) * (1 + 1 / (2 * 2 ^ 510)) * ((10 ^ d : ℕ) : ℚ) * (1 + 1 / (2 * 2 ^ 510)) := by
          apply mul_le_mul_of_nonneg_right _ (le_of_lt hEpos)
          exact mul_le_mul_of_nonneg_right (le_of_lt z2) (le_of_lt h10q)
      _ = _ := by ring
  obtain ⟨t1, t2⟩ := trunc_stable_gen (M * 10 ^ (k + d)) 1 (mag mw ew) (2 ^ 510) (by norm_num) hA x1 x2
  rw [Nat.div_one] at t1 t2
  exact toInt_fin_of_bounds neg mw ew _ hmw t1 t2

/-- the signed decimal exponent an `expSuffix` denotes -/
def expVal (esg : Option Bool) (eds : Str) : Int :=
  if signNeg esg then -((Nat.ofDigitChars 10 eds 0 : ℕ) : Int) else ((Nat.ofDigitChars 10 eds 0 : ℕ) : Int)

theorem expSuffix_head (upper : Bool) (esg : Option Bool) (eds : Str) :
    ∃ c cs, expSuffix upper esg eds = c :: cs ∧ isDig c = false ∧ c ≠ '.' ∧ c ≠ 'f' ∧ c ≠ '-' ∧ c ≠ '+' := by
  refine ⟨_, _, rfl, ?_, ?_, ?_, ?_, ?_⟩ <;> cases upper <;> decide

/-- `Float.scan` on `[sign] ip ["." fp] (e|E) [sign] eds` with a non-zero mantissa -/
theorem scanFloat_exp (sg : Option Bool) (ip fp : Str) (dot upper : Bool) (esg : Option Bool) (eds : Str)
    (hip : allDig ip) (hfp : allDig fp) (hdot : dot = false → fp = []) (hne : ip ++ fp ≠ [])
    (hed : allDig eds) (hene : eds ≠ []) (hev : Nat.ofDigitChars 10 eds 0 < 2 ^ 63) :
    scanFloat (signStr sg ++ (plainBody ip fp dot ++ expSuffix upper esg eds)) =
      if Nat.ofDigitChars 10 (ip ++ fp) 0 = 0 then some (.zero (signNeg sg))
      else buildFloat (signNeg sg) (Nat.ofDigitChars 10 (ip ++ fp) 0)
        (fcountOf (if dot then some ip.length else none) (ip.length + fp.length)) (expVal esg eds) 10 := by
  obtain ⟨c, cs, hsuf, hcd, hcdot, _, _, _⟩ := expSuffix_head upper esg eds
  have hbne : plainBody ip fp dot ≠ [] := plainBody_ne_nil ip fp dot hne hdot
  have hne2 : plainBody ip fp dot ++ expSuffix upper esg eds ≠ [] := by
    intro h; exact hbne (List.append_eq_nil_iff.mp h).1
  have hhead : ∀ c' t, plainBody ip fp dot ++ expSuffix upper esg eds = c' :: t → c' ≠ '-' ∧ c' ≠ '+' := by
    intro c' t h
    obtain ⟨b0, bt, hb⟩ := List.exists_cons_of_ne_nil hbne
    rw [hb, List.cons_append] at h
    injection h with h1 _
    subst h1
    exact plainBody_head ip fp dot hip b0 bt hb
  rw [scanFloat_sign sg _ hne2 hhead]
  unfold scanBody
  rw [hsuf, scanMant_plain_rest ip fp dot c cs hip hfp hdot hcd hcdot]
  have hcount : ip.length + fp.length ≠ 0 := by
    intro h
    apply hne
    have : (ip ++ fp).length = 0 := by rw [List.length_append]; exact h
    exact List.length_eq_zero_iff.mp this
  simp only [hcount, if_false]
  rw [← hsuf, scanExp_suffix upper esg eds hed hene hev]
  simp only []
  by_cases hM0 : Nat.ofDigitChars 10 (ip ++ fp) 0 = 0
  · simp [hM0]
  · simp only [hM0, if_false]
    unfold expVal
    cases hb : buildFloat (signNeg sg) (Nat.ofDigitChars 10 (ip ++ fp) 0)
        (fcountOf (if dot = true then some ip.length else none) (ip.length + fp.length))
        (if signNeg esg = true then -((Nat.ofDigitChars 10 eds 0 : ℕ) : Int) else ((Nat.ofDigitChars 10 eds 0 : ℕ) : Int)) 10 with
    | none => rfl
    | some z => simp

theorem exp_no_f (sg : Option Bool) (ip fp : Str) (dot upper : Bool) (esg : Option Bool) (eds : Str)
    (hip : allDig ip) (hfp : allDig fp) (hed : allDig eds) :
    ∀ c ∈ signStr sg ++ (plainBody ip fp dot ++ expSuffix upper esg eds), c ≠ 'f' := by
  intro c hc
  rw [← List.append_assoc] at hc
  rcases List.mem_append.mp hc with h | h
  · exact plain_no_f sg ip fp dot hip hfp c h
  · unfold expSuffix at h
    rcases List.mem_cons.mp h with rfl | h
    · cases upper <;> decide
    · rcases List.mem_append.mp h with h | h
      · cases esg with
        | none => simp [signStr] at h
        | some b => cases b <;> simp [signStr] at h <;> subst h <;> decide
      · exact isDig_ne_f (hed c h)

theorem fcount_plain (ip fp : Str) (dot : Bool) (hdot : dot = false → fp = []) :
    (if fcountOf (if dot = true then some ip.length else none) (ip.length + fp.length) < 0
      then fcountOf (if dot = true then some ip.length else none) (ip.length + fp.length) else 0)
      = -(fp.length : Int) := by
  cases dot with
  | false =>
    have := hdot rfl
    subst this
    simp [fcountOf]
  | true =>
    simp only [if_true, fcountOf]
    push_cast
    split <;> omega

/-- **Exponent form, exponent not larger than the number of fraction digits** (incl. all
    negative exponents): exactly `± ⌊N·10^d / 10^(f-K)⌋`. -/
theorem strToBigInt_exp_small (sg : Option Bool) (ip fp : Str) (dot upper : Bool) (esg : Option Bool) (eds : Str)
    (d : Nat) (hip : allDig ip) (hfp : allDig fp) (hdot : dot = false → fp = []) (hne : ip ++ fp ≠ [])
    (hed : allDig eds) (hene : eds ≠ [])
    (hK : expVal esg eds ≤ fp.length) (hg : (fp.length : Int) - expVal esg eds ≤ 248) (hf : fp.length ≤ 1000000)
    (hbound : Nat.ofDigitChars 10 (ip ++ fp) 0 * 10 ^ (d - ((fp.length : Int) - expVal esg eds).toNat) < 2 ^ 510) :
    strToBigInt (signStr sg ++ (plainBody ip fp dot ++ expSuffix upper esg eds)) (d : Int) =
      .ok (if signNeg sg then
            -((Nat.ofDigitChars 10 (ip ++ fp) 0 * 10 ^ d / 10 ^ ((fp.length : Int) - expVal esg eds).toNat : ℕ) : Int)
           else ((Nat.ofDigitChars 10 (ip ++ fp) 0 * 10 ^ d / 10 ^ ((fp.length : Int) - expVal esg eds).toNat : ℕ) : Int)) := by
  have hMlt : Nat.ofDigitChars 10 (ip ++ fp) 0 < 2 ^ 510 :=
    lt_of_le_of_lt (Nat.le_mul_of_pos_right _ (by positivity)) hbound
  have hMbits := bitLen_le_of_lt hMlt
  have hev : Nat.ofDigitChars 10 eds 0 < 2 ^ 63 := by
    have h1 : Nat.ofDigitChars 10 eds 0 ≤ 2000000 := by
      unfold expVal at hK hg
      split at hK <;> simp only [*, if_true] at hg <;> omega
    have : (2 : ℕ) ^ 63 > 2000000 := by norm_num
    omega
  have hKlo : -1000000 ≤ expVal esg eds := by omega
  have hsne : signStr sg ++ (plainBody ip fp dot ++ expSuffix upper esg eds) ≠ [] := by
    intro h
    have := (List.append_eq_nil_iff.mp (List.append_eq_nil_iff.mp h).2).1
    exact plainBody_ne_nil ip fp dot hne hdot this
  unfold strToBigInt
  rw [if_neg hsne, parseFloat_eq_scanFloat _ (exp_no_f sg ip fp dot upper esg eds hip hfp hed),
    scanFloat_exp sg ip fp dot upper esg eds hip hfp hdot hne hed hene hev]
  by_cases hM0 : Nat.ofDigitChars 10 (ip ++ fp) 0 = 0
  · simp only [hM0, if_true, Nat.zero_mul, Nat.zero_div]
    simp [mul, baseFloat, toInt]
  · simp only [hM0, if_false]
    rw [buildFloat_exp_small (signNeg sg) _ fp.length _ _ (fcount_plain ip fp dot hdot) hK hf hKlo (by omega)]
    obtain ⟨m, e, hmul, hint⟩ := plain_scaled (signNeg sg) _ ((fp.length : Int) - expVal esg eds).toNat d
      (Nat.pos_of_ne_zero hM0) (by omega) hbound
    simp only [hmul, hint]

/-- **Exponent form, exponent larger than the number of fraction digits**: an integer,
    exactly `± N·10^(K-f+d)`. -/
theorem strToBigInt_exp_large (sg : Option Bool) (ip fp : Str) (dot upper : Bool) (esg : Option Bool) (eds : Str)
    (d : Nat) (hip : allDig ip) (hfp : allDig fp) (hdot : dot = false → fp = []) (hne : ip ++ fp ≠ [])
    (hed : allDig eds) (hene : eds ≠ [])
    (hK : (fp.length : Int) < expVal esg eds) (hg : expVal esg eds - fp.length ≤ 248) (hf : fp.length ≤ 900000)
    (hbound : Nat.ofDigitChars 10 (ip ++ fp) 0 * 10 ^ ((expVal esg eds - fp.length).toNat + d) < 2 ^ 510) :
    strToBigInt (signStr sg ++ (plainBody ip fp dot ++ expSuffix upper esg eds)) (d : Int) =
      .ok (if signNeg sg then
            -((Nat.ofDigitChars 10 (ip ++ fp) 0 * 10 ^ ((expVal esg eds - fp.length).toNat + d) : ℕ) : Int)
           else ((Nat.ofDigitChars 10 (ip ++ fp) 0 * 10 ^ ((expVal esg eds - fp.length).toNat + d) : ℕ) : Int)) := by
  have hMlt : Nat.ofDigitChars 10 (ip ++ fp) 0 < 2 ^ 510 :=
    lt_of_le_of_lt (Nat.le_mul_of_pos_right _ (by positivity)) hbound
  have hMbits := bitLen_le_of_lt hMlt
  have hev : Nat.ofDigitChars 10 eds 0 < 2 ^ 63 := by
    have h1 : Nat.ofDigitChars 10 eds 0 ≤ 2000000 := by
      unfold expVal at hK hg
      by_cases hs : signNeg esg = true
      · rw [if_pos hs] at hK; omega
      · rw [if_neg hs] at hK hg; omega
    have : (2 : ℕ) ^ 63 > 2000000 := by norm_num
    omega
  have hsne : signStr sg ++ (plainBody ip fp dot ++ expSuffix upper esg eds) ≠ [] := by
    intro h
    have := (List.append_eq_nil_iff.mp (List.append_eq_nil_iff.mp h).2).1
    exact plainBody_ne_nil ip fp dot hne hdot this
  unfold strToBigInt
  rw [if_neg hsne, parseFloat_eq_scanFloat _ (exp_no_f sg ip fp dot upper esg eds hip hfp hed),
    scanFloat_exp sg ip fp dot upper esg eds hip hfp hdot hne hed hene hev]
  by_cases hM0 : Nat.ofDigitChars 10 (ip ++ fp) 0 = 0
  · simp only [hM0, if_true, Nat.zero_mul]
    simp [mul, baseFloat, toInt]
  · simp only [hM0, if_false]
    rw [buildFloat_exp_large (signNeg sg) _ fp.length _ _ (fcount_plain ip fp dot hdot) hK (by omega) (by omega)]
    have hk : expVal esg eds - (fp.length : Int) = (((expVal esg eds - fp.length).toNat : ℕ) : Int) := by omega
    rw [hk, Int.toNat_natCast]
    obtain ⟨m, e, hmul, hint⟩ := exp_large_scaled (signNeg sg) _ (expVal esg eds - fp.length).toNat d
      (Nat.pos_of_ne_zero hM0) (by omega) hbound
    simp only [hmul, hint]

end Rangers.Decimal
