import Rangers.Proofs.MinerLookup
/-! C20: `GetProposerTotalStakeWithDetail` against its specification over the iterator's records. -/
namespace Rangers.Miner

def sumActive (ms : List Miner) (h : Nat) : Nat := ((ms.filter (active h)).map (·.stake)).sum

theorem totalsFold_fst (ms : List Miner) (h : Nat) (acc : Nat × List (Bytes × Nat)) (hacc : acc.1 < 2 ^ 64) :
    (ms.foldl (fun acc m => if active h m then ((acc.1 + m.stake) % 2 ^ 64, mapPut acc.2 m.id m.stake) else acc) acc).1
      = (acc.1 + sumActive ms h) % 2 ^ 64 := by
  induction ms generalizing acc with
  | nil => simp [sumActive, Nat.mod_eq_of_lt hacc]
  | cons m ms ih =>
    simp only [List.foldl_cons]
    by_cases ha : active h m = true
    · simp only [ha, if_true]
      rw [ih _ (Nat.mod_lt _ (by decide))]
      simp only [sumActive, List.filter_cons, ha, if_true, List.map_cons, List.sum_cons]
      omega
    · simp only [ha, Bool.false_eq_true, if_false]
      rw [ih _ hacc]
      simp [sumActive, List.filter_cons, ha]

theorem mapPut_of_notin (l : List (Bytes × Nat)) (k : Bytes) (v : Nat) (h : k ∉ l.map Prod.fst) : mapPut l k v = (k, v) :: l := by
  unfold mapPut
  congr 1
  apply List.filter_eq_self.mpr
  intro e he
  have : e.1 ≠ k := fun x => h (by rw [← x]; exact List.mem_map_of_mem he)
  simpa using this

theorem totalsFold_snd (ms : List Miner) (h : Nat) (acc : Nat × List (Bytes × Nat))
    (hn : ((ms.filter (active h)).map (·.id)).Nodup)
    (hd : ∀ m ∈ ms.filter (active h), m.id ∉ acc.2.map Prod.fst) :
    (ms.foldl (fun acc m => if active h m then ((acc.1 + m.stake) % 2 ^ 64, mapPut acc.2 m.id m.stake) else acc) acc).2.length
      = acc.2.length + (ms.filter (active h)).length := by
  induction ms generalizing acc with
  | nil => simp
  | cons m ms ih =>
    simp only [List.foldl_cons]
    by_cases ha : active h m = true
    · simp only [ha, if_true]
      simp only [List.filter_cons, ha, if_true, List.map_cons, List.nodup_cons, List.mem_cons, forall_eq_or_imp] at hn hd
      have hput := mapPut_of_notin acc.2 m.id m.stake hd.1
      rw [ih]
      · simp only [hput, List.length_cons, List.filter_cons, ha, if_true]; omega
      · exact hn.2
      · intro m' hm'
        simp only [hput, List.map_cons, List.mem_cons, not_or]
        refine ⟨?_, hd.2 m' hm'⟩
        intro e
        exact hn.1 (by rw [← e]; exact List.mem_map_of_mem hm')
    · simp only [ha, Bool.false_eq_true, if_false]
      simp only [List.filter_cons, ha, Bool.false_eq_true, if_false] at hn hd ⊢
      exact ih acc hn hd

/-- In a committed, well-keyed registry the iterator never yields the same id twice. -/
theorem iter_ids_nodup (cfg : Cfg) (st : State) (d : DbId) (hf : Flushed st) (hr : RecKeyed cfg st) :
    ((iter cfg st d).map (·.id)).Nodup := by
  unfold iter
  have hk := nodup_keys (st.trie d)
  generalize (st.trie d).keys = ks at hk
  induction ks with
  | nil => simp
  | cons k ks ih =>
    have hk' := List.nodup_cons.mp hk
    simp only [List.filterMap_cons]
    cases hc : iterCurrent cfg st d ((st.trie d).get k) with
    | none => simpa [hc] using ih hk'.2
    | some m =>
      simp only [List.map_cons, List.nodup_cons]
      refine ⟨?_, ih hk'.2⟩
      rw [hf] at hc
      obtain ⟨hv, info, hdec, _, rfl⟩ := (iterCurrent_some cfg st d _ m).mp hc
      have hid : info.id = k := (hr d k info hv hdec).1
      intro hmem
      obtain ⟨m', hm', hid'⟩ := List.mem_map.mp hmem
      obtain ⟨k', hk'mem, hc'⟩ := List.mem_filterMap.mp hm'
      rw [hf] at hc'
      obtain ⟨hv', info', hdec', _, rfl⟩ := (iterCurrent_some cfg st d _ m').mp hc'
      have : info'.id = k' := (hr d k' info' hv' hdec').1
      simp only [readMiner] at hid'
      rw [this, hid] at hid'
      exact hk'.1 (hid' ▸ hk'mem)

end Rangers.Miner
