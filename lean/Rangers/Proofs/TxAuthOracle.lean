import Rangers.Model.TxAuth
/-!
Oracle sufficiency: the verdict of `verifyTx` depends on the cryptographic primitives only
through the finitely many points listed by `queries`.  This is what makes the driver's
finite oracle table a faithful stand-in for the real functions: if the table answers every
query the model lists (the driver refuses otherwise), the model's verdict on the table equals
its verdict on the real primitives.
-/
namespace Rangers.Model.TxAuth
open Rangers

def Crypto.agreesOn (cr cr' : Crypto) : Query → Prop
  | .sha m => cr.sha256 m = cr'.sha256 m
  | .kec m => cr.keccak m = cr'.keccak m
  | .rcv m r s v => cr.recoverCore m r s v = cr'.recoverCore m r s v
  | .ver pk m r s => cr.verifyCore pk m r s = cr'.verifyCore pk m r s

theorem libRecover_congr (cr cr' : Crypto) (msg sig : Bytes)
    (h : ∀ q ∈ libRecoverQ msg sig, cr.agreesOn cr' q) : libRecover cr msg sig = libRecover cr' msg sig := by
  unfold libRecover
  unfold libRecoverQ at h
  by_cases h1 : sigR sig ≥ secpN ∨ sigS sig ≥ secpN
  · simp [h1]
  · by_cases h2 : sigR sig = 0 ∨ sigS sig = 0
    · simp [h1, h2]
    · simp only [h1, h2, ↓reduceIte] at h ⊢
      exact h _ (List.mem_singleton.2 rfl)

theorem libVerify_congr (cr cr' : Crypto) (pk msg sig : Bytes)
    (h : ∀ q ∈ libVerifyQ pk msg sig, cr.agreesOn cr' q) : libVerify cr pk msg sig = libVerify cr' pk msg sig := by
  unfold libVerify
  unfold libVerifyQ at h
  by_cases h1 : sigR sig ≥ secpN ∨ sigS sig ≥ secpN
  · simp [h1]
  · by_cases h2 : sigS sig > secpHalfN
    · simp [h1, h2]
    · by_cases h3 : sigR sig = 0 ∨ sigS sig = 0
      · simp [h1, h2, h3]
      · simp only [h1, h2, h3, ↓reduceIte] at h ⊢
        exact h _ (List.mem_singleton.2 rfl)

theorem recoverPubkey_congr (cr cr' : Crypto) (msg sig : Bytes)
    (h : ∀ q ∈ recQ msg sig, cr.agreesOn cr' q) : recoverPubkey cr msg sig = recoverPubkey cr' msg sig := by
  unfold recoverPubkey
  unfold recQ at h
  by_cases h1 : msg.length ≠ 32
  · simp [h1]
  · by_cases h2 : sig.length ≠ 65
    · simp [h1, h2]
    · simp only [h1, h2, ↓reduceIte] at h ⊢
      generalize (if (sig.drop 64).headD 0 > 26 then (sig.drop 64).headD 0 - 27 else (sig.drop 64).headD 0) = v' at h ⊢
      by_cases hv : v' ≥ 4
      · simp only [hv, ↓reduceIte]
      · simp only [hv, ↓reduceIte] at h ⊢
        exact libRecover_congr cr cr' _ _ h

theorem recoverPubkeyEth_congr (cr cr' : Crypto) (msg sig : Bytes)
    (h : ∀ q ∈ recQEth msg sig, cr.agreesOn cr' q) : recoverPubkeyEth cr msg sig = recoverPubkeyEth cr' msg sig := by
  unfold recoverPubkeyEth
  unfold recQEth at h
  by_cases h1 : msg.length ≠ 32
  · simp [h1]
  · by_cases h2 : sig.length ≠ 65
    · simp [h1, h2]
    · by_cases h3 : (sig.drop 64).headD 0 ≥ 4
      · simp only [h1, h2, h3, ↓reduceIte]
      · simp only [h1, h2, h3, ↓reduceIte] at h ⊢
        exact libRecover_congr cr cr' _ _ h

/-- native path -/
theorem verifyNative_congr (cr cr' : Crypto) (cfg : ChainCfg) (ht : Nat) (tx : Tx)
    (h : ∀ q ∈ nativeQueries cr cfg ht tx, cr.agreesOn cr' q) :
    verifyNative cr cfg ht tx = verifyNative cr' cfg ht tx := by
  unfold verifyNative
  unfold nativeQueries at h
  by_cases hc : tx.chainId ≠ chainIdStr cfg ht
  · simp [hc]
  · simp only [hc, ↓reduceIte] at h ⊢
    have hsha : cr.sha256 (ser tx) = cr'.sha256 (ser tx) := h _ (List.mem_cons_self ..)
    rw [← hsha]
    by_cases hh : tx.hash ≠ cr.sha256 (ser tx)
    · simp [hh]
    · simp only [hh, ↓reduceIte] at h ⊢
      have hvs : verifySign cr tx = verifySign cr' tx := by
        unfold verifySign
        cases hs : tx.sign with
        | none => rfl
        | some sg =>
          simp only [hs] at h ⊢
          have hq : ∀ q ∈ recQ tx.hash sg.bytes, cr.agreesOn cr' q :=
            fun q hq => h q (List.mem_cons_of_mem _ (List.mem_append_left _ hq))
          rw [← recoverPubkey_congr cr cr' _ _ hq]
          cases hr : recoverPubkey cr tx.hash sg.bytes with
          | none => rfl
          | some pk =>
            simp only [hr] at h ⊢
            have hv : libVerify cr pk tx.hash (sg.bytes.take 64) = libVerify cr' pk tx.hash (sg.bytes.take 64) :=
              libVerify_congr cr cr' _ _ _ (fun q hq =>
                h q (List.mem_cons_of_mem _ (List.mem_append_right _ (List.mem_append_left _ hq))))
            rw [← hv]
            by_cases hl : libVerify cr pk tx.hash (sg.bytes.take 64) = true
            · simp only [hl, ↓reduceIte] at h
              have hk : cr.keccak (getIDInput pk) = cr'.keccak (getIDInput pk) :=
                h _ (List.mem_cons_of_mem _ (List.mem_append_right _ (List.mem_append_right _ (List.mem_singleton.2 rfl))))
              simp only [nativeAddrStr, hk]
            · simp [hl]
      rw [hvs]

theorem recoverPlain_congr (cr cr' : Crypto) (sh : Bytes) (r s : Nat) (vb : Int)
    (h : ∀ q ∈ recoverPlainQueries cr sh r s vb, cr.agreesOn cr' q) :
    recoverPlain cr sh r s vb = recoverPlain cr' sh r s vb := by
  unfold recoverPlain
  unfold recoverPlainQueries at h
  by_cases c1 : vb.natAbs ≥ 256
  · simp only [c1, ↓reduceIte]
  · by_cases c2 : r < 1 ∨ s < 1
    · simp only [c1, c2, ↓reduceIte]
    · by_cases c3 : s > secpHalfN
      · simp only [c1, c2, c3, ↓reduceIte]
      · by_cases c4 : r < secpN ∧ s < secpN ∧ ((vb.natAbs % 2 ^ 64 + 2 ^ 64 - 27) % 256 = 0 ∨ (vb.natAbs % 2 ^ 64 + 2 ^ 64 - 27) % 256 = 1)
        · simp only [c1, c2, c3, c4, ↓reduceIte] at h ⊢
          have hq := recoverPubkeyEth_congr cr cr' sh _ (fun q hq => h q (List.mem_append_left _ hq))
          rw [← hq]
          cases hr : recoverPubkeyEth cr sh
              (padLeft 32 (natToBE r) ++ padLeft 32 (natToBE s) ++ [UInt8.ofNat ((vb.natAbs % 2 ^ 64 + 2 ^ 64 - 27) % 256)]) with
          | none => rfl
          | some pub =>
            simp only [hr] at h ⊢
            by_cases hp : pub.head? ≠ some 4
            · simp [hp]
            · simp only [hp, ↓reduceIte] at h ⊢
              have hk : cr.keccak (pub.drop 1) = cr'.keccak (pub.drop 1) :=
                h _ (List.mem_append_right _ (List.mem_singleton.2 rfl))
              rw [hk]
        · simp only [c1, c2, c3, c4, ↓reduceIte, not_false_eq_true]

theorem ethSender_congr (cr cr' : Crypto) (c : Nat) (e : EthTx)
    (h : ∀ q ∈ ethSenderQueries cr c e, cr.agreesOn cr' q) : ethSender cr c e = ethSender cr' c e := by
  unfold ethSender
  unfold ethSenderQueries at h
  by_cases hp : ¬ isProtectedV e.v = true
  · simp only [hp] at h ⊢
    have hk : cr.keccak (sigPreimageHomestead e) = cr'.keccak (sigPreimageHomestead e) := h _ (List.mem_cons_self ..)
    rw [← hk]
    exact recoverPlain_congr cr cr' _ _ _ _ (fun q hq => h q (List.mem_cons_of_mem _ hq))
  · simp only [hp, ↓reduceIte] at h ⊢
    by_cases hc : deriveChainId e.v ≠ c
    · simp [hc]
    · simp only [hc, ↓reduceIte] at h ⊢
      have hk : cr.keccak (sigPreimage155 c e) = cr'.keccak (sigPreimage155 c e) := h _ (List.mem_cons_self ..)
      rw [← hk]
      exact recoverPlain_congr cr cr' _ _ _ _ (fun q hq => h q (List.mem_cons_of_mem _ hq))

theorem verifyEth_congr (cr cr' : Crypto) (cfg : ChainCfg) (ht : Nat) (tx : Tx)
    (h : ∀ q ∈ ethQueries cr cfg ht tx, cr.agreesOn cr' q) :
    verifyEth cr cfg ht tx = verifyEth cr' cfg ht tx := by
  simp only [verifyEth]
  unfold ethQueries at h
  cases hd : decodeTx (fromHex tx.extraData) with
  | none => rfl
  | some e =>
    simp only [hd] at h ⊢
    by_cases henc : encodeTx e ≠ fromHex tx.extraData
    · simp [henc]
    · simp only [henc, ↓reduceIte] at h ⊢
      have hs := ethSender_congr cr cr' (ethChainId cfg ht) e (fun q hq => h q (List.mem_append_left _ hq))
      rw [← hs]
      cases hsn : ethSender cr (ethChainId cfg ht) e with
      | none => rfl
      | some sender =>
        simp only [hsn] at h ⊢
        have hk : cr.keccak (encodeTx e) = cr'.keccak (encodeTx e) :=
          h _ (List.mem_append_right _ (List.mem_singleton.2 rfl))
        have : convertTx cr e sender (fromHex tx.extraData) = convertTx cr' e sender (fromHex tx.extraData) := by
          simp only [convertTx, hk]
        rw [this]

end Rangers.Model.TxAuth
