import Rangers.Model.VrfSha512
import Rangers.Model.Vrf
import Rangers.Proofs.C16Vrf
/-! Output length of the SHA-512 model and of `ECVRFProve`'s result. -/
namespace Rangers.Proofs.C16Sha
open Rangers Rangers.Model Rangers.Model.VrfSha512

theorem compress_size (hs : Array UInt64) (blk : Bytes) : (compress hs blk).size = 8 := by
  simp [compress]

theorem blocks_size (fuel : Nat) (bs : Bytes) (hs : Array UInt64) (h : hs.size = 8) :
    (blocks fuel bs hs).size = 8 := by
  induction fuel generalizing bs hs with
  | zero => simpa [blocks] using h
  | succ f ih =>
    unfold blocks
    split
    · exact h
    · exact ih _ _ (compress_size _ _)

theorem flatMap_u64BE_length (l : List UInt64) : (l.flatMap u64BE).length = 8 * l.length := by
  induction l with
  | nil => simp
  | cons a l ih => simp [List.flatMap_cons, u64BE, ih]; omega

theorem sha512_length (m : Bytes) : (sha512 m).length = 64 := by
  unfold sha512
  simp only []
  rw [flatMap_u64BE_length, Array.length_toList, blocks_size _ _ _ (by decide)]

/-- `ECVRFProve` returns exactly `ProveSize` bytes. -/
theorem prove_length (sk m pi : Bytes) (h : Vrf.prove sk m = .ok pi) : pi.length = Vrf.proveSize := by
  unfold Vrf.prove Vrf.proveWith at h
  split at h
  · cases h
  · simp only [] at h
    split at h
    · cases h
    · injection h with h
      subst h
      simp [Vrf.ed25519Ops, VrfCurve.encode, VrfCurve.hashPoints, Vrf.natLE, Rangers.Proofs.C16Vrf.natToLE_length,
        sha512_length, Vrf.proveSize]

end Rangers.Proofs.C16Sha
