import Mathlib.Algebra.BigOperators.Group.List.Basic
import Mathlib.Data.List.Perm.Basic
import Rangers.Model.Shamir
/-! `groupNodeInfo.handleSharePiece`: what is stored and which keys are aggregated depend only on the
    first occurrence of every sender in the delivery history. -/
namespace Rangers.Proofs.C13
open Rangers.Model.Shamir

variable {P : Type}

/-- Store a piece unless its sender is already present. -/
def addNew (acc : List (Piece P)) (pc : Piece P) : List (Piece P) :=
  if acc.any (fun e => e.id == pc.id) then acc else acc ++ [pc]

/-- The keys a node holds as a function of what it has stored: aggregated over the first `n`
    stored pieces once there are `n`, nothing before. -/
def keysOf (r : Nat) (addP : P → P → P) (n : Nat) (rc : List (Piece P)) : Nat × Option P :=
  if n ≤ rc.length then
    ((aggregateSeckeys r ((rc.take n).map (·.share))).getD 0, aggregatePoints addP ((rc.take n).map (·.pub)))
  else (0, none)

/-- Well-formed state: the stored keys are `keysOf` the stored pieces. -/
def NodeOk (r : Nat) (addP : P → P → P) (st : NodeInfo P) : Prop :=
  (st.msk, st.gpk) = keysOf r addP st.n st.received

theorem nodeOk_new (r : Nat) (addP : P → P → P) (n : Nat) : NodeOk r addP (NodeInfo.new n : NodeInfo P) := by
  unfold NodeOk keysOf NodeInfo.new
  by_cases h : n ≤ 0
  · have : n = 0 := by omega
    subst this; simp [aggregateSeckeys, aggregatePoints]
  · simp [h]

theorem handleSharePiece_spec (r : Nat) (addP : P → P → P) (st : NodeInfo P) (pc : Piece P)
    (hok : NodeOk r addP st) :
    (handleSharePiece r addP st pc).1.n = st.n ∧
    (handleSharePiece r addP st pc).1.received = addNew st.received pc ∧
    NodeOk r addP (handleSharePiece r addP st pc).1 ∧
    ((handleSharePiece r addP st pc).2 = 1 →
      ¬ st.received.any (fun e => e.id == pc.id) = true ∧ st.received.length + 1 = st.n) ∧
    (st.received.any (fun e => e.id == pc.id) = true →
      (handleSharePiece r addP st pc).1 = st ∧ (handleSharePiece r addP st pc).2 = -1) := by
  have hok0 := hok
  unfold NodeOk keysOf at hok
  by_cases hdup : st.received.any (fun e => e.id == pc.id) = true
  · have hres : handleSharePiece r addP st pc = (st, -1) := by
      unfold handleSharePiece; rw [if_pos hdup]
    rw [hres]
    refine ⟨rfl, ?_, hok0, ?_, fun _ => ⟨rfl, rfl⟩⟩
    · unfold addNew; rw [if_pos hdup]
    · intro h; exact absurd (show ((-1 : Int) = 1) from h) (by decide)
  · have hadd : addNew st.received pc = st.received ++ [pc] := by unfold addNew; rw [if_neg hdup]
    by_cases hlen : (st.received ++ [pc]).length = st.n
    · -- completion: before it the keys were (0, none)
      have hlen' : st.received.length + 1 = st.n := by
        simpa [List.length_append] using hlen
      have hlt : ¬ st.n ≤ st.received.length := by omega
      rw [if_neg hlt] at hok
      have hm : st.msk = 0 := congrArg Prod.fst hok
      have hg : st.gpk = none := congrArg Prod.snd hok
      have hres : handleSharePiece r addP st pc =
          (⟨st.n, st.received ++ [pc], (aggregateSeckeys r ((st.received ++ [pc]).map (·.share))).getD 0,
            aggregatePoints addP ((st.received ++ [pc]).map (·.pub))⟩,
           if (aggregatePoints addP ((st.received ++ [pc]).map (·.pub))).isSome ∧
              (aggregateSeckeys r ((st.received ++ [pc]).map (·.share))).getD 0 ≠ 0 then 1 else -1) := by
        unfold handleSharePiece
        rw [if_neg hdup]
        simp only [hlen, if_true, hg, Option.isNone_none, true_or]
      rw [hres]
      refine ⟨rfl, hadd.symm, ?_, fun _ => ⟨hdup, hlen'⟩, fun h => absurd h hdup⟩
      unfold NodeOk keysOf
      simp only [hlen, Nat.le_refl, if_true]
      rw [← hlen, List.take_length]
    · have hres : handleSharePiece r addP st pc = (⟨st.n, st.received ++ [pc], st.msk, st.gpk⟩, 0) := by
        unfold handleSharePiece
        rw [if_neg hdup]
        simp only [hlen, if_false]
      rw [hres]
      refine ⟨rfl, hadd.symm, ?_, fun h => absurd (show ((0 : Int) = 1) from h) (by decide), fun h => absurd h hdup⟩
      unfold NodeOk keysOf
      simp only [List.length_append, List.length_singleton] at hlen ⊢
      by_cases hle : st.n ≤ st.received.length
      · have h2 : st.n ≤ st.received.length + 1 := by omega
        rw [if_pos hle] at hok
        rw [if_pos h2, List.take_append_of_le_length hle]
        exact hok
      · have h2 : ¬ st.n ≤ st.received.length + 1 := by omega
        rw [if_neg hle] at hok
        rw [if_neg h2]
        exact hok

/-- After any delivery history the node stores the first occurrence of every sender and holds the
    keys of the first `n` of them. -/
theorem deliverAll_spec (r : Nat) (addP : P → P → P) : ∀ (h : List (Piece P)) (st : NodeInfo P),
    NodeOk r addP st →
      (deliverAll r addP st h).1.n = st.n ∧
      (deliverAll r addP st h).1.received = h.foldl addNew st.received ∧
      NodeOk r addP (deliverAll r addP st h).1 := by
  intro h
  induction h with
  | nil => intro st hok; exact ⟨rfl, rfl, hok⟩
  | cons pc rest ih =>
    intro st hok
    obtain ⟨hn, hrc, hok', _, _⟩ := handleSharePiece_spec r addP st pc hok
    obtain ⟨hn2, hrc2, hok2⟩ := ih (handleSharePiece r addP st pc).1 hok'
    simp only [deliverAll, List.foldl_cons]
    exact ⟨hn2.trans hn, by rw [hrc2, hrc], hok2⟩

/-- Duplicates and order are irrelevant: two histories with the same first-occurrence list leave the
    node with the same stored pieces and the same keys. -/
theorem deliverAll_same_firstOcc (r : Nat) (addP : P → P → P) (n : Nat) (h1 h2 : List (Piece P))
    (h : h1.foldl addNew [] = h2.foldl addNew []) :
    let a := (deliverAll r addP (NodeInfo.new n) h1).1
    let b := (deliverAll r addP (NodeInfo.new n) h2).1
    a.received = b.received ∧ a.msk = b.msk ∧ a.gpk = b.gpk := by
  obtain ⟨n1, r1, k1⟩ := deliverAll_spec r addP h1 (NodeInfo.new n) (nodeOk_new r addP n)
  obtain ⟨n2, r2, k2⟩ := deliverAll_spec r addP h2 (NodeInfo.new n) (nodeOk_new r addP n)
  have hr : (deliverAll r addP (NodeInfo.new n) h1).1.received = (deliverAll r addP (NodeInfo.new n) h2).1.received := by
    rw [r1, r2]; exact h
  unfold NodeOk at k1 k2
  rw [n1, hr] at k1
  rw [n2] at k2
  have := k1.trans k2.symm
  simp only [Prod.mk.injEq] at this
  exact ⟨hr, this.1, this.2⟩

theorem aggregateSeckeys_eq_sum (r : Nat) (l : List Nat) (hl : l ≠ []) :
    aggregateSeckeys r l = some (l.sum % r) := by
  cases l with
  | nil => exact absurd rfl hl
  | cons s rest =>
    simp only [aggregateSeckeys, List.sum_cons]
    congr 2
    have : ∀ (l : List Nat) (s : Nat), l.foldl (fun acc x => acc + x) s = s + l.sum := by
      intro l; induction l with
      | nil => intro s; simp
      | cons a l ih => intro s; simp [ih, Nat.add_assoc]
    exact this rest s

theorem aggregatePoints_eq_sum {G : Type} [AddCommGroup G] (l : List G) (hl : l ≠ []) :
    aggregatePoints (· + ·) l = some l.sum := by
  cases l with
  | nil => exact absurd rfl hl
  | cons s rest =>
    simp only [aggregatePoints, List.sum_cons]
    congr 1
    have : ∀ (l : List G) (s : G), l.foldl (· + ·) s = s + l.sum := by
      intro l; induction l with
      | nil => intro s; simp
      | cons a l ih => intro s; simp [ih, add_assoc]
    exact this rest s

/-- The keys are a function of the SET of the first `n` distinct senders' pieces: any permutation of
    them gives the same signing key and group public key. -/
theorem keysOf_perm {G : Type} [AddCommGroup G] (r n : Nat) (rc honest : List (Piece G))
    (hn : 0 < n) (hlen : n ≤ rc.length) (hp : (rc.take n).Perm honest) :
    keysOf r (· + ·) n rc =
      ((honest.map (·.share)).sum % r, some (honest.map (·.pub)).sum) := by
  unfold keysOf
  simp only [hlen, if_true]
  have hne : rc.take n ≠ [] := by
    intro h0
    have : (rc.take n).length = 0 := by rw [h0]; rfl
    rw [List.length_take] at this; omega
  have hne1 : (rc.take n).map (·.share) ≠ [] := by simpa using hne
  have hne2 : (rc.take n).map (·.pub) ≠ [] := by simpa using hne
  rw [aggregateSeckeys_eq_sum r _ hne1, aggregatePoints_eq_sum _ hne2]
  simp only [Option.getD_some]
  rw [(hp.map (·.share)).sum_eq, (hp.map (·.pub)).sum_eq]

end Rangers.Proofs.C13
