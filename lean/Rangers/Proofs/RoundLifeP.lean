import Rangers.Model.RoundLife
import Rangers.Proofs.Round
/-! Invariants of the life-cycle model: valid share sets, only valid blocks generated, inert after the end. -/
namespace Rangers.Proofs.Round
open Rangers.Model.Round

variable {G : Type}

/-! ### whatever reaches `GenerateBlock` passed `checkSignature` -/

/-- `GenerateBlock` was only ever called with signatures that pass `round2.checkSignature`. -/
def GenValid (c : Crypto G) (env : Env) (rs : RState G) : Prop :=
  ∀ a b, rs.generated = some (a, b) → sigOk c env.hash a = true ∧ sigOk c env.prevRandom b = true

theorem GenValid.withChain {c : Crypto G} {env : Env} {rs : RState G} (b : Bool) :
    GenValid c (env.withChain b) rs ↔ GenValid c env rs := Iff.rfl

theorem start2_genValid (c : Crypto G) (env : Env) (st : RState G) (h : GenValid c env st) :
    GenValid c env (start2 c env st).1 := by
  unfold start2
  split; · exact h
  simp only []
  split; · exact h
  split; · exact h
  split; · exact h
  rename_i h1 h2
  intro a b hab
  simp only [Option.some.injEq, Prod.mk.injEq] at hab
  obtain ⟨rfl, rfl⟩ := hab
  exact ⟨by simpa using h1, by simpa using h2⟩

theorem advance_genValid (c : Crypto G) (env : Env) (p : Party G) (h : GenValid c env p.rs) :
    GenValid c env (advance c env p).rs := by
  unfold advance
  split
  · exact h
  · split; · exact h
    simp only []
    have h2 := start2_genValid c env { p.rs with canProcessed := true, number := 2 } h
    split <;> exact h2
  · split <;> exact h

theorem update_genValid (c : Crypto G) (env : Env) (st : RState G) (m : VMsg G) (h : GenValid c env st) :
    GenValid c env (update c env st m).st := by
  intro a b hab
  have hf : (update c env st m).st.generated = st.generated := by
    unfold update
    split; · rfl
    split; · rfl
    split; · rfl
    split; · rfl
    split; · rfl
    split; · rfl
    split; · rfl
    simp only []
    split; · rfl
    split <;> rfl
  rw [hf] at hab
  exact h a b hab

theorem startLoop_genValid (c : Crypto G) (env : Env) (ms : List (VMsg G)) :
    ∀ st : RState G, GenValid c env st → GenValid c env (startLoop c env st ms).1 := by
  induction ms with
  | nil => intro st h; exact h
  | cons m rest ih =>
    intro st h
    unfold startLoop
    have hu := update_genValid c env st m h
    simp only []
    split
    · split
      · exact ih _ hu
      · exact hu
    split; · exact hu
    exact ih _ hu

theorem start1_genValid (c : Crypto G) (env : Env) (st : RState G) (h : GenValid c env st) :
    GenValid c env (start1 c env st).1 := by
  unfold start1
  split; · exact h
  simp only []
  have h0 : GenValid c env { st with gSign := Gen.new (groupK env.groupSize), rSign := Gen.new (groupK env.groupSize) } := h
  split; · exact h0
  have hl := startLoop_genValid c env st.future _ h0
  split
  · exact hl
  · exact hl

theorem partyUpdate_genValid (c : Crypto G) (env : Env) (p : Party G) (m : VMsg G) (h : GenValid c env p.rs) :
    GenValid c env (partyUpdate c env p m).1.rs := by
  unfold partyUpdate
  split
  · exact h
  · exact advance_genValid c env p h
  · split; · exact advance_genValid c env p h
    simp only []
    have hu := update_genValid c env p.rs m h
    split; · exact h
    split; · exact hu
    exact advance_genValid c env _ hu

theorem enter_genValid (c : Crypto G) (env : Env) (processed : List MsgId) (future : List (VMsg G)) :
    GenValid c env (enter c env processed future).rs := by
  unfold enter
  simp only []
  have h0 : GenValid c env (RState.init processed future : RState G) := by
    intro a b hab; simp [RState.init] at hab
  have h1 := start1_genValid c env _ h0
  split; · exact h1
  split; · exact h1
  exact advance_genValid c env _ h1

/-- Both invariants of the round state together. -/
structure Safe (c : Crypto G) (env : Env) (rs : RState G) : Prop where
  inv : Inv c env rs
  gen : GenValid c env rs

theorem Safe.withChain {c : Crypto G} {env : Env} {rs : RState G} (b : Bool) :
    Safe c (env.withChain b) rs ↔ Safe c env rs :=
  ⟨fun h => ⟨(Inv.withChain b).mp h.inv, h.gen⟩, fun h => ⟨(Inv.withChain b).mpr h.inv, h.gen⟩⟩

theorem onVerify_safe (c : Crypto G) (env : Env) (hb : env.bindsHash = true) (pr : Proc G) (m : VMsg G)
    (h : Safe c env pr.party.rs) : Safe c env (pr.onVerify c env m).1.party.rs := by
  refine ⟨onVerify_inv c env hb pr m h.inv, ?_⟩
  unfold Proc.onVerify
  split
  · split
    · simp only []
      rw [settle_rs]
      exact partyUpdate_genValid c env pr.party m h.gen
    · split <;> exact h.gen
  · exact h.gen

theorem dispatch_safe (c : Crypto G) (env : Env) (hb : env.bindsHash = true) (ms : List (VMsg G)) :
    ∀ pr : Proc G, Safe c env pr.party.rs → Safe c env (dispatch c env pr ms).party.rs := by
  induction ms with
  | nil => intro pr h; exact h
  | cons m rest ih => intro pr h; exact ih _ (onVerify_safe c env hb pr m h)

theorem initWith_safe (c : Crypto G) (env : Env) (hb : env.bindsHash = true) (processed : List MsgId)
    (future : List (VMsg G)) : Safe c env (Proc.initWith c env processed future).party.rs := by
  unfold Proc.initWith
  rw [settle_rs]
  exact ⟨enter_inv c env hb processed future, enter_genValid c env processed future⟩

theorem idle_safe (c : Crypto G) (env : Env) : Safe c env (Proc.idle : Proc G).party.rs :=
  ⟨⟨GenOk.new c env _ _, GenOk.new c env _ _⟩, by intro a b hab; simp [Proc.idle, RState.init] at hab⟩

/-! ### the life cycle keeps the round state safe -/

theorem enterSigning_safe (c : Crypto G) (env : Env) (hb : env.bindsHash = true)
    (ord : List (VMsg G) → List (VMsg G)) (l : Life G) (p0 : List MsgId) (stored pending : List (VMsg G)) :
    Safe c env (l.enterSigning c env ord p0 stored pending).proc.party.rs :=
  dispatch_safe c env hb pending _ (initWith_safe c env hb p0 (ord stored))

theorem onPacket_safe (c : Crypto G) (env : Env) (hb : env.bindsHash = true)
    (ord : List (VMsg G) → List (VMsg G)) (l : Life G) (w : Wire G) (h : Safe c env l.proc.party.rs) :
    Safe c env (l.onPacket c env ord w).proc.party.rs := by
  unfold Life.onPacket
  split; · exact h
  split
  · split
    · exact h
    · exact onVerify_safe c env hb l.proc _ h
  · split
    · exact enterSigning_safe c env hb ord l _ _ _
    · split <;> exact h
  · split <;> exact h
  · exact h
  · split <;> exact h

theorem foldPackets_safe (c : Crypto G) (env : Env) (hb : env.bindsHash = true)
    (ord : List (VMsg G) → List (VMsg G)) (ms : List (VMsg G)) :
    ∀ l : Life G, Safe c env l.proc.party.rs →
      Safe c env (ms.foldl (fun acc m => acc.onPacket c env ord (.ok m)) l).proc.party.rs := by
  induction ms with
  | nil => intro l h; exact h
  | cons m rest ih => intro l h; exact ih _ (onPacket_safe c env hb ord l _ h)

theorem step_safe (c : Crypto G) (env : Env) (hb : env.bindsHash = true)
    (ord : List (VMsg G) → List (VMsg G)) (l : Life G) (ev : Event G) (h : Safe c env l.proc.party.rs) :
    Safe c env (l.step c env ord ev).proc.party.rs := by
  cases ev with
  | cast mid v =>
    simp only [Life.step, Life.onCast]
    split
    · cases v
      · exact h
      · exact h
      · exact enterSigning_safe c env hb ord l _ _ _
    · split
      · exact h
      · cases v
        · exact h
        · exact h
        · exact enterSigning_safe c env hb ord l _ _ _
    · exact h
  | notify v =>
    have hn : Safe c env (l.onNotify v).proc.party.rs := by
      unfold Life.onNotify
      split
      · cases v <;> exact h
      · exact h
    simp only [Life.step]
    split
    · exact foldPackets_safe c env hb ord _ _ hn
    · exact hn
  | packet b w =>
    simp only [Life.step]
    exact (Safe.withChain b).mp (onPacket_safe c (env.withChain b) hb ord l w ((Safe.withChain b).mpr h))
  | timeout =>
    simp only [Life.step, Life.onTimeout]
    split
    · exact h
    · exact h
    · split <;> exact h
    · exact h

theorem run_safe (c : Crypto G) (env : Env) (hb : env.bindsHash = true)
    (ord : List (VMsg G) → List (VMsg G)) (evs : List (Event G)) :
    ∀ l : Life G, Safe c env l.proc.party.rs → Safe c env (Life.run c env ord l evs).proc.party.rs := by
  induction evs with
  | nil => intro l h; exact h
  | cons e rest ih => intro l h; exact ih _ (step_safe c env hb ord l e h)

/-! ### after the end nothing changes -/

/-- The party has been reaped: while still in round0, or in the signing rounds (error, completion, timeout). -/
def Dead (l : Life G) : Prop := l.stage = .gone ∨ (l.stage = .signing ∧ l.proc.inManager = false)

theorem onVerify_dead (c : Crypto G) (env : Env) (pr : Proc G) (m : VMsg G) (h : pr.inManager = false) :
    (pr.onVerify c env m).1.party = pr.party ∧ (pr.onVerify c env m).1.inManager = false ∧
    (pr.onVerify c env m).1.ending = pr.ending := by
  unfold Proc.onVerify
  split
  · rw [if_neg (by simp [h])]
    split <;> exact ⟨rfl, h, rfl⟩
  · exact ⟨rfl, h, rfl⟩

theorem step_dead (c : Crypto G) (env : Env) (ord : List (VMsg G) → List (VMsg G)) (l : Life G)
    (ev : Event G) (h : Dead l) :
    (l.step c env ord ev).proc.party = l.proc.party ∧ (l.step c env ord ev).proc.ending = l.proc.ending ∧
    Dead (l.step c env ord ev) := by
  rcases h with hg | ⟨hs, hm⟩
  · -- reaped in round0
    have hd : Dead l := Or.inl hg
    cases ev with
    | cast mid v =>
      have : l.onCast c env ord mid v = l := by simp only [Life.onCast, hg]
      have hstep : l.step c env ord (.cast mid v) = l.onCast c env ord mid v := rfl
      rw [hstep, this]; exact ⟨rfl, rfl, hd⟩
    | notify v =>
      have : l.onNotify v = l := by simp only [Life.onNotify, hg]
      have h2 : l.step c env ord (.notify v) = l := by
        simp only [Life.step, this, hg]
        rw [if_neg (by simp)]
      rw [h2]; exact ⟨rfl, rfl, hd⟩
    | packet b w =>
      have hstep : l.step c env ord (.packet b w) = l.onPacket c (env.withChain b) ord w := rfl
      rw [hstep]
      unfold Life.onPacket
      split; · exact ⟨rfl, rfl, hd⟩
      rw [hg]
      simp only []
      split
      · exact ⟨rfl, rfl, hd⟩
      · exact ⟨rfl, rfl, Or.inl rfl⟩
    | timeout =>
      have : l.onTimeout = l := by simp only [Life.onTimeout, hg]
      have hstep : l.step c env ord .timeout = l.onTimeout := rfl
      rw [hstep, this]; exact ⟨rfl, rfl, hd⟩
  · -- reaped in the signing rounds
    have hd : Dead l := Or.inr ⟨hs, hm⟩
    cases ev with
    | cast mid v =>
      have : l.onCast c env ord mid v = l := by simp only [Life.onCast, hs]
      have hstep : l.step c env ord (.cast mid v) = l.onCast c env ord mid v := rfl
      rw [hstep, this]; exact ⟨rfl, rfl, hd⟩
    | notify v =>
      have : l.onNotify v = l := by simp only [Life.onNotify, hs]
      have h2 : l.step c env ord (.notify v) = l := by
        simp only [Life.step, this, hs]
        rw [if_neg (by simp)]
      rw [h2]; exact ⟨rfl, rfl, hd⟩
    | packet b w =>
      have hstep : l.step c env ord (.packet b w) = l.onPacket c (env.withChain b) ord w := rfl
      rw [hstep]
      unfold Life.onPacket
      split; · exact ⟨rfl, rfl, hd⟩
      rw [hs]
      simp only []
      split
      · exact ⟨rfl, rfl, hd⟩
      · rename_i _ m _ _
        have := onVerify_dead c (env.withChain b) l.proc m hm
        exact ⟨this.1, this.2.2, Or.inr ⟨rfl, this.2.1⟩⟩
    | timeout =>
      have : l.onTimeout = l := by
        simp only [Life.onTimeout, hs]
        rw [if_neg (by simp [hm])]
      have hstep : l.step c env ord .timeout = l.onTimeout := rfl
      rw [hstep, this]; exact ⟨rfl, rfl, hd⟩

theorem run_dead (c : Crypto G) (env : Env) (ord : List (VMsg G) → List (VMsg G)) (evs : List (Event G)) :
    ∀ l : Life G, Dead l →
      (Life.run c env ord l evs).proc.party = l.proc.party ∧
      (Life.run c env ord l evs).proc.ending = l.proc.ending ∧ Dead (Life.run c env ord l evs) := by
  induction evs with
  | nil => intro l h; exact ⟨rfl, rfl, h⟩
  | cons e rest ih =>
    intro l h
    have hs := step_dead c env ord l e h
    have hr := ih _ hs.2.2
    exact ⟨hr.1.trans hs.1, hr.2.1.trans hs.2.1, hr.2.2⟩

end Rangers.Proofs.Round
