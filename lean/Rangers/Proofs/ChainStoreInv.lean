import Rangers.Model.ChainStore
/-!
Invariants of the block store model and the disk-level lemmas about them
(helper file for `Props/C05.lean`; core Lean only).

* `Linked c`       : `c` (head first) is linked by parent hashes, heights strictly decrease, ends at height 0
* `ChainInv d c`   : the disk holds exactly the chain `c` — the property's quiescent-point clause
* `Pending d c x`  : the disk holds the chain `c` plus any part of one block `x` that is a child of
                     `c`'s head, under at least one intent mark for `x` — every state a process
                     death inside `insertBlock` / `remove` / start-up repair can leave behind
* `Rec d`          : `ChainInv` or `Pending` — what start-up repair can handle
-/
namespace Rangers.Proofs.ChainStore
open Rangers.Model.ChainStore

/-! ### maps -/

@[simp] theorem upd_same {α} (m : Map α) (k : Nat) (v : Option α) : upd m k v k = v := by simp [upd]
theorem upd_other {α} (m : Map α) {k x : Nat} (v : Option α) (h : x ≠ k) : upd m k v x = m x := by simp [upd, h]
@[simp] theorem updB_same (m : Nat → Bool) (k : Nat) (v : Bool) : updB m k v k = v := by simp [updB]
theorem updB_other (m : Nat → Bool) {k x : Nat} (v : Bool) (h : x ≠ k) : updB m k v x = m x := by simp [updB, h]

theorem upd_eq_some {α} {m : Map α} {k x : Nat} {v : Option α} {a : α} (h : upd m k v x = some a) :
    (x = k ∧ v = some a) ∨ (x ≠ k ∧ m x = some a) := by
  unfold upd at h
  by_cases hx : x = k
  · simp [hx] at h; exact Or.inl ⟨hx, h⟩
  · simp [hx] at h; exact Or.inr ⟨hx, h⟩

theorem updB_eq_true {m : Nat → Bool} {k x : Nat} {v : Bool} (h : updB m k v x = true) :
    (x = k ∧ v = true) ∨ (x ≠ k ∧ m x = true) := by
  unfold updB at h
  by_cases hx : x = k
  · simp [hx] at h; exact Or.inl ⟨hx, h⟩
  · simp [hx] at h; exact Or.inr ⟨hx, h⟩

/-! ### chains -/

/-- `c` (head first) is linked by parent hashes with strictly decreasing heights and ends in a
    height-0 block (genesis). -/
def Linked : List Block → Prop
  | [] => False
  | [g] => g.height = 0
  | x :: y :: rest => x.pre = y.hash ∧ y.height < x.height ∧ Linked (y :: rest)

theorem Linked.ne_nil {c : List Block} (h : Linked c) : c ≠ [] := by
  cases c <;> simp_all [Linked]

theorem Linked.tail {x : Block} {c : List Block} (h : Linked (x :: c)) (hc : c ≠ []) : Linked c := by
  cases c with
  | nil => exact absurd rfl hc
  | cons y rest => exact h.2.2

/-- every block below the head is strictly lower than the head -/
theorem Linked.lt_head : ∀ {c : List Block} {x : Block}, Linked (x :: c) → ∀ y ∈ c, y.height < x.height
  | [], _, _, _, hy => by cases hy
  | z :: rest, x, h, y, hy => by
    have hz : z.height < x.height := h.2.1
    cases hy with
    | head => exact hz
    | tail _ hy' =>
      have := Linked.lt_head (c := rest) (x := z) h.2.2 y hy'
      omega

theorem Linked.le_head {c : List Block} {x : Block} (h : Linked (x :: c)) : ∀ y ∈ x :: c, y.height ≤ x.height := by
  intro y hy
  cases hy with
  | head => exact Nat.le_refl _
  | tail _ hy' => exact Nat.le_of_lt (h.lt_head y hy')

theorem Linked.cons {x y : Block} {rest : List Block} (h : Linked (y :: rest)) (hp : x.pre = y.hash)
    (hh : y.height < x.height) : Linked (x :: y :: rest) := ⟨hp, hh, h⟩

/-- no transaction occurs in two blocks of the chain (a block never repeats a transaction of an ancestor) -/
def TxDisj (c : List Block) : Prop := c.Pairwise (fun x y => ∀ t ∈ x.txs, t ∉ y.txs)

/-- The quiescent-point clause of C05 for disk `d` with canonical chain `c` (head first), including the
    pool clause: the executed store marks exactly the transactions of the chain's blocks. -/
structure ChainInv (d : Disk) (c : List Block) : Prop where
  linked : Linked c
  cur : d.current = c.head?
  blocks_mem : ∀ x ∈ c, d.blocks x.hash = some x
  heights_mem : ∀ x ∈ c, d.heights x.height = some x
  blocks_only : ∀ h x, d.blocks h = some x → x ∈ c ∧ x.hash = h
  heights_only : ∀ n x, d.heights n = some x → x ∈ c ∧ x.height = n
  verify_mem : ∀ x ∈ c, d.verify x.height = true
  verify_only : ∀ n, d.verify n = true → ∃ x ∈ c, x.height = n
  roots : ∀ x ∈ c, d.roots x.hash = true
  noAdd : d.addMark = none
  noRemove : d.removeMark = none
  exec_mem : ∀ x ∈ c, ∀ t ∈ x.txs, d.executed t = some x.hash
  exec_only : ∀ t h, d.executed t = some h → ∃ x ∈ c, x.hash = h ∧ t ∈ x.txs
  txdisj : TxDisj c

/-- Chain `c` plus any part of one child `x` of its head, under an intent mark for `x`. -/
structure Pending (d : Disk) (c : List Block) (x : Block) : Prop where
  linked : Linked c
  child : ∃ y, c.head? = some y ∧ x.pre = y.hash ∧ y.height < x.height
  fresh : ∀ y ∈ c, y.hash ≠ x.hash
  cur : d.current = c.head? ∨ d.current = some x
  blocks_mem : ∀ y ∈ c, d.blocks y.hash = some y
  heights_mem : ∀ y ∈ c, d.heights y.height = some y
  blocks_only : ∀ h z, d.blocks h = some z → (z ∈ c ∨ z = x) ∧ z.hash = h
  heights_only : ∀ n z, d.heights n = some z → (z ∈ c ∨ z = x) ∧ z.height = n
  verify_mem : ∀ y ∈ c, d.verify y.height = true
  verify_only : ∀ n, d.verify n = true → (∃ y ∈ c, y.height = n) ∨ n = x.height
  roots : ∀ y ∈ c, d.roots y.hash = true
  addMark : d.addMark = none ∨ d.addMark = some x
  removeMark : d.removeMark = none ∨ d.removeMark = some x
  marked : d.addMark = some x ∨ d.removeMark = some x
  exec_mem : ∀ y ∈ c, ∀ t ∈ y.txs, d.executed t = some y.hash
  exec_only : ∀ t h, d.executed t = some h → (∃ y ∈ c, y.hash = h ∧ t ∈ y.txs) ∨ (h = x.hash ∧ t ∈ x.txs)
  txfresh : ∀ y ∈ c, ∀ t ∈ x.txs, t ∉ y.txs
  txdisj : TxDisj c

/-- What start-up repair can handle. -/
def Rec (d : Disk) : Prop := (∃ c, ChainInv d c) ∨ (∃ c x, Pending d c x)

/-- the base chain a recoverable disk recovers to -/
def RecTo (d : Disk) (c : List Block) : Prop := ChainInv d c ∨ ∃ x, Pending d c x

theorem RecTo.rec {d : Disk} {c : List Block} (h : RecTo d c) : Rec d := by
  cases h with
  | inl h => exact Or.inl ⟨c, h⟩
  | inr h => obtain ⟨x, hx⟩ := h; exact Or.inr ⟨c, x, hx⟩

theorem Pending.lt_x {d : Disk} {c : List Block} {x : Block} (p : Pending d c x) : ∀ y ∈ c, y.height < x.height := by
  obtain ⟨y0, hy0, _, hlt⟩ := p.child
  intro y hy
  cases c with
  | nil => cases hy
  | cons z rest =>
    simp at hy0; subst hy0
    have := p.linked.le_head y hy
    omega

theorem Pending.x_not_mem {d : Disk} {c : List Block} {x : Block} (p : Pending d c x) : x ∉ c := by
  intro hx
  have := p.lt_x x hx
  omega

/-! ### writes that concern the pending block keep `Pending` -/

/-- the writes `insertBlock x`, `remove x` and the start-up repair of `x` perform, other than erasing a mark -/
inductive About (c : List Block) (x : Block) : Write → Prop where
  | putAddMark : About c x (.putAddMark x)
  | putRemoveMark : About c x (.putRemoveMark x)
  | putBlock : About c x (.putBlock x)
  | delBlock : About c x (.delBlock x.hash)
  | putHeight : About c x (.putHeight x.height x)
  | delHeight : About c x (.delHeight x.height)
  | putVerify : About c x (.putVerify x.height)
  | delVerify : About c x (.delVerify x.height)
  | putCurrentX : About c x (.putCurrent x)
  | putCurrentHead (y : Block) (h : c.head? = some y) : About c x (.putCurrent y)
  | commitState : About c x (.commitState x.hash)
  | putExecuted : About c x (.putExecuted x.txs x.hash)
  | delExecuted (t : Nat) (ht : t ∈ x.txs) : About c x (.delExecuted t)

theorem Pending.write {d : Disk} {c : List Block} {x : Block} (p : Pending d c x) {w : Write}
    (hw : About c x w) : Pending (d.apply w) c x := by
  have hlt := p.lt_x
  cases hw with
  | putAddMark => exact { p with addMark := Or.inr rfl, marked := Or.inl rfl }
  | putRemoveMark => exact { p with removeMark := Or.inr rfl, marked := Or.inr rfl }
  | putBlock =>
    refine { p with blocks_mem := ?_, blocks_only := ?_ }
    · intro y hy
      show upd d.blocks x.hash (some x) y.hash = some y
      rw [upd_other _ _ (p.fresh y hy)]; exact p.blocks_mem y hy
    · intro h z hz
      rcases upd_eq_some hz with ⟨hk, hv⟩ | ⟨_, hm⟩
      · simp at hv; subst hv; exact ⟨Or.inr rfl, hk.symm⟩
      · exact p.blocks_only h z hm
  | delBlock =>
    refine { p with blocks_mem := ?_, blocks_only := ?_ }
    · intro y hy
      show upd d.blocks x.hash none y.hash = some y
      rw [upd_other _ _ (p.fresh y hy)]; exact p.blocks_mem y hy
    · intro h z hz
      rcases upd_eq_some hz with ⟨_, hv⟩ | ⟨_, hm⟩
      · cases hv
      · exact p.blocks_only h z hm
  | putHeight =>
    refine { p with heights_mem := ?_, heights_only := ?_ }
    · intro y hy
      show upd d.heights x.height (some x) y.height = some y
      rw [upd_other _ _ (Nat.ne_of_lt (hlt y hy))]; exact p.heights_mem y hy
    · intro n z hz
      rcases upd_eq_some hz with ⟨hk, hv⟩ | ⟨_, hm⟩
      · simp at hv; subst hv; exact ⟨Or.inr rfl, hk.symm⟩
      · exact p.heights_only n z hm
  | delHeight =>
    refine { p with heights_mem := ?_, heights_only := ?_ }
    · intro y hy
      show upd d.heights x.height none y.height = some y
      rw [upd_other _ _ (Nat.ne_of_lt (hlt y hy))]; exact p.heights_mem y hy
    · intro n z hz
      rcases upd_eq_some hz with ⟨_, hv⟩ | ⟨_, hm⟩
      · cases hv
      · exact p.heights_only n z hm
  | putVerify =>
    refine { p with verify_mem := ?_, verify_only := ?_ }
    · intro y hy
      show updB d.verify x.height true y.height = true
      rw [updB_other _ _ (Nat.ne_of_lt (hlt y hy))]; exact p.verify_mem y hy
    · intro n hn
      rcases updB_eq_true hn with ⟨hk, _⟩ | ⟨_, hm⟩
      · exact Or.inr hk
      · exact p.verify_only n hm
  | delVerify =>
    refine { p with verify_mem := ?_, verify_only := ?_ }
    · intro y hy
      show updB d.verify x.height false y.height = true
      rw [updB_other _ _ (Nat.ne_of_lt (hlt y hy))]; exact p.verify_mem y hy
    · intro n hn
      rcases updB_eq_true hn with ⟨_, hv⟩ | ⟨_, hm⟩
      · cases hv
      · exact p.verify_only n hm
  | putCurrentX => exact { p with cur := Or.inr rfl }
  | putCurrentHead y h => exact { p with cur := Or.inl (by show some y = c.head?; rw [h]) }
  | commitState =>
    refine { p with roots := ?_ }
    intro y hy
    show updB d.roots x.hash true y.hash = true
    rw [updB_other _ _ (p.fresh y hy)]; exact p.roots y hy
  | putExecuted =>
    refine { p with exec_mem := ?_, exec_only := ?_ }
    · intro y hy t ht
      show markExec d.executed x.txs x.hash t = some y.hash
      have : t ∉ x.txs := fun h => p.txfresh y hy t h ht
      simp [markExec, this]; exact p.exec_mem y hy t ht
    · intro t h hh
      have hh' : markExec d.executed x.txs x.hash t = some h := hh
      unfold markExec at hh'
      split at hh'
      · rename_i ht
        simp at hh'; exact Or.inr ⟨hh'.symm, ht⟩
      · exact p.exec_only t h hh'
  | delExecuted t0 ht0 =>
    refine { p with exec_mem := ?_, exec_only := ?_ }
    · intro y hy t ht
      show upd d.executed t0 none t = some y.hash
      have : t ≠ t0 := fun e => p.txfresh y hy t0 ht0 (e ▸ ht)
      rw [upd_other _ _ this]; exact p.exec_mem y hy t ht
    · intro t h hh
      rcases upd_eq_some hh with ⟨_, hv⟩ | ⟨_, hm⟩
      · cases hv
      · exact p.exec_only t h hm

/-! ### entering and leaving `Pending` -/

/-- `Put(addBlockMark)` for a child `b` of the head that is not yet indexed. -/
theorem ChainInv.begin_add {d : Disk} {c : List Block} {y b : Block} (ci : ChainInv d c)
    (hy : c.head? = some y) (hp : b.pre = y.hash) (hh : y.height < b.height) (hn : d.blocks b.hash = none)
    (hfresh : ∀ z ∈ c, ∀ t ∈ b.txs, t ∉ z.txs) :
    Pending (d.apply (.putAddMark b)) c b where
  linked := ci.linked
  child := ⟨y, hy, hp, hh⟩
  fresh := by
    intro z hz he
    have := ci.blocks_mem z hz
    rw [he, hn] at this; cases this
  cur := Or.inl ci.cur
  blocks_mem := ci.blocks_mem
  heights_mem := ci.heights_mem
  blocks_only := fun h z hz => ⟨Or.inl (ci.blocks_only h z hz).1, (ci.blocks_only h z hz).2⟩
  heights_only := fun n z hz => ⟨Or.inl (ci.heights_only n z hz).1, (ci.heights_only n z hz).2⟩
  verify_mem := ci.verify_mem
  verify_only := fun n hn => Or.inl (ci.verify_only n hn)
  roots := ci.roots
  addMark := Or.inr rfl
  removeMark := Or.inl ci.noRemove
  marked := Or.inl rfl
  exec_mem := ci.exec_mem
  exec_only := fun t h hh => Or.inl (ci.exec_only t h hh)
  txfresh := hfresh
  txdisj := ci.txdisj

/-- `Put(removeBlockMark)` for the head `x` of a chain of at least two blocks. -/
theorem ChainInv.begin_remove {d : Disk} {c : List Block} {x : Block} (ci : ChainInv d (x :: c)) (hc : c ≠ []) :
    Pending (d.apply (.putRemoveMark x)) c x := by
  have hlt := ci.linked.lt_head
  obtain ⟨y, rest, rfl⟩ : ∃ y rest, c = y :: rest := by
    cases c with
    | nil => exact absurd rfl hc
    | cons y rest => exact ⟨y, rest, rfl⟩
  have hl : x.pre = y.hash ∧ y.height < x.height ∧ Linked (y :: rest) := ci.linked
  exact {
    linked := hl.2.2
    child := ⟨y, rfl, hl.1, hl.2.1⟩
    fresh := by
      intro z hz he
      have h1 := ci.blocks_mem z (List.mem_cons_of_mem _ hz)
      have h2 := ci.blocks_mem x (List.mem_cons_self ..)
      rw [he, h2] at h1
      have : x = z := by simpa using h1
      have := hlt z hz
      subst_vars; omega
    cur := Or.inr ci.cur
    blocks_mem := fun z hz => ci.blocks_mem z (List.mem_cons_of_mem _ hz)
    heights_mem := fun z hz => ci.heights_mem z (List.mem_cons_of_mem _ hz)
    blocks_only := by
      intro h z hz
      have := ci.blocks_only h z hz
      refine ⟨?_, this.2⟩
      rcases List.mem_cons.mp this.1 with h1 | h1
      · exact Or.inr h1
      · exact Or.inl h1
    heights_only := by
      intro n z hz
      have := ci.heights_only n z hz
      refine ⟨?_, this.2⟩
      rcases List.mem_cons.mp this.1 with h1 | h1
      · exact Or.inr h1
      · exact Or.inl h1
    verify_mem := fun z hz => ci.verify_mem z (List.mem_cons_of_mem _ hz)
    verify_only := by
      intro n hn
      obtain ⟨z, hz, he⟩ := ci.verify_only n hn
      rcases List.mem_cons.mp hz with h1 | h1
      · subst h1; exact Or.inr he.symm
      · exact Or.inl ⟨z, h1, he⟩
    roots := fun z hz => ci.roots z (List.mem_cons_of_mem _ hz)
    addMark := Or.inl ci.noAdd
    removeMark := Or.inr rfl
    marked := Or.inr rfl
    exec_mem := fun z hz => ci.exec_mem z (List.mem_cons_of_mem _ hz)
    exec_only := by
      intro t h hh
      obtain ⟨z, hz, he, ht⟩ := ci.exec_only t h hh
      rcases List.mem_cons.mp hz with h1 | h1
      · subst h1; exact Or.inr ⟨he.symm, ht⟩
      · exact Or.inl ⟨z, h1, he, ht⟩
    txfresh := by
      intro z hz t ht
      have := (List.pairwise_cons.mp ci.txdisj).1 z hz
      exact this t ht
    txdisj := (List.pairwise_cons.mp ci.txdisj).2 }

/-- the pending block is gone entirely and the head is recorded: erasing the marks gives the clean chain -/
theorem Pending.finish_removed {d : Disk} {c : List Block} {x : Block} (p : Pending d c x)
    (hb : d.blocks x.hash = none) (hh : d.heights x.height = none) (hv : d.verify x.height = false)
    (hc : d.current = c.head?) (hx : ∀ t ∈ x.txs, d.executed t = none) :
    ChainInv { d with addMark := none, removeMark := none } c where
  linked := p.linked
  cur := hc
  blocks_mem := p.blocks_mem
  heights_mem := p.heights_mem
  blocks_only := by
    intro h z hz
    have := p.blocks_only h z hz
    refine ⟨?_, this.2⟩
    rcases this.1 with h1 | h1
    · exact h1
    · subst h1; rw [← this.2, hb] at hz; cases hz
  heights_only := by
    intro n z hz
    have := p.heights_only n z hz
    refine ⟨?_, this.2⟩
    rcases this.1 with h1 | h1
    · exact h1
    · subst h1; rw [← this.2, hh] at hz; cases hz
  verify_mem := p.verify_mem
  verify_only := by
    intro n hn
    rcases p.verify_only n hn with h1 | h1
    · exact h1
    · subst h1; rw [hv] at hn; cases hn
  roots := p.roots
  noAdd := rfl
  noRemove := rfl
  exec_mem := p.exec_mem
  exec_only := by
    intro t h hh
    rcases p.exec_only t h hh with h1 | ⟨_, ht⟩
    · exact h1
    · have := hx t ht
      have hh' : d.executed t = some h := hh
      rw [this] at hh'; cases hh'
  txdisj := p.txdisj

/-- every entry of the pending block is in place and it is the recorded head: erasing the mark gives the longer chain -/
theorem Pending.finish_added {d : Disk} {c : List Block} {x : Block} (p : Pending d c x)
    (hb : d.blocks x.hash = some x) (hh : d.heights x.height = some x) (hv : d.verify x.height = true)
    (hs : d.roots x.hash = true) (hc : d.current = some x) (hx : ∀ t ∈ x.txs, d.executed t = some x.hash) :
    ChainInv { d with addMark := none, removeMark := none } (x :: c) := by
  obtain ⟨y, hy, hp, hlt⟩ := p.child
  obtain ⟨rest, rfl⟩ : ∃ rest, c = y :: rest := by
    cases c with
    | nil => simp at hy
    | cons z rest => simp at hy; subst hy; exact ⟨rest, rfl⟩
  exact {
    linked := ⟨hp, hlt, p.linked⟩
    cur := hc
    blocks_mem := by
      intro z hz
      rcases List.mem_cons.mp hz with h1 | h1
      · subst h1; exact hb
      · exact p.blocks_mem z h1
    heights_mem := by
      intro z hz
      rcases List.mem_cons.mp hz with h1 | h1
      · subst h1; exact hh
      · exact p.heights_mem z h1
    blocks_only := by
      intro h z hz
      have := p.blocks_only h z hz
      refine ⟨?_, this.2⟩
      rcases this.1 with h1 | h1
      · exact List.mem_cons_of_mem _ h1
      · subst h1; exact List.mem_cons_self ..
    heights_only := by
      intro n z hz
      have := p.heights_only n z hz
      refine ⟨?_, this.2⟩
      rcases this.1 with h1 | h1
      · exact List.mem_cons_of_mem _ h1
      · subst h1; exact List.mem_cons_self ..
    verify_mem := by
      intro z hz
      rcases List.mem_cons.mp hz with h1 | h1
      · subst h1; exact hv
      · exact p.verify_mem z h1
    verify_only := by
      intro n hn
      rcases p.verify_only n hn with ⟨z, hz, he⟩ | h1
      · exact ⟨z, List.mem_cons_of_mem _ hz, he⟩
      · exact ⟨x, List.mem_cons_self .., h1.symm⟩
    roots := by
      intro z hz
      rcases List.mem_cons.mp hz with h1 | h1
      · subst h1; exact hs
      · exact p.roots z h1
    noAdd := rfl
    noRemove := rfl
    exec_mem := by
      intro z hz t ht
      rcases List.mem_cons.mp hz with h1 | h1
      · subst h1; exact hx t ht
      · exact p.exec_mem z h1 t ht
    exec_only := by
      intro t h hh
      rcases p.exec_only t h hh with ⟨z, hz, he, ht⟩ | ⟨he, ht⟩
      · exact ⟨z, List.mem_cons_of_mem _ hz, he, ht⟩
      · exact ⟨x, List.mem_cons_self .., he.symm, ht⟩
    txdisj := List.pairwise_cons.mpr ⟨fun z hz t ht => p.txfresh z hz t ht, p.txdisj⟩ }

end Rangers.Proofs.ChainStore
