import Rangers.Model.RLPStream
import Rangers.Proofs.RLPHead
/-! The list-bound / input-limit invariant of `Stream` and its preservation by every method. -/
namespace Rangers.RLP
open Rangers

/-- `stackOK stack r`: every list position is inside its list, the unread part of the innermost
    list fits into the `r` bytes the input limit still allows, every list fits into what was
    left of its parent when it was entered. -/
def stackOK : List (Nat × Nat) → Nat → Prop
  | [], _ => True
  | (p, sz) :: rest, r =>
    p ≤ sz ∧ sz - p ≤ r ∧
    (match rest with | [] => True | (p', sz') :: _ => sz ≤ sz' - p') ∧
    stackOK rest (r + p)

/-- a value of `size` bytes fits into the innermost list / the remaining input -/
def sizeFits (stack : List (Nat × Nat)) (rem size : Nat) : Prop :=
  match stack with
  | [] => size ≤ rem
  | (p, sz) :: _ => size ≤ sz - p

structure SInv (L : Nat) (s : Stream) : Prop where
  lim : s.limited = true
  stk : stackOK s.stack s.remaining
  rd : s.consumed + s.remaining ≤ L
  al : ∀ a ∈ s.allocs, a ≤ L + 9
  kd : ∀ k, s.kind = some k → s.kinderr = none → sizeFits s.stack s.remaining s.size

theorem sizeFits_le_rem {stack : List (Nat × Nat)} {r size : Nat}
    (h : stackOK stack r) (hf : sizeFits stack r size) : size ≤ r := by
  cases stack with
  | nil => exact hf
  | cons t rest =>
    obtain ⟨p, sz⟩ := t
    simp only [stackOK] at h
    simp only [sizeFits] at hf
    omega

/-- What `willRead n` does to a state satisfying the invariant. -/
theorem willRead_spec {L : Nat} {s : Stream} (n : Nat) (hi : SInv L s) :
    (willRead s n).2.kind = none ∧ (willRead s n).2.allocs = s.allocs ∧
    (willRead s n).2.limited = true ∧ (willRead s n).2.consumed = s.consumed ∧
    (willRead s n).2.inp = s.inp ∧
    stackOK (willRead s n).2.stack (willRead s n).2.remaining ∧
    ((willRead s n).1 = none → (willRead s n).2.remaining + n = s.remaining) ∧
    ((willRead s n).1 ≠ none → (willRead s n).2.remaining = s.remaining) := by
  have hl := hi.lim
  have hs := hi.stk
  unfold willRead
  cases hst : s.stack with
  | nil =>
    rw [hst] at hs
    by_cases hn : n > s.remaining
    · simp [willReadLimit, hl, hn, hst, stackOK]
    · simp [willReadLimit, hl, hn, hst, stackOK]; omega
  | cons t rest =>
    obtain ⟨p, sz⟩ := t
    rw [hst] at hs
    simp only [stackOK] at hs
    by_cases hn : n > sz - p
    · simp [hn, hl, stackOK]; exact ⟨hs.1, by omega, hs.2.2.1, hs.2.2.2⟩
    · have hn2 : ¬ n > s.remaining := by omega
      simp only [hn, if_false, willReadLimit, hl, if_true, hn2]
      simp only [stackOK]
      refine ⟨trivial, trivial, trivial, trivial, trivial, ⟨by omega, by omega, ?_, ?_⟩, by intro _; omega, by intro h; exact absurd rfl h⟩
      · cases rest with
        | nil => trivial
        | cons t' r' => exact hs.2.2.1
      · have : s.remaining - n + (p + n) = s.remaining + p := by omega
        rw [this]; exact hs.2.2.2

theorem readByte_inv {L : Nat} {s : Stream} (hi : SInv L s) :
    SInv L (readByte s).2 ∧ (readByte s).2.kind = none ∧ (readByte s).2.allocs = s.allocs := by
  obtain ⟨h1, h2, h3, h4, h5, h6, h7, h8⟩ := willRead_spec 1 hi
  have hrd := hi.rd
  have hal := hi.al
  unfold readByte
  cases hw : willRead s 1 with
  | mk oe s1 =>
    rw [hw] at h1 h2 h3 h4 h5 h6 h7 h8
    simp only at h1 h2 h3 h4 h5 h6 h7 h8
    cases oe with
    | some e =>
      have := h8 (by simp)
      simp only
      exact ⟨⟨h3, h6, by omega, by rw [h2]; exact hal, by intro k hk; simp [h1] at hk⟩, h1, h2⟩
    | none =>
      have := h7 rfl
      simp only
      cases hinp : s1.inp with
      | nil =>
        simp only
        exact ⟨⟨h3, h6, by omega, by rw [h2]; exact hal, by intro k hk; simp [h1] at hk⟩, h1, h2⟩
      | cons b tl =>
        simp only
        exact ⟨⟨h3, h6, by simp only; omega, by simp only; rw [h2]; exact hal, by intro k hk; simp [h1] at hk⟩, h1, h2⟩

theorem readFull_inv {L : Nat} {s : Stream} (n : Nat) (hi : SInv L s) :
    SInv L (readFull s n).2 ∧ (readFull s n).2.kind = none ∧ (readFull s n).2.allocs = s.allocs := by
  obtain ⟨h1, h2, h3, h4, h5, h6, h7, h8⟩ := willRead_spec n hi
  have hrd := hi.rd
  have hal := hi.al
  unfold readFull
  cases hw : willRead s n with
  | mk oe s1 =>
    rw [hw] at h1 h2 h3 h4 h5 h6 h7 h8
    simp only at h1 h2 h3 h4 h5 h6 h7 h8
    cases oe with
    | some e =>
      have := h8 (by simp)
      simp only
      exact ⟨⟨h3, h6, by omega, by rw [h2]; exact hal, by intro k hk; simp [h1] at hk⟩, h1, h2⟩
    | none =>
      have := h7 rfl
      simp only
      split
      · exact ⟨⟨h3, h6, by simp only; omega, by simp only; rw [h2]; exact hal, by intro k hk; simp [h1] at hk⟩, h1, h2⟩
      · rename_i hlen
        exact ⟨⟨h3, h6, by simp only; omega, by simp only; rw [h2]; exact hal, by intro k hk; simp [h1] at hk⟩, h1, h2⟩

theorem readUint_inv {L : Nat} {s : Stream} (n : Nat) (hi : SInv L s) :
    SInv L (readUint s n).2 ∧ (readUint s n).2.kind = none ∧ (readUint s n).2.allocs = s.allocs := by
  unfold readUint
  by_cases h0 : n = 0
  · rw [if_pos h0]
    exact ⟨⟨hi.lim, hi.stk, hi.rd, hi.al, by intro k hk; cases hk⟩, rfl, rfl⟩
  · rw [if_neg h0]
    by_cases h1 : n = 1
    · rw [if_pos h1]
      have := readByte_inv hi
      cases hb : readByte s with
      | mk r s1 =>
        rw [hb] at this
        cases r <;> exact this
    · rw [if_neg h1]
      have := readFull_inv n hi
      cases hb : readFull s n with
      | mk r s1 =>
        rw [hb] at this
        cases r with
        | error e => exact this
        | ok bs =>
          simp only
          cases bs with
          | nil => exact this
          | cons b0 tl =>
            simp only
            split <;> exact this

theorem readLongSize_inv {L : Nat} {s : Stream} (n : Nat) (hi : SInv L s) :
    SInv L (readLongSize s n).2 ∧ (readLongSize s n).2.kind = none ∧ (readLongSize s n).2.allocs = s.allocs := by
  unfold readLongSize
  have := readUint_inv n hi
  cases hb : readUint s n with
  | mk r s1 =>
    rw [hb] at this
    cases r with
    | error e => exact this
    | ok v => simp only; split <;> exact this

theorem SInv_byteval {L : Nat} {s : Stream} (b : UInt8) (h : SInv L s) : SInv L { s with byteval := b } :=
  ⟨h.lim, h.stk, h.rd, h.al, h.kd⟩

theorem sReadKind_inv {L : Nat} {s : Stream} (hi : SInv L s) :
    SInv L (sReadKind s).2 ∧ (sReadKind s).2.kind = none ∧ (sReadKind s).2.allocs = s.allocs := by
  unfold sReadKind
  have hb := readByte_inv hi
  cases hr : readByte s with
  | mk r s1 =>
    rw [hr] at hb
    cases r with
    | error e => exact hb
    | ok b =>
      simp only
      have h0 : SInv L { s1 with byteval := 0 } := SInv_byteval 0 hb.1
      split
      · exact ⟨SInv_byteval b hb.1, hb.2.1, hb.2.2⟩
      · split
        · exact ⟨h0, hb.2.1, hb.2.2⟩
        · split
          · have := readLongSize_inv (b.toNat - 0xb7) h0
            cases hl : readLongSize { s1 with byteval := 0 } (b.toNat - 0xb7) with
            | mk r2 s2 =>
              rw [hl] at this
              obtain ⟨sz, er⟩ := r2
              exact ⟨this.1, this.2.1, by rw [this.2.2]; exact hb.2.2⟩
          · split
            · exact ⟨h0, hb.2.1, hb.2.2⟩
            · have := readLongSize_inv (b.toNat - 0xf7) h0
              cases hl : readLongSize { s1 with byteval := 0 } (b.toNat - 0xf7) with
              | mk r2 s2 =>
                rw [hl] at this
                obtain ⟨sz, er⟩ := r2
                exact ⟨this.1, this.2.1, by rw [this.2.2]; exact hb.2.2⟩

theorem kindBoundErr_none {s : Stream} {size : Nat} (hl : s.limited = true)
    (h : kindBoundErr s size = none) : sizeFits s.stack s.remaining size := by
  unfold kindBoundErr at h
  unfold sizeFits
  cases hst : s.stack with
  | nil =>
    simp only [hst, hl, true_and] at h
    split at h
    · cases h
    · simp only; omega
  | cons t rest =>
    obtain ⟨p, sz⟩ := t
    simp only [hst] at h
    split at h
    · cases h
    · simp only; omega

theorem sKindFresh_inv {L : Nat} {s : Stream} (hi : SInv L s) (hk : s.kind = none) :
    SInv L (sKindFresh s).2 ∧ (sKindFresh s).2.allocs = s.allocs ∧
    (∀ k size, (sKindFresh s).1 = .ok (k, size) →
      sizeFits (sKindFresh s).2.stack (sKindFresh s).2.remaining size) := by
  have h1 : SInv L { s with kinderr := none } :=
    ⟨hi.lim, hi.stk, hi.rd, hi.al, by intro k h; simp [hk] at h⟩
  unfold sKindFresh
  simp only
  by_cases he : atEnd s.stack = true
  · rw [if_pos he]
    exact ⟨h1, rfl, by intro k size h; cases h⟩
  · rw [if_neg he]
    have hr := sReadKind_inv h1
    cases hrk : sReadKind { s with kinderr := none } with
    | mk r s2 =>
      rw [hrk] at hr
      obtain ⟨k, size, err⟩ := r
      simp only at hr ⊢
      cases err with
      | some e =>
        simp only
        exact ⟨⟨hr.1.lim, hr.1.stk, hr.1.rd, hr.1.al, by intro k' _ h; cases h⟩, hr.2.2, by intro k' sz h; cases h⟩
      | none =>
        simp only
        cases hb : kindBoundErr s2 size with
        | some e =>
          simp only
          exact ⟨⟨hr.1.lim, hr.1.stk, hr.1.rd, hr.1.al, by intro k' _ h; cases h⟩, hr.2.2, by intro k' sz h; cases h⟩
        | none =>
          simp only
          have hf := kindBoundErr_none hr.1.lim hb
          refine ⟨⟨hr.1.lim, hr.1.stk, hr.1.rd, hr.1.al, fun _ _ _ => hf⟩, hr.2.2, ?_⟩
          intro k' sz h
          injection h with h; injection h with _ h2
          subst h2
          exact hf

/-- `Kind()`: invariant kept; a successful answer `(k, size)` is cached and fits. -/
theorem sKind_inv {L : Nat} {s : Stream} (hi : SInv L s) :
    SInv L (sKind s).2 ∧ (sKind s).2.allocs = s.allocs ∧
    (∀ k size, (sKind s).1 = .ok (k, size) →
      sizeFits (sKind s).2.stack (sKind s).2.remaining size) := by
  unfold sKind
  cases hk : s.kind with
  | some k =>
    simp only
    refine ⟨hi, trivial, ?_⟩
    intro k' size h
    cases he : s.kinderr with
    | some e => rw [he] at h; cases h
    | none =>
      rw [he] at h
      injection h with h; injection h with h1 h2
      subst h2
      exact hi.kd k hk he
  | none => exact sKindFresh_inv hi hk

theorem SInv_rearm {L : Nat} {s : Stream} (h : SInv L s) : SInv L { s with kind := none } :=
  ⟨h.lim, h.stk, h.rd, h.al, by intro k hk; cases hk⟩

theorem SInv_alloc {L : Nat} {s : Stream} (a : Nat) (h : SInv L s) (ha : a ≤ L + 9) :
    SInv L { s with allocs := a :: s.allocs } :=
  ⟨h.lim, h.stk, h.rd, by intro x hx; simp only [List.mem_cons] at hx; rcases hx with hx | hx; (· subst hx; exact ha); exact h.al x hx, h.kd⟩

theorem fits_le_L {L : Nat} {s : Stream} {size : Nat} (h : SInv L s)
    (hf : sizeFits s.stack s.remaining size) : size ≤ L := by
  have := sizeFits_le_rem h.stk hf
  have := h.rd
  omega

theorem sBytes_inv {L : Nat} {s : Stream} (hi : SInv L s) : SInv L (sBytes s).2 := by
  unfold sBytes
  have hk := sKind_inv hi
  cases hr : sKind s with
  | mk r s1 =>
    rw [hr] at hk
    cases r with
    | error e => exact hk.1
    | ok ks =>
      obtain ⟨k, size⟩ := ks
      simp only
      have hf := hk.2.2 k size rfl
      cases k with
      | byte => exact SInv_rearm hk.1
      | list => exact hk.1
      | string =>
        simp only
        have ha := SInv_alloc size hk.1 (by have := fits_le_L hk.1 hf; omega)
        have := readFull_inv size ha
        cases hrf : readFull { s1 with allocs := size :: s1.allocs } size with
        | mk r2 s2 =>
          rw [hrf] at this
          cases r2 with
          | error e => exact this.1
          | ok b => simp only; split <;> exact this.1

theorem headsize_le {size : Nat} (h : size < 2 ^ 64) : headsize size ≤ 9 := by
  unfold headsize intsize
  split
  · omega
  · rename_i h56
    rw [putint_eq (by omega)]
    have := toBE_len_64 h
    omega

theorem sRaw_inv {L : Nat} {s : Stream} (hL : L < 2 ^ 64) (hi : SInv L s) : SInv L (sRaw s).2 := by
  unfold sRaw
  have hk := sKind_inv hi
  cases hr : sKind s with
  | mk r s1 =>
    rw [hr] at hk
    cases r with
    | error e => exact hk.1
    | ok ks =>
      obtain ⟨k, size⟩ := ks
      simp only
      have hf := hk.2.2 k size rfl
      have hsz := fits_le_L hk.1 hf
      have hh := headsize_le (show size < 2 ^ 64 by omega)
      have ha := SInv_alloc (headsize size + size) hk.1 (by omega)
      have hrf := readFull_inv size ha
      cases k with
      | byte => exact SInv_rearm hk.1
      | list =>
        simp only
        cases hrr : readFull { s1 with allocs := (headsize size + size) :: s1.allocs } size with
        | mk r2 s2 =>
          rw [hrr] at hrf
          cases r2 with
          | error e => exact hrf.1
          | ok b => simp only; split <;> exact hrf.1
      | string =>
        simp only
        cases hrr : readFull { s1 with allocs := (headsize size + size) :: s1.allocs } size with
        | mk r2 s2 =>
          rw [hrr] at hrf
          cases r2 with
          | error e => exact hrf.1
          | ok b => simp only; split <;> exact hrf.1

theorem sUint_inv {L : Nat} {s : Stream} (bits : Nat) (hi : SInv L s) : SInv L (sUint s bits).2 := by
  unfold sUint
  have hk := sKind_inv hi
  cases hr : sKind s with
  | mk r s1 =>
    rw [hr] at hk
    cases r with
    | error e => exact hk.1
    | ok ks =>
      obtain ⟨k, size⟩ := ks
      simp only
      cases k with
      | byte => simp only; split; exact hk.1; exact SInv_rearm hk.1
      | list => exact hk.1
      | string =>
        simp only
        split
        · exact hk.1
        · have := readUint_inv size hk.1
          cases hru : readUint s1 size with
          | mk r2 s2 =>
            rw [hru] at this
            cases r2 with
            | error e => cases e <;> exact this.1
            | ok v => simp only; split <;> exact this.1

theorem sBool_inv {L : Nat} {s : Stream} (hi : SInv L s) : SInv L (sBool s).2 := by
  unfold sBool
  have := sUint_inv 8 hi
  cases hr : sUint s 8 with
  | mk r s1 =>
    rw [hr] at this
    cases r with
    | error e => exact this
    | ok n => simp only; split; exact this; split <;> exact this

theorem sList_inv {L : Nat} {s : Stream} (hi : SInv L s) : SInv L (sList s).2 := by
  unfold sList
  have hk := sKind_inv hi
  cases hr : sKind s with
  | mk r s1 =>
    rw [hr] at hk
    cases r with
    | error e => exact hk.1
    | ok ks =>
      obtain ⟨k, size⟩ := ks
      simp only
      have hf := hk.2.2 k size rfl
      split
      · exact hk.1
      · refine ⟨hk.1.lim, ?_, hk.1.rd, hk.1.al, by intro k' h; cases h⟩
        simp only [stackOK]
        have hle := sizeFits_le_rem hk.1.stk hf
        refine ⟨Nat.zero_le _, by omega, ?_, by simpa using hk.1.stk⟩
        cases hst : s1.stack with
        | nil => trivial
        | cons t rest =>
          obtain ⟨p, sz⟩ := t
          simp only
          rw [hst] at hf
          exact hf

theorem sListEnd_inv {L : Nat} {s : Stream} (hi : SInv L s) : SInv L (sListEnd s).2 := by
  unfold sListEnd
  cases hst : s.stack with
  | nil => exact hi
  | cons t rest =>
    obtain ⟨p, sz⟩ := t
    simp only
    split
    · exact hi
    · rename_i hp
      have hp' : p = sz := by simpa using hp
      subst hp'
      have hs := hi.stk
      rw [hst] at hs
      simp only [stackOK] at hs
      refine ⟨hi.lim, ?_, hi.rd, hi.al, by intro k' h; cases h⟩
      cases rest with
      | nil => simp [stackOK]
      | cons t' r' =>
        obtain ⟨p', sz'⟩ := t'
        simp only [stackOK] at hs ⊢
        obtain ⟨_, _, hfit, hp1, hp2, hp3, hp4⟩ := hs
        refine ⟨by omega, by omega, hp3, ?_⟩
        have : s.remaining + (p' + p) = s.remaining + p + p' := by omega
        rw [this]; exact hp4

theorem sDecodeAny_inv {L : Nat} : ∀ f,
    (∀ s, SInv L s → SInv L (sDecodeAny f s).2) ∧ (∀ s, SInv L s → SInv L (sAnyElems f s).2) := by
  intro f
  induction f with
  | zero => exact ⟨by intro s h; simpa [sDecodeAny] using h, by intro s h; simpa [sAnyElems] using h⟩
  | succ f ih =>
    refine ⟨?_, ?_⟩
    · intro s hi
      rw [sDecodeAny]
      have hk := sKind_inv hi
      cases hr : sKind s with
      | mk r s1 =>
        rw [hr] at hk
        cases r with
        | error e => exact hk.1
        | ok ks =>
          obtain ⟨k, size⟩ := ks
          simp only
          split
          · have hl := sList_inv hk.1
            cases hrl : sList s1 with
            | mk r2 s2 =>
              rw [hrl] at hl
              cases r2 with
              | error e => exact hl
              | ok sz =>
                simp only
                split
                · have he := sListEnd_inv hl
                  cases hre : sListEnd s2 with
                  | mk r3 s3 => rw [hre] at he; cases r3 <;> exact he
                · have ha := ih.2 s2 hl
                  cases hra : sAnyElems f s2 with
                  | mk r3 s3 =>
                    rw [hra] at ha
                    cases r3 with
                    | error e => exact ha
                    | ok xs =>
                      simp only
                      have he := sListEnd_inv ha
                      cases hre : sListEnd s3 with
                      | mk r4 s4 => rw [hre] at he; cases r4 <;> exact he
          · have hb := sBytes_inv hk.1
            cases hrb : sBytes s1 with
            | mk r2 s2 => rw [hrb] at hb; cases r2 <;> exact hb
    · intro s hi
      rw [sAnyElems]
      have hd := ih.1 s hi
      cases hrd : sDecodeAny f s with
      | mk r s1 =>
        rw [hrd] at hd
        cases r with
        | error e =>
          cases e <;> exact hd
        | ok x =>
          simp only
          have ha := ih.2 s1 hd
          cases hra : sAnyElems f s1 with
          | mk r2 s2 => rw [hra] at ha; cases r2 <;> exact ha

theorem SOp_run_inv {L : Nat} (hL : L < 2 ^ 64) (op : SOp) {s : Stream} (hi : SInv L s) : SInv L (op.run s) := by
  cases op with
  | kind => exact (sKind_inv hi).1
  | bytes => exact sBytes_inv hi
  | raw => exact sRaw_inv hL hi
  | uint bits => exact sUint_inv bits hi
  | bool => exact sBool_inv hi
  | list => exact sList_inv hi
  | listEnd => exact sListEnd_inv hi
  | any => exact (sDecodeAny_inv _).1 s hi

theorem runOps_inv {L : Nat} (hL : L < 2 ^ 64) : ∀ (ops : List SOp) (s : Stream), SInv L s → SInv L (runOps ops s) := by
  intro ops
  induction ops with
  | nil => intro s h; exact h
  | cons op ops ih => intro s h; exact ih _ (SOp_run_inv hL op h)

theorem newStream_inv (b : Bytes) (limit : Nat) :
    SInv (if limit > 0 then limit else b.length) (newStream b limit) :=
  ⟨rfl, trivial, by simp [newStream], by intro a h; simp [newStream] at h, by intro k h; cases h⟩

theorem stackOK_pos_le : ∀ (stack : List (Nat × Nat)) (r : Nat), stackOK stack r → ∀ e ∈ stack, e.1 ≤ e.2 := by
  intro stack
  induction stack with
  | nil => intro r _ e he; cases he
  | cons t rest ih =>
    obtain ⟨p, sz⟩ := t
    intro r h e he
    simp only [stackOK] at h
    simp only [List.mem_cons] at he
    rcases he with he | he
    · subst he; exact h.1
    · exact ih _ h.2.2.2 e he

end Rangers.RLP
