import Rangers.Model.GroupChain
/-! Store and key lemmas for the group-chain model (core Lean only). -/
namespace Rangers.Model.GroupChain
open Rangers

theorem sget_sdel (s : Store) (k k' : Bytes) :
    sget (sdel s k) k' = if k' = k then none else sget s k' := by
  induction s with
  | nil => simp [sdel, sget]
  | cons e t ih =>
    obtain ⟨ke, ve⟩ := e
    by_cases h : ke = k
    · subst h
      have : sdel ((ke, ve) :: t) ke = sdel t ke := by simp [sdel]
      rw [this, ih]
      by_cases h2 : k' = ke
      · simp [h2]
      · have : ¬ ke = k' := fun e => h2 e.symm
        simp [sget, h2, this]
    · have : sdel ((ke, ve) :: t) k = (ke, ve) :: sdel t k := by simp [sdel, h]
      rw [this]
      simp only [sget]
      by_cases h3 : ke = k'
      · subst h3; simp [h]
      · simp [h3, ih]

theorem sget_sput (s : Store) (k : Bytes) (v : Val) (k' : Bytes) :
    sget (sput s k v) k' = if k' = k then some v else sget s k' := by
  unfold sput
  by_cases h : k' = k
  · subst h; simp [sget]
  · have : ¬ k = k' := fun e => h e.symm
    simp [sget, this, h, sget_sdel]

theorem sdel_length_le (s : Store) (k : Bytes) : (sdel s k).length ≤ s.length := by
  unfold sdel; exact List.length_filter_le _ _

theorem sdel_length_lt (s : Store) (k : Bytes) (h : (sget s k).isSome) :
    (sdel s k).length < s.length := by
  induction s with
  | nil => simp [sget] at h
  | cons e t ih =>
    obtain ⟨ke, ve⟩ := e
    by_cases hk : ke = k
    · subst hk
      have : sdel ((ke, ve) :: t) ke = sdel t ke := by simp [sdel]
      rw [this]
      have := sdel_length_le t ke
      simp; omega
    · have : sdel ((ke, ve) :: t) k = (ke, ve) :: sdel t k := by simp [sdel, hk]
      rw [this]
      simp [sget, hk] at h
      have := ih h
      simp; omega

/-- Pigeonhole: distinct keys that are all present need at least that many entries. -/
theorem present_keys_le (ks : List Bytes) : ∀ (d : Store), ks.Nodup →
    (∀ k ∈ ks, (sget d k).isSome) → ks.length ≤ d.length := by
  induction ks with
  | nil => intro d _ _; simp
  | cons k t ih =>
    intro d hn hp
    have hk : (sget d k).isSome := hp k (by simp)
    have hn' := List.nodup_cons.mp hn
    have h1 : t.length ≤ (sdel d k).length := by
      apply ih (sdel d k) hn'.2
      intro k' hk'
      have hne : k' ≠ k := fun e => hn'.1 (e ▸ hk')
      rw [sget_sdel]; simp [hne]; exact hp k' (by simp [hk'])
    have h2 := sdel_length_lt d k hk
    simp; omega

/-! ### keys -/

theorem hkey_length (n : Nat) : (hkey n).length = 8 := by simp [hkey]

theorem u8_ofNat_eq {a b : Nat} (h : UInt8.ofNat a = UInt8.ofNat b) : a % 256 = b % 256 := by
  have := congrArg UInt8.toNat h
  simpa using this

theorem hkey_inj {n m : Nat} (hn : n < u64) (hm : m < u64) (h : hkey n = hkey m) : n = m := by
  unfold hkey at h
  simp only [List.cons.injEq, and_true] at h
  obtain ⟨h0, h1, h2, h3, h4, h5, h6, h7⟩ := h
  have e0 := u8_ofNat_eq h0
  have e1 := u8_ofNat_eq h1
  have e2 := u8_ofNat_eq h2
  have e3 := u8_ofNat_eq h3
  have e4 := u8_ofNat_eq h4
  have e5 := u8_ofNat_eq h5
  have e6 := u8_ofNat_eq h6
  have e7 := u8_ofNat_eq h7
  unfold u64 at hn hm
  omega

theorem hkey_ne_curKey {n : Nat} (hn : n < 4611686018427387904) : hkey n ≠ curKey := by
  intro h
  unfold hkey curKey at h
  simp only [List.cons.injEq, and_true] at h
  have e0 := u8_ofNat_eq (b := 0x67) h.1
  omega

theorem hkey_ne_cntKey (n : Nat) : hkey n ≠ cntKey := by
  intro h; have := congrArg List.length h; simp [hkey, cntKey] at this

theorem curKey_ne_cntKey : curKey ≠ cntKey := by decide

end Rangers.Model.GroupChain
