import Rangers.Proofs.TrieDBInv
/-! A concrete reachable history used by the non-vacuity examples of Props/C03.lean. -/
namespace Rangers.Props.C03
open Rangers.Model.TrieDB

def exS4 : St :=
  ⟨[(4, ⟨30, 14, [], [], []⟩), (3, ⟨20, 13, [1, 2], [], [1, 2]⟩), (2, ⟨6, 12, [], [], []⟩), (1, ⟨5, 11, [], [], []⟩)], []⟩

def exS5 : St :=
  ⟨[(5, ⟨40, 15, [], [3, 4], [3, 4]⟩), (4, ⟨30, 14, [], [], []⟩), (3, ⟨20, 13, [1, 2], [], [1, 2]⟩),
    (2, ⟨6, 12, [], [], []⟩), (1, ⟨5, 11, [], [], []⟩)], []⟩

theorem exS4_reach : Reach 0 0 exS4 := by
  have r1 : Reach 0 0 ⟨[(1, ⟨5, 11, [], [], []⟩)], []⟩ :=
    Reach.step (.store 1 ⟨5, 11, [], [], []⟩ none) Reach.init
      ⟨rfl, by intro dn h; simp [St.empty] at h, by intro r hr; simp at hr⟩ rfl
  have r2 : Reach 0 0 ⟨[(2, ⟨6, 12, [], [], []⟩), (1, ⟨5, 11, [], [], []⟩)], []⟩ :=
    Reach.step (.store 2 ⟨6, 12, [], [], []⟩ none) r1
      ⟨rfl, by intro dn h; simp at h, by intro r hr; simp at hr⟩ rfl
  have r3 : Reach 0 0 ⟨[(3, ⟨20, 13, [1, 2], [], [1, 2]⟩), (2, ⟨6, 12, [], [], []⟩), (1, ⟨5, 11, [], [], []⟩)], []⟩ :=
    Reach.step (.store 3 ⟨20, 13, [1, 2], [], [1, 2]⟩ none) r2
      ⟨rfl, by intro dn h; simp at h, by
        intro r hr
        simp at hr
        rcases hr with rfl | rfl
        · exact Or.inr ⟨by decide, Or.inl (by simp)⟩
        · exact Or.inr ⟨by decide, Or.inl (by simp)⟩⟩ rfl
  exact Reach.step (.store 4 ⟨30, 14, [], [], []⟩ none) r3
    ⟨rfl, by intro dn h; simp at h, by intro r hr; simp at hr⟩ rfl

/-- the account-leaf holder `5` is stored with its leaf callback: `StoreOk` holds
    because `3` and `4` are cached and are the root/code the callback receives. -/
theorem exS5_reach : Reach 0 0 exS5 :=
  Reach.step (.store 5 ⟨40, 15, [], [], [3, 4]⟩ (some (3, 4))) exS4_reach
    ⟨rfl, by intro dn h; simp [exS4] at h, by
      intro r hr
      simp at hr
      rcases hr with rfl | rfl
      · exact Or.inr ⟨by decide, Or.inr ⟨3, 4, rfl, Or.inl ⟨rfl, by decide⟩⟩⟩
      · exact Or.inr ⟨by decide, Or.inr ⟨3, 4, rfl, Or.inr ⟨rfl, by decide⟩⟩⟩⟩ rfl

end Rangers.Props.C03
