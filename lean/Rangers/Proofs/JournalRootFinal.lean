import Rangers.Proofs.JournalRootSteps
/-! From `SimR` to the content `IntermediateRoot` hashes. -/
namespace Rangers.Proofs.JournalG
open Rangers Rangers.Model.Journal Rangers.Proofs.Journal

/-- two trie leaves with the same nonce, code hash and storage content -/
def LeafEq : Option Leaf → Option Leaf → Prop
  | none, none => True
  | some l, some l' => l.nonce = l'.nonce ∧ l.codeHash = l'.codeHash ∧ ∀ k, mget l.storage k = mget l'.storage k
  | _, _ => False

theorem LeafEq.refl (l : Option Leaf) : LeafEq l l := by
  cases l with
  | none => trivial
  | some l => exact ⟨rfl, rfl, fun _ => rfl⟩

/-- what `Finalise(d)` leaves at `a` when `a` is dirty -/
def pending (d : Bool) (s : ADB) (a : Addr) : Option Leaf :=
  match mget s.objs a with
  | none => mget s.trie a
  | some o => if o.suicided || (d && o.isEmpty) then none else some o.flushed.leaf

theorem finaliseOne_other (d : Bool) (s : ADB) (b a : Addr) (h : b ≠ a) :
    mget (finaliseOne d s b).trie a = mget s.trie a ∧ mget (finaliseOne d s b).objs a = mget s.objs a := by
  unfold finaliseOne
  cases mget s.objs b with
  | none => exact ⟨rfl, rfl⟩
  | some o => simp only; split <;> simp [mget_mdel, mget_mset, h]

theorem finaliseOne_self (d : Bool) (s : ADB) (a : Addr) : mget (finaliseOne d s a).trie a = pending d s a := by
  unfold finaliseOne pending
  cases mget s.objs a with
  | none => rfl
  | some o => simp only; split <;> simp

theorem fold_finalise_notin (d : Bool) (ds : List Addr) (s : ADB) (a : Addr) (h : a ∉ ds) :
    mget (ds.foldl (finaliseOne d) s).trie a = mget s.trie a ∧ mget (ds.foldl (finaliseOne d) s).objs a = mget s.objs a := by
  induction ds generalizing s with
  | nil => exact ⟨rfl, rfl⟩
  | cons b rest ih =>
    simp only [List.mem_cons, not_or] at h
    have h1 := finaliseOne_other d s b a (fun e => h.1 e.symm)
    have h2 := ih (finaliseOne d s b) h.2
    exact ⟨h2.1.trans h1.1, h2.2.trans h1.2⟩

theorem fold_finalise_in (d : Bool) (ds : List Addr) (hn : ds.Nodup) (s : ADB) (a : Addr) (h : a ∈ ds) :
    mget (ds.foldl (finaliseOne d) s).trie a = pending d s a := by
  induction ds generalizing s with
  | nil => cases h
  | cons b rest ih =>
    simp only [List.nodup_cons] at hn
    simp only [List.foldl]
    by_cases hb : b = a
    · subst hb
      rw [(fold_finalise_notin d rest _ b hn.1).1, finaliseOne_self]
    · have hin : a ∈ rest := by
        rcases List.mem_cons.mp h with h | h
        · exact absurd h.symm hb
        · exact h
      rw [ih hn.2 _ hin]
      have := finaliseOne_other d s b a hb
      unfold pending
      rw [this.1, this.2]

theorem finalise_trie_at (d : Bool) (s : ADB) (hs : s.crashed = false) (hn : s.dirtySet.Nodup) (a : Addr) :
    mget (finalise d s).trie a = if a ∈ s.dirtySet then pending d s a else mget s.trie a := by
  simp only [finalise, hs, Bool.false_eq_true, if_false, clearJournal]
  by_cases h : a ∈ s.dirtySet
  · simp only [h, if_true]; exact fold_finalise_in d _ hn s a h
  · simp only [h, if_false]; exact (fold_finalise_notin d _ s a h).1

/-- end-state conditions under which `Finalise` is a function of what `SimR` compares -/
structure EndOk (s : ADB) : Prop where
  live : s.crashed = false
  nodup : s.dirtySet.Nodup
  inmap : ∀ a ∈ s.dirtySet, (mget s.objs a).isSome = true
  nodel : ∀ p ∈ s.objs, p.2.deleted = false

theorem mget_mem {α : Type} {m : List (Bytes × α)} {k : Bytes} {v : α} (h : mget m k = some v) : (k, v) ∈ m := by
  induction m with
  | nil => simp [mget] at h
  | cons p t ih =>
    obtain ⟨pk, pv⟩ := p
    simp only [mget] at h
    by_cases hk : pk = k
    · simp only [hk, if_true, Option.some.injEq] at h; subst hk; subst h; exact List.mem_cons_self ..
    · simp only [hk, if_false] at h; exact List.mem_cons_of_mem _ (ih h)

theorem finalise_leafEq (d : Bool) {r s : ADB} (h : SimR r s) (hr : EndOk r) (hs : EndOk s) (a : Addr) :
    LeafEq (mget (finalise d r).trie a) (mget (finalise d s).trie a) := by
  rw [finalise_trie_at d r hr.live hr.nodup, finalise_trie_at d s hs.live hs.nodup]
  have hd := h.dirty hr.live a
  have F := h.sim.frame hr.live
  by_cases ha : a ∈ r.dirtySet
  · have ha' : a ∈ s.dirtySet := hd.mp ha
    simp only [ha, ha', if_true]
    obtain ⟨o, ho⟩ := Option.isSome_iff_exists.mp (hr.inmap a ha)
    obtain ⟨o', ho'⟩ := Option.isSome_iff_exists.mp (hs.inmap a ha')
    have hdo : o.deleted = false := hr.nodel _ (mget_mem ho)
    have hdo' : o'.deleted = false := hs.nodel _ (mget_mem ho')
    have X := h.x hr.live a
    rw [res_def, res_def, ho, ho'] at X
    simp only [hdo, hdo', Bool.false_eq_true, if_false] at X
    obtain ⟨_, e, hx⟩ := X.of_live
    cases e
    have hemp : o.isEmpty = o'.isEmpty := by
      unfold Obj.isEmpty; rw [hx.codeHash, hx.nonce, hx.cemp, hx.demp]
    unfold pending
    rw [ho, ho']
    simp only [hx.suicided, hemp]
    split
    · trivial
    · exact ⟨hx.nonce, hx.codeHash, fun k => by
        show mget o.flushed.strie k = mget o'.flushed.strie k
        rw [Fx_flushed, Fx_flushed]; exact hx.fx k⟩
  · have ha' : a ∉ s.dirtySet := fun h' => ha (hd.mpr h')
    simp only [ha, ha', if_false, F.trie]
    exact LeafEq.refl _

end Rangers.Proofs.JournalG
