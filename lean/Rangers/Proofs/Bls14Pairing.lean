import Mathlib.GroupTheory.OrderOfElement
import Mathlib.Algebra.Group.Pi.Lemmas
import Mathlib.Algebra.Group.TypeTags.Basic
/-!
Abstract algebra behind C14: bilinear maps between commutative groups, uniqueness of the
BLS signature, cancellation of scalars in a group of prime exponent. No model here.
-/
namespace Rangers.Proofs.Bls14

variable {G1 G2 GT : Type} [AddCommGroup G1] [AddCommGroup G2] [CommGroup GT]

/-- `e` is additive in each argument (GT written multiplicatively). -/
structure Bilinear (e : G1 → G2 → GT) : Prop where
  add_left : ∀ a b q, e (a + b) q = e a q * e b q
  add_right : ∀ a q q', e a (q + q') = e a q * e a q'

namespace Bilinear
variable {e : G1 → G2 → GT} (he : Bilinear e)
include he

theorem zero_left (q : G2) : e 0 q = 1 := by
  have := he.add_left 0 0 q
  rw [add_zero] at this
  exact (mul_eq_left).mp this.symm

theorem zero_right (a : G1) : e a 0 = 1 := by
  have := he.add_right a 0 0
  rw [add_zero] at this
  exact (mul_eq_left).mp this.symm

theorem neg_left (a : G1) (q : G2) : e (-a) q = (e a q)⁻¹ := by
  have := he.add_left (-a) a q
  rw [neg_add_cancel, he.zero_left] at this
  exact eq_inv_of_mul_eq_one_left this.symm

theorem sub_left (a b : G1) (q : G2) : e (a - b) q = e a q / e b q := by
  rw [sub_eq_add_neg, he.add_left, he.neg_left, div_eq_mul_inv]

theorem nsmul_left (n : ℕ) (a : G1) (q : G2) : e (n • a) q = e a q ^ n := by
  induction n with
  | zero => simp [he.zero_left]
  | succ n ih => rw [succ_nsmul, he.add_left, ih, pow_succ]

theorem nsmul_right (n : ℕ) (a : G1) (q : G2) : e a (n • q) = e a q ^ n := by
  induction n with
  | zero => simp [he.zero_right]
  | succ n ih => rw [succ_nsmul, he.add_right, ih, pow_succ]

/-- Uniqueness of the BLS signature: with `g₂` on the right the map `e(·, g₂)` has trivial
    kernel, so `e(σ, g₂) = e(h, sk·g₂)` pins `σ` down to `sk·h`. No condition on `sk`. -/
theorem unique (g2 : G2) (nd : ∀ a, e a g2 = 1 → a = 0) (sk : ℕ) (h σ : G1) :
    e σ g2 = e h (sk • g2) ↔ σ = sk • h := by
  rw [he.nsmul_right, ← he.nsmul_left]
  constructor
  · intro hh
    have : e (σ - sk • h) g2 = 1 := by rw [he.sub_left, hh, div_self']
    exact sub_eq_zero.mp (nd _ this)
  · rintro rfl; rfl

/-- Non-degeneracy in the form used above follows from the textbook one (some pair is not 1)
    when every non-zero element of G1 generates G1 (prime order) and `g₂` generates G2. -/
theorem trivial_kernel_of_generates (g2 : G2)
    (gen1 : ∀ a b : G1, a ≠ 0 → ∃ n : ℕ, b = n • a) (gen2 : ∀ q : G2, ∃ n : ℕ, q = n • g2)
    (ne : ∃ a q, e a q ≠ 1) : ∀ a, e a g2 = 1 → a = 0 := by
  intro a ha
  by_contra h0
  obtain ⟨a0, q0, hne⟩ := ne
  obtain ⟨n, rfl⟩ := gen1 a a0 h0
  obtain ⟨m, rfl⟩ := gen2 q0
  apply hne
  rw [he.nsmul_left, he.nsmul_right, ha]; simp

end Bilinear

/-- In a group killed by a prime `r`, a scalar not divisible by `r` cancels. -/
theorem eq_zero_of_nsmul_of_prime {G : Type} [AddCommGroup G] (r sk : ℕ) (hp : r.Prime) (d : G)
    (hr : r • d = 0) (hs : sk • d = 0) (hnd : ¬ r ∣ sk) : d = 0 := by
  have h1 : addOrderOf d ∣ r := addOrderOf_dvd_of_nsmul_eq_zero hr
  have h2 : addOrderOf d ∣ sk := addOrderOf_dvd_of_nsmul_eq_zero hs
  rcases (Nat.dvd_prime hp).mp h1 with h | h
  · exact AddMonoid.addOrderOf_eq_one_iff.mp h
  · rw [h] at h2; exact absurd h2 hnd

/-- Two scalars that act equally on a non-zero element of a group of prime exponent `r`
    are congruent mod `r`. -/
theorem modEq_of_nsmul_eq {G : Type} [AddCommGroup G] (r a b : ℕ) (hp : r.Prime) (h : G)
    (hr : r • h = 0) (h0 : h ≠ 0) (hab : a • h = b • h) : a ≡ b [MOD r] := by
  have ho : addOrderOf h = r := by
    rcases (Nat.dvd_prime hp).mp (addOrderOf_dvd_of_nsmul_eq_zero hr) with h1 | h1
    · exact absurd (AddMonoid.addOrderOf_eq_one_iff.mp h1) h0
    · exact h1
  have := (nsmul_eq_nsmul_iff_modEq (x := h)).mp hab
  rw [ho] at this
  exact this

end Rangers.Proofs.Bls14
