import Rangers.Proofs.C16Pratt
import Mathlib.Tactic.NormNum.Prime
/-!
GENERATED from a Pratt certificate computed with sympy (`/tmp/pratt.py`, see design/C16.md): every
prime in the factorisation tree of p − 1 for p = 2^255 − 19, each proved prime by one Lucas step
(`pratt_step`, modular powers evaluated by the kernel) from the primality of the prime factors of
its predecessor; primes below 100 by `norm_num`.
-/
namespace Rangers.Proofs.C16PrattCert
open Rangers.Proofs.C16Pratt

theorem prime_2 : Nat.Prime 2 := by norm_num
theorem prime_3 : Nat.Prime 3 := by norm_num
theorem prime_17 : Nat.Prime 17 := by norm_num
theorem prime_7 : Nat.Prime 7 := by norm_num
theorem prime_239 : Nat.Prime 239 :=
  pratt_step 239 7 [2, 7, 17] (by norm_num) (by decide +kernel)
    (List.forall_mem_cons.mpr ⟨prime_2, List.forall_mem_cons.mpr ⟨prime_7, List.forall_mem_cons.mpr ⟨prime_17, fun _ h => absurd h (List.not_mem_nil)⟩⟩⟩)
    (by decide +kernel) (by decide +kernel) (by decide +kernel)
theorem prime_479 : Nat.Prime 479 :=
  pratt_step 479 13 [2, 239] (by norm_num) (by decide +kernel)
    (List.forall_mem_cons.mpr ⟨prime_2, List.forall_mem_cons.mpr ⟨prime_239, fun _ h => absurd h (List.not_mem_nil)⟩⟩)
    (by decide +kernel) (by decide +kernel) (by decide +kernel)
theorem prime_32573 : Nat.Prime 32573 :=
  pratt_step 32573 2 [2, 2, 17, 479] (by norm_num) (by decide +kernel)
    (List.forall_mem_cons.mpr ⟨prime_2, List.forall_mem_cons.mpr ⟨prime_2, List.forall_mem_cons.mpr ⟨prime_17, List.forall_mem_cons.mpr ⟨prime_479, fun _ h => absurd h (List.not_mem_nil)⟩⟩⟩⟩)
    (by decide +kernel) (by decide +kernel) (by decide +kernel)
theorem prime_65147 : Nat.Prime 65147 :=
  pratt_step 65147 2 [2, 32573] (by norm_num) (by decide +kernel)
    (List.forall_mem_cons.mpr ⟨prime_2, List.forall_mem_cons.mpr ⟨prime_32573, fun _ h => absurd h (List.not_mem_nil)⟩⟩)
    (by decide +kernel) (by decide +kernel) (by decide +kernel)
theorem prime_11 : Nat.Prime 11 := by norm_num
theorem prime_353 : Nat.Prime 353 :=
  pratt_step 353 3 [2, 2, 2, 2, 2, 11] (by norm_num) (by decide +kernel)
    (List.forall_mem_cons.mpr ⟨prime_2, List.forall_mem_cons.mpr ⟨prime_2, List.forall_mem_cons.mpr ⟨prime_2, List.forall_mem_cons.mpr ⟨prime_2, List.forall_mem_cons.mpr ⟨prime_2, List.forall_mem_cons.mpr ⟨prime_11, fun _ h => absurd h (List.not_mem_nil)⟩⟩⟩⟩⟩⟩)
    (by decide +kernel) (by decide +kernel) (by decide +kernel)
theorem prime_59 : Nat.Prime 59 := by norm_num
theorem prime_487 : Nat.Prime 487 :=
  pratt_step 487 3 [2, 3, 3, 3, 3, 3] (by norm_num) (by decide +kernel)
    (List.forall_mem_cons.mpr ⟨prime_2, List.forall_mem_cons.mpr ⟨prime_3, List.forall_mem_cons.mpr ⟨prime_3, List.forall_mem_cons.mpr ⟨prime_3, List.forall_mem_cons.mpr ⟨prime_3, List.forall_mem_cons.mpr ⟨prime_3, fun _ h => absurd h (List.not_mem_nil)⟩⟩⟩⟩⟩⟩)
    (by decide +kernel) (by decide +kernel) (by decide +kernel)
theorem prime_57467 : Nat.Prime 57467 :=
  pratt_step 57467 2 [2, 59, 487] (by norm_num) (by decide +kernel)
    (List.forall_mem_cons.mpr ⟨prime_2, List.forall_mem_cons.mpr ⟨prime_59, List.forall_mem_cons.mpr ⟨prime_487, fun _ h => absurd h (List.not_mem_nil)⟩⟩⟩)
    (by decide +kernel) (by decide +kernel) (by decide +kernel)
theorem prime_5 : Nat.Prime 5 := by norm_num
theorem prime_13 : Nat.Prime 13 := by norm_num
theorem prime_131 : Nat.Prime 131 :=
  pratt_step 131 2 [2, 5, 13] (by norm_num) (by decide +kernel)
    (List.forall_mem_cons.mpr ⟨prime_2, List.forall_mem_cons.mpr ⟨prime_5, List.forall_mem_cons.mpr ⟨prime_13, fun _ h => absurd h (List.not_mem_nil)⟩⟩⟩)
    (by decide +kernel) (by decide +kernel) (by decide +kernel)
theorem prime_132049 : Nat.Prime 132049 :=
  pratt_step 132049 26 [2, 2, 2, 2, 3, 3, 7, 131] (by norm_num) (by decide +kernel)
    (List.forall_mem_cons.mpr ⟨prime_2, List.forall_mem_cons.mpr ⟨prime_2, List.forall_mem_cons.mpr ⟨prime_2, List.forall_mem_cons.mpr ⟨prime_2, List.forall_mem_cons.mpr ⟨prime_3, List.forall_mem_cons.mpr ⟨prime_3, List.forall_mem_cons.mpr ⟨prime_7, List.forall_mem_cons.mpr ⟨prime_131, fun _ h => absurd h (List.not_mem_nil)⟩⟩⟩⟩⟩⟩⟩⟩)
    (by decide +kernel) (by decide +kernel) (by decide +kernel)
theorem prime_43 : Nat.Prime 43 := by norm_num
theorem prime_23 : Nat.Prime 23 := by norm_num
theorem prime_3727 : Nat.Prime 3727 :=
  pratt_step 3727 3 [2, 3, 3, 3, 3, 23] (by norm_num) (by decide +kernel)
    (List.forall_mem_cons.mpr ⟨prime_2, List.forall_mem_cons.mpr ⟨prime_3, List.forall_mem_cons.mpr ⟨prime_3, List.forall_mem_cons.mpr ⟨prime_3, List.forall_mem_cons.mpr ⟨prime_3, List.forall_mem_cons.mpr ⟨prime_23, fun _ h => absurd h (List.not_mem_nil)⟩⟩⟩⟩⟩⟩)
    (by decide +kernel) (by decide +kernel) (by decide +kernel)
theorem prime_1923133 : Nat.Prime 1923133 :=
  pratt_step 1923133 2 [2, 2, 3, 43, 3727] (by norm_num) (by decide +kernel)
    (List.forall_mem_cons.mpr ⟨prime_2, List.forall_mem_cons.mpr ⟨prime_2, List.forall_mem_cons.mpr ⟨prime_3, List.forall_mem_cons.mpr ⟨prime_43, List.forall_mem_cons.mpr ⟨prime_3727, fun _ h => absurd h (List.not_mem_nil)⟩⟩⟩⟩⟩)
    (by decide +kernel) (by decide +kernel) (by decide +kernel)
theorem prime_31 : Nat.Prime 31 := by norm_num
theorem prime_53 : Nat.Prime 53 := by norm_num
theorem prime_107 : Nat.Prime 107 :=
  pratt_step 107 2 [2, 53] (by norm_num) (by decide +kernel)
    (List.forall_mem_cons.mpr ⟨prime_2, List.forall_mem_cons.mpr ⟨prime_53, fun _ h => absurd h (List.not_mem_nil)⟩⟩)
    (by decide +kernel) (by decide +kernel) (by decide +kernel)
theorem prime_37 : Nat.Prime 37 := by norm_num
theorem prime_223 : Nat.Prime 223 :=
  pratt_step 223 3 [2, 3, 37] (by norm_num) (by decide +kernel)
    (List.forall_mem_cons.mpr ⟨prime_2, List.forall_mem_cons.mpr ⟨prime_3, List.forall_mem_cons.mpr ⟨prime_37, fun _ h => absurd h (List.not_mem_nil)⟩⟩⟩)
    (by decide +kernel) (by decide +kernel) (by decide +kernel)
theorem prime_173 : Nat.Prime 173 :=
  pratt_step 173 2 [2, 2, 43] (by norm_num) (by decide +kernel)
    (List.forall_mem_cons.mpr ⟨prime_2, List.forall_mem_cons.mpr ⟨prime_2, List.forall_mem_cons.mpr ⟨prime_43, fun _ h => absurd h (List.not_mem_nil)⟩⟩⟩)
    (by decide +kernel) (by decide +kernel) (by decide +kernel)
theorem prime_4153 : Nat.Prime 4153 :=
  pratt_step 4153 5 [2, 2, 2, 3, 173] (by norm_num) (by decide +kernel)
    (List.forall_mem_cons.mpr ⟨prime_2, List.forall_mem_cons.mpr ⟨prime_2, List.forall_mem_cons.mpr ⟨prime_2, List.forall_mem_cons.mpr ⟨prime_3, List.forall_mem_cons.mpr ⟨prime_173, fun _ h => absurd h (List.not_mem_nil)⟩⟩⟩⟩⟩)
    (by decide +kernel) (by decide +kernel) (by decide +kernel)
theorem prime_41 : Nat.Prime 41 := by norm_num
theorem prime_1723 : Nat.Prime 1723 :=
  pratt_step 1723 3 [2, 3, 7, 41] (by norm_num) (by decide +kernel)
    (List.forall_mem_cons.mpr ⟨prime_2, List.forall_mem_cons.mpr ⟨prime_3, List.forall_mem_cons.mpr ⟨prime_7, List.forall_mem_cons.mpr ⟨prime_41, fun _ h => absurd h (List.not_mem_nil)⟩⟩⟩⟩)
    (by decide +kernel) (by decide +kernel) (by decide +kernel)
theorem prime_430751 : Nat.Prime 430751 :=
  pratt_step 430751 17 [2, 5, 5, 5, 1723] (by norm_num) (by decide +kernel)
    (List.forall_mem_cons.mpr ⟨prime_2, List.forall_mem_cons.mpr ⟨prime_5, List.forall_mem_cons.mpr ⟨prime_5, List.forall_mem_cons.mpr ⟨prime_5, List.forall_mem_cons.mpr ⟨prime_1723, fun _ h => absurd h (List.not_mem_nil)⟩⟩⟩⟩⟩)
    (by decide +kernel) (by decide +kernel) (by decide +kernel)
theorem prime_31757755568855353 : Nat.Prime 31757755568855353 :=
  pratt_step 31757755568855353 10 [2, 2, 2, 3, 31, 107, 223, 4153, 430751] (by norm_num) (by decide +kernel)
    (List.forall_mem_cons.mpr ⟨prime_2, List.forall_mem_cons.mpr ⟨prime_2, List.forall_mem_cons.mpr ⟨prime_2, List.forall_mem_cons.mpr ⟨prime_3, List.forall_mem_cons.mpr ⟨prime_31, List.forall_mem_cons.mpr ⟨prime_107, List.forall_mem_cons.mpr ⟨prime_223, List.forall_mem_cons.mpr ⟨prime_4153, List.forall_mem_cons.mpr ⟨prime_430751, fun _ h => absurd h (List.not_mem_nil)⟩⟩⟩⟩⟩⟩⟩⟩⟩)
    (by decide +kernel) (by decide +kernel) (by decide +kernel)
theorem prime_19 : Nat.Prime 19 := by norm_num
theorem prime_83 : Nat.Prime 83 := by norm_num
theorem prime_9463 : Nat.Prime 9463 :=
  pratt_step 9463 3 [2, 3, 19, 83] (by norm_num) (by decide +kernel)
    (List.forall_mem_cons.mpr ⟨prime_2, List.forall_mem_cons.mpr ⟨prime_3, List.forall_mem_cons.mpr ⟨prime_19, List.forall_mem_cons.mpr ⟨prime_83, fun _ h => absurd h (List.not_mem_nil)⟩⟩⟩⟩)
    (by decide +kernel) (by decide +kernel) (by decide +kernel)
theorem prime_37853 : Nat.Prime 37853 :=
  pratt_step 37853 2 [2, 2, 9463] (by norm_num) (by decide +kernel)
    (List.forall_mem_cons.mpr ⟨prime_2, List.forall_mem_cons.mpr ⟨prime_2, List.forall_mem_cons.mpr ⟨prime_9463, fun _ h => absurd h (List.not_mem_nil)⟩⟩⟩)
    (by decide +kernel) (by decide +kernel) (by decide +kernel)
theorem prime_75707 : Nat.Prime 75707 :=
  pratt_step 75707 2 [2, 37853] (by norm_num) (by decide +kernel)
    (List.forall_mem_cons.mpr ⟨prime_2, List.forall_mem_cons.mpr ⟨prime_37853, fun _ h => absurd h (List.not_mem_nil)⟩⟩)
    (by decide +kernel) (by decide +kernel) (by decide +kernel)
theorem prime_47 : Nat.Prime 47 := by norm_num
theorem prime_127 : Nat.Prime 127 :=
  pratt_step 127 3 [2, 3, 3, 7] (by norm_num) (by decide +kernel)
    (List.forall_mem_cons.mpr ⟨prime_2, List.forall_mem_cons.mpr ⟨prime_3, List.forall_mem_cons.mpr ⟨prime_3, List.forall_mem_cons.mpr ⟨prime_7, fun _ h => absurd h (List.not_mem_nil)⟩⟩⟩⟩)
    (by decide +kernel) (by decide +kernel) (by decide +kernel)
theorem prime_103 : Nat.Prime 103 :=
  pratt_step 103 5 [2, 3, 17] (by norm_num) (by decide +kernel)
    (List.forall_mem_cons.mpr ⟨prime_2, List.forall_mem_cons.mpr ⟨prime_3, List.forall_mem_cons.mpr ⟨prime_17, fun _ h => absurd h (List.not_mem_nil)⟩⟩⟩)
    (by decide +kernel) (by decide +kernel) (by decide +kernel)
theorem prime_991 : Nat.Prime 991 :=
  pratt_step 991 6 [2, 3, 3, 5, 11] (by norm_num) (by decide +kernel)
    (List.forall_mem_cons.mpr ⟨prime_2, List.forall_mem_cons.mpr ⟨prime_3, List.forall_mem_cons.mpr ⟨prime_3, List.forall_mem_cons.mpr ⟨prime_5, List.forall_mem_cons.mpr ⟨prime_11, fun _ h => absurd h (List.not_mem_nil)⟩⟩⟩⟩⟩)
    (by decide +kernel) (by decide +kernel) (by decide +kernel)
theorem prime_8574133 : Nat.Prime 8574133 :=
  pratt_step 8574133 2 [2, 2, 3, 7, 103, 991] (by norm_num) (by decide +kernel)
    (List.forall_mem_cons.mpr ⟨prime_2, List.forall_mem_cons.mpr ⟨prime_2, List.forall_mem_cons.mpr ⟨prime_3, List.forall_mem_cons.mpr ⟨prime_7, List.forall_mem_cons.mpr ⟨prime_103, List.forall_mem_cons.mpr ⟨prime_991, fun _ h => absurd h (List.not_mem_nil)⟩⟩⟩⟩⟩⟩)
    (by decide +kernel) (by decide +kernel) (by decide +kernel)
theorem prime_1919519569386763 : Nat.Prime 1919519569386763 :=
  pratt_step 1919519569386763 2 [2, 3, 7, 19, 47, 47, 127, 8574133] (by norm_num) (by decide +kernel)
    (List.forall_mem_cons.mpr ⟨prime_2, List.forall_mem_cons.mpr ⟨prime_3, List.forall_mem_cons.mpr ⟨prime_7, List.forall_mem_cons.mpr ⟨prime_19, List.forall_mem_cons.mpr ⟨prime_47, List.forall_mem_cons.mpr ⟨prime_47, List.forall_mem_cons.mpr ⟨prime_127, List.forall_mem_cons.mpr ⟨prime_8574133, fun _ h => absurd h (List.not_mem_nil)⟩⟩⟩⟩⟩⟩⟩⟩)
    (by decide +kernel) (by decide +kernel) (by decide +kernel)
theorem prime_29 : Nat.Prime 29 := by norm_num
theorem prime_2437 : Nat.Prime 2437 :=
  pratt_step 2437 2 [2, 2, 3, 7, 29] (by norm_num) (by decide +kernel)
    (List.forall_mem_cons.mpr ⟨prime_2, List.forall_mem_cons.mpr ⟨prime_2, List.forall_mem_cons.mpr ⟨prime_3, List.forall_mem_cons.mpr ⟨prime_7, List.forall_mem_cons.mpr ⟨prime_29, fun _ h => absurd h (List.not_mem_nil)⟩⟩⟩⟩⟩)
    (by decide +kernel) (by decide +kernel) (by decide +kernel)
theorem prime_97 : Nat.Prime 97 := by norm_num
theorem prime_419 : Nat.Prime 419 :=
  pratt_step 419 2 [2, 11, 19] (by norm_num) (by decide +kernel)
    (List.forall_mem_cons.mpr ⟨prime_2, List.forall_mem_cons.mpr ⟨prime_11, List.forall_mem_cons.mpr ⟨prime_19, fun _ h => absurd h (List.not_mem_nil)⟩⟩⟩)
    (by decide +kernel) (by decide +kernel) (by decide +kernel)
theorem prime_569003 : Nat.Prime 569003 :=
  pratt_step 569003 2 [2, 7, 97, 419] (by norm_num) (by decide +kernel)
    (List.forall_mem_cons.mpr ⟨prime_2, List.forall_mem_cons.mpr ⟨prime_7, List.forall_mem_cons.mpr ⟨prime_97, List.forall_mem_cons.mpr ⟨prime_419, fun _ h => absurd h (List.not_mem_nil)⟩⟩⟩⟩)
    (by decide +kernel) (by decide +kernel) (by decide +kernel)
theorem prime_2773320623 : Nat.Prime 2773320623 :=
  pratt_step 2773320623 5 [2, 2437, 569003] (by norm_num) (by decide +kernel)
    (List.forall_mem_cons.mpr ⟨prime_2, List.forall_mem_cons.mpr ⟨prime_2437, List.forall_mem_cons.mpr ⟨prime_569003, fun _ h => absurd h (List.not_mem_nil)⟩⟩⟩)
    (by decide +kernel) (by decide +kernel) (by decide +kernel)
theorem prime_72106336199 : Nat.Prime 72106336199 :=
  pratt_step 72106336199 7 [2, 13, 2773320623] (by norm_num) (by decide +kernel)
    (List.forall_mem_cons.mpr ⟨prime_2, List.forall_mem_cons.mpr ⟨prime_13, List.forall_mem_cons.mpr ⟨prime_2773320623, fun _ h => absurd h (List.not_mem_nil)⟩⟩⟩)
    (by decide +kernel) (by decide +kernel) (by decide +kernel)
theorem prime_75445702479781427272750846543864801 : Nat.Prime 75445702479781427272750846543864801 :=
  pratt_step 75445702479781427272750846543864801 7 [2, 2, 2, 2, 2, 3, 3, 5, 5, 75707, 72106336199, 1919519569386763] (by norm_num) (by decide +kernel)
    (List.forall_mem_cons.mpr ⟨prime_2, List.forall_mem_cons.mpr ⟨prime_2, List.forall_mem_cons.mpr ⟨prime_2, List.forall_mem_cons.mpr ⟨prime_2, List.forall_mem_cons.mpr ⟨prime_2, List.forall_mem_cons.mpr ⟨prime_3, List.forall_mem_cons.mpr ⟨prime_3, List.forall_mem_cons.mpr ⟨prime_5, List.forall_mem_cons.mpr ⟨prime_5, List.forall_mem_cons.mpr ⟨prime_75707, List.forall_mem_cons.mpr ⟨prime_72106336199, List.forall_mem_cons.mpr ⟨prime_1919519569386763, fun _ h => absurd h (List.not_mem_nil)⟩⟩⟩⟩⟩⟩⟩⟩⟩⟩⟩⟩)
    (by decide +kernel) (by decide +kernel) (by decide +kernel)
theorem prime_74058212732561358302231226437062788676166966415465897661863160754340907 : Nat.Prime 74058212732561358302231226437062788676166966415465897661863160754340907 :=
  pratt_step 74058212732561358302231226437062788676166966415465897661863160754340907 2 [2, 3, 353, 57467, 132049, 1923133, 31757755568855353, 75445702479781427272750846543864801] (by norm_num) (by decide +kernel)
    (List.forall_mem_cons.mpr ⟨prime_2, List.forall_mem_cons.mpr ⟨prime_3, List.forall_mem_cons.mpr ⟨prime_353, List.forall_mem_cons.mpr ⟨prime_57467, List.forall_mem_cons.mpr ⟨prime_132049, List.forall_mem_cons.mpr ⟨prime_1923133, List.forall_mem_cons.mpr ⟨prime_31757755568855353, List.forall_mem_cons.mpr ⟨prime_75445702479781427272750846543864801, fun _ h => absurd h (List.not_mem_nil)⟩⟩⟩⟩⟩⟩⟩⟩)
    (by decide +kernel) (by decide +kernel) (by decide +kernel)
theorem prime_57896044618658097711785492504343953926634992332820282019728792003956564819949 : Nat.Prime 57896044618658097711785492504343953926634992332820282019728792003956564819949 :=
  pratt_step 57896044618658097711785492504343953926634992332820282019728792003956564819949 2 [2, 2, 3, 65147, 74058212732561358302231226437062788676166966415465897661863160754340907] (by norm_num) (by decide +kernel)
    (List.forall_mem_cons.mpr ⟨prime_2, List.forall_mem_cons.mpr ⟨prime_2, List.forall_mem_cons.mpr ⟨prime_3, List.forall_mem_cons.mpr ⟨prime_65147, List.forall_mem_cons.mpr ⟨prime_74058212732561358302231226437062788676166966415465897661863160754340907, fun _ h => absurd h (List.not_mem_nil)⟩⟩⟩⟩⟩)
    (by decide +kernel) (by decide +kernel) (by decide +kernel)

end Rangers.Proofs.C16PrattCert
