import Rangers.Model.TrieYP
import Rangers.Proofs.TrieCompact
/- The model's node encoding equals the Yellow Paper's c(J, i) on the iterated content. -/
namespace Rangers.Trie
open Rangers

/-! ### HP = hexToCompact -/

theorem HP_true (n : Key) : HP n true = hexToCompact (n ++ [16]) := by
  rw [hexToCompact_term]
  unfold HP
  by_cases h : n.length % 2 = 0
  · have : ¬ n.length % 2 = 1 := by omega
    simp [h]
  · have h1 : n.length % 2 = 1 := by omega
    simp only [h1, if_true, if_false]
    congr 2

theorem HP_false (n : Key) (hn : Nibs n) : HP n false = hexToCompact n := by
  rw [hexToCompact_nibs n hn]
  unfold HP
  by_cases h : n.length % 2 = 0
  · have : ¬ n.length % 2 = 1 := by omega
    simp [h]
  · have h1 : n.length % 2 = 1 := by omega
    simp only [h1, if_true, if_false]
    congr 2

/-! ### equations of `c(J, i)` -/

/-- `n(J, i)` -/
def ypN (H : Bytes → Bytes) (f : Nat) (J : List (Key × Bytes)) (i : Nat) : Bytes :=
  if J.isEmpty then [0x80] else embedOrHash H (ypC H f J i)

theorem ypC_single (H : Bytes → Bytes) (f : Nat) (I : Key × Bytes) (i : Nat) :
    ypC H (f + 1) [I] i = rlpList (rlpString (HP (I.1.drop i) true) ++ rlpString I.2) := by
  simp [ypC]

theorem ypC_many (H : Bytes → Bytes) (f : Nat) (e1 e2 : Key × Bytes) (rest : List (Key × Bytes)) (i : Nat) :
    ypC H (f + 1) (e1 :: e2 :: rest) i =
      if i ≠ (lcpAll (e1 :: e2 :: rest)).length then
        rlpList (rlpString (HP ((lcpAll (e1 :: e2 :: rest)).drop i) false) ++
          ypN H f (e1 :: e2 :: rest) (lcpAll (e1 :: e2 :: rest)).length)
      else
        rlpList ((List.range 16).flatMap (fun x => ypN H f ((e1 :: e2 :: rest).filter (fun I => I.1[i]? == some x)) (i + 1)) ++
          (match (e1 :: e2 :: rest).find? (fun I => I.1.length == i) with
            | some I => rlpString I.2
            | none => [0x80])) := by
  simp only [ypC, ypN, embedOrHash]
  rfl



/-! ### absolute, terminator-free view of the iterated entries -/

/-- entries of a subtree hanging below the nibble path `P`, as the Yellow Paper sees them:
    absolute keys, no terminator -/
def absK (P : Key) (L : List (Key × Bytes)) : List (Key × Bytes) := L.map (fun e => (P ++ e.1.dropLast, e.2))

theorem absK_append (P : Key) (A B : List (Key × Bytes)) : absK P (A ++ B) = absK P A ++ absK P B := by
  simp [absK]

theorem absK_nil (P : Key) : absK P [] = [] := rfl

theorem dropLast_append_of_ne_nil (a b : Key) (h : b ≠ []) : (a ++ b).dropLast = a ++ b.dropLast := by
  induction a with
  | nil => rfl
  | cons x a ih =>
    have : a ++ b ≠ [] := by simp [h]
    rw [List.cons_append, List.dropLast_cons_of_ne_nil this, ih, List.cons_append]

theorem absK_prepend (P kk : Key) (L : List (Key × Bytes)) (h : ∀ e ∈ L, e.1 ≠ []) :
    absK P (prepend kk L) = absK (P ++ kk) L := by
  simp only [absK, prepend, List.map_map]
  apply List.map_congr_left
  intro e he
  simp [dropLast_append_of_ne_nil kk e.1 (h e he), List.append_assoc]

theorem iter_keys_ne_nil (t : Node) (h : WF t) : ∀ e ∈ iter t, e.1 ≠ [] :=
  fun e he => (iter_valid t h e he).1.ne_nil

/-- entries contributed by slot `s` of a full node -/
theorem absK_slot (P : Key) (s : Nat) (c : Node) (h : SlotOK s c) (hs : s ≠ 16) :
    absK P (prepend [s] (iter c)) = absK (P ++ [s]) (iter c) := by
  rcases h with rfl | h
  · simp [iter, prepend, absK]
  · simp only [hs, if_false] at h
    exact absK_prepend P [s] _ (iter_keys_ne_nil c h)

theorem absK_slot16 (P : Key) (c : Node) (h : SlotOK 16 c) :
    absK P (prepend [16] (iter c)) = match c with | .value b => [(P, b)] | _ => [] := by
  rcases h with rfl | h
  · simp [iter, prepend, absK]
  · simp only [if_true] at h
    obtain ⟨b, rfl, _⟩ := h
    simp [iter, prepend, absK]

theorem absK_keys (P : Key) (L : List (Key × Bytes)) : ∀ I ∈ absK P L, P <+: I.1 := by
  intro I hI
  simp only [absK, List.mem_map] at hI
  obtain ⟨e, _, rfl⟩ := hI
  exact List.prefix_append _ _

theorem filter_absK_all (Q : Key) (x : Nat) (L : List (Key × Bytes)) (n : Nat) (hn : n + 1 = Q.length)
    (hq : Q[n]? = some x) :
    (absK Q L).filter (fun I => I.1[n]? == some x) = absK Q L := by
  apply List.filter_eq_self.mpr
  intro I hI
  obtain ⟨s, hs⟩ := absK_keys Q L I hI
  rw [← hs, List.getElem?_append_left (by omega), hq]; simp

theorem filter_absK_none (Q : Key) (x y : Nat) (L : List (Key × Bytes)) (n : Nat) (hn : n + 1 = Q.length)
    (hq : Q[n]? = some y) (hxy : y ≠ x) :
    (absK Q L).filter (fun I => I.1[n]? == some x) = [] := by
  apply List.filter_eq_nil_iff.mpr
  intro I hI
  obtain ⟨s, hs⟩ := absK_keys Q L I hI
  rw [← hs, List.getElem?_append_left (by omega), hq]; simp [hxy]

theorem filter_absK_iterL (P : Key) (x : Nat) (hx : x < 16) (cs : List Node) (s : Nat)
    (hslots : ∀ idx, idx < cs.length → SlotOK (s + idx) (cs[idx]?.getD .nil)) :
    (absK P (iterL cs s)).filter (fun I => I.1[P.length]? == some x)
      = if s ≤ x then absK (P ++ [x]) (iter (cs[x - s]?.getD .nil)) else [] := by
  induction cs generalizing s with
  | nil => simp [iterL, absK, iter]
  | cons c cs ih =>
    have h0 : SlotOK s c := by simpa using hslots 0 (by simp)
    have hrest : ∀ idx, idx < cs.length → SlotOK (s + 1 + idx) (cs[idx]?.getD .nil) := by
      intro idx hidx
      have := hslots (idx + 1) (by simpa using hidx)
      simpa [Nat.add_assoc, Nat.add_comm 1 idx] using this
    simp only [iterL, absK_append, List.filter_append, ih (s + 1) hrest]
    have hhead : (absK P (prepend [s] (iter c))).filter (fun I => I.1[P.length]? == some x)
        = if s = x then absK (P ++ [x]) (iter c) else [] := by
      by_cases h16 : s = 16
      · subst h16
        have : ¬ (16 = x) := by omega
        rw [absK_slot16 P c h0, if_neg this]
        split
        · simp
        · rfl
      · rw [absK_slot P s c h0 h16]
        by_cases hsx : s = x
        · subst hsx
          rw [if_pos rfl]
          exact filter_absK_all _ s _ _ (by simp) (by simp)
        · rw [if_neg hsx]
          exact filter_absK_none _ x s _ _ (by simp) (by simp) hsx
    rw [hhead]
    by_cases h1 : s = x
    · subst h1
      have : ¬ (s + 1 ≤ s) := by omega
      simp [this]
    · by_cases h2 : s ≤ x
      · have h3 : s + 1 ≤ x := by omega
        have : x - s = (x - (s + 1)) + 1 := by omega
        simp [h1, h2, h3, this]
      · have h3 : ¬ (s + 1 ≤ x) := by omega
        simp [h1, h2, h3]

theorem find_absK_long (Q : Key) (L : List (Key × Bytes)) (n : Nat) (h : n < Q.length) :
    (absK Q L).find? (fun I => I.1.length == n) = none := by
  apply List.find?_eq_none.mpr
  intro I hI
  have := (absK_keys Q L I hI).length_le
  simp; omega

theorem find_absK_iterL (P : Key) (cs : List Node) (s : Nat)
    (hslots : ∀ idx, idx < cs.length → SlotOK (s + idx) (cs[idx]?.getD .nil)) :
    (absK P (iterL cs s)).find? (fun I => I.1.length == P.length)
      = if s ≤ 16 then (match cs[16 - s]?.getD .nil with | .value b => some (P, b) | _ => none) else none := by
  induction cs generalizing s with
  | nil => simp [iterL, absK]
  | cons c cs ih =>
    have h0 : SlotOK s c := by simpa using hslots 0 (by simp)
    have hrest : ∀ idx, idx < cs.length → SlotOK (s + 1 + idx) (cs[idx]?.getD .nil) := by
      intro idx hidx
      have := hslots (idx + 1) (by simpa using hidx)
      simpa [Nat.add_assoc, Nat.add_comm 1 idx] using this
    simp only [iterL, absK_append, List.find?_append, ih (s + 1) hrest]
    by_cases h16 : s = 16
    · subst h16
      rw [absK_slot16 P c h0]
      rcases h0 with rfl | h0
      · simp
      · simp only [if_true] at h0
        obtain ⟨b, rfl, _⟩ := h0
        simp
    · rw [absK_slot P s c h0 h16, find_absK_long _ _ _ (by simp)]
      simp only [Option.none_or]
      by_cases h2 : s ≤ 16
      · have h3 : s + 1 ≤ 16 := by omega
        have : 16 - s = (16 - (s + 1)) + 1 := by omega
        simp [h2, h3, this]
      · have h3 : ¬ (s + 1 ≤ 16) := by omega
        simp [h2, h3]



/-! ### the model's encoder, slot by slot -/

theorem flatMap_congr' {α β : Type} (l : List α) (f g : α → List β) (h : ∀ x ∈ l, f x = g x) :
    l.flatMap f = l.flatMap g := by
  induction l with
  | nil => rfl
  | cons a l ih =>
    simp only [List.flatMap_cons]
    rw [h a (by simp), ih (fun x hx => h x (by simp [hx]))]

def slotEnc (H : Bytes → Bytes) (i : Nat) (c : Node) : Bytes :=
  match c with
  | .nil => [0x80]
  | c => if i < 16 then embedOrHash H (enc H c) else enc H c

theorem encL_cons (H : Bytes → Bytes) (c : Node) (cs : List Node) (i : Nat) :
    encL H (c :: cs) i = slotEnc H i c ++ encL H cs (i + 1) := by
  cases c <;> simp [encL, slotEnc]

theorem encL_eq (H : Bytes → Bytes) (cs : List Node) (s : Nat) :
    encL H cs s = (List.range cs.length).flatMap (fun idx => slotEnc H (s + idx) (cs[idx]?.getD .nil)) := by
  induction cs generalizing s with
  | nil => simp [encL]
  | cons c cs ih =>
    rw [encL_cons, ih (s + 1), List.length_cons, List.range_succ_eq_map, List.flatMap_cons, List.flatMap_map]
    simp only [Nat.add_zero, List.getElem?_cons_zero, Option.getD_some, List.getElem?_cons_succ]
    congr 1
    apply flatMap_congr'
    intro idx _
    have : s + 1 + idx = s + (idx + 1) := by omega
    rw [this]

theorem enc_full (H : Bytes → Bytes) (cs : List Node) (hlen : cs.length = 17) :
    enc H (.full cs) = rlpList ((List.range 16).flatMap (fun x => slotEnc H x (cs[x]?.getD .nil)) ++
      slotEnc H 16 (cs[16]?.getD .nil)) := by
  simp only [enc, encL_eq, hlen, Nat.zero_add]
  rw [show (17 : Nat) = 16 + 1 from rfl, List.range_succ, List.flatMap_append]
  simp

theorem enc_leaf (H : Bytes → Bytes) (kk : Key) (b : Bytes) :
    enc H (.short kk (.value b)) = rlpList (rlpString (hexToCompact kk) ++ rlpString b) := by
  simp [enc]

theorem enc_ext (H : Bytes → Bytes) (kk : Key) (cs : List Node) :
    enc H (.short kk (.full cs)) = rlpList (rlpString (hexToCompact kk) ++ embedOrHash H (enc H (.full cs))) := by
  simp [enc]

/-! ### common prefix of the entries below a full node -/

theorem absK_eq_prepend (P : Key) (L : List (Key × Bytes)) :
    absK P L = prepend P (L.map (fun e => (e.1.dropLast, e.2))) := by
  simp [absK, prepend, List.map_map, Function.comp_def]

theorem lcpAll_absK_full (P : Key) (cs : List Node) (hwf : WF (.full cs)) :
    lcpAll (absK P (iterL cs 0)) = P := by
  obtain ⟨hlen, hslots, hcnt⟩ := (WF_full_iff cs).mp hwf
  obtain ⟨i, j, hij, hj, hni, hnj⟩ := exists_two_of_countNN cs hcnt
  obtain ⟨a, ha⟩ := slot_has_entry i _ (hslots i (by omega)) hni
  obtain ⟨b, hb⟩ := slot_has_entry j _ (hslots j (by omega)) hnj
  have m1 : ((0 + i) :: a.1, a.2) ∈ iterL cs 0 := mem_iterL.mpr ⟨i, by omega, a, ha, rfl⟩
  have m2 : ((0 + j) :: b.1, b.2) ∈ iterL cs 0 := mem_iterL.mpr ⟨j, hj, b, hb, rfl⟩
  have hne : iterL cs 0 ≠ [] := fun h => by rw [h] at m1; simp at m1
  rw [absK_eq_prepend, lcpAll_prepend _ _ (by simpa using hne)]
  suffices h : lcpAll ((iterL cs 0).map (fun e => (e.1.dropLast, e.2))) = [] by rw [h]; simp
  have p1 := lcpAll_prefix _ _ (List.mem_map_of_mem (f := fun e => (e.1.dropLast, e.2)) m1)
  have p2 := lcpAll_prefix _ _ (List.mem_map_of_mem (f := fun e => (e.1.dropLast, e.2)) m2)
  simp only [Nat.zero_add] at p1 p2
  -- slot i < 16 holds a well-formed subtree: its paths are non-empty
  have hi16 : i ≠ 16 := by omega
  have hane : a.1 ≠ [] := by
    rcases hslots i (by omega) with h | h
    · exact absurd h hni
    · simp only [hi16, if_false] at h
      exact iter_keys_ne_nil _ h a ha
  rw [List.dropLast_cons_of_ne_nil hane] at p1
  cases hp : lcpAll ((iterL cs 0).map (fun e => (e.1.dropLast, e.2))) with
  | nil => rfl
  | cons x p =>
    rw [hp] at p1 p2
    have e1 := (List.cons_prefix_cons.mp p1).1
    by_cases hbne : b.1 = []
    · rw [hbne] at p2; simp at p2
    · rw [List.dropLast_cons_of_ne_nil hbne] at p2
      have e2 := (List.cons_prefix_cons.mp p2).1
      omega

/-! ### the model's node encoding is the Yellow Paper's `c(J, i)` -/

theorem ypC_enc (H : Bytes → Bytes) (t : Node) :
    WF t → ∀ (P : Key) (f : Nat), height t ≤ f → ypC H f (absK P (iter t)) P.length = enc H t := by
  induction t using Node.induct with
  | hnil => intro h; exact absurd h not_WF_nil
  | hval b => intro h; exact absurd h (not_WF_value b)
  | hshort kk v ih =>
    intro hwf P f hf
    rcases (WF_short_iff kk v).mp hwf with ⟨b, rfl, hkk, hb⟩ | ⟨cs, rfl, hne, hnib, hfull⟩
    · simp only [height] at hf
      obtain ⟨f', rfl⟩ : ∃ f', f = f' + 1 := ⟨f - 1, by omega⟩
      obtain ⟨n, rfl, hn⟩ := (validKey_iff kk).mp hkk
      simp only [iter, prepend, List.map_cons, List.map_nil, List.append_nil, absK, List.dropLast_concat]
      rw [ypC_single, enc_leaf]
      simp [HP_true]
    · simp only [height] at hf
      obtain ⟨f', rfl⟩ : ∃ f', f = f' + 1 := ⟨f - 1, by omega⟩
      obtain ⟨⟨e1, e2, rest, hshape⟩, _⟩ := iter_full_shape cs hfull
      have hL : iter (.full cs) = iterL cs 0 := by simp [iter]
      have hkeys := iter_keys_ne_nil _ hfull
      have hJ : absK P (iter (.short kk (.full cs))) = absK (P ++ kk) (iterL cs 0) := by
        simp only [iter]
        rw [← hL, absK_prepend P kk _ hkeys]
      rw [hJ, enc_ext]
      have hshape' : absK (P ++ kk) (iterL cs 0)
          = (P ++ kk ++ e1.1.dropLast, e1.2) :: (P ++ kk ++ e2.1.dropLast, e2.2) :: absK (P ++ kk) rest := by
        rw [hshape]; rfl
      have hl := lcpAll_absK_full (P ++ kk) cs hfull
      rw [hshape', ypC_many, ← hshape', hl]
      have hne' : P.length ≠ (P ++ kk).length := by
        simp only [List.length_append]
        have : kk.length ≠ 0 := by simpa using hne
        omega
      rw [if_pos hne']
      have hrec := ih hfull (P ++ kk) f' (by simp only [height]; omega)
      rw [hL] at hrec
      have hnotempty : (absK (P ++ kk) (iterL cs 0)).isEmpty = false := by rw [hshape']; rfl
      simp only [ypN, hnotempty, Bool.false_eq_true, if_false, hrec, List.drop_left, HP_false kk hnib]
  | hfull cs ih =>
    intro hwf P f hf
    obtain ⟨hlen, hslots, hcnt⟩ := (WF_full_iff cs).mp hwf
    simp only [height] at hf
    obtain ⟨f', rfl⟩ : ∃ f', f = f' + 1 := ⟨f - 1, by omega⟩
    obtain ⟨⟨e1, e2, rest, hshape⟩, _⟩ := iter_full_shape cs hwf
    have hshape' : absK P (iterL cs 0)
        = (P ++ e1.1.dropLast, e1.2) :: (P ++ e2.1.dropLast, e2.2) :: absK P rest := by
      rw [hshape]; rfl
    have hl := lcpAll_absK_full P cs hwf
    have hslots0 : ∀ idx, idx < cs.length → SlotOK (0 + idx) (cs[idx]?.getD .nil) := by
      intro idx hidx; simpa using hslots idx (by omega)
    simp only [iter]
    rw [hshape', ypC_many, ← hshape', hl, enc_full H cs hlen]
    simp only [ne_eq, not_true_eq_false, if_false]
    congr 1
    congr 1
    · apply flatMap_congr'
      intro x hx
      have hx16 : x < 16 := by simpa using hx
      rw [filter_absK_iterL P x hx16 cs 0 hslots0]
      simp only [Nat.zero_le, if_true, Nat.sub_zero]
      rcases hslots x (by omega) with h | h
      · rw [h]; simp [iter, absK, ypN, slotEnc]
      · have hx16' : ¬ x = 16 := by omega
        simp only [hx16', if_false] at h
        have hmem : cs[x]?.getD .nil ∈ cs := by
          rcases getD_mem_or_nil cs x with h0 | h0
          · rw [h0] at h; exact absurd h not_WF_nil
          · exact h0
        have hh : height (cs[x]?.getD .nil) ≤ f' :=
          Nat.le_trans (height_le_heightL cs _ hmem) (by omega)
        have hrec := ih _ hmem h (P ++ [x]) f' hh
        simp only [List.length_append, List.length_singleton] at hrec
        have hnotempty : (absK (P ++ [x]) (iter (cs[x]?.getD .nil))).isEmpty = false := by
          have := iter_ne_nil _ h
          simp only [absK, List.isEmpty_map]
          cases hi : iter (cs[x]?.getD .nil) with
          | nil => exact absurd hi this
          | cons _ _ => rfl
        simp only [ypN, hnotempty, Bool.false_eq_true, if_false, hrec]
        have hnn : cs[x]?.getD .nil ≠ .nil := h.ne_nil
        unfold slotEnc
        split
        · rename_i heq; exact absurd heq hnn
        · simp [hx16]
    · rw [find_absK_iterL P cs 0 hslots0]
      simp only [Nat.zero_le, if_true, Nat.sub_zero]
      rcases hslots 16 (by omega) with h | h
      · rw [h]; simp [slotEnc]
      · simp only [if_true] at h
        obtain ⟨b, hb, _⟩ := h
        rw [hb]; simp [slotEnc, enc]

end Rangers.Trie
