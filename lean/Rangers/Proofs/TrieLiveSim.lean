import Rangers.Model.TrieMachine
import Rangers.Proofs.TrieLiveHash
import Rangers.Proofs.TrieDecode
/- Simulation: every operation of the live-trie machine observes what the loaded machine observes. -/
namespace Rangers.Trie
open Rangers

/-! ### resolving every hash node gives the loaded trie -/

theorem mapM_pointwise {α β : Type} (f : α → Option β) (xs : List α) (ys : List β) (hlen : ys.length = xs.length)
    (h : ∀ (j : Nat) (a : α), xs[j]? = some a → ∃ b, ys[j]? = some b ∧ f a = some b) : xs.mapM f = some ys := by
  induction xs generalizing ys with
  | nil => cases ys with
    | nil => rfl
    | cons _ _ => simp at hlen
  | cons x xs ih =>
    cases ys with
    | nil => simp at hlen
    | cons y ys =>
      obtain ⟨b, hb, h0⟩ := h 0 x (by simp)
      simp only [List.getElem?_cons_zero, Option.some.injEq] at hb
      subst hb
      have := ih ys (by simpa using hlen) (fun j a ha => by simpa using h (j + 1) a (by simpa using ha))
      rw [List.mapM_cons, h0, this]
      rfl

theorem expandFull_abs (H : Bytes → Bytes) (st : Store) (t : Node) :
    WFRoot t → ∀ child l f, AbsR H st child t l → 2 * height t + 2 ≤ f → expandFull st f l = some t := by
  induction t using Node.induct with
  | hnil =>
    intro _ child l f habs hf
    rw [AbsR_nil.mp habs]
    obtain ⟨f', rfl⟩ : ∃ f', f = f' + 1 := ⟨f - 1, by omega⟩
    simp [expandFull]
  | hval b => intro h; rcases h with h | h <;> simp [WF] at h
  | hshort kk v ih =>
    intro hwf child l f habs hf
    have hwf : WF (.short kk v) := hwf.resolve_left (by simp)
    have hQ : ∀ l f, AbsL H st child (.short kk v) l → 2 * height (.short kk v) + 1 ≤ f →
        expandFull st f l = some (.short kk v) := by
      intro l f hl hf
      obtain ⟨lv, fl, rfl, hv, _⟩ := AbsL_short.mp hl
      obtain ⟨f', rfl⟩ : ∃ f', f = f' + 1 := ⟨f - 1, by omega⟩
      simp only [height] at hf
      have : expandFull st f' lv = some v := by
        rcases (WF_short_iff kk v).mp hwf with ⟨b, rfl, _, _⟩ | ⟨cs, rfl, _, _, hfull⟩
        · obtain rfl := AbsR_value.mp hv
          obtain ⟨f'', rfl⟩ : ∃ f'', f' = f'' + 1 := ⟨f' - 1, by omega⟩
          simp [expandFull]
        · exact ih (Or.inr hfull) true lv f' hv (by omega)
      simp [expandFull, this]
    rcases habs with hl | hh
    · exact hQ l f hl (by omega)
    · obtain ⟨l1, hres, hl1⟩ := resolve_hashOf hh 0
      obtain ⟨f', rfl⟩ : ∃ f', f = f' + 1 := ⟨f - 1, by omega⟩
      rw [hh.1]
      simp only [expandFull, hres, Option.bind_some]
      exact hQ l1 f' hl1 (by omega)
  | hfull cs ih =>
    intro hwf child l f habs hf
    have hwf : WF (.full cs) := hwf.resolve_left (by simp)
    obtain ⟨hlen17, hslots, hcnt⟩ := (WF_full_iff cs).mp hwf
    have hQ : ∀ l f, AbsL H st child (.full cs) l → 2 * height (.full cs) + 1 ≤ f →
        expandFull st f l = some (.full cs) := by
      intro l f hl hf
      obtain ⟨lcs, fl, rfl, hlen, hpt, _⟩ := AbsL_full.mp hl
      obtain ⟨f', rfl⟩ : ∃ f', f = f' + 1 := ⟨f - 1, by omega⟩
      simp only [height] at hf
      have : lcs.mapM (expandFull st f') = some cs := by
        apply mapM_pointwise _ _ _ hlen
        intro j a ha
        have hj : j < lcs.length := by
          rcases Nat.lt_or_ge j lcs.length with h | h
          · exact h
          · rw [List.getElem?_eq_none h] at ha; cases ha
        have hjc : j < cs.length := by omega
        refine ⟨cs[j], List.getElem?_eq_getElem hjc, ?_⟩
        have hpj := hpt j hjc
        rw [List.getElem?_eq_getElem hjc, ha] at hpj
        simp only [Option.getD_some] at hpj
        have hmem : cs[j] ∈ cs := List.getElem_mem hjc
        have hh := height_le_heightL cs _ hmem
        have hsl := hslots j (by omega)
        rw [List.getElem?_eq_getElem hjc] at hsl
        simp only [Option.getD_some] at hsl
        rcases hsl with h | h
        · rw [h] at hpj ⊢
          rw [AbsR_nil.mp hpj]
          obtain ⟨f'', rfl⟩ : ∃ f'', f' = f'' + 1 := ⟨f' - 1, by omega⟩
          simp [expandFull]
        · by_cases h16 : j = 16
          · simp only [h16, if_true] at h
            obtain ⟨b, hb, _⟩ := h
            subst h16
            rw [hb] at hpj ⊢
            rw [AbsR_value.mp hpj]
            obtain ⟨f'', rfl⟩ : ∃ f'', f' = f'' + 1 := ⟨f' - 1, by omega⟩
            simp [expandFull]
          · simp only [h16, if_false] at h
            exact ih _ hmem (Or.inr h) true _ f' hpj (by omega)
      simp [expandFull, this]
    rcases habs with hl | hh
    · exact hQ l f hl (by omega)
    · obtain ⟨l1, hres, hl1⟩ := resolve_hashOf hh 0
      obtain ⟨f', rfl⟩ : ∃ f', f = f' + 1 := ⟨f - 1, by omega⟩
      rw [hh.1]
      simp only [expandFull, hres, Option.bind_some]
      exact hQ l1 f' hl1 (by omega)



/-! ### the simulation between the live machine and the loaded machine -/

/-- the live trie `lt` stands for the loaded trie `t` -/
structure Sim (H : Bytes → Bytes) (U : Node → Prop) (lt : LTrie) (t : Node) : Prop where
  wf : WFRoot t
  abs : AbsR H lt.db false t lt.root
  sound : StoreSound H U lt.db

/-- what is assumed of the hash function **on the universe `U` of nodes that occur** (closed under
    children): no collision among their encodings, none of them hashes to one of the two constants
    `NewTrie` treats as "empty trie", digests are 32 bytes.  (For all nodes at once this would be
    unsatisfiable by a 32-byte hash; for the finitely many nodes of a history it is the usual
    collision-freeness assumption, and `Props.C02Live` exhibits a history and a hash satisfying it.) -/
structure HashOK (H : Bytes → Bytes) (U : Node → Prop) : Prop where
  nocoll : NoColl H U
  closed : ClosedU U
  noconst : ∀ t, U t → WF t → H (enc H t) ≠ emptyRoot ∧ H (enc H t) ≠ List.replicate 32 0
  len32 : ∀ x, (H x).length = 32

theorem sim_empty (H : Bytes → Bytes) (U : Node → Prop) : Sim H U LTrie.empty .nil :=
  ⟨Or.inl rfl, AbsR_nil.mpr rfl, fun h c hl => by simp [LTrie.empty] at hl⟩

variable {U : Node → Prop}

theorem root_nil_iff {H : Bytes → Bytes} {lt : LTrie} {t : Node} (h : Sim H U lt t) : lt.root = .nil ↔ t = .nil := by
  have := h.abs.nil_iff
  constructor
  · intro h0; rw [h0] at this; exact (isNil_iff t).mp (by simpa [isNilL] using this.symm)
  · intro h0; rw [h0] at this
    cases hr : lt.root <;> simp_all [isNilL, isNil]

theorem sim_hashL {H : Bytes → Bytes} (hok : HashOK H U) {lt : LTrie} {t : Node} (h : Sim H U lt t) (hwf : WF t) (hU : U t)
    (withDb : Bool) :
    let r := hashL H lt.gen lt.limit withDb lt.root true lt.db
    refHash r.1 = rootHash H t ∧ AbsR H r.2.2 false t r.2.1 ∧ StoreSound H U r.2.2 ∧
    (withDb = false → r.2.2 = lt.db) ∧
    (withDb = true → Stored H r.2.2 t ∧ r.2.2.lookup (H (enc H t)) = some (collapse H t)) := by
  have hs := hashL_spec hok.nocoll hok.closed lt.gen lt.limit withDb t hwf hU false lt.root lt.db h.sound h.abs
  simp only [Bool.not_false] at hs
  obtain ⟨s1, s2, s3, s4, s5, s6⟩ := hs
  refine ⟨?_, s2, s4, s6, fun hw => ⟨(s5 hw).1, (s5 hw).2 rfl⟩⟩
  rw [s1, rootHash_of_ne_nil H t hwf.ne_nil]
  simp [refHash]

theorem sim_hash {H : Bytes → Bytes} (hok : HashOK H U) {lt : LTrie} {t : Node} (h : Sim H U lt t) (hU : U t) :
    (lt.hash H).1 = rootHash H t ∧ Sim H U (lt.hash H).2 t := by
  rcases h.wf with rfl | hwf
  · have hr := (root_nil_iff h).mpr rfl
    simp only [LTrie.hash, hr]
    exact ⟨rfl, h⟩
  · have hne : lt.root ≠ .nil := fun h0 => hwf.ne_nil ((root_nil_iff h).mp h0)
    obtain ⟨s1, s2, s3, s4, _⟩ := sim_hashL hok h hwf hU false
    have heq : lt.hash H = (refHash (hashL H lt.gen lt.limit false lt.root true lt.db).1,
        { lt with root := (hashL H lt.gen lt.limit false lt.root true lt.db).2.1 }) := by
      unfold LTrie.hash
      cases hr : lt.root with
      | nil => exact absurd hr hne
      | _ => rfl
    rw [heq]
    refine ⟨s1, ⟨Or.inr hwf, ?_, h.sound⟩⟩
    have := s4 rfl
    simp only [] at this ⊢
    rw [this] at s2
    exact s2

theorem sim_commit {H : Bytes → Bytes} (hok : HashOK H U) {lt : LTrie} {t : Node} (h : Sim H U lt t) (hU : U t) :
    (lt.commit H).1 = rootHash H t ∧ Sim H U (lt.commit H).2 t ∧
    (WF t → (lt.commit H).2.db.lookup (H (enc H t)) = some (collapse H t) ∧ Stored H (lt.commit H).2.db t) := by
  rcases h.wf with rfl | hwf
  · have hr := (root_nil_iff h).mpr rfl
    simp only [LTrie.commit, hr]
    refine ⟨rfl, ⟨Or.inl rfl, ?_, h.sound⟩, fun hw => absurd hw not_WF_nil⟩
    simp only [hr]; exact AbsR_nil.mpr rfl
  · have hne : lt.root ≠ .nil := fun h0 => hwf.ne_nil ((root_nil_iff h).mp h0)
    obtain ⟨s1, s2, s3, _, s5⟩ := sim_hashL hok h hwf hU true
    have heq : lt.commit H = (refHash (hashL H lt.gen lt.limit true lt.root true lt.db).1,
        { lt with root := (hashL H lt.gen lt.limit true lt.root true lt.db).2.1,
                  db := (hashL H lt.gen lt.limit true lt.root true lt.db).2.2,
                  gen := (lt.gen + 1) % 65536 }) := by
      unfold LTrie.commit
      cases hr : lt.root with
      | nil => exact absurd hr hne
      | _ => rfl
    rw [heq]
    exact ⟨s1, ⟨Or.inr hwf, s2, s3⟩, fun _ => ⟨(s5 rfl).2, (s5 rfl).1⟩⟩

theorem sim_reopen {H : Bytes → Bytes} (hok : HashOK H U) {lt : LTrie} {t : Node} (h : Sim H U lt t) (hU : U t) :
    (lt.reopen H).2 = .root (rootHash H t) ∧ Sim H U (lt.reopen H).1 t := by
  obtain ⟨c1, c2, c3⟩ := sim_commit hok h hU
  unfold LTrie.reopen
  simp only []
  rcases h.wf with rfl | hwf
  · have : (lt.commit H).1 = emptyRoot := by rw [c1]; rfl
    simp only [LTrie.open, this, beq_self_eq_true, Bool.true_or, if_true]
    exact ⟨rfl, ⟨Or.inl rfl, AbsR_nil.mpr rfl, c2.sound⟩⟩
  · obtain ⟨hlk, hst⟩ := c3 hwf
    have hrh : (lt.commit H).1 = H (enc H t) := by rw [c1, rootHash_of_ne_nil H t hwf.ne_nil]
    obtain ⟨hn1, hn2⟩ := hok.noconst t hU hwf
    have e1 : (H (enc H t) == emptyRoot) = false := beq_false_of_ne hn1
    have e2 : (H (enc H t) == List.replicate 32 0) = false := beq_false_of_ne hn2
    have hho : HashOf H (lt.commit H).2.db false t (.hash (H (enc H t))) :=
      ⟨rfl, hwf, (fun h0 => by cases h0), hst, hlk⟩
    obtain ⟨n, hres, habs⟩ := resolve_hashOf hho 0
    simp only [LTrie.open, hrh, e1, e2, Bool.or_self, Bool.false_eq_true, if_false, hres, Option.map_some]
    exact ⟨by rw [rootHash_of_ne_nil H t hwf.ne_nil], ⟨Or.inr hwf, Or.inl habs, c2.sound⟩⟩

/-- the disk variant: the root blob is decoded instead of expanded from the memory cache -/
theorem sim_reopenDisk {H : Bytes → Bytes} (hok : HashOK H U) {lt : LTrie} {t : Node} (h : Sim H U lt t) (hU : U t)
    (hsz : (enc H t).length < 256 ^ 8) :
    (lt.reopenDisk H).2 = .root (rootHash H t) ∧ Sim H U (lt.reopenDisk H).1 t := by
  obtain ⟨c1, c2, c3⟩ := sim_commit hok h hU
  have hmem := sim_reopen hok h hU
  unfold LTrie.reopenDisk
  unfold LTrie.reopen at hmem
  simp only [] at hmem ⊢
  rcases h.wf with rfl | hwf
  · have : (lt.commit H).1 = emptyRoot := by rw [c1]; rfl
    simp only [LTrie.openDisk, this, beq_self_eq_true, Bool.true_or, if_true]
    exact ⟨rfl, ⟨Or.inl rfl, AbsR_nil.mpr rfl, c2.sound⟩⟩
  · obtain ⟨hlk, _⟩ := c3 hwf
    have hrh : (lt.commit H).1 = H (enc H t) := by rw [c1, rootHash_of_ne_nil H t hwf.ne_nil]
    have heq := resolveHashDisk_eq H hok.len32 (lt.commit H).2.db 0 t hwf hsz _ hlk
    have : LTrie.openDisk (lt.commit H).2.db (lt.commit H).1 = LTrie.open (lt.commit H).2.db (lt.commit H).1 := by
      simp only [LTrie.openDisk, LTrie.open, hrh, heq]
    rw [this]; exact hmem

theorem fuelFor_ok (k : Key) : 2 * k.length + 2 ≤ fuelFor k := by unfold fuelFor; omega

theorem sim_step {H : Bytes → Bytes} (hok : HashOK H U) (F : Nat) {lt : LTrie} {t : Node} (h : Sim H U lt t)
    (hF : 2 * height t + 2 ≤ F) (hsz : (enc H t).length < 256 ^ 8) (hU : U t) (op : Op) :
    (lstep H F lt op).2 = (nstep H t op).2 ∧ Sim H U (lstep H F lt op).1 (nstep H t op).1 := by
  have hdel : ∀ k, ∃ lt', lt.remove k = some lt' ∧ Sim H U lt' (remove t k) := by
    intro k
    obtain ⟨l', hd, habs⟩ := deleteL_refines H lt.db lt.gen t false lt.root (keybytesToHex k) _ h.wf
      (validKey_keybytesToHex k) h.abs (fuelFor_ok _)
    exact ⟨{ lt with root := l' }, by simp [LTrie.remove, hd],
      ⟨delete_wf t _ h.wf (validKey_keybytesToHex k), Or.inl habs, h.sound⟩⟩
  cases op with
  | upd k v =>
    simp only [lstep, nstep]
    by_cases hv : v = []
    · subst hv
      obtain ⟨lt', hr, hs⟩ := hdel k
      have hu : lt.update k [] = some lt' := by simpa [LTrie.update, LTrie.remove] using hr
      have hn : update t k [] = remove t k := by simp [update, remove]
      rw [hu, hn]; exact ⟨rfl, hs⟩
    · have hlen : (v.length != 0) = true := by simpa using hv
      obtain ⟨l', hd, habs⟩ := insertL_refines H lt.db lt.gen v t false lt.root (keybytesToHex k) _ h.wf
        (validKey_keybytesToHex k) h.abs (fuelFor_ok _)
      have hu : lt.update k v = some { lt with root := l' } := by simp [LTrie.update, hlen, hd]
      have hn : update t k v = (insert t (keybytesToHex k) (.value v)).2 := by simp [update, hlen]
      rw [hu, hn]
      exact ⟨rfl, ⟨Or.inr (insert_wf v hv t _ h.wf (validKey_keybytesToHex k)), Or.inl habs, h.sound⟩⟩
  | del k =>
    simp only [lstep, nstep]
    obtain ⟨lt', hr, hs⟩ := hdel k
    rw [hr]; exact ⟨rfl, hs⟩
  | get k =>
    simp only [lstep, nstep]
    obtain ⟨l', dr, hg, habs⟩ := getL_refines H lt.db lt.gen t false lt.root (keybytesToHex k) _ h.wf
      (validKey_keybytesToHex k) h.abs (fuelFor_ok _)
    simp only [LTrie.get, hg, Option.map_some, lookup]
    refine ⟨trivial, ?_⟩
    cases dr with
    | false => exact h
    | true => exact ⟨h.wf, habs, h.sound⟩
  | hash =>
    simp only [lstep, nstep]
    obtain ⟨h1, h2⟩ := sim_hash hok h hU
    exact ⟨by rw [h1], h2⟩
  | commit =>
    simp only [lstep, nstep]
    obtain ⟨h1, h2, _⟩ := sim_commit hok h hU
    exact ⟨by rw [h1], h2⟩
  | reopen => simp only [lstep, nstep]; exact sim_reopen hok h hU
  | dbcommit => simp only [lstep, nstep]; exact sim_reopenDisk hok h hU hsz
  | cachelimit n => simp only [lstep, nstep]; exact ⟨trivial, ⟨h.wf, h.abs, h.sound⟩⟩
  | iter start =>
    simp only [lstep, nstep]
    obtain ⟨_, h2⟩ := sim_hash hok h hU
    rw [expandFull_abs H _ t h2.wf false _ F h2.abs hF]
    exact ⟨rfl, h2⟩

end Rangers.Trie
