import Rangers.Proofs.GroupChainRun
/-! Crash points of `save` / `remove`: which prefixes of the physical writes are harmless. -/
namespace Rangers.Model.GroupChain
open Rangers

/-- An extra entry under a proper id that no listed group uses does not disturb `Rep`. -/
theorem Rep.orphan {l : List Group} {c : Chain} (r : Rep l c) (id : Bytes) (v : Val)
    (hid : IdOK id) (hfresh : ∀ x ∈ l, x.id ≠ id) :
    Rep l { c with disk := sput c.disk id v } := by
  have hget : ∀ k, k ≠ id → sget (sput c.disk id v) k = sget c.disk k := by
    intro k hk; rw [sget_sput]; simp [hk]
  constructor
  · exact r.ne
  · exact r.count
  · exact r.bound
  · intro i x hx
    show sget (sput c.disk id v) (hkey i) = _
    rw [hget _ (fun e => hid.ne_hkey i e.symm)]; exact r.slot i x hx
  · intro x hx
    show sget (sput c.disk id v) x.id = _
    rw [hget _ (hfresh x hx)]; exact r.stored x hx
  · exact r.height
  · exact r.idok
  · intro i h1 h2 h3
    show sget (sput c.disk id v) (hkey i) = _
    rw [hget _ (fun e => hid.ne_hkey i e.symm)]; exact r.above i h1 h2 h3
  · exact r.linked
  · exact r.nodup
  · exact r.last
  · show sget (sput c.disk id v) curKey = _
    rw [hget _ (fun e => hid.ne_curKey e.symm)]; exact r.cur
  · show sget (sput c.disk id v) cntKey = _
    rw [hget _ (fun e => hid.ne_cntKey e.symm)]; exact r.cnt
  · show sget (sput c.disk id v) [] = _
    rw [hget _ (fun e => hid.1 e.symm)]; exact r.empty

/-- `save` cut before its batch (nothing written, or only `Put(id, json)`): start-up comes back on
    the old list (the new group is an unreferenced entry). `save` has exactly these two crash points. -/
theorem crash_save_fresh {l : List Group} {c : Chain} (r : Rep l c) (g : Group) (gen : List Group)
    (hid : IdOK g.id) (hfresh : ∀ x ∈ l, x.id ≠ g.id) (k : Nat) (hk : k < 2) :
    ∃ d c', saveB c g k = .crashed d c.mirror ∧ restart d c.mirror gen = some (.alive c') ∧ Rep l c' := by
  have hk' : k = 0 ∨ k = 1 := by omega
  rcases hk' with rfl | rfl
  · obtain ⟨c', h1, _, _, _, h5⟩ := rep_restart r c.mirror gen
    exact ⟨c.disk, c', by simp [saveB, saveGroups, applyWrites], h1, h5⟩
  · have r1 := r.orphan g.id (.grp (stamped c.count g)) hid hfresh
    obtain ⟨c', h1, _, _, _, h5⟩ := rep_restart r1 c.mirror gen
    exact ⟨sput c.disk g.id (.grp (stamped c.count g)), c',
      by simp [saveB, saveGroups, saveWrites, applyWrites, applyWrite], h1, h5⟩

theorem fresh_of_addCheck {l : List Group} {c : Chain} (r : Rep l c) {g : Group} (hok : addCheck c g = .ok) :
    ∀ x ∈ l, x.id ≠ g.id := by
  intro x hx e
  have h1 := (addCheck_ok hok).1
  have := r.stored x hx
  rw [e] at this
  simp [shas, this] at h1

/-- A budget of two or more physical writes does not cut `save`; a smaller one does. -/
theorem saveB_done (c : Chain) (g : Group) (k : Nat) (hk : 2 ≤ k) : saveB c g k = .done (save c g) (k - 2) := by
  have : ¬ k < 2 := by omega
  simp [saveB, saveGroups, this]

theorem saveB_crashed_lt {c : Chain} {g : Group} {k : Nat} {d : Store} {m : List Bytes}
    (h : saveB c g k = .crashed d m) : k < 2 := by
  by_cases hk : k < 2
  · exact hk
  · rw [saveB_done c g k (by omega)] at h; cases h

/-- EVERY crash point of `save`. -/
theorem crash_save_all {l : List Group} {c : Chain} (r : Rep l c) (g : Group) (gen : List Group)
    (hid : IdOK g.id) (hfresh : ∀ x ∈ l, x.id ≠ g.id) (k : Nat) (d : Store) (m : List Bytes)
    (h : saveB c g k = .crashed d m) : ∃ c', restart d m gen = some (.alive c') ∧ Rep l c' := by
  obtain ⟨d', c', e1, e2, e3⟩ := crash_save_fresh r g gen hid hfresh k (saveB_crashed_lt h)
  rw [e1] at h
  cases h
  exact ⟨c', e2, e3⟩

/-- `remove` cut before its first write: nothing happened. -/
theorem crash_remove_0 {l : List Group} {g : Group} {c : Chain} (r : Rep (l ++ [g]) c) (hl : l ≠ [])
    (gen : List Group) :
    ∃ d m c', (removeB c c.last 0).2 = .crashed d m ∧ restart d m gen = some (.alive c') ∧ Rep (l ++ [g]) c' := by
  have hlast : c.last = g := by
    have := r.last; simp at this; exact this.symm
  obtain ⟨p, hp⟩ := exists_getLast? hl
  have hpm : p ∈ l := List.mem_of_getLast? hp
  have hlk := (Linked_snoc [] l g).mp r.linked
  have hgpre : g.pre = p.id := by rw [hlk.2, lastId_of_getLast? [] l p hp]
  have hpget : getGroupById c.disk g.pre = some p := by
    rw [hgpre]; exact r.byId (List.mem_append_left _ hpm)
  obtain ⟨c', h1, _, _, _, h5⟩ := rep_restart r c.mirror gen
  exact ⟨c.disk, c.mirror, c', by simp [removeB, hlast, hpget, removeWrites, applyPrefix, applyWrites], h1, h5⟩

/-! ### crash points during the first start-up -/

/-- A store that holds nothing, or only (a previous attempt's) JSON of the first genesis group. -/
def FreshFor (g0 : Group) (d : Store) : Prop := ∀ k, k ≠ g0.id → sget d k = none

/-- Start-up on such a store takes the genesis branch and ends representing the genesis list. -/
theorem rep_init_fresh {g0 : Group} {rest : List Group} (ok : GenesisOK (g0 :: rest)) (d : Store)
    (m : List Bytes) (hd : FreshFor g0 d) :
    ∃ c, restart d m (g0 :: rest) = some (.alive c) ∧ Rep (stampFrom 0 (g0 :: rest)) c := by
  have hid : IdOK g0.id := ok.idok g0 (by simp)
  have hcur : sget d curKey = none := hd curKey (fun e => hid.ne_curKey e.symm)
  refine ⟨(g0 :: rest).foldl save { disk := d, count := 0, last := g0, mirror := m }, by simp [restart, hcur], ?_⟩
  have r0 := rep_save_first' d m g0 g0 hid ok.linked.1 hd
  have hb := ok.bound
  have := rep_foldl_save rest [stamped 0 g0] _ r0 ok.linked.2
    (fun x hx => ok.idok x (by simp [hx]))
    (by simpa [stamped] using ok.nodup)
    (by simp at hb ⊢; omega)
  simpa [stampFrom] using this

/-- A first start-up cut after at most one write leaves such a store again. -/
theorem firstBoot_le1 {g0 : Group} {rest : List Group} (ok : GenesisOK (g0 :: rest)) (d : Store)
    (m : List Bytes) (hd : FreshFor g0 d) (k : Nat) (hk : k ≤ 1) :
    ∃ d', firstBootB d m (g0 :: rest) k = some (.crashed d' m) ∧ FreshFor g0 d' := by
  have hid : IdOK g0.id := ok.idok g0 (by simp)
  have hcur : sget d curKey = none := hd curKey (fun e => hid.ne_curKey e.symm)
  have hk' : k = 0 ∨ k = 1 := by omega
  rcases hk' with rfl | rfl
  · exact ⟨d, by simp [firstBootB, hcur, saveAllB, saveB, saveGroups, applyWrites], hd⟩
  · refine ⟨sput d g0.id (.grp (stamped 0 g0)),
      by simp [firstBootB, hcur, saveAllB, saveB, saveGroups, saveWrites, applyWrites, applyWrite], ?_⟩
    intro k hk
    rw [sget_sput]; simp [hk, hd k hk]

/-- The genesis loop cut anywhere after at least one completed genesis save: start-up (which then
    takes the non-genesis branch) comes back representing the genesis groups saved so far. -/
theorem saveAllB_crash (gen : List Group) : ∀ (gs : List Group) (l : List Group) (c : Chain), Rep l c →
    Linked c.last.id gs → (∀ g ∈ gs, IdOK g.id) → (l.map (·.id) ++ gs.map (·.id)).Nodup →
    l.length + gs.length < lenBound → ∀ (k : Nat) (d : Store) (m : List Bytes),
    saveAllB gs c k = .crashed d m → ∃ c' l', restart d m gen = some (.alive c') ∧ Rep l' c' := by
  intro gs
  induction gs with
  | nil => intro l c _ _ _ _ _ k d m h; simp [saveAllB] at h
  | cons g t ih =>
    intro l c r hlk hid hnd hb k d m h
    have hfresh : ∀ x ∈ l, x.id ≠ g.id := by
      intro x hx e
      rw [List.nodup_append] at hnd
      exact hnd.2.2 x.id (List.mem_map.mpr ⟨x, hx, rfl⟩) g.id (by simp) e
    unfold saveAllB at h
    by_cases hk : k < 2
    · obtain ⟨d', c', e1, e2, e3⟩ := crash_save_fresh r g gen (hid g (by simp)) hfresh k hk
      rw [e1] at h
      simp at h
      obtain ⟨rfl, rfl⟩ := h
      exact ⟨c', l, e2, e3⟩
    · rw [saveB_done c g k (by omega)] at h
      simp only at h
      have r1 := rep_save r g (by simp at hb; omega) (hid g (by simp)) hfresh hlk.1
      exact ih (l ++ [stamped l.length g]) (save c g) r1 (by exact hlk.2)
        (fun x hx => hid x (by simp [hx]))
        (by simpa [stamped, List.append_assoc] using hnd)
        (by simp at hb ⊢; omega) (k - 2) d m h

/-- EVERY crash point of the very first start-up (any number of genesis groups). -/
theorem first_boot_crash_all {g0 : Group} {rest : List Group} (ok : GenesisOK (g0 :: rest))
    (k : Nat) (d : Store) (m : List Bytes)
    (h : firstBootB [] [] (g0 :: rest) k = some (.crashed d m)) :
    ∃ c l, restart d m (g0 :: rest) = some (.alive c) ∧ Rep l c := by
  by_cases hk : k < 2
  · obtain ⟨d', e1, f1⟩ := firstBoot_le1 ok [] [] (fun _ _ => rfl) k (by omega)
    rw [e1] at h
    simp at h
    obtain ⟨rfl, rfl⟩ := h
    obtain ⟨c, e3, r⟩ := rep_init_fresh ok d' [] f1
    exact ⟨c, _, e3, r⟩
  · have hid : IdOK g0.id := ok.idok g0 (by simp)
    simp only [firstBootB, sget, saveAllB] at h
    rw [saveB_done _ g0 k (by omega)] at h
    simp only [Option.some.injEq] at h
    have r0 := rep_save_first [] g0 g0 hid ok.linked.1
    have hb := ok.bound
    exact saveAllB_crash (g0 :: rest) rest [stamped 0 g0] _ r0 ok.linked.2
      (fun x hx => ok.idok x (by simp [hx]))
      (by simpa [stamped] using ok.nodup)
      (by simp at hb ⊢; omega) (k - 2) d m h

end Rangers.Model.GroupChain
