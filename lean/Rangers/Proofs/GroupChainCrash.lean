import Rangers.Proofs.GroupChainRun
/-! Crash points of `save` / `remove`: which prefixes of the physical writes are harmless. -/
namespace Rangers.Model.GroupChain
open Rangers

/-- An extra entry under a proper id that no listed group uses does not disturb `Rep`. -/
theorem Rep.orphan {l : List Group} {c : Chain} (r : Rep l c) (id : Bytes) (v : Val)
    (hid : IdOK id) (hfresh : ∀ x ∈ l, x.id ≠ id) :
    Rep l { c with disk := sput c.disk id v } := by
  have hget : ∀ k, k ≠ id → sget (sput c.disk id v) k = sget c.disk k := by
    intro k hk; rw [sget_sput]; simp [hk]
  constructor
  · exact r.ne
  · exact r.count
  · exact r.bound
  · intro i x hx
    show sget (sput c.disk id v) (hkey i) = _
    rw [hget _ (fun e => hid.ne_hkey i e.symm)]; exact r.slot i x hx
  · intro x hx
    show sget (sput c.disk id v) x.id = _
    rw [hget _ (hfresh x hx)]; exact r.stored x hx
  · exact r.height
  · exact r.idok
  · intro i h1 h2 h3
    show sget (sput c.disk id v) (hkey i) = _
    rw [hget _ (fun e => hid.ne_hkey i e.symm)]; exact r.above i h1 h2 h3
  · exact r.linked
  · exact r.nodup
  · exact r.last
  · show sget (sput c.disk id v) curKey = _
    rw [hget _ (fun e => hid.ne_curKey e.symm)]; exact r.cur
  · show sget (sput c.disk id v) cntKey = _
    rw [hget _ (fun e => hid.ne_cntKey e.symm)]; exact r.cnt
  · show sget (sput c.disk id v) [] = _
    rw [hget _ (fun e => hid.1 e.symm)]; exact r.empty

/-- `save` cut after at most its first write (nothing, or only `Put(id, json)`): start-up
    comes back on the old list (the new group is an unreferenced entry). -/
theorem crash_save_le1 {l : List Group} {c : Chain} (r : Rep l c) (g : Group) (gen : List Group)
    (hid : IdOK g.id) (hok : addCheck c g = .ok) (k : Nat) (hk : k ≤ 1) :
    ∃ d m c', saveB c g k = .crashed d m ∧ restart d m gen = some (.alive c') ∧ Rep l c' := by
  have hfresh : ∀ x ∈ l, x.id ≠ g.id := by
    intro x hx e
    have h1 := (addCheck_ok hok).1
    have := r.stored x hx
    rw [e] at this
    simp [shas, this] at h1
  have hk' : k = 0 ∨ k = 1 := by omega
  rcases hk' with rfl | rfl
  · obtain ⟨c', h1, _, _, _, h5⟩ := rep_restart r c.mirror gen
    exact ⟨c.disk, c.mirror, c', by simp [saveB, saveWrites, applyPrefix, applyWrites], h1, h5⟩
  · have r1 := r.orphan g.id (.grp (stamped c.count g)) hid hfresh
    obtain ⟨c', h1, _, _, _, h5⟩ := rep_restart r1 c.mirror gen
    exact ⟨sput c.disk g.id (.grp (stamped c.count g)), c.mirror, c',
      by simp [saveB, saveWrites, applyPrefix, applyWrites, applyWrite], h1, h5⟩

/-- An operation whose budget covers all four writes is not cut. -/
theorem saveB_done (c : Chain) (g : Group) (k : Nat) (hk : 4 ≤ k) : saveB c g k = .done (save c g) (k - 4) := by
  have : ¬ k < 4 := by omega
  simp [saveB, saveWrites, this]

/-- `remove` cut before its first write: nothing happened. -/
theorem crash_remove_0 {l : List Group} {g : Group} {c : Chain} (r : Rep (l ++ [g]) c) (hl : l ≠ [])
    (gen : List Group) :
    ∃ d m c', (removeB c c.last 0).2 = .crashed d m ∧ restart d m gen = some (.alive c') ∧ Rep (l ++ [g]) c' := by
  have hlast : c.last = g := by
    have := r.last; simp at this; exact this.symm
  obtain ⟨p, hp⟩ := exists_getLast? hl
  have hpm : p ∈ l := List.mem_of_getLast? hp
  have hlk := (Linked_snoc [] l g).mp r.linked
  have hgpre : g.pre = p.id := by rw [hlk.2, lastId_of_getLast? [] l p hp]
  have hpget : getGroupById c.disk g.pre = some p := by
    rw [hgpre]; exact r.byId (List.mem_append_left _ hpm)
  obtain ⟨c', h1, _, _, _, h5⟩ := rep_restart r c.mirror gen
  exact ⟨c.disk, c.mirror, c', by simp [removeB, hlast, hpget, removeWrites, applyPrefix, applyWrites], h1, h5⟩

/-! ### crash points during the first start-up -/

/-- A store that holds nothing, or only (a previous attempt's) JSON of the first genesis group. -/
def FreshFor (g0 : Group) (d : Store) : Prop := ∀ k, k ≠ g0.id → sget d k = none

/-- Start-up on such a store takes the genesis branch and ends representing the genesis list. -/
theorem rep_init_fresh {g0 : Group} {rest : List Group} (ok : GenesisOK (g0 :: rest)) (d : Store)
    (m : List Bytes) (hd : FreshFor g0 d) :
    ∃ c, restart d m (g0 :: rest) = some (.alive c) ∧ Rep (stampFrom 0 (g0 :: rest)) c := by
  have hid : IdOK g0.id := ok.idok g0 (by simp)
  have hcur : sget d curKey = none := hd curKey (fun e => hid.ne_curKey e.symm)
  refine ⟨(g0 :: rest).foldl save { disk := d, count := 0, last := g0, mirror := m }, by simp [restart, hcur], ?_⟩
  have r0 := rep_save_first' d m g0 g0 hid ok.linked.1 hd
  have hb := ok.bound
  have := rep_foldl_save rest [stamped 0 g0] _ r0 ok.linked.2
    (fun x hx => ok.idok x (by simp [hx]))
    (by simpa [stamped] using ok.nodup)
    (by simp at hb ⊢; omega)
  simpa [stampFrom] using this

/-- A first start-up cut after at most one write leaves such a store again. -/
theorem firstBoot_le1 {g0 : Group} {rest : List Group} (ok : GenesisOK (g0 :: rest)) (d : Store)
    (m : List Bytes) (hd : FreshFor g0 d) (k : Nat) (hk : k ≤ 1) :
    ∃ d', firstBootB d m (g0 :: rest) k = some (.crashed d' m) ∧ FreshFor g0 d' := by
  have hid : IdOK g0.id := ok.idok g0 (by simp)
  have hcur : sget d curKey = none := hd curKey (fun e => hid.ne_curKey e.symm)
  have hk' : k = 0 ∨ k = 1 := by omega
  rcases hk' with rfl | rfl
  · exact ⟨d, by simp [firstBootB, hcur, saveAllB, saveB, saveWrites, applyPrefix, applyWrites], hd⟩
  · refine ⟨sput d g0.id (.grp (stamped 0 g0)),
      by simp [firstBootB, hcur, saveAllB, saveB, saveWrites, applyPrefix, applyWrites, applyWrite], ?_⟩
    intro k hk
    rw [sget_sput]; simp [hk, hd k hk]

end Rangers.Model.GroupChain
