import Rangers.Proofs.LedgerExec
set_option linter.unusedSimpArgs false
/-! Transaction-level lemmas (C06). -/
namespace Rangers.Ledger

/-- debit of at most the balance, then credit of the same amount elsewhere: the sum is unchanged -/
theorem total_move (b : Bal) (src dst : Addr) (n : Nat) (h : n ≤ get b src) :
    total (addBal (subBal b src (n : Int)).1 dst (n : Int)) = total b := by
  rw [total_addBal]
  have := (subBal_ok_of_le b src n h).2.1
  omega

theorem processFeeWith_total (fee : Nat) (b b' : Bal) (src : Addr) (h : processFeeWith fee b src = some b') :
    total b' = total b := by
  unfold processFeeWith at h
  by_cases c : get b src < fee
  · simp [c] at h
  · simp only [c, if_false, Option.some.injEq] at h
    subst h
    exact total_move b src feeAccount fee (by omega)

theorem processFee_total (b b' : Bal) (src : Addr) (h : processFee b src = some b') : total b' = total b :=
  processFeeWith_total txFee b b' src h

theorem transferBalance_total (b b' : Bal) (src tgt : Addr) (a : Amount)
    (h : transferBalance b src tgt a = some b') : total b' = total b := by
  unfold transferBalance at h
  cases a with
  | err => simp at h
  | val v =>
    try simp only at h
    by_cases hn : v < 0
    · simp [hn] at h
    · simp only [hn, if_false] at h
      by_cases hb : ((get b src : Nat) : Int) < v
      · simp [hb] at h
      · simp only [hb, if_false, Option.some.injEq] at h
        subst h
        obtain ⟨n, rfl⟩ := Int.eq_ofNat_of_zero_le (Int.not_lt.mp hn)
        have hle : n ≤ get b src := by omega
        -- credit first, then debit: the debit succeeds because the credit cannot lower the source slot
        have hge : n ≤ get (addBal b tgt (n : Int)) src := by
          by_cases e : src = tgt
          · subst e; rw [get_addBal_same]; omega
          · rw [get_addBal_other _ _ _ _ e]; exact hle
        have h1 := (subBal_ok_of_le (addBal b tgt (n : Int)) src n hge).2.1
        have h2 := total_addBal b tgt n
        omega

theorem changeAssets_total (src : Addr) : ∀ (ts : List (Addr × Amount)) (b b' : Bal),
    changeAssets b src ts = some b' → total b' = total b := by
  intro ts
  induction ts with
  | nil => intro b b' h; simp [changeAssets] at h; subst h; rfl
  | cons p rest ih =>
    intro b b' h
    obtain ⟨t, a⟩ := p
    simp only [changeAssets] at h
    cases hb : transferBalance b src t a with
    | none => simp [hb] at h
    | some b1 =>
      simp only [hb] at h
      rw [ih b1 b' h, transferBalance_total b b1 src t a hb]

theorem chargeGas_total (b : Bal) (src : Addr) (g : Nat) : total (chargeGas b src g) = total b := by
  unfold chargeGas
  try simp only
  split
  · exact total_move b src feeAccount (get b src) (Nat.le_refl _)
  · rename_i h; exact total_move b src feeAccount (gasCost g) (by omega)

theorem deductGasFee_total (b : Bal) (src : Addr) (g : Nat) : total (deductGasFee b src g) = total b :=
  chargeGas_total b src g

theorem refundMove_total : ∀ (l : List (Addr × Nat)) (b : Bal),
    total (refundMove b l) = total b + (l.map (·.2)).sum := by
  intro l
  induction l with
  | nil => intro b; simp [refundMove]
  | cons p r ih =>
    intro b
    obtain ⟨a, v⟩ := p
    simp only [refundMove, List.map_cons, List.sum_cons]
    rw [ih, total_addBal]; omega

/-! ### top-level EVM entry points -/

theorem evmCallTop_mass (code : Code) (fuel : Nat) (origin addr : Addr) (v : Int) (s : St) :
    mass (evmCallTop code true fuel origin addr v s).1 = mass s := by
  unfold evmCallTop
  simp only [revertToJ_true]
  split
  · rfl
  · rename_i hg
    have hs : mass { s with bal := vmTransfer s.bal origin addr v } = mass s := by
      by_cases hn : v < 0
      · exfalso
        have : canTransfer s.bal origin v = false := canTransfer_neg _ _ _ hn
        have hv : (v != 0) = true := by
          have : v ≠ 0 := by omega
          simp [this]
        simp [this, hv] at hg
      · obtain ⟨n, rfl⟩ := Int.eq_ofNat_of_zero_le (Int.not_lt.mp hn)
        apply mass_transfer
        by_cases z : n = 0
        · subst z; simp
        · have hz : ((n : Int) != 0) = true := by
            have : (n : Int) ≠ 0 := by omega
            simpa using this
          rw [hz] at hg
          have hz' : (n != 0) = true := by simpa using z
          rw [hz']
          simpa using hg
    try simp only
    split
    · rw [exec_mass, hs]
    · simp only; rw [mass_revertTo]

theorem evmCreateTop_mass (code : Code) (fuel : Nat) (origin : Addr) (v : Int) (init : Script) (s : St) :
    mass (evmCreateTop code true fuel origin v init s).1 = mass s := by
  unfold evmCreateTop
  simp only [revertToJ_true]
  split
  · rfl
  · rename_i hg
    have hs : mass { ({ s with fresh := s.fresh + 1 } : St) with
        bal := vmTransfer s.bal origin (freshAddr s.fresh) v } = mass s := by
      by_cases hn : v < 0
      · exfalso
        have : canTransfer s.bal origin v = false := canTransfer_neg _ _ _ hn
        simp [this] at hg
      · obtain ⟨n, rfl⟩ := Int.eq_ofNat_of_zero_le (Int.not_lt.mp hn)
        exact mass_transfer' { s with fresh := s.fresh + 1 } origin (freshAddr s.fresh) n (by simpa using hg)
    try simp only
    split
    · rw [exec_mass]; exact hs
    · simp only; rw [mass_revertTo]; rfl

theorem contractExecute_mass (fl : Flags) (hj : fl.p002 = true) (code : Code) (fuel : Nat) (t : ContractTx) (raw : Nat)
    (v : Int) (s : St) : mass (contractExecute fl code fuel t raw v s).1 = mass s := by
  unfold contractExecute
  rw [hj]
  try simp only
  split
  · rfl
  · have key : ∀ r : St × Bool, mass r.1 = mass s →
        mass ({ r.1 with bal := chargeGas r.1.bal t.src t.gasUsed } : St) = mass s := by
      intro r hr
      unfold mass at hr ⊢
      simp only
      rw [chargeGas_total]; exact hr
    cases ht : t.target with
    | none =>
      try simp only
      split
      · exact evmCreateTop_mass code fuel t.src v t.init s
      · exact key _ (evmCreateTop_mass code fuel t.src v t.init s)
    | some a =>
      try simp only
      split
      · exact evmCallTop_mass code fuel t.src a v s
      · exact key _ (evmCallTop_mass code fuel t.src a v s)

/-! ### BeforeExecute of the contract executors -/

/-- the balances `BeforeExecute` leaves behind, whichever way it ends -/
def beforeBal : (Status × Bal) ⊕ (Bal × Nat × Int) → Bal
  | .inl (_, b) => b
  | .inr (b, _, _) => b

theorem contractBefore_total (fl : Flags) (b : Bal) (t : ContractTx) :
    total (beforeBal (contractBefore fl b t)) = total b := by
  unfold contractBefore
  try simp only
  split
  · rfl
  · cases hf : processFeeWith (txFeeOf fl) b t.src with
    | none => rfl
    | some b1 =>
      have h1 := processFeeWith_total _ b b1 t.src hf
      try simp only
      split
      · exact h1
      · cases parseGasLimit fl t.gasLimit with
        | none => exact h1
        | some raw =>
          try simp only
          cases strToBigInt t.value with
          | err => exact h1
          | val v =>
            try simp only
            split
            · exact h1
            · exact h1

theorem execTx_mass_operator (fuel : Nat) (w : World) (hj : w.fl.p002 = true) (src : Addr) (dataOk : Bool)
    (targets : List (Addr × Amount)) :
    mass (execTx fuel w (.operator src dataOk targets)).1.st = mass w.st := by
  simp only [execTx]
  cases hf : processFeeWith (txFeeOf w.fl) w.st.bal src with
  | none => rfl
  | some b1 =>
    have h1 := processFeeWith_total _ _ _ _ hf
    try simp only
    split
    · unfold mass; simp only; rw [h1]
    · cases hc : changeAssets b1 src targets with
      | none => (try rw [hj]); unfold mass; simp only [if_true]; rw [h1]
      | some b2 =>
        have h2 := changeAssets_total src targets b1 b2 hc
        unfold mass; simp only; rw [h2, h1]

theorem execTx_mass_contract (fuel : Nat) (w : World) (hj : w.fl.p002 = true) (t : ContractTx) :
    mass (execTx fuel w (.contract t)).1.st = mass w.st := by
  simp only [execTx]
  have hb := contractBefore_total w.fl w.st.bal t
  cases hcb : contractBefore w.fl w.st.bal t with
  | inl p =>
    obtain ⟨status, b⟩ := p
    rw [hcb] at hb
    simp only [beforeBal] at hb
    try simp only
    unfold mass; simp only; rw [hb]
  | inr p =>
    obtain ⟨b1, raw, v⟩ := p
    rw [hcb] at hb
    simp only [beforeBal] at hb
    try simp only
    have hx := contractExecute_mass w.fl hj w.code fuel t raw v { w.st with bal := b1 }
    have hs1 : mass ({ w.st with bal := b1 } : St) = mass w.st := by unfold mass; simp only; rw [hb]
    split
    · simp only; rw [hx, hs1]
    · rw [hj]
      simp only [revertToJ_true]
      split
      · split
        · unfold mass; simp only [revertTo]; rw [deductGasFee_total, hb]
        · unfold mass; simp only [revertTo]; rw [hb]
      · unfold mass; simp only [revertTo]; rw [hb]

/-! ### miner transactions -/

theorem mass_setBal (s : St) (b : Bal) (h : total b = total s.bal) : mass ({ s with bal := b } : St) = mass s := by
  unfold mass; simp only; rw [h]

theorem mass_minerApply (s s2 : St) (src : Addr) (id typ stake : Nat) (account : Addr) (keysOk : Bool)
    (h : minerApply s src id typ stake account keysOk = some s2) : mass s2 = mass s := by
  unfold minerApply at h
  split at h
  · cases h
  · split at h
    · cases h
    · split at h
      · cases h
      · split at h
        · cases h
        · rename_i hbal
          split at h
          · cases h
          · rename_i hex
            split at h
            · cases h
            · simp only [Option.some.injEq] at h
              subst h
              have hn : regGet s.reg id = none := by
                cases hr : regGet s.reg id with
                | none => rfl
                | some m => simp [hr] at hex
              have h1 := (subBal_ok_of_le s.bal src (toWei stake) (by omega)).2.1
              have h2 := stakeSum_regSet_new s.reg
                { id := id, account := account, stake := stake, typ := typ, visible := false } hn
              try simp only at h2
              unfold mass
              try simp only
              omega

theorem mass_minerAdd (s s2 : St) (src : Addr) (id delta : Nat) (h : minerAdd s src id delta = some s2) :
    mass s2 = mass s := by
  unfold minerAdd at h
  split at h
  · simp only [Option.some.injEq] at h; subst h; rfl
  · split at h
    · cases h
    · rename_i hbal
      cases hg : regGet s.reg id with
      | none => simp [hg] at h
      | some m =>
        simp only [hg, Option.some.injEq] at h
        subst h
        have hid := regGet_id s.reg id m hg
        exact mass_stake_update s src m delta (by rw [hid]; exact hg) (by omega)

theorem mass_minerRefund (code : Code) (s s2 : St) (src : Addr) (id : Nat) (amount : Option Nat) (signed : Bool)
    (pend : Escrow) (h : minerRefund code s src id amount signed = some (s2, pend)) :
    mass s2 + (escrowTotal pend : Int) = mass s := by
  unfold minerRefund at h
  split at h
  · simp only [Option.some.injEq, Prod.mk.injEq] at h
    obtain ⟨h1, h2⟩ := h
    subst h1 h2
    simp [escrowTotal]
  · cases amount with
    | none => simp at h
    | some a =>
      try simp only at h
      cases hg : getRefundStake s.reg (hasCodeIn code) id src a with
      | none => simp [hg] at h
      | some p =>
        obtain ⟨r', refund, acct⟩ := p
        simp only [hg, Option.some.injEq, Prod.mk.injEq] at h
        obtain ⟨h1, h2⟩ := h
        subst h1 h2
        have h3 := getRefundStake_sum _ _ _ _ _ _ _ _ hg
        rw [escrowTotal_single]
        unfold mass
        try simp only
        omega

theorem mass_node_update (s : St) (src newAcct : Addr) (m' : MinerRec) (nf : Nat)
    (hg : regGet s.reg m'.id = some m') (hle : nf ≤ get s.bal src) :
    mass ({ s with bal := (subBal s.bal src nf).1, reg := regSet s.reg { m' with account := newAcct } } : St)
      + (nf : Int) = mass s := by
  have h1 := (subBal_ok_of_le s.bal src nf hle).2.1
  have h2 := stakeSum_regSet s.reg m' { m' with account := newAcct } hg
  try simp only at h2
  unfold mass
  try simp only
  omega

theorem mass_nodeTxWith (fee : Nat) (s s2 : St) (src newAcct : Addr) (mainOk : Bool)
    (h : nodeTxWith fee s src newAcct mainOk = some s2) : mass s2 + (fee : Int) = mass s := by
  unfold nodeTxWith at h
  split at h
  · cases h
  · rename_i hbal
    cases hb : byAccount s.reg src with
    | none => simp [hb] at h
    | some m =>
      simp only [hb] at h
      cases hg : regGet s.reg m.id with
      | none => simp [hg] at h
      | some m' =>
        simp only [hg] at h
        split at h
        · cases h
        · simp only [Option.some.injEq] at h
          subst h
          have hid := regGet_id s.reg m.id m' hg
          exact mass_node_update s src newAcct m' fee (by rw [hid]; exact hg) (Nat.le_of_not_lt hbal)

theorem mass_nodeTx (s s2 : St) (src newAcct : Addr) (mainOk : Bool) (h : nodeTx s src newAcct mainOk = some s2) :
    mass s2 + (nodeFee : Int) = mass s := mass_nodeTxWith nodeFee s s2 src newAcct mainOk h

theorem burned_minerApply (s s2 : St) (src : Addr) (id typ stake : Nat) (account : Addr) (keysOk : Bool)
    (h : minerApply s src id typ stake account keysOk = some s2) : s2.burned = s.burned := by
  unfold minerApply at h
  repeat' split at h
  all_goals first | (simp only [Option.some.injEq] at h; subst h; rfl) | cases h

theorem burned_minerAdd (s s2 : St) (src : Addr) (id delta : Nat) (h : minerAdd s src id delta = some s2) :
    s2.burned = s.burned := by
  unfold minerAdd at h
  split at h
  · simp only [Option.some.injEq] at h; subst h; rfl
  · split at h
    · cases h
    · cases hg : regGet s.reg id with
      | none => simp [hg] at h
      | some m => simp only [hg, Option.some.injEq] at h; subst h; rfl

theorem burned_minerRefund (code : Code) (s s2 : St) (src : Addr) (id : Nat) (amount : Option Nat) (signed : Bool)
    (pend : Escrow) (h : minerRefund code s src id amount signed = some (s2, pend)) : s2.burned = s.burned := by
  unfold minerRefund at h
  split at h
  · simp only [Option.some.injEq, Prod.mk.injEq] at h; obtain ⟨h1, _⟩ := h; subst h1; rfl
  · cases amount with
    | none => simp at h
    | some a =>
      try simp only at h
      cases hg : getRefundStake s.reg (hasCodeIn code) id src a with
      | none => simp [hg] at h
      | some p =>
        obtain ⟨r', refund, acct⟩ := p
        simp only [hg, Option.some.injEq, Prod.mk.injEq] at h
        obtain ⟨h1, _⟩ := h
        subst h1; rfl

theorem burned_nodeTx (s s2 : St) (src newAcct : Addr) (mainOk : Bool) (h : nodeTx s src newAcct mainOk = some s2) :
    s2.burned = s.burned := by
  unfold nodeTx nodeTxWith at h
  generalize nodeFee = nf at h
  split at h
  · cases h
  · cases hb : byAccount s.reg src with
    | none => simp [hb] at h
    | some m =>
      simp only [hb] at h
      cases hg : regGet s.reg m.id with
      | none => simp [hg] at h
      | some m' =>
        simp only [hg] at h
        split at h
        · cases h
        · simp only [Option.some.injEq] at h; subst h; rfl

theorem minerChange_spec (s s2 : St) (src : Addr) (id : Nat) (newAcct : Addr) (h : minerChange s src id newAcct = some s2) :
    mass s2 = mass s ∧ s2.burned = s.burned ∧ s2.bal = s.bal := by
  unfold minerChange at h
  cases hg : regGet s.reg id with
  | none => simp [hg] at h
  | some m =>
    simp only [hg] at h
    split at h
    · cases h
    · split at h
      · cases h
      · split at h
        · cases h
        · simp only [Option.some.injEq] at h
          subst h
          have hid := regGet_id s.reg id m hg
          have h2 := stakeSum_regSet s.reg m { m with account := newAcct } (by simpa [hid] using hg)
          simp only at h2
          refine ⟨?_, rfl, rfl⟩
          unfold mass
          simp only
          omega

/-- value debited by an OperatorNode transaction and credited to nobody -/
def nodeFeeBy : Tx → Status → Nat
  | .node _ _ _, .success => nodeFee
  | _, _ => 0

/-- conserved quantity of a block in progress: `mass` of the state plus the refunds waiting in the executor context -/
def wmass (w : World) : Int := mass w.st + (escrowTotal w.ctx.pending : Int)

theorem execTx_pending_operator (fuel : Nat) (w : World) (src : Addr) (dataOk : Bool) (targets : List (Addr × Amount)) :
    (execTx fuel w (.operator src dataOk targets)).1.ctx = w.ctx := by
  simp only [execTx]
  cases processFeeWith (txFeeOf w.fl) w.st.bal src with
  | none => rfl
  | some b1 =>
    try simp only
    split
    · rfl
    · cases changeAssets b1 src targets <;> rfl

theorem execTx_pending_contract (fuel : Nat) (w : World) (t : ContractTx) :
    (execTx fuel w (.contract t)).1.ctx.pending = w.ctx.pending := by
  simp only [execTx]
  cases hcb : contractBefore w.fl w.st.bal t with
  | inl p => obtain ⟨status, b⟩ := p; rfl
  | inr p =>
    obtain ⟨b1, raw, v⟩ := p
    try simp only
    cases (contractExecute w.fl w.code fuel t raw v { w.st with bal := b1 }).2.2 <;> (simp only; split <;> rfl)

/-- One iteration of the transaction loop: balances + burned + stake + escrow (+ pending refunds) − excess is
    invariant, except for the 10 RPG of a successful OperatorNode transaction. -/
theorem execTx_mass (fuel : Nat) (w : World) (hj : w.fl.p002 = true) (tx : Tx) :
    wmass (execTx fuel w tx).1 + (nodeFeeBy tx (execTx fuel w tx).2 : Int) = wmass w := by
  cases tx with
  | operator src dataOk targets =>
    have h1 := execTx_mass_operator fuel w hj src dataOk targets
    have h2 := execTx_pending_operator fuel w src dataOk targets
    unfold wmass
    simp only [nodeFeeBy]
    rw [h1, h2]; simp
  | contract t =>
    have h1 := execTx_mass_contract fuel w hj t
    have h2 := execTx_pending_contract fuel w t
    unfold wmass
    simp only [nodeFeeBy]
    rw [h1, h2]; simp
  | apply src id typ stake account keysOk =>
    simp only [execTx]
    cases hf : processFeeWith (txFeeOf w.fl) w.st.bal src with
    | none => simp [nodeFeeBy]
    | some b1 =>
      have hb := mass_setBal w.st b1 (processFeeWith_total _ _ _ _ hf)
      try simp only
      cases hm : minerApply { w.st with bal := b1 } src id typ stake account keysOk with
      | none => simp only [nodeFeeBy, wmass]; rw [hb]; simp
      | some s2 =>
        have := mass_minerApply _ _ _ _ _ _ _ _ hm
        simp only [nodeFeeBy, wmass]; rw [this, hb]; simp
  | addStake src id delta =>
    simp only [execTx]
    cases hf : processFeeWith (txFeeOf w.fl) w.st.bal src with
    | none => simp [nodeFeeBy]
    | some b1 =>
      have hb := mass_setBal w.st b1 (processFeeWith_total _ _ _ _ hf)
      try simp only
      cases hm : minerAdd { w.st with bal := b1 } src id delta with
      | none => simp only [nodeFeeBy, wmass]; rw [hb]; simp
      | some s2 =>
        have := mass_minerAdd _ _ _ _ _ hm
        simp only [nodeFeeBy, wmass]; rw [this, hb]; simp
  | refund src id amount signed =>
    simp only [execTx]
    cases hf : processFeeWith (txFeeOf w.fl) w.st.bal src with
    | none => simp [nodeFeeBy]
    | some b1 =>
      have hb := mass_setBal w.st b1 (processFeeWith_total _ _ _ _ hf)
      try simp only
      cases hm : minerRefund w.code { w.st with bal := b1 } src id amount signed with
      | none => simp only [nodeFeeBy, wmass]; rw [hb]; simp
      | some p =>
        obtain ⟨s2, pend⟩ := p
        have := mass_minerRefund _ _ _ _ _ _ _ _ hm
        rw [hb] at this
        simp only [nodeFeeBy, wmass]
        rw [escrowTotal_append]
        omega
  | node src newAcct mainOk =>
    simp only [execTx]
    cases hf : processFeeWith (txFeeOf w.fl) w.st.bal src with
    | none => simp [nodeFeeBy]
    | some b1 =>
      have hb := mass_setBal w.st b1 (processFeeWith_total _ _ _ _ hf)
      try simp only
      cases hm : nodeTx { w.st with bal := b1 } src newAcct mainOk with
      | none => simp only [nodeFeeBy, wmass, hj, Bool.true_or, if_true]; rw [hb]; simp
      | some s2 =>
        have := mass_nodeTx _ _ _ _ _ hm
        rw [hb] at this
        simp only [nodeFeeBy, wmass]
        omega
  | changeAccount src id newAcct =>
    simp only [execTx]
    cases hf : processFeeWith (txFeeOf w.fl) w.st.bal src with
    | none => simp [nodeFeeBy]
    | some b1 =>
      have hb := mass_setBal w.st b1 (processFeeWith_total _ _ _ _ hf)
      try simp only
      cases hm : minerChange { w.st with bal := b1 } src id newAcct with
      | none => simp only [nodeFeeBy, wmass]; rw [hb]; simp
      | some s2 =>
        have := (minerChange_spec _ _ _ _ _ hm).1
        simp only [nodeFeeBy, wmass]; rw [this, hb]; simp

/-! ### a failed transaction touches only the payer and the fee account -/

theorem chargeGas_other (b : Bal) (src : Addr) (g : Nat) (a : Addr) (h1 : a ≠ src) (h2 : a ≠ feeAccount) :
    get (chargeGas b src g) a = get b a := by
  unfold chargeGas
  try simp only
  rw [get_addBal_other _ _ _ _ h2, get_subBal_other _ _ _ _ h1]

theorem processFee_other (fee : Nat) (b b' : Bal) (src : Addr) (a : Addr) (h : processFeeWith fee b src = some b')
    (h1 : a ≠ src) (h2 : a ≠ feeAccount) : get b' a = get b a := by
  unfold processFeeWith at h
  by_cases c : get b src < fee
  · simp [c] at h
  · simp only [c, if_false, Option.some.injEq] at h
    subst h
    rw [get_addBal_other _ _ _ _ h2, get_subBal_other _ _ _ _ h1]

theorem contractBefore_other (fl : Flags) (b : Bal) (t : ContractTx) (a : Addr) (h1 : a ≠ t.src) (h2 : a ≠ feeAccount) :
    get (beforeBal (contractBefore fl b t)) a = get b a := by
  unfold contractBefore
  try simp only
  split
  · rfl
  · cases hf : processFeeWith (txFeeOf fl) b t.src with
    | none => rfl
    | some b1 =>
      have k := processFee_other _ b b1 t.src a hf h1 h2
      try simp only
      split
      · exact k
      · cases parseGasLimit fl t.gasLimit with
        | none => exact k
        | some raw =>
          try simp only
          cases strToBigInt t.value with
          | err => exact k
          | val v =>
            try simp only
            split
            · exact k
            · exact k

theorem failed_contract_other (fuel : Nat) (w : World) (hj : w.fl.p002 = true) (t : ContractTx)
    (hf : (execTx fuel w (.contract t)).2 ≠ .success) (a : Addr) (h1 : a ≠ t.src) (h2 : a ≠ feeAccount) :
    get (execTx fuel w (.contract t)).1.st.bal a = get w.st.bal a := by
  simp only [execTx] at hf ⊢
  have hb := contractBefore_other w.fl w.st.bal t a h1 h2
  cases hcb : contractBefore w.fl w.st.bal t with
  | inl p =>
    obtain ⟨status, b⟩ := p
    rw [hcb] at hb
    simp only [beforeBal] at hb
    try simp only
    exact hb
  | inr p =>
    obtain ⟨b1, raw, v⟩ := p
    rw [hcb] at hb hf
    simp only [beforeBal] at hb
    try simp only at hf ⊢
    split
    · rename_i hs; simp [hs] at hf
    · rw [hj]
      simp only [revertToJ_true]
      split
      · split
        · simp only [revertTo, deductGasFee]; rw [chargeGas_other _ _ _ _ h1 h2]; exact hb
        · simp only [revertTo]; exact hb
      · simp only [revertTo]; exact hb

/-! ### the burn counter is monotone over a transaction -/

theorem evmCallTop_burned (code : Code) (fuel : Nat) (origin addr : Addr) (v : Int) (s : St) :
    s.burned ≤ (evmCallTop code true fuel origin addr v s).1.burned := by
  unfold evmCallTop
  simp only [revertToJ_true]
  split
  · exact Nat.le_refl _
  · try simp only
    split
    · exact exec_burned_mono code origin fuel addr false _ { s with bal := vmTransfer s.bal origin addr v }
    · exact Nat.le_refl _

theorem evmCreateTop_burned (code : Code) (fuel : Nat) (origin : Addr) (v : Int) (init : Script) (s : St) :
    s.burned ≤ (evmCreateTop code true fuel origin v init s).1.burned := by
  unfold evmCreateTop
  simp only [revertToJ_true]
  split
  · exact Nat.le_refl _
  · try simp only
    split
    · exact exec_burned_mono code origin fuel _ false init
        { ({ s with fresh := s.fresh + 1 } : St) with bal := vmTransfer s.bal origin (freshAddr s.fresh) v }
    · exact Nat.le_refl _

theorem contractExecute_burned (fl : Flags) (hj : fl.p002 = true) (code : Code) (fuel : Nat) (t : ContractTx) (raw : Nat) (v : Int) (s : St) :
    s.burned ≤ (contractExecute fl code fuel t raw v s).1.burned := by
  unfold contractExecute
  rw [hj]
  try simp only
  split
  · exact Nat.le_refl _
  · have key : ∀ r : St × Bool, s.burned ≤ r.1.burned →
        s.burned ≤ ({ r.1 with bal := chargeGas r.1.bal t.src t.gasUsed } : St).burned := by
      intro r hr
      try simp only
      exact hr
    cases ht : t.target with
    | none =>
      try simp only
      split
      · exact evmCreateTop_burned code fuel t.src v t.init s
      · exact key _ (evmCreateTop_burned code fuel t.src v t.init s)
    | some a =>
      try simp only
      split
      · exact evmCallTop_burned code fuel t.src a v s
      · exact key _ (evmCallTop_burned code fuel t.src a v s)

theorem execTx_burned (fuel : Nat) (w : World) (hj : w.fl.p002 = true) (tx : Tx) : w.st.burned ≤ (execTx fuel w tx).1.st.burned := by
  cases tx with
  | operator src dataOk targets =>
    simp only [execTx]
    cases processFeeWith (txFeeOf w.fl) w.st.bal src with
    | none => exact Nat.le_refl _
    | some b1 =>
      try simp only
      split
      · exact Nat.le_refl _
      · cases changeAssets b1 src targets <;> exact Nat.le_refl _
  | apply src id typ stake account keysOk =>
    simp only [execTx]
    cases processFeeWith (txFeeOf w.fl) w.st.bal src with
    | none => exact Nat.le_refl _
    | some b1 =>
      try simp only
      cases hm : minerApply { w.st with bal := b1 } src id typ stake account keysOk with
      | none => exact Nat.le_refl _
      | some s2 => simp only; rw [burned_minerApply _ _ _ _ _ _ _ _ hm]; exact Nat.le_refl _
  | addStake src id delta =>
    simp only [execTx]
    cases processFeeWith (txFeeOf w.fl) w.st.bal src with
    | none => exact Nat.le_refl _
    | some b1 =>
      try simp only
      cases hm : minerAdd { w.st with bal := b1 } src id delta with
      | none => exact Nat.le_refl _
      | some s2 => simp only; rw [burned_minerAdd _ _ _ _ _ hm]; exact Nat.le_refl _
  | refund src id amount signed =>
    simp only [execTx]
    cases processFeeWith (txFeeOf w.fl) w.st.bal src with
    | none => exact Nat.le_refl _
    | some b1 =>
      try simp only
      cases hm : minerRefund w.code { w.st with bal := b1 } src id amount signed with
      | none => exact Nat.le_refl _
      | some p =>
        obtain ⟨s2, pend⟩ := p
        simp only; rw [burned_minerRefund _ _ _ _ _ _ _ _ hm]; exact Nat.le_refl _
  | node src newAcct mainOk =>
    simp only [execTx]
    cases processFeeWith (txFeeOf w.fl) w.st.bal src with
    | none => exact Nat.le_refl _
    | some b1 =>
      try simp only
      cases hm : nodeTx { w.st with bal := b1 } src newAcct mainOk with
      | none => exact Nat.le_refl _
      | some s2 => simp only; rw [burned_nodeTx _ _ _ _ _ hm]; exact Nat.le_refl _
  | changeAccount src id newAcct =>
    simp only [execTx]
    cases processFeeWith (txFeeOf w.fl) w.st.bal src with
    | none => exact Nat.le_refl _
    | some b1 =>
      try simp only
      cases hm : minerChange { w.st with bal := b1 } src id newAcct with
      | none => exact Nat.le_refl _
      | some s2 => simp only; rw [(minerChange_spec _ _ _ _ _ hm).2.1]; exact Nat.le_refl _
  | contract t =>
    simp only [execTx]
    cases hcb : contractBefore w.fl w.st.bal t with
    | inl p => obtain ⟨status, b⟩ := p; exact Nat.le_refl _
    | inr p =>
      obtain ⟨b1, raw, v⟩ := p
      try simp only
      split
      · exact contractExecute_burned w.fl hj w.code fuel t raw v { w.st with bal := b1 }
      · rw [hj]; simp only [revertToJ_true, revertTo]; exact Nat.le_refl _

/-- the fork flags are not touched by a transaction -/
theorem execTx_fl (fuel : Nat) (w : World) (tx : Tx) : (execTx fuel w tx).1.fl = w.fl := by
  cases tx with
  | operator src dataOk targets =>
    simp only [execTx]
    cases processFeeWith (txFeeOf w.fl) w.st.bal src with
    | none => rfl
    | some b1 =>
      try simp only
      split
      · rfl
      · cases changeAssets b1 src targets <;> rfl
  | apply src id typ stake account keysOk =>
    simp only [execTx]
    cases processFeeWith (txFeeOf w.fl) w.st.bal src with
    | none => rfl
    | some b1 => try simp only; cases minerApply { w.st with bal := b1 } src id typ stake account keysOk <;> rfl
  | addStake src id delta =>
    simp only [execTx]
    cases processFeeWith (txFeeOf w.fl) w.st.bal src with
    | none => rfl
    | some b1 => try simp only; cases minerAdd { w.st with bal := b1 } src id delta <;> rfl
  | refund src id amount signed =>
    simp only [execTx]
    cases processFeeWith (txFeeOf w.fl) w.st.bal src with
    | none => rfl
    | some b1 =>
      try simp only
      cases minerRefund w.code { w.st with bal := b1 } src id amount signed with
      | none => rfl
      | some p => obtain ⟨s2, pend⟩ := p; rfl
  | node src newAcct mainOk =>
    simp only [execTx]
    cases processFeeWith (txFeeOf w.fl) w.st.bal src with
    | none => rfl
    | some b1 => try simp only; cases nodeTx { w.st with bal := b1 } src newAcct mainOk <;> rfl
  | changeAccount src id newAcct =>
    simp only [execTx]
    cases processFeeWith (txFeeOf w.fl) w.st.bal src with
    | none => rfl
    | some b1 => try simp only; cases minerChange { w.st with bal := b1 } src id newAcct <;> rfl
  | contract t =>
    simp only [execTx]
    cases hcb : contractBefore w.fl w.st.bal t with
    | inl p => obtain ⟨status, b⟩ := p; rfl
    | inr p =>
      obtain ⟨b1, raw, v⟩ := p
      try simp only
      split <;> rfl

theorem execTxs_burned (fuel : Nat) : ∀ (txs : List Tx) (w : World), w.fl.p002 = true →
    w.st.burned ≤ (execTxs fuel w txs).1.st.burned := by
  intro txs
  induction txs with
  | nil => intro w _; simp [execTxs]
  | cons t ts ih =>
    intro w hj
    simp only [execTxs]
    exact Nat.le_trans (execTx_burned fuel w hj t) (ih _ (by rw [execTx_fl]; exact hj))

/-! ### the sum of balances never grows over a transaction -/

theorem evmCallTop_total_le (code : Code) (fuel : Nat) (origin addr : Addr) (v : Int) (s : St) :
    total (evmCallTop code true fuel origin addr v s).1.bal ≤ total s.bal := by
  have hm := evmCallTop_mass code fuel origin addr v s
  unfold evmCallTop at hm ⊢
  simp only [revertToJ_true] at hm ⊢
  split
  · exact Nat.le_refl _
  · rename_i hg
    try simp only
    split
    · refine Nat.le_trans (exec_total_le _ _ _ _ _ _ _) ?_
      try simp only
      by_cases hn : v < 0
      · exfalso
        have : canTransfer s.bal origin v = false := canTransfer_neg _ _ _ hn
        have hv : (v != 0) = true := by
          have : v ≠ 0 := by omega
          simp [this]
        simp [this, hv] at hg
      · obtain ⟨n, rfl⟩ := Int.eq_ofNat_of_zero_le (Int.not_lt.mp hn)
        have hc : (n != 0 && !canTransfer s.bal origin n) = false := by
          by_cases z : n = 0
          · subst z; simp
          · have hz : ((n : Int) != 0) = true := by
              have : (n : Int) ≠ 0 := by omega
              simpa using this
            rw [hz] at hg
            have hz' : (n != 0) = true := by simpa using z
            rw [hz']
            simpa using hg
        rw [total_transfer_eq s origin addr n hc]; exact Nat.le_refl _
    · exact Nat.le_refl _

theorem evmCreateTop_total_le (code : Code) (fuel : Nat) (origin : Addr) (v : Int) (init : Script) (s : St) :
    total (evmCreateTop code true fuel origin v init s).1.bal ≤ total s.bal := by
  unfold evmCreateTop
  simp only [revertToJ_true]
  split
  · exact Nat.le_refl _
  · rename_i hg
    try simp only
    split
    · refine Nat.le_trans (exec_total_le _ _ _ _ _ _ _) ?_
      try simp only
      by_cases hn : v < 0
      · exfalso
        have : canTransfer s.bal origin v = false := canTransfer_neg _ _ _ hn
        simp [this] at hg
      · obtain ⟨n, rfl⟩ := Int.eq_ofNat_of_zero_le (Int.not_lt.mp hn)
        have hc : (n != 0 && !canTransfer s.bal origin n) = false := by
          simp only [Bool.and_eq_false_iff]; right; simpa using hg
        rw [total_transfer_eq s origin (freshAddr s.fresh) n hc]; exact Nat.le_refl _
    · exact Nat.le_refl _

theorem contractExecute_total_le (fl : Flags) (hj : fl.p002 = true) (code : Code) (fuel : Nat) (t : ContractTx) (raw : Nat) (v : Int) (s : St) :
    total (contractExecute fl code fuel t raw v s).1.bal ≤ total s.bal := by
  unfold contractExecute
  rw [hj]
  try simp only
  split
  · exact Nat.le_refl _
  · have key : ∀ r : St × Bool, total r.1.bal ≤ total s.bal →
        total ({ r.1 with bal := chargeGas r.1.bal t.src t.gasUsed } : St).bal ≤ total s.bal := by
      intro r hr
      try simp only
      rw [chargeGas_total]; exact hr
    cases ht : t.target with
    | none =>
      try simp only
      split
      · exact evmCreateTop_total_le code fuel t.src v t.init s
      · exact key _ (evmCreateTop_total_le code fuel t.src v t.init s)
    | some a =>
      try simp only
      split
      · exact evmCallTop_total_le code fuel t.src a v s
      · exact key _ (evmCallTop_total_le code fuel t.src a v s)

theorem total_minerApply_le (s s2 : St) (src : Addr) (id typ stake : Nat) (account : Addr) (keysOk : Bool)
    (h : minerApply s src id typ stake account keysOk = some s2) : total s2.bal ≤ total s.bal := by
  unfold minerApply at h
  repeat' split at h
  all_goals first | (simp only [Option.some.injEq] at h; subst h; exact total_subBal_le s.bal src (toWei stake)) | cases h

theorem total_minerAdd_le (s s2 : St) (src : Addr) (id delta : Nat) (h : minerAdd s src id delta = some s2) :
    total s2.bal ≤ total s.bal := by
  unfold minerAdd at h
  split at h
  · simp only [Option.some.injEq] at h; subst h; exact Nat.le_refl _
  · split at h
    · cases h
    · cases hg : regGet s.reg id with
      | none => simp [hg] at h
      | some m => simp only [hg, Option.some.injEq] at h; subst h; exact total_subBal_le s.bal src (toWei delta)

theorem bal_minerRefund (code : Code) (s s2 : St) (src : Addr) (id : Nat) (amount : Option Nat) (signed : Bool)
    (pend : Escrow) (h : minerRefund code s src id amount signed = some (s2, pend)) : s2.bal = s.bal := by
  unfold minerRefund at h
  split at h
  · simp only [Option.some.injEq, Prod.mk.injEq] at h; obtain ⟨h1, _⟩ := h; subst h1; rfl
  · cases amount with
    | none => simp at h
    | some a =>
      try simp only at h
      cases hg : getRefundStake s.reg (hasCodeIn code) id src a with
      | none => simp [hg] at h
      | some p =>
        obtain ⟨r', refund, acct⟩ := p
        simp only [hg, Option.some.injEq, Prod.mk.injEq] at h
        obtain ⟨h1, _⟩ := h
        subst h1; rfl

theorem total_nodeTxWith_le (nf : Nat) (s s2 : St) (src newAcct : Addr) (mainOk : Bool)
    (h : nodeTxWith nf s src newAcct mainOk = some s2) : total s2.bal ≤ total s.bal := by
  unfold nodeTxWith at h
  split at h
  · cases h
  · cases hb : byAccount s.reg src with
    | none => simp [hb] at h
    | some m =>
      simp only [hb] at h
      cases hg : regGet s.reg m.id with
      | none => simp [hg] at h
      | some m' =>
        simp only [hg] at h
        split at h
        · cases h
        · simp only [Option.some.injEq] at h; subst h; exact total_subBal_le s.bal src nf

theorem total_nodeTx_le (s s2 : St) (src newAcct : Addr) (mainOk : Bool) (h : nodeTx s src newAcct mainOk = some s2) :
    total s2.bal ≤ total s.bal := total_nodeTxWith_le nodeFee s s2 src newAcct mainOk h

/-- **No transaction raises the sum of all balances.** -/
theorem execTx_total_le (fuel : Nat) (w : World) (hj : w.fl.p002 = true) (tx : Tx) :
    total (execTx fuel w tx).1.st.bal ≤ total w.st.bal := by
  cases tx with
  | operator src dataOk targets =>
    simp only [execTx]
    cases hf : processFeeWith (txFeeOf w.fl) w.st.bal src with
    | none => exact Nat.le_refl _
    | some b1 =>
      have h1 := processFeeWith_total _ _ _ _ hf
      try simp only
      split
      · simp only; omega
      · cases hc : changeAssets b1 src targets with
        | none => simp only; omega
        | some b2 => have := changeAssets_total src targets b1 b2 hc; simp only; omega
  | apply src id typ stake account keysOk =>
    simp only [execTx]
    cases hf : processFeeWith (txFeeOf w.fl) w.st.bal src with
    | none => exact Nat.le_refl _
    | some b1 =>
      have h1 := processFeeWith_total _ _ _ _ hf
      try simp only
      cases hm : minerApply { w.st with bal := b1 } src id typ stake account keysOk with
      | none => simp only; omega
      | some s2 => have := total_minerApply_le _ _ _ _ _ _ _ _ hm; simp only at this ⊢; omega
  | addStake src id delta =>
    simp only [execTx]
    cases hf : processFeeWith (txFeeOf w.fl) w.st.bal src with
    | none => exact Nat.le_refl _
    | some b1 =>
      have h1 := processFeeWith_total _ _ _ _ hf
      try simp only
      cases hm : minerAdd { w.st with bal := b1 } src id delta with
      | none => simp only; omega
      | some s2 => have := total_minerAdd_le _ _ _ _ _ hm; simp only at this ⊢; omega
  | refund src id amount signed =>
    simp only [execTx]
    cases hf : processFeeWith (txFeeOf w.fl) w.st.bal src with
    | none => exact Nat.le_refl _
    | some b1 =>
      have h1 := processFeeWith_total _ _ _ _ hf
      try simp only
      cases hm : minerRefund w.code { w.st with bal := b1 } src id amount signed with
      | none => simp only; omega
      | some p =>
        obtain ⟨s2, pend⟩ := p
        have := bal_minerRefund _ _ _ _ _ _ _ _ hm
        try simp only at this ⊢
        rw [this]; omega
  | node src newAcct mainOk =>
    simp only [execTx]
    cases hf : processFeeWith (txFeeOf w.fl) w.st.bal src with
    | none => exact Nat.le_refl _
    | some b1 =>
      have h1 := processFeeWith_total _ _ _ _ hf
      try simp only
      cases hm : nodeTx { w.st with bal := b1 } src newAcct mainOk with
      | none => simp only [hj, Bool.true_or, if_true]; omega
      | some s2 => have := total_nodeTx_le _ _ _ _ _ hm; simp only at this ⊢; omega
  | changeAccount src id newAcct =>
    simp only [execTx]
    cases hf : processFeeWith (txFeeOf w.fl) w.st.bal src with
    | none => exact Nat.le_refl _
    | some b1 =>
      have h1 := processFeeWith_total _ _ _ _ hf
      try simp only
      cases hm : minerChange { w.st with bal := b1 } src id newAcct with
      | none => simp only; omega
      | some s2 =>
        have := (minerChange_spec _ _ _ _ _ hm).2.2
        simp only at this ⊢
        rw [this]; omega
  | contract t =>
    simp only [execTx]
    have hb := contractBefore_total w.fl w.st.bal t
    cases hcb : contractBefore w.fl w.st.bal t with
    | inl p =>
      obtain ⟨status, b⟩ := p
      rw [hcb] at hb
      simp only [beforeBal] at hb
      simp only; omega
    | inr p =>
      obtain ⟨b1, raw, v⟩ := p
      rw [hcb] at hb
      simp only [beforeBal] at hb
      try simp only
      have hx := contractExecute_total_le w.fl hj w.code fuel t raw v { w.st with bal := b1 }
      try simp only at hx
      split
      · simp only; omega
      · rw [hj]
        simp only [revertToJ_true]
        split
        · split
          · simp only [revertTo]; rw [deductGasFee_total]; omega
          · simp only [revertTo]; omega
        · simp only [revertTo]; omega

/-! ### blocks -/

/-- node fees debited by a list of transactions with the given outcomes -/
def nodeFeeSum : List Tx → List Status → Nat
  | t :: ts, s :: ss => nodeFeeBy t s + nodeFeeSum ts ss
  | _, _ => 0

theorem execTxs_mass (fuel : Nat) : ∀ (txs : List Tx) (w : World), w.fl.p002 = true →
    wmass (execTxs fuel w txs).1 + (nodeFeeSum txs (execTxs fuel w txs).2 : Int) = wmass w := by
  intro txs
  induction txs with
  | nil => intro w _; simp [execTxs, nodeFeeSum]
  | cons t ts ih =>
    intro w hj
    simp only [execTxs, nodeFeeSum]
    have h1 := execTx_mass fuel w hj t
    have h2 := ih (execTx fuel w t).1 (by rw [execTx_fl]; exact hj)
    omega

theorem execTxs_total_le (fuel : Nat) : ∀ (txs : List Tx) (w : World), w.fl.p002 = true →
    total (execTxs fuel w txs).1.st.bal ≤ total w.st.bal := by
  intro txs
  induction txs with
  | nil => intro w _; simp [execTxs]
  | cons t ts ih =>
    intro w hj
    simp only [execTxs]
    exact Nat.le_trans (ih _ (by rw [execTx_fl]; exact hj)) (execTx_total_le fuel w hj t)

theorem execTxs_length (fuel : Nat) : ∀ (txs : List Tx) (w : World), (execTxs fuel w txs).2.length = txs.length := by
  intro txs
  induction txs with
  | nil => intro w; simp [execTxs]
  | cons t ts ih => intro w; simp only [execTxs, List.length_cons]; rw [ih]

/-! ### end of block -/

theorem escrow_split : ∀ (e : Escrow) (h : Nat),
    ((dueAt e h).map (·.2)).sum + escrowTotal (notDueAt e h) = escrowTotal e := by
  intro e h
  induction e with
  | nil => simp [dueAt, notDueAt, escrowTotal]
  | cons p r ih =>
    obtain ⟨k, a, v⟩ := p
    simp only [dueAt, notDueAt]
    by_cases c : k = h
    · simp only [c, if_true, List.map_cons, List.sum_cons, escrowTotal]; omega
    · simp only [c, if_false, escrowTotal]; omega

/-- balances + escrow grow by exactly what the block added to the escrow; balances alone by exactly what was due -/
theorem afterBlock_exact (b : Bal) (e : Escrow) (h : Nat) (added : Escrow) :
    total (afterBlock b e h added).1 = total b + ((dueAt (e ++ added) h).map (·.2)).sum ∧
    total (afterBlock b e h added).1 + escrowTotal (afterBlock b e h added).2
      = total b + escrowTotal e + escrowTotal added := by
  unfold afterBlock checkAndMove
  try simp only
  have h1 := refundMove_total (dueAt (e ++ added) h) b
  have h2 := escrow_split (e ++ added) h
  have h3 := escrowTotal_append e added
  constructor
  · exact h1
  · omega

theorem stakeSum_markVisible : ∀ r : Reg, stakeSum (markVisible r) = stakeSum r := by
  intro r
  induction r with
  | nil => rfl
  | cons m r ih => simp only [markVisible, stakeSum, ih]

/-- A whole block: the conserved quantity grows by exactly the block reward and shrinks by the node fees. -/
theorem execBlock_mass (fuel : Nat) (w : World) (hj : w.fl.p002 = true) (h : Nat) (txs : List Tx) (rewards : Escrow) :
    mass (execBlock fuel w h txs rewards).1.st + (nodeFeeSum txs (execBlock fuel w h txs rewards).2 : Int)
      = mass w.st + (escrowTotal rewards : Int) := by
  unfold execBlock
  try simp only
  generalize hw0 : ({ w with ctx := { gasUsed := none, pending := [] }, st := { w.st with height := h, p014 := w.fl.p014 } } : World) = w0
  have hm := execTxs_mass fuel txs w0 (by subst hw0; exact hj)
  have h0 : wmass w0 = mass w.st := by
    subst hw0
    unfold wmass mass
    simp [escrowTotal]
  rw [h0] at hm
  generalize execTxs fuel w0 txs = r at hm ⊢
  have ha := (afterBlock_exact r.1.st.bal r.1.st.escrow h (r.1.ctx.pending ++ rewards)).2
  have hp := escrowTotal_append r.1.ctx.pending rewards
  unfold wmass at hm
  unfold mass at hm ⊢
  try simp only
  rw [stakeSum_markVisible]
  omega

end Rangers.Ledger
