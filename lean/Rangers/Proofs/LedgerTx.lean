import Rangers.Proofs.LedgerExec
/-! Transaction-level lemmas (C06). -/
namespace Rangers.Ledger

/-- debit of at most the balance, then credit of the same amount elsewhere: the sum is unchanged -/
theorem total_move (b : Bal) (src dst : Addr) (n : Nat) (h : n ≤ get b src) :
    total (addBal (subBal b src (n : Int)).1 dst (n : Int)) = total b := by
  rw [total_addBal]
  have := (subBal_ok_of_le b src n h).2.1
  omega

theorem processFee_total (b b' : Bal) (src : Addr) (h : processFee b src = some b') : total b' = total b := by
  unfold processFee at h
  by_cases c : get b src < txFee
  · simp [c] at h
  · simp only [c, if_false, Option.some.injEq] at h
    subst h
    exact total_move b src feeAccount txFee (by omega)

theorem transferBalance_total (b b' : Bal) (src tgt : Addr) (a : Amount)
    (h : transferBalance b src tgt a = some b') : total b' = total b := by
  unfold transferBalance at h
  cases a with
  | err => simp at h
  | val v =>
    simp only at h
    by_cases hn : v < 0
    · simp [hn] at h
    · simp only [hn, if_false] at h
      by_cases hb : ((get b src : Nat) : Int) < v
      · simp [hb] at h
      · simp only [hb, if_false, Option.some.injEq] at h
        subst h
        obtain ⟨n, rfl⟩ := Int.eq_ofNat_of_zero_le (Int.not_lt.mp hn)
        have hle : n ≤ get b src := by omega
        -- credit first, then debit: the debit succeeds because the credit cannot lower the source slot
        have hge : n ≤ get (addBal b tgt (n : Int)) src := by
          by_cases e : src = tgt
          · subst e; rw [get_addBal_same]; omega
          · rw [get_addBal_other _ _ _ _ e]; exact hle
        have h1 := (subBal_ok_of_le (addBal b tgt (n : Int)) src n hge).2.1
        have h2 := total_addBal b tgt n
        omega

theorem changeAssets_total (src : Addr) : ∀ (ts : List (Addr × Amount)) (b b' : Bal),
    changeAssets b src ts = some b' → total b' = total b := by
  intro ts
  induction ts with
  | nil => intro b b' h; simp [changeAssets] at h; subst h; rfl
  | cons p rest ih =>
    intro b b' h
    obtain ⟨t, a⟩ := p
    simp only [changeAssets] at h
    cases hb : transferBalance b src t a with
    | none => simp [hb] at h
    | some b1 =>
      simp only [hb] at h
      rw [ih b1 b' h, transferBalance_total b b1 src t a hb]

theorem chargeGas_total (b : Bal) (src : Addr) (g : Nat) : total (chargeGas b src g) = total b := by
  unfold chargeGas
  simp only
  split
  · exact total_move b src feeAccount (get b src) (Nat.le_refl _)
  · rename_i h; exact total_move b src feeAccount (g * gasPrice) (by omega)

theorem deductGasFee_total (b : Bal) (src : Addr) (g : Nat) : total (deductGasFee b src g) = total b :=
  chargeGas_total b src g

theorem lockStake_total (b b' : Bal) (src : Addr) (stake : Nat) (ok : Bool) (h : lockStake b src stake ok = some b') :
    total b' + stake = total b := by
  unfold lockStake at h
  by_cases c : get b src < stake
  · simp [c] at h
  · simp only [c, if_false] at h
    cases ok with
    | false => simp at h
    | true =>
      simp only [Bool.not_true, Bool.false_eq_true, if_false, Option.some.injEq] at h
      subst h
      exact (subBal_ok_of_le b src stake (by omega)).2.1

theorem nodeTx_total (b b' : Bal) (src : Addr) (ok : Bool) (h : nodeTx b src ok = some b') :
    total b' + nodeFee = total b := by
  unfold nodeTx at h
  by_cases c : get b src < nodeFee
  · simp [c] at h
  · simp only [c, if_false] at h
    cases ok with
    | false => simp at h
    | true =>
      simp only [Bool.not_true, Bool.false_eq_true, if_false, Option.some.injEq] at h
      subst h
      exact (subBal_ok_of_le b src nodeFee (by omega)).2.1

theorem refundMove_total : ∀ (l : List (Addr × Nat)) (b : Bal),
    total (refundMove b l) = total b + (l.map (·.2)).sum := by
  intro l
  induction l with
  | nil => intro b; simp [refundMove]
  | cons p r ih =>
    intro b
    obtain ⟨a, v⟩ := p
    simp only [refundMove, List.map_cons, List.sum_cons]
    rw [ih, total_addBal]; omega

/-! ### top-level EVM entry points -/

theorem evmCallTop_mass (code : Code) (fuel : Nat) (origin addr : Addr) (v : Int) (s : St) :
    mass (evmCallTop code fuel origin addr v s).1 = mass s := by
  unfold evmCallTop
  split
  · rfl
  · rename_i hg
    have hs : mass { s with bal := vmTransfer s.bal origin addr v } = mass s := by
      by_cases hn : v < 0
      · exfalso
        have : canTransfer s.bal origin v = false := canTransfer_neg _ _ _ hn
        have hv : (v != 0) = true := by
          have : v ≠ 0 := by omega
          simp [this]
        simp [this, hv] at hg
      · obtain ⟨n, rfl⟩ := Int.eq_ofNat_of_zero_le (Int.not_lt.mp hn)
        apply mass_transfer
        by_cases z : n = 0
        · subst z; simp
        · have hz : ((n : Int) != 0) = true := by
            have : (n : Int) ≠ 0 := by omega
            simpa using this
          rw [hz] at hg
          have hz' : (n != 0) = true := by simpa using z
          rw [hz']
          simpa using hg
    simp only
    split
    · rw [exec_mass, hs]
    · simp only; rw [mass_revertTo]

theorem evmCreateTop_mass (code : Code) (fuel : Nat) (origin : Addr) (v : Int) (init : Script) (s : St) :
    mass (evmCreateTop code fuel origin v init s).1 = mass s := by
  unfold evmCreateTop
  split
  · rfl
  · rename_i hg
    have hs : mass { ({ s with fresh := s.fresh + 1 } : St) with
        bal := vmTransfer s.bal origin (freshAddr s.fresh) v } = mass s := by
      by_cases hn : v < 0
      · exfalso
        have : canTransfer s.bal origin v = false := canTransfer_neg _ _ _ hn
        simp [this] at hg
      · obtain ⟨n, rfl⟩ := Int.eq_ofNat_of_zero_le (Int.not_lt.mp hn)
        exact mass_transfer' { s with fresh := s.fresh + 1 } origin (freshAddr s.fresh) n (by simpa using hg)
    simp only
    split
    · rw [exec_mass]; exact hs
    · simp only; rw [mass_revertTo]; rfl

theorem contractExecute_mass (code : Code) (fuel : Nat) (t : ContractTx) (raw : Nat) (v : Int) (s : St) :
    mass (contractExecute code fuel t raw v s).1 = mass s := by
  unfold contractExecute
  simp only
  split
  · rfl
  · have key : ∀ r : St × Bool, mass r.1 = mass s →
        mass ({ r.1 with bal := chargeGas r.1.bal t.src t.gasUsed } : St) = mass s := by
      intro r hr
      unfold mass at hr ⊢
      simp only
      rw [chargeGas_total]; exact hr
    cases ht : t.target with
    | none => exact key _ (evmCreateTop_mass code fuel t.src v t.init s)
    | some a => exact key _ (evmCallTop_mass code fuel t.src a v s)

/-! ### BeforeExecute of the contract executors -/

/-- the balances `BeforeExecute` leaves behind, whichever way it ends -/
def beforeBal : (Status × Bal) ⊕ (Bal × Nat × Int) → Bal
  | .inl (_, b) => b
  | .inr (b, _, _) => b

theorem contractBefore_total (b : Bal) (t : ContractTx) : total (beforeBal (contractBefore b t)) = total b := by
  unfold contractBefore
  split
  · rfl
  · cases hf : processFee b t.src with
    | none => rfl
    | some b1 =>
      have h1 := processFee_total b b1 t.src hf
      simp only
      split
      · exact h1
      · cases parseGasLimit t.gasLimit with
        | none => exact h1
        | some raw =>
          simp only
          cases strToBigInt t.value with
          | err => exact h1
          | val v =>
            simp only
            split
            · exact h1
            · exact h1

/-- value locked as stake by a transaction with the given outcome -/
def lockedBy : Tx → Status → Nat
  | .lock _ stake _, .success => stake
  | _, _ => 0

theorem execTx_mass_operator (fuel : Nat) (w : World) (src : Addr) (dataOk : Bool) (targets : List (Addr × Amount)) :
    mass (execTx fuel w (.operator src dataOk targets)).1.st = mass w.st := by
  simp only [execTx]
  cases hf : processFee w.st.bal src with
  | none => rfl
  | some b1 =>
    have h1 := processFee_total _ _ _ hf
    simp only
    split
    · unfold mass; simp only; rw [h1]
    · cases hc : changeAssets b1 src targets with
      | none => unfold mass; simp only; rw [h1]
      | some b2 =>
        have h2 := changeAssets_total src targets b1 b2 hc
        unfold mass; simp only; rw [h2, h1]

theorem execTx_mass_lock (fuel : Nat) (w : World) (src : Addr) (n : Nat) (ok : Bool) :
    mass (execTx fuel w (.lock src n ok)).1.st + lockedBy (.lock src n ok) (execTx fuel w (.lock src n ok)).2
      = mass w.st := by
  simp only [execTx]
  cases hf : processFee w.st.bal src with
  | none => rfl
  | some b1 =>
    have h1 := processFee_total _ _ _ hf
    simp only
    cases hl : lockStake b1 src n ok with
    | none => simp only [lockedBy]; unfold mass; simp only; rw [h1]; rfl
    | some b2 =>
      have h2 := lockStake_total b1 b2 src n ok hl
      simp only [lockedBy]; unfold mass; simp only
      rw [← h1, ← h2]; exact Nat.add_right_comm _ _ _

/-- value debited by an OperatorNode transaction and credited to nobody -/
def nodeFeeBy : Tx → Status → Nat
  | .node _ _, .success => nodeFee
  | _, _ => 0

/-- everything that leaves the ledger in a transaction besides self-destruct burns -/
def outflowBy (tx : Tx) (st : Status) : Nat := lockedBy tx st + nodeFeeBy tx st

theorem execTx_mass_node (fuel : Nat) (w : World) (src : Addr) (ok : Bool) :
    mass (execTx fuel w (.node src ok)).1.st + nodeFeeBy (.node src ok) (execTx fuel w (.node src ok)).2
      = mass w.st := by
  simp only [execTx]
  cases hf : processFee w.st.bal src with
  | none => rfl
  | some b1 =>
    have h1 := processFee_total _ _ _ hf
    simp only
    cases hl : nodeTx b1 src ok with
    | none => simp only [nodeFeeBy]; unfold mass; simp only; rw [h1]; rfl
    | some b2 =>
      have h2 := nodeTx_total b1 b2 src ok hl
      simp only [nodeFeeBy]; unfold mass; simp only
      rw [← h1, ← h2]; exact Nat.add_right_comm _ _ _

theorem execTx_mass_contract (fuel : Nat) (w : World) (t : ContractTx) :
    mass (execTx fuel w (.contract t)).1.st = mass w.st := by
  simp only [execTx]
  have hb := contractBefore_total w.st.bal t
  cases hcb : contractBefore w.st.bal t with
  | inl p =>
    obtain ⟨status, b⟩ := p
    rw [hcb] at hb
    simp only [beforeBal] at hb
    simp only
    unfold mass; simp only; rw [hb]
  | inr p =>
    obtain ⟨b1, raw, v⟩ := p
    rw [hcb] at hb
    simp only [beforeBal] at hb
    simp only
    have hx := contractExecute_mass w.code fuel t raw v { w.st with bal := b1 }
    have hs1 : mass ({ w.st with bal := b1 } : St) = mass w.st := by unfold mass; simp only; rw [hb]
    split
    · simp only; rw [hx, hs1]
    · simp only
      split
      · unfold mass; simp only [revertTo]; rw [deductGasFee_total, hb]
      · unfold mass; simp only [revertTo]; rw [hb]

/-- One iteration of the transaction loop: live balances + burned + outflow is invariant. -/
theorem execTx_mass (fuel : Nat) (w : World) (tx : Tx) :
    mass (execTx fuel w tx).1.st + outflowBy tx (execTx fuel w tx).2 = mass w.st := by
  cases tx with
  | operator src dataOk targets =>
    have := execTx_mass_operator fuel w src dataOk targets
    simp only [outflowBy, lockedBy, nodeFeeBy]; rw [this]; rfl
  | lock src n ok =>
    have := execTx_mass_lock fuel w src n ok
    simp only [outflowBy, nodeFeeBy]; exact this
  | node src ok =>
    have := execTx_mass_node fuel w src ok
    simp only [outflowBy, lockedBy]; rw [Nat.zero_add]; exact this
  | contract t =>
    have := execTx_mass_contract fuel w t
    simp only [outflowBy, lockedBy, nodeFeeBy]; rw [this]; rfl

/-! ### a failed transaction touches only the payer and the fee account -/

theorem chargeGas_other (b : Bal) (src : Addr) (g : Nat) (a : Addr) (h1 : a ≠ src) (h2 : a ≠ feeAccount) :
    get (chargeGas b src g) a = get b a := by
  unfold chargeGas
  simp only
  rw [get_addBal_other _ _ _ _ h2, get_subBal_other _ _ _ _ h1]

theorem processFee_other (b b' : Bal) (src : Addr) (a : Addr) (h : processFee b src = some b')
    (h1 : a ≠ src) (h2 : a ≠ feeAccount) : get b' a = get b a := by
  unfold processFee at h
  by_cases c : get b src < txFee
  · simp [c] at h
  · simp only [c, if_false, Option.some.injEq] at h
    subst h
    rw [get_addBal_other _ _ _ _ h2, get_subBal_other _ _ _ _ h1]

theorem contractBefore_other (b : Bal) (t : ContractTx) (a : Addr) (h1 : a ≠ t.src) (h2 : a ≠ feeAccount) :
    get (beforeBal (contractBefore b t)) a = get b a := by
  unfold contractBefore
  split
  · rfl
  · cases hf : processFee b t.src with
    | none => rfl
    | some b1 =>
      have k := processFee_other b b1 t.src a hf h1 h2
      simp only
      split
      · exact k
      · cases parseGasLimit t.gasLimit with
        | none => exact k
        | some raw =>
          simp only
          cases strToBigInt t.value with
          | err => exact k
          | val v =>
            simp only
            split
            · exact k
            · exact k

theorem failed_contract_other (fuel : Nat) (w : World) (t : ContractTx)
    (hf : (execTx fuel w (.contract t)).2 ≠ .success) (a : Addr) (h1 : a ≠ t.src) (h2 : a ≠ feeAccount) :
    get (execTx fuel w (.contract t)).1.st.bal a = get w.st.bal a := by
  simp only [execTx] at hf ⊢
  have hb := contractBefore_other w.st.bal t a h1 h2
  cases hcb : contractBefore w.st.bal t with
  | inl p =>
    obtain ⟨status, b⟩ := p
    rw [hcb] at hb
    simp only [beforeBal] at hb
    simp only
    exact hb
  | inr p =>
    obtain ⟨b1, raw, v⟩ := p
    rw [hcb] at hb hf
    simp only [beforeBal] at hb
    simp only at hf ⊢
    split
    · rename_i hs; simp [hs] at hf
    · simp only
      split
      · simp only [revertTo, deductGasFee]; rw [chargeGas_other _ _ _ _ h1 h2]; exact hb
      · simp only [revertTo]; exact hb

/-! ### the burn counter is monotone over a transaction -/

theorem evmCallTop_burned (code : Code) (fuel : Nat) (origin addr : Addr) (v : Int) (s : St) :
    s.burned ≤ (evmCallTop code fuel origin addr v s).1.burned := by
  unfold evmCallTop
  split
  · exact Nat.le_refl _
  · simp only
    split
    · exact exec_burned_mono code origin fuel addr false _ { s with bal := vmTransfer s.bal origin addr v }
    · exact Nat.le_refl _

theorem evmCreateTop_burned (code : Code) (fuel : Nat) (origin : Addr) (v : Int) (init : Script) (s : St) :
    s.burned ≤ (evmCreateTop code fuel origin v init s).1.burned := by
  unfold evmCreateTop
  split
  · exact Nat.le_refl _
  · simp only
    split
    · exact exec_burned_mono code origin fuel _ false init
        { ({ s with fresh := s.fresh + 1 } : St) with bal := vmTransfer s.bal origin (freshAddr s.fresh) v }
    · exact Nat.le_refl _

theorem contractExecute_burned (code : Code) (fuel : Nat) (t : ContractTx) (raw : Nat) (v : Int) (s : St) :
    s.burned ≤ (contractExecute code fuel t raw v s).1.burned := by
  unfold contractExecute
  simp only
  split
  · exact Nat.le_refl _
  · have key : ∀ r : St × Bool, s.burned ≤ r.1.burned →
        s.burned ≤ ({ r.1 with bal := chargeGas r.1.bal t.src t.gasUsed } : St).burned := by
      intro r hr
      simp only
      exact hr
    cases ht : t.target with
    | none => exact key _ (evmCreateTop_burned code fuel t.src v t.init s)
    | some a => exact key _ (evmCallTop_burned code fuel t.src a v s)

theorem execTx_burned (fuel : Nat) (w : World) (tx : Tx) : w.st.burned ≤ (execTx fuel w tx).1.st.burned := by
  cases tx with
  | operator src dataOk targets =>
    simp only [execTx]
    cases processFee w.st.bal src with
    | none => exact Nat.le_refl _
    | some b1 =>
      simp only
      split
      · exact Nat.le_refl _
      · cases changeAssets b1 src targets <;> exact Nat.le_refl _
  | lock src n ok =>
    simp only [execTx]
    cases processFee w.st.bal src with
    | none => exact Nat.le_refl _
    | some b1 =>
      simp only
      cases lockStake b1 src n ok <;> exact Nat.le_refl _
  | node src ok =>
    simp only [execTx]
    cases processFee w.st.bal src with
    | none => exact Nat.le_refl _
    | some b1 =>
      simp only
      cases nodeTx b1 src ok <;> exact Nat.le_refl _
  | contract t =>
    simp only [execTx]
    cases hcb : contractBefore w.st.bal t with
    | inl p => obtain ⟨status, b⟩ := p; exact Nat.le_refl _
    | inr p =>
      obtain ⟨b1, raw, v⟩ := p
      simp only
      split
      · exact contractExecute_burned w.code fuel t raw v { w.st with bal := b1 }
      · simp only [revertTo]; exact Nat.le_refl _

theorem execTxs_burned (fuel : Nat) : ∀ (txs : List Tx) (w : World), w.st.burned ≤ (execTxs fuel w txs).1.st.burned := by
  intro txs
  induction txs with
  | nil => intro w; simp [execTxs]
  | cons t ts ih =>
    intro w
    simp only [execTxs]
    exact Nat.le_trans (execTx_burned fuel w t) (ih _)

/-! ### blocks -/

/-- stake locked / node fees debited by a list of transactions with the given outcomes -/
def lockedSum : List Tx → List Status → Nat
  | t :: ts, s :: ss => outflowBy t s + lockedSum ts ss
  | _, _ => 0

theorem execTxs_mass (fuel : Nat) : ∀ (txs : List Tx) (w : World),
    mass (execTxs fuel w txs).1.st + lockedSum txs (execTxs fuel w txs).2 = mass w.st := by
  intro txs
  induction txs with
  | nil => intro w; simp [execTxs, lockedSum]
  | cons t ts ih =>
    intro w
    simp only [execTxs, lockedSum]
    have h1 := execTx_mass fuel w t
    have h2 := ih (execTx fuel w t).1
    omega

theorem execTxs_length (fuel : Nat) : ∀ (txs : List Tx) (w : World), (execTxs fuel w txs).2.length = txs.length := by
  intro txs
  induction txs with
  | nil => intro w; simp [execTxs]
  | cons t ts ih => intro w; simp only [execTxs, List.length_cons]; rw [ih]

theorem execBlock_mass (fuel : Nat) (w : World) (txs : List Tx) :
    mass (execBlock fuel w txs).1.st + lockedSum txs (execBlock fuel w txs).2 = mass w.st := by
  unfold execBlock
  simp only
  have h := execTxs_mass fuel txs { w with ctx := { gasUsed := none } }
  unfold mass at h ⊢
  simp only at h ⊢
  exact h

/-! ### end of block -/

theorem escrow_split : ∀ (e : Escrow) (h : Nat),
    ((dueAt e h).map (·.2)).sum + escrowTotal (notDueAt e h) = escrowTotal e := by
  intro e h
  induction e with
  | nil => simp [dueAt, notDueAt, escrowTotal]
  | cons p r ih =>
    obtain ⟨k, a, v⟩ := p
    simp only [dueAt, notDueAt]
    by_cases c : k = h
    · simp only [c, if_true, List.map_cons, List.sum_cons, escrowTotal]; omega
    · simp only [c, if_false, escrowTotal]; omega

theorem escrowTotal_append : ∀ (e f : Escrow), escrowTotal (e ++ f) = escrowTotal e + escrowTotal f := by
  intro e f
  induction e with
  | nil => simp [escrowTotal]
  | cons p r ih =>
    obtain ⟨k, a, v⟩ := p
    simp only [List.cons_append, escrowTotal, ih]; omega

/-- balances + escrow grow by exactly what the block added to the escrow; balances alone by exactly what was due -/
theorem afterBlock_exact (b : Bal) (e : Escrow) (h : Nat) (added : Escrow) :
    total (afterBlock b e h added).1 = total b + ((dueAt (e ++ added) h).map (·.2)).sum ∧
    total (afterBlock b e h added).1 + escrowTotal (afterBlock b e h added).2
      = total b + escrowTotal e + escrowTotal added := by
  unfold afterBlock checkAndMove
  simp only
  have h1 := refundMove_total (dueAt (e ++ added) h) b
  have h2 := escrow_split (e ++ added) h
  have h3 := escrowTotal_append e added
  constructor
  · exact h1
  · omega

end Rangers.Ledger
