import Rangers.Proofs.JournalRevert
/-! Root clause, positive part: ops that do not touch account objects (refund counter, logs, access
list, transient storage, snapshots and reverts of such ops) leave the input of `Finalise` — object
cache, dirty set, account trie — literally unchanged, so the content `IntermediateRoot` hashes is
restored exactly.  (For regions that touch account objects the clause is false, see Props/C04.) -/
namespace Rangers.Proofs.Journal
open Rangers Rangers.Model.Journal

/-- everything `Finalise` reads -/
def ObjView (s : ADB) : List (Addr × Obj) × List Addr × List (Addr × Leaf) := (s.objs, s.dirtySet, s.trie)

def entryGlobal : Entry → Bool
  | .refund _ | .addLog _ | .alAddr _ | .alSlot .. | .transient .. => true
  | _ => false

def opGlobal : Op → Bool
  | .addRefund _ | .subRefund _ | .addLog .. | .alAddr _ | .alSlot .. | .tset .. | .snapshot | .revert _ => true
  | _ => false

theorem undo_global (c : Cfg) (s : ADB) (e : Entry) (he : entryGlobal e = true) : ObjView (undo c s e) = ObjView s := by
  unfold undo
  split
  · rfl
  cases e with
  | refund p => rfl
  | addLog th => simp only; split <;> rfl
  | alAddr a => rfl
  | alSlot a sl => simp only; split <;> rfl
  | transient a k p => rfl
  | _ => simp [entryGlobal] at he

theorem undo_global_book (c : Cfg) (s : ADB) (e : Entry) (he : entryGlobal e = true) :
    (undo c s e).journal = s.journal ∧ (undo c s e).revisions = s.revisions := by
  unfold undo
  split
  · exact ⟨rfl, rfl⟩
  cases e with
  | refund p => exact ⟨rfl, rfl⟩
  | addLog th => simp only; split <;> exact ⟨rfl, rfl⟩
  | alAddr a => exact ⟨rfl, rfl⟩
  | alSlot a sl => simp only; split <;> exact ⟨rfl, rfl⟩
  | transient a k p => exact ⟨rfl, rfl⟩
  | _ => simp [entryGlobal] at he

theorem undoAll_global_book (c : Cfg) (s : ADB) (es : List Entry) (h : ∀ e ∈ es, entryGlobal e = true) :
    (undoAll c s es).journal = s.journal ∧ (undoAll c s es).revisions = s.revisions := by
  unfold undoAll
  have h' : ∀ e ∈ es.reverse, entryGlobal e = true := fun e he => h e (List.mem_reverse.mp he)
  generalize es.reverse = l at h'
  induction l generalizing s with
  | nil => exact ⟨rfl, rfl⟩
  | cons e l ih =>
    simp only [List.foldl]
    have a := ih (undo c s e) (fun x hx => h' x (List.mem_cons_of_mem _ hx))
    have b := undo_global_book c s e (h' e (List.mem_cons_self ..))
    exact ⟨a.1.trans b.1, a.2.trans b.2⟩

theorem undoAll_global (c : Cfg) (s : ADB) (es : List Entry) (h : ∀ e ∈ es, entryGlobal e = true) :
    ObjView (undoAll c s es) = ObjView s := by
  unfold undoAll
  have h' : ∀ e ∈ es.reverse, entryGlobal e = true := fun e he => h e (List.mem_reverse.mp he)
  generalize es.reverse = l at h'
  induction l generalizing s with
  | nil => rfl
  | cons e l ih =>
    simp only [List.foldl]
    rw [ih _ (fun x hx => h' x (List.mem_cons_of_mem _ hx)), undo_global c s e (h' e (List.mem_cons_self ..))]

/-- invariant of a run of global ops started right after a snapshot at journal length `j0` -/
structure GInv (j0 : Nat) (s : ADB) : Prop where
  len : j0 ≤ s.journal.length
  ents : ∀ e ∈ s.journal.drop j0, entryGlobal e = true
  revs : ∀ r ∈ s.revisions, j0 ≤ r.2

theorem GInv.append {j0 : Nat} {s t : ADB} (h : GInv j0 s) (E : List Entry) (hj : t.journal = s.journal ++ E)
    (hE : ∀ e ∈ E, entryGlobal e = true) (hr : t.revisions = s.revisions) : GInv j0 t := by
  refine ⟨by rw [hj, List.length_append]; have := h.len; omega, ?_, ?_⟩
  · rw [hj, List.drop_append_of_le_length h.len]
    intro e he
    rcases List.mem_append.mp he with he | he
    · exact h.ents e he
    · exact hE e he
  · intro r hrm
    rw [hr] at hrm
    exact h.revs r hrm

theorem step_global (c : Cfg) (j0 : Nat) (s : ADB) (op : Op) (hop : opGlobal op = true) (h : GInv j0 s) :
    ObjView (step c s op) = ObjView s ∧ GInv j0 (step c s op) := by
  cases op with
  | addRefund g =>
    simp only [step, addRefund]
    split
    · exact ⟨rfl, h⟩
    · exact ⟨rfl, h.append [Entry.refund s.refund] rfl (by simp [entryGlobal]) rfl⟩
  | subRefund g =>
    simp only [step, subRefund]
    split
    · exact ⟨rfl, h⟩
    · split
      · exact ⟨rfl, h.append [Entry.refund s.refund] rfl (by simp [entryGlobal]) rfl⟩
      · exact ⟨rfl, h.append [Entry.refund s.refund] rfl (by simp [entryGlobal]) rfl⟩
  | addLog a t d =>
    simp only [step, addLog]
    split
    · exact ⟨rfl, h⟩
    · exact ⟨rfl, h.append [Entry.addLog s.thash] rfl (by simp [entryGlobal]) rfl⟩
  | alAddr a =>
    simp only [step, addAddressToAccessList]
    split
    · exact ⟨rfl, h⟩
    · split
      · exact ⟨rfl, h.append [Entry.alAddr a] rfl (by simp [entryGlobal]) rfl⟩
      · exact ⟨rfl, h⟩
  | alSlot a sl =>
    simp only [step, addSlotToAccessList]
    split
    · exact ⟨rfl, h⟩
    · split
      · exact ⟨rfl, h.append [] (by simp [crash]) (by simp) rfl⟩
      · rename_i al addrMod slotMod _
        refine ⟨rfl, h.append ((if addrMod then [Entry.alAddr a] else []) ++ (if slotMod then [Entry.alSlot a sl] else [])) ?_ ?_ rfl⟩
        · cases addrMod <;> cases slotMod <;> simp
        · intro e he
          cases addrMod <;> cases slotMod <;> simp at he <;> (try rcases he with he | he) <;> (try subst he) <;> rfl
  | tset a k v =>
    simp only [step, setTransientState]
    split
    · exact ⟨rfl, h⟩
    · split
      · exact ⟨rfl, h⟩
      · exact ⟨rfl, h.append [Entry.transient a k (tget s.transient a k)] rfl (by simp [entryGlobal]) rfl⟩
  | snapshot =>
    simp only [step, snapshot]
    split
    · exact ⟨rfl, h⟩
    · refine ⟨rfl, ⟨h.len, h.ents, fun r hr => ?_⟩⟩
      simp only [List.mem_append, List.mem_singleton] at hr
      rcases hr with hr | hr
      · exact h.revs r hr
      · subst hr; exact h.len
  | revert id =>
    simp only [step, revert]
    split
    · exact ⟨rfl, h⟩
    · cases hf : findRev s.revisions id 0 with
      | none => exact ⟨rfl, ⟨h.len, h.ents, h.revs⟩⟩
      | some x =>
        obtain ⟨i, rid, j⟩ := x
        simp only
        have hmem : (rid, j) ∈ s.revisions := List.mem_of_getElem? (findRev_some hf).2
        have hj0 := h.revs _ hmem
        have hsub : ∀ e ∈ s.journal.drop j, entryGlobal e = true := by
          intro e he
          have : s.journal.drop j = (s.journal.drop j0).drop (j - j0) := by
            rw [List.drop_drop]; congr 1; omega
          rw [this] at he
          exact h.ents e (List.mem_of_mem_drop he)
        have hv := undoAll_global c s _ hsub
        split
        · exact ⟨rfl, ⟨h.len, h.ents, h.revs⟩⟩
        · split
          · have hb := undoAll_global_book c s _ hsub
            exact ⟨hv, ⟨by rw [hb.1]; exact h.len, by rw [hb.1]; exact h.ents, by rw [hb.2]; exact h.revs⟩⟩
          · refine ⟨hv, ⟨by have := h.len; simp [List.length_take]; omega, ?_, ?_⟩⟩
            · intro e he
              simp only at he
              have : (s.journal.take j).drop j0 = (s.journal.drop j0).take (j - j0) := by
                rw [List.drop_take]
              rw [this] at he
              exact h.ents e (List.mem_of_mem_take he)
            · intro r hr
              simp only at hr ⊢
              exact h.revs r (List.mem_of_mem_take hr)
  | _ => simp [opGlobal] at hop

theorem run_global (c : Cfg) (j0 : Nat) (ops : List Op) (s : ADB) (hops : ∀ op ∈ ops, opGlobal op = true) (h : GInv j0 s) :
    ObjView (run c s ops) = ObjView s ∧ GInv j0 (run c s ops) := by
  induction ops generalizing s with
  | nil => exact ⟨rfl, h⟩
  | cons op ops ih =>
    obtain ⟨v1, g1⟩ := step_global c j0 s op (hops op (List.mem_cons_self ..)) h
    obtain ⟨v2, g2⟩ := ih (step c s op) (fun o ho => hops o (List.mem_cons_of_mem _ ho)) g1
    exact ⟨v2.trans v1, g2⟩

theorem finaliseOne_view (d : Bool) (s t : ADB) (a : Addr) (h : ObjView s = ObjView t) :
    ObjView (finaliseOne d s a) = ObjView (finaliseOne d t a) := by
  simp only [ObjView, Prod.mk.injEq] at h
  obtain ⟨h1, h2, h3⟩ := h
  unfold finaliseOne
  rw [h1]
  cases mget t.objs a with
  | none => simp [ObjView, h1, h2, h3]
  | some o => simp only; split <;> simp [ObjView, h1, h2, h3]

theorem finalise_trie_congr (d : Bool) (s t : ADB) (hs : s.crashed = false) (ht : t.crashed = false)
    (h : ObjView s = ObjView t) : (finalise d s).trie = (finalise d t).trie := by
  have hds : s.dirtySet = t.dirtySet := by simp only [ObjView, Prod.mk.injEq] at h; exact h.2.1
  have key : ∀ (l : List Addr) (x y : ADB), ObjView x = ObjView y →
      ObjView (l.foldl (finaliseOne d) x) = ObjView (l.foldl (finaliseOne d) y) := by
    intro l
    induction l with
    | nil => intro x y hxy; exact hxy
    | cons a l ih => intro x y hxy; exact ih _ _ (finaliseOne_view d x y a hxy)
  have := key s.dirtySet s t h
  simp only [finalise, hs, ht, Bool.false_eq_true, if_false, clearJournal, ← hds]
  simp only [ObjView, Prod.mk.injEq] at this
  exact this.2.2

/-- a region of ops that do not touch account objects, with any nesting of snapshots and reverts, then the
    revert: the object cache, the dirty set and the account trie are literally those of `s` -/
theorem revert_objview_global (c : Cfg) (s : ADB) (region : List Op) (hs : s.crashed = false) (hr : s.revisions = [])
    (hops : ∀ op ∈ region, opGlobal op = true) :
    ObjView (revert c (run c (snapshot s).1 region) (snapshot s).2) = ObjView s := by
  have hsnap : snapshot s = ({ s with revisions := s.revisions ++ [(s.nextRev, s.journal.length)], nextRev := s.nextRev + 1 }, s.nextRev) := by
    simp [snapshot, hs]
  have g0 : GInv s.journal.length (snapshot s).1 := by
    rw [hsnap]
    refine ⟨Nat.le_refl _, by simp, fun r hrm => ?_⟩
    simp only [hr, List.nil_append, List.mem_singleton] at hrm
    subst hrm; exact Nat.le_refl _
  obtain ⟨v1, g1⟩ := run_global c _ region _ hops g0
  obtain ⟨v2, _⟩ := step_global c _ (run c (snapshot s).1 region) (Op.revert (snapshot s).2) rfl g1
  have v0 : ObjView (snapshot s).1 = ObjView s := by rw [hsnap]; rfl
  exact (v2.trans v1).trans v0

end Rangers.Proofs.Journal
