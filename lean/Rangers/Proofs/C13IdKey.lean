import Rangers.Model.IdKey
import Rangers.Proofs.C13G1Bridge
/-! The id ↔ map-key round trip is the identity below `2^256`. -/
namespace Rangers.Proofs.C13
open Rangers Rangers.Model.IdKey Rangers.Proofs.C13G1

theorem hexVal_hexDigit : ∀ d : Fin 16, hexVal? (hexDigit d.val) = some d.val := by decide

theorem parseHexAux_byte (acc : Nat) (b : UInt8) (rest : List Char) :
    parseHexAux acc (hexCharsOfByte b ++ rest) = parseHexAux (acc * 256 + b.toNat) rest := by
  have h1 : b.toNat / 16 < 16 := by have := b.toNat_lt; omega
  have h2 : b.toNat % 16 < 16 := Nat.mod_lt _ (by omega)
  have e1 := hexVal_hexDigit ⟨b.toNat / 16, h1⟩
  have e2 := hexVal_hexDigit ⟨b.toNat % 16, h2⟩
  simp only at e1 e2
  simp only [hexCharsOfByte, List.cons_append, List.nil_append, parseHexAux, e1, e2]
  congr 1
  omega

theorem parseHexAux_hexChars (bs : Bytes) : ∀ acc : Nat,
    parseHexAux acc (hexChars bs) = some (bs.foldl (fun a b => a * 256 + b.toNat) acc) := by
  induction bs with
  | nil => intro acc; rfl
  | cons b bs ih =>
    intro acc
    simp only [hexChars, List.flatMap_cons, List.foldl_cons]
    rw [parseHexAux_byte]
    exact ih _

theorem beToNat_replicate_zero (k : Nat) (l : Bytes) : beToNat (List.replicate k 0 ++ l) = beToNat l := by
  unfold beToNat
  rw [List.foldl_append]
  congr 1
  induction k with
  | zero => rfl
  | succ k ih => simp [List.replicate_succ, ih]

theorem beToNat_natToBE : ∀ (w x : Nat), x < 256 ^ w → beToNat (natToBE x) = x := by
  intro w
  induction w with
  | zero => intro x h; have : x = 0 := by simpa using h
            subst this; simp [natToBE_zero, beToNat]
  | succ w ih =>
    intro x h
    by_cases h0 : x = 0
    · subst h0; simp [natToBE_zero, beToNat]
    · have hq : x / 256 < 256 ^ w := by
        rw [Nat.div_lt_iff_lt_mul (by omega)]; rw [pow_succ] at h; exact h
      rw [natToBE_step x h0]
      unfold beToNat
      rw [List.foldl_append]
      have := ih _ hq
      unfold beToNat at this
      rw [this]
      simp only [List.foldl_cons, List.foldl_nil]
      have : (UInt8.ofNat (x % 256)).toNat = x % 256 := by
        rw [UInt8.toNat_ofNat']; exact Nat.mod_eq_of_lt (Nat.mod_lt _ (by omega))
      rw [this]; omega

theorem natToBE_length_le_iff (x : Nat) : (natToBE x).length ≤ 32 ↔ x < 2 ^ 256 := by
  constructor
  · intro h
    by_contra hge
    -- a number ≥ 256^32 has at least 33 digits
    have key : ∀ (w x : Nat), 256 ^ w ≤ x → w < (natToBE x).length := by
      intro w
      induction w with
      | zero => intro x hx
                have h0 : x ≠ 0 := by have : 1 ≤ x := by simpa using hx
                                      omega
                rw [natToBE_step x h0]; simp
      | succ w ih =>
        intro x hx
        have h0 : x ≠ 0 := by have : 0 < 256 ^ (w + 1) := by positivity
                              omega
        rw [natToBE_step x h0, List.length_append, List.length_singleton]
        have : 256 ^ w ≤ x / 256 := by
          rw [Nat.le_div_iff_mul_le (by omega)]; rw [pow_succ] at hx; exact hx
        have := ih _ this
        omega
    have := key 32 x (by have : (256 : Nat) ^ 32 = 2 ^ 256 := by norm_num
                         omega)
    omega
  · intro h
    exact natToBE_length_le 32 x (by have : (256 : Nat) ^ 32 = 2 ^ 256 := by norm_num
                                     omega)

/-- **id_key_roundtrip**: reading an id back from its map key gives the id, for every id below
    `2^256` (with or without leading zero bytes). -/
theorem id_key_roundtrip' (x : Nat) (hx : x < 2 ^ 256) :
    ∃ cs, idHexChars x = some cs ∧ idSetHex cs = .ok x := by
  have hl := (natToBE_length_le_iff x).2 hx
  refine ⟨'0' :: 'x' :: hexChars (padLeft 32 (natToBE x)), ?_, ?_⟩
  · simp [idHexChars, idSerialize, hl]
  · have hne : (hexChars (padLeft 32 (natToBE x))).isEmpty = false := by
      have hlen : (padLeft 32 (natToBE x)).length = 32 := by
        simp only [padLeft, List.length_append, List.length_replicate]; omega
      cases hp : padLeft 32 (natToBE x) with
      | nil => rw [hp] at hlen; simp at hlen
      | cons b bs => simp [hexChars, hexCharsOfByte]
    simp only [idSetHex, hne, Bool.false_eq_true, if_false]
    rw [parseHexAux_hexChars]
    have : (padLeft 32 (natToBE x)).foldl (fun a b => a * 256 + b.toNat) 0 = x := by
      have h1 := beToNat_replicate_zero (32 - (natToBE x).length) (natToBE x)
      have h2 := beToNat_natToBE 32 x (by have : (256 : Nat) ^ 32 = 2 ^ 256 := by norm_num
                                          omega)
      unfold beToNat padLeft at *
      rw [h1, h2]
    simp [this]

end Rangers.Proofs.C13
