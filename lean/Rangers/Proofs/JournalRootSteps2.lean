import Rangers.Proofs.JournalRootSteps
/-! `RevAt c SimR` for the balance ops on the bound token contract (Proposal002 active). -/
namespace Rangers.Proofs.JournalG
open Rangers Rangers.Model.Journal Rangers.Proofs.Journal

variable {c : Cfg}

theorem warm_read {o : Obj} {k : Key} (h : WarmObj o k) : WarmObj (o.read k).1 k := by
  obtain ⟨ha, hc, hd, hcoh⟩ := h
  have e := Obj.read_fst_other o k
  refine ⟨by rw [e]; exact ha, by rw [read_cemp o k (Or.inl hc)]; exact hc, by rw [e]; exact hd, ?_⟩
  have hg : (o.read k).1.get k = o.get k := Obj.read_fst_get o k k
  have hf : Fx (o.read k).1 k = Fx o k := by rw [e]; rfl
  rw [hg, hf]; exact hcoh

/-- a balance read that cannot change cache emptiness of the token contract object -/
def BalReadOk (c : Cfg) (s : ADB) (a : Addr) : Prop :=
  CreateOk s c.tok ∧ (match res s c.tok with | .live o => ReadOkObj o (c.balKey a) | _ => True)

instance (c : Cfg) (s : ADB) (a : Addr) : Decidable (BalReadOk c s a) := by
  unfold BalReadOk; apply instDecidableAnd (dq := ?_); split <;> infer_instance

theorem revAtR_getBalance (s : ADB) (a : Addr) (hok : BalReadOk c s a) : RevAt c SimR (fun x => (getBalance c x a).1) s :=
  revAtR_viaResolveNew s c.tok _ (fun s1 _ => (readAt s1 c.tok (c.balKey a)).1) true
    (fun h => by simp [getBalance, h])
    (fun h => by simp only [getBalance, h, Bool.false_eq_true, if_false]; rcases resolveNew s c.tok with ⟨s1, _ | _⟩ <;> rfl)
    hok.1 (fun s1 o _ hm hd hl => by
      refine revAtR_readAt _ hm hd ?_
      rcases hl with hl | ⟨_, rfl⟩
      · have := hok.2; rw [hl] at this; exact this
      · exact Or.inr rfl)

/-- read the balance slot, then a journaled write of a value computed from what was read -/
theorem revAtR_read_then_set {s : ADB} {a : Addr} {o : Obj} (k : Key) (v : Val)
    (hs : s.crashed = false) (hm : mget s.objs a = some o) (hd : o.deleted = false) (hw : WarmObj o k) :
    RevAt c SimR (fun x => setDataJ (readAt x a k).1 a k v) s := by
  obtain ⟨h1, _, _⟩ := readAt_sim k hm hd
  have hrd := revAtR_readAt (c := c) k hm hd (Or.inl hw.2.1)
  have hc1 : (readAt s a k).1.crashed = false := by rw [h1]; exact hs
  have hm1 : mget (readAt s a k).1.objs a = some (o.read k).1 := by rw [h1]; simp [putObj]
  have hd' : (o.read k).1.deleted = false := by rw [Obj.read_fst_other]; exact hd
  exact RevAt.comp (relOk_SimR c) hrd (revAtR_setDataJ k v hc1 hm1 hd' (warm_read hw))

theorem revAtR_addBalance (hp : c.p002 = true) (s : ADB) (a : Addr) (n : Nat) (hok : DataOk s c.tok (c.balKey a)) :
    RevAt c SimR (fun x => addBalance c x a n) s :=
  revAtR_viaResolveNew s c.tok _
    (fun s1 _ => if (readAt s1 c.tok (c.balKey a)).1.crashed then (readAt s1 c.tok (c.balKey a)).1
      else setDataJ (readAt s1 c.tok (c.balKey a)).1 c.tok (c.balKey a) (natToBE (beToNat (readAt s1 c.tok (c.balKey a)).2 + n))) true
    (fun h => by simp [addBalance, getBalance, h])
    (fun h => by
      simp only [addBalance, getBalance, h, Bool.false_eq_true, if_false]
      rcases resolveNew s c.tok with ⟨s1, _ | _⟩
      · simp [crash]
      · simp only [balWrite, hp, if_true])
    (createOk_of_dataOk hok) (fun s1 o h1 hm hd hl => by
      have hw := warm_of_link hok hl
      have hc : (readAt s1 c.tok (c.balKey a)).1.crashed = false := (readAt_crashed _ hm).trans h1
      exact RevAtR.congr_at (f' := fun x => setDataJ (readAt x c.tok (c.balKey a)).1 c.tok (c.balKey a)
          (natToBE (beToNat (readAt s1 c.tok (c.balKey a)).2 + n)))
        (by simp [hc]) (revAtR_read_then_set _ _ h1 hm hd hw))

theorem revAtR_subBalance (hp : c.p002 = true) (s : ADB) (a : Addr) (n : Nat) (hok : DataOk s c.tok (c.balKey a)) :
    RevAt c SimR (fun x => (subBalance c x a n).1) s :=
  revAtR_viaResolveNew s c.tok _
    (fun s1 _ => if (readAt s1 c.tok (c.balKey a)).1.crashed then (readAt s1 c.tok (c.balKey a)).1
      else if beToNat (readAt s1 c.tok (c.balKey a)).2 < n then (readAt s1 c.tok (c.balKey a)).1
      else setDataJ (readAt s1 c.tok (c.balKey a)).1 c.tok (c.balKey a) (natToBE (beToNat (readAt s1 c.tok (c.balKey a)).2 - n))) true
    (fun h => by simp [subBalance, getBalance, h])
    (fun h => by
      simp only [subBalance, getBalance, h, Bool.false_eq_true, if_false]
      rcases resolveNew s c.tok with ⟨s1, _ | _⟩
      · simp [crash]
      · simp only [balWrite, hp, if_true]; split <;> (try split) <;> rfl)
    (createOk_of_dataOk hok) (fun s1 o h1 hm hd hl => by
      have hw := warm_of_link hok hl
      have hc : (readAt s1 c.tok (c.balKey a)).1.crashed = false := (readAt_crashed _ hm).trans h1
      by_cases hlt : beToNat (readAt s1 c.tok (c.balKey a)).2 < n
      · exact RevAtR.congr_at (f' := fun x => (readAt x c.tok (c.balKey a)).1) (by simp [hc, hlt])
          (revAtR_readAt _ hm hd (Or.inl hw.2.1))
      · exact RevAtR.congr_at (f' := fun x => setDataJ (readAt x c.tok (c.balKey a)).1 c.tok (c.balKey a)
            (natToBE (beToNat (readAt s1 c.tok (c.balKey a)).2 - n)))
          (by simp [hc, hlt]) (revAtR_read_then_set _ _ h1 hm hd hw))

/-- `Transfer`: the credit runs in the state the debit left -/
def TransferOk (c : Cfg) (s : ADB) (a b : Addr) (n : Nat) : Prop :=
  n = 0 ∨ (DataOk s c.tok (c.balKey a) ∧ DataOk (subBalance c s a n).1 c.tok (c.balKey b))

instance (c : Cfg) (s : ADB) (a b : Addr) (n : Nat) : Decidable (TransferOk c s a b n) := by
  unfold TransferOk; infer_instance

theorem revAtR_transfer (hp : c.p002 = true) (s : ADB) (a b : Addr) (n : Nat) (hok : TransferOk c s a b n) :
    RevAt c SimR (fun x => transfer c x a b n) s := by
  by_cases hs : s.crashed = true
  · exact RevAtR.of_crashed_fix (by simp [transfer, hs])
  by_cases hn : n = 0
  · exact RevAtR.of_crashed_fix (by simp [transfer, hs, hn])
  rcases hok with h0 | ⟨h1, h2⟩
  · exact absurd h0 hn
  have r1 := revAtR_subBalance hp s a n h1
  by_cases hnc : (subBalance c s a n).1.crashed = true
  · exact RevAtR.congr_at (f' := fun x => (subBalance c x a n).1) (by simp [transfer, hs, hn, hnc]) r1
  have r2 := revAtR_addBalance hp (subBalance c s a n).1 b n h2
  exact RevAtR.congr_at (f' := fun x => addBalance c (subBalance c x a n).1 b n) (by simp [transfer, hs, hn, hnc])
    (RevAt.comp (relOk_SimR c) r1 r2)

end Rangers.Proofs.JournalG
