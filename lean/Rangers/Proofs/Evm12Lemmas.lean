import Rangers.Model.Evm12Spec
/-! Helper lemmas for the C12 property theorems (core Lean only). -/
namespace Rangers.Model.Evm12

theorem AMap.get_set {β : Type} (m : AMap β) (d : β) (a b : Addr) (v : β) :
    AMap.get (AMap.set m a v) d b = if a = b then v else AMap.get m d b := by
  simp [AMap.set, AMap.get]

namespace World

@[simp] theorem getBalance_addBalance (w : World) (a b : Addr) (v : Nat) :
    (w.addBalance a v).getBalance b = if a = b then w.getBalance a + v else w.getBalance b := by
  simp [addBalance, getBalance, AMap.get_set]

theorem obs_addBalance_zero (w : World) (a : Addr) : obs (w.addBalance a 0) = obs w := by
  have h : (w.addBalance a 0).getBalance = w.getBalance := by
    funext b
    rw [getBalance_addBalance]
    split
    · next h => subst h; simp
    · rfl
  simp only [obs, h]
  rfl

theorem obs_subBalance_zero (w : World) (a : Addr) : obs (w.subBalance a 0) = obs w := by
  unfold subBalance
  simp only [Nat.not_lt_zero, ↓reduceIte, Nat.sub_zero]
  have h : ({ w with bal := w.bal.set a (w.getBalance a) } : World).getBalance = w.getBalance := by
    funext b
    simp only [getBalance, AMap.get_set]
    split
    · next h => subst h; rfl
    · rfl
  simp only [obs, h]
  rfl

theorem obs_transfer_zero (w : World) (a b : Addr) : obs (w.transfer a b 0) = obs w := by
  unfold transfer
  rw [obs_addBalance_zero, obs_subBalance_zero]

end World

theorem exists_createAccount (w : World) (t a : Addr) (hne : w.exists? t = false) :
    (w.createAccount t).exists? a = if t = a then true else w.exists? a := by
  unfold World.createAccount World.touchNew
  rw [hne]
  simp only [Bool.false_eq_true, ↓reduceIte, World.exists?, AMap.get_set]

theorem createAccount_fields (w : World) (t : Addr) :
    (w.createAccount t).getNonce = w.getNonce ∧ (w.createAccount t).getBalance = w.getBalance
    ∧ (w.createAccount t).getCode = w.getCode ∧ (w.createAccount t).getState = w.getState
    ∧ (w.createAccount t).logs = w.logs ∧ (w.createAccount t).getStake = w.getStake
    ∧ (w.createAccount t).hasSuicided = w.hasSuicided := by
  unfold World.createAccount World.touchNew
  split <;> exact ⟨rfl, rfl, rfl, rfl, rfl, rfl, rfl⟩

/-- creating the (empty) account object of an address that has none does not change the live
    observation of a well-formed world, and keeps it well-formed -/
theorem liveObs_createAccount (w : World) (t : Addr) (hwf : (obs w).WF) (hne : w.exists? t = false) :
    liveObs (w.createAccount t) = liveObs w ∧ (obs (w.createAccount t)).WF := by
  obtain ⟨hn, hb, hc, hs, hl, hst, hsu⟩ := createAccount_fields w t
  have hwt := hwf t (by simpa [obs] using hne)
  constructor
  · simp only [liveObs, Obs.toLive, obs, hn, hb, hc, hs, hl, hst, hsu]
    congr 1
    funext a
    rw [exists_createAccount w t a hne]
    by_cases h : t = a
    · subst h
      simp only [↓reduceIte, true_and, hne]
      apply propext
      constructor
      · intro hx
        rcases hx with h1 | h1 | ⟨k, h1⟩
        · exact absurd hwt.1 h1
        · exact absurd hwt.2.1 h1
        · exact absurd (hwt.2.2 k) h1
      · intro hx; exact absurd hx.1 (by simp)
    · simp only [h, ↓reduceIte]
      rfl
  · intro a ha
    simp only [obs] at ha ⊢
    rw [exists_createAccount w t a hne] at ha
    by_cases h : t = a
    · simp [h] at ha
    · simp only [h, ↓reduceIte] at ha
      have := hwf a (by simpa [obs] using ha)
      simpa [obs, hn, hc, hs] using this

theorem liveObs_congr {w1 w2 : World} (h : obs w1 = obs w2) : liveObs w1 = liveObs w2 := by
  simp [liveObs, h]

end Rangers.Model.Evm12

namespace Rangers.Model.Evm12

/-- `w'` has the live observation of `w` and is well-formed -/
def Keeps (w w' : World) : Prop := liveObs w' = liveObs w ∧ (obs w').WF

theorem Keeps.refl {w : World} (h : (obs w).WF) : Keeps w w := ⟨rfl, h⟩

theorem Keeps.of_obs_eq {w w' : World} (h : obs w' = obs w) (hwf : (obs w).WF) : Keeps w w' :=
  ⟨liveObs_congr h, by rw [h]; exact hwf⟩

theorem Keeps.trans {a b c : World} (h1 : Keeps a b) (h2 : Keeps b c) : Keeps a c :=
  ⟨h2.1.trans h1.1, h2.2⟩

theorem writes_call_false : opWrites .call = false := by decide
theorem writes_sstore : opWrites .sstore = true := by decide
theorem writes_log (n : Fin 5) : opWrites (.log n) = true := by revert n; decide
theorem writes_selfdestruct : opWrites .selfdestruct = true := by decide
theorem writes_create : opWrites .create = true := by decide
theorem writes_create2 : opWrites .create2 = true := by decide

theorem roBlocked_call_value {v : Nat} (h : roBlocked true CallKind.call.op v = false) : v = 0 := by
  simp [roBlocked, CallKind.op, writes_call_false] at h
  exact h

theorem callExit_err (env : Env) (kind : CallKind) (saved : World) (r : Result) :
    (callExit env kind saved r).err = r.err := rfl

theorem callExit_world (env : Env) (kind : CallKind) (saved : World) (r : Result) :
    (callExit env kind saved r).world = if r.err.isSome then env.rv saved r.world else r.world := rfl

/-- the four call entry points in a read-only frame: whatever the callee does keeps the live
    observation, so does the frame -/
theorem static_callFrameK (env : Env) (hrv : RevertRestoresObs env.rv) (depth : Nat) (self : Addr)
    (kind : CallKind) (target : Addr) (value : Nat) (k : Nat → Bool → Addr → World → Result)
    (pe : Option Err) (w : World)
    (hk : ∀ d s w0, (obs w0).WF → Keeps w0 (k d true s w0).world)
    (hnb : roBlocked true kind.op value = false) (hwf : (obs w).WF) :
    Keeps w (callFrameK env depth true self kind target value k pe w).world := by
  have exitKeeps : ∀ (w2 : World) (s : Addr) (callee : Callee), Keeps w w2 →
      Keeps w (callExit env kind w (runCallee callee pe k depth true s w2)).world := by
    intro w2 s callee h2
    rw [callExit_world]
    split
    · exact Keeps.of_obs_eq (hrv _ _) hwf
    · cases callee
      · exact h2
      · exact h2.trans (hk _ _ _ h2.2)
      · exact h2
  unfold callFrameK callEnter
  split
  · next h =>
    split at h
    · cases h; exact Keeps.refl hwf
    · cases kind <;> simp only at h
      · -- call
        have hv : value = 0 := roBlocked_call_value hnb
        subst hv
        simp only [bne_self_eq_false, Bool.false_and, Bool.false_eq_true, ↓reduceIte, beq_self_eq_true,
          Bool.and_true] at h
        split at h <;> cases h
      · split at h <;> cases h
        exact Keeps.refl hwf
      · cases h
      · cases h
  · next h =>
    split at h
    · cases h
    · cases kind <;> simp only at h
      · have hv : value = 0 := roBlocked_call_value hnb
        subst hv
        simp only [bne_self_eq_false, Bool.false_and, Bool.false_eq_true, ↓reduceIte, beq_self_eq_true,
          Bool.and_true] at h
        split at h <;> cases h
        exact Keeps.refl hwf
      · split at h <;> cases h
      · cases h
      · cases h
  · next saved w' self' ro' exec h =>
    split at h
    · cases h
    · cases kind <;> simp only at h
      · have hv : value = 0 := roBlocked_call_value hnb
        subst hv
        simp only [bne_self_eq_false, Bool.false_and, Bool.false_eq_true, ↓reduceIte, beq_self_eq_true,
          Bool.and_true] at h
        split at h
        · cases h
        · injection h with h1 h2 h3 h4 h5
          subst h1 h2 h3 h4 h5
          apply exitKeeps
          split
          · exact Keeps.of_obs_eq (World.obs_transfer_zero _ _ _) hwf
          · next hex =>
            have hne : w.exists? target = false := by simpa using hex
            obtain ⟨hl, hw⟩ := liveObs_createAccount w target hwf hne
            exact Keeps.trans ⟨hl, hw⟩ (Keeps.of_obs_eq (World.obs_transfer_zero _ _ _) hw)
      · split at h
        · cases h
        · injection h with h1 h2 h3 h4 h5
          subst h1 h2 h3 h4 h5
          exact exitKeeps _ _ _ (Keeps.refl hwf)
      · injection h with h1 h2 h3 h4 h5
        subst h1 h2 h3 h4 h5
        exact exitKeeps _ _ _ (Keeps.refl hwf)
      · injection h with h1 h2 h3 h4 h5
        subst h1 h2 h3 h4 h5
        exact exitKeeps _ _ _ (Keeps.of_obs_eq (World.obs_addBalance_zero _ _) hwf)

end Rangers.Model.Evm12

namespace Rangers.Model.Evm12

/-- Induction over the frame tree: in a read-only frame (`in.readOnly` set), a body without
    AUTHCALL / STAKE-family opcodes keeps the live observation, at every nesting depth, whether
    it and its sub-frames succeed or fail. -/
theorem static_run (env : Env) (hrv : RevertRestoresObs env.rv) :
    ∀ (f : Frame), f.plain = true → ∀ (depth : Nat) (self : Addr) (w : World) (clogs : List Log)
      (tr : List Event), (obs w).WF → Keeps w (run env depth true self w clogs tr f).world := by
  intro f
  induction f with
  | done e =>
    intro _ depth self w clogs tr hwf
    cases e <;> exact Keeps.refl hwf
  | sstore k v rest _ =>
    intro _ depth self w clogs tr hwf
    simp only [run, roBlocked, writes_sstore, Bool.true_or, Bool.and_self, ↓reduceIte, failWith]
    exact Keeps.refl hwf
  | tstore k v rest _ =>
    intro _ depth self w clogs tr hwf
    simp only [run, ↓reduceIte, failWith]
    split <;> exact Keeps.refl hwf
  | log n tag rest _ =>
    intro _ depth self w clogs tr hwf
    simp only [run, roBlocked, writes_log, Bool.true_or, Bool.and_self, ↓reduceIte, failWith]
    exact Keeps.refl hwf
  | selfdestruct ben =>
    intro _ depth self w clogs tr hwf
    simp only [run, roBlocked, writes_selfdestruct, Bool.true_or, Bool.and_self, ↓reduceIte, failWith]
    exact Keeps.refl hwf
  | call id kind target value body rest ihb ihr =>
    intro hp depth self w clogs tr hwf
    simp only [Frame.plain, Bool.and_eq_true] at hp
    rw [run]
    split
    · exact Keeps.refl hwf
    · next hnb =>
      have h1 := static_callFrameK env hrv depth self kind target value
        (fun d ro' self' w' => run env d ro' self' w' [] [] body) (precompileOutcome body) w
        (fun d s w0 hw0 => ihb hp.1 d s w0 [] [] hw0) (by simpa using hnb) hwf
      exact h1.trans (ihr hp.2 _ _ _ _ _ h1.2)
  | create id two salt value init rest _ _ =>
    intro _ depth self w clogs tr hwf
    rw [run]
    cases two <;>
      simp only [roBlocked, writes_create, writes_create2, Bool.true_or, Bool.and_self, ↓reduceIte,
        Bool.false_eq_true, failWith] <;> exact Keeps.refl hwf
  | authcall id au n target value body rest _ _ => intro hp; simp [Frame.plain] at hp
  | stake a rest _ => intro hp; simp [Frame.plain] at hp
  | unstake a rest _ => intro hp; simp [Frame.plain] at hp
  | unstakeall rest _ => intro hp; simp [Frame.plain] at hp
  | stakenum a rest _ => intro hp; simp [Frame.plain] at hp

end Rangers.Model.Evm12

namespace Rangers.Model.Evm12

/-- the four call entry points take their snapshot before touching the world: whatever
    `callEnter` returns, the snapshot / the world handed back by a refusing pre-check is `w` -/
theorem callEnter_snapshot (env : Env) (depth : Nat) (ro : Bool) (self : Addr) (kind : CallKind)
    (target : Addr) (value : Nat) (w : World) :
    match callEnter env depth ro self kind target value w with
    | .fail w' _ => w' = w
    | .skip w' => w' = w
    | .enter saved _ _ _ _ => saved = w := by
  unfold callEnter
  by_cases hd : depth > CallCreateDepth
  · simp [hd]
  · simp only [hd, ↓reduceIte]
    cases kind <;> simp only
    · by_cases h1 : (value != 0 && !w.canTransfer self value) = true
      · simp [h1]
      · simp only [h1, Bool.false_eq_true, ↓reduceIte]
        by_cases h2 : (!w.exists? target && !env.isPrecompile target && value == 0) = true
        · simp [h2]
        · simp [h2]
    · by_cases h1 : (!w.canTransfer self value) = true
      · simp [h1]
      · simp [h1]

end Rangers.Model.Evm12
