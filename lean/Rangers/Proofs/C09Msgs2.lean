import Rangers.Proofs.C09Msgs
/-! Wire round trips for Group and Block (C09). Core Lean only. -/
namespace Rangers.Wire
open Rangers

theorem RawWF_len (n : Nat) (b : Bytes) (h1 : 1 ≤ n) (h2 : n < 2 ^ 61) (h3 : b.length < 2 ^ 64) :
    RawWF (.len n b) := ⟨h1, h2, h3⟩

theorem RawsWF_repLenR (n : Nat) (l : List Bytes) (h1 : 1 ≤ n) (h2 : n < 2 ^ 61)
    (h : ∀ b ∈ l, b.length < 2 ^ 64) : RawsWF (repLenR n l) := by
  induction l with
  | nil => intro r hr; simp [repLenR] at hr
  | cons b l ih =>
    intro r hr
    simp only [repLenR, List.mem_cons] at hr
    rcases hr with rfl | hr
    · exact ⟨h1, h2, h b (by simp)⟩
    · exact ih (fun x hx => h x (by simp [hx])) r hr

theorem groupHeaderOfRaws_raws (g : PbGroupHeader) : groupHeaderOfRaws (rawsOfGroupHeader g) = g := by
  cases g
  simp [groupHeaderOfRaws, rawsOfGroupHeader, lastLen_append, lastVint_append]

theorem groupHeaderReq_raws (g : PbGroupHeader) (h1 : g.memberRoot.isSome) (h2 : g.createHeight.isSome) :
    groupHeaderReq (rawsOfGroupHeader g) = true := by
  cases g with
  | mk hash parent preGroup cbh bt mr ch ext =>
  simp only [Option.isSome_iff_exists] at h1 h2
  obtain ⟨a, rfl⟩ := h1
  obtain ⟨b, rfl⟩ := h2
  simp [groupHeaderReq, hasLen, hasVint, rawsOfGroupHeader, lastLen_append, lastVint_append]

/-- Everything `MarshalGroup` emits fits the framing, and the required fields are set. -/
def PbGroupWF (p : PbGroup) : Prop :=
  RawsWF (rawsOfGroup p) ∧
  ∃ g, p.header = some g ∧ RawsWF (rawsOfGroupHeader g) ∧ g.memberRoot.isSome ∧ g.createHeight.isSome

theorem decGroup_encGroup (p : PbGroup) (h : PbGroupWF p) : decGroup (encGroup p) = some p := by
  obtain ⟨hwf, g, hg, hgwf, hmr, hch⟩ := h
  cases p with
  | mk header id pubKey signature members groupHeight =>
  simp only at hg
  subst hg
  unfold decGroup encGroup
  rw [parseRaw_encRaws _ hwf]
  have e := fun n (hn : n ≠ 5) => lastLen_repLenR_ne n 5 members (fun h => hn h.symm)
  have hreq : groupReq (rawsOfGroup ⟨some g, id, pubKey, signature, members, groupHeight⟩) = true := by
    simp [groupReq, hasLen, rawsOfGroup, lastLen_append, e 1 (by decide)]
  have h1 : allLen 1 (rawsOfGroup ⟨some g, id, pubKey, signature, members, groupHeight⟩)
      = [encRaws (rawsOfGroupHeader g)] := by
    simp [rawsOfGroup, allLen_append]
  have h5 : allLen 5 (rawsOfGroup ⟨some g, id, pubKey, signature, members, groupHeight⟩) = members := by
    simp [rawsOfGroup, allLen_append]
  have hm : mergedChunks groupHeaderReq [encRaws (rawsOfGroupHeader g)] = some (rawsOfGroupHeader g) := by
    simp [mergedChunks, mapM', parseRaw_encRaws _ hgwf, groupHeaderReq_raws g hmr hch, flat]
  simp only [hreq, if_true, h1, hm, h5, groupHeaderOfRaws_raws]
  simp [rawsOfGroup, lastLen_append, lastVint_append, e 2 (by decide), e 3 (by decide), e 4 (by decide)]

/-- Everything `MarshalBlock` emits fits the framing at every level. -/
def PbBlockWF (p : PbBlock) : Prop :=
  RawsWF (rawsOfBlock p) ∧ (∃ h, p.header = some h ∧ PbHeaderWF h) ∧
  ∀ t ∈ p.transactions, RawsWF (rawsOfTx t) ∧ OptI32OK t.type ∧ OptI32OK t.extraDataType ∧ t.type.isSome

theorem decBlock_encBlock (p : PbBlock) (h : PbBlockWF p) : decBlock (encBlock p) = some p := by
  obtain ⟨hwf, ⟨ph, hph, hphwf⟩, htx⟩ := h
  cases p with
  | mk header transactions =>
  simp only at hph htx
  subst hph
  unfold decBlock encBlock
  rw [parseRaw_encRaws _ hwf]
  have e := fun n (hn : n ≠ 2) => lastLen_repLenR_ne n 2 (transactions.map encTx) (fun h => hn h.symm)
  have hreq : blockReq (rawsOfBlock ⟨some ph, transactions⟩) = true := by
    simp [blockReq, hasLen, rawsOfBlock, lastLen_append, e 1 (by decide)]
  have h1 : allLen 1 (rawsOfBlock ⟨some ph, transactions⟩) = [encHeader ph] := by
    simp [rawsOfBlock, allLen_append]
  have h2 : allLen 2 (rawsOfBlock ⟨some ph, transactions⟩) = transactions.map encTx := by
    simp [rawsOfBlock, allLen_append]
  have hm : mergedChunks (fun _ => true) [encHeader ph] = some (rawsOfHeader ph) := by
    simp [mergedChunks, mapM', encHeader, parseRaw_encRaws _ hphwf.1, flat]
  have ht : mapM' decTx (transactions.map encTx) = some transactions :=
    mapM'_map decTx encTx transactions (fun t ht => by
      obtain ⟨a, b, c, d⟩ := htx t ht
      exact decTx_encTx t a b c d)
  simp only [hreq, if_true, h1, hm, headerOfRaws_raws ph hphwf, h2, ht]

end Rangers.Wire
