import Rangers.Model.Evm12Spec
/-! C12 helper lemmas: execution only appends logs stamped with the current transaction hash
(or reverts to an earlier such state). Core Lean only. -/
namespace Rangers.Model.Evm12

/-- same logs and same stamping context -/
def SameLogCtx (w w' : World) : Prop :=
  w'.logs = w.logs ∧ w'.thash = w.thash ∧ w'.txIndex = w.txIndex

theorem LogsExtend.refl (w : World) : LogsExtend w w := ⟨rfl, rfl, [], by simp, by simp⟩

theorem LogsExtend.of_same {w w' : World} (h : SameLogCtx w w') : LogsExtend w w' :=
  ⟨h.2.1, h.2.2, [], by simp [h.1], by simp⟩

theorem LogsExtend.trans {a b c : World} (h1 : LogsExtend a b) (h2 : LogsExtend b c) : LogsExtend a c := by
  obtain ⟨t1, i1, n1, l1, p1⟩ := h1
  obtain ⟨t2, i2, n2, l2, p2⟩ := h2
  refine ⟨t2.trans t1, i2.trans i1, n1 ++ n2, by rw [l2, l1, List.append_assoc], ?_⟩
  intro l hl
  rcases List.mem_append.mp hl with h | h
  · exact p1 l h
  · rw [← t1]; exact p2 l h

theorem LogsExtend.same_right {a b c : World} (h1 : LogsExtend a b) (h2 : SameLogCtx b c) : LogsExtend a c :=
  h1.trans (LogsExtend.of_same h2)

namespace World

theorem same_touchNew (w : World) (a : Addr) : SameLogCtx w (w.touchNew a) := by
  unfold touchNew; split <;> exact ⟨rfl, rfl, rfl⟩
theorem same_createAccount (w : World) (a : Addr) : SameLogCtx w (w.createAccount a) := same_touchNew w a
theorem same_setNonce (w : World) (a : Addr) (n : Nat) : SameLogCtx w (w.setNonce a n) := by
  have := same_touchNew w a
  exact ⟨this.1, this.2.1, this.2.2⟩
theorem same_setState (w : World) (a : Addr) (k v : Nat) : SameLogCtx w (w.setState a k v) := by
  have := same_touchNew w a
  exact ⟨this.1, this.2.1, this.2.2⟩
theorem same_setCode (w : World) (a : Addr) (c : Code) : SameLogCtx w (w.setCode a c) := by
  have := same_touchNew w a
  exact ⟨this.1, this.2.1, this.2.2⟩
theorem same_addBalance (w : World) (a : Addr) (v : Nat) : SameLogCtx w (w.addBalance a v) := ⟨rfl, rfl, rfl⟩
theorem same_subBalance (w : World) (a : Addr) (v : Nat) : SameLogCtx w (w.subBalance a v) := by
  unfold subBalance; split <;> exact ⟨rfl, rfl, rfl⟩
theorem same_transfer (w : World) (a b : Addr) (v : Nat) : SameLogCtx w (w.transfer a b v) := by
  have h1 := same_subBalance w a v
  have h2 := same_addBalance (w.subBalance a v) b v
  exact ⟨h2.1.trans h1.1, h2.2.1.trans h1.2.1, h2.2.2.trans h1.2.2⟩
theorem same_suicide (w : World) (a : Addr) : SameLogCtx w (w.suicide a) := by
  unfold suicide; split <;> exact ⟨rfl, rfl, rfl⟩
theorem same_setTransient (w : World) (a : Addr) (k v : Nat) : SameLogCtx w (w.setTransient a k v) := ⟨rfl, rfl, rfl⟩
theorem same_selfdestructRefund (w : World) (a : Addr) : SameLogCtx w (w.selfdestructRefund a) := by
  unfold selfdestructRefund; split <;> exact ⟨rfl, rfl, rfl⟩
theorem same_addAccess (w : World) (a : Addr) : SameLogCtx w (w.addAccess a) := by
  unfold addAccess; split <;> exact ⟨rfl, rfl, rfl⟩

theorem extend_addLog (w : World) (a : Addr) (n t : Nat) : LogsExtend w (w.addLog a n t) :=
  ⟨rfl, rfl, [w.newLog a n t], rfl, by simp [newLog]⟩

end World

theorem SameLogCtx.trans {a b c : World} (h1 : SameLogCtx a b) (h2 : SameLogCtx b c) : SameLogCtx a c :=
  ⟨h2.1.trans h1.1, h2.2.1.trans h1.2.1, h2.2.2.trans h1.2.2⟩

theorem SameLogCtx.rfl' (w : World) : SameLogCtx w w := ⟨rfl, rfl, rfl⟩

/-- reverting to a snapshot that extends `w` still extends `w` -/
theorem LogsExtend.revert {rv : World → World → World} (hrv : RevertRestoresObs rv)
    (hk : RevertKeepsTxContext rv) {w saved : World} (cur : World) (h : LogsExtend w saved) :
    LogsExtend w (rv saved cur) := by
  apply h.same_right
  have h1 : (rv saved cur).logs = saved.logs := congrArg Obs.logs (hrv saved cur)
  exact ⟨h1, (hk saved cur).1, (hk saved cur).2⟩

end Rangers.Model.Evm12

namespace Rangers.Model.Evm12

/-- the statements of an entry point that precede `run` emit no log and keep the tx context -/
def Entry.same (w : World) : Entry → Prop
  | .fail w' _ => SameLogCtx w w'
  | .skip w' => SameLogCtx w w'
  | .enter saved w' _ _ _ => SameLogCtx w saved ∧ SameLogCtx w w'

theorem same_ite_create (w : World) (t : Addr) :
    SameLogCtx w (if w.exists? t = true then w else w.createAccount t) := by
  split
  · exact SameLogCtx.rfl' w
  · exact World.same_createAccount w t

theorem callEnter_same (env : Env) (depth : Nat) (ro : Bool) (self : Addr) (kind : CallKind)
    (target : Addr) (value : Nat) (w : World) :
    (callEnter env depth ro self kind target value w).same w := by
  unfold callEnter
  by_cases hd : depth > CallCreateDepth
  · simp only [hd, ↓reduceIte]; exact SameLogCtx.rfl' w
  · simp only [hd, ↓reduceIte]
    cases kind <;> simp only
    · by_cases h1 : (value != 0 && !w.canTransfer self value) = true
      · simp only [h1, ↓reduceIte]; exact SameLogCtx.rfl' w
      · simp only [h1, Bool.false_eq_true, ↓reduceIte]
        by_cases h2 : (!w.exists? target && !env.isPrecompile target && value == 0) = true
        · simp only [h2, ↓reduceIte]; exact SameLogCtx.rfl' w
        · simp only [h2, Bool.false_eq_true, ↓reduceIte]
          exact ⟨SameLogCtx.rfl' w, (same_ite_create w target).trans (World.same_transfer _ _ _ _)⟩
    · by_cases h1 : (!w.canTransfer self value) = true
      · simp only [h1, ↓reduceIte]; exact SameLogCtx.rfl' w
      · simp only [h1, Bool.false_eq_true, ↓reduceIte]; exact ⟨SameLogCtx.rfl' w, SameLogCtx.rfl' w⟩
    · exact ⟨SameLogCtx.rfl' w, SameLogCtx.rfl' w⟩
    · exact ⟨SameLogCtx.rfl' w, World.same_addBalance w target 0⟩

theorem authEnter_same (env : Env) (depth : Nat) (ro : Bool) (au target : Addr) (value : Nat) (w : World) :
    (authEnter env depth ro au target value w).same w := by
  unfold authEnter
  by_cases hd : depth > CallCreateDepth
  · simp only [hd, ↓reduceIte]; exact SameLogCtx.rfl' w
  · simp only [hd, ↓reduceIte]
    by_cases h1 : (value != 0 && !w.canTransfer env.origin value) = true
    · simp only [h1, ↓reduceIte]; exact SameLogCtx.rfl' w
    · simp only [h1, Bool.false_eq_true, ↓reduceIte]
      have h0 := World.same_setNonce w au (w.getNonce au + 1)
      by_cases h2 : (!(w.setNonce au (w.getNonce au + 1)).exists? target && !env.isPrecompile target
          && value == 0) = true
      · simp only [h2, ↓reduceIte]; exact h0
      · simp only [h2, Bool.false_eq_true, ↓reduceIte]
        exact ⟨h0, h0.trans ((same_ite_create _ target).trans (World.same_transfer _ _ _ _))⟩

theorem createEnter_tail_same (ro : Bool) (self : Addr) (value : Nat) (addr : Addr) (w w1 : World)
    (h0 : SameLogCtx w w1) :
    Entry.same w
      (if ((w1.addAccess addr).getNonce addr != 0 || (w1.addAccess addr).getCode addr != Code.empty) = true then
        Entry.fail (w1.addAccess addr) Err.collision
      else
        Entry.enter (w1.addAccess addr)
          ((((w1.addAccess addr).createAccount addr).setNonce addr 1).transfer self addr value) addr ro .code) := by
  have h2 := h0.trans (World.same_addAccess w1 addr)
  split
  · exact h2
  · exact ⟨h2, h2.trans (((World.same_createAccount _ addr).trans (World.same_setNonce _ addr 1)).trans
      (World.same_transfer _ _ _ _))⟩

theorem createEnter_same (env : Env) (depth : Nat) (ro : Bool) (self : Addr) (value : Nat) (addr : Addr)
    (w : World) : (createEnter env depth ro self value addr w).same w := by
  unfold createEnter
  by_cases hd : depth > CallCreateDepth
  · simp only [hd, ↓reduceIte]; exact SameLogCtx.rfl' w
  · simp only [hd, ↓reduceIte]
    by_cases h1 : (!w.canTransfer self value) = true
    · simp only [h1, ↓reduceIte]; exact SameLogCtx.rfl' w
    · simp only [h1, Bool.false_eq_true, ↓reduceIte]
      apply createEnter_tail_same
      split
      · exact World.same_setNonce _ _ _
      · exact SameLogCtx.rfl' w

variable {rv : World → World → World}

theorem runCallee_extend (callee : Callee) (pe : Option Err) (k : Nat → Bool → Addr → World → Result)
    (hk : ∀ d r s w0, LogsExtend w0 (k d r s w0).world) (depth : Nat) (ro : Bool) (self : Addr) (w : World) :
    LogsExtend w (runCallee callee pe k depth ro self w).world := by
  cases callee
  · exact LogsExtend.refl w
  · exact hk _ _ _ _
  · exact LogsExtend.refl w

theorem callFrameK_extend (env : Env) (hrv : RevertRestoresObs env.rv) (hkc : RevertKeepsTxContext env.rv)
    (depth : Nat) (ro : Bool) (self : Addr) (kind : CallKind) (target : Addr) (value : Nat)
    (k : Nat → Bool → Addr → World → Result) (pe : Option Err)
    (hk : ∀ d r s w0, LogsExtend w0 (k d r s w0).world) (w : World) :
    LogsExtend w (callFrameK env depth ro self kind target value k pe w).world := by
  have hs := callEnter_same env depth ro self kind target value w
  unfold callFrameK
  cases h : callEnter env depth ro self kind target value w with
  | fail w' e => rw [h] at hs; exact LogsExtend.of_same hs
  | skip w' => rw [h] at hs; exact LogsExtend.of_same hs
  | enter saved w' self' ro' callee =>
    rw [h] at hs
    simp only [callExit_world']
    split
    · exact LogsExtend.revert hrv hkc _ (LogsExtend.of_same hs.1)
    · exact (LogsExtend.of_same hs.2).trans (runCallee_extend callee pe k hk _ _ _ _)
where callExit_world' : ∀ (kind : CallKind) (saved : World) (r : Result),
    (callExit env kind saved r).world = if r.err.isSome then env.rv saved r.world else r.world := fun _ _ _ => rfl

end Rangers.Model.Evm12

namespace Rangers.Model.Evm12

theorem authFrameK_extend (env : Env) (hrv : RevertRestoresObs env.rv) (hkc : RevertKeepsTxContext env.rv)
    (depth : Nat) (ro : Bool) (au : Option Addr) (n : Nat) (target : Addr) (value : Nat)
    (k : Nat → Bool → Addr → World → Result) (pe : Option Err)
    (hk : ∀ d r s w0, LogsExtend w0 (k d r s w0).world) (w : World) :
    LogsExtend w (authFrameK env depth ro au n target value k pe w).world := by
  unfold authFrameK
  cases au with
  | none => exact LogsExtend.refl w
  | some a =>
    simp only
    split
    · exact LogsExtend.refl w
    · have hs := authEnter_same env depth ro a target value w
      cases h : authEnter env depth ro a target value w with
      | fail w' e => rw [h] at hs; exact LogsExtend.of_same hs
      | skip w' => rw [h] at hs; exact LogsExtend.of_same hs
      | enter saved w' self' ro' callee =>
        rw [h] at hs
        simp only [authExit]
        split
        · exact LogsExtend.revert hrv hkc _ (LogsExtend.of_same hs.1)
        · exact (LogsExtend.of_same hs.2).trans (runCallee_extend callee pe k hk _ _ _ _)

theorem createStored_extend (w : World) (addr : Addr) (r : Result) (hr : LogsExtend w r.world) :
    LogsExtend w (createStored addr r).1 := by
  unfold createStored
  split
  · split
    · exact hr.same_right (World.same_setCode _ _ _)
    · exact hr
    · exact hr.same_right (World.same_setCode _ _ _)
  · exact hr

theorem createExit_extend (env : Env) (hrv : RevertRestoresObs env.rv) (hkc : RevertKeepsTxContext env.rv)
    (w saved : World) (addr : Addr) (r : Result) (hs : LogsExtend w saved) (hr : LogsExtend w r.world) :
    LogsExtend w (createExit env saved addr r).world := by
  have hst := createStored_extend w addr r hr
  unfold createExit
  simp only
  split
  · exact LogsExtend.revert hrv hkc _ hs
  · exact hst

theorem createFrameK_extend (env : Env) (hrv : RevertRestoresObs env.rv) (hkc : RevertKeepsTxContext env.rv)
    (depth : Nat) (ro : Bool) (self : Addr) (two : Bool) (salt value : Nat)
    (k : Nat → Bool → Addr → World → Result) (hk : ∀ d r s w0, LogsExtend w0 (k d r s w0).world) (w : World) :
    LogsExtend w (createFrameK env depth ro self two salt value k w).world := by
  unfold createFrameK
  simp only
  have hs := createEnter_same env depth ro self value (createAddr w self two salt) w
  cases h : createEnter env depth ro self value (createAddr w self two salt) w with
  | fail w' e => rw [h] at hs; exact LogsExtend.of_same hs
  | skip w' => rw [h] at hs; exact LogsExtend.of_same hs
  | enter saved w' self' ro' exec =>
    rw [h] at hs
    exact createExit_extend env hrv hkc w saved _ _ (LogsExtend.of_same hs.1)
      ((LogsExtend.of_same hs.2).trans (hk _ _ _ _))

theorem stakeEffect_same (env : Env) (self : Addr) (amount : Nat) (w : World) :
    SameLogCtx w (stakeEffect env self amount w) := by
  unfold stakeEffect
  split
  · have h := World.same_subBalance w self (oneRPG * amount)
    exact ⟨h.1, h.2.1, h.2.2⟩
  · exact SameLogCtx.rfl' w

theorem unstakeEffect_same (env : Env) (self : Addr) (amount : Option Nat) (w : World) :
    SameLogCtx w (unstakeEffect env self amount w) := by
  unfold unstakeEffect
  split
  · split
    · exact ⟨rfl, rfl, rfl⟩
    · split <;> exact ⟨rfl, rfl, rfl⟩
  · exact SameLogCtx.rfl' w

/-- Induction over the frame tree: whatever a frame body does, the world it leaves extends the
    world it started from by logs stamped with the current transaction hash only. -/
theorem run_extend (env : Env) (hrv : RevertRestoresObs env.rv) (hkc : RevertKeepsTxContext env.rv) :
    ∀ (f : Frame) (depth : Nat) (ro : Bool) (self : Addr) (w : World) (clogs : List Log) (tr : List Event),
      LogsExtend w (run env depth ro self w clogs tr f).world := by
  intro f
  induction f with
  | done e => intro depth ro self w clogs tr; cases e <;> exact LogsExtend.refl w
  | sstore k v rest ih =>
    intro depth ro self w clogs tr
    rw [run]; split
    · exact LogsExtend.refl w
    · exact (LogsExtend.of_same (World.same_setState _ _ _ _)).trans (ih _ _ _ _ _ _)
  | tstore k v rest ih =>
    intro depth ro self w clogs tr
    rw [run]; split
    · exact LogsExtend.refl w
    · split
      · exact LogsExtend.refl w
      · exact (LogsExtend.of_same (World.same_setTransient _ _ _ _)).trans (ih _ _ _ _ _ _)
  | log n tag rest ih =>
    intro depth ro self w clogs tr
    rw [run]; split
    · exact LogsExtend.refl w
    · exact (World.extend_addLog _ _ _ _).trans (ih _ _ _ _ _ _)
  | selfdestruct ben =>
    intro depth ro self w clogs tr
    rw [run]; split
    · exact LogsExtend.refl w
    · exact LogsExtend.of_same (((World.same_selfdestructRefund _ _).trans (World.same_addBalance _ _ _)).trans
        (World.same_suicide _ _))
  | call id kind target value body rest ihb ihr =>
    intro depth ro self w clogs tr
    rw [run]; split
    · exact LogsExtend.refl w
    · exact (callFrameK_extend env hrv hkc depth ro self kind target value _ _
        (fun d r s w0 => ihb d r s w0 [] []) w).trans (ihr _ _ _ _ _ _)
  | create id two salt value init rest ihb ihr =>
    intro depth ro self w clogs tr
    rw [run]
    by_cases hb : roBlocked ro (if two = true then Op.create2 else Op.create) value = true
    · simp only [hb, ↓reduceIte]; exact LogsExtend.refl w
    · simp only [hb, Bool.false_eq_true, ↓reduceIte]
      exact (createFrameK_extend env hrv hkc depth ro self two salt value _
        (fun d r s w0 => ihb d r s w0 [] []) w).trans (ihr _ _ _ _ _ _)
  | authcall id au n target value body rest ihb ihr =>
    intro depth ro self w clogs tr
    rw [run]; split
    · exact LogsExtend.refl w
    · exact ((LogsExtend.of_same (World.same_addAccess w target)).trans
        (authFrameK_extend env hrv hkc depth ro au n target value _ _
          (fun d r s w0 => ihb d r s w0 [] []) _)).trans (ihr _ _ _ _ _ _)
  | stake a rest ih =>
    intro depth ro self w clogs tr
    rw [run]; split
    · exact LogsExtend.refl w
    · exact (LogsExtend.of_same (stakeEffect_same _ _ _ _)).trans (ih _ _ _ _ _ _)
  | unstake a rest ih =>
    intro depth ro self w clogs tr
    rw [run]; split
    · exact LogsExtend.refl w
    · exact (LogsExtend.of_same (unstakeEffect_same _ _ _ _)).trans (ih _ _ _ _ _ _)
  | unstakeall rest ih =>
    intro depth ro self w clogs tr
    rw [run]; split
    · exact LogsExtend.refl w
    · split
      · exact LogsExtend.refl w
      · exact (LogsExtend.of_same (unstakeEffect_same _ _ _ _)).trans (ih _ _ _ _ _ _)
  | stakenum a rest ih =>
    intro depth ro self w clogs tr
    rw [run]; split
    · exact LogsExtend.refl w
    · split
      · exact LogsExtend.refl w
      · exact ih _ _ _ _ _ _

end Rangers.Model.Evm12
