import Rangers.Proofs.C09Wire
/-! Per-message wire round trips for C09 (`decodeX (encodeX p) = some p`). Core Lean only. -/
namespace Rangers.Wire
open Rangers

def OptI32OK (o : Option Nat) : Prop := ∀ v, o = some v → v < 2 ^ 32

theorem RawsWF_append (a b : List Raw) : RawsWF (a ++ b) ↔ RawsWF a ∧ RawsWF b := by
  unfold RawsWF
  constructor
  · intro h
    exact ⟨fun r hr => h r (by simp [hr]), fun r hr => h r (by simp [hr])⟩
  · rintro ⟨ha, hb⟩ r hr
    rcases List.mem_append.mp hr with h | h
    · exact ha r h
    · exact hb r h

theorem map_trunc_sext (o : Option Nat) (h : OptI32OK o) : (o.map sext32).map trunc32 = o := by
  cases o with
  | none => rfl
  | some v => simp [trunc_sext v (h v rfl)]

theorem txOfRaws_rawsOfTx (p : PbTx) (h1 : OptI32OK p.type) (h2 : OptI32OK p.extraDataType) :
    txOfRaws (rawsOfTx p) = p := by
  cases p
  simp only [txOfRaws, rawsOfTx, lastLen_append, lastVint_append, lastLen_optLenR, lastLen_optVintR,
    lastVint_optVintR, lastVint_optLenR]
  simp [map_trunc_sext _ h1, map_trunc_sext _ h2]

end Rangers.Wire

namespace Rangers.Wire
open Rangers

theorem decTx_encTx (p : PbTx) (hwf : RawsWF (rawsOfTx p)) (h1 : OptI32OK p.type)
    (h2 : OptI32OK p.extraDataType) (ht : p.type.isSome) : decTx (encTx p) = some p := by
  unfold decTx encTx
  rw [parseRaw_encRaws _ hwf]
  have hreq : txReq (rawsOfTx p) = true := by
    cases p
    simp only [Option.isSome_iff_exists] at ht
    obtain ⟨v, hv⟩ := ht
    subst hv
    simp [txReq, hasVint, rawsOfTx, lastVint_append]
  simp only [hreq, if_true, txOfRaws_rawsOfTx p h1 h2]

theorem mapM'_map {α β : Type} (f : α → Option β) (g : β → α) (l : List β)
    (h : ∀ b ∈ l, f (g b) = some b) : mapM' f (l.map g) = some l := by
  induction l with
  | nil => rfl
  | cons b l ih =>
    have hb := h b (by simp)
    have hl := ih (fun x hx => h x (by simp [hx]))
    simp only [List.map_cons, mapM', hb, hl]

theorem decTxSlice_enc (ps : List PbTx)
    (hlen : ∀ p ∈ ps, (encTx p).length < 2 ^ 64)
    (h : ∀ p ∈ ps, RawsWF (rawsOfTx p) ∧ OptI32OK p.type ∧ OptI32OK p.extraDataType ∧ p.type.isSome) :
    decTxSlice (encTxSlice ps) = some ps := by
  unfold decTxSlice encTxSlice
  have hwf : RawsWF (repLenR 1 (ps.map encTx)) := by
    intro r hr
    induction ps with
    | nil => simp [repLenR] at hr
    | cons p ps ih =>
      simp only [List.map_cons, repLenR, List.mem_cons] at hr
      rcases hr with hr | hr
      · subst hr
        exact ⟨by omega, by omega, hlen p (by simp)⟩
      · exact ih (fun x hx => hlen x (by simp [hx])) (fun x hx => h x (by simp [hx])) hr
  rw [parseRaw_encRaws _ hwf]
  simp only [allLen_repLenR, if_true]
  exact mapM'_map decTx encTx ps (fun p hp => by
    obtain ⟨a, b, c, d⟩ := h p hp
    exact decTx_encTx p a b c d)

theorem txHashOfRaws_raws (t : PbTxHash) : txHashOfRaws (rawsOfTxHash t) = t := by
  cases t
  simp [txHashOfRaws, rawsOfTxHash, lastLen_append]

theorem decTxHash_enc (t : PbTxHash) (h : RawsWF (rawsOfTxHash t)) :
    decTxHash (encRaws (rawsOfTxHash t)) = some t := by
  unfold decTxHash
  simp only [parseRaw_encRaws _ h, txHashOfRaws_raws]

theorem flat_single {α : Type} (l : List α) : flat [l] = l := by simp [flat]

/-- Everything `encHeader` emits, at every nesting level, fits the 64-bit framing. -/
def PbHeaderWF (p : PbHeader) : Prop :=
  RawsWF (rawsOfHeader p) ∧ (∀ t ∈ p.transactions, RawsWF (rawsOfTxHash t)) ∧
  (∀ hs, p.evictedTxs = some hs → RawsWF (repLenR 1 hs))

theorem allLen12_header (p : PbHeader) :
    allLen 12 (rawsOfHeader p) = p.transactions.map (fun t => encRaws (rawsOfTxHash t)) := by
  unfold rawsOfHeader
  simp only [allLen_append, allLen_optLenR, allLen_optVintR, allLen_repLenR]
  simp

theorem allLen19_header (p : PbHeader) :
    allLen 19 (rawsOfHeader p) = (p.evictedTxs.map (fun hs => encRaws (repLenR 1 hs))).toList := by
  unfold rawsOfHeader
  simp only [allLen_append, allLen_optLenR, allLen_optVintR, allLen_repLenR]
  simp

theorem scalars_header (p : PbHeader) :
    lastLen 1 (rawsOfHeader p) = p.hash ∧ lastVint 2 (rawsOfHeader p) = p.height ∧
    lastLen 3 (rawsOfHeader p) = p.preHash ∧ lastLen 4 (rawsOfHeader p) = p.preTime ∧
    lastLen 5 (rawsOfHeader p) = p.proveValue ∧ lastVint 6 (rawsOfHeader p) = p.totalQN ∧
    lastLen 7 (rawsOfHeader p) = p.curTime ∧ lastLen 8 (rawsOfHeader p) = p.castor ∧
    lastLen 9 (rawsOfHeader p) = p.groupId ∧ lastLen 10 (rawsOfHeader p) = p.signature ∧
    lastVint 11 (rawsOfHeader p) = p.nonce ∧ lastLen 13 (rawsOfHeader p) = p.txTree ∧
    lastLen 14 (rawsOfHeader p) = p.receiptTree ∧ lastLen 15 (rawsOfHeader p) = p.stateTree ∧
    lastLen 16 (rawsOfHeader p) = p.extraData ∧ lastLen 17 (rawsOfHeader p) = p.random ∧
    lastLen 18 (rawsOfHeader p) = p.proveRoot ∧ lastLen 20 (rawsOfHeader p) = p.requestIds := by
  unfold rawsOfHeader
  simp only [lastLen_append, lastVint_append, lastLen_optLenR, lastLen_optVintR, lastVint_optVintR,
    lastVint_optLenR, lastVint_repLenR]
  have e : ∀ n, n ≠ 12 → lastLen n (repLenR 12 (p.transactions.map (fun t => encRaws (rawsOfTxHash t)))) = none :=
    fun n hn => lastLen_repLenR_ne n 12 _ (fun h => hn h.symm)
  simp only [e 1 (by decide), e 3 (by decide), e 4 (by decide), e 5 (by decide), e 7 (by decide), e 8 (by decide),
    e 9 (by decide), e 10 (by decide), e 13 (by decide), e 14 (by decide), e 15 (by decide), e 16 (by decide),
    e 17 (by decide), e 18 (by decide), e 20 (by decide)]
  simp

theorem headerOfRaws_raws (p : PbHeader) (h : PbHeaderWF p) : headerOfRaws (rawsOfHeader p) = some p := by
  obtain ⟨_, htx, hev⟩ := h
  have hm : mapM' decTxHash (p.transactions.map (fun t => encRaws (rawsOfTxHash t))) = some p.transactions :=
    mapM'_map decTxHash (fun t => encRaws (rawsOfTxHash t)) p.transactions
      (fun t ht => decTxHash_enc t (htx t ht))
  obtain ⟨s1, s2, s3, s4, s5, s6, s7, s8, s9, s10, s11, s13, s14, s15, s16, s17, s18, s20⟩ := scalars_header p
  unfold headerOfRaws
  rw [allLen12_header, hm, allLen19_header, s1, s2, s3, s4, s5, s6, s7, s8, s9, s10, s11, s13, s14, s15, s16, s17,
    s18, s20]
  cases hev' : p.evictedTxs with
  | none => cases p; simp_all
  | some hs =>
    have hp := parseRaw_encRaws (repLenR 1 hs) (hev hs hev')
    cases p
    simp_all [mergedChunks, mapM', flat, hashesOfRaws]


theorem decHeader_encHeader (p : PbHeader) (h : PbHeaderWF p) : decHeader (encHeader p) = some p := by
  unfold decHeader encHeader
  simp only [parseRaw_encRaws _ h.1, headerOfRaws_raws p h]

end Rangers.Wire
