import Rangers.Proofs.TrieRlp
import Rangers.Proofs.TrieLiveHash
/- decodeNode (RLP blob of a collapsed node) = expandNode (collapsed node): the disk path equals the memory path. -/
namespace Rangers.Trie
open Rangers

theorem length_rlpList_gt (p : Bytes) : p.length < (rlpList p).length := by
  unfold rlpList rlpHead
  split <;> simp <;> omega

theorem length_rlpString_ge (b : Bytes) : b.length ≤ (rlpString b).length := by
  unfold rlpString
  split
  · split <;> simp [rlpHead]
  · simp

theorem length_rlpString_pos (b : Bytes) : 0 < (rlpString b).length := by
  unfold rlpString
  split
  · split <;> simp [rlpHead]
  · unfold rlpHead; split <;> simp

/-- one encoded item followed by `rest` counts as one value -/
theorem countValues_item (isList : Bool) (payload rest : Bytes) (hlen : payload.length < 256 ^ 8) (f : Nat) :
    countValues (f + 1) ((if isList then rlpList payload else rlpString payload) ++ rest)
      = (countValues f rest).map (· + 1) := by
  obtain ⟨k, ts, h1, _, h3, h4⟩ := readKind_item isList payload rest hlen
  have hne : ((if isList then rlpList payload else rlpString payload) ++ rest).isEmpty = false := by
    cases isList
    · have := length_rlpString_pos payload
      cases hh : rlpString payload with
      | nil => rw [hh] at this; simp at this
      | cons _ _ => simp [hh]
    · have := length_rlpList_gt payload
      cases hh : rlpList payload with
      | nil => rw [hh] at this; simp at this
      | cons _ _ => simp [hh]
  have e1 : ((if isList = true then rlpList payload else rlpString payload) ++ rest).drop (ts + payload.length) = rest := by
    rw [← List.drop_drop, h4, List.drop_left]
  simp only [countValues, hne, Bool.false_eq_true, if_false, h1, Option.bind_some, e1]



/-! ### items -/

def encItem (i : Bool × Bytes) : Bytes := if i.1 then rlpList i.2 else rlpString i.2

theorem length_encItem_pos (i : Bool × Bytes) : 0 < (encItem i).length := by
  unfold encItem
  split
  · have := length_rlpList_gt i.2; omega
  · exact length_rlpString_pos i.2

theorem length_encItem_ge (i : Bool × Bytes) : i.2.length ≤ (encItem i).length := by
  unfold encItem
  split
  · have := length_rlpList_gt i.2; omega
  · exact length_rlpString_ge i.2

theorem countValues_items (items : List (Bool × Bytes)) (rest : Bytes) (f : Nat)
    (hb : ∀ i ∈ items, i.2.length < 256 ^ 8) :
    countValues (f + items.length) (items.flatMap encItem ++ rest) = (countValues f rest).map (· + items.length) := by
  induction items with
  | nil => simp
  | cons i items ih =>
    have h1 := countValues_item i.1 i.2 (items.flatMap encItem ++ rest) (hb i (by simp)) (f + items.length)
    simp only [List.flatMap_cons, List.append_assoc, List.length_cons]
    have : encItem i = (if i.1 = true then rlpList i.2 else rlpString i.2) := rfl
    rw [this, ← Nat.add_assoc, h1, ih (fun j hj => hb j (by simp [hj]))]
    cases countValues f rest <;> simp; omega

theorem countValues_exact (items : List (Bool × Bytes)) (hb : ∀ i ∈ items, i.2.length < 256 ^ 8) :
    countValues (items.flatMap encItem).length (items.flatMap encItem) = some items.length := by
  have hlen : items.length ≤ (items.flatMap encItem).length := by
    induction items with
    | nil => simp
    | cons i items ih =>
      have := ih (fun j hj => hb j (by simp [hj]))
      have := length_encItem_pos i
      simp only [List.flatMap_cons, List.length_append, List.length_cons]; omega
  obtain ⟨d, hd⟩ : ∃ d, (items.flatMap encItem).length = d + items.length := ⟨_, (Nat.sub_add_cancel hlen).symm⟩
  have := countValues_items items [] d hb
  rw [List.append_nil] at this
  rw [hd, this]
  cases d <;> simp [countValues]

theorem splitString_item (b rest : Bytes) (hlen : b.length < 256 ^ 8) :
    splitString (rlpString b ++ rest) = some (b, rest) := by
  obtain ⟨k, h1, h2⟩ := rlpSplit_item false b rest hlen
  simp only [Bool.false_eq_true, if_false] at h1
  have : (k == RKind.list) = false := by
    cases k
    · rfl
    · rfl
    · simp at h2
  simp [splitString, h1, this]

theorem splitList_item (p rest : Bytes) (hlen : p.length < 256 ^ 8) :
    splitList (rlpList p ++ rest) = some (p, rest) := by
  obtain ⟨k, h1, h2⟩ := rlpSplit_item true p rest hlen
  simp only [if_true] at h1
  have : k = RKind.list := h2.mpr rfl
  subst this
  have e : (RKind.list == RKind.list) = true := rfl
  simp [splitList, h1, e]

/-! ### collapsed nodes as item lists -/

def payloadC : CNode → Bytes
  | .leaf ck v => rlpString ck ++ rlpString v
  | .ext ck c => rlpString ck ++ encC c
  | .branch cs v => encC.encCL cs ++ (if v.isEmpty then [0x80] else rlpString v)
  | _ => []

def refItem (r : CNode) : Bool × Bytes :=
  match r with
  | .empty => (false, [])
  | .hashRef h => (false, h)
  | c => (true, payloadC c)

theorem rlpString_nil : rlpString [] = [0x80] := by simp [rlpString, rlpHead]

theorem encItem_refItem (r : CNode) : encItem (refItem r) = encC r := by
  cases r <;> simp [refItem, encItem, encC, payloadC, rlpString_nil]

theorem valItem_eq (v : Bytes) : (if v.isEmpty then [0x80] else rlpString v) = encItem (false, v) := by
  cases v <;> simp [encItem, rlpString_nil]

theorem encCL_eq_items (rs : List CNode) : encC.encCL rs = (rs.map refItem).flatMap encItem := by
  induction rs with
  | nil => rfl
  | cons r rs ih => simp [encC.encCL, ih, encItem_refItem]



/-! ### decoding a child reference -/

theorem enc_eq_rlpList (H : Bytes → Bytes) (t : Node) (hwf : WF t) : enc H t = rlpList (payloadC (collapse H t)) := by
  rw [← (encC_collapse H t hwf).1]
  cases t with
  | nil => exact absurd hwf not_WF_nil
  | value b => exact absurd hwf (not_WF_value b)
  | short k v =>
    rcases (WF_short_iff k v).mp hwf with ⟨b, rfl, _, _⟩ | ⟨cs, rfl, _, _, _⟩
    · rw [collapse_leaf]; simp [encC, payloadC]
    · rw [collapse_ext]; simp [encC, payloadC]
  | full cs =>
    rw [collapse_full H cs ((WF_full_iff cs).mp hwf).1]; simp [encC, payloadC]

theorem decodeRef_refOf (H : Bytes → Bytes) (h32 : ∀ x, (H x).length = 32) (gen : Nat) (c : Node)
    (hc : c = .nil ∨ WF c)
    (hD : WF c → (enc H c).length < 32 → ∀ f rest, 20 * (enc H c).length + 20 ≤ f →
      decodeNode gen f none (encC (collapse H c) ++ rest) = expandNode gen none (collapse H c)) :
    ∀ f rest, 20 * (encC (refOf H c)).length + 21 ≤ f →
      decodeRef gen f (encC (refOf H c) ++ rest) = (expandNode gen none (refOf H c)).map (fun n => (n, rest)) := by
  intro f rest hf
  obtain ⟨f', rfl⟩ : ∃ f', f = f' + 1 := ⟨f - 1, by omega⟩
  rcases hc with rfl | hwf
  · -- empty slot: the empty string
    have hs := rlpSplit_item false [] rest (by simp)
    obtain ⟨k, h1, h2⟩ := hs
    simp only [Bool.false_eq_true, if_false, rlpString_nil] at h1
    have hk : (k == RKind.list) = false := by
      cases k
      · rfl
      · rfl
      · simp at h2
    have h1' : rlpSplit (128 :: rest) = some (k, [], rest) := h1
    simp [refOf, encC, decodeRef, h1', hk, expandNode]
  · rw [refOf_of_ne_nil H c hwf.ne_nil]
    by_cases hsmall : (enc H c).length < 32
    · -- embedded node
      simp only [hsmall, if_true]
      have henc := (encC_collapse H c hwf).1
      have hl := enc_eq_rlpList H c hwf
      have hp : (payloadC (collapse H c)).length < 256 ^ 8 := by
        have := length_rlpList_gt (payloadC (collapse H c))
        rw [← hl] at this
        have : (32 : Nat) < 256 ^ 8 := by decide
        omega
      obtain ⟨k, h1, h2⟩ := rlpSplit_item true (payloadC (collapse H c)) rest hp
      simp only [if_true, ← hl, ← henc] at h1
      have hk : k = RKind.list := h2.mpr rfl
      subst hk
      have hk' : (RKind.list == RKind.list) = true := rfl
      have hsz : ¬ ((encC (collapse H c) ++ rest).length - rest.length > 32) := by
        simp only [List.length_append, henc]; omega
      simp only [decodeRef, h1, Option.bind_some, hk', if_true, hsz, if_false]
      rw [hD hwf hsmall f' rest (by simp only [refOf_of_ne_nil H c hwf.ne_nil, hsmall, if_true, henc] at hf; omega)]
    · -- hash reference
      simp only [hsmall, if_false, encC]
      have hlen32 := h32 (enc H c)
      obtain ⟨k, h1, h2⟩ := rlpSplit_item false (H (enc H c)) rest (by rw [hlen32]; decide)
      simp only [Bool.false_eq_true, if_false] at h1
      have hk : (k == RKind.list) = false := by
        cases k
        · rfl
        · rfl
        · simp at h2
      have hne : H (enc H c) ≠ [] := by intro h0; rw [h0] at hlen32; simp at hlen32
      simp [decodeRef, h1, hk, hlen32, expandNode, hne]



theorem length_encCL_ge (rs : List CNode) (r : CNode) (h : r ∈ rs) : (encC r).length ≤ (encC.encCL rs).length := by
  induction rs with
  | nil => simp at h
  | cons x rs ih =>
    simp only [encC.encCL, List.length_append]
    cases h with
    | head => omega
    | tail _ h' => have := ih h'; omega

theorem length_le_flatMap_of_mem (items : List (Bool × Bytes)) (i : Bool × Bytes) (hi : i ∈ items) :
    (encItem i).length ≤ (items.flatMap encItem).length := by
  induction items with
  | nil => simp at hi
  | cons j js ih =>
    simp only [List.flatMap_cons, List.length_append]
    cases hi with
    | head => omega
    | tail _ h' => have := ih h'; omega

theorem decodeRefs_spec (H : Bytes → Bytes) (gen : Nat) (xs : List Node)
    (hR : ∀ x ∈ xs, ∀ f rest, 20 * (encC (refOf H x)).length + 21 ≤ f →
      decodeRef gen f (encC (refOf H x) ++ rest) = (expandNode gen none (refOf H x)).map (fun n => (n, rest))) :
    ∀ f rest, (∀ x ∈ xs, 20 * (encC (refOf H x)).length + 21 + xs.length ≤ f) → xs.length + 1 ≤ f →
      decodeRefs gen f xs.length (encC.encCL (xs.map (refOf H)) ++ rest)
        = (expandNodeL gen (xs.map (refOf H))).map (fun ls => (ls, rest)) := by
  induction xs with
  | nil =>
    intro f rest _ hf
    obtain ⟨f', rfl⟩ : ∃ f', f = f' + 1 := ⟨f - 1, by omega⟩
    simp [decodeRefs, expandNodeL, encC.encCL]
  | cons x xs ih =>
    intro f rest hb hf
    obtain ⟨f', rfl⟩ : ∃ f', f = f' + 1 := ⟨f - 1, by omega⟩
    simp only [List.length_cons] at hb hf
    simp only [List.map_cons, encC.encCL, List.append_assoc, List.length_cons, decodeRefs, expandNodeL]
    rw [hR x (by simp) f' _ (by have := hb x (by simp); omega)]
    cases hx : expandNode gen none (refOf H x) with
    | none => simp
    | some l =>
      simp only [Option.map_some, Option.bind_some]
      rw [ih (fun y hy => hR y (by simp [hy])) f' rest
        (fun y hy => by have := hb y (by simp [hy]); omega) (by omega)]
      cases expandNodeL gen (xs.map (refOf H)) <;> simp

/-- **decodeNode ∘ encode**: decoding the RLP blob the hasher wrote for a minimal-form node gives
    exactly the live node `expandNode` builds from the collapsed node in the memory cache -/
theorem decodeNode_collapse (H : Bytes → Bytes) (h32 : ∀ x, (H x).length = 32) (gen : Nat) (t : Node) :
    WF t → (enc H t).length < 256 ^ 8 → ∀ hh f rest, 20 * (enc H t).length + 20 ≤ f →
      decodeNode gen f hh (encC (collapse H t) ++ rest) = expandNode gen hh (collapse H t) := by
  have h32lt : (32 : Nat) < 256 ^ 8 := by decide
  induction t using Node.induct with
  | hnil => intro h; exact absurd h not_WF_nil
  | hval b => intro h; exact absurd h (not_WF_value b)
  | hshort kk v ih =>
    intro hwf hsz hh f rest hf
    obtain ⟨f', rfl⟩ : ∃ f', f = f' + 1 := ⟨f - 1, by omega⟩
    have henc := (encC_collapse H _ hwf).1
    have hl := enc_eq_rlpList H _ hwf
    have hpl := length_rlpList_gt (payloadC (collapse H (.short kk v)))
    rw [← hl] at hpl
    have hp : (payloadC (collapse H (.short kk v))).length < 256 ^ 8 := by omega
    have hne : (encC (collapse H (.short kk v)) ++ rest).isEmpty = false := by
      rw [henc, hl]
      cases hh' : rlpList (payloadC (collapse H (.short kk v))) with
      | nil => have := length_rlpList_gt (payloadC (collapse H (.short kk v))); rw [hh'] at this; simp at this
      | cons _ _ => simp
    have hsl : splitList (encC (collapse H (.short kk v)) ++ rest) = some (payloadC (collapse H (.short kk v)), rest) := by
      rw [henc, hl]; exact splitList_item _ _ hp
    simp only [decodeNode, hne, Bool.false_eq_true, if_false, hsl, Option.bind_some]
    rcases (WF_short_iff kk v).mp hwf with ⟨b, rfl, hkk, hb⟩ | ⟨cs, rfl, hne', hnib, hfull⟩
    · -- leaf
      obtain ⟨n, rfl, hn⟩ := (validKey_iff kk).mp hkk
      rw [collapse_leaf] at hp ⊢
      simp only [payloadC] at hp ⊢
      have hck : (hexToCompact (n ++ [16])).length < 256 ^ 8 := by
        have := length_rlpString_ge (hexToCompact (n ++ [16]))
        simp only [List.length_append] at hp; omega
      have hbl : b.length < 256 ^ 8 := by
        have := length_rlpString_ge b
        simp only [List.length_append] at hp; omega
      have hcv : countValues (rlpString (hexToCompact (n ++ [16])) ++ rlpString b).length
          (rlpString (hexToCompact (n ++ [16])) ++ rlpString b) = some 2 := by
        have := countValues_exact [(false, hexToCompact (n ++ [16])), (false, b)]
          (by intro i hi; simp at hi; rcases hi with rfl | rfl <;> assumption)
        simpa [encItem] using this
      simp only [hcv, Option.bind_some, if_true, splitString_item _ _ hck, compact_roundtrip_term n hn,
        hasTerm_append_16]
      have := splitString_item b [] hbl
      rw [List.append_nil] at this
      simp [this, expandNode, compact_roundtrip_term n hn]
    · -- extension
      have hpc : payloadC (collapse H (.short kk (.full cs))) = rlpString (hexToCompact kk) ++ encC (refOf H (.full cs)) := by
        rw [collapse_ext]; rfl
      have hlen_ref : (encC (refOf H (.full cs))).length < (enc H (.short kk (.full cs))).length := by
        have := length_rlpString_pos (hexToCompact kk)
        rw [hpc, List.length_append] at hpl
        omega
      rw [collapse_ext] at hp ⊢
      simp only [payloadC] at hp ⊢
      have hck : (hexToCompact kk).length < 256 ^ 8 := by
        have := length_rlpString_ge (hexToCompact kk)
        simp only [List.length_append] at hp; omega
      have hrefp : (refItem (refOf H (.full cs))).2.length < 256 ^ 8 := by
        have := length_encItem_ge (refItem (refOf H (.full cs)))
        rw [encItem_refItem] at this
        simp only [List.length_append] at hp; omega
      have hcv : countValues (rlpString (hexToCompact kk) ++ encC (refOf H (.full cs))).length
          (rlpString (hexToCompact kk) ++ encC (refOf H (.full cs))) = some 2 := by
        have := countValues_exact [(false, hexToCompact kk), refItem (refOf H (.full cs))]
          (by intro i hi; simp at hi; rcases hi with rfl | rfl <;> assumption)
        have e1 : encItem (false, hexToCompact kk) = rlpString (hexToCompact kk) := rfl
        simp only [List.flatMap_cons, List.flatMap_nil, List.append_nil, e1, encItem_refItem] at this
        exact this
      have hnt : hasTerm kk = false := hasTerm_nibs kk hnib
      simp only [hcv, Option.bind_some, if_true, splitString_item _ _ hck, compact_roundtrip_nibs kk hnib,
        hnt, Bool.false_eq_true, if_false]
      have hR := decodeRef_refOf H h32 gen (.full cs) (Or.inr hfull)
        (fun hw hsm f rest hf => ih hw (by omega) none f rest hf)
        f' [] (by omega)
      rw [List.append_nil] at hR
      rw [hR]
      simp only [expandNode, compact_roundtrip_nibs kk hnib, Option.bind_some]
      cases expandNode gen none (refOf H (.full cs)) <;> simp
  | hfull cs ih =>
    intro hwf hsz hh f rest hf
    obtain ⟨f', rfl⟩ : ∃ f', f = f' + 1 := ⟨f - 1, by omega⟩
    obtain ⟨hlen17, hslots, _⟩ := (WF_full_iff cs).mp hwf
    have henc := (encC_collapse H _ hwf).1
    have hl := enc_eq_rlpList H _ hwf
    have hpl := length_rlpList_gt (payloadC (collapse H (.full cs)))
    rw [← hl] at hpl
    have hp : (payloadC (collapse H (.full cs))).length < 256 ^ 8 := by omega
    have hne : (encC (collapse H (.full cs)) ++ rest).isEmpty = false := by
      rw [henc, hl]
      cases hh' : rlpList (payloadC (collapse H (.full cs))) with
      | nil => have := length_rlpList_gt (payloadC (collapse H (.full cs))); rw [hh'] at this; simp at this
      | cons _ _ => simp
    have hsl : splitList (encC (collapse H (.full cs)) ++ rest) = some (payloadC (collapse H (.full cs)), rest) := by
      rw [henc, hl]; exact splitList_item _ _ hp
    simp only [decodeNode, hne, Bool.false_eq_true, if_false, hsl, Option.bind_some]
    rw [collapse_full H cs hlen17] at hp hpl ⊢
    simp only [payloadC] at hp hpl ⊢
    generalize hvdef : valueBytes (cs[16]?.getD .nil) = vb at *
    rw [valItem_eq vb] at hp hpl ⊢
    -- seventeen items
    have hitems : encC.encCL ((cs.take 16).map (refOf H)) ++ encItem (false, vb)
        = (((cs.take 16).map (refOf H)).map refItem ++ [(false, vb)]).flatMap encItem := by
      rw [List.flatMap_append, ← encCL_eq_items]; simp
    have hbound : ∀ i ∈ ((cs.take 16).map (refOf H)).map refItem ++ [(false, vb)], i.2.length < 256 ^ 8 := by
      intro i hi
      have hle : (encItem i).length ≤ (encC.encCL ((cs.take 16).map (refOf H)) ++ encItem (false, vb)).length := by
        rw [hitems]; exact length_le_flatMap_of_mem _ i hi
      have := length_encItem_ge i
      omega
    have hcv : countValues (encC.encCL ((cs.take 16).map (refOf H)) ++ encItem (false, vb)).length
        (encC.encCL ((cs.take 16).map (refOf H)) ++ encItem (false, vb)) = some 17 := by
      rw [hitems, countValues_exact _ hbound]
      simp [hlen17]
    simp only [hcv, Option.bind_some, (by decide : ¬ (17 : Nat) = 2), if_false, if_true]
    -- the sixteen references
    have hxs : ∀ x ∈ cs.take 16, x = .nil ∨ (x ∈ cs ∧ WF x) := by
      intro x hx
      obtain ⟨i, hi, hxi⟩ := List.getElem_of_mem hx
      have hi16 : i < 16 := by simp at hi; omega
      have hxi' : cs[i]?.getD .nil = x := by
        rw [List.getElem_take] at hxi
        simp [List.getElem?_eq_getElem (show i < cs.length by omega), hxi]
      rcases hslots i (by omega) with h | h
      · left; rw [← hxi']; exact h
      · right
        have : ¬ i = 16 := by omega
        simp only [this, if_false, hxi'] at h
        exact ⟨List.mem_of_mem_take hx, h⟩
    have hRs : ∀ x ∈ cs.take 16, ∀ f rest, 20 * (encC (refOf H x)).length + 21 ≤ f →
        decodeRef gen f (encC (refOf H x) ++ rest) = (expandNode gen none (refOf H x)).map (fun n => (n, rest)) := by
      intro x hx
      rcases hxs x hx with rfl | ⟨hm, hw⟩
      · exact decodeRef_refOf H h32 gen .nil (Or.inl rfl) (fun hw => absurd hw not_WF_nil)
      · exact decodeRef_refOf H h32 gen x (Or.inr hw)
          (fun hw' hsm f rest hf => ih x hm hw' (by omega) none f rest hf)
    have hlen16 : (cs.take 16).length = 16 := by simp [hlen17]
    have hreflen : ∀ x ∈ cs.take 16, (encC (refOf H x)).length + 2 ≤ (enc H (.full cs)).length := by
      intro x hx
      have h1 := length_encCL_ge ((cs.take 16).map (refOf H)) (refOf H x) (List.mem_map_of_mem hx)
      have h2 := length_encItem_pos (false, vb)
      simp only [List.length_append] at hpl
      omega
    have hdr := decodeRefs_spec H gen (cs.take 16) hRs f' (encItem (false, vb))
      (fun x hx => by have := hreflen x hx; rw [hlen16]; omega) (by rw [hlen16]; omega)
    rw [hlen16] at hdr
    rw [hdr]
    have hvb : vb.length < 256 ^ 8 := hbound (false, vb) (by simp)
    have hss := splitString_item vb [] hvb
    rw [List.append_nil] at hss
    have hss' : splitString (encItem (false, vb)) = some (vb, []) := hss
    simp only [expandNode]
    cases expandNodeL gen ((cs.take 16).map (refOf H)) with
    | none => simp
    | some ls =>
      simp only [Option.map_some, Option.bind_some, hss']
      cases vb <;> simp

end Rangers.Trie

namespace Rangers.Trie
open Rangers

/-- resolving a stored node from its disk blob gives what resolving it from the memory cache gives -/
theorem resolveHashDisk_eq (H : Bytes → Bytes) (h32 : ∀ x, (H x).length = 32) (st : Store) (gen : Nat)
    (t : Node) (hwf : WF t) (hsz : (enc H t).length < 256 ^ 8) (h : Bytes)
    (hlk : st.lookup h = some (collapse H t)) :
    resolveHashDisk st gen h = resolveHash st gen h := by
  have henc := (encC_collapse H t hwf).1
  have := decodeNode_collapse H h32 gen t hwf hsz (some h) (20 * (enc H t).length + 20) [] (Nat.le_refl _)
  rw [List.append_nil, henc] at this
  simp only [resolveHashDisk, resolveHash, hlk, Option.bind_some, henc, this]

end Rangers.Trie
