import Rangers.Proofs.MinerEnd
/-! C20: the global invariant and the conserved quantity, preserved by every transaction and block end. -/
namespace Rangers.Miner

/-- Encoded records are non-empty and decode (assumed of `encoding/json`). -/
def CodecSome (cfg : Cfg) : Prop := ∀ i : Info, i.typ < 256 → cfg.enc i ≠ [] ∧ (cfg.dec (cfg.enc i)).isSome

structure Inv (cfg : Cfg) (U : List Bytes) (st : State) : Prop where
  rk : RecKeyed cfg st
  clean : Clean cfg U st
  pn : (st.pending.map Prod.fst).Nodup
  a20 : A20 st

/-- liquid + locked (all registries, all ids of the universe) + recorded for refund + escrowed. -/
def wealth (cfg : Cfg) (U : List Bytes) (st : State) : Nat :=
  balTotal st + wei * stakeTotal cfg st U + pendingSum st.pending + escTotal st

instance (p : DbId → Prop) [DecidablePred p] : Decidable (∀ d, p d) :=
  if h1 : p .val then
    if h2 : p .prop then
      if h3 : p .zero then isTrue (by intro d; cases d <;> assumption)
      else isFalse (fun h => h3 (h _))
    else isFalse (fun h => h2 (h _))
  else isFalse (fun h => h1 (h _))

/-- The block's refund list for the release height is new, or already holds the account. -/
def noClash (st : State) (src : Bytes) : Bool :=
  match st.pending.lookup (st.height + refundDelay) with
  | none => true
  | some l => l.any (fun e => e.1 = src)

theorem noClash_spec (st : State) (src : Bytes) (h : noClash st src = true) :
    ∀ l, st.pending.lookup (st.height + refundDelay) = some l → l.any (fun e => e.1 = src) = true := by
  intro l hl
  unfold noClash at h
  rw [hl] at h
  exact h

/-- Side conditions under which a transaction conserves: ids in the universe, the `float64`/`uint64`
    bounds, 20-byte refund account, and the refund context for the release height either new or
    already holding the account (otherwise the executor drops the entry). -/
def TxSide (cfg : Cfg) (U : List Bytes) (st : State) : Tx → Prop
  | .apply _ id _ stake _ _ _ => id ∈ U ∧ stake < 2 ^ 53
  | .add _ id delta => id ∈ U ∧ delta < 2 ^ 53 ∧ ∀ d, stakeAt cfg st d id + delta < 2 ^ 64
  | .refund src id _ => id ∈ U ∧ src.length = 20 ∧ noClash st src = true
  | .chacc _ id _ => id ∈ U
  | .bad _ _ => True

theorem runTx_fail_state (cfg : Cfg) (st : State) (tx : Tx) (h : (runTx cfg st tx).1 ≠ "ok") :
    (runTx cfg st tx).2 = st ∨ processFee st tx.src = some (runTx cfg st tx).2 := by
  unfold runTx at h ⊢
  cases hf : processFee st tx.src with
  | none => left; rfl
  | some st1 =>
    right
    simp only [hf] at h ⊢
    by_cases hok : (execute cfg st1 tx).1 = "ok"
    · simp only [hok, if_true] at h; exact absurd rfl h
    · simp only [hok, if_false]
      rw [execute_fail cfg st1 tx hok]

theorem inv_fee (cfg : Cfg) (U : List Bytes) (st st1 : State) (src : Bytes) (hinv : Inv cfg U st)
    (hf : processFee st src = some st1) : Inv cfg U st1 ∧ wealth cfg U st1 = wealth cfg U st := by
  have hl := processFee_live st st1 src hf
  refine ⟨⟨(recKeyed_congr cfg st st1 hl.1).mpr hinv.rk, clean_of_live cfg U st st1 hl.1 hinv.clean, by rw [hl.2.2.1]; exact hinv.pn,
    by unfold A20; rw [hl.2.2.2.1, hl.2.2.1]; exact hinv.a20⟩, ?_⟩
  unfold wealth
  rw [balTotal_processFee st st1 src hf, stakeTotal_of_live cfg U st st1 hl.1, hl.2.2.1, escTotal_of_escrow st st1 hl.2.2.2.1]

theorem getMiner_none (cfg : Cfg) (st : State) (id : Bytes) (h : (getMiner cfg st id).isSome = false) :
    getMinerById cfg st .prop id = none ∧ getMinerById cfg st .val id = none := by
  unfold getMiner at h
  cases hp : getMinerById cfg st .prop id with
  | some m => simp [hp] at h
  | none =>
    rw [hp] at h
    cases hv : getMinerById cfg st .val id with
    | some m => simp [hv] at h
    | none => exact ⟨rfl, rfl⟩

theorem addMiner_ok_typ (cfg : Cfg) (st : State) (p : Bytes) (i : Info) (s : Nat) (a : Bytes)
    (h : (addMiner cfg st p i s a).1 = "ok") : dbOfType i.typ = .val ∨ dbOfType i.typ = .prop := by
  unfold addMiner at h
  cases hm : minStake i.typ with
  | none => simp [hm] at h
  | some ms =>
    unfold minStake at hm
    by_cases h1 : i.typ = typeProposer
    · right; rw [h1]; decide
    · by_cases h0 : i.typ = typeValidator
      · left; rw [h0]; decide
      · simp [h1, h0] at hm

theorem keys_ne (cfg : Cfg) (i : Bytes) (h : (keysOf cfg i).Nodup) :
    i ≠ cfg.H i ∧ i ≠ cfg.H (cfg.H i) ∧ i ≠ cfg.H (cfg.H (cfg.H i)) := by
  simp only [keysOf, List.nodup_cons, List.mem_cons, List.not_mem_nil, or_false, not_or] at h
  exact ⟨h.1.1, h.1.2.1, h.1.2.2⟩

theorem updateMiner_none_rec (cfg : Cfg) (st : State) (m : Miner) (hk : (keysOf cfg m.id).Nodup) (d : DbId) :
    ((updateMiner cfg st m none).live d).get m.id = (st.live d).get m.id := by
  obtain ⟨h1, h2, h3⟩ := keys_ne cfg m.id hk
  unfold updateMiner
  simp only [write_get, slotStake, slotAcct, slotStatus, h1, h2, h3, and_false, if_false]

theorem updateMiner_some_rec (cfg : Cfg) (st : State) (m : Miner) (info : Info) (hk : (keysOf cfg m.id).Nodup) :
    ((updateMiner cfg st m (some info)).live (dbOfType m.typ)).get m.id = cfg.enc info := by
  obtain ⟨h1, h2, h3⟩ := keys_ne cfg m.id hk
  unfold updateMiner
  simp only [write_get, slotStake, slotAcct, slotStatus, h1, h2, h3, and_false, if_false, true_and, if_true]

theorem removeMiner_target (cfg : Cfg) (st : State) (id acc : Bytes) (t l : Nat) (hk : (keysOf cfg id).Nodup)
    (hu : Untouched cfg id id) (hp : getMinerById cfg st (dbOfType t) id ≠ none) :
    getMinerById cfg (removeMiner cfg st id acc t l) (dbOfType t) id = none →
      stakeAt cfg (removeMiner cfg st id acc t l) (dbOfType t) id = 0 := by
  intro hnone
  have hs := stakeAt_removeMiner_self cfg st id acc t l hu
  by_cases hc : l = 0 ∧ ¬ st.isContract (toAddr acc)
  · rw [hs, hc.1]
  · exfalso
    have he : removeMiner cfg st id acc t l =
        (st.write (dbOfType t) (slotStake cfg id) (u64be l)).write (dbOfType t) (slotStatus cfg id) [UInt8.ofNat statusAbort] := by
      unfold removeMiner; rw [if_neg hc]
    rw [he] at hnone
    obtain ⟨h1, _, h3⟩ := keys_ne cfg id hk
    refine present_of_rec cfg st _ (dbOfType t) id ?_ hp hnone
    simp only [write_get, slotStake, slotStatus, h1, h3, and_false, if_false]

theorem pendingAdd_nodup (p : List (Nat × List (Bytes × Nat))) (h : Nat) (a : Bytes) (v : Nat)
    (hn : (p.map Prod.fst).Nodup) : ((pendingAdd p h a v).map Prod.fst).Nodup := by
  unfold pendingAdd
  cases hl : p.lookup h with
  | none =>
    simp only [List.map_cons, List.nodup_cons]
    refine ⟨?_, hn⟩
    intro hm
    obtain ⟨e, he, rfl⟩ := List.mem_map.mp hm
    have : p.lookup e.1 ≠ none := by
      clear hl hn hm
      induction p with
      | nil => cases he
      | cons q p ih =>
        obtain ⟨qh, ql⟩ := q
        simp only [List.lookup_cons]
        by_cases hq : e.1 = qh
        · simp [hq]
        · have : (e.1 == qh) = false := by simpa using hq
          simp only [this]
          rcases List.mem_cons.mp he with rfl | he'
          · exact absurd rfl hq
          · exact ih he'
    exact this hl
  | some l =>
    simp only
    split
    · have : (p.map (fun e => if e.1 = h then (e.1, bump e.2 a v) else e)).map Prod.fst = p.map Prod.fst := by
        rw [List.map_map]
        apply List.map_congr_left
        intro e _
        simp only [Function.comp]
        split <;> rfl
      rw [this]; exact hn
    · exact hn

theorem bump_keys (l : List (Bytes × Nat)) (a : Bytes) (v : Nat) (h20 : ∀ e ∈ l, e.1.length = 20) :
    ∀ e ∈ bump l a v, e.1.length = 20 := by
  induction l with
  | nil => intro e he; simp [bump] at he
  | cons x l ih =>
    unfold bump
    split
    · intro e he
      rcases List.mem_cons.mp he with rfl | he
      · exact h20 x (List.mem_cons_self ..)
      · exact h20 e (List.mem_cons_of_mem _ he)
    · intro e he
      rcases List.mem_cons.mp he with rfl | he
      · exact h20 _ (List.mem_cons_self ..)
      · exact ih (fun e he => h20 e (List.mem_cons_of_mem _ he)) e he

theorem pendingAdd_a20 (p : List (Nat × List (Bytes × Nat))) (h : Nat) (a : Bytes) (v : Nat) (ha : a.length = 20)
    (hp : ∀ q ∈ p, ∀ e ∈ q.2, e.1.length = 20) : ∀ q ∈ pendingAdd p h a v, ∀ e ∈ q.2, e.1.length = 20 := by
  unfold pendingAdd
  cases p.lookup h with
  | none =>
    intro q hq
    rcases List.mem_cons.mp hq with rfl | hq
    · intro e he; simp at he; rw [he]; exact ha
    · exact hp q hq
  | some l =>
    simp only
    split
    · intro q hq
      obtain ⟨q0, hq0, rfl⟩ := List.mem_map.mp hq
      split
      · exact bump_keys _ _ _ (hp q0 hq0)
      · exact hp q0 hq0
    · exact hp

end Rangers.Miner
