import Rangers.Proofs.GroupChainMirror
/-! A failing statement on the sqlite mirror never damages the chain itself: `save`/`remove` have
finished their store and memory updates when they `panic`, so the operation is merely cut after a
completed step. -/
namespace Rangers.Model.GroupChain
open Rangers

theorem saveS_core (c : Chain) (g : Group) (f : SqlFault) :
    (saveS c g f).1.disk = (save c g).disk ∧ (saveS c g f).1.count = (save c g).count ∧
      (saveS c g f).1.last = (save c g).last := by
  unfold saveS; split <;> simp

theorem removeS_core (c : Chain) (g : Group) (f : SqlFault) :
    (removeS c g f).1 = (remove c g).1 ∧ (removeS c g f).2.1.disk = (remove c g).2.disk ∧
      (removeS c g f).2.1.count = (remove c g).2.count ∧ (removeS c g f).2.1.last = (remove c g).2.last := by
  unfold removeS remove
  cases getGroupById c.disk g.pre with
  | none => simp
  | some p => simp only; split <;> simp

/-- The removal loop under a failing delete ends — cut or not — on a chain that represents a
    non-empty prefix of the list. -/
theorem rep_rmLoopS (h : Nat) (f : SqlFault) : ∀ (t : Nat) (l : List Group) (c : Chain), Rep l c →
    l.length = t + 1 → ∃ n, 0 < n ∧ n ≤ l.length ∧ Rep (l.take n) (rmLoopS h f t c).1 := by
  intro t
  induction t with
  | zero =>
    intro l c r hl
    refine ⟨1, by omega, by omega, ?_⟩
    have : l.take 1 = l := List.take_of_length_le (by omega)
    simpa [rmLoopS, this] using r
  | succ t ih =>
    intro l c r hl
    unfold rmLoopS
    by_cases hh : t + 1 > h
    · simp only [hh, if_true]
      have hidx : l[t + 1]? = some c.last := by
        have := r.last_idx; rw [hl] at this; simpa using this
      rw [r.byHeight_lt hidx]
      simp only
      have hsplit : l.dropLast ++ [c.last] = l := dropLast_append_getLast? r.last
      have hdl : l.dropLast.length = t + 1 := by simp [hl]
      have hne : l.dropLast ≠ [] := by intro e; simp [e] at hdl
      have r' : Rep (l.dropLast ++ [c.last]) c := by rw [hsplit]; exact r
      have hr := (rep_remove r' hne).2
      obtain ⟨_, e2, e3, e4⟩ := removeS_core c c.last f
      have hr' : Rep l.dropLast (removeS c c.last f).2.1 := hr.congr e2 e3 e4
      have ht2 : l.take (t + 1) = l.dropLast := by rw [List.dropLast_eq_take]; congr 1; omega
      by_cases hp : (removeS c c.last f).2.2 = true
      · simp only [hp, if_true]
        exact ⟨t + 1, by omega, by omega, by rw [ht2]; exact hr'⟩
      · simp only [hp]
        obtain ⟨n, hn0, hn1, hn2⟩ := ih l.dropLast (removeS c c.last f).2.1 hr' hdl
        refine ⟨n, hn0, by omega, ?_⟩
        have ht : l.dropLast.take n = l.take n := by
          rw [List.dropLast_eq_take, List.take_take]; congr 1; omega
        rw [← ht]; exact hn2
    · simp only [hh, if_false]
      refine ⟨l.length, by omega, by omega, ?_⟩
      have : l.take l.length = l := List.take_of_length_le (by omega)
      rw [this]; exact r

theorem rep_rmToS {l : List Group} {c : Chain} (r : Rep l c) (h : Nat) (f : SqlFault) :
    ∃ n, 0 < n ∧ n ≤ l.length ∧ Rep (l.take n) (rmToS c h f).1 := by
  unfold rmToS topHeight
  have hp := r.pos
  by_cases h1 : c.count > 1
  · simp only [h1, if_true]
    exact rep_rmLoopS h f (c.count - 1) l c r (by rw [r.count] at h1 ⊢; omega)
  · simp only [h1, if_false]
    have hl : l.length = 1 := by rw [r.count] at h1; omega
    exact rep_rmLoopS h f 0 l c r (by omega)

end Rangers.Model.GroupChain
