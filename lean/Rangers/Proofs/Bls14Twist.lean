import Mathlib.Algebra.QuadraticAlgebra.Basic
import Mathlib.NumberTheory.SumTwoSquares
import Rangers.Model.Bls14G2
import Rangers.Proofs.Bls14Curve
/-!
The model's G2 arithmetic IS the group law of the twist `y² = x³ + 3/ξ` over GF(p²) =
`QuadraticAlgebra (ZMod p) (-1) 0` (a field because `p ≡ 3 (mod 4)`), in Mathlib's
`WeierstrassCurve.Affine.Point`. In particular the twist is closed under `Pt2.add / double / neg / mul`.
-/
namespace Rangers.Proofs.Bls14
open Rangers Rangers.Model.Bls14

variable [hp : Fact (Nat.Prime P)]

/-- −1 is not a square mod p (p ≡ 3 mod 4): `i² = −1` defines a field. -/
instance negOneNonSquare : Fact (∀ r : F, r ^ 2 ≠ (-1 : F) + (0 : F) * r) := ⟨by
  intro r h
  have h' : r ^ 2 = -1 := by simpa using h
  have : IsSquare (-1 : F) := ⟨r, by rw [← h']; ring⟩
  have := ZMod.exists_sq_eq_neg_one_iff.mp this
  exact this P_mod4⟩

/-- GF(p²). -/
abbrev K := QuadraticAlgebra F (-1) 0

/-- Meaning of a model GF(p²) element `x·i + y`. -/
def k2 (a : F2) : K := ⟨(a.y : F), (a.x : F)⟩

theorem k2_add (a b : F2) : k2 (F2.add a b) = k2 a + k2 b := by
  ext <;> simp [k2, F2.add, cast_fadd]
theorem k2_sub (a b : F2) : k2 (F2.sub a b) = k2 a - k2 b := by
  ext <;> simp [k2, F2.sub, cast_fsub]
theorem k2_neg (a : F2) : k2 (F2.neg a) = -k2 a := by
  ext <;> simp [k2, F2.neg, cast_fneg]
theorem k2_mul (a b : F2) : k2 (F2.mul a b) = k2 a * k2 b := by
  ext <;> simp [k2, F2.mul, cast_fadd, cast_fsub, cast_fmul] <;> ring
theorem k2_sq (a : F2) : k2 (F2.sq a) = k2 a ^ 2 := by rw [F2.sq, k2_mul, pow_two]
theorem k2_reduce (a : F2) : k2 (F2.reduce a) = k2 a := by
  ext <;> simp [k2, F2.reduce, ZMod.natCast_mod]
theorem k2_ofNat (n : ℕ) : k2 (F2.ofNat n) = (n : K) := by
  ext <;> simp [k2, F2.ofNat, ZMod.natCast_mod]

theorem k2_inv (a : F2) : k2 (F2.inv a) = (k2 a)⁻¹ := by
  have hn : QuadraticAlgebra.norm (k2 a) = (a.x : F) * a.x + (a.y : F) * a.y := by
    rw [QuadraticAlgebra.norm_def]; simp only [k2]; ring
  have e : k2 (F2.inv a) =
      ⟨(a.y : F) * ((a.x : F) * a.x + (a.y : F) * a.y)⁻¹, -(a.x : F) * ((a.x : F) * a.x + (a.y : F) * a.y)⁻¹⟩ := by
    simp only [k2, F2.inv, cast_fmul, cast_fneg, cast_finv, cast_fadd]
  by_cases h0 : k2 a = 0
  · have hx : (a.x : F) = 0 := by simpa [k2] using congrArg QuadraticAlgebra.im h0
    have hy : (a.y : F) = 0 := by simpa [k2] using congrArg QuadraticAlgebra.re h0
    rw [e, h0, inv_zero, hx, hy]
    ext <;> simp
  · have hne : (a.x : F) * a.x + (a.y : F) * a.y ≠ 0 := by
      rw [← hn]; exact fun h => h0 (QuadraticAlgebra.norm_eq_zero_iff_eq_zero.mp h)
    apply eq_inv_of_mul_eq_one_left
    rw [e]
    generalize hN : (a.x : F) * a.x + (a.y : F) * a.y = N at hne ⊢
    have hi : N⁻¹ * N = 1 := inv_mul_cancel₀ hne
    ext
    · simp only [k2, QuadraticAlgebra.re_mul, QuadraticAlgebra.re_one]
      linear_combination hi + N⁻¹ * hN
    · simp only [k2, QuadraticAlgebra.im_mul, QuadraticAlgebra.im_one]
      ring

theorem k2_eq_iff (a b : F2) : F2.reduce a = F2.reduce b ↔ k2 a = k2 b := by
  constructor
  · intro h; rw [← k2_reduce a, h, k2_reduce]
  · intro h
    have h1 := congrArg QuadraticAlgebra.re h
    have h2 := congrArg QuadraticAlgebra.im h
    simp only [k2] at h1 h2
    rw [ZMod.natCast_eq_natCast_iff'] at h1 h2
    simp [F2.reduce, h1, h2]

/-! ### the twist as a Weierstrass curve over GF(p²) -/

/-- `y² = x³ + b'`, `b' = 3/ξ` (`twistB`). -/
def W2 : WeierstrassCurve.Affine K := { a₁ := 0, a₂ := 0, a₃ := 0, a₄ := 0, a₆ := k2 twistB }

theorem natCastK_ne_zero (n : ℕ) (h0 : 0 < n) (hl : n < P) : (n : K) ≠ 0 := by
  intro h
  have := congrArg QuadraticAlgebra.re h
  simp at this
  exact natCast_ne_zero_of_lt n h0 hl this

theorem k2_twistB_ne_zero : k2 twistB ≠ 0 := by
  intro h
  have := congrArg QuadraticAlgebra.re h
  simp only [k2, twistB, QuadraticAlgebra.re_zero] at this
  exact natCast_ne_zero_of_lt _ (by decide) (by decide) this

theorem W2_Δ_ne_zero : W2.Δ ≠ 0 := by
  have h : W2.Δ = -((432 : ℕ) : K) * (k2 twistB) ^ 2 := by
    simp only [W2, WeierstrassCurve.Δ, WeierstrassCurve.b₂, WeierstrassCurve.b₄, WeierstrassCurve.b₆,
      WeierstrassCurve.b₈]
    push_cast; ring
  rw [h]
  exact mul_ne_zero (neg_ne_zero.mpr (natCastK_ne_zero 432 (by decide) (by decide)))
    (pow_ne_zero _ k2_twistB_ne_zero)

theorem twoK_ne_zero : (2 : K) ≠ 0 := by
  have := natCastK_ne_zero 2 (by decide) (by decide)
  exact_mod_cast this

theorem F2_eq_of_k2 (a b : F2) (ha : a.isReduced = true) (hb : b.isReduced = true)
    (h : k2 a = k2 b) : a = b := by
  simp only [F2.isReduced, Bool.and_eq_true, decide_eq_true_eq] at ha hb
  have h1 := congrArg QuadraticAlgebra.re h
  have h2 := congrArg QuadraticAlgebra.im h
  simp only [k2] at h1 h2
  cases a; cases b
  simp only [F2.mk.injEq]
  exact ⟨natCast_inj_of_lt ha.1 hb.1 h2, natCast_inj_of_lt ha.2 hb.2 h1⟩

omit hp in
theorem F2_ops_reduced (a b : F2) :
    (F2.add a b).isReduced = true ∧ (F2.sub a b).isReduced = true ∧ (F2.mul a b).isReduced = true ∧
    (F2.reduce a).isReduced = true := by
  simp [F2.isReduced, F2.add, F2.sub, F2.mul, F2.reduce, fadd_lt, fsub_lt, Nat.mod_lt _ P_pos]

/-- The Nat-level twist test is the Weierstrass equation over GF(p²). -/
theorem onTwistXY_iff (x y : F2) : onTwistXY x y = true ↔ W2.Equation (k2 x) (k2 y) := by
  rw [WeierstrassCurve.Affine.equation_iff]
  simp only [W2, zero_mul, add_zero]
  unfold onTwistXY
  rw [beq_iff_eq]
  constructor
  · intro h
    have := congrArg k2 h
    rw [k2_sq, k2_add, k2_mul, k2_sq, k2_reduce] at this
    linear_combination this
  · intro h
    apply F2_eq_of_k2 _ _ (F2_ops_reduced y y).2.2.1 (F2_ops_reduced _ _).1
    show k2 (F2.sq y) = _
    rw [k2_sq, k2_add, k2_mul, k2_sq, k2_reduce]
    linear_combination h

theorem nonsing2 {X Y : K} (h : W2.Equation X Y) : W2.Nonsingular X Y :=
  (WeierstrassCurve.Affine.equation_iff_nonsingular_of_Δ_ne_zero W2_Δ_ne_zero).mp h

theorem eqn_of_nonsing2 {X Y : K} (h : W2.Nonsingular X Y) : W2.Equation X Y :=
  (WeierstrassCurve.Affine.equation_iff_nonsingular_of_Δ_ne_zero W2_Δ_ne_zero).mpr h

open Classical in
/-- Meaning of a model G2 point in the Mathlib group of the twist. -/
noncomputable def ι₂ : Pt2 → W2.Point
  | .inf => 0
  | .aff x y => if h : W2.Equation (k2 x) (k2 y) then .some _ _ (nonsing2 h) else 0

/-- A valid G2 value: on the twist, coordinates reduced. -/
def Valid2 (q : Pt2) : Prop := q.onCurve = true ∧ q.reduced = true

theorem ι₂_eq_some (x y : F2) {X Y : K} (hn : W2.Nonsingular X Y) (hx : k2 x = X) (hy : k2 y = Y) :
    ι₂ (.aff x y) = .some X Y hn ∧ onTwistXY x y = true := by
  subst hx; subst hy
  have he := eqn_of_nonsing2 hn
  exact ⟨by simp [ι₂, he], (onTwistXY_iff x y).mpr he⟩

theorem ι₂_aff {x y : F2} (h : onTwistXY x y = true) :
    ι₂ (.aff x y) = .some _ _ (nonsing2 ((onTwistXY_iff x y).mp h)) :=
  (ι₂_eq_some x y _ rfl rfl).1

theorem ι₂_inj (a b : Pt2) (ha : Valid2 a) (hb : Valid2 b) (h : ι₂ a = ι₂ b) : a = b := by
  cases a with
  | inf =>
    cases b with
    | inf => rfl
    | aff x y =>
      rw [ι₂_aff hb.1] at h
      exact absurd h.symm (WeierstrassCurve.Affine.Point.some_ne_zero _)
  | aff x y =>
    cases b with
    | inf =>
      rw [ι₂_aff ha.1] at h
      exact absurd h (WeierstrassCurve.Affine.Point.some_ne_zero _)
    | aff x' y' =>
      rw [ι₂_aff ha.1, ι₂_aff hb.1] at h
      injection h with hx hy
      have ra := ha.2; have rb := hb.2
      simp only [Pt2.reduced, Bool.and_eq_true] at ra rb
      rw [F2_eq_of_k2 x x' ra.1 rb.1 hx, F2_eq_of_k2 y y' ra.2 rb.2 hy]

theorem negY2_eq (X Y : K) : W2.negY X Y = -Y := by simp [W2]

theorem ι₂_neg (a : Pt2) (ha : Valid2 a) : Valid2 a.neg ∧ ι₂ a.neg = -ι₂ a := by
  cases a with
  | inf => exact ⟨⟨rfl, rfl⟩, by simp [Pt2.neg, ι₂]⟩
  | aff x y =>
    have ra := ha.2
    simp only [Pt2.reduced, Bool.and_eq_true] at ra
    rw [ι₂_aff ha.1, WeierstrassCurve.Affine.Point.neg_some]
    have hn := (WeierstrassCurve.Affine.nonsingular_neg (W' := W2) (k2 x) (k2 y)).mpr
      (nonsing2 ((onTwistXY_iff x y).mp ha.1))
    have := ι₂_eq_some x (F2.neg y) hn rfl (by rw [k2_neg, negY2_eq])
    refine ⟨⟨this.2, ?_⟩, this.1⟩
    have rx := ra.1
    simp only [F2.isReduced, Bool.and_eq_true, decide_eq_true_eq] at rx
    simp [Pt2.neg, Pt2.reduced, F2.isReduced, F2.neg, fneg_lt, rx.1, rx.2]

/-! ### addition -/

theorem isZero_reduce_iff (a : F2) : (F2.reduce a).isZero = true ↔ k2 a = 0 := by
  rw [← k2_reduce a]
  simp only [F2.isZero, F2.reduce, Bool.and_eq_true, beq_iff_eq]
  constructor
  · rintro ⟨h1, h2⟩
    ext <;> simp [k2, h1, h2]
  · intro h
    have h1 := congrArg QuadraticAlgebra.im h
    have h2 := congrArg QuadraticAlgebra.re h
    simp only [k2, QuadraticAlgebra.im_zero, QuadraticAlgebra.re_zero] at h1 h2
    rw [ZMod.natCast_eq_zero_iff, Nat.dvd_iff_mod_eq_zero] at h1 h2
    simp only [Nat.mod_mod] at h1 h2
    exact ⟨h1, h2⟩

theorem beq_reduce_iff (a b : F2) : (F2.reduce a == F2.reduce b) = true ↔ k2 a = k2 b := by
  rw [beq_iff_eq]; exact k2_eq_iff a b

omit hp in
theorem F2_sub_isReduced (a b : F2) : (F2.sub a b).isReduced = true := (F2_ops_reduced a b).2.1

theorem ι₂_double (x y : F2) (ha : Valid2 (.aff x y)) :
    Valid2 (Pt2.double (.aff x y)) ∧ ι₂ (Pt2.double (.aff x y)) = ι₂ (.aff x y) + ι₂ (.aff x y) := by
  have h1 := (onTwistXY_iff x y).mp ha.1
  rw [ι₂_aff ha.1]
  by_cases hy0 : k2 y = 0
  · have hb : (F2.reduce y).isZero = true := (isZero_reduce_iff y).mpr hy0
    have hY : k2 y = W2.negY (k2 x) (k2 y) := by rw [negY2_eq, hy0, neg_zero]
    rw [WeierstrassCurve.Affine.Point.add_self_of_Y_eq hY]
    simp only [Pt2.double, hb, if_true]
    exact ⟨⟨rfl, rfl⟩, rfl⟩
  · have hb : ¬ (F2.reduce y).isZero = true := fun h => hy0 ((isZero_reduce_iff y).mp h)
    have hY : k2 y ≠ W2.negY (k2 x) (k2 y) := by
      rw [negY2_eq]
      intro h
      have : (2 : K) * k2 y = 0 := by linear_combination h
      rcases mul_eq_zero.mp this with h2 | h2
      · exact twoK_ne_zero h2
      · exact hy0 h2
    rw [WeierstrassCurve.Affine.Point.add_self_of_Y_ne hY]
    simp only [Pt2.double, hb]
    have hsl : W2.slope (k2 x) (k2 x) (k2 y) (k2 y) = 3 * k2 x ^ 2 * (k2 y + k2 y)⁻¹ := by
      rw [WeierstrassCurve.Affine.slope_of_Y_ne (W := W2) rfl hY, negY2_eq, div_eq_mul_inv]
      simp only [W2]
      congr 1
      · ring
      · congr 1; ring
    set l := F2.mul (F2.mul (F2.ofNat 3) (F2.sq x)) (F2.inv (F2.add y y)) with hl
    have hlk : k2 l = 3 * k2 x ^ 2 * (k2 y + k2 y)⁻¹ := by
      rw [hl, k2_mul, k2_mul, k2_ofNat, k2_sq, k2_inv, k2_add]; push_cast; ring
    have key := ι₂_eq_some
      (F2.sub (F2.sub (F2.sq l) x) x)
      (F2.sub (F2.mul l (F2.sub x (F2.sub (F2.sub (F2.sq l) x) x))) y)
      (WeierstrassCurve.Affine.nonsingular_add (nonsing2 h1) (nonsing2 h1) fun hxy => hY hxy.right)
      (by
        rw [hsl]
        simp only [k2_sub, k2_sq, hlk, WeierstrassCurve.Affine.addX, W2]
        ring)
      (by
        rw [hsl]
        simp only [k2_sub, k2_sq, k2_mul, hlk, WeierstrassCurve.Affine.addY,
          WeierstrassCurve.Affine.negAddY, WeierstrassCurve.Affine.addX, W2,
          WeierstrassCurve.Affine.negY]
        ring)
    exact ⟨⟨key.2, by simp [Pt2.reduced, F2_sub_isReduced]⟩, key.1⟩

theorem ι₂_add (a b : Pt2) (ha : Valid2 a) (hb : Valid2 b) :
    Valid2 (a.add b) ∧ ι₂ (a.add b) = ι₂ a + ι₂ b := by
  cases a with
  | inf =>
    cases b with
    | inf => exact ⟨⟨rfl, rfl⟩, by simp [Pt2.add, ι₂]⟩
    | aff x y => exact ⟨hb, by simp [Pt2.add, ι₂]⟩
  | aff x1 y1 =>
    cases b with
    | inf => exact ⟨ha, by simp [Pt2.add, ι₂]⟩
    | aff x2 y2 =>
      have h1 := (onTwistXY_iff x1 y1).mp ha.1
      have h2 := (onTwistXY_iff x2 y2).mp hb.1
      by_cases hx : k2 x1 = k2 x2
      · have hbx : (F2.reduce x1 == F2.reduce x2) = true := (beq_reduce_iff x1 x2).mpr hx
        by_cases hy : k2 y1 = k2 y2
        · have hby : (F2.reduce y1 == F2.reduce y2) = true := (beq_reduce_iff y1 y2).mpr hy
          have rb := hb.2; have ra := ha.2
          simp only [Pt2.reduced, Bool.and_eq_true] at ra rb
          have e1 : x2 = x1 := (F2_eq_of_k2 x1 x2 ra.1 rb.1 hx).symm
          have e2 : y2 = y1 := (F2_eq_of_k2 y1 y2 ra.2 rb.2 hy).symm
          subst e1; subst e2
          simp only [Pt2.add, hbx, hby, if_true]
          exact ι₂_double x2 y2 ha
        · have hby : ¬ (F2.reduce y1 == F2.reduce y2) = true := fun h => hy ((beq_reduce_iff y1 y2).mp h)
          have hneg : k2 y1 = W2.negY (k2 x2) (k2 y2) :=
            (WeierstrassCurve.Affine.Y_eq_of_X_eq h1 h2 hx).resolve_left hy
          simp only [Pt2.add, hbx, hby, if_true]
          rw [ι₂_aff ha.1, ι₂_aff hb.1, WeierstrassCurve.Affine.Point.add_of_Y_eq hx hneg]
          exact ⟨⟨rfl, rfl⟩, rfl⟩
      · have hbx : ¬ (F2.reduce x1 == F2.reduce x2) = true := fun h => hx ((beq_reduce_iff x1 x2).mp h)
        simp only [Pt2.add, hbx]
        rw [ι₂_aff ha.1, ι₂_aff hb.1, WeierstrassCurve.Affine.Point.add_of_X_ne hx]
        have hsl : W2.slope (k2 x1) (k2 x2) (k2 y1) (k2 y2) = (k2 y2 - k2 y1) * (k2 x2 - k2 x1)⁻¹ := by
          rw [WeierstrassCurve.Affine.slope_of_X_ne hx, div_eq_mul_inv, ← neg_sub (k2 y2) (k2 y1),
            ← neg_sub (k2 x2) (k2 x1), inv_neg, neg_mul_neg]
        set l := F2.mul (F2.sub y2 y1) (F2.inv (F2.sub x2 x1)) with hl
        have hlk : k2 l = (k2 y2 - k2 y1) * (k2 x2 - k2 x1)⁻¹ := by
          rw [hl, k2_mul, k2_inv, k2_sub, k2_sub]
        have key := ι₂_eq_some
          (F2.sub (F2.sub (F2.sq l) x1) x2)
          (F2.sub (F2.mul l (F2.sub x1 (F2.sub (F2.sub (F2.sq l) x1) x2))) y1)
          (WeierstrassCurve.Affine.nonsingular_add (nonsing2 h1) (nonsing2 h2) fun hxy => hx hxy.left)
          (by
            rw [hsl]
            simp only [k2_sub, k2_sq, hlk, WeierstrassCurve.Affine.addX, W2]
            ring)
          (by
            rw [hsl]
            simp only [k2_sub, k2_sq, k2_mul, hlk, WeierstrassCurve.Affine.addY,
              WeierstrassCurve.Affine.negAddY, WeierstrassCurve.Affine.addX, W2,
              WeierstrassCurve.Affine.negY]
            ring)
        exact ⟨⟨key.2, by simp [Pt2.reduced, F2_sub_isReduced]⟩, key.1⟩

theorem ι₂_mul_bits (a : Pt2) (ha : Valid2 a) (bs : List Bool) :
    Valid2 (bs.foldr (fun b s => if b then Pt2.add (Pt2.double s) a else Pt2.double s) .inf) ∧
    ι₂ (bs.foldr (fun b s => if b then Pt2.add (Pt2.double s) a else Pt2.double s) .inf)
      = ofBitsLE bs • ι₂ a := by
  induction bs with
  | nil => exact ⟨⟨rfl, rfl⟩, by simp [ofBitsLE, ι₂]⟩
  | cons b bs ih =>
    simp only [List.foldr_cons]
    set s := bs.foldr (fun b s => if b then Pt2.add (Pt2.double s) a else Pt2.double s) .inf with hs
    have hd : Valid2 (Pt2.double s) ∧ ι₂ (Pt2.double s) = ι₂ s + ι₂ s := by
      cases hs' : s with
      | inf => exact ⟨⟨rfl, rfl⟩, by simp [Pt2.double, ι₂]⟩
      | aff x y => rw [hs'] at ih; exact ι₂_double x y ih.1
    cases b with
    | false =>
      simp only [Bool.false_eq_true, if_false, ofBitsLE]
      refine ⟨hd.1, ?_⟩
      rw [hd.2, ih.2, zero_add, two_mul, add_nsmul]
    | true =>
      simp only [if_true, ofBitsLE]
      have := ι₂_add (Pt2.double s) a hd.1 ha
      refine ⟨this.1, ?_⟩
      rw [this.2, hd.2, ih.2, add_nsmul, one_nsmul, two_mul, add_nsmul, add_comm]

/-- `Pt2.mul` is scalar multiplication in the group of the twist (scalars below 2^512). -/
theorem ι₂_mul (a : Pt2) (ha : Valid2 a) (k : ℕ) (hk : k < 2 ^ 512) :
    Valid2 (Pt2.mul a k) ∧ ι₂ (Pt2.mul a k) = k • ι₂ a := by
  unfold Pt2.mul
  rw [List.foldl_reverse]
  have := ι₂_mul_bits a ha (bitsLE 512 k)
  rw [ofBitsLE_bitsLE 512 k hk] at this
  exact this

end Rangers.Proofs.Bls14
