import Mathlib.Data.ZMod.Basic
import Mathlib.Algebra.Field.ZMod
import Mathlib.Tactic.LinearCombination
import Rangers.Model.VrfCurve
import Rangers.Proofs.C16Curve
/-!
Bridge from the executable model (naturals reduced mod p) to the field `ZMod p`:
the model's `add` IS the extended-coordinate formula of `C16Curve.ext_add_affine`
evaluated in `ZMod p`, hence (p prime) it computes the affine Edwards law.
-/
namespace Rangers.Proofs.C16Cast
open Rangers.Model Rangers.Model.VrfCurve Rangers.Proofs.C16Curve

abbrev Fp := ZMod VrfCurve.p

theorem p_pos : 0 < VrfCurve.p := by decide
theorem p_gt_two : ¬ VrfCurve.p ≤ 2 := by decide

-- from here on `p` is an opaque constant (no unfolding of 2^255-19 during elaboration)
attribute [local irreducible] VrfCurve.p

theorem cast_fadd (a b : ℕ) : ((fadd a b : ℕ) : Fp) = (a : Fp) + b := by
  unfold fadd; rw [ZMod.natCast_mod, Nat.cast_add]

theorem cast_fmul (a b : ℕ) : ((fmul a b : ℕ) : Fp) = (a : Fp) * b := by
  unfold fmul; rw [ZMod.natCast_mod, Nat.cast_mul]

theorem cast_fsub (a b : ℕ) : ((fsub a b : ℕ) : Fp) = (a : Fp) - b := by
  unfold fsub
  have hle : b % VrfCurve.p ≤ VrfCurve.p := Nat.le_of_lt (Nat.mod_lt _ p_pos)
  rw [ZMod.natCast_mod, Nat.cast_add, Nat.cast_sub hle, ZMod.natCast_self, ZMod.natCast_mod]
  ring

theorem cast_d2 : ((d2Const : ℕ) : Fp) = 2 * (dConst : Fp) := by
  unfold d2Const; rw [ZMod.natCast_mod]; push_cast; ring

/-- The model's point addition, read in `ZMod p`, is exactly the formula analysed in
    `ext_add_affine` (no primality needed: these are ring identities). -/
theorem model_add_cast (a q : Point) :
    let X1 : Fp := a.X; let Y1 : Fp := a.Y; let Z1 : Fp := a.Z; let T1 : Fp := a.T
    let X2 : Fp := q.X; let Y2 : Fp := q.Y; let Z2 : Fp := q.Z; let T2 : Fp := q.T
    let d : Fp := (dConst : Fp)
    let cX := (Y1 + X1) * (Y2 + X2) - (Y1 - X1) * (Y2 - X2)
    let cY := (Y1 + X1) * (Y2 + X2) + (Y1 - X1) * (Y2 - X2)
    let cZ := (Z1 * Z2 + Z1 * Z2) + T2 * (2 * d) * T1
    let cT := (Z1 * Z2 + Z1 * Z2) - T2 * (2 * d) * T1
    (((VrfCurve.add a q).X : ℕ) : Fp) = cX * cT ∧ (((VrfCurve.add a q).Y : ℕ) : Fp) = cY * cZ ∧
    (((VrfCurve.add a q).Z : ℕ) : Fp) = cZ * cT ∧ (((VrfCurve.add a q).T : ℕ) : Fp) = cX * cY := by
  intro X1 Y1 Z1 T1 X2 Y2 Z2 T2 d cX cY cZ cT
  simp only [VrfCurve.add, addC, Completed.toExtended, cast_fmul, cast_fadd, cast_fsub, cast_d2]
  refine ⟨?_, ?_, ?_, ?_⟩ <;> simp only [cX, cY, cZ, cT, X1, Y1, Z1, T1, X2, Y2, Z2, T2, d]

variable [Fact (Nat.Prime VrfCurve.p)]

/-- affine coordinates of a model point in `ZMod p` -/
noncomputable def affX (a : Point) : Fp := (a.X : Fp) / (a.Z : Fp)
noncomputable def affY (a : Point) : Fp := (a.Y : Fp) / (a.Z : Fp)
/-- representation invariant of extended coordinates -/
def WellFormed (a : Point) : Prop := (a.Z : Fp) ≠ 0 ∧ (a.T : Fp) * a.Z = (a.X : Fp) * a.Y

/-- With p prime: on well-formed inputs whose affine sum has non-vanishing denominators
    (always the case on curve points, `C16Curve.denoms_ne_zero`), the model's `add` returns a
    well-formed point whose affine coordinates are given by the Edwards addition law. -/
theorem model_add_affine (a q : Point)
    (ha : WellFormed a) (hq : WellFormed q)
    (hD1 : 1 + (dConst : Fp) * affX a * affX q * affY a * affY q ≠ 0)
    (hD2 : 1 - (dConst : Fp) * affX a * affX q * affY a * affY q ≠ 0) :
    WellFormed (VrfCurve.add a q) ∧
    affX (VrfCurve.add a q) = addX (dConst : Fp) (affX a) (affY a) (affX q) (affY q) ∧
    affY (VrfCurve.add a q) = addY (dConst : Fp) (affX a) (affY a) (affX q) (affY q) := by
  have h2 : (2 : Fp) ≠ 0 := by
    intro h
    have : ((2 : ℕ) : Fp) = 0 := by exact_mod_cast h
    rw [ZMod.natCast_eq_zero_iff] at this
    exact p_gt_two (Nat.le_of_dvd (by decide) this)
  obtain ⟨eX, eY, eZ, eT⟩ := model_add_cast a q
  obtain ⟨hne, hx, hy, ht⟩ := ext_add_affine (dConst : Fp) a.X a.Y a.Z a.T q.X q.Y q.Z q.T h2
    ha.1 hq.1 ha.2 hq.2 hD1 hD2
  refine ⟨⟨?_, ?_⟩, ?_, ?_⟩
  · rw [eZ]; exact hne
  · rw [eT, eZ, eX, eY]; exact ht
  · unfold affX at *; rw [eX, eZ]; exact hx
  · unfold affY at *; rw [eY, eZ]; exact hy


/-! ### `GeSub` = addition of the negated point -/

theorem cast_fneg (a : ℕ) : ((fneg a : ℕ) : Fp) = -(a : Fp) := by
  unfold fneg
  have hle : a % VrfCurve.p ≤ VrfCurve.p := Nat.le_of_lt (Nat.mod_lt _ p_pos)
  rw [ZMod.natCast_mod, Nat.cast_sub hle, ZMod.natCast_self, ZMod.natCast_mod]
  ring

/-- −(X, Y, Z, T) = (−X, Y, Z, −T) -/
def negPt (q : Point) : Point := ⟨fneg q.X, q.Y, q.Z, fneg q.T⟩

/-- The model's `sub` (ref10 `GeSub`) has, coordinate by coordinate in `ZMod p`, the value of
    `add a (−q)`. -/
theorem model_sub_cast (a q : Point) :
    (((VrfCurve.sub a q).X : ℕ) : Fp) = ((VrfCurve.add a (negPt q)).X : ℕ) ∧
    (((VrfCurve.sub a q).Y : ℕ) : Fp) = ((VrfCurve.add a (negPt q)).Y : ℕ) ∧
    (((VrfCurve.sub a q).Z : ℕ) : Fp) = ((VrfCurve.add a (negPt q)).Z : ℕ) ∧
    (((VrfCurve.sub a q).T : ℕ) : Fp) = ((VrfCurve.add a (negPt q)).T : ℕ) := by
  simp only [VrfCurve.sub, subC, VrfCurve.add, addC, Completed.toExtended, negPt, cast_fmul, cast_fadd,
    cast_fsub, cast_fneg, cast_d2]
  refine ⟨?_, ?_, ?_, ?_⟩ <;> ring

theorem negPt_wellFormed (q : Point) (hq : WellFormed q) : WellFormed (negPt q) := by
  unfold WellFormed negPt at *
  simp only [cast_fneg]
  exact ⟨hq.1, by linear_combination -hq.2⟩

theorem negPt_affine (q : Point) : affX (negPt q) = -affX q ∧ affY (negPt q) = affY q := by
  unfold affX affY negPt
  simp only [cast_fneg]
  exact ⟨neg_div _ _, trivial⟩

/-- `sub` computes `a + (−q)` in the group of the curve (affine coordinates), and preserves
    the representation invariant. -/
theorem model_sub_affine (a q : Point) (ha : WellFormed a) (hq : WellFormed q)
    (hD1 : 1 + (dConst : Fp) * affX a * (-affX q) * affY a * affY q ≠ 0)
    (hD2 : 1 - (dConst : Fp) * affX a * (-affX q) * affY a * affY q ≠ 0) :
    WellFormed (VrfCurve.sub a q) ∧
    affX (VrfCurve.sub a q) = addX (dConst : Fp) (affX a) (affY a) (-affX q) (affY q) ∧
    affY (VrfCurve.sub a q) = addY (dConst : Fp) (affX a) (affY a) (-affX q) (affY q) := by
  obtain ⟨eX, eY, eZ, eT⟩ := model_sub_cast a q
  obtain ⟨nx, ny⟩ := negPt_affine q
  have h := model_add_affine a (negPt q) ha (negPt_wellFormed q hq) (by rw [nx, ny]; exact hD1)
    (by rw [nx, ny]; exact hD2)
  rw [nx, ny] at h
  obtain ⟨⟨hz, ht⟩, hx, hy⟩ := h
  refine ⟨⟨?_, ?_⟩, ?_, ?_⟩
  · rw [eZ]; exact hz
  · rw [eT, eZ, eX, eY]; exact ht
  · unfold affX at *; rw [eX, eZ]; exact hx
  · unfold affY at *; rw [eY, eZ]; exact hy

end Rangers.Proofs.C16Cast
