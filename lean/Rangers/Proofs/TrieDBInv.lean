import Rangers.Proofs.TrieDB
/-!
The invariant of the C03 state machine (`Rangers.Model.TrieDB.step`) and its
preservation by every operation.  Core Lean only.
-/
namespace Rangers.Model.TrieDB

structure Inv (s : St) : Prop where
  allRes : AllRes s.disk
  cacheInv : CacheInv s.cache s.disk
  consistent : Consistent s.cache s.disk

/-- What the callers of `hasher.store` / `InsertBlob` guarantee about a node
    when it is stored (checked on every correspondence run: the driver answers
    `ok!pre` otherwise):
    * it arrives without external references;
    * the hash names its content (no collision with what is on disk);
    * everything a reader of the node needs is on disk, or is cached already
      (children are stored before parents: hasher post-order, `CommitTrie` and
      `InsertBlob` before the account trie commit) **and** is either a hash child
      of the node or — for an account leaf — the storage root / code hash the
      leaf callback is given, provided the callback's guard lets it through. -/
def StoreOk (eD eC : Hash) (s : St) (h : Hash) (n : CNode) (leaf : Option (Hash × Hash)) : Prop :=
  n.ext = [] ∧
  (∀ dn, s.disk.lookup h = some dn → dn = n.toD) ∧
  (∀ r ∈ n.need, Has s.disk r ∨
    (Has s.cache r ∧ (r ∈ n.inner ∨
      ∃ root code, leaf = some (root, code) ∧ ((r = root ∧ root ≠ eD) ∨ (r = code ∧ code ≠ eC)))))

def OpOk (eD eC : Hash) (s : St) : Op → Prop
  | .store h n leaf => StoreOk eD eC s h n leaf
  | _ => True

/-! ## caches that only grow references -/

/-- every node of `c'` is a node of `c` with the same content and at least the
    same children, and nothing left the cache. -/
def Grows (c c' : Cache) : Prop :=
  (∀ k n', c'.lookup k = some n' →
    ∃ n, c.lookup k = some n ∧ n'.need = n.need ∧ n'.toD = n.toD ∧ ∀ r ∈ n.childs, r ∈ n'.childs) ∧
  (∀ k, Has c k → Has c' k)

theorem grows_refl (c : Cache) : Grows c c :=
  ⟨fun _ n' h => ⟨n', h, rfl, rfl, fun _ hr => hr⟩, fun _ h => h⟩

theorem grows_trans {a b c : Cache} (h1 : Grows a b) (h2 : Grows b c) : Grows a c := by
  refine ⟨fun k n' hk => ?_, fun k hk => h2.2 k (h1.2 k hk)⟩
  obtain ⟨m, hm, e1, e2, e3⟩ := h2.1 k n' hk
  obtain ⟨n, hn, f1, f2, f3⟩ := h1.1 k m hm
  exact ⟨n, hn, e1.trans f1, e2.trans f2, fun r hr => e3 r (f3 r hr)⟩

theorem grows_cacheInv {c c' : Cache} {d : Disk} (hg : Grows c c') (hi : CacheInv c d) : CacheInv c' d := by
  intro k n' hk r hr
  obtain ⟨n, hn, e1, _, e3⟩ := hg.1 k n' hk
  rw [e1] at hr
  rcases hi k n hn r hr with h | ⟨h1, h2⟩
  · exact Or.inl h
  · exact Or.inr ⟨e3 r h1, hg.2 r h2⟩

theorem grows_consistent {c c' : Cache} {d : Disk} (hg : Grows c c') (hc : Consistent c d) : Consistent c' d := by
  intro k n' dn hk hd
  obtain ⟨n, hn, _, e2, _⟩ := hg.1 k n' hk
  rw [e2]; exact hc k n dn hn hd

/-- a map over the values that keeps keys. -/
theorem lookup_mapNode (g : Hash → CNode → CNode) (c : Cache) (k : Hash) :
    (c.map fun kn => (kn.1, g kn.1 kn.2)).lookup k = (c.lookup k).map (g k) :=
  lookup_map_val g c k

theorem addExt_lookup (c : Cache) (p ch k : Hash) :
    (addExt c p ch).lookup k = (c.lookup k).map fun n => if k = p then n.addExt ch else n := by
  induction c with
  | nil => rfl
  | cons kn rest ih =>
    obtain ⟨a, v⟩ := kn
    have hstep : addExt ((a, v) :: rest) p ch =
        (if (a == p) = true then (a, v.addExt ch) else (a, v)) :: addExt rest p ch := rfl
    rw [hstep]
    by_cases ha : a = p
    · have hb : (a == p) = true := by simpa using ha
      rw [if_pos hb, lookup_cons_eq, lookup_cons_eq, ih]
      by_cases hk : k = a
      · rw [if_pos hk, if_pos hk]; simp [hk, ha]
      · rw [if_neg hk, if_neg hk]
    · have hb : ¬ (a == p) = true := by simpa using ha
      rw [if_neg hb, lookup_cons_eq, lookup_cons_eq, ih]
      by_cases hk : k = a
      · rw [if_pos hk, if_pos hk]; simp [hk, ha]
      · rw [if_neg hk, if_neg hk]

theorem addExt_grows (c : Cache) (p ch : Hash) : Grows c (addExt c p ch) := by
  refine ⟨fun k n' hk => ?_, fun k hk => ?_⟩
  · rw [addExt_lookup] at hk
    cases hl : c.lookup k with
    | none => simp [hl] at hk
    | some n =>
      simp only [hl, Option.map_some, Option.some.injEq] at hk
      subst hk
      refine ⟨n, rfl, ?_, ?_, ?_⟩
      · split <;> rfl
      · split <;> rfl
      · intro r hr
        split
        · simp only [CNode.childs, CNode.addExt, List.mem_append] at hr ⊢
          rcases hr with h | h
          · exact Or.inl (Or.inl h)
          · exact Or.inr h
        · exact hr
  · unfold Has at hk ⊢
    rw [addExt_lookup]
    cases hl : c.lookup k with
    | none => simp [hl] at hk
    | some n => simp

theorem reference_grows {c c' : Cache} {ch p : Hash} (h : reference c ch p = some c') : Grows c c' := by
  unfold reference at h
  cases h1 : c.lookup ch with
  | none => simp [h1] at h; subst h; exact grows_refl c
  | some _ =>
    simp only [h1] at h
    cases h2 : c.lookup p with
    | none => simp [h2] at h
    | some pn =>
      simp only [h2] at h
      split at h
      · simp at h; subst h; exact grows_refl c
      · simp at h; subst h; exact addExt_grows c p ch

/-- after `reference child parent` with both cached, `child` is an external child of `parent`. -/
theorem reference_adds {c c' : Cache} {ch p : Hash} (hc : Has c ch) (hp : Has c p)
    (h : reference c ch p = some c') : ∃ pn', c'.lookup p = some pn' ∧ ch ∈ pn'.ext := by
  obtain ⟨cn, hcn⟩ := lookup_of_has hc
  obtain ⟨pn, hpn⟩ := lookup_of_has hp
  unfold reference at h
  simp only [hcn, hpn] at h
  split at h
  · rename_i hcont
    simp at h; subst h
    exact ⟨pn, hpn, by simpa using hcont⟩
  · simp at h; subst h
    refine ⟨pn.addExt ch, ?_, by simp [CNode.addExt]⟩
    rw [addExt_lookup, hpn]; simp

theorem reference_none_iff {c : Cache} {ch p : Hash} (hp : Has c p) : (reference c ch p).isSome = true := by
  obtain ⟨pn, hpn⟩ := lookup_of_has hp
  unfold reference
  cases h1 : c.lookup ch with
  | none => simp
  | some _ => simp only [hpn]; split <;> simp

theorem leafRefs_split {eD eC : Hash} {c c' : Cache} {p root code : Hash}
    (h : leafRefs eD eC c p root code = some c') :
    ∃ c1, (if root != eD then reference c root p else some c) = some c1 ∧
      (if code != eC then reference c1 code p else some c1) = some c' := by
  unfold leafRefs at h
  generalize hx : (if root != eD then reference c root p else some c) = x at h
  cases x with
  | none => simp at h
  | some c1 => exact ⟨c1, rfl, h⟩

theorem ite_reference_grows {c c' : Cache} {b : Bool} {ch p : Hash}
    (h : (if b then reference c ch p else some c) = some c') : Grows c c' := by
  cases b with
  | true => simp only [if_true] at h; exact reference_grows h
  | false => simp at h; subst h; exact grows_refl c

theorem leafRefs_grows {eD eC : Hash} {c c' : Cache} {p root code : Hash}
    (h : leafRefs eD eC c p root code = some c') : Grows c c' := by
  obtain ⟨c1, h1, h2⟩ := leafRefs_split h
  exact grows_trans (ite_reference_grows h1) (ite_reference_grows h2)

/-- the leaf-reference rule: after the callback, a cached storage root / code
    blob that passes the guard is an external child of the node holding the leaf. -/
theorem leafRefs_adds {eD eC : Hash} {c c' : Cache} {p root code : Hash} (hp : Has c p)
    (h : leafRefs eD eC c p root code = some c') :
    ∃ pn', c'.lookup p = some pn' ∧
      (root ≠ eD → Has c root → root ∈ pn'.childs) ∧ (code ≠ eC → Has c code → code ∈ pn'.childs) := by
  obtain ⟨c1, hc1, h2⟩ := leafRefs_split h
  have g1 : Grows c c1 := ite_reference_grows hc1
  have g2 : Grows c1 c' := ite_reference_grows h2
  obtain ⟨pn', hpn'⟩ := lookup_of_has (g2.2 p (g1.2 p hp))
  refine ⟨pn', hpn', ?_, ?_⟩
  · intro hne hr
    have hb : (root != eD) = true := by simpa using hne
    simp only [hb, if_true] at hc1
    obtain ⟨pn1, h1, h3⟩ := reference_adds hr hp hc1
    obtain ⟨m, hm, _, _, e3⟩ := g2.1 p pn' hpn'
    rw [h1] at hm; cases hm
    exact e3 root (by simp [CNode.childs, h3])
  · intro hne hr
    have hb : (code != eC) = true := by simpa using hne
    simp only [hb, if_true] at h2
    obtain ⟨pn2, h1, h3⟩ := reference_adds (g1.2 code hr) (g1.2 p hp) h2
    rw [hpn'] at h1; cases h1
    simp [CNode.childs, h3]


/-! ## insert / store -/

theorem insert_old {c : Cache} {h : Hash} {n m : CNode} (hm : c.lookup h = some m) : insert c h n = c := by
  simp [insert, hm]

theorem insert_new {c : Cache} {h : Hash} {n : CNode} (hn : c.lookup h = none) : insert c h n = (h, n) :: c := by
  simp [insert, hn]

theorem insert_has_mono {c : Cache} (h : Hash) (n : CNode) {r : Hash} (hr : Has c r) : Has (insert c h n) r := by
  cases hl : c.lookup h with
  | some m => rw [insert_old hl]; exact hr
  | none =>
    rw [insert_new hl]
    unfold Has
    rw [lookup_cons_eq]
    by_cases hk : r = h
    · simp [hk]
    · simpa [hk] using hr

theorem insert_has_self (c : Cache) (h : Hash) (n : CNode) : Has (insert c h n) h := by
  cases hl : c.lookup h with
  | some m => rw [insert_old hl]; exact has_of_lookup hl
  | none => rw [insert_new hl]; unfold Has; rw [lookup_cons_eq]; simp

theorem cacheInv_mono_disk {c : Cache} {d d' : Disk} (hi : CacheInv c d) (hd : ∀ r, Has d r → Has d' r) :
    CacheInv c d' := by
  intro k n hk r hr
  rcases hi k n hk r hr with h | h
  · exact Or.inl (hd r h)
  · exact Or.inr h

/-- `leaf_refs_covered`, invariant form: storing a node (with its leaf callback)
    keeps the cache invariant, provided the caller respects `StoreOk`. -/
theorem store_inv {eD eC : Hash} {s : St} {h : Hash} {n : CNode} {leaf : Option (Hash × Hash)} {c' : Cache}
    (hi : Inv s) (hok : StoreOk eD eC s h n leaf) (hs : store eD eC s.cache h n leaf = some c') :
    Inv ⟨c', s.disk⟩ := by
  obtain ⟨hext, hcons, hneed⟩ := hok
  -- c1 = insert; c' grows from c1
  have hg : Grows (insert s.cache h n) c' := by
    unfold store at hs
    cases leaf with
    | none => simp at hs; subst hs; exact grows_refl _
    | some rc => obtain ⟨root, code⟩ := rc; exact leafRefs_grows hs
  cases hl : s.cache.lookup h with
  | some m =>
    rw [insert_old hl] at hg
    exact ⟨hi.allRes, grows_cacheInv hg hi.cacheInv, grows_consistent hg hi.consistent⟩
  | none =>
    have hc1 : ∀ k, (insert s.cache h n).lookup k = if k = h then some n else s.cache.lookup k := by
      intro k; rw [insert_new hl, lookup_cons_eq]
    have hcons1 : Consistent (insert s.cache h n) s.disk := by
      intro k m dn hk hd
      rw [hc1] at hk
      by_cases hkh : k = h
      · subst hkh; simp only [if_true, Option.some.injEq] at hk; subst hk; exact hcons dn hd
      · simp only [hkh, if_false] at hk; exact hi.consistent k m dn hk hd
    refine ⟨hi.allRes, ?_, grows_consistent hg hcons1⟩
    intro k n' hk r hr
    obtain ⟨n1, hn1, e1, _, e3⟩ := hg.1 k n' hk
    rw [e1] at hr
    rw [hc1] at hn1
    by_cases hkh : k = h
    · subst hkh
      simp only [if_true, Option.some.injEq] at hn1
      subst hn1
      rcases hneed r hr with hd | ⟨hcr, hwhere⟩
      · exact Or.inl hd
      · have hcr' : Has c' r := hg.2 r (insert_has_mono k n hcr)
        rcases hwhere with hin | ⟨root, code, hleaf, hrc⟩
        · exact Or.inr ⟨e3 r (by simp [CNode.childs, hin]), hcr'⟩
        · subst hleaf
          unfold store at hs
          simp only at hs
          obtain ⟨pn', hpn', a1, a2⟩ := leafRefs_adds (insert_has_self s.cache k n) hs
          rw [hk] at hpn'; cases hpn'
          rcases hrc with ⟨h1, h2⟩ | ⟨h1, h2⟩
          · subst h1; exact Or.inr ⟨a1 h2 (insert_has_mono k n hcr), hcr'⟩
          · subst h1; exact Or.inr ⟨a2 h2 (insert_has_mono k n hcr), hcr'⟩
    · simp only [hkh, if_false] at hn1
      rcases hi.cacheInv k n1 hn1 r hr with hd | ⟨h1, h2⟩
      · exact Or.inl hd
      · exact Or.inr ⟨e3 r h1, hg.2 r (insert_has_mono h n h2)⟩

/-- The runtime-checked counterpart of `store_inv`: instead of assuming what the
    callers of `hasher.store` guarantee (`StoreOk`), it suffices that the driver's
    `storeCheck` passed — which it verifies on every `ins`/`insl` of every run. -/
theorem store_inv_checked {eD eC : Hash} {s : St} {h : Hash} {n : CNode} {leaf : Option (Hash × Hash)} {c' : Cache}
    (hi : Inv s) (hs : store eD eC s.cache h n leaf = some c')
    (hck : (s.cache.lookup h).isSome = true ∨ storeCheck s.disk c' h n = true) : Inv ⟨c', s.disk⟩ := by
  have hg : Grows (insert s.cache h n) c' := by
    unfold store at hs
    cases leaf with
    | none => simp at hs; subst hs; exact grows_refl _
    | some rc => obtain ⟨root, code⟩ := rc; exact leafRefs_grows hs
  cases hl : s.cache.lookup h with
  | some m =>
    rw [insert_old hl] at hg
    exact ⟨hi.allRes, grows_cacheInv hg hi.cacheInv, grows_consistent hg hi.consistent⟩
  | none =>
    have hck' : storeCheck s.disk c' h n = true := by
      rcases hck with h1 | h1
      · simp [hl] at h1
      · exact h1
    unfold storeCheck at hck'
    simp only [Bool.and_eq_true] at hck'
    obtain ⟨hc1, hc2⟩ := hck'
    have hc1' : ∀ dn, s.disk.lookup h = some dn → dn = n.toD := by
      intro dn hd
      simp only [hd, decide_eq_true_eq] at hc1
      exact hc1
    have hins : ∀ k, (insert s.cache h n).lookup k = if k = h then some n else s.cache.lookup k := by
      intro k; rw [insert_new hl, lookup_cons_eq]
    have hcons1 : Consistent (insert s.cache h n) s.disk := by
      intro k m dn hk hd
      rw [hins] at hk
      by_cases hkh : k = h
      · subst hkh; simp only [if_true, Option.some.injEq] at hk; subst hk; exact hc1' dn hd
      · simp only [hkh, if_false] at hk; exact hi.consistent k m dn hk hd
    refine ⟨hi.allRes, ?_, grows_consistent hg hcons1⟩
    intro k n' hk r hr
    obtain ⟨n1, hn1, e1, _, e3⟩ := hg.1 k n' hk
    rw [hins] at hn1
    by_cases hkh : k = h
    · subst hkh
      simp only [if_true, Option.some.injEq] at hn1
      subst hn1
      rw [e1] at hr
      simp only [hk, List.all_eq_true, Bool.or_eq_true, Bool.and_eq_true] at hc2
      rcases hc2 r hr with hd | ⟨h1, h2⟩
      · exact Or.inl hd
      · exact Or.inr ⟨by simpa using h2, h1⟩
    · simp only [hkh, if_false] at hn1
      rw [e1] at hr
      rcases hi.cacheInv k n1 hn1 r hr with hd | ⟨h1, h2⟩
      · exact Or.inl hd
      · exact Or.inr ⟨e3 r h1, hg.2 r (insert_has_mono h n h2)⟩

/-! ## reorder -/

theorem lookup_map_cond (P : Hash → CNode → Bool) (g : CNode → CNode) (c : Cache) (k : Hash) :
    (c.map fun kn => if P kn.1 kn.2 then (kn.1, g kn.2) else kn).lookup k =
      (c.lookup k).map fun n => if P k n then g n else n := by
  induction c with
  | nil => rfl
  | cons kn rest ih =>
    obtain ⟨a, v⟩ := kn
    simp only [List.map_cons]
    by_cases hp : P a v = true
    · rw [if_pos hp, lookup_cons_eq, lookup_cons_eq, ih]
      by_cases hk : k = a
      · rw [if_pos hk, if_pos hk]; subst hk; simp [hp]
      · rw [if_neg hk, if_neg hk]
    · rw [if_neg hp, lookup_cons_eq, lookup_cons_eq, ih]
      by_cases hk : k = a
      · rw [if_pos hk, if_pos hk]; subst hk; simp [hp]
      · rw [if_neg hk, if_neg hk]

theorem sameMembers_mem {a b : List Hash} (h : sameMembers a b = true) {r : Hash} (hr : r ∈ b) : r ∈ a := by
  unfold sameMembers at h
  simp only [Bool.and_eq_true, List.all_eq_true] at h
  have := h.2 r hr
  simpa using this

theorem reorderExt_grows (c : Cache) (h : Hash) (ord : List Hash) : Grows c (reorderExt c h ord) := by
  have hl : ∀ k, (reorderExt c h ord).lookup k =
      (c.lookup k).map fun n => if (k == h && sameMembers ord n.ext) then n.setExt ord else n := by
    intro k
    exact lookup_map_cond (fun a v => a == h && sameMembers ord v.ext) (fun v => v.setExt ord) c k
  refine ⟨fun k n' hk => ?_, fun k hk => ?_⟩
  · rw [hl] at hk
    cases hc : c.lookup k with
    | none => simp [hc] at hk
    | some n =>
      simp only [hc, Option.map_some, Option.some.injEq] at hk
      subst hk
      refine ⟨n, rfl, ?_, ?_, ?_⟩
      · split <;> rfl
      · split <;> rfl
      · intro r hr
        split
        · rename_i hcond
          simp only [Bool.and_eq_true] at hcond
          simp only [CNode.childs, CNode.setExt, List.mem_append] at hr ⊢
          rcases hr with h1 | h1
          · exact Or.inl (sameMembers_mem hcond.2 h1)
          · exact Or.inr h1
        · exact hr
  · unfold Has at hk ⊢
    rw [hl]
    cases hc : c.lookup k with
    | none => simp [hc] at hk
    | some n => simp

/-! ## commit -/

theorem uncache_lookup (c : Cache) (ws : List Hash) (k : Hash) :
    (uncache c ws).lookup k = if ws.contains k then none else c.lookup k := by
  unfold uncache
  rw [lookup_filter_key (fun k => !ws.contains k) c k]
  cases ws.contains k <;> simp

/-- the disk after any prefix of the Put sequence of a commit. -/
theorem commit_prefix_facts {c : Cache} {d : Disk} (ha : AllRes d) (hci : CacheInv c d) (hcs : Consistent c d)
    {f : Nat} {root : Hash} {ws : List Hash} (hw : walk c f root = some ws) {p : List Hash} (hp : p <+: ws) :
    AllRes (applyWrites c d p) ∧ Consistent c (applyWrites c d p) ∧ Extends d (applyWrites c d p) := by
  have g := walk_good c d hci f root ws hw
  refine ⟨?_, (writes_extends p d hcs).2, (writes_extends p d hcs).1⟩
  exact writes_allRes ws [] d ha hcs (fun _ h => h) (by simp) g.cached (g.post []) p hp

theorem commit_inv {s : St} {root : Hash} {failAt : Option Nat} {fuel : Nat} {out : CommitOut}
    (hi : Inv s) (hc : commit s root failAt fuel = some out) : Inv out.st := by
  unfold commit at hc
  cases hw : walk s.cache fuel root with
  | none => simp [hw] at hc
  | some ws =>
    simp only [hw] at hc
    have hflat : (splitBatches s.cache ws [] 0).flatten = ws := by
      rw [splitBatches_flatten]; simp
    have g := walk_good s.cache s.disk hi.cacheInv fuel root ws hw
    -- success branch, shared by `failAt = none` and `k ≥ number of batches`
    have succ : Inv ⟨uncache s.cache ws, applyBatches s.cache s.disk (splitBatches s.cache ws [] 0)⟩ := by
      rw [applyBatches_eq, hflat]
      obtain ⟨h1, h2, h3⟩ := commit_prefix_facts hi.allRes hi.cacheInv hi.consistent hw (List.prefix_refl ws)
      refine ⟨h1, ?_, ?_⟩
      · intro k n hk r hr
        rw [uncache_lookup] at hk
        split at hk
        · simp at hk
        · rcases hi.cacheInv k n hk r hr with hd | ⟨hc1, hc2⟩
          · exact Or.inl (extends_has h3 hd)
          · by_cases hrw : r ∈ ws
            · obtain ⟨m, hm⟩ := lookup_of_has hc2
              exact Or.inl (has_of_lookup (writes_lookup hm ws s.disk (Or.inl hrw)))
            · right
              refine ⟨hc1, ?_⟩
              unfold Has
              rw [uncache_lookup]
              have : ws.contains r = false := by simpa using hrw
              simp only [this, Bool.false_eq_true, if_false]
              exact hc2
      · intro k n dn hk hd
        rw [uncache_lookup] at hk
        split at hk
        · simp at hk
        · exact h2 k n dn hk hd
    cases failAt with
    | none => simp at hc; subst hc; exact succ
    | some k =>
      simp only at hc
      split at hc
      · simp at hc; subst hc
        simp only
        rw [applyBatches_eq]
        have hp : ((splitBatches s.cache ws [] 0).take k).flatten <+: ws := by
          have := take_flatten_prefix (splitBatches s.cache ws [] 0) k
          rwa [hflat] at this
        obtain ⟨h1, h2, h3⟩ := commit_prefix_facts hi.allRes hi.cacheInv hi.consistent hw hp
        exact ⟨h1, cacheInv_mono_disk hi.cacheInv (fun r hr => extends_has h3 hr), h2⟩
      · simp at hc; subst hc; exact succ

/-- commits only ever add to the disk and never change what a hash names. -/
theorem commit_extends {s : St} {root : Hash} {failAt : Option Nat} {fuel : Nat} {out : CommitOut}
    (hcs : Consistent s.cache s.disk) (hc : commit s root failAt fuel = some out) : Extends s.disk out.st.disk := by
  unfold commit at hc
  cases hw : walk s.cache fuel root with
  | none => simp [hw] at hc
  | some ws =>
    simp only [hw] at hc
    cases failAt with
    | none =>
      simp at hc; subst hc; simp only
      rw [applyBatches_eq]; exact (writes_extends _ _ hcs).1
    | some k =>
      simp only at hc
      split at hc <;> (simp at hc; subst hc; simp only; rw [applyBatches_eq]; exact (writes_extends _ _ hcs).1)

/-- The step fact behind completeness: after all Puts of a commit, a hash that was
    written or was on disk already is answered by the disk alone exactly as the
    live database (cache, then disk) answered before, and everything it needs is
    again written or on disk. -/
theorem commit_step {s : St} {root : Hash} {fuel : Nat} {ws : List Hash} (hi : Inv s)
    (hw : walk s.cache fuel root = some ws) :
    ∀ h, (h ∈ ws ∨ Has s.disk h) → ∀ n, liveLookup s h = some n →
      diskGet (applyWrites s.cache s.disk ws) h = some n ∧ ∀ r ∈ n.need, (r ∈ ws ∨ Has s.disk r) := by
  have g := walk_good s.cache s.disk hi.cacheInv fuel root ws hw
  have hext := (writes_extends ws s.disk hi.consistent).1
  have hcl := allRes_closed hi.allRes
  intro h hg n hn
  unfold liveLookup at hn
  cases hc : s.cache.lookup h with
  | some cn =>
    simp only [hc, Option.some.injEq] at hn
    subst hn
    by_cases hin : h ∈ ws
    · refine ⟨writes_lookup hc ws s.disk (Or.inl hin), ?_⟩
      intro r hr
      rcases hi.cacheInv h cn hc r hr with hd | ⟨h1, h2⟩
      · exact Or.inr hd
      · exact Or.inl (g.closed h hin cn hc r h1 h2)
    · have hd : Has s.disk h := hg.resolve_left hin
      obtain ⟨dn, hdn⟩ := lookup_of_has hd
      have e := hi.consistent h cn dn hc hdn
      subst e
      exact ⟨hext h _ hdn, fun r hr => Or.inr (hcl h _ hdn r hr)⟩
  | none =>
    simp only [hc] at hn
    exact ⟨hext h n hn, fun r hr => Or.inr (hcl h n hn r hr)⟩

/-- After all Puts of a commit, everything a reader could see below a written
    (or already stored) hash through cache-then-disk is seen identically from the disk alone. -/
theorem commit_view {s : St} {root : Hash} {fuel : Nat} {ws : List Hash} (hi : Inv s)
    (hw : walk s.cache fuel root = some ws) :
    ∀ (f : Nat) (h : Hash) (v : Nat × Nat), (h ∈ ws ∨ Has s.disk h) →
      view (liveLookup s) f h = some v →
      view (diskGet (applyWrites s.cache s.disk ws)) f h = some v :=
  view_transfer (liveLookup s) (diskGet (applyWrites s.cache s.disk ws)) (fun h => h ∈ ws ∨ Has s.disk h)
    (commit_step hi hw)

/-! ## the walk with per-visit iteration orders (`walkO`, `commitV`) -/

theorem sameMembers_mem' {a b : List Hash} (h : sameMembers a b = true) {r : Hash} (hr : r ∈ a) : r ∈ b := by
  unfold sameMembers at h
  simp only [Bool.and_eq_true, List.all_eq_true] at h
  have := h.1.2 r hr
  simpa using this

theorem pickOrder_mem (h : Hash) (ext : List Hash) (ords : Ords) (x : Hash) :
    x ∈ (pickOrder h ext ords).1 ↔ x ∈ ext := by
  cases ords with
  | nil => simp [pickOrder]
  | cons ko rest =>
    obtain ⟨k, o⟩ := ko
    simp only [pickOrder]
    split
    · rename_i hc
      simp only [Bool.and_eq_true] at hc
      exact ⟨fun hx => sameMembers_mem' hc.2 hx, fun hx => sameMembers_mem hc.2 hx⟩
    · exact Iff.rfl

theorem foldKids_all2 {g : Hash → Ords → Option (List Hash × Ords)} {R : Hash → List Hash → Prop}
    (hg : ∀ x o t o', g x o = some (t, o') → R x t) :
    ∀ (kids : List Hash) (o : Ords) (ws : List Hash) (o' : Ords), foldKids g kids o = some (ws, o') →
      ∃ ts, All2 R kids ts ∧ ws = ts.flatten
  | [], o, ws, o', h => by
    simp only [foldKids, Option.some.injEq, Prod.mk.injEq] at h
    exact ⟨[], All2.nil, by simp [h.1.symm]⟩
  | x :: xs, o, ws, o', h => by
    simp only [foldKids] at h
    cases hx : g x o with
    | none => simp [hx] at h
    | some r =>
      obtain ⟨t, o1⟩ := r
      simp only [hx] at h
      cases hr : foldKids g xs o1 with
      | none => simp [hr] at h
      | some r2 =>
        obtain ⟨ts, o2⟩ := r2
        simp only [hr, Option.some.injEq, Prod.mk.injEq] at h
        obtain ⟨tss, h1, h2⟩ := foldKids_all2 hg xs o1 ts o2 hr
        exact ⟨t :: tss, All2.cons (hg x o t o1 hx) h1, by simp [← h.1, h2]⟩

/-- whatever orders the runtime picks, what `walkO` returns is a `WalksN` sequence:
    all crash-point theorems (`any_visit_order_*`) apply to it. -/
theorem walkO_walksN (c : Cache) : ∀ (f : Nat) (h : Hash) (ords : Ords) (ws : List Hash) (o' : Ords),
    walkO c f h ords = some (ws, o') → WalksN c f h ws := by
  intro f
  induction f with
  | zero => intro h ords ws o' hw; simp [walkO] at hw
  | succ f ih =>
    intro h ords ws o' hw
    unfold walkO at hw
    unfold WalksN
    cases hl : c.lookup h with
    | none =>
      simp only [hl, Option.some.injEq, Prod.mk.injEq] at hw
      simp only
      exact hw.1.symm
    | some n =>
      simp only [hl] at hw ⊢
      cases hk : foldKids (walkO c f) ((pickOrder h n.ext ords).1 ++ n.inner) (pickOrder h n.ext ords).2 with
      | none => simp [hk] at hw
      | some r =>
        obtain ⟨ts, o2⟩ := r
        simp only [hk, Option.some.injEq, Prod.mk.injEq] at hw
        obtain ⟨tss, h1, h2⟩ := foldKids_all2 (R := WalksN c f) (fun x o t o1 hx => ih x o t o1 hx) _ _ _ _ hk
        exact ⟨(pickOrder h n.ext ords).1, tss, pickOrder_mem h n.ext ords, h1, by rw [← hw.1, h2]⟩

theorem commit_eq_commitWith (s : St) (root : Hash) (failAt : Option Nat) (fuel : Nat) :
    commit s root failAt fuel = (walk s.cache fuel root).map (commitWith s failAt) := by
  unfold commit commitWith
  cases walk s.cache fuel root with
  | none => rfl
  | some ws =>
    cases failAt with
    | none => rfl
    | some k => simp only [Option.map_some]; split <;> rfl

/-- the invariant is preserved by the commit of **any** per-visit-order Put sequence,
    complete or refused at any physical write -/
theorem commitWith_inv {s : St} {root : Hash} {f : Nat} {ws : List Hash} (failAt : Option Nat) (hi : Inv s)
    (hw : WalksN s.cache f root ws) : Inv (commitWith s failAt ws).st := by
  have g := walksN_good s.cache s.disk hi.cacheInv f root ws hw
  have hflat : (splitBatches s.cache ws [] 0).flatten = ws := by rw [splitBatches_flatten]; simp
  have facts : ∀ p, p <+: ws → AllRes (applyWrites s.cache s.disk p) ∧ Consistent s.cache (applyWrites s.cache s.disk p) ∧
      Extends s.disk (applyWrites s.cache s.disk p) := fun p hp =>
    ⟨writes_allRes ws [] s.disk hi.allRes hi.consistent (fun _ h => h) (by simp) g.cached (g.post []) p hp,
     (writes_extends p s.disk hi.consistent).2, (writes_extends p s.disk hi.consistent).1⟩
  have succ : Inv ⟨uncache s.cache ws, applyBatches s.cache s.disk (splitBatches s.cache ws [] 0)⟩ := by
    rw [applyBatches_eq, hflat]
    obtain ⟨h1, h2, h3⟩ := facts ws (List.prefix_refl ws)
    refine ⟨h1, ?_, ?_⟩
    · intro k n hk r hr
      rw [uncache_lookup] at hk
      split at hk
      · simp at hk
      · rcases hi.cacheInv k n hk r hr with hd | ⟨hc1, hc2⟩
        · exact Or.inl (extends_has h3 hd)
        · by_cases hrw : r ∈ ws
          · obtain ⟨m, hm⟩ := lookup_of_has hc2
            exact Or.inl (has_of_lookup (writes_lookup hm ws s.disk (Or.inl hrw)))
          · right
            refine ⟨hc1, ?_⟩
            unfold Has
            rw [uncache_lookup]
            have : ws.contains r = false := by simpa using hrw
            simp only [this, Bool.false_eq_true, if_false]
            exact hc2
    · intro k n dn hk hd
      rw [uncache_lookup] at hk
      split at hk
      · simp at hk
      · exact h2 k n dn hk hd
  unfold commitWith
  cases failAt with
  | none => exact succ
  | some k =>
    simp only
    split
    · simp only
      rw [applyBatches_eq]
      have hp : ((splitBatches s.cache ws [] 0).take k).flatten <+: ws := by
        have := take_flatten_prefix (splitBatches s.cache ws [] 0) k
        rwa [hflat] at this
      obtain ⟨h1, h2, h3⟩ := facts _ hp
      exact ⟨h1, cacheInv_mono_disk hi.cacheInv (fun r hr => extends_has h3 hr), h2⟩
    · exact succ

theorem commitWith_extends {s : St} (failAt : Option Nat) (ws : List Hash) (hcs : Consistent s.cache s.disk) :
    Extends s.disk (commitWith s failAt ws).st.disk := by
  unfold commitWith
  cases failAt with
  | none => simp only; rw [applyBatches_eq]; exact (writes_extends _ _ hcs).1
  | some k =>
    simp only
    split <;> (simp only; rw [applyBatches_eq]; exact (writes_extends _ _ hcs).1)

theorem commitV_inv {s : St} {root : Hash} {failAt : Option Nat} {fuel : Nat} {ords : Ords} {out : CommitOut}
    (hi : Inv s) (hc : commitV s root failAt fuel ords = some out) : Inv out.st := by
  unfold commitV at hc
  cases hw : walkO s.cache fuel root ords with
  | none => simp [hw] at hc
  | some r =>
    obtain ⟨ws, o'⟩ := r
    simp only [hw, Option.some.injEq] at hc
    subst hc
    exact commitWith_inv failAt hi (walkO_walksN s.cache fuel root ords ws o' hw)

theorem commitV_extends {s : St} {root : Hash} {failAt : Option Nat} {fuel : Nat} {ords : Ords} {out : CommitOut}
    (hcs : Consistent s.cache s.disk) (hc : commitV s root failAt fuel ords = some out) : Extends s.disk out.st.disk := by
  unfold commitV at hc
  cases hw : walkO s.cache fuel root ords with
  | none => simp [hw] at hc
  | some r =>
    obtain ⟨ws, o'⟩ := r
    simp only [hw, Option.some.injEq] at hc
    subst hc
    exact commitWith_extends failAt ws hcs

/-- shape of every `commit` result: a prefix of the Put sequence reached the disk;
    the cache is either untouched, or (all Puts written) `uncache`d. -/
theorem commit_cases {s : St} {root : Hash} {failAt : Option Nat} {fuel : Nat} {out : CommitOut}
    (hc : commit s root failAt fuel = some out) :
    ∃ ws p, walk s.cache fuel root = some ws ∧ p <+: ws ∧
      out.st.disk = applyWrites s.cache s.disk p ∧
      (out.st.cache = s.cache ∨ (out.st.cache = uncache s.cache ws ∧ p = ws)) := by
  unfold commit at hc
  cases hw : walk s.cache fuel root with
  | none => simp [hw] at hc
  | some ws =>
    simp only [hw] at hc
    have hflat : (splitBatches s.cache ws [] 0).flatten = ws := by
      rw [splitBatches_flatten]; simp
    have succ : ∀ o : CommitOut, o = ⟨splitBatches s.cache ws [] 0, true,
        ⟨uncache s.cache ws, applyBatches s.cache s.disk (splitBatches s.cache ws [] 0)⟩⟩ →
        ∃ ws' p, some ws = some ws' ∧ p <+: ws' ∧ o.st.disk = applyWrites s.cache s.disk p ∧
          (o.st.cache = s.cache ∨ (o.st.cache = uncache s.cache ws' ∧ p = ws')) := by
      intro o ho
      subst ho
      exact ⟨ws, ws, rfl, List.prefix_refl ws, by simp only; rw [applyBatches_eq, hflat], Or.inr ⟨rfl, rfl⟩⟩
    cases failAt with
    | none => simp at hc; exact succ out hc.symm
    | some k =>
      simp only at hc
      split at hc
      · simp at hc; subst hc
        refine ⟨ws, ((splitBatches s.cache ws [] 0).take k).flatten, rfl, ?_, ?_, Or.inl rfl⟩
        · have := take_flatten_prefix (splitBatches s.cache ws [] 0) k
          rwa [hflat] at this
        · simp only; rw [applyBatches_eq]
      · simp at hc; exact succ out hc.symm

/-- "outside code doesn't see an inconsistent state": whatever `NodeDatabase.Node`
    (cache, then disk) returned before a commit — successful or refused at any
    write — it returns afterwards. -/
theorem commit_live_stable {s : St} {root : Hash} {failAt : Option Nat} {fuel : Nat} {out : CommitOut}
    (hi : Inv s) (hc : commit s root failAt fuel = some out) :
    ∀ h n, liveLookup s h = some n → liveLookup out.st h = some n := by
  obtain ⟨ws, p, hw, _, hd, hcache⟩ := commit_cases hc
  have hext : Extends s.disk out.st.disk := by rw [hd]; exact (writes_extends p s.disk hi.consistent).1
  intro h n hn
  unfold liveLookup at hn ⊢
  rcases hcache with hsame | ⟨hunc, hp⟩
  · rw [hsame]
    cases hl : s.cache.lookup h with
    | some cn => simpa [hl] using hn
    | none => simp only [hl] at hn ⊢; exact hext h n hn
  · rw [hunc, uncache_lookup]
    cases hl : s.cache.lookup h with
    | some cn =>
      simp only [hl, Option.some.injEq] at hn
      subst hn
      by_cases hin : h ∈ ws
      · have : ws.contains h = true := by simpa using hin
        simp only [this, if_true]
        rw [hd, hp]
        exact writes_lookup hl ws s.disk (Or.inl hin)
      · have : ws.contains h = false := by simpa using hin
        simp only [this, Bool.false_eq_true, if_false, hl]
    | none =>
      simp only [hl] at hn
      have : (if ws.contains h = true then none else (none : Option CNode)) = none := by split <;> rfl
      simp only [this]
      exact hext h n hn

/-- once the walk returns, more fuel returns the same sequence (the fuel only
    separates terminating from non-terminating recursions). -/
theorem walk_fuel_mono (c : Cache) : ∀ (f : Nat) (h : Hash) (ws : List Hash),
    walk c f h = some ws → walk c (f + 1) h = some ws := by
  intro f
  induction f with
  | zero => intro h ws hw; simp [walk_zero] at hw
  | succ f ih =>
    intro h ws hw
    rw [walk_succ] at hw ⊢
    cases hl : c.lookup h with
    | none => simpa [hl] using hw
    | some n =>
      simp only [hl] at hw ⊢
      cases ha : allSome (n.childs.map (walk c f)) with
      | none => simp [ha] at hw
      | some ts =>
        simp only [ha] at hw
        have := allSome_map_congr (walk c f) (walk c (f + 1)) n.childs ts ha (fun x _ t ht => ih x t ht)
        simp only [this]
        exact hw

/-! ## the state machine -/

theorem step_inv {eD eC : Hash} {s s' : St} {op : Op} (hi : Inv s) (hok : OpOk eD eC s op)
    (hs : step eD eC s op = some s') : Inv s' := by
  cases op with
  | store h n leaf =>
    simp only [step, Option.map_eq_some_iff] at hs
    obtain ⟨c', hc', rfl⟩ := hs
    exact store_inv hi hok hc'
  | ref child parent =>
    simp only [step, Option.map_eq_some_iff] at hs
    obtain ⟨c', hc', rfl⟩ := hs
    have hg := reference_grows hc'
    exact ⟨hi.allRes, grows_cacheInv hg hi.cacheInv, grows_consistent hg hi.consistent⟩
  | reorder h ord =>
    simp only [step, Option.some.injEq] at hs
    subst hs
    have hg := reorderExt_grows s.cache h ord
    exact ⟨hi.allRes, grows_cacheInv hg hi.cacheInv, grows_consistent hg hi.consistent⟩
  | commit root failAt =>
    simp only [step, Option.map_eq_some_iff] at hs
    obtain ⟨o, ho, rfl⟩ := hs
    exact commit_inv hi ho
  | commitV root failAt ords =>
    simp only [step, Option.map_eq_some_iff] at hs
    obtain ⟨o, ho, rfl⟩ := hs
    exact commitV_inv hi ho
  | die =>
    simp only [step, Option.some.injEq] at hs
    subst hs
    exact ⟨hi.allRes, by intro k n hk; simp [die] at hk, by intro k n dn hk; simp [die] at hk⟩

theorem step_extends {eD eC : Hash} {s s' : St} {op : Op} (hi : Inv s)
    (hs : step eD eC s op = some s') : Extends s.disk s'.disk := by
  cases op with
  | store h n leaf =>
    simp only [step, Option.map_eq_some_iff] at hs
    obtain ⟨c', _, rfl⟩ := hs; exact extends_refl _
  | ref child parent =>
    simp only [step, Option.map_eq_some_iff] at hs
    obtain ⟨c', _, rfl⟩ := hs; exact extends_refl _
  | reorder h ord =>
    simp only [step, Option.some.injEq] at hs
    subst hs; exact extends_refl _
  | commit root failAt =>
    simp only [step, Option.map_eq_some_iff] at hs
    obtain ⟨o, ho, rfl⟩ := hs
    exact commit_extends hi.consistent ho
  | commitV root failAt ords =>
    simp only [step, Option.map_eq_some_iff] at hs
    obtain ⟨o, ho, rfl⟩ := hs
    exact commitV_extends hi.consistent ho
  | die =>
    simp only [step, Option.some.injEq] at hs
    subst hs; exact extends_refl _

/-- states reachable from the empty store by operations whose `store`s respect `StoreOk`. -/
inductive Reach (eD eC : Hash) : St → Prop where
  | init : Reach eD eC St.empty
  | step {s s' : St} (op : Op) : Reach eD eC s → OpOk eD eC s op → step eD eC s op = some s' → Reach eD eC s'

theorem inv_empty : Inv St.empty :=
  ⟨by intro h hh; simp [St.empty, Has] at hh, by intro k n hk; simp [St.empty] at hk,
   by intro k n dn hk; simp [St.empty] at hk⟩

theorem reach_inv {eD eC : Hash} {s : St} (h : Reach eD eC s) : Inv s := by
  induction h with
  | init => exact inv_empty
  | step op _ hok hs ih => exact step_inv ih hok hs


/-! ## reachability with the driver's check in place of the assumption -/

/-- a `store` step is accepted when the node was cached already (a no-op insert, the
    leaf callback only adds references) or the driver's `storeCheck` passed -/
def OpChecked (s s' : St) : Op → Prop
  | .store h n _ => (s.cache.lookup h).isSome = true ∨ storeCheck s.disk s'.cache h n = true
  | _ => True

theorem step_inv_checked {eD eC : Hash} {s s' : St} {op : Op} (hi : Inv s) (hok : OpChecked s s' op)
    (hs : step eD eC s op = some s') : Inv s' := by
  cases op with
  | store h n leaf =>
    simp only [step, Option.map_eq_some_iff] at hs
    obtain ⟨c', hc', rfl⟩ := hs
    exact store_inv_checked hi hc' hok
  | ref child parent => exact step_inv (op := .ref child parent) hi trivial hs
  | reorder h ord => exact step_inv (op := .reorder h ord) hi trivial hs
  | commit root failAt => exact step_inv (op := .commit root failAt) hi trivial hs
  | commitV root failAt ords => exact step_inv (op := .commitV root failAt ords) hi trivial hs
  | die => exact step_inv (op := .die) hi trivial hs

/-- the states a driver run passes through when every `ins`/`insl` was answered `ok` or `dup` -/
inductive ReachChecked (eD eC : Hash) : St → Prop where
  | init : ReachChecked eD eC St.empty
  | step {s s' : St} (op : Op) : ReachChecked eD eC s → step eD eC s op = some s' → OpChecked s s' op →
      ReachChecked eD eC s'

theorem reachChecked_inv {eD eC : Hash} {s : St} (h : ReachChecked eD eC s) : Inv s := by
  induction h with
  | init => exact inv_empty
  | step op _ hs hok ih => exact step_inv_checked ih hok hs

end Rangers.Model.TrieDB
