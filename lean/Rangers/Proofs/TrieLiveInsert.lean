import Rangers.Proofs.TrieLiveGet
/- `insert` on live tries refines `insert` on loaded tries. -/
namespace Rangers.Trie
open Rangers

/-! ### layer-1 `insert` as pairs -/

theorem insert_short_match_eq (kk : Key) (v : Node) (x : Nat) (r : Key) (val : Node)
    (hm : prefixLen (x :: r) kk = kk.length) :
    insert (.short kk v) (x :: r) val =
      if (insert v ((x :: r).drop kk.length) val).1 = false then (false, .short kk v)
      else (true, .short kk (insert v ((x :: r).drop kk.length) val).2) := by
  simp only [insert, hm, if_true, Bool.not_eq_true']

theorem insert_short_split_eq (kk : Key) (v : Node) (x : Nat) (r : Key) (val : Node)
    (hm : prefixLen (x :: r) kk ≠ kk.length) :
    insert (.short kk v) (x :: r) val = (true, (insert (.short kk v) (x :: r) val).2) := by
  simp only [insert, hm, if_false]
  split <;> rfl

theorem insert_full_eq (cs : List Node) (i : Nat) (r : Key) (val : Node) (hi : i < cs.length) :
    insert (.full cs) (i :: r) val =
      if (insert (cs[i]?.getD .nil) r val).1 = false then (false, .full cs)
      else (true, .full (cs.set i (insert (cs[i]?.getD .nil) r val).2)) := by
  simp only [insert, insertAt_eq cs i r val hi, Bool.not_eq_true']

theorem emptyFullL_length : emptyFullL.length = 17 := by simp [emptyFullL]
theorem emptyFullL_getD (i : Nat) : emptyFullL[i]?.getD .nil = .nil := by
  unfold emptyFullL
  simp only [List.getElem?_replicate]
  split <;> rfl

theorem getD_setL (cs : List LNode) (i j : Nat) (c : LNode) (h : i < cs.length) :
    (cs.set i c)[j]?.getD .nil = if j = i then c else cs[j]?.getD .nil := by
  simp only [List.getElem?_set]
  by_cases hij : i = j
  · subst hij; simp [h]
  · have : ¬ j = i := fun h => hij h.symm
    simp [hij, this]

theorem getD_branchL (a b i : Nat) (c1 c2 : LNode) (ha : a < 17) (hb : b < 17) :
    ((emptyFullL.set a c1).set b c2)[i]?.getD .nil = if i = b then c2 else if i = a then c1 else .nil := by
  rw [getD_setL _ _ _ _ (by rw [List.length_set, emptyFullL_length]; exact hb),
      getD_setL _ _ _ _ (by rw [emptyFullL_length]; exact ha), emptyFullL_getD]

theorem AbsR_mkLeaf {H : Bytes → Bytes} {st : Store} (gen : Nat) (ks : Key) {c : Node} {lc : LNode}
    (h : AbsR H st true c lc) : AbsR H st true (mkLeaf ks c) (mkLeafL gen ks lc) := by
  unfold mkLeaf mkLeafL
  split
  · exact h
  · exact Or.inl (AbsL_short.mpr ⟨lc, _, rfl, h, flagOK_new H st true gen _⟩)

theorem AbsL_branch {H : Bytes → Bytes} {st : Store} (child : Bool) (gen a b : Nat) {c1 c2 : Node} {l1 l2 : LNode}
    (ha : a < 17) (hb : b < 17) (h1 : AbsR H st true c1 l1) (h2 : AbsR H st true c2 l2) :
    AbsL H st child (.full ((emptyFull.set a c1).set b c2)) (.full ((emptyFullL.set a l1).set b l2) (newFlag gen)) := by
  refine AbsL_full.mpr ⟨_, _, rfl, by simp [emptyFull_length, emptyFullL_length], fun j _ => ?_, flagOK_new H st child gen _⟩
  rw [getD_branch _ _ _ _ _ ha hb, getD_branchL _ _ _ _ _ ha hb]
  by_cases hjb : j = b
  · simp [hjb, h2]
  · by_cases hja : j = a
    · subst hja
      simp [hjb, h1]
    · simp [hjb, hja]; exact AbsR_nil.mpr rfl

/-! ### `insert` on a live trie -/

theorem insertL_refines (H : Bytes → Bytes) (st : Store) (gen : Nat) (val : Bytes) (t : Node) :
    ∀ child l key f, WFRoot t → ValidKey key → AbsR H st child t l → 2 * key.length + 2 ≤ f →
      ∃ l', insertL st gen f l key (.value val) = some ((insert t key (.value val)).1, l') ∧
        AbsL H st child (insert t key (.value val)).2 l' := by
  induction t using Node.induct with
  | hnil =>
    intro child l key f _ hk habs hf
    rw [AbsR_nil.mp habs]
    obtain ⟨f', rfl⟩ : ∃ f', f = f' + 1 := ⟨f - 1, by omega⟩
    obtain ⟨x, r, rfl⟩ : ∃ x r, key = x :: r := by
      cases key with
      | nil => exact absurd rfl hk.ne_nil
      | cons x r => exact ⟨x, r, rfl⟩
    refine ⟨.short (x :: r) (.value val) (newFlag gen), by simp [insertL, insert], ?_⟩
    simp only [insert]
    exact AbsL_short.mpr ⟨_, _, rfl, AbsR_value.mpr rfl, flagOK_new H st child gen _⟩
  | hval b => intro child l key f h; rcases h with h | h <;> simp [WF] at h
  | hshort kk v ih =>
    intro child l key f hwf hk habs hf
    have hwf : WF (.short kk v) := hwf.resolve_left (by simp)
    obtain ⟨x, r, rfl⟩ : ∃ x r, key = x :: r := by
      cases key with
      | nil => exact absurd rfl hk.ne_nil
      | cons x r => exact ⟨x, r, rfl⟩
    have hQ : ∀ l f, AbsL H st child (.short kk v) l → 2 * (x :: r).length + 1 ≤ f →
        ∃ l', insertL st gen f l (x :: r) (.value val) = some ((insert (.short kk v) (x :: r) (.value val)).1, l') ∧
          AbsL H st child (insert (.short kk v) (x :: r) (.value val)).2 l' := by
      intro l f hl hf
      obtain ⟨lv, fl, rfl, hv, hfl⟩ := AbsL_short.mp hl
      obtain ⟨f', rfl⟩ : ∃ f', f = f' + 1 := ⟨f - 1, by omega⟩
      by_cases hm : prefixLen (x :: r) kk = kk.length
      · have hpre : kk <+: x :: r := (prefixLen_eq_right_iff _ _).mp hm
        rw [insert_short_match_eq _ _ _ _ _ hm]
        simp only [insertL, hm, if_true]
        have hsub : ∃ l2, insertL st gen f' lv ((x :: r).drop kk.length) (.value val)
              = some ((insert v ((x :: r).drop kk.length) (.value val)).1, l2) ∧
            AbsL H st true (insert v ((x :: r).drop kk.length) (.value val)).2 l2 := by
          rcases (WF_short_iff kk v).mp hwf with ⟨b, rfl, hkk, hb⟩ | ⟨cs, rfl, hne, hnib, hfull⟩
          · have heq : kk = x :: r := hk.eq_of_prefix hkk hpre
            have hd : (x :: r).drop kk.length = [] := by rw [heq]; simp
            obtain rfl := AbsR_value.mp hv
            obtain ⟨f'', rfl⟩ : ∃ f'', f' = f'' + 1 := ⟨f' - 1, by simp at hf; omega⟩
            rw [hd]
            exact ⟨.value val, by simp [insertL, insert], by simp [insert]; exact AbsL_value.mpr rfl⟩
          · have hk2 : ValidKey ((x :: r).drop kk.length) := hk.drop_of_nibs hpre hnib
            have hlen : ((x :: r).drop kk.length).length + 1 ≤ (x :: r).length := by
              have : kk.length ≠ 0 := by simpa using hne
              have := hpre.length_le
              simp only [List.length_drop]; omega
            exact ih true lv _ f' (Or.inr hfull) hk2 hv (by omega)
        obtain ⟨l2, hg, habs2⟩ := hsub
        rw [hg]
        by_cases hd : (insert v ((x :: r).drop kk.length) (.value val)).1 = false
        · simp only [hd, if_true]
          exact ⟨_, by simp, hl⟩
        · have hd' : (insert v ((x :: r).drop kk.length) (.value val)).1 = true := by simpa using hd
          simp only [hd', Bool.true_eq_false, if_false]
          exact ⟨_, by simp, AbsL_short.mpr ⟨l2, _, rfl, Or.inl habs2, flagOK_new H st child gen _⟩⟩
      · -- branch out
        have hlt : prefixLen (x :: r) kk < kk.length := Nat.lt_of_le_of_ne (prefixLen_le_right _ _) hm
        have hnp : ¬ ((x :: r) <+: kk) := by
          rcases (WF_short_iff kk v).mp hwf with ⟨b, rfl, hkk, hb⟩ | ⟨cs, rfl, hne, hnib, hfull⟩
          · intro h
            have := hkk.eq_of_prefix hk h
            rw [← this] at hm
            exact hm ((prefixLen_eq_right_iff _ _).mpr (List.prefix_refl _))
          · exact hk.not_prefix_nibs hnib
        have hlt2 : prefixLen (x :: r) kk < (x :: r).length :=
          Nat.lt_of_le_of_ne (prefixLen_le_left _ _) (fun h => hnp ((prefixLen_eq_left_iff _ _).mp h))
        have hle1 : ∀ y ∈ kk, y ≤ 16 := by
          rcases (WF_short_iff kk v).mp hwf with ⟨b, rfl, hkk, hb⟩ | ⟨cs, rfl, _, hnib, hfull⟩
          · exact hkk.le16
          · intro y hy; exact Nat.le_of_lt (hnib y hy)
        have ha : kk.getD (prefixLen (x :: r) kk) 0 < 17 := by
          have := hle1 _ (List.getElem_mem hlt)
          simp only [List.getD_eq_getElem?_getD, List.getElem?_eq_getElem hlt, Option.getD_some]; omega
        have hb : (x :: r).getD (prefixLen (x :: r) kk) 0 < 17 := by
          have := hk.le16 _ (List.getElem_mem hlt2)
          simp only [List.getD_eq_getElem?_getD, List.getElem?_eq_getElem hlt2, Option.getD_some]; omega
        rw [insert_short_split_eq _ _ _ _ _ hm, insert_snd_split _ _ _ _ _ hm]
        have hguard : ¬ ((x :: r).length ≤ prefixLen (x :: r) kk ∨ 17 ≤ kk.getD (prefixLen (x :: r) kk) 0 ∨
            17 ≤ (x :: r).getD (prefixLen (x :: r) kk) 0) := by omega
        simp only [insertL, hm, if_false, hguard]
        have hbr := AbsL_branch (H := H) (st := st) child gen _ _ ha hb
          (AbsR_mkLeaf gen (kk.drop (prefixLen (x :: r) kk + 1)) hv)
          (AbsR_mkLeaf gen ((x :: r).drop (prefixLen (x :: r) kk + 1)) (AbsR_value.mpr (rfl : LNode.value val = .value val)))
        split
        · exact ⟨_, rfl, hbr⟩
        · refine ⟨_, rfl, AbsL_short.mpr ⟨_, _, rfl, Or.inl ?_, flagOK_new H st child gen _⟩⟩
          exact AbsL_branch (H := H) (st := st) true gen _ _ ha hb
            (AbsR_mkLeaf gen (kk.drop (prefixLen (x :: r) kk + 1)) hv)
            (AbsR_mkLeaf gen ((x :: r).drop (prefixLen (x :: r) kk + 1)) (AbsR_value.mpr (rfl : LNode.value val = .value val)))
    rcases habs with hl | hh
    · exact hQ l f hl (by omega)
    · obtain ⟨l1, hres, hl1⟩ := resolve_hashOf hh gen
      obtain ⟨f', rfl⟩ : ∃ f', f = f' + 1 := ⟨f - 1, by omega⟩
      obtain ⟨l2, hg, habs2⟩ := hQ l1 f' hl1 (by omega)
      rw [hh.1]
      simp only [insertL, hres, Option.bind_some, hg, Option.map_some]
      by_cases hd : (insert (.short kk v) (x :: r) (.value val)).1 = false
      · have := insert_not_dirty _ _ _ hd
        simp only [hd, Bool.not_false, if_true]
        exact ⟨_, rfl, by rw [this]; exact hl1⟩
      · have hd' : (insert (.short kk v) (x :: r) (.value val)).1 = true := by simpa using hd
        simp only [hd', Bool.not_true, Bool.false_eq_true, if_false]
        exact ⟨_, rfl, habs2⟩
  | hfull cs ih =>
    intro child l key f hwf hk habs hf
    have hwf : WF (.full cs) := hwf.resolve_left (by simp)
    obtain ⟨i, r, rfl⟩ : ∃ x r, key = x :: r := by
      cases key with
      | nil => exact absurd rfl hk.ne_nil
      | cons x r => exact ⟨x, r, rfl⟩
    obtain ⟨hi, hc⟩ := slot_cases hwf hk
    have hQ : ∀ l f, AbsL H st child (.full cs) l → 2 * (i :: r).length + 1 ≤ f →
        ∃ l', insertL st gen f l (i :: r) (.value val) = some ((insert (.full cs) (i :: r) (.value val)).1, l') ∧
          AbsL H st child (insert (.full cs) (i :: r) (.value val)).2 l' := by
      intro l f hl hf
      obtain ⟨lcs, fl, rfl, hlen, hpt, hfl⟩ := AbsL_full.mp hl
      obtain ⟨f', rfl⟩ : ∃ f', f = f' + 1 := ⟨f - 1, by omega⟩
      have hil : i < lcs.length := by omega
      have hci := live_slot hlen hpt hi
      rw [insert_full_eq cs i r _ hi]
      simp only [insertL, hil, if_true]
      simp only [List.length_cons] at hf
      obtain ⟨f'', rfl⟩ : ∃ f'', f' = f'' + 1 := ⟨f' - 1, by omega⟩
      have hsub : ∃ l2, insertL st gen (f'' + 1) (lcs.getD i .nil) r (.value val)
            = some ((insert (cs[i]?.getD .nil) r (.value val)).1, l2) ∧
          AbsR H st true (insert (cs[i]?.getD .nil) r (.value val)).2 l2 := by
        rcases hc with ⟨rfl, h | ⟨b, h⟩⟩ | ⟨hr, hroot, h | hmem⟩
        · rw [h] at hci ⊢; rw [AbsR_nil.mp hci]
          exact ⟨.value val, by simp [insertL, insert], by simp [insert]; exact AbsR_value.mpr rfl⟩
        · rw [h] at hci ⊢; rw [AbsR_value.mp hci]
          exact ⟨.value val, by simp [insertL, insert], by simp [insert]; exact AbsR_value.mpr rfl⟩
        · rw [h] at hci ⊢; rw [AbsR_nil.mp hci]
          obtain ⟨y, r', rfl⟩ : ∃ y r', r = y :: r' := by
            cases r with
            | nil => exact absurd rfl hr.ne_nil
            | cons y r' => exact ⟨y, r', rfl⟩
          refine ⟨.short (y :: r') (.value val) (newFlag gen), by simp [insertL, insert], ?_⟩
          simp only [insert]
          exact Or.inl (AbsL_short.mpr ⟨_, _, rfl, AbsR_value.mpr rfl, flagOK_new H st true gen _⟩)
        · obtain ⟨l2, h1, h2⟩ := ih _ hmem true _ r (f'' + 1) hroot hr hci (by omega)
          exact ⟨l2, h1, Or.inl h2⟩
      obtain ⟨l2, hg, habs2⟩ := hsub
      rw [hg]
      by_cases hd : (insert (cs[i]?.getD .nil) r (.value val)).1 = false
      · simp only [hd, if_true]
        exact ⟨_, by simp, hl⟩
      · have hd' : (insert (cs[i]?.getD .nil) r (.value val)).1 = true := by simpa using hd
        simp only [hd', Bool.true_eq_false, if_false]
        refine ⟨_, by simp, AbsL_full.mpr ⟨lcs.set i l2, _, rfl, by simp [hlen], ?_, flagOK_new H st child gen _⟩⟩
        exact AbsR_set hlen hi hpt habs2
    rcases habs with hl | hh
    · exact hQ l f hl (by omega)
    · obtain ⟨l1, hres, hl1⟩ := resolve_hashOf hh gen
      obtain ⟨f', rfl⟩ : ∃ f', f = f' + 1 := ⟨f - 1, by omega⟩
      obtain ⟨l2, hg, habs2⟩ := hQ l1 f' hl1 (by omega)
      rw [hh.1]
      simp only [insertL, hres, Option.bind_some, hg, Option.map_some]
      by_cases hd : (insert (.full cs) (i :: r) (.value val)).1 = false
      · have := insert_not_dirty _ _ _ hd
        simp only [hd, Bool.not_false, if_true]
        exact ⟨_, rfl, by rw [this]; exact hl1⟩
      · have hd' : (insert (.full cs) (i :: r) (.value val)).1 = true := by simpa using hd
        simp only [hd', Bool.not_true, Bool.false_eq_true, if_false]
        exact ⟨_, rfl, habs2⟩

end Rangers.Trie
