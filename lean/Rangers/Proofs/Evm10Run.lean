import Rangers.Proofs.Evm10Mem
/-!
C10 — composition: a run over pure stack instructions (arithmetic, comparison, bitwise, shifts,
PUSH/DUP/SWAP/POP/JUMPDEST) is the fold of the per-opcode word functions over the decoded code.
-/
namespace Rangers.Proofs.Evm10
open Rangers Rangers.Model.Evm10 Rangers.Model.Evm10.U256

/-- the word function of a binary opcode, in the order (μ_s[0], μ_s[1]); each has its `_spec`
theorem in `Props/C10.lean` -/
def binFn : Exec → Option (Word → Word → Word)
  | .opAdd => some add | .opSub => some sub | .opMul => some mul | .opDiv => some div
  | .opSdiv => some sdiv | .opMod => some mod | .opSmod => some smod | .opExp => some exp
  | .opSignExtend => some (fun back num => extendSign num back)
  | .opLt => some (fun x y => ofBool (lt x y)) | .opGt => some (fun x y => ofBool (gt x y))
  | .opSlt => some (fun x y => ofBool (slt x y)) | .opSgt => some (fun x y => ofBool (sgt x y))
  | .opEq => some (fun x y => ofBool (eq x y))
  | .opAnd => some U256.and | .opOr => some U256.or | .opXor => some U256.xor
  | .opByte => some (fun th val => byte val th)
  | .opSHL => some opSHL | .opSHR => some opSHR | .opSAR => some opSAR
  | _ => none

def unFn : Exec → Option (Word → Word)
  | .opNot => some U256.not | .opIszero => some (fun x => ofBool (isZero x))
  | _ => none

def terFn : Exec → Option (Word → Word → Word → Word)
  | .opAddmod => some opAddmod | .opMulmod => some mulmod
  | _ => none

/-- μ'_s of a pure stack instruction at position `pc` of `code` (none = not a pure stack
instruction, or not enough items) -/
def applyPure (e : Exec) (code : Bytes) (pc : Nat) (st : List Word) : Option (List Word) :=
  match binFn e, unFn e, terFn e with
  | some g, _, _ => match st with | x :: y :: r => some (g x y :: r) | _ => none
  | _, some g, _ => match st with | x :: r => some (g x :: r) | _ => none
  | _, _, some g => match st with | x :: y :: z :: r => some (g x y z :: r) | _ => none
  | none, none, none =>
    match e with
    | .push _ n => some (pushValue code pc n :: st)
    | .opPush1 =>
      some ((if pc + 1 < code.length then ofNat (code.getD (pc + 1) 0).toNat else 0#256) :: st)
    | .opPush0 => some (0#256 :: st)
    | .dup n => if n = 0 then none else (st[n - 1]?).map (fun w => w :: st)
    | .swap n =>
      match st with
      | top :: _ => if n = 0 then some st else (st[n]?).map (fun w => (w :: st.tail).set n top)
      | [] => none
    | .opPop => match st with | _ :: r => some r | [] => none
    | .opJumpdest => some st
    | _ => none

theorem execOp_pure (H : Bytes → Bytes) (e : Exec) (g : Frame) (st' : List Word)
    (h : applyPure e g.code g.pc g.stack = some st') :
    execOp H e g = .ok { g with stack := st', pc := g.pc + pushWidth e } [] := by
  cases e <;> simp only [applyPure, binFn, unFn, terFn] at h <;>
    simp only [execOp, bin, un, pushW, pushWidth]
  all_goals (try (simp at h; done))
  case opJumpdest => simp at h; subst h; rfl
  case opPush0 => simp at h; subst h; rfl
  case push => simp at h; subst h; rfl
  case opPush1 =>
    simp at h; subst h
    by_cases hc : g.pc + 1 < g.code.length <;> simp [hc]
  case dup n =>
    by_cases hn : n = 0
    · simp [hn] at h
    · simp only [hn, if_false] at h ⊢
      cases hq : g.stack[n - 1]? with
      | none => simp [hq] at h
      | some w => simp [hq] at h; subst h; rfl
  case swap n =>
    cases hs : g.stack with
    | nil => simp [hs] at h
    | cons top tl =>
      simp only [hs] at h ⊢
      by_cases hn : n = 0
      · simp [hn] at h; subst h; simp [hn]; rw [← hs]
      · simp only [hn, if_false] at h ⊢
        cases hq : (top :: tl)[n]? with
        | none => simp [hq] at h
        | some w => simp [hq] at h; subst h; simp [hs]
  all_goals (split at h <;> simp at h <;> subst h <;> simp_all)


theorem applyPure_facts {e : Exec} {code : Bytes} {pc : Nat} {st st' : List Word}
    (h : applyPure e code pc st = some st') :
    expectedMem e = .none ∧ isOther e = false ∧ e ≠ .opJump ∧ e ≠ .opJumpi := by
  cases e <;> simp [applyPure, binFn, unFn, terFn] at h <;> simp [expectedMem, isOther]

/-- one interpreter step on a pure stack instruction: the stack becomes `applyPure`, the pc moves
to the next instruction, memory and code are untouched -/
theorem step_pure {H : Bytes → Bytes} {t : Table} {p : GasParams} {f f' : Frame}
    (ht : tableOK t = true) (hs : step H t p f = .next f') {info : OpInfo}
    (hget : t.get (getOp f.code f.pc) = some info) (hj : info.jumps = false) {st' : List Word}
    (hp : applyPure info.exec f.code f.pc f.stack = some st') :
    f'.stack = st' ∧ f'.pc = f.pc + 1 + pushWidth info.exec ∧ f'.mem = f.mem ∧ f'.code = f.code := by
  obtain ⟨info', gas2, last, ms, f1, res, hget', _, _, hms, hex, hf'⟩ := step_next_decomp hs
  rw [hget] at hget'
  have : info' = info := by simpa using hget'.symm
  subst this
  obtain ⟨hmem, hoth, _, _⟩ := applyPure_facts hp
  have hok := slotOK_of_get ht hget
  obtain ⟨_, hme, _, _⟩ := slotOK_parts hok hoth
  have hms0 : ms = 0 := by
    rcases hms with ⟨_, h0⟩ | ⟨sz, h1, _⟩
    · exact h0
    · rw [hme, hmem] at h1; simp [memorySizeOf] at h1
  subst hms0
  have hpe := execOp_pure H info'.exec (preExec f gas2 last 0) st' hp
  rw [hpe] at hex
  simp only [ExecResult.ok.injEq] at hex
  obtain ⟨h1, _⟩ := hex
  subst hf'
  unfold postExec
  simp only [hj, Bool.not_false, if_true]
  rw [← h1]
  refine ⟨?_, ?_, ?_, ?_⟩ <;> (split <;> simp [preExec]) <;> omega

/-- `k` interpreter steps that continue -/
inductive StepsTo (H : Bytes → Bytes) (t : Table) (p : GasParams) : Nat → Frame → Frame → Prop
  | zero (f : Frame) : StepsTo H t p 0 f f
  | succ {k : Nat} {f f1 f2 : Frame} : step H t p f = .next f1 → StepsTo H t p k f1 f2 →
      StepsTo H t p (k + 1) f f2

/-- the specification-side fold: decode the instruction at `pc` through the table, apply its
word function to the stack, move to the next instruction; `none` as soon as an instruction is
not a pure stack instruction (or lacks operands) -/
def specFold (t : Table) (code : Bytes) : Nat → Nat → List Word → Option (Nat × List Word)
  | 0, pc, st => some (pc, st)
  | k + 1, pc, st =>
    match t.get (getOp code pc) with
    | some info =>
      if info.jumps then none
      else
        match applyPure info.exec code pc st with
        | some st' => specFold t code k (pc + 1 + pushWidth info.exec) st'
        | none => none
    | none => none

theorem stepsTo_specFold {H : Bytes → Bytes} {t : Table} {p : GasParams} (ht : tableOK t = true)
    {k : Nat} {f fk : Frame} (hst : StepsTo H t p k f fk) :
    ∀ r, specFold t f.code k f.pc f.stack = some r →
      fk.pc = r.1 ∧ fk.stack = r.2 ∧ fk.mem = f.mem ∧ fk.code = f.code := by
  induction hst with
  | zero f => intro r h; simp [specFold] at h; subst h; exact ⟨rfl, rfl, rfl, rfl⟩
  | @succ k f f1 f2 hs _ ih =>
    intro r h
    simp only [specFold] at h
    split at h
    · rename_i info hget
      split at h
      · simp at h
      · rename_i hj
        split at h
        · rename_i st' hp
          have hj' : info.jumps = false := by simpa using hj
          obtain ⟨a, b, c, d⟩ := step_pure ht hs hget hj' hp
          have := ih r (by rw [d, b, a]; exact h)
          obtain ⟨x, y, z, w⟩ := this
          exact ⟨x, y, by rw [z, c], by rw [w, d]⟩
        · simp at h
    · simp at h

/-- executable form of `StepsTo` (for concrete examples) -/
def iterSteps (H : Bytes → Bytes) (t : Table) (p : GasParams) : Nat → Frame → Option Frame
  | 0, f => some f
  | k + 1, f => match step H t p f with
    | .next f1 => iterSteps H t p k f1
    | _ => none

theorem stepsTo_of_iter {H : Bytes → Bytes} {t : Table} {p : GasParams} :
    ∀ (k : Nat) (f fk : Frame), iterSteps H t p k f = some fk → StepsTo H t p k f fk := by
  intro k
  induction k with
  | zero => intro f fk h; simp [iterSteps] at h; subst h; exact StepsTo.zero f
  | succ k ih =>
    intro f fk h
    simp only [iterSteps] at h
    split at h
    · rename_i f1 hs
      exact StepsTo.succ hs (ih f1 fk h)
    · simp at h

theorem run_of_stepsTo {H : Bytes → Bytes} {t : Table} {p : GasParams} {k : Nat} {f fk : Frame}
    (hst : StepsTo H t p k f fk) (n : Nat) : run H t p (k + n) f = run H t p n fk := by
  induction hst with
  | zero f => simp
  | @succ k f f1 f2 hs _ ih =>
    have : k + 1 + n = (k + n) + 1 := by omega
    rw [this, run, hs]
    exact ih

end Rangers.Proofs.Evm10
