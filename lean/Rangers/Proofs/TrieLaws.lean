import Rangers.Props.C02
/-! helper lemmas for `Props/C02Laws.lean` (congruence of the root under map-equal middles) -/
namespace Rangers.Proofs.TrieLaws
open Rangers Rangers.Trie Rangers.Props.C02

theorem finalMap_append (a b : List Op) :
    finalMap (a ++ b) = b.foldl specStep (finalMap a) := by
  simp [finalMap, List.foldl_append]

/-- helper: two middles that act equally on every map give the same root in any context -/
theorem root_congr (H : Bytes → Bytes) (pre mid₁ mid₂ post : List Op)
    (h : ∀ m, mid₁.foldl specStep m = mid₂.foldl specStep m) :
    rootHash H (run (pre ++ mid₁ ++ post)) = rootHash H (run (pre ++ mid₂ ++ post)) := by
  apply root_history_independent
  rw [finalMap_append, finalMap_append, finalMap_append, finalMap_append, h]

end Rangers.Proofs.TrieLaws
