import Rangers.Proofs.MinerView
/-! C20: the block end — `RefundManager.Add` (context → escrow) and `CheckAndMove` (escrow → balance). -/
namespace Rangers.Miner

theorem toAddr_20 (a : Bytes) (h : a.length = 20) : toAddr a = a := by
  unfold toAddr; simp [h]

@[simp] theorem setEsc_bal (st : State) (h : Nat) (a : Bytes) (n : Nat) : (st.setEsc h a n).bal = st.bal := rfl
@[simp] theorem setEsc_live (st : State) (h : Nat) (a : Bytes) (n : Nat) : (st.setEsc h a n).live = st.live := rfl
@[simp] theorem setEsc_pending (st : State) (h : Nat) (a : Bytes) (n : Nat) : (st.setEsc h a n).pending = st.pending := rfl
@[simp] theorem setBal_escrow' (st : State) (a : Bytes) (n : Nat) : (st.addBal a n).escrow = st.escrow := rfl

theorem escOf_setEsc (st : State) (h h' : Nat) (a a' : Bytes) (n : Nat) :
    (st.setEsc h a n).escOf h' a' = if h' = h ∧ a' = a then n else st.escOf h' a' := by
  simp only [State.escOf, State.setEsc, List.lookup_cons]
  by_cases hc : h' = h ∧ a' = a
  · obtain ⟨rfl, rfl⟩ := hc; simp
  · have : ((h', a') == (h, a)) = false := by
      simp only [beq_eq_false_iff_ne, ne_eq, Prod.mk.injEq]; exact hc
    simp [this, hc]

/-- Every account named in the escrow and in the block's refund context is a 20-byte address. -/
def A20 (st : State) : Prop :=
  (∀ e ∈ st.escrow, e.1.2.length = 20) ∧ (∀ p ∈ st.pending, ∀ e ∈ p.2, e.1.length = 20)

/-! ### `RefundManager.Add` -/

theorem escrowAddList_spec (st : State) (h : Nat) (l : List (Bytes × Nat)) :
    escTotal (escrowAddList st h l) = escTotal st + (l.map Prod.snd).sum ∧ (escrowAddList st h l).bal = st.bal ∧
    (escrowAddList st h l).pending = st.pending ∧ (escrowAddList st h l).height = st.height := by
  induction l generalizing st with
  | nil => simp [escrowAddList]
  | cons e l ih =>
    obtain ⟨a, v⟩ := e
    simp only [escrowAddList]
    obtain ⟨h1, h2, h3, h4⟩ := ih (st.setEsc h a (st.escOf h a + v))
    have := escTotal_setEsc st h a (st.escOf h a + v)
    refine ⟨?_, by rw [h2]; rfl, by rw [h3]; rfl, by rw [h4]; rfl⟩
    rw [h1]; simp only [List.map_cons, List.sum_cons]; omega

theorem escrowAddAll_spec (st : State) (p : List (Nat × List (Bytes × Nat))) :
    escTotal (escrowAddAll st p) = escTotal st + pendingSum p ∧ (escrowAddAll st p).bal = st.bal ∧
    (escrowAddAll st p).pending = st.pending ∧ (escrowAddAll st p).height = st.height := by
  induction p generalizing st with
  | nil => simp [escrowAddAll, pendingSum]
  | cons e p ih =>
    obtain ⟨h, l⟩ := e
    simp only [escrowAddAll]
    obtain ⟨h1, h2, h3, h4⟩ := ih (escrowAddList st h l)
    obtain ⟨g1, g2, g3, g4⟩ := escrowAddList_spec st h l
    refine ⟨?_, by rw [h2, g2], by rw [h3, g3], by rw [h4, g4]⟩
    rw [h1, g1]; simp only [pendingSum, List.map_cons, List.sum_cons]; omega

theorem escrowAddList_keys (st : State) (h : Nat) (l : List (Bytes × Nat)) (hs : ∀ e ∈ st.escrow, e.1.2.length = 20)
    (hl : ∀ e ∈ l, e.1.length = 20) : ∀ e ∈ (escrowAddList st h l).escrow, e.1.2.length = 20 := by
  induction l generalizing st with
  | nil => exact hs
  | cons e l ih =>
    obtain ⟨a, v⟩ := e
    simp only [escrowAddList]
    apply ih
    · intro e he
      simp only [State.setEsc, List.mem_cons] at he
      rcases he with rfl | he
      · exact hl (a, v) (List.mem_cons_self ..)
      · exact hs e he
    · intro e he; exact hl e (List.mem_cons_of_mem _ he)

theorem escrowAddAll_keys (st : State) (p : List (Nat × List (Bytes × Nat))) (hs : ∀ e ∈ st.escrow, e.1.2.length = 20)
    (hp : ∀ q ∈ p, ∀ e ∈ q.2, e.1.length = 20) : ∀ e ∈ (escrowAddAll st p).escrow, e.1.2.length = 20 := by
  induction p generalizing st with
  | nil => exact hs
  | cons q p ih =>
    obtain ⟨h, l⟩ := q
    simp only [escrowAddAll]
    apply ih
    · exact escrowAddList_keys st h l hs (hp (h, l) (List.mem_cons_self ..))
    · intro q hq; exact hp q (List.mem_cons_of_mem _ hq)

/-! ### `RefundManager.CheckAndMove` -/

def camStep (h : Nat) (st : State) (e : Bytes × Nat) : State := (st.addBal (toAddr e.1) e.2).setEsc h (toAddr e.1) 0

theorem checkAndMove_eq (st : State) (h : Nat) :
    checkAndMove st h = ((escrowKeys st h).map (fun a => (a, st.escOf h a))).foldl (camStep h) st := rfl

theorem cam_fold_total (h : Nat) (vals : List (Bytes × Nat)) (st : State) (hn : (vals.map Prod.fst).Nodup)
    (h20 : ∀ e ∈ vals, e.1.length = 20) (hv : ∀ e ∈ vals, st.escOf h e.1 = e.2) :
    balTotal (vals.foldl (camStep h) st) + escTotal (vals.foldl (camStep h) st) = balTotal st + escTotal st := by
  induction vals generalizing st with
  | nil => rfl
  | cons e vals ih =>
    obtain ⟨a, v⟩ := e
    simp only [List.foldl_cons]
    have ha : toAddr a = a := toAddr_20 a (h20 (a, v) (List.mem_cons_self ..))
    have hnd : a ∉ vals.map Prod.fst ∧ (vals.map Prod.fst).Nodup := by
      simp only [List.map_cons] at hn
      exact List.nodup_cons.mp hn
    rw [ih]
    · simp only [camStep, ha]
      have h1 : balTotal ((st.addBal a v).setEsc h a 0) = balTotal st + v := by
        rw [balTotal_of_bal (st.addBal a v) ((st.addBal a v).setEsc h a 0) rfl, balTotal_addBal]
      have h2 := escTotal_setEsc (st.addBal a v) h a 0
      have h3 : (st.addBal a v).escOf h a = v := hv (a, v) (List.mem_cons_self ..)
      have h4 : escTotal (st.addBal a v) = escTotal st := escTotal_of_escrow _ _ rfl
      omega
    · exact hnd.2
    · intro e he; exact h20 e (List.mem_cons_of_mem _ he)
    · intro e he
      simp only [camStep, ha, escOf_setEsc]
      have hne : e.1 ≠ a := fun x => hnd.1 (x ▸ List.mem_map_of_mem he)
      simp only [hne, and_false, if_false]
      exact hv e (List.mem_cons_of_mem _ he)

theorem cam_fold_fields (h : Nat) (vals : List (Bytes × Nat)) (st : State) :
    (vals.foldl (camStep h) st).live = st.live ∧ (vals.foldl (camStep h) st).pending = st.pending ∧
    (vals.foldl (camStep h) st).height = st.height ∧ (vals.foldl (camStep h) st).trie = st.trie := by
  induction vals generalizing st with
  | nil => exact ⟨rfl, rfl, rfl, rfl⟩
  | cons e vals ih =>
    simp only [List.foldl_cons]
    obtain ⟨a, b, c, d⟩ := ih (camStep h st e)
    exact ⟨a.trans rfl, b.trans rfl, c.trans rfl, d.trans rfl⟩

theorem cam_fold_keys (h : Nat) (vals : List (Bytes × Nat)) (st : State) (hs : ∀ e ∈ st.escrow, e.1.2.length = 20)
    (h20 : ∀ e ∈ vals, e.1.length = 20) : ∀ e ∈ (vals.foldl (camStep h) st).escrow, e.1.2.length = 20 := by
  induction vals generalizing st with
  | nil => exact hs
  | cons e vals ih =>
    simp only [List.foldl_cons]
    apply ih
    · intro x hx
      simp only [camStep, State.setEsc, List.mem_cons] at hx
      rcases hx with rfl | hx
      · simp only; rw [toAddr_20 _ (h20 e (List.mem_cons_self ..))]; exact h20 e (List.mem_cons_self ..)
      · exact hs x hx
    · intro x hx; exact h20 x (List.mem_cons_of_mem _ hx)

theorem escrowKeys_20 (st : State) (h : Nat) (hs : ∀ e ∈ st.escrow, e.1.2.length = 20) : ∀ a ∈ escrowKeys st h, a.length = 20 := by
  intro a ha
  unfold escrowKeys at ha
  rw [mem_dedup] at ha
  obtain ⟨e, he, rfl⟩ := List.mem_map.mp ha
  exact hs e (List.mem_filter.mp he).1

theorem checkAndMove_total (st : State) (h : Nat) (hs : ∀ e ∈ st.escrow, e.1.2.length = 20) :
    balTotal (checkAndMove st h) + escTotal (checkAndMove st h) = balTotal st + escTotal st := by
  rw [checkAndMove_eq]
  apply cam_fold_total
  · simp only [List.map_map]
    have : (Prod.fst ∘ fun a => (a, st.escOf h a)) = id := rfl
    rw [this, List.map_id]
    exact nodup_dedup _
  · intro e he
    obtain ⟨a, ha, rfl⟩ := List.mem_map.mp he
    exact escrowKeys_20 st h hs a ha
  · intro e he
    obtain ⟨a, _, rfl⟩ := List.mem_map.mp he
    rfl

/-- What one account gets: balance after `CheckAndMove` = balance before + everything captured for it. -/
theorem cam_fold_bal (h : Nat) (vals : List (Bytes × Nat)) (st : State) (x : Bytes) (h20 : ∀ e ∈ vals, e.1.length = 20) :
    (vals.foldl (camStep h) st).balOf x = st.balOf x + ((vals.filter (fun e => e.1 = x)).map Prod.snd).sum := by
  induction vals generalizing st with
  | nil => simp
  | cons e vals ih =>
    obtain ⟨a, v⟩ := e
    simp only [List.foldl_cons]
    have ha : toAddr a = a := toAddr_20 a (h20 (a, v) (List.mem_cons_self ..))
    rw [ih _ (fun e he => h20 e (List.mem_cons_of_mem _ he))]
    have hb : (camStep h st (a, v)).balOf x = if x = a then st.balOf a + v else st.balOf x := by
      simp only [camStep, ha]
      show ((st.addBal a v)).balOf x = _
      unfold State.addBal; rw [balOf_setBal]
    rw [hb]
    by_cases hx : a = x
    · subst hx; simp [List.filter_cons]; omega
    · have hx' : ¬ x = a := fun e => hx e.symm
      simp [List.filter_cons, hx, hx']

theorem filter_keys_sum (keys : List Bytes) (f : Bytes → Nat) (x : Bytes) (hn : keys.Nodup) :
    (((keys.map (fun a => (a, f a))).filter (fun e => e.1 = x)).map Prod.snd).sum = if x ∈ keys then f x else 0 := by
  induction keys with
  | nil => simp
  | cons a keys ih =>
    have hnd := List.nodup_cons.mp hn
    by_cases hx : a = x
    · subst hx
      have : ¬ a ∈ keys := hnd.1
      simp [List.filter_cons, ih hnd.2, this]
    · have hx' : ¬ x = a := fun e => hx e.symm
      simp [List.filter_cons, hx, hx', ih hnd.2]

/-- `CheckAndMove` pays a 20-byte account exactly what is scheduled for it at this height, once:
    the balance grows by the scheduled amount and the entry is cleared. -/
theorem checkAndMove_pays (st : State) (h : Nat) (x : Bytes) (hs : ∀ e ∈ st.escrow, e.1.2.length = 20) :
    (checkAndMove st h).balOf x = st.balOf x + (if x ∈ escrowKeys st h then st.escOf h x else 0) := by
  rw [checkAndMove_eq, cam_fold_bal]
  · rw [filter_keys_sum (escrowKeys st h) (fun a => st.escOf h a) x (nodup_dedup _)]
  · intro e he
    obtain ⟨a, ha, rfl⟩ := List.mem_map.mp he
    exact escrowKeys_20 st h hs a ha

theorem cam_fold_esc_other (h h' : Nat) (vals : List (Bytes × Nat)) (st : State) (x : Bytes) (hne : h' ≠ h) :
    (vals.foldl (camStep h) st).escOf h' x = st.escOf h' x := by
  induction vals generalizing st with
  | nil => rfl
  | cons e vals ih =>
    simp only [List.foldl_cons]
    rw [ih]
    simp only [camStep, escOf_setEsc, hne, false_and, if_false]
    rfl

theorem cam_fold_esc_cleared (h : Nat) (vals : List (Bytes × Nat)) (st : State) (x : Bytes) (h20 : ∀ e ∈ vals, e.1.length = 20) :
    (vals.foldl (camStep h) st).escOf h x = if x ∈ vals.map Prod.fst then 0 else st.escOf h x := by
  induction vals generalizing st with
  | nil => simp
  | cons e vals ih =>
    obtain ⟨a, v⟩ := e
    simp only [List.foldl_cons]
    have ha : toAddr a = a := toAddr_20 a (h20 (a, v) (List.mem_cons_self ..))
    rw [ih _ (fun e he => h20 e (List.mem_cons_of_mem _ he))]
    simp only [camStep, ha, escOf_setEsc, true_and, List.map_cons, List.mem_cons]
    by_cases hx : x = a
    · subst hx; simp
    · simp only [hx, if_false, false_or]; rfl

end Rangers.Miner
