import Rangers.Model.Bls14Verify
import Mathlib.Data.List.Induction
/-!
Helper lemmas for C14: big-endian byte strings (`beToNat`, `natToBE`, `beFixed`, `padLeft`).
Core Lean plus `List.reverseRecOn`.
-/
namespace Rangers.Proofs.Bls14
open Rangers Rangers.Model.Bls14

theorem beToNat_nil : beToNat [] = 0 := rfl

theorem beToNat_append_one (bs : Bytes) (b : UInt8) :
    beToNat (bs ++ [b]) = beToNat bs * 256 + b.toNat := by
  simp [beToNat, List.foldl_append]

theorem foldl_be (bs : Bytes) (a : Nat) :
    bs.foldl (fun acc b => acc * 256 + b.toNat) a = a * 256 ^ bs.length + beToNat bs := by
  induction bs generalizing a with
  | nil => simp [beToNat]
  | cons b bs ih =>
    simp only [List.foldl_cons, List.length_cons, beToNat]
    rw [ih, ih (0 * 256 + b.toNat)]
    rw [Nat.pow_succ]
    simp only [Nat.zero_mul, Nat.zero_add]
    rw [Nat.add_mul, Nat.mul_assoc, Nat.mul_comm 256, Nat.add_assoc]

theorem beToNat_cons (b : UInt8) (bs : Bytes) :
    beToNat (b :: bs) = b.toNat * 256 ^ bs.length + beToNat bs := by
  simp only [beToNat, List.foldl_cons]
  rw [foldl_be]
  simp [beToNat]

theorem beToNat_append (a b : Bytes) :
    beToNat (a ++ b) = beToNat a * 256 ^ b.length + beToNat b := by
  simp only [beToNat, List.foldl_append]
  rw [foldl_be]
  simp [beToNat]

theorem beToNat_lt (bs : Bytes) : beToNat bs < 256 ^ bs.length := by
  induction bs using List.reverseRecOn with
  | nil => simp [beToNat]
  | append_singleton bs b ih =>
    rw [beToNat_append_one, List.length_append, List.length_singleton, Nat.pow_succ]
    have := UInt8.toNat_lt b
    omega

theorem beToNat_replicate_zero (n : Nat) : beToNat (List.replicate n (0 : UInt8)) = 0 := by
  induction n with
  | zero => rfl
  | succ n ih => rw [List.replicate_succ, beToNat_cons, ih]; simp

theorem beToNat_padLeft (k : Nat) (bs : Bytes) : beToNat (padLeft k bs) = beToNat bs := by
  simp [padLeft, beToNat_append, beToNat_replicate_zero]

theorem padLeft_length (k : Nat) (bs : Bytes) (h : bs.length ≤ k) : (padLeft k bs).length = k := by
  simp [padLeft]; omega

/-! ### fixed width -/

theorem beFixed_length (w n : Nat) : (beFixed w n).length = w := by
  induction w generalizing n with
  | zero => rfl
  | succ w ih => simp [beFixed, ih]

theorem toNat_ofNat_mod (n : Nat) : (UInt8.ofNat (n % 256)).toNat = n % 256 := by
  simp [UInt8.toNat_ofNat']

theorem beToNat_beFixed (w n : Nat) : beToNat (beFixed w n) = n % 256 ^ w := by
  induction w generalizing n with
  | zero => simp [beFixed, beToNat, Nat.mod_one]
  | succ w ih =>
    rw [beFixed, beToNat_append_one, ih, toNat_ofNat_mod, Nat.pow_succ', Nat.mod_mul]
    omega

theorem beToNat_beFixed_of_lt (w n : Nat) (h : n < 256 ^ w) : beToNat (beFixed w n) = n := by
  rw [beToNat_beFixed, Nat.mod_eq_of_lt h]

theorem beFixed_beToNat (bs : Bytes) : beFixed bs.length (beToNat bs) = bs := by
  induction bs using List.reverseRecOn with
  | nil => rfl
  | append_singleton bs b ih =>
    rw [List.length_append, List.length_singleton, beFixed, beToNat_append_one]
    have hb := UInt8.toNat_lt b
    have h1 : (beToNat bs * 256 + b.toNat) / 256 = beToNat bs := by omega
    have h2 : (beToNat bs * 256 + b.toNat) % 256 = b.toNat := by omega
    rw [h1, h2, ih]
    simp

theorem beFixed_zero (w : Nat) : beFixed w 0 = List.replicate w 0 := by
  induction w with
  | zero => rfl
  | succ w ih =>
    rw [beFixed]; simp only [Nat.zero_div, Nat.zero_mod]; rw [ih]
    rw [List.replicate_succ']; rfl

theorem beFixed_inj (w a b : Nat) (ha : a < 256 ^ w) (hb : b < 256 ^ w)
    (h : beFixed w a = beFixed w b) : a = b := by
  have := congrArg beToNat h
  rwa [beToNat_beFixed_of_lt w a ha, beToNat_beFixed_of_lt w b hb] at this

/-- A 32-byte string whose value is 0 is all zeros. -/
theorem eq_replicate_of_beToNat_zero (bs : Bytes) (h : beToNat bs = 0) :
    bs = List.replicate bs.length 0 := by
  have := beFixed_beToNat bs
  rw [h, beFixed_zero] at this
  exact this.symm

/-! ### minimal encoding (`big.Int.Bytes`) -/

theorem natToBE_go_spec (fuel n : Nat) (acc : Bytes) (h : n < fuel) :
    beToNat (natToBE.go fuel n acc) = n * 256 ^ acc.length + beToNat acc := by
  induction fuel generalizing n acc with
  | zero => omega
  | succ fuel ih =>
    rw [natToBE.go]
    split
    · next h0 => simp [h0]
    · next h0 =>
      have hlt : n / 256 < fuel := by
        have : n / 256 < n := Nat.div_lt_self (Nat.pos_of_ne_zero h0) (by decide)
        omega
      rw [ih _ _ hlt, beToNat_cons, toNat_ofNat_mod, List.length_cons, Nat.pow_succ]
      have := Nat.div_add_mod n 256
      calc n / 256 * (256 ^ acc.length * 256) + (n % 256 * 256 ^ acc.length + beToNat acc)
          = (256 * (n / 256) + n % 256) * 256 ^ acc.length + beToNat acc := by
            rw [Nat.add_mul, Nat.mul_comm (256 ^ acc.length) 256, ← Nat.mul_assoc,
              Nat.mul_comm (n / 256) 256, Nat.add_assoc]
        _ = n * 256 ^ acc.length + beToNat acc := by rw [this]

theorem beToNat_natToBE (n : Nat) : beToNat (natToBE n) = n := by
  unfold natToBE
  rw [natToBE_go_spec (n + 1) n [] (by omega)]
  simp [beToNat]

theorem natToBE_go_length (fuel n w : Nat) (acc : Bytes) (h : n < fuel) (hw : n < 256 ^ w) :
    (natToBE.go fuel n acc).length ≤ w + acc.length := by
  induction fuel generalizing n acc w with
  | zero => omega
  | succ fuel ih =>
    rw [natToBE.go]
    split
    · omega
    · next h0 =>
      have hlt : n / 256 < fuel := by
        have : n / 256 < n := Nat.div_lt_self (Nat.pos_of_ne_zero h0) (by decide)
        omega
      cases w with
      | zero => simp at hw; omega
      | succ w =>
        have hw' : n / 256 < 256 ^ w := by
          rw [Nat.pow_succ] at hw
          exact Nat.div_lt_of_lt_mul (by rw [Nat.mul_comm]; exact hw)
        have := ih (n / 256) w (UInt8.ofNat (n % 256) :: acc) hlt hw'
        simp only [List.length_cons] at this
        omega

theorem natToBE_length_le (n w : Nat) (hw : n < 256 ^ w) : (natToBE n).length ≤ w := by
  unfold natToBE
  have := natToBE_go_length (n + 1) n w [] (by omega) hw
  simpa using this

theorem natToBE_length_lt (n : Nat) : n < 256 ^ (natToBE n).length := by
  have := beToNat_lt (natToBE n)
  rwa [beToNat_natToBE] at this

end Rangers.Proofs.Bls14
