import Rangers.Proofs.MinerBasic
/-! C20 helper lemmas: iterator keys, the three lookup paths, the `RecKeyed` invariant. -/
namespace Rangers.Miner

theorem mem_dedup (a : Bytes) (l : List Bytes) : a ∈ dedup l ↔ a ∈ l := by
  induction l with
  | nil => simp [dedup]
  | cons b l ih =>
    unfold dedup
    by_cases hb : b ∈ l
    · simp only [hb, if_true, ih, List.mem_cons]
      constructor
      · intro h; exact Or.inr h
      · rintro (h | h)
        · subst h; exact hb
        · exact h
    · simp [hb, ih]

theorem nodup_dedup (l : List Bytes) : (dedup l).Nodup := by
  induction l with
  | nil => simp [dedup]
  | cons b l ih =>
    unfold dedup
    by_cases hb : b ∈ l
    · simp [hb, ih]
    · simp [hb, ih, mem_dedup]

theorem mem_insertKey (a k : Bytes) (l : List Bytes) : a ∈ insertKey k l ↔ a = k ∨ a ∈ l := by
  induction l with
  | nil => simp [insertKey]
  | cons b l ih =>
    unfold insertKey
    split
    · simp
    · simp only [List.mem_cons, ih]
      constructor
      · rintro (h | h | h) <;> simp [h]
      · rintro (h | h | h) <;> simp [h]

theorem nodup_insertKey (k : Bytes) (l : List Bytes) (hk : k ∉ l) (hl : l.Nodup) : (insertKey k l).Nodup := by
  induction l with
  | nil => simp [insertKey]
  | cons b l ih =>
    unfold insertKey
    have hb : b ∉ l := (List.nodup_cons.mp hl).1
    have hl' : l.Nodup := (List.nodup_cons.mp hl).2
    split
    · exact List.nodup_cons.mpr ⟨hk, hl⟩
    · have hk' : k ∉ l := fun h => hk (List.mem_cons_of_mem _ h)
      have hkb : b ≠ k := fun h => hk (by simp [h])
      refine List.nodup_cons.mpr ⟨?_, ih hk' hl'⟩
      simp [mem_insertKey, hb, hkb]

theorem mem_isort (a : Bytes) (l : List Bytes) : a ∈ isort l ↔ a ∈ l := by
  induction l with
  | nil => simp [isort]
  | cons b l ih => simp [isort, mem_insertKey, ih]

theorem nodup_isort (l : List Bytes) (hl : l.Nodup) : (isort l).Nodup := by
  induction l with
  | nil => simp [isort]
  | cons b l ih =>
    have hb : b ∉ l := (List.nodup_cons.mp hl).1
    exact nodup_insertKey _ _ (by simpa [mem_isort] using hb) (ih (List.nodup_cons.mp hl).2)

theorem mem_keys (s : Store) (k : Bytes) : k ∈ s.keys ↔ k ∈ s.map Prod.fst := by
  simp [Store.keys, mem_isort, mem_dedup]

theorem nodup_keys (s : Store) : s.keys.Nodup := nodup_isort _ (nodup_dedup _)

theorem mem_of_get_ne_nil (s : Store) (k : Bytes) (h : s.get k ≠ []) : k ∈ s.map Prod.fst := by
  induction s with
  | nil => simp [Store.get] at h
  | cons e s ih =>
    by_cases hk : k = e.1
    · simp [hk]
    · have : (k == e.1) = false := by simpa using hk
      have h' : Store.get s k ≠ [] := by
        have e : Store.get (e :: s) k = Store.get s k := by
          obtain ⟨e1, e2⟩ := e
          simp only [Store.get, List.lookup_cons]
          simp only [this]
        rw [← e]; exact h
      simp [ih h']

/-- Every stored value that decodes as a record sits under the key named inside the record and is
    filed in the registry of the record's type. -/
def RecKeyed (cfg : Cfg) (st : State) : Prop :=
  ∀ d k info, (st.live d).get k ≠ [] → cfg.dec ((st.live d).get k) = some info → info.id = k ∧ k ≠ [] ∧ dbOfType info.typ = d

def Flushed (st : State) : Prop := st.trie = st.live

theorem iter_mem (cfg : Cfg) (st : State) (d : DbId) (m : Miner) :
    m ∈ iter cfg st d ↔ ∃ k, k ∈ (st.trie d).keys ∧ iterCurrent cfg st d ((st.trie d).get k) = some m := by
  simp [iter, List.mem_filterMap]

theorem iterCurrent_some (cfg : Cfg) (st : State) (d : DbId) (v : Bytes) (m : Miner) :
    iterCurrent cfg st d v = some m ↔
      v ≠ [] ∧ ∃ info, cfg.dec v = some info ∧ info.id ≠ [] ∧ m = readMiner cfg (st.live d) info info.id := by
  unfold iterCurrent
  by_cases hv : v = []
  · simp [hv]
  · simp only [hv, if_false, ne_eq, not_false_eq_true, true_and]
    cases hd : cfg.dec v with
    | none => simp
    | some info =>
      by_cases hi : info.id = []
      · simp [hi]
      · simp [hi, eq_comm]

theorem getMinerById_some (cfg : Cfg) (st : State) (d : DbId) (id : Bytes) (m : Miner) :
    getMinerById cfg st d id = some m ↔
      (st.live d).get id ≠ [] ∧ ∃ info, cfg.dec ((st.live d).get id) = some info ∧ m = readMiner cfg (st.live d) info id := by
  unfold getMinerById
  by_cases hv : (st.live d).get id = []
  · simp [hv]
  · simp only [hv, if_false, ne_eq, not_false_eq_true, true_and]
    cases hd : cfg.dec ((st.live d).get id) with
    | none => simp
    | some info => simp [eq_comm]

theorem iter_to_id (cfg : Cfg) (st : State) (d : DbId) (m : Miner) (hf : Flushed st) (hr : RecKeyed cfg st)
    (hm : m ∈ iter cfg st d) : getMinerById cfg st d m.id = some m := by
  obtain ⟨k, _, hc⟩ := (iter_mem cfg st d m).mp hm
  rw [hf] at hc
  obtain ⟨hv, info, hdec, _, rfl⟩ := (iterCurrent_some cfg st d _ m).mp hc
  have hk := (hr d k info hv hdec).1
  have : (readMiner cfg (st.live d) info info.id).id = k := by simp [readMiner, hk]
  rw [this]
  exact (getMinerById_some cfg st d k _).mpr ⟨hv, info, hdec, by rw [hk]⟩

theorem id_to_iter (cfg : Cfg) (st : State) (d : DbId) (id : Bytes) (m : Miner) (hf : Flushed st) (hr : RecKeyed cfg st)
    (hm : getMinerById cfg st d id = some m) : m ∈ iter cfg st d := by
  obtain ⟨hv, info, hdec, rfl⟩ := (getMinerById_some cfg st d id m).mp hm
  obtain ⟨hid, hne, _⟩ := hr d id info hv hdec
  refine (iter_mem cfg st d _).mpr ⟨id, ?_, ?_⟩
  · rw [hf]; exact (mem_keys _ _).mpr (mem_of_get_ne_nil _ _ hv)
  · rw [hf]
    exact (iterCurrent_some cfg st d _ _).mpr ⟨hv, info, hdec, by rw [hid]; exact hne, by rw [hid]⟩

theorem byAccount_some (cfg : Cfg) (st : State) (a id : Bytes) (h : byAccount cfg st a = some id) :
    ∃ m, (m ∈ iter cfg st .val ∨ m ∈ iter cfg st .prop) ∧ m.account = a ∧ m.id = id := by
  unfold byAccount at h
  cases hf : (iter cfg st .val ++ iter cfg st .prop).find? (fun m => m.account = a) with
  | none => simp [hf] at h
  | some m =>
    simp [hf] at h
    have hmem := List.mem_of_find?_eq_some hf
    have hp := List.find?_some hf
    exact ⟨m, by simpa using hmem, by simpa using hp, h⟩

theorem byAccount_isSome (cfg : Cfg) (st : State) (m : Miner)
    (h : m ∈ iter cfg st .val ∨ m ∈ iter cfg st .prop) : (byAccount cfg st m.account).isSome := by
  unfold byAccount
  rw [Option.isSome_map, List.find?_isSome]
  exact ⟨m, by simpa using h, by simp⟩

end Rangers.Miner
