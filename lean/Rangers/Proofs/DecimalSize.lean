import Rangers.Proofs.DecimalTotal
/-!
Size of the result of `strToBigInt` (resource observation next to C18): the binary
exponent of every intermediate float is bounded by the mantissa length plus the decimal
exponent the string carries, so the integer that `Float.Int` builds has at most
`4·|s| + 5·exp + 4·d + 8` bits — linear in the input when the string has no exponent part,
but *exponential* in the length of the exponent digits otherwise.
-/
namespace Rangers.Decimal

/-- the binary exponent (`bitLen m + e`) of a finite float is at most `B` -/
def expoLe (x : BF) (B : Int) : Prop :=
  match x with
  | .fin _ m e => (bitLen m : Int) + e ≤ B
  | _ => True

theorem expoLe_mono {x : BF} {A B : Int} (h : expoLe x A) (hAB : A ≤ B) : expoLe x B := by
  cases x <;> simp only [expoLe] at * ; omega

theorem roundMant_expo (mode : Mode) (p m : Nat) (st : Bool) (_hp : 1 ≤ p) :
    bitLen (roundMant mode p m st).1 + (roundMant mode p m st).2 ≤ bitLen m + 1 := by
  by_cases h : bitLen m ≤ p
  · rw [roundMant_fits mode st h]; simp
  · have hs : (roundMant mode p m st).2 = bitLen m - p := by
      unfold roundMant; simp [h]
    have hle : (roundMant mode p m st).1 ≤ 2 ^ p := by
      unfold roundMant
      simp only [h, if_false]
      have hlt : m / 2 ^ (bitLen m - p) < 2 ^ p := by
        rw [Nat.div_lt_iff_lt_mul (Nat.two_pow_pos _), ← Nat.pow_add]
        have : p + (bitLen m - p) = bitLen m := by omega
        rw [this]; exact lt_two_pow_bitLen m
      cases mode <;> dsimp only <;> split <;> omega
    have hb : bitLen (roundMant mode p m st).1 ≤ p + 1 :=
      bitLen_le_of_lt (lt_of_le_of_lt hle (Nat.pow_lt_pow_right (by norm_num) (by omega)))
    omega

theorem finish_expoLe (neg : Bool) (mode : Mode) (p m : Nat) (e : Int) (st : Bool) (hp : 1 ≤ p) :
    expoLe (finish neg mode p m e st) ((bitLen m : Int) + e + 1) := by
  unfold finish
  have h := roundMant_expo mode p m st hp
  rcases hrm : roundMant mode p m st with ⟨m', s⟩
  rw [hrm] at h
  dsimp only at h ⊢
  split_ifs <;> simp only [expoLe]
  omega

theorem mul_expoLe (mode : Mode) (p : Nat) (x y : BF) (A B : Int) (hp : 1 ≤ p)
    (hx : expoLe x A) (hy : expoLe y B) : expoLe (mul mode p x y) (A + B + 1) := by
  cases x <;> cases y <;> simp only [mul, expoLe] at * <;> try trivial
  rename_i nx mx ex ny my ey
  have h1 := finish_expoLe (nx != ny) mode p (mx * my) (ex + ey) false hp
  have h2 := bitLen_mul_le mx my
  exact expoLe_mono h1 (by omega)

theorem quo_expoLe (mode : Mode) (p : Nat) (nx : Bool) (mx : Nat) (ex : Int) (y : BF) (hp : 1 ≤ p)
    (hy : posOrInf y) : expoLe (quo mode p (.fin nx mx ex) y) ((bitLen mx : Int) + ex + 1) := by
  cases y with
  | nan => exact absurd hy (by simp [posOrInf])
  | zero b => exact absurd hy (by simp [posOrInf])
  | inf b => simp [quo, expoLe]
  | fin ny my ey =>
    cases ny with
    | true => exact absurd hy (by simp [posOrInf])
    | false =>
      obtain ⟨hmy, hey⟩ := hy
      simp only [quo]
      have h1 := finish_expoLe (nx != false) mode p (mx * 2 ^ (p + 2 + bitLen my) / my)
        (ex - ey - ((p + 2 + bitLen my : Nat) : Int)) (mx * 2 ^ (p + 2 + bitLen my) % my != 0) hp
      have h2 : bitLen (mx * 2 ^ (p + 2 + bitLen my) / my) ≤ bitLen mx + (p + 2 + bitLen my) :=
        le_trans (bitLen_mono (Nat.div_le_self _ _)) (bitLen_mul_two_pow_le mx _)
      exact expoLe_mono h1 (by push_cast at h2 ⊢; omega)

theorem pow5Loop_expoLe (fuel n : Nat) (z f : BF) (u w : Nat) (hw : 1 ≤ w)
    (hz : expoLe z (4 * (u : Int) - 1)) (hf : expoLe f (4 * (w : Int) - 1)) :
    expoLe (pow5Loop fuel n z f) (4 * ((u + n * w : Nat) : Int) - 1) := by
  induction fuel generalizing n z f u w with
  | zero =>
    simp only [pow5Loop]
    exact expoLe_mono hz (by push_cast; nlinarith [Nat.zero_le (n * w)])
  | succ k ih =>
    unfold pow5Loop
    by_cases hn : n = 0
    · subst hn; simpa using hz
    · simp only [hn, if_false]
      have hf' : expoLe (mul .nearestEven (prec + 128) f f) (4 * ((2 * w : Nat) : Int) - 1) :=
        expoLe_mono (mul_expoLe _ _ f f _ _ (by norm_num [prec]) hf hf) (by push_cast; omega)
      by_cases hodd : n % 2 = 1
      · simp only [hodd, if_true]
        have hz' : expoLe (mul .nearestEven (prec + 64) z f) (4 * ((u + w : Nat) : Int) - 1) :=
          expoLe_mono (mul_expoLe _ _ z f _ _ (by norm_num [prec]) hz hf) (by push_cast; omega)
        have := ih (n / 2) _ _ (u + w) (2 * w) (by omega) hz' hf'
        refine expoLe_mono this ?_
        have hdm := Nat.div_add_mod n 2
        have : u + w + n / 2 * (2 * w) = u + n * w := by
          have : n = 2 * (n / 2) + 1 := by omega
          calc u + w + n / 2 * (2 * w) = u + (2 * (n / 2) + 1) * w := by ring
            _ = u + n * w := by rw [← this]
        rw [this]
      · simp only [hodd, if_false]
        have := ih (n / 2) _ _ u (2 * w) (by omega) hz hf'
        refine expoLe_mono this ?_
        have : u + n / 2 * (2 * w) = u + n * w := by
          have : n = 2 * (n / 2) := by omega
          calc u + n / 2 * (2 * w) = u + (2 * (n / 2)) * w := by ring
            _ = u + n * w := by rw [← this]
        rw [this]

theorem pow5_expoLe (n : Nat) : expoLe (pow5 n) (4 * (n : Int) + 1) := by
  unfold pow5
  split_ifs with h
  · simp only [expoLe]
    have := bitLen_pow_le 5 3 n (by norm_num)
    omega
  · have h1 : expoLe (BF.fin false (5 ^ 27) 0) (4 * ((27 : Nat) : Int) - 1) := by
      simp only [expoLe]
      have : bitLen (5 ^ 27) ≤ 3 * 27 + 1 := bitLen_pow_le 5 3 27 (by norm_num)
      omega
    have h2 : expoLe (BF.fin false 5 0) (4 * ((1 : Nat) : Int) - 1) := by
      simp only [expoLe]
      have : bitLen 5 ≤ 3 := bitLen_le_of_lt (by norm_num)
      omega
    have := pow5Loop_expoLe n (n - 27) _ _ 27 1 (le_refl _) h1 h2
    refine expoLe_mono this ?_
    have : 27 + (n - 27) * 1 = n := by omega
    rw [this]; omega

/-- the float built from the scanned pieces has binary exponent at most
    `bitLen mant + max 0 exp · 5 + 3` (`fcount ≤ 0` contributes nothing positive). -/
theorem buildFloat_expoLe (neg : Bool) (mant : Nat) (fc exp : Int) (eb : Nat) (z : BF)
    (h : buildFloat neg mant fc exp eb = some z) :
    expoLe z ((bitLen mant : Int) + 5 * (exp.toNat : Int) + 3) := by
  unfold buildFloat at h
  dsimp only at h
  have hd : (if fc < 0 then fc else 0) ≤ 0 := by split <;> omega
  generalize (if fc < 0 then fc else 0) = d at h hd
  have hx : (if eb = 10 then exp else 0) ≤ (exp.toNat : Int) := by split <;> omega
  generalize (if eb = 10 then exp else 0) = x at h hx
  have he : exp ≤ (exp.toNat : Int) := by omega
  split_ifs at h with h1 h2 h3
  all_goals (simp only [Option.some.injEq] at h; subst h)
  · exact expoLe_mono (finish_expoLe _ _ _ _ _ _ (by norm_num [prec])) (by omega)
  · exact expoLe_mono (quo_expoLe _ _ _ _ _ _ (by norm_num [prec]) (pow5_posOrInf _)) (by omega)
  · have hp := pow5_expoLe (d + x).toNat
    have hm : expoLe (BF.fin neg mant (d + exp)) ((bitLen mant : Int) + (d + exp)) := by
      simp only [expoLe]; omega
    exact expoLe_mono (mul_expoLe _ _ _ _ _ _ (by norm_num [prec]) hm hp) (by omega)

/-- bit length of what `Float.Int` returns -/
theorem toInt_bitLen (x : BF) (B : Int) (h : expoLe x B) : (bitLen (toInt x).natAbs : Int) ≤ max 0 B := by
  cases x with
  | zero n => simp [toInt, bitLen_zero]
  | inf n => simp [toInt, bitLen_zero]
  | nan => simp [toInt, bitLen_zero]
  | fin neg m e =>
    simp only [expoLe] at h
    unfold toInt
    by_cases hsc : (bitLen m : Int) + e ≤ 0
    · simp [hsc, bitLen_zero]
    · simp only [hsc, if_false]
      have key : ((bitLen (if e ≥ 0 then m * 2 ^ e.toNat else m / 2 ^ (-e).toNat) : Nat) : Int)
          ≤ (bitLen m : Int) + e := by
        by_cases he : e ≥ 0
        · simp only [he, if_true]
          have := bitLen_mul_two_pow_le m e.toNat
          omega
        · simp only [he, if_false]
          have hk : (-e).toNat ≤ bitLen m := by omega
          have : m / 2 ^ (-e).toNat < 2 ^ (bitLen m - (-e).toNat) := by
            rw [Nat.div_lt_iff_lt_mul (Nat.two_pow_pos _), ← Nat.pow_add]
            have : bitLen m - (-e).toNat + (-e).toNat = bitLen m := by omega
            rw [this]; exact lt_two_pow_bitLen m
          have := bitLen_le_of_lt this
          omega
      split <;> simp only [Int.natAbs_neg, Int.natAbs_natCast] <;> omega

/-- invariant of `nat.scan`: the mantissa has as many decimal digits as were counted,
    and no more digits were counted than characters read. -/
theorem scanMant_bound (s : Str) (fo : Bool) (m cnt : Nat) (dp : Option Nat) (hm : m < 10 ^ cnt) :
    (scanMant s fo m cnt dp).mant < 10 ^ (scanMant s fo m cnt dp).count ∧
    (scanMant s fo m cnt dp).count ≤ cnt + s.length ∧
    (∀ c ∈ (scanMant s fo m cnt dp).rest, c ∈ s) := by
  induction s generalizing fo m cnt dp with
  | nil => simp [scanMant, hm]
  | cons c cs ih =>
    rw [scanMant]
    split_ifs with h1 h2
    · obtain ⟨a, b, d⟩ := ih false m cnt (some cnt) hm
      exact ⟨a, by simp only [List.length_cons]; omega, fun x hx => List.mem_cons_of_mem _ (d x hx)⟩
    · have hv : digVal c ≤ 9 := by
        unfold isDig Char.isDigit at h2
        simp at h2
        have h2' : c.val.toNat ≤ (57 : UInt32).toNat := UInt32.le_iff_toNat_le.mp h2.2
        have h3 : c.toNat = c.val.toNat := rfl
        have h0 : '0'.toNat = 48 := rfl
        have h57 : (57 : UInt32).toNat = 57 := rfl
        unfold digVal; omega
      have hm' : m * 10 + digVal c < 10 ^ (cnt + 1) := by rw [Nat.pow_succ]; omega
      obtain ⟨a, b, d⟩ := ih fo (m * 10 + digVal c) (cnt + 1) dp hm'
      exact ⟨a, by simp only [List.length_cons]; omega, fun x hx => List.mem_cons_of_mem _ (d x hx)⟩
    · exact ⟨hm, by simp, fun x hx => hx⟩

/-- the decimal or binary exponent the scanner reads after the mantissa (0 if there is none) -/
def expPart (s : Str) : Int :=
  let body : Str := match s with
    | c :: t => if c = '-' || c = '+' then t else s
    | [] => []
  match scanExp (scanMant body true 0 0 none).rest with
  | some (e, _, _) => e
  | none => 0

theorem scanBody_size (neg : Bool) (r : Str) (z : BF) (h : scanBody neg r = some z) :
    expoLe z (4 * (r.length : Int) + 5 *
      ((match scanExp (scanMant r true 0 0 none).rest with | some (e, _, _) => e | none => 0).toNat : Int) + 3) := by
  obtain ⟨hmant, hcount, _⟩ := scanMant_bound r true 0 0 none (by norm_num)
  unfold scanBody at h
  dsimp only at h
  by_cases hc : (scanMant r true 0 0 none).count = 0
  · simp [hc] at h
  · simp only [hc, if_false] at h
    cases hse : scanExp (scanMant r true 0 0 none).rest with
    | none => simp [hse] at h
    | some t =>
      obtain ⟨exp, ebase, rest⟩ := t
      simp only [hse] at h ⊢
      by_cases hm : (scanMant r true 0 0 none).mant = 0
      · simp only [hm, if_true] at h
        split_ifs at h
        simp only [Option.some.injEq] at h
        subst h; simp [expoLe]
      · simp only [hm, if_false] at h
        cases hb : buildFloat neg (scanMant r true 0 0 none).mant
            (fcountOf (scanMant r true 0 0 none).dp (scanMant r true 0 0 none).count) exp ebase with
        | none => simp [hb] at h
        | some z' =>
          simp only [hb] at h
          split_ifs at h
          simp only [Option.some.injEq] at h
          subst h
          have hbits : bitLen (scanMant r true 0 0 none).mant ≤ 4 * r.length := by
            apply bitLen_le_of_lt
            calc (scanMant r true 0 0 none).mant < 10 ^ (scanMant r true 0 0 none).count := hmant
              _ ≤ 16 ^ (scanMant r true 0 0 none).count := Nat.pow_le_pow_left (by norm_num) _
              _ = 2 ^ (4 * (scanMant r true 0 0 none).count) := by rw [Nat.pow_mul]
              _ ≤ 2 ^ (4 * r.length) := Nat.pow_le_pow_right (by norm_num) (by omega)
          exact expoLe_mono (buildFloat_expoLe _ _ _ _ _ _ hb) (by omega)

theorem parseFloat_size (s : Str) (z : BF) (h : parseFloat s = some z) :
    expoLe z (4 * (s.length : Int) + 5 * ((expPart s).toNat : Int) + 3) := by
  unfold parseFloat at h
  split_ifs at h
  · simp only [Option.some.injEq] at h; subst h; simp [expoLe]
  · simp only [Option.some.injEq] at h; subst h; simp [expoLe]
  · unfold scanFloat at h
    split at h
    · simp at h
    · rename_i c0 t0
      unfold expPart
      dsimp only
      split_ifs at h with h1 h2
      · have := scanBody_size _ _ _ h
        simp only [h1, decide_true, Bool.true_or, if_true]
        exact expoLe_mono this (by simp only [List.length_cons]; push_cast; omega)
      · have := scanBody_size _ _ _ h
        simp only [h2, decide_true, Bool.or_true, if_true]
        exact expoLe_mono this (by simp only [List.length_cons]; push_cast; omega)
      · have := scanBody_size _ _ _ h
        simp only [h1, h2, decide_false, Bool.or_self, Bool.false_eq_true, if_false]
        exact this

/-- **Result size bound.** Whatever the string, the integer `strToBigInt` returns has at
    most `4·|s| + 5·exp + 4·d + 8` bits, `exp` being the exponent the string carries. -/
theorem strToBigInt_size (s : Str) (d : Int) (v : Int) (h : strToBigInt s d = .ok v) :
    (bitLen v.natAbs : Int) ≤ 4 * (s.length : Int) + 5 * ((expPart s).toNat : Int) + 4 * (d.toNat : Int) + 8 := by
  unfold strToBigInt at h
  split_ifs at h with hs
  · simp only [Res.ok.injEq] at h; subst h
    simp only [Int.natAbs_zero, bitLen_zero]
    positivity
  · split at h
    · simp at h
    · rename_i target htarget
      have hz := parseFloat_size s target htarget
      have hb : expoLe (baseFloat d) (4 * (d.toNat : Int) + 1) := by
        simp only [baseFloat, expoLe]
        have := bitLen_pow_le 10 4 d.toNat (by norm_num)
        omega
      have ht := mul_expoLe .away prec target (baseFloat d) _ _ (by norm_num [prec]) hz hb
      split at h
      · simp at h
      · simp only [Res.ok.injEq] at h
        subst h
        have := toInt_bitLen _ _ ht
        have hnn : (0 : Int) ≤ 4 * (s.length : Int) + 5 * ((expPart s).toNat : Int) + 3 + (4 * (d.toNat : Int) + 1) + 1 := by
          positivity
        rw [max_eq_right hnn] at this
        omega

/-- without an exponent marker the scanner reads exponent 0 -/
theorem expPart_eq_zero (s : Str) (h : ∀ c ∈ s, c ≠ 'e' ∧ c ≠ 'E' ∧ c ≠ 'p' ∧ c ≠ 'P') : expPart s = 0 := by
  unfold expPart
  dsimp only
  generalize hbody : (match s with
    | c :: t => if c = '-' || c = '+' then t else s
    | [] => []) = body
  have hsub : ∀ c ∈ body, c ∈ s := by
    intro c hc
    cases s with
    | nil => simp at hbody; subst hbody; exact hc
    | cons a t =>
      simp only at hbody
      split_ifs at hbody
      · subst hbody; exact List.mem_cons_of_mem _ hc
      · subst hbody; exact hc
  obtain ⟨_, _, hrest⟩ := scanMant_bound body true 0 0 none (by norm_num)
  cases hr : (scanMant body true 0 0 none).rest with
  | nil => simp [scanExp]
  | cons c r =>
    have hc : c ∈ s := hsub c (hrest c (by rw [hr]; simp))
    obtain ⟨h1, h2, h3, h4⟩ := h c hc
    unfold scanExp
    simp only [h1, h2, h3, h4, decide_false, Bool.or_self, Bool.false_eq_true, if_false]
    rfl

end Rangers.Decimal
