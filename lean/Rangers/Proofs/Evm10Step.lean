import Rangers.Proofs.Evm10Table
import Rangers.Proofs.Evm10Bitmap
import Rangers.Proofs.Evm10Arith
/-!
C10 — decomposition of one interpreter iteration, used by the memory / jump / pc theorems.
-/
namespace Rangers.Proofs.Evm10
open Rangers Rangers.Model.Evm10 Rangers.Model.Evm10.U256

/-- the word-rounded memory size the loop derived from the slot's `memorySize` function -/
def MemSized (info : OpInfo) (st : List Word) (memorySize : Nat) : Prop :=
  (memorySizeOf info.memSize st = .noFn ∧ memorySize = 0) ∨
  (∃ sz, memorySizeOf info.memSize st = .size sz false ∧
         safeMul (toWordSize sz) 32 = (memorySize, false))

theorem stepMemSize_ok {info : OpInfo} {st : List Word} {m : Nat}
    (h : stepMemSize info st = .ok m) : MemSized info st m := by
  unfold stepMemSize at h
  split at h
  · rename_i hm
    left; exact ⟨hm, by simpa using h.symm⟩
  · simp at h
  · simp at h
  · rename_i sz ov hm
    split at h
    · simp at h
    · rename_i hov
      split at h
      · simp at h
      · rename_i ho
        right
        have hov' : ov = false := by simpa using hov
        subst hov'
        refine ⟨sz, hm, ?_⟩
        have ho' : (safeMul (toWordSize sz) 32).2 = false := by simpa using ho
        have hm' : (safeMul (toWordSize sz) 32).1 = m := by simpa using h
        rw [← hm', ← ho']

theorem stepMemSize_error {info : OpInfo} {st : List Word} {r : StepResult}
    (h : stepMemSize info st = .error r) :
    (r = .fail .goPanic ∧ memorySizeOf info.memSize st = .panic) ∨
    r = .fail .gasUintOverflow ∨ (∃ n, r = .unmodelled n) := by
  unfold stepMemSize at h
  split at h
  · simp at h
  · rename_i hm; left; exact ⟨by simpa using h.symm, hm⟩
  · rename_i n _; right; right; exact ⟨n, by simpa using h.symm⟩
  · split at h
    · right; left; simpa using h.symm
    · split at h
      · right; left; simpa using h.symm
      · simp at h

theorem stepDynGas_error {p : GasParams} {info : OpInfo} {f : Frame} {g m : Nat} {r : StepResult}
    (h : stepDynGas p info f g m = .error r) : r = .fail .outOfGas ∨ (∃ n, r = .unmodelled n) := by
  unfold stepDynGas at h
  split at h
  · simp at h
  · rename_i n _; right; exact ⟨n, by simpa using h.symm⟩
  · left; simpa using h.symm
  · split at h
    · left; simpa using h.symm
    · simp at h

theorem step_next_decomp {H : Bytes → Bytes} {t : Table} {p : GasParams} {f f' : Frame}
    (h : step H t p f = .next f') :
    ∃ info gas2 last memorySize f1 res,
      t.get (getOp f.code f.pc) = some info ∧
      info.minStack ≤ f.stack.length ∧ f.stack.length ≤ info.maxStack ∧
      MemSized info f.stack memorySize ∧
      execOp H info.exec (preExec f gas2 last memorySize) = .ok f1 res ∧
      f' = postExec info f1 res := by
  unfold step at h
  split at h
  · simp at h
  · rename_i info hget
    split at h
    · simp at h
    · rename_i hmin
      split at h
      · simp at h
      · rename_i hmax
        split at h
        · simp at h
        · split at h
          · rename_i r hms
            rcases stepMemSize_error hms with ⟨h1, _⟩ | h1 | ⟨n, h1⟩ <;> (subst h1; simp at h)
          · rename_i memorySize hms
            split at h
            · rename_i r hdg
              rcases stepDynGas_error hdg with h1 | ⟨n, h1⟩ <;> (subst h1; simp at h)
            · rename_i gas2 last hdg
              unfold stepExec at h
              split at h
              · simp at h
              · simp at h
              · rename_i f1 res hex
                split at h
                · simp at h
                · split at h
                  · simp at h
                  · refine ⟨info, gas2, last, memorySize, f1, res, hget, by omega, by omega,
                      stepMemSize_ok hms, hex, ?_⟩
                    simpa using h.symm

/-- a step can only fail with a Go panic through the memory-size function or `execute` -/
theorem step_goPanic_decomp {H : Bytes → Bytes} {t : Table} {p : GasParams} {f : Frame}
    (h : step H t p f = .fail .goPanic) :
    ∃ info, t.get (getOp f.code f.pc) = some info ∧ info.minStack ≤ f.stack.length ∧
      (memorySizeOf info.memSize f.stack = .panic ∨
       ∃ gas2 last memorySize, MemSized info f.stack memorySize ∧
         execOp H info.exec (preExec f gas2 last memorySize) = .err .goPanic) := by
  unfold step at h
  split at h
  · simp at h
  · rename_i info hget
    split at h
    · simp at h
    · rename_i hmin
      split at h
      · simp at h
      · split at h
        · simp at h
        · refine ⟨info, hget, by omega, ?_⟩
          split at h
          · rename_i r hms
            rcases stepMemSize_error hms with ⟨_, h2⟩ | h1 | ⟨n, h1⟩
            · exact Or.inl h2
            · subst h1; simp at h
            · subst h1; simp at h
          · rename_i memorySize hms
            split at h
            · rename_i r hdg
              rcases stepDynGas_error hdg with h1 | ⟨n, h1⟩ <;> (subst h1; simp at h)
            · rename_i gas2 last hdg
              right
              refine ⟨gas2, last, memorySize, stepMemSize_ok hms, ?_⟩
              unfold stepExec at h
              split at h
              · rename_i e he
                have : e = .goPanic := by simpa using h
                subst this; exact he
              · simp at h
              · split at h
                · simp at h
                · split at h <;> simp at h


/-! ### what `execute` leaves alone -/

/-- bytes of PUSH data the instruction carries (the pc advance made by `execute` itself) -/
def pushWidth : Exec → Nat
  | .push size _ => size
  | .opPush1 => 1
  | _ => 0

theorem execOp_frame {H : Bytes → Bytes} {e : Exec} {g f1 : Frame} {res : Bytes}
    (h : execOp H e g = .ok f1 res) :
    f1.code = g.code ∧ f1.bitmap = g.bitmap ∧ f1.input = g.input ∧ f1.returnData = g.returnData ∧
    f1.gas = g.gas ∧ f1.lastGasCost = g.lastGasCost ∧
    (e ≠ .opJump → e ≠ .opJumpi → f1.pc = g.pc + pushWidth e) := by
  cases e <;> simp only [execOp, bin, un, pushW] at h
  all_goals (repeat' split at h)
  all_goals (first
    | (simp only [ExecResult.ok.injEq] at h; obtain ⟨h1, _⟩ := h; subst h1; simp [pushWidth])
    | (simp at h))

end Rangers.Proofs.Evm10
