import Rangers.Proofs.RLPTypedRT
/-! Lossless direction for the typed coders: `decT` reads back what `encT` wrote (`typed_complete`). -/
namespace Rangers.RLP
open Rangers

theorem vfuel_pos (v : Val) : 1 ≤ vfuel v := by cases v <;> simp [vfuel] <;> omega
theorem efuel_pos (vs : List Val) : 1 ≤ efuel vs := by cases vs <;> simp [efuel] <;> omega

theorem decT_nil_not_ok {f : Nat} {ty : Ty} {v : Val} {rest : Bytes} : decT f ty [] ≠ .ok (v, rest) := by
  intro h
  have := decT_shorter h
  simp at this

/-- `Stream.Raw` on a well-formed raw value gives the value back. -/
theorem decT_raw_complete (f : Nat) (b rest : Bytes) {k : Kind} {ts cs : Nat}
    (hb : readHead b = .ok (k, ts, cs)) (hl : ts + cs = b.length) :
    decT (f + 1) .raw (b ++ rest) = .ok (.bytes b, rest) := by
  obtain ⟨_, hcs, hc⟩ := readHead_inv hb
  have hsplit : b = b.take ts ++ b.drop ts := (List.take_append_drop ts b).symm
  have hdl : (b.drop ts).length = cs := by simp only [List.length_drop]; omega
  simp only [decT]
  rcases hc with ⟨hk, hts, hcs1, x, tl, hbx, hx⟩ | ⟨hk, hhead, hts⟩ | ⟨hk, hhead, hts⟩
  · subst hk hts hcs1 hbx
    have : tl = [] := by simpa using hl
    subst this
    simp only [List.cons_append, List.nil_append]
    rw [readHead_byte x rest hx]
    simp
  · subst hk
    have hb2 : b ++ rest = encHead 0x80 0xb7 cs ++ (b.drop ts ++ rest) := by
      rw [← List.append_assoc, ← hhead, ← hsplit]
    rw [hb2, readHead_str cs _ hcs (by simp [hdl])]
    simp only
    obtain ⟨t1, t2⟩ := take_drop_head (encHead 0x80 0xb7 cs) (b.drop ts) cs rest hdl
    rw [t1, t2, ← hhead, ← hsplit]
  · subst hk
    have hb2 : b ++ rest = encHead 0xc0 0xf7 cs ++ (b.drop ts ++ rest) := by
      rw [← List.append_assoc, ← hhead, ← hsplit]
    rw [hb2, readHead_list cs _ hcs (by simp [hdl])]
    simp only
    obtain ⟨t1, t2⟩ := take_drop_head (encHead 0xc0 0xf7 cs) (b.drop ts) cs rest hdl
    rw [t1, t2, ← hhead, ← hsplit]

/-- the header of a list payload and the split of what follows it -/
theorem list_head (p rest : Bytes) (hp : p.length < 2 ^ 64) :
    ∃ ts, readHead (encListPayload p ++ rest) = .ok (.list, ts, p.length) ∧
      ((encListPayload p ++ rest).drop ts).take p.length = p ∧
      (encListPayload p ++ rest).drop (ts + p.length) = rest := by
  refine ⟨(encHead 0xc0 0xf7 p.length).length, ?_, ?_⟩
  · unfold encListPayload
    rw [List.append_assoc]
    exact readHead_list p.length (p ++ rest) hp (by simp)
  · unfold encListPayload
    rw [List.append_assoc]
    exact take_drop_head _ p _ rest rfl

/-- kind of the header of `encodeString b` is not `list` -/
theorem encString_head (b rest : Bytes) (hb : b.length < 2 ^ 64) :
    ∃ k ts cs, readHead (encString b ++ rest) = .ok (k, ts, cs) ∧ k ≠ .list := by
  by_cases h1 : b.length = 1 ∧ headLt128 b = true
  · obtain ⟨h1, h2⟩ := h1
    cases b with
    | nil => simp at h1
    | cons x xs =>
      cases xs with
      | cons _ _ => simp at h1
      | nil =>
        have hx : x.toNat < 0x80 := by simpa [headLt128] using h2
        rw [encString_byte x hx]
        exact ⟨_, _, _, readHead_byte x rest hx, by simp⟩
  · rw [encString_nonbyte b h1, List.append_assoc]
    exact ⟨_, _, _, readHead_str b.length (b ++ rest) hb (by simp), by simp⟩

/-- the statement of typed completeness at fuel `f` -/
def CompleteAt (f : Nat) : Prop :=
  (∀ ty v enc rest, WFV ty v → encT ty v = .ok enc → vfuel v + axtra ty ≤ f →
      decT f ty (enc ++ rest) = .ok (norm ty v, rest)) ∧
  (∀ e vs p, WFVs e vs → encElems e vs = .ok p → efuel vs ≤ f → decElems f e p = .ok (normL e vs)) ∧
  (∀ e vs p, WFVs e vs → encElems e vs = .ok p → efuel vs ≤ f → decArr f e vs.length p = .ok (normL e vs)) ∧
  (∀ fs vs p, WFF fs vs → encFields fs vs = .ok p → efuel vs ≤ f → decFields f fs p = .ok (normF fs vs))

theorem complete_zero : CompleteAt 0 := by
  refine ⟨?_, ?_, ?_, ?_⟩
  · intro ty v enc rest _ _ hf; have := vfuel_pos v; omega
  · intro e vs p _ _ hf; have := efuel_pos vs; omega
  · intro e vs p _ _ hf; have := efuel_pos vs; omega
  · intro fs vs p _ _ hf; have := efuel_pos vs; omega

/-- part A (one value) at fuel `f+1` from everything at fuel `f` -/
theorem complete_succ_A {f : Nat} (ih : CompleteAt f) :
    ∀ ty v enc rest, WFV ty v → encT ty v = .ok enc → vfuel v + axtra ty ≤ f + 1 →
      decT (f + 1) ty (enc ++ rest) = .ok (norm ty v, rest) := by
  obtain ⟨ihT, ihE, ihA, ihF⟩ := ih
  intro ty v enc rest hwf henc hf
  cases ty with
  | uint bits =>
    cases v with
    | num n =>
      simp only [WFV] at hwf
      simp only [encT, hwf.2, if_true, Except.ok.injEq] at henc
      subst henc
      simp only [decT, uintOf_complete bits n rest hwf.1 hwf.2, norm]
    | _ => simp [WFV] at hwf
  | big =>
    cases v with
    | num n =>
      simp only [WFV] at hwf
      simp only [encT, Except.ok.injEq] at henc
      subst henc
      simp only [decT, norm]
      by_cases h0 : n = 0
      · subst h0
        have : encBig 0 = encString [] := by simp [encBig, encString, encHead]
        rw [this, bytesOf_complete [] rest (by simp)]
        simp [bigOfContent]
      · simp only [encBig, h0, if_false]
        rw [bytesOf_complete _ rest hwf]
        simp only
        have hm := toBE_minimal n
        cases hb : toBE n with
        | nil =>
          have := toBE_length_pos h0
          rw [hb] at this; simp at this
        | cons b0 tl =>
          rw [hb] at hm
          have hb0 : ¬ b0.toNat = 0 := by simpa [Minimal] using hm
          simp only [bigOfContent, hb0, if_false]
          rw [← hb, beNat_toBE]
    | nil =>
      simp only [encT, Except.ok.injEq] at henc
      subst henc
      simp only [decT, norm]
      have : ([0x80] : Bytes) = encString [] := by simp [encString, encHead]
      rw [this, bytesOf_complete [] rest (by simp)]
      simp [bigOfContent]
    | _ => simp [WFV] at hwf
  | bool =>
    cases v with
    | bool b =>
      simp only [encT, Except.ok.injEq] at henc
      subst henc
      simp only [decT, norm]
      cases b with
      | true =>
        have : ([0x01] : Bytes) = encUint 1 := by simp [encUint]
        simp only [if_true, this]
        rw [uintOf_complete 8 1 rest (Or.inl rfl) (by decide)]
        simp
      | false =>
        have : ([0x80] : Bytes) = encUint 0 := by simp [encUint]
        simp only [Bool.false_eq_true, if_false, this]
        rw [uintOf_complete 8 0 rest (Or.inl rfl) (by decide)]
        simp
    | _ => simp [WFV] at hwf
  | str =>
    cases v with
    | bytes b =>
      simp only [WFV] at hwf
      simp only [encT, Except.ok.injEq] at henc
      subst henc
      simp only [decT, norm, bytesOf_complete b rest hwf]
    | _ => simp [WFV] at hwf
  | bytes =>
    cases v with
    | bytes b =>
      simp only [WFV] at hwf
      simp only [encT, Except.ok.injEq] at henc
      subst henc
      simp only [decT, norm, bytesOf_complete b rest hwf]
    | _ => simp [WFV] at hwf
  | barr n =>
    cases v with
    | bytes b =>
      simp only [WFV] at hwf
      obtain ⟨hlen, hn⟩ := hwf
      simp only [encT, hlen, if_true, Except.ok.injEq] at henc
      subst henc
      simp only [decT, norm]
      by_cases h1 : b.length = 1 ∧ headLt128 b = true
      · obtain ⟨h1, h2⟩ := h1
        cases b with
        | nil => simp at h1
        | cons x xs =>
          cases xs with
          | cons _ _ => simp at h1
          | nil =>
            have hx : x.toNat < 0x80 := by simpa [headLt128] using h2
            rw [encString_byte x hx]
            simp only [List.cons_append, List.nil_append]
            rw [readHead_byte x rest hx]
            have hn1 : n = 1 := by simpa using hlen.symm
            subst hn1
            simp
      · rw [encString_nonbyte b h1, List.append_assoc, readHead_str b.length (b ++ rest) (by omega) (by simp)]
        simp only
        obtain ⟨t1, t2⟩ := take_drop_head (encHead 0x80 0xb7 b.length) b b.length rest rfl
        rw [t1, t2]
        have c1 : ¬ n < b.length := by omega
        have c2 : ¬ n > b.length := by omega
        rw [if_neg c1, if_neg c2, if_neg h1]
    | _ => simp [WFV] at hwf
  | raw =>
    cases v with
    | bytes b =>
      simp only [WFV] at hwf
      obtain ⟨k, ts, cs, hk, hl⟩ := hwf
      simp only [encT, Except.ok.injEq] at henc
      subst henc
      rw [decT_raw_complete f b rest hk hl]
      simp [norm]
    | _ => simp [WFV] at hwf
  | any =>
    simp only [axtra] at hf
    cases v with
    | bytes b =>
      simp only [WFV] at hwf
      simp only [encT, Except.ok.injEq] at henc
      subst henc
      obtain ⟨k, ts, cs, hk, hne⟩ := encString_head b rest hwf
      simp only [decT, hk]
      have hb := ihT .bytes (.bytes b) (encString b) rest (by simpa [WFV] using hwf) (by simp [encT])
        (by simp only [vfuel, axtra] at hf ⊢; omega)
      cases k with
      | list => exact absurd rfl hne
      | byte => simpa [norm] using hb
      | string => simpa [norm] using hb
    | list vs =>
      simp only [WFV] at hwf
      have hb := ihT (.slice .any) (.list vs) enc rest (by simpa [WFV] using hwf) (by simpa [encT] using henc)
        (by simp only [axtra] at hf ⊢; omega)
      cases hp : encElems .any vs with
      | error e => simp [encT, hp] at henc
      | ok p =>
        simp only [encT, hp, Except.ok.injEq] at henc
        subst henc
        obtain ⟨ts, hk, _, _⟩ := list_head p rest (hwf.2 p hp)
        simp only [decT, hk]
        simpa [norm] using hb
    | nil =>
      simp only [encT, Except.ok.injEq] at henc
      subst henc
      have hb := ihT (.slice .any) (.list []) [0xc0] rest (by simp [WFV, WFVs, encElems])
        (by simp [encT, encElems, encListPayload, encHead]) (by simp only [vfuel, efuel, axtra] at hf ⊢; omega)
      have hk : readHead ([0xc0] ++ rest) = .ok (.list, 1, 0) := by
        have := readHead_list 0 rest (by omega) (by omega)
        simpa [encHead] using this
      simp only [decT, hk]
      simpa [norm, normL] using hb
    | _ => simp [WFV] at hwf
  | slice e =>
    cases v with
    | list vs =>
      simp only [WFV] at hwf
      cases hp : encElems e vs with
      | error er => simp [encT, hp] at henc
      | ok p =>
        simp only [encT, hp, Except.ok.injEq] at henc
        subst henc
        obtain ⟨ts, hk, hc, hr⟩ := list_head p rest (hwf.2 p hp)
        simp only [decT, hk, hc, hr]
        rw [ihE e vs p hwf.1 hp (by simp only [vfuel, axtra] at hf; omega)]
        simp [norm]
    | _ => simp [WFV] at hwf
  | arr n e =>
    cases v with
    | list vs =>
      simp only [WFV] at hwf
      obtain ⟨hlen, hw, hpay⟩ := hwf
      cases hp : encElems e vs with
      | error er => simp [encT, hp, hlen] at henc
      | ok p =>
        simp only [encT, hp, hlen, if_true, Except.ok.injEq] at henc
        subst henc
        obtain ⟨ts, hk, hc, hr⟩ := list_head p rest (hpay p hp)
        simp only [decT, hk, hc, hr]
        rw [← hlen, ihA e vs p hw hp (by simp only [vfuel, axtra] at hf; omega)]
        simp [norm]
    | _ => simp [WFV] at hwf
  | ptr e =>
    cases v with
    | some v' =>
      simp only [WFV] at hwf
      simp only [encT] at henc
      simp only [decT]
      rw [ihT e v' enc rest hwf henc (by simp only [vfuel, axtra] at hf; cases e <;> simp only [axtra] <;> omega)]
      simp [norm]
    | nil =>
      simp only [WFV] at hwf
      simp only [encT, Except.ok.injEq] at henc
      subst henc
      simp only [decT, norm]
      have hf' : 11 ≤ f := by simp only [vfuel, axtra] at hf; omega
      cases e with
      | uint bits =>
        have hw := hwf.2 bits rfl
        have hpos : 0 < 2 ^ bits := Nat.pow_pos (by omega)
        have := ihT (.uint bits) (.num 0) [0x80] rest (by simp only [WFV]; exact ⟨hw, hpos⟩)
          (by simp only [encT, hpos, if_true, encUint]) (by simp [vfuel, axtra]; omega)
        simp only [nilEnc, zeroVal]; rw [this]; simp [norm]
      | big =>
        have := ihT .big (.num 0) [0x80] rest (by simp [WFV, toBE_zero]) (by simp [encT, encBig]) (by simp [vfuel, axtra]; omega)
        simp only [nilEnc, zeroVal]; rw [this]; simp [norm]
      | bool =>
        have := ihT .bool (.bool false) [0x80] rest (by simp [WFV]) (by simp [encT]) (by simp [vfuel, axtra]; omega)
        simp only [nilEnc, zeroVal]; rw [this]; simp [norm]
      | str =>
        have := ihT .str (.bytes []) [0x80] rest (by simp [WFV]) (by simp [encT, encString, encHead]) (by simp [vfuel, axtra]; omega)
        simp only [nilEnc, zeroVal]; rw [this]; simp [norm]
      | bytes =>
        have := ihT .bytes (.bytes []) [0x80] rest (by simp [WFV]) (by simp [encT, encString, encHead]) (by simp [vfuel, axtra]; omega)
        simp only [nilEnc, zeroVal]; rw [this]; simp [norm]
      | slice e' =>
        have := ihT (.slice e') (.list []) [0xc0] rest (by simp [WFV, WFVs, encElems])
          (by simp [encT, encElems, encListPayload, encHead]) (by simp [vfuel, efuel, axtra]; omega)
        simp only [nilEnc, zeroVal]; rw [this]; simp [norm, normL]
      | any =>
        have := ihT .any (.list []) [0xc0] rest (by simp [WFV, WFVs, encElems])
          (by simp [encT, encElems, encListPayload, encHead]) (by simp [vfuel, efuel, axtra]; omega)
        simp only [nilEnc, zeroVal]; rw [this]; simp [norm, normL]
      | _ => simp [nilDecodable] at hwf
    | _ => simp [WFV] at hwf
  | struct fs =>
    cases v with
    | list vs =>
      simp only [WFV] at hwf
      cases hp : encFields fs vs with
      | error er => simp [encT, hp] at henc
      | ok p =>
        simp only [encT, hp, Except.ok.injEq] at henc
        subst henc
        obtain ⟨ts, hk, hc, hr⟩ := list_head p rest (hwf.2 p hp)
        simp only [decT, hk, hc, hr]
        rw [ihF fs vs p hwf.1 hp (by simp only [vfuel, axtra] at hf; omega)]
        simp [norm]
    | _ => simp [WFV] at hwf

theorem complete_succ_B {f : Nat} (ih : CompleteAt f) :
    ∀ e vs p, WFVs e vs → encElems e vs = .ok p → efuel vs ≤ f + 1 → decElems (f + 1) e p = .ok (normL e vs) := by
  obtain ⟨ihT, ihE, _, _⟩ := ih
  intro e vs p hwf henc hf
  cases vs with
  | nil =>
    simp only [encElems, Except.ok.injEq] at henc
    subst henc
    simp [decElems, normL]
  | cons v vs' =>
    simp only [WFVs] at hwf
    simp only [efuel] at hf
    cases ha : encT e v with
    | error er => simp [encElems, ha] at henc
    | ok a =>
      cases hp : encElems e vs' with
      | error er => simp [encElems, ha, hp] at henc
      | ok p' =>
        simp only [encElems, ha, hp, Except.ok.injEq] at henc
        subst henc
        have h1 := ihT e v a p' hwf.1 ha (by cases e <;> simp only [axtra] <;> omega)
        have h2 := ihE e vs' p' hwf.2 hp (by omega)
        cases hc : a ++ p' with
        | nil => rw [hc] at h1; exact absurd h1 decT_nil_not_ok
        | cons x xs =>
          simp only [decElems]
          rw [← hc, h1]
          simp only
          rw [h2]
          simp [normL]

theorem complete_succ_C {f : Nat} (ih : CompleteAt f) :
    ∀ e vs p, WFVs e vs → encElems e vs = .ok p → efuel vs ≤ f + 1 → decArr (f + 1) e vs.length p = .ok (normL e vs) := by
  obtain ⟨ihT, _, ihA, _⟩ := ih
  intro e vs p hwf henc hf
  cases vs with
  | nil =>
    simp only [encElems, Except.ok.injEq] at henc
    subst henc
    simp [decArr, normL]
  | cons v vs' =>
    simp only [WFVs] at hwf
    simp only [efuel] at hf
    cases ha : encT e v with
    | error er => simp [encElems, ha] at henc
    | ok a =>
      cases hp : encElems e vs' with
      | error er => simp [encElems, ha, hp] at henc
      | ok p' =>
        simp only [encElems, ha, hp, Except.ok.injEq] at henc
        subst henc
        have h1 := ihT e v a p' hwf.1 ha (by cases e <;> simp only [axtra] <;> omega)
        have h2 := ihA e vs' p' hwf.2 hp (by omega)
        cases hc : a ++ p' with
        | nil => rw [hc] at h1; exact absurd h1 decT_nil_not_ok
        | cons x xs =>
          simp only [List.length_cons, decArr]
          rw [← hc, h1]
          simp only
          rw [h2]
          simp [normL]

/-- an accepted header with empty content that is not a single byte is `80` or `c0` -/
theorem empty_head {c : Bytes} {k : Kind} {ts cs : Nat} (h : readHead c = .ok (k, ts, cs))
    (h0 : cs = 0) (hk : k ≠ .byte) : ts = 1 ∧ (c.take 1 = [0x80] ∨ c.take 1 = [0xc0]) := by
  subst h0
  obtain ⟨hl, _, hc⟩ := readHead_inv h
  rcases hc with ⟨hk1, _⟩ | ⟨_, hhead, hts⟩ | ⟨_, hhead, hts⟩
  · exact absurd hk1 hk
  · have : ts = 1 := by
      have := congrArg List.length hhead
      simp [encHead] at this; omega
    subst this
    exact ⟨rfl, Or.inl (by simpa [encHead] using hhead)⟩
  · have : ts = 1 := by
      have := congrArg List.length hhead
      simp [encHead] at this; omega
    subst this
    exact ⟨rfl, Or.inr (by simpa [encHead] using hhead)⟩

theorem complete_succ_D {f : Nat} (ih : CompleteAt f) :
    ∀ fs vs p, WFF fs vs → encFields fs vs = .ok p → efuel vs ≤ f + 1 → decFields (f + 1) fs p = .ok (normF fs vs) := by
  obtain ⟨ihT, ihE, _, ihF⟩ := ih
  intro fs vs p hwf henc hf
  cases fs with
  | nil =>
    cases vs with
    | nil =>
      simp only [encFields, Except.ok.injEq] at henc
      subst henc
      simp [decFields, normF]
    | cons _ _ => simp [WFF] at hwf
  | cons fld fs' =>
    obtain ⟨tag, ty⟩ := fld
    cases tag with
    | none =>
      cases vs with
      | nil => simp [WFF] at hwf
      | cons v vs' =>
        simp only [WFF] at hwf
        simp only [efuel] at hf
        cases ha : encT ty v with
        | error er => simp [encFields, ha] at henc
        | ok a =>
          cases hp : encFields fs' vs' with
          | error er => simp [encFields, ha, hp] at henc
          | ok p' =>
            simp only [encFields, ha, hp, Except.ok.injEq] at henc
            subst henc
            have h1 := ihT ty v a p' hwf.1 ha (by cases ty <;> simp only [axtra] <;> omega)
            have h2 := ihF fs' vs' p' hwf.2 hp (by omega)
            cases hc : a ++ p' with
            | nil => rw [hc] at h1; exact absurd h1 decT_nil_not_ok
            | cons x xs =>
              simp only [decFields]
              rw [← hc, h1]
              simp only
              rw [h2]
              simp [normF]
    | tail =>
      cases ty with
      | slice e =>
        cases fs' with
        | nil =>
          cases vs with
          | nil => simp [WFF] at hwf
          | cons v vs' =>
            cases vs' with
            | cons _ _ => cases v <;> simp [WFF] at hwf
            | nil =>
              cases v with
              | list ws =>
                simp only [WFF] at hwf
                simp only [encFields] at henc
                simp only [efuel, vfuel] at hf
                simp only [decFields]
                rw [ihE e ws p hwf henc (by omega)]
                simp [normF]
              | _ => simp [WFF] at hwf
        | cons _ _ => cases vs <;> simp [WFF] at hwf
      | _ => cases vs <;> simp [WFF] at hwf
    | nilOK =>
      cases ty with
      | ptr e =>
        cases vs with
        | nil => simp [WFF] at hwf
        | cons v vs' =>
          simp only [efuel] at hf
          cases v with
          | nil =>
            simp only [WFF] at hwf
            cases hp : encFields fs' vs' with
            | error er => simp [encFields, encT, hp] at henc
            | ok p' =>
              simp only [encFields, encT, hp, Except.ok.injEq] at henc
              subst henc
              have h2 := ihF fs' vs' p' hwf.2 hp (by omega)
              rcases hwf.1 with he | he
              · rw [he]
                have hk : readHead ([0x80] ++ p') = .ok (.string, 1, 0) := by
                  have := readHead_str 0 p' (by omega) (by omega)
                  simpa [encHead] using this
                simp only [List.cons_append, List.nil_append] at hk ⊢
                simp only [decFields, hk]
                simp [h2, normF]
              · rw [he]
                have hk : readHead ([0xc0] ++ p') = .ok (.list, 1, 0) := by
                  have := readHead_list 0 p' (by omega) (by omega)
                  simpa [encHead] using this
                simp only [List.cons_append, List.nil_append] at hk ⊢
                simp only [decFields, hk]
                simp [h2, normF]
          | some v' =>
            simp only [WFF] at hwf
            obtain ⟨hw, hne, hwr⟩ := hwf
            simp only [vfuel] at hf
            cases ha : encT e v' with
            | error er => simp [encFields, encT, ha] at henc
            | ok a =>
              cases hp : encFields fs' vs' with
              | error er => simp [encFields, encT, ha, hp] at henc
              | ok p' =>
                simp only [encFields, encT, ha, hp, Except.ok.injEq] at henc
                subst henc
                have h1 := ihT e v' a p' hw ha (by cases e <;> simp only [axtra] <;> omega)
                have h2 := ihF fs' vs' p' hwr hp (by omega)
                obtain ⟨k, ts, cs, hk, hrest⟩ := decT_consumes _ _ _ _ _ h1
                cases hc : a ++ p' with
                | nil => rw [hc] at h1; exact absurd h1 decT_nil_not_ok
                | cons x xs =>
                  simp only [decFields]
                  rw [← hc, hk]
                  simp only
                  have hcond : ¬ (cs = 0 ∧ k ≠ .byte) := by
                    intro ⟨h0, hkb⟩
                    obtain ⟨hts, htk⟩ := empty_head hk h0 hkb
                    subst h0 hts
                    have hlen : a.length = 1 := by
                      have := congrArg List.length hrest
                      simp only [List.length_drop, List.length_append] at this
                      have hpos := readHead_pos hk
                      simp only [List.length_append] at hpos
                      omega
                    cases a with
                    | nil => simp at hlen
                    | cons y ys =>
                      have : ys = [] := by simpa using hlen
                      subst this
                      have hne' := hne [y] ha
                      rcases htk with h | h
                      · simp at h; exact hne'.1 (by rw [h])
                      · simp at h; exact hne'.2 (by rw [h])
                  rw [if_neg hcond, h1]
                  simp only
                  rw [h2]
                  simp [normF]
          | _ => simp [WFF] at hwf
      | _ => cases vs <;> simp [WFF] at hwf

/-- typed completeness at every fuel -/
theorem typed_complete : ∀ f, CompleteAt f := by
  intro f
  induction f with
  | zero => exact complete_zero
  | succ f ih => exact ⟨complete_succ_A ih, complete_succ_B ih, complete_succ_C ih, complete_succ_D ih⟩

end Rangers.RLP
