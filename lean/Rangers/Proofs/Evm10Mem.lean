import Rangers.Proofs.Evm10NoPanic
/-!
C10 — contents of memory after the memory-writing functions, the 32-byte big-endian
round trip, zero-filled `getData`, PUSH right-padding.
-/
namespace Rangers.Proofs.Evm10
open Rangers Rangers.Model.Evm10 Rangers.Model.Evm10.U256

/-! ### splice: the shape every memory write has -/

/-- overwrite `m[off .. off+v.length)` with `v` -/
def splice (m : Bytes) (off : Nat) (v : Bytes) : Bytes := m.take off ++ v ++ m.drop (off + v.length)

theorem splice_length (m : Bytes) (off : Nat) (v : Bytes) (h : off + v.length ≤ m.length) :
    (splice m off v).length = m.length := by
  simp [splice]; omega

theorem splice_getD (m : Bytes) (off : Nat) (v : Bytes) (h : off + v.length ≤ m.length) (j : Nat) :
    (splice m off v).getD j 0 =
      if off ≤ j ∧ j < off + v.length then v.getD (j - off) 0 else m.getD j 0 := by
  unfold splice
  simp only [List.getD_eq_getElem?_getD]
  have hto : (m.take off).length = off := by simp; omega
  by_cases h1 : j < off
  · have : ¬ (off ≤ j ∧ j < off + v.length) := by omega
    rw [if_neg this]
    rw [List.append_assoc, List.getElem?_append_left (by omega), List.getElem?_take_of_lt h1]
  · by_cases h2 : j < off + v.length
    · have : (off ≤ j ∧ j < off + v.length) := by omega
      rw [if_pos this]
      rw [List.getElem?_append_left (by simp; omega), List.getElem?_append_right (by omega), hto]
    · have : ¬ (off ≤ j ∧ j < off + v.length) := by omega
      rw [if_neg this]
      rw [List.getElem?_append_right (by simp; omega)]
      simp only [List.length_append, hto, List.getElem?_drop]
      congr 2; omega

/-! ### big-endian round trip -/

theorem beToNat_append_one (bs : Bytes) (b : UInt8) :
    beToNat (bs ++ [b]) = beToNat bs * 256 + b.toNat := by
  simp [beToNat, List.foldl_append]

theorem beToNat_bytes (k : Nat) : ∀ n : Nat,
    beToNat ((List.range k).map (fun i => UInt8.ofNat ((n >>> (8 * (k - 1 - i))) % 256))) =
      n % 2 ^ (8 * k) := by
  induction k with
  | zero => intro n; simp [beToNat, Nat.mod_one]
  | succ k ih =>
    intro n
    rw [List.range_succ, List.map_append, List.map_singleton, beToNat_append_one]
    have hmap : (List.range k).map (fun i => UInt8.ofNat ((n >>> (8 * (k + 1 - 1 - i))) % 256)) =
        (List.range k).map (fun i => UInt8.ofNat (((n >>> 8) >>> (8 * (k - 1 - i))) % 256)) := by
      apply List.map_congr_left
      intro i hi
      have hi' : i < k := List.mem_range.1 hi
      rw [← Nat.shiftRight_add]
      congr 3; omega
    rw [hmap, ih (n >>> 8)]
    have h0 : (8 * (k + 1 - 1 - k)) = 0 := by omega
    rw [h0, Nat.shiftRight_zero]
    have hb : (UInt8.ofNat (n % 256)).toNat = n % 256 := by
      simp [UInt8.toNat_ofNat']
    rw [hb, Nat.shiftRight_eq_div_pow]
    have : 2 ^ (8 * (k + 1)) = 2 ^ 8 * 2 ^ (8 * k) := by rw [← Nat.pow_add]; congr 1; omega
    rw [this, Nat.mod_mul]
    omega

/-- `SetBytes(Bytes32(v)) = v` -/
theorem setBytes_toBytes32 (v : Word) : setBytes (toBytes32 v) = v := by
  unfold setBytes toBytes32 byteAt
  have := beToNat_bytes 32 v.toNat
  simp only [show 32 - 1 = 31 by rfl, show 8 * 32 = 256 by rfl] at this
  rw [this]
  apply BitVec.eq_of_toNat_eq
  simp [ofNat, Nat.mod_eq_of_lt v.isLt]

theorem toBytes32_length (v : Word) : (toBytes32 v).length = 32 := by simp [toBytes32]


/-! ### each memory write is a splice -/

theorem set32_eq_splice {m m' : Bytes} {off : Nat} {v : Word} (h : Mem.set32 m off v = some m') :
    m' = splice m off (toBytes32 v) ∧ off + 32 ≤ m.length := by
  unfold Mem.set32 at h
  split at h
  · simp at h
  · simp only [Option.some.injEq] at h
    refine ⟨?_, by omega⟩
    rw [← h, splice, toBytes32_length]

theorem setByte_eq_splice {m m' : Bytes} {off : Nat} {b : UInt8} (h : Mem.setByte m off b = some m') :
    m' = splice m off [b] ∧ off + 1 ≤ m.length := by
  unfold Mem.setByte at h
  split at h
  · simp only [Option.some.injEq] at h
    exact ⟨by rw [← h]; rfl, by omega⟩
  · simp at h

theorem set_eq_splice {m m' : Bytes} {off size : Nat} {value : Bytes}
    (h : Mem.set m off size value = some m') (hs : size ≠ 0) :
    m' = splice m off (value.take size) ∧ off + size ≤ m.length := by
  unfold Mem.set at h
  simp only [hs, if_false] at h
  split at h
  · simp at h
  · simp only [Option.some.injEq] at h
    exact ⟨by rw [← h]; rfl, by omega⟩

theorem set_zero {m : Bytes} {off : Nat} {value : Bytes} : Mem.set m off 0 value = some m := by
  simp [Mem.set]

theorem copy_eq_splice {m m' : Bytes} {dst src len : Nat} (h : Mem.copy m dst src len = some m')
    (hl : len ≠ 0) (hd : dst + len ≤ m.length) :
    m' = splice m dst ((m.drop src).take len) ∧ src + len ≤ m.length := by
  unfold Mem.copy at h
  simp only [hl, if_false] at h
  split at h
  · simp at h
  · rename_i hb
    simp only [Option.some.injEq] at h
    have hlen : ((m.drop src).take len).length = len := by simp; omega
    have htk : ((m.drop src).take len).take (m.length - dst) = (m.drop src).take len := by
      apply List.take_of_length_le; rw [hlen]; omega
    rw [htk] at h
    exact ⟨by rw [← h]; rfl, by omega⟩

/-! ### getData : zero fill -/

theorem rightPad_length (bs : Bytes) (l : Nat) (h : bs.length ≤ l) : (rightPad bs l).length = l := by
  unfold rightPad
  split
  · omega
  · simp; omega

theorem getD_oob (l : Bytes) (j : Nat) (h : l.length ≤ j) : l.getD j 0 = 0 := by
  simp only [List.getD_eq_getElem?_getD]
  rw [List.getElem?_eq_none h]; rfl

theorem ite_getD_oob (c : Prop) [Decidable c] (l : Bytes) (j : Nat) (h : l.length ≤ j) :
    (if c then l.getD j 0 else 0) = 0 := by
  split
  · exact getD_oob l j h
  · rfl

theorem getD_take_drop (l : Bytes) (s k i : Nat) :
    ((l.drop s).take k).getD i 0 = if i < k then l.getD (s + i) 0 else 0 := by
  simp only [List.getD_eq_getElem?_getD, List.getElem?_take, List.getElem?_drop]
  split <;> rfl

theorem rightPad_getD (bs : Bytes) (l i : Nat) : (rightPad bs l).getD i 0 = bs.getD i 0 := by
  unfold rightPad
  split
  · rfl
  · by_cases hi : i < bs.length
    · simp only [List.getD_eq_getElem?_getD]
      rw [List.getElem?_append_left hi]
    · rw [getD_oob bs i (by omega)]
      simp only [List.getD_eq_getElem?_getD]
      rw [List.getElem?_append_right (by omega)]
      simp only [List.getElem?_replicate]
      split <;> rfl

theorem getData_length (data : Bytes) (start size : Nat) : (getData data start size).length = size := by
  unfold getData
  apply rightPad_length
  simp only [List.length_take, List.length_drop]
  split <;> split <;> omega

/-- byte i of `getData data start size` is `data[start+i]`, zero beyond the end of `data` -/
theorem getData_getD (data : Bytes) (start size i : Nat) (hi : i < size) :
    (getData data start size).getD i 0 = data.getD (start + i) 0 := by
  unfold getData
  rw [rightPad_getD, getD_take_drop]
  by_cases hs : start > data.length
  · simp only [hs, if_true]
    rw [getD_oob data (start + i) (by omega)]
    apply ite_getD_oob; omega
  · simp only [hs, if_false]
    by_cases hin : start + i < data.length
    · have : i < (if start + size > data.length then data.length else start + size) - start := by
        split <;> omega
      rw [if_pos this]
    · rw [getD_oob data (start + i) (by omega)]
      simp

/-! ### PUSH data: right-padded with zeros -/

/-- the n bytes PUSHn pushes: the code bytes after the opcode, zero beyond the end of the code -/
def pushBytes (code : Bytes) (pc n : Nat) : Bytes :=
  (List.range n).map (fun i => code.getD (pc + 1 + i) 0)

theorem beToNat_eq_of_getD (a b : Bytes) (hl : a.length = b.length)
    (h : ∀ i, a.getD i 0 = b.getD i 0) : a = b := by
  apply List.ext_getElem hl
  intro i h1 h2
  have := h i
  simp only [List.getD_eq_getElem?_getD, List.getElem?_eq_getElem h1, List.getElem?_eq_getElem h2,
    Option.getD_some] at this
  exact this

theorem pushValue_eq (code : Bytes) (pc n : Nat) :
    pushValue code pc n = setBytes (pushBytes code pc n) := by
  unfold pushValue
  simp only
  congr 1
  apply beToNat_eq_of_getD
  · rw [rightPad_length]
    · simp [pushBytes]
    · simp only [List.length_take, List.length_drop]
      split <;> split <;> omega
  · intro i
    rw [rightPad_getD, getD_take_drop]
    unfold pushBytes
    simp only [List.getD_eq_getElem?_getD, List.getElem?_map, List.getElem?_range]
    by_cases hin : i < n
    · simp only [List.getElem?_range hin, Option.map_some, Option.getD_some]
      by_cases hc : pc + 1 + i < code.length
      · have h1 : pc + 1 < code.length := by omega
        simp only [h1, if_true]
        have : i < (if pc + 1 + n < code.length then pc + 1 + n else code.length) - (pc + 1) := by
          split <;> omega
        rw [if_pos this]
      · rw [List.getElem?_eq_none (l := code) (i := pc + 1 + i) (by omega)]
        have := ite_getD_oob
          (i < (if (if pc + 1 < code.length then pc + 1 else code.length) + n < code.length
                then (if pc + 1 < code.length then pc + 1 else code.length) + n else code.length) -
               (if pc + 1 < code.length then pc + 1 else code.length))
          code ((if pc + 1 < code.length then pc + 1 else code.length) + i) (by split <;> omega)
        simpa [List.getD_eq_getElem?_getD] using this
    · have : (List.range n)[i]? = none := List.getElem?_eq_none (by simp; omega)
      simp only [this, Option.map_none, Option.getD_none]
      have hk : ¬ i < (if (if pc + 1 < code.length then pc + 1 else code.length) + n < code.length
                then (if pc + 1 < code.length then pc + 1 else code.length) + n else code.length) -
               (if pc + 1 < code.length then pc + 1 else code.length) := by
        split <;> split <;> omega
      rw [if_neg hk]


/-! ### lengths are preserved by every memory write -/

theorem set32_length {m m' : Bytes} {off : Nat} {v : Word} (h : Mem.set32 m off v = some m') :
    m'.length = m.length := by
  obtain ⟨e, hb⟩ := set32_eq_splice h
  rw [e, splice_length]; rw [toBytes32_length]; exact hb

theorem setByte_length {m m' : Bytes} {off : Nat} {b : UInt8} (h : Mem.setByte m off b = some m') :
    m'.length = m.length := by
  obtain ⟨e, hb⟩ := setByte_eq_splice h
  rw [e, splice_length]; simpa using hb

theorem memSet_length {m m' : Bytes} {off size : Nat} {v : Bytes} (h : Mem.set m off size v = some m') :
    m'.length = m.length := by
  by_cases hs : size = 0
  · subst hs; rw [set_zero] at h; simp at h; rw [h]
  · obtain ⟨e, hb⟩ := set_eq_splice h hs
    rw [e, splice_length]
    simp only [List.length_take]; omega

theorem copy_length {m m' : Bytes} {dst src len : Nat} (h : Mem.copy m dst src len = some m') :
    m'.length = m.length := by
  unfold Mem.copy at h
  split at h
  · simp at h; rw [h]
  · split at h
    · simp at h
    · simp only [Option.some.injEq] at h
      rw [← h]
      have := splice_length m dst (((m.drop src).take len).take (m.length - dst))
        (by simp only [List.length_take, List.length_drop]; omega)
      exact this

theorem execOp_mem_length {H : Bytes → Bytes} {e : Exec} {g f1 : Frame} {res : Bytes}
    (h : execOp H e g = .ok f1 res) : f1.mem.length = g.mem.length := by
  cases e <;> simp only [execOp, bin, un, pushW] at h
  all_goals (repeat' split at h)
  all_goals (first
    | (simp at h; done)
    | (simp only [ExecResult.ok.injEq] at h; obtain ⟨h1, -⟩ := h; subst h1
       first
         | rfl
         | exact memSet_length (by assumption)
         | exact set32_length (by assumption)
         | exact setByte_length (by assumption)
         | exact copy_length (by assumption)))

end Rangers.Proofs.Evm10
