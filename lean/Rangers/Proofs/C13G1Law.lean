import Rangers.Proofs.Bls14Curve
import Mathlib.Tactic.Module
import Rangers.Proofs.C13ModArith
import Rangers.Model.G1
import Rangers.Generated.Bn256Consts
/-!
`Model/G1.lean` at the parameters of the code (`bnCurve`) is the elliptic-curve group law.

The C14 builder proved (`Proofs/Bls14Curve.lean`) that *its* affine model `Bls14.Pt` is Mathlib's
`WeierstrassCurve.Affine.Point` group of `y² = x³ + 3` over `ZMod p`, for prime `p`. Here the C13
model (different inverse: extended Euclid instead of Fermat; different scalar loop: `testBit` instead
of a bit list; plain `=` instead of `% p ==`) is shown to compute the same points on reduced
inputs, and its scalar multiplication is proved directly.
-/
namespace Rangers.Proofs.C13G1
open Rangers Rangers.Model Rangers.Model.Bls14 Rangers.Proofs.Bls14 Rangers.Proofs.C13 Rangers.Generated

/-- The curve the driver `drv_c13` runs `Model.G1` on. -/
def bnCurve : G1.Curve := ⟨Bn256.fieldP, Bn256.curveB⟩

/-- The two translators (c13facts, c14facts) read the same constants. -/
theorem consts_agree : Bn256.fieldP = P ∧ Bn256.curveB = B ∧ Bn256.order = R := ⟨rfl, rfl, rfl⟩

theorem fadd_eq (a b : Nat) : G1.fadd bnCurve a b = fadd a b := rfl
theorem fsub_eq (a b : Nat) : G1.fsub bnCurve a b = fsub a b := rfl
theorem fmul_eq (a b : Nat) : G1.fmul bnCurve a b = fmul a b := rfl

variable [hp : Fact (Nat.Prime P)]

/-- Extended-Euclid inverse = Fermat inverse (both are the field inverse below `p`, `0 ↦ 0`). -/
theorem finv_eq (a : Nat) : G1.finv bnCurve a = finv a := by
  have hlt : finv a < P := powMod_lt _ _
  have hc := cast_finv a
  unfold G1.finv
  show (match ModArith.modInverse (a % P) P with | some v => v | none => 0) = finv a
  by_cases h0 : ((a % P : Nat) : ZMod P) = 0
  · rw [modInverse_none (p := P) _ h0]
    have ha : (a : F) = 0 := by rwa [ZMod.natCast_mod] at h0
    rw [ha, inv_zero] at hc
    have : ((finv a : Nat) : F) = ((0 : Nat) : F) := hc.trans Nat.cast_zero.symm
    exact (natCast_inj_of_lt hlt P_pos this).symm
  · obtain ⟨v, hv, hvc, hvl⟩ := modInverse_some (p := P) _ h0
    rw [hv]
    rw [ZMod.natCast_mod] at hvc
    exact natCast_inj_of_lt hvl hlt (by rw [hvc, hc])

/-- Reading a C13 point as a C14 point. -/
def φ : G1.Point → Pt
  | .inf => .inf
  | .aff x y => .aff x y

/-- Valid = on the curve with reduced coordinates (what the Go code holds after a successful decode). -/
def Valid1 (q : G1.Point) : Prop := Valid (φ q)

theorem φ_double (q : G1.Point) (hq : (φ q).reduced = true) : φ (G1.double bnCurve q) = Pt.double (φ q) := by
  cases q with
  | inf => rfl
  | aff x y =>
    simp only [φ, Pt.reduced, Bool.and_eq_true, decide_eq_true_eq] at hq
    simp only [G1.double, Pt.double, φ]
    by_cases h0 : y = 0
    · subst h0
      have : (0 % P == 0) = true := by rw [Nat.zero_mod]; rfl
      rw [if_pos rfl, if_pos this]
    · have : (y % P == 0) = false := by
        rw [Nat.mod_eq_of_lt hq.2]; exact beq_eq_false_iff_ne.2 h0
      rw [if_neg h0, this]
      simp only [Bool.false_eq_true, if_false, fmul_eq, fsub_eq, finv_eq]
      -- x + x  vs  2 * x
      have h2 : fsub (fsub (fmul (fmul (fmul 3 (fmul x x)) (finv (fmul 2 y))) (fmul (fmul 3 (fmul x x)) (finv (fmul 2 y)))) x) x =
          fsub (fmul (fmul (fmul 3 (fmul x x)) (finv (fmul 2 y))) (fmul (fmul 3 (fmul x x)) (finv (fmul 2 y)))) (fmul 2 x) := by
        apply natCast_inj_of_lt (fsub_lt _ _) (fsub_lt _ _)
        simp only [cast_fsub, cast_fmul]; push_cast; ring
      rw [h2]

theorem φ_add (a b : G1.Point) (ha : (φ a).reduced = true) (hb : (φ b).reduced = true) :
    φ (G1.add bnCurve a b) = Pt.add (φ a) (φ b) := by
  cases a with
  | inf => cases b <;> rfl
  | aff x1 y1 =>
    cases b with
    | inf => rfl
    | aff x2 y2 =>
      simp only [φ, Pt.reduced, Bool.and_eq_true, decide_eq_true_eq] at ha hb
      simp only [G1.add, Pt.add, φ]
      rw [Nat.mod_eq_of_lt ha.1, Nat.mod_eq_of_lt ha.2, Nat.mod_eq_of_lt hb.1, Nat.mod_eq_of_lt hb.2]
      by_cases hx : x1 = x2
      · have hxb : (x1 == x2) = true := beq_iff_eq.2 hx
        rw [if_pos hx, if_pos hxb]
        by_cases hy : y1 = y2
        · have hyb : (y1 == y2) = true := beq_iff_eq.2 hy
          rw [if_pos hy, if_pos hyb]
          exact φ_double (.aff x1 y1) (by simp [φ, Pt.reduced, ha.1, ha.2])
        · have hyb : (y1 == y2) = false := beq_eq_false_iff_ne.2 hy
          rw [if_neg hy, hyb]; rfl
      · have hxb : (x1 == x2) = false := beq_eq_false_iff_ne.2 hx
        rw [if_neg hx, hxb]
        simp only [Bool.false_eq_true, if_false, fmul_eq, fsub_eq, finv_eq, φ]

/-- Meaning of a C13 model point in Mathlib's group of the curve. -/
noncomputable def μ (q : G1.Point) : W.Point := ι (φ q)

theorem valid_inf : Valid1 .inf := ⟨rfl, rfl⟩

theorem μ_inf : μ .inf = 0 := rfl

theorem g1_add_law (a b : G1.Point) (ha : Valid1 a) (hb : Valid1 b) :
    Valid1 (G1.add bnCurve a b) ∧ μ (G1.add bnCurve a b) = μ a + μ b := by
  unfold Valid1 μ
  rw [φ_add a b ha.2 hb.2]
  exact ι_add (φ a) (φ b) ha hb

theorem g1_double_law (a : G1.Point) (ha : Valid1 a) :
    Valid1 (G1.double bnCurve a) ∧ μ (G1.double bnCurve a) = μ a + μ a := by
  have h := g1_add_law a a ha ha
  have : G1.add bnCurve a a = G1.double bnCurve a := by
    cases a with
    | inf => rfl
    | aff x y => simp [G1.add]
  rwa [this] at h

theorem μ_inj (a b : G1.Point) (ha : Valid1 a) (hb : Valid1 b) (h : μ a = μ b) : a = b := by
  have := ι_inj (φ a) (φ b) ha hb h
  cases a <;> cases b <;> simp_all [φ]

theorem mod_two_pow_succ' (k i : Nat) :
    k % 2 ^ (i + 1) = 2 ^ i * (if k.testBit i then 1 else 0) + k % 2 ^ i := by
  rw [pow_succ, Nat.mod_mul, Nat.testBit_eq_decide_div_mod_eq]
  have h2 : k / 2 ^ i % 2 < 2 := Nat.mod_lt _ (by omega)
  rcases (by omega : k / 2 ^ i % 2 = 0 ∨ k / 2 ^ i % 2 = 1) with h | h <;> simp [h, Nat.add_comm]

/-- The double-and-add loop: after processing bits `i .. 0` the accumulator is
    `2^(i+1)•sum + (k mod 2^(i+1))•a`. -/
theorem g1_mulAux_law (a : G1.Point) (ha : Valid1 a) (k : Nat) :
    ∀ (i : Nat) (sum : G1.Point), Valid1 sum →
      Valid1 (G1.mulAux bnCurve a k i sum) ∧
      μ (G1.mulAux bnCurve a k i sum) = 2 ^ (i + 1) • μ sum + (k % 2 ^ (i + 1)) • μ a := by
  intro i
  induction i with
  | zero =>
    intro sum hs
    obtain ⟨hv, hd⟩ := g1_double_law sum hs
    simp only [G1.mulAux]
    have hmod := mod_two_pow_succ' k 0
    by_cases hb : k.testBit 0 = true
    · obtain ⟨hv2, hd2⟩ := g1_add_law _ a hv ha
      simp only [hb, if_true] at hmod ⊢
      refine ⟨hv2, ?_⟩
      rw [hd2, hd, hmod, Nat.pow_zero, Nat.mod_one]; module
    · have hb' : k.testBit 0 = false := by simpa using hb
      simp only [hb', Bool.false_eq_true, if_false] at hmod ⊢
      refine ⟨hv, ?_⟩
      rw [hd, hmod, Nat.pow_zero, Nat.mod_one]; module
  | succ i ih =>
    intro sum hs
    obtain ⟨hv, hd⟩ := g1_double_law sum hs
    simp only [G1.mulAux]
    have hmod := mod_two_pow_succ' k (i + 1)
    by_cases hb : k.testBit (i + 1) = true
    · obtain ⟨hv2, hd2⟩ := g1_add_law _ a hv ha
      simp only [hb, if_true] at hmod ⊢
      obtain ⟨hv3, hd3⟩ := ih _ hv2
      refine ⟨hv3, ?_⟩
      rw [hd3, hd2, hd, hmod]
      module
    · have hb' : k.testBit (i + 1) = false := by simpa using hb
      simp only [hb', Bool.false_eq_true, if_false] at hmod ⊢
      obtain ⟨hv3, hd3⟩ := ih _ hv
      refine ⟨hv3, ?_⟩
      rw [hd3, hd, hmod]
      module

theorem lt_two_pow_bitLen (k : Nat) : k < 2 ^ G1.bitLen k := by
  unfold G1.bitLen
  split
  · rename_i h; subst h; simp
  · exact Nat.lt_log2_self

/-- `G1.mul` (as `curvePoint.Mul`, any scalar, reduced or not) is scalar multiplication. -/
theorem g1_mul_law (a : G1.Point) (ha : Valid1 a) (k : Nat) :
    Valid1 (G1.mul bnCurve a k) ∧ μ (G1.mul bnCurve a k) = k • μ a := by
  obtain ⟨hv, hm⟩ := g1_mulAux_law a ha k (G1.bitLen k) .inf valid_inf
  refine ⟨hv, ?_⟩
  unfold G1.mul
  rw [hm, μ_inf, nsmul_zero, zero_add]
  have : k % 2 ^ (G1.bitLen k + 1) = k :=
    Nat.mod_eq_of_lt (lt_trans (lt_two_pow_bitLen k) (Nat.pow_lt_pow_right (by omega) (by omega)))
  rw [this]

omit hp in
/-- The driver's on-curve test (`G1.isOnCurve`, used as `Signature.IsValid`) is C14's `onCurve`. -/
theorem isOnCurve_eq (q : G1.Point) : G1.isOnCurve bnCurve q = (φ q).onCurve := by
  cases q with
  | inf => rfl
  | aff x y =>
    show ((y * y) % P == (((x * x) % P * x) % P + B % P) % P) = ((y * y) % P == (x * x * x + B) % P)
    have : (((x * x) % P * x) % P + B % P) % P = (x * x * x + B) % P := by
      rw [Nat.mod_add_mod, Nat.add_mod_mod]
      exact Nat.ModEq.add_right B (Nat.ModEq.mul_right x (Nat.mod_modEq (x * x) P))
    rw [this]

end Rangers.Proofs.C13G1
