import Rangers.Proofs.C13Recover
import Rangers.Proofs.C13Select
/-! `RecoverGroupSignature` on a witness map of shares of a polynomial of degree `< k`: the answer is
    `f(0)•h` for every map iteration order and every outcome of `RandomPerm`. -/
namespace Rangers.Proofs.C13
open Polynomial Finset Rangers.Model.Shamir

variable {r : Nat} {G : Type} [AddCommGroup G] [Module (ZMod r) G]

theorem mapM_honest {α : Type} (g : Nat → α) : ∀ (l : List (Nat × Option α)),
    (∀ e ∈ l, e.2 = some (g e.1)) → l.mapM (fun e => e.2) = some (l.map (fun e => g e.1))
  | [], _ => by simp
  | e :: l, h => by
    rw [List.mapM_cons, h e (by simp), mapM_honest g l (fun e' he' => h e' (by simp [he']))]
    simp

/-- A choice of map iteration orders and draws is admissible when the orders are permutations
    and the draws are in range (`js[i] = Deri(i).Modulo(n-i) < n-i`). Every behaviour of the Go
    runtime and of `crypto/rand` is an admissible choice. -/
structure Admissible {α : Type} (c : Choice α) (n k : Nat) : Prop where
  ord1 : ∀ l, (c.ord1 l).Perm l
  ord2 : ∀ l, (c.ord2 l).Perm l
  js_len : k ≤ c.js.length
  js_range : ∀ i, i < k → c.js.getD i 0 + i < n

/-- The entries `RecoverGroupSignature` feeds to `recoverSignature`: exactly `k`, a
    sub-permutation of the map. -/
theorem used_entries {α : Type} (k : Nat) (m : List α) (hkm : k ≤ m.length) (c : Choice α)
    (hc : Admissible c m.length k) :
    ((c.ord2 (if k < m.length then pickSorted 0 (c.ord1 m) (sortInts (randomPerm m.length k c.js)) else m)).take k).length = k ∧
    ((c.ord2 (if k < m.length then pickSorted 0 (c.ord1 m) (sortInts (randomPerm m.length k c.js)) else m)).take k).Subperm m := by
  by_cases hlt : k < m.length
  · simp only [hlt, if_true]
    have hl1 : (c.ord1 m).length = m.length := (hc.ord1 m).length_eq
    obtain ⟨hsub, hlen⟩ := pick_random_k (c.ord1 m) k c.js (by omega) hc.js_len (by simpa [hl1] using hc.js_range)
    rw [hl1] at hsub hlen
    have hl2 := (hc.ord2 (pickSorted 0 (c.ord1 m) (sortInts (randomPerm m.length k c.js)))).length_eq
    have htake : (c.ord2 (pickSorted 0 (c.ord1 m) (sortInts (randomPerm m.length k c.js)))).take k =
        c.ord2 (pickSorted 0 (c.ord1 m) (sortInts (randomPerm m.length k c.js))) :=
      List.take_of_length_le (by omega)
    rw [htake]
    exact ⟨by omega, ((hc.ord2 _).subperm).trans ((hsub.subperm).trans (hc.ord1 m).subperm)⟩
  · simp only [hlt, if_false]
    have hl2 := (hc.ord2 m).length_eq
    have htake : (c.ord2 m).take k = c.ord2 m := List.take_of_length_le (by omega)
    rw [htake]
    exact ⟨by omega, (hc.ord2 m).subperm⟩

/-- Selection logic only, for any point type: if `recoverSignature` returns `t` on every list of
    `k` ids (distinct mod `r`) with the shares `sig id`, then so does `RecoverGroupSignature` on every
    map of ≥ `k` such entries under every admissible choice. -/
theorem recoverGroupSignature_of_recoverWith {M : Type} (ops : Ops M) (r k : Nat) (hk0 : 0 < k)
    (sig : Nat → M) (t : M)
    (hrec : ∀ ids : List Nat, ids.length = k → IdsDistinct r ids →
      recoverWith ops r ids (ids.map sig) = .ok (some t))
    (m : List (Nat × Option M)) (hkm : k ≤ m.length)
    (hd : IdsDistinct r (m.map Prod.fst))
    (hhon : ∀ e ∈ m, e.2 = some (sig e.1))
    (c : Choice (Nat × Option M)) (hc : Admissible c m.length k) :
    recoverGroupSignature ops r k m c = .ok (some t) := by
  obtain ⟨hlen, hsp⟩ := used_entries k m hkm c hc
  generalize hit : (c.ord2 (if k < m.length then pickSorted 0 (c.ord1 m) (sortInts (randomPerm m.length k c.js)) else m)).take k = it at hlen hsp
  unfold recoverGroupSignature
  simp only [hit, hlen, Nat.lt_irrefl, if_false]
  have hnot : ¬ (k = 0 ∧ 0 < m.length) := by omega
  simp only [hnot, if_false]
  have hmem : ∀ e ∈ it, e ∈ m := fun e he => hsp.subset he
  rw [mapM_honest sig it (fun e he => hhon e (hmem e he))]
  simp only
  have hids : IdsDistinct r (it.map Prod.fst) := by
    unfold IdsDistinct at hd ⊢
    obtain ⟨l, hl1, hl2⟩ := hsp
    have hs' : ((l.map Prod.fst).map (· % r)).Sublist ((m.map Prod.fst).map (· % r)) := (hl2.map _).map _
    have hp : ((l.map Prod.fst).map (· % r)).Perm ((it.map Prod.fst).map (· % r)) := (hl1.map _).map _
    exact (hp.nodup_iff).1 (hd.sublist hs')
  have := hrec (it.map Prod.fst) (by simpa using hlen) hids
  rw [List.map_map] at this
  exact this

theorem recoverGroupSignature_poly [Fact r.Prime] (ops : Ops G) (hops : LawfulOps r ops)
    (f : (ZMod r)[X]) (k : Nat) (hk0 : 0 < k) (hdeg : f.degree < k)
    (s : Nat → Nat) (hs : ∀ x, ((s x : Nat) : ZMod r) = f.eval (x : ZMod r)) (h : G)
    (m : List (Nat × Option G)) (hkm : k ≤ m.length)
    (hd : IdsDistinct r (m.map Prod.fst))
    (hhon : ∀ e ∈ m, e.2 = some (ops.mul h (s e.1)))
    (c : Choice (Nat × Option G)) (hc : Admissible c m.length k) :
    recoverGroupSignature ops r k m c = .ok (some (f.eval 0 • h)) := by
  refine recoverGroupSignature_of_recoverWith ops r k hk0 (fun x => ops.mul h (s x)) _ ?_ m hkm hd hhon c hc
  intro ids hlen hids
  have hne : ids ≠ [] := by intro h0; subst h0; simp at hlen; omega
  have := recoverWith_poly ops hops ids hne hids f (by simpa [hlen] using hdeg)
    (ids.map s) (by simp) (by
      intro t ht
      rw [List.getD, List.getElem?_map, List.getElem?_eq_getElem ht]
      simp only [Option.map_some, Option.getD_some]
      rw [hs]
      unfold pt
      simp [List.getD, List.getElem?_eq_getElem ht]) h
  rw [List.map_map] at this
  exact this

end Rangers.Proofs.C13
