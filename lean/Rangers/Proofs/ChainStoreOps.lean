import Rangers.Proofs.ChainStoreInv
/-!
Operation-level lemmas: what `remove`, `insertBlock`, `removeFromCommonAncestor`,
`addBlockOnChain` and `restart` do to a state that satisfies the invariant, with a
process death possible in front of every write.
-/
namespace Rangers.Proofs.ChainStore
open Rangers.Model.ChainStore

/-! ### single writes -/

@[simp] theorem write_mem (s : St) (w : Write) : (s.write w).mem = s.mem := by
  unfold St.write; split
  · rfl
  · split <;> rfl

@[simp] theorem setMem_disk (s : St) (m : Mem) : (s.setMem m).disk = s.disk := rfl
@[simp] theorem setMem_crashed (s : St) (m : Mem) : (s.setMem m).crashed = s.crashed := rfl
@[simp] theorem setMem_mem (s : St) (m : Mem) : (s.setMem m).mem = m := rfl
@[simp] theorem setMem_budget (s : St) (m : Mem) : (s.setMem m).budget = s.budget := rfl

theorem write_dead (s : St) (w : Write) (h : s.crashed = true) : s.write w = s := by
  simp [St.write, h]

theorem write_alive (s : St) (w : Write) (h : s.crashed = false) :
    ((s.write w).crashed = false ∧ (s.write w).disk = s.disk.apply w) ∨
    ((s.write w).crashed = true ∧ (s.write w).disk = s.disk) := by
  unfold St.write
  simp only [h]
  cases hb : s.budget with
  | none => simp
  | some k => cases k <;> simp

theorem write_nobudget (s : St) (w : Write) (h : s.crashed = false) (hb : s.budget = none) :
    (s.write w).crashed = false ∧ (s.write w).budget = none ∧ (s.write w).disk = s.disk.apply w := by
  simp [St.write, h, hb]

@[simp] theorem writes_mem (s : St) (ws : List Write) : (s.writes ws).mem = s.mem := by
  induction ws generalizing s with
  | nil => rfl
  | cons w ws ih => simp [St.writes, ih]

theorem write_setMem_comm (s : St) (w : Write) (m : Mem) : (s.write w).setMem m = (s.setMem m).write w := by
  unfold St.write St.setMem
  simp only
  split
  · rfl
  · split <;> rfl

theorem writes_setMem_comm (ws : List Write) : ∀ (s : St) (m : Mem), (s.writes ws).setMem m = (s.setMem m).writes ws := by
  induction ws with
  | nil => intro s m; rfl
  | cons w ws ih =>
    intro s m
    simp only [St.writes]
    rw [ih, write_setMem_comm]

/-! ### outcome of a piece of code: alive with `P`, or dead on a disk satisfying `R` -/

def Out (P : Disk → Mem → Prop) (R : Disk → Prop) (s : St) : Prop :=
  (s.crashed = false ∧ P s.disk s.mem) ∨ (s.crashed = true ∧ R s.disk)

theorem Out.alive {P R} {s : St} (h : s.crashed = false) (hp : P s.disk s.mem) : Out P R s := Or.inl ⟨h, hp⟩
theorem Out.dead {P R} {s : St} (h : s.crashed = true) (hr : R s.disk) : Out P R s := Or.inr ⟨h, hr⟩

theorem Out.mono {P Q : Disk → Mem → Prop} {R R' : Disk → Prop} {s : St} (h : Out P R s)
    (hq : ∀ d m, P d m → Q d m) (hr : ∀ d, R d → R' d) : Out Q R' s := by
  rcases h with ⟨a, p⟩ | ⟨a, r⟩
  · exact Or.inl ⟨a, hq _ _ p⟩
  · exact Or.inr ⟨a, hr _ r⟩

theorem Out.write {P Q : Disk → Mem → Prop} {R : Disk → Prop} {s : St} (h : Out P R s) (w : Write)
    (hq : ∀ d m, P d m → Q (d.apply w) m) (hr : ∀ d m, P d m → R d) : Out Q R (s.write w) := by
  rcases h with ⟨a, p⟩ | ⟨a, r⟩
  · rcases write_alive s w a with ⟨a', e⟩ | ⟨a', e⟩
    · exact Or.inl ⟨a', by rw [e, write_mem]; exact hq _ _ p⟩
    · exact Or.inr ⟨a', by rw [e]; exact hr _ _ p⟩
  · rw [write_dead s w a]; exact Or.inr ⟨a, r⟩

theorem Out.setMem {P Q : Disk → Mem → Prop} {R : Disk → Prop} {s : St} (h : Out P R s) (m' : Mem)
    (hq : P s.disk s.mem → Q s.disk m') : Out Q R (s.setMem m') := by
  rcases h with ⟨a, p⟩ | ⟨a, r⟩
  · exact Or.inl ⟨a, hq p⟩
  · exact Or.inr ⟨a, r⟩

/-- a list of writes each of which keeps `P` -/
theorem Out.writes {P : Disk → Mem → Prop} {R : Disk → Prop} (ws : List Write) :
    ∀ {s : St}, Out P R s → (∀ w ∈ ws, ∀ d m, P d m → P (d.apply w) m) → (∀ d m, P d m → R d) →
    Out P R (s.writes ws) := by
  induction ws with
  | nil => intro s h _ _; exact h
  | cons w ws ih =>
    intro s h hs hr
    exact ih (h.write w (hs w (List.mem_cons_self ..)) hr) (fun w' hw' => hs w' (List.mem_cons_of_mem _ hw')) hr

/-- deleting the executed records of a list of transactions -/
theorem Out.delExecs {R : Disk → Prop} (txs : List Nat) :
    ∀ {P : Disk → Mem → Prop} {s : St}, Out P R s → (∀ t ∈ txs, ∀ d m, P d m → P (d.apply (.delExecuted t)) m) →
    (∀ d m, P d m → R d) →
    Out (fun d m => P d m ∧ ∀ t ∈ txs, d.executed t = none) R (s.writes (txs.map .delExecuted)) := by
  induction txs with
  | nil => intro P s h _ _; exact h.mono (fun d m p => ⟨p, by intro t ht; cases ht⟩) (fun _ r => r)
  | cons t ts ih =>
    intro P s h hs hr
    have h1 : Out (fun d m => P d m ∧ d.executed t = none) R (s.write (.delExecuted t)) :=
      h.write _ (fun d m p => ⟨hs t (List.mem_cons_self ..) d m p, by simp [Disk.apply]⟩) hr
    have h2 := ih (P := fun d m => P d m ∧ d.executed t = none) h1
      (fun t' ht' d m p => ⟨hs t' (List.mem_cons_of_mem _ ht') d m p.1, by
        show upd d.executed t' none t = none
        by_cases e : t = t'
        · subst e; simp
        · rw [upd_other _ _ e]; exact p.2⟩)
      (fun d m p => hr d m p.1)
    exact h2.mono (fun d m p => ⟨p.1.1, by
      intro t' ht'
      rcases List.mem_cons.mp ht' with e | e
      · subst e; exact p.1.2
      · exact p.2 t' e⟩) (fun _ r => r)

/-! ### a dead process changes nothing on disk -/

/-- `f` leaves a dead state dead and its disk untouched -/
def Frozen (f : St → St) : Prop := ∀ s, s.crashed = true → (f s).crashed = true ∧ (f s).disk = s.disk

theorem frozen_write (w : Write) : Frozen (fun s => s.write w) := by
  intro s h; simp [write_dead s w h, h]

theorem frozen_setMem (g : St → Mem) : Frozen (fun s => s.setMem (g s)) := by
  intro s h; exact ⟨h, rfl⟩

theorem Frozen.comp {f g : St → St} (hf : Frozen f) (hg : Frozen g) : Frozen (fun s => g (f s)) := by
  intro s h
  have a := hf s h
  have b := hg (f s) a.1
  exact ⟨b.1, b.2.trans a.2⟩

theorem frozen_writes (ws : List Write) : Frozen (fun s => s.writes ws) := by
  induction ws with
  | nil => intro s h; exact ⟨h, rfl⟩
  | cons w ws ih =>
    intro s h
    have a := frozen_write w s h
    have b := ih (s.write w) a.1
    exact ⟨b.1, b.2.trans a.2⟩

theorem frozen_removeA (x : Block) : Frozen (fun s => removeA s x) := by
  intro s h
  have a := frozen_writes [.putRemoveMark x, .delBlock x.hash, .delHeight x.height, .delVerify x.height] s h
  exact ⟨a.1, a.2⟩

theorem frozen_unmark (x : Block) : Frozen (fun s => unmark s x) := by
  intro s h
  unfold unmark
  split
  · exact ⟨h, rfl⟩
  · have a := frozen_writes (x.txs.map .delExecuted) s h
    exact ⟨a.1, a.2⟩

theorem frozen_removeB (x p : Block) : Frozen (fun s => removeB s x p) := by
  intro s h
  unfold removeB
  have a1 : (s.setMem { s.mem with latest := p }).crashed = true := h
  have a2 := frozen_write (.putCurrent p) _ a1
  have a3 := frozen_unmark x _ a2.1
  have a4 := frozen_write .delRemoveMark _ a3.1
  exact ⟨a4.1, a4.2.trans (a3.2.trans a2.2)⟩

theorem frozen_remove (x : Block) : Frozen (fun s => (remove s x).1) := by
  intro s h
  have a := frozen_removeA x s h
  show (remove s x).1.crashed = true ∧ (remove s x).1.disk = s.disk
  unfold remove
  simp only
  split
  · exact a
  · rename_i p _
    have b := frozen_removeB x p _ a.1
    exact ⟨b.1, b.2.trans a.2⟩

theorem frozen_removeLoop (base : Nat) : ∀ n, Frozen (fun s => removeLoop base n s) := by
  intro n
  induction n with
  | zero => intro s h; exact ⟨h, rfl⟩
  | succ n ih =>
    intro s h
    show (removeLoop base (n + 1) s).crashed = true ∧ (removeLoop base (n + 1) s).disk = s.disk
    unfold removeLoop
    simp only
    split
    · exact ih s h
    · split
      · exact ih s h
      · rename_i blk _
        have a := frozen_remove blk s h
        have b := ih _ a.1
        exact ⟨b.1, b.2.trans a.2⟩

theorem frozen_removeFrom (anc : Block) : Frozen (fun s => removeFromCommonAncestor s anc) := by
  intro s h
  exact frozen_removeLoop anc.height _ s h

theorem frozen_verify (b : Block) : Frozen (fun s => (verify s b).1) := by
  intro s h
  show (verify s b).1.crashed = true ∧ (verify s b).1.disk = s.disk
  unfold verify
  repeat' split
  all_goals exact ⟨h, rfl⟩

theorem frozen_insertA (b : Block) : Frozen (fun s => insertA s b) :=
  frozen_writes _

theorem frozen_markTxs (b : Block) : Frozen (fun s => markTxs s b) := by
  intro s h
  unfold markTxs
  split
  · exact ⟨h, rfl⟩
  · exact frozen_write _ s h

theorem frozen_insertB (b : Block) : Frozen (fun s => insertB s b) := by
  intro s h
  exact ((((((frozen_writes [.commitState b.hash, .putVerify b.height]).comp (frozen_markTxs b)).comp
    (frozen_setMem (fun s => poolMem s.mem b))).comp (frozen_write (.putCurrent b))).comp
    (frozen_setMem (fun s => { s.mem with latest := b }))).comp (frozen_write .delAddMark)) s h

theorem frozen_insertBlock (cont : St → Block → St) (hc : ∀ f, Frozen (fun s => cont s f)) (b : Block) :
    Frozen (fun s => (insertBlock cont s b).1) := by
  intro s h
  have a := frozen_insertA b s h
  show (insertBlock cont s b).1.crashed = true ∧ (insertBlock cont s b).1.disk = s.disk
  unfold insertBlock
  simp only
  split
  · exact a
  · rename_i v _
    have a' : ((insertA s b).setMem { (insertA s b).mem with verified := v }).crashed = true := a.1
    have b1 := frozen_insertB b _ a'
    split
    · rename_i f _
      have c1 := hc f _ b1.1
      exact ⟨c1.1, c1.2.trans (b1.2.trans a.2)⟩
    · exact ⟨b1.1, b1.2.trans a.2⟩

theorem frozen_addCore : ∀ fuel b, Frozen (fun s => (addCore fuel s b).1) := by
  intro fuel
  induction fuel with
  | zero => intro b s h; exact ⟨h, rfl⟩
  | succ fuel ih =>
    intro b s h
    show (addCore (fuel + 1) s b).1.crashed = true ∧ (addCore (fuel + 1) s b).1.disk = s.disk
    unfold addCore
    simp only
    split
    · exact ⟨h, rfl⟩
    · have hv : (verify s b).1.crashed = true ∧ (verify s b).1.disk = s.disk := frozen_verify b s h
      split
      · rename_i s1 heq
        have : (verify s b).1 = s1 := by rw [heq]
        rw [← this]; exact hv
      · rename_i s1 heq
        have e : (verify s b).1 = s1 := by rw [heq]
        rw [e] at hv
        split
        · have := frozen_insertBlock (fun s f => (addCore fuel s f).1) (fun f => ih f) b s1 hv.1
          exact ⟨this.1, this.2.trans hv.2⟩
        · split
          · exact hv
          · split
            · exact hv
            · rename_i anc _
              have r := frozen_removeFrom anc s1 hv.1
              split
              · have := ih b _ r.1
                exact ⟨this.1, this.2.trans (r.2.trans hv.2)⟩
              · split
                · exact hv
                · split
                  · exact hv
                  · have := ih b _ r.1
                    exact ⟨this.1, this.2.trans (r.2.trans hv.2)⟩


/-! ### the invariant of a live node -/

/-- `a` is a proper ancestor of `b` in the tree `T` -/
inductive IsAnc (T : Nat → Option Block) : Block → Block → Prop where
  | parent {a b : Block} : T b.hash = some b → T b.pre = some a → IsAnc T a b
  | step {a p b : Block} : IsAnc T a p → T b.hash = some b → T b.pre = some p → IsAnc T a b

/-- the delivered block tree: `T h` is the block with hash `h`. A valid block is higher than its parent,
    its cumulative QN is not lower, and it does not repeat a transaction of an ancestor. -/
structure ValidTree (T : Nat → Option Block) : Prop where
  parent : ∀ b q, T b.hash = some b → T b.pre = some q → q.height < b.height ∧ q.totalQN ≤ b.totalQN
  txfresh : ∀ a b, IsAnc T a b → ∀ t ∈ b.txs, t ∉ a.txs

/-- every block below the head of a linked chain of tree blocks is an ancestor of the head -/
theorem anc_of_chain {T : Nat → Option Block} : ∀ (rest : List Block) (y : Block), Linked (y :: rest) →
    (∀ z ∈ y :: rest, T z.hash = some z) → ∀ x ∈ rest, IsAnc T x y := by
  intro rest
  induction rest with
  | nil => intro y _ _ x hx; cases hx
  | cons z r ih =>
    intro y hl hT x hx
    have hTy := hT y (List.mem_cons_self ..)
    have hTz := hT z (List.mem_cons_of_mem _ (List.mem_cons_self ..))
    have hpar : T y.pre = some z := by rw [hl.1]; exact hTz
    rcases List.mem_cons.mp hx with e | e
    · subst e; exact IsAnc.parent hTy hpar
    · exact IsAnc.step (ih z hl.2.2 (fun w hw => hT w (List.mem_cons_of_mem _ hw)) x e) hTy hpar

/-- a tree block whose parent is the head of a chain of tree blocks repeats none of the chain's transactions -/
theorem fresh_on_chain {T : Nat → Option Block} (vt : ValidTree T) {c : List Block} {y b : Block} (hl : Linked c)
    (hT : ∀ z ∈ c, T z.hash = some z) (hy : c.head? = some y) (hp : b.pre = y.hash) (hb : T b.hash = some b) :
    ∀ z ∈ c, ∀ t ∈ b.txs, t ∉ z.txs := by
  cases c with
  | nil => simp at hy
  | cons y' rest =>
    simp at hy; subst hy
    have hTy := hT y' (List.mem_cons_self ..)
    have hpar : T b.pre = some y' := by rw [hp]; exact hTy
    intro z hz
    rcases List.mem_cons.mp hz with e | e
    · subst e; exact vt.txfresh _ b (IsAnc.parent hb hpar)
    · exact vt.txfresh z b (IsAnc.step (anc_of_chain rest y' hl hT z e) hb hpar)

def CacheOK (d : Disk) (m : Mem) : Prop := ∀ n z, m.top n = some z → d.heights n = some z
def FutOK (T : Nat → Option Block) (m : Mem) : Prop := ∀ k f, m.future k = some f → f.pre = k ∧ T f.hash = some f

/-- disk holds exactly chain `c`; memory agrees with it; everything comes from the tree `T` -/
structure Inv (T : Nat → Option Block) (d : Disk) (m : Mem) (c : List Block) : Prop where
  chain : ChainInv d c
  latest : c.head? = some m.latest
  cache : CacheOK d m
  fut : FutOK T m
  fromT : ∀ z ∈ c, T z.hash = some z

theorem addPending_sub (ex : Map Nat) : ∀ (txs pending : List Nat), ∀ t ∈ pending, t ∈ addPending pending ex txs := by
  intro txs
  induction txs with
  | nil => intro p t h; exact h
  | cons a as ih =>
    intro p t h
    unfold addPending
    split
    · exact ih p t h
    · exact ih (p ++ [a]) t (List.mem_append_left _ h)

theorem addPending_mem (ex : Map Nat) : ∀ (txs pending : List Nat), (∀ t ∈ txs, ex t = none) →
    ∀ t ∈ txs, t ∈ addPending pending ex txs := by
  intro txs
  induction txs with
  | nil => intro p _ t h; cases h
  | cons a as ih =>
    intro p hex t h
    have hexa : ex a = none := hex a (List.mem_cons_self ..)
    have hex' : ∀ t ∈ as, ex t = none := fun t ht => hex t (List.mem_cons_of_mem _ ht)
    unfold addPending
    rcases List.mem_cons.mp h with e | e
    · subst e
      split
      · rename_i hc
        rcases hc with hc | hc
        · exact addPending_sub ex as p t hc
        · simp [hexa] at hc
      · exact addPending_sub ex as _ t (List.mem_append_right _ (List.mem_singleton.mpr rfl))
    · split
      · exact ih p hex' t e
      · exact ih _ hex' t e

/-! ### `remove` -/

/-- progress of `remove x` (`d0` = disk before, `am` = the add mark, which `remove` never touches) -/
structure RemStage (d0 : Disk) (am : Option Block) (c : List Block) (x : Block) (n : Nat) (d : Disk) : Prop where
  pend : Pending d c x
  addEq : d.addMark = am
  remEq : d.removeMark = some x
  keep : ∀ k z, k ≠ x.height → d0.heights k = some z → d.heights k = some z
  b : 1 ≤ n → d.blocks x.hash = none
  h : 2 ≤ n → d.heights x.height = none
  v : 3 ≤ n → d.verify x.height = false
  cur : 4 ≤ n → d.current = c.head?

theorem RemStage.start {d0 : Disk} {c : List Block} {x : Block} (ci : ChainInv d0 (x :: c)) (hc : c ≠ []) :
    RemStage d0 none c x 0 (d0.apply (.putRemoveMark x)) where
  pend := ci.begin_remove hc
  addEq := ci.noAdd
  remEq := rfl
  keep := fun _ _ _ h => h
  b := by intro h; omega
  h := by intro h; omega
  v := by intro h; omega
  cur := by intro h; omega

theorem RemStage.start_pending {d0 : Disk} {c : List Block} {x : Block} (p : Pending d0 c x) :
    RemStage d0 d0.addMark c x 0 (d0.apply (.putRemoveMark x)) where
  pend := p.write .putRemoveMark
  addEq := rfl
  remEq := rfl
  keep := fun _ _ _ h => h
  b := by intro h; omega
  h := by intro h; omega
  v := by intro h; omega
  cur := by intro h; omega

theorem RemStage.s1 {d0 d : Disk} {am : Option Block} {c : List Block} {x : Block} (p : RemStage d0 am c x 0 d) :
    RemStage d0 am c x 1 (d.apply (.delBlock x.hash)) where
  pend := p.pend.write .delBlock
  addEq := p.addEq
  remEq := p.remEq
  keep := p.keep
  b := by intro _; simp [Disk.apply]
  h := by intro h; omega
  v := by intro h; omega
  cur := by intro h; omega

theorem RemStage.s2 {d0 d : Disk} {am : Option Block} {c : List Block} {x : Block} (p : RemStage d0 am c x 1 d) :
    RemStage d0 am c x 2 (d.apply (.delHeight x.height)) where
  pend := p.pend.write .delHeight
  addEq := p.addEq
  remEq := p.remEq
  keep := by
    intro k z hk hz
    show upd d.heights x.height none k = some z
    rw [upd_other _ _ hk]; exact p.keep k z hk hz
  b := fun _ => p.b (by omega)
  h := by intro _; simp [Disk.apply]
  v := by intro h; omega
  cur := by intro h; omega

theorem RemStage.s3 {d0 d : Disk} {am : Option Block} {c : List Block} {x : Block} (p : RemStage d0 am c x 2 d) :
    RemStage d0 am c x 3 (d.apply (.delVerify x.height)) where
  pend := p.pend.write .delVerify
  addEq := p.addEq
  remEq := p.remEq
  keep := p.keep
  b := fun _ => p.b (by omega)
  h := fun _ => p.h (by omega)
  v := by intro _; simp [Disk.apply]
  cur := by intro h; omega

theorem RemStage.parent {d0 d : Disk} {am : Option Block} {c : List Block} {x : Block} {n : Nat} (p : RemStage d0 am c x n d) :
    ∃ y, c.head? = some y ∧ d.blocks x.pre = some y := by
  obtain ⟨y, hy, hp, _⟩ := p.pend.child
  refine ⟨y, hy, ?_⟩
  rw [hp]
  apply p.pend.blocks_mem
  cases c with
  | nil => simp at hy
  | cons z rest => simp at hy; subst hy; exact List.mem_cons_self ..

theorem RemStage.s4 {d0 d : Disk} {am : Option Block} {c : List Block} {x y : Block} (p : RemStage d0 am c x 3 d) (hy : c.head? = some y) :
    RemStage d0 am c x 4 (d.apply (.putCurrent y)) where
  pend := p.pend.write (.putCurrentHead y hy)
  addEq := p.addEq
  remEq := p.remEq
  keep := p.keep
  b := fun _ => p.b (by omega)
  h := fun _ => p.h (by omega)
  v := fun _ => p.v (by omega)
  cur := by intro _; show some y = c.head?; rw [hy]

theorem RemStage.delExec {d0 d : Disk} {am : Option Block} {c : List Block} {x : Block} (p : RemStage d0 am c x 4 d) (t : Nat)
    (ht : t ∈ x.txs) : RemStage d0 am c x 4 (d.apply (.delExecuted t)) where
  pend := p.pend.write (.delExecuted t ht)
  addEq := p.addEq
  remEq := p.remEq
  keep := p.keep
  b := p.b
  h := p.h
  v := p.v
  cur := p.cur

/-- no add mark: erasing the remove mark completes the removal -/
theorem RemStage.finish {d0 d : Disk} {c : List Block} {x : Block} (p : RemStage d0 none c x 4 d)
    (hx : ∀ t ∈ x.txs, d.executed t = none) : ChainInv (d.apply .delRemoveMark) c := by
  have := p.pend.finish_removed (p.b (by omega)) (p.h (by omega)) (p.v (by omega)) (p.cur (by omega)) hx
  have e : d.apply .delRemoveMark = { d with addMark := none, removeMark := none } := by
    cases d; simp only [Disk.apply]; congr; exact p.addEq
  rw [e]; exact this

/-- add mark still set (start-up repair of a half-added block): after the remove mark is erased the
    disk is still `Pending`, and erasing the add mark completes the repair -/
theorem RemStage.mid {d0 d : Disk} {c : List Block} {x : Block} (p : RemStage d0 (some x) c x 4 d) :
    Pending (d.apply .delRemoveMark) c x :=
  { p.pend with removeMark := Or.inl rfl, marked := Or.inl p.addEq }

theorem RemStage.finish_add {d0 d : Disk} {c : List Block} {x : Block} (p : RemStage d0 (some x) c x 4 d)
    (hx : ∀ t ∈ x.txs, d.executed t = none) : ChainInv ((d.apply .delRemoveMark).apply .delAddMark) c := by
  have := p.pend.finish_removed (p.b (by omega)) (p.h (by omega)) (p.v (by omega)) (p.cur (by omega)) hx
  have e : (d.apply .delRemoveMark).apply .delAddMark = { d with addMark := none, removeMark := none } := by
    cases d; simp only [Disk.apply]
  rw [e]; exact this

theorem RemStage.recTo {d0 d : Disk} {am : Option Block} {c : List Block} {x : Block} {n : Nat} (p : RemStage d0 am c x n d) : RecTo d c :=
  Or.inr ⟨x, p.pend⟩

/-- pool effect of removing `x`: its transactions are no longer executed and are pending again -/
def Unmarked (x : Block) (d : Disk) (m : Mem) : Prop := ∀ t ∈ x.txs, d.executed t = none ∧ t ∈ m.pending

/-- where `remove x` may die: on the old chain, or anywhere recoverable to the shorter chain -/
def RemRec (c : List Block) (x : Block) (d : Disk) : Prop := RecTo d c ∨ ChainInv d (x :: c)

/-- `remove x`, started either on the clean chain `x :: c` (reorg) or on any `Pending c x` disk
    (start-up repair). Alive at the end: every write but the last brought the disk to stage 4, the
    last one erased the remove mark. -/
theorem remove_core {s : St} {x : Block} {c : List Block} {am : Option Block} {R : Disk → Prop}
    (ha : s.crashed = false)
    (start : (ChainInv s.disk (x :: c) ∧ c ≠ [] ∧ am = none) ∨ (Pending s.disk c x ∧ s.disk.addMark = am))
    (hR0 : R s.disk) (hR : ∀ d, RecTo d c → R d) :
    Out (fun d m => (∃ d4, RemStage s.disk am c x 4 d4 ∧ (∀ t ∈ x.txs, d4.executed t = none) ∧ d = d4.apply .delRemoveMark) ∧
          (∃ y, c.head? = some y ∧ m.latest = y) ∧ m.top = upd s.mem.top x.height none ∧
          m.future = s.mem.future ∧ (∀ t ∈ s.mem.pending, t ∈ m.pending) ∧ Unmarked x d m)
        R (remove s x).1 := by
  let d0 := s.disk
  let m0 := s.mem
  have h0 : Out (fun d m => d = d0 ∧ m = m0) R s := Out.alive ha ⟨rfl, rfl⟩
  have h1 : Out (fun d m => RemStage d0 am c x 0 d ∧ m = m0) R (s.write (.putRemoveMark x)) := by
    refine h0.write _ (fun d m p => ⟨?_, p.2⟩) (fun d m p => ?_)
    · rw [p.1]
      rcases start with ⟨ci, hc, e⟩ | ⟨pp, e⟩
      · rw [e]; exact RemStage.start ci hc
      · rw [← e]; exact RemStage.start_pending pp
    · rw [p.1]; exact hR0
  have h2 := h1.write (.delBlock x.hash) (Q := fun d m => RemStage d0 am c x 1 d ∧ m = m0)
    (fun d m p => ⟨p.1.s1, p.2⟩) (fun d m p => hR _ p.1.recTo)
  have h3 := h2.write (.delHeight x.height) (Q := fun d m => RemStage d0 am c x 2 d ∧ m = m0)
    (fun d m p => ⟨p.1.s2, p.2⟩) (fun d m p => hR _ p.1.recTo)
  have h4 := h3.write (.delVerify x.height) (Q := fun d m => RemStage d0 am c x 3 d ∧ m = m0)
    (fun d m p => ⟨p.1.s3, p.2⟩) (fun d m p => hR _ p.1.recTo)
  have hA : Out (fun d m => RemStage d0 am c x 3 d ∧ m.top = upd m0.top x.height none ∧ m.latest = m0.latest ∧
      m.future = m0.future ∧ m.pending = m0.pending) R (removeA s x) := by
    unfold removeA
    refine h4.setMem _ ?_
    intro p
    refine ⟨p.1, ?_, ?_, ?_, ?_⟩ <;> simp [St.writes] <;> (first | rfl | (rw [p.2]))
  show Out _ _ (remove s x).1
  unfold remove
  simp only
  rcases hA with ⟨alive, pA⟩ | ⟨dead, r⟩
  · obtain ⟨y, hy, hpre⟩ := pA.1.parent
    rw [hpre]
    simp only
    have hA' : Out (fun d m => RemStage d0 am c x 3 d ∧ m.top = upd m0.top x.height none ∧ m.latest = m0.latest ∧
      m.future = m0.future ∧ m.pending = m0.pending) R (removeA s x) := Out.alive alive pA
    unfold removeB
    have hB1 := hA'.setMem { (removeA s x).mem with latest := y }
      (Q := fun d m => RemStage d0 am c x 3 d ∧ m.top = upd m0.top x.height none ∧ m.latest = y ∧
        m.future = m0.future ∧ m.pending = m0.pending)
      (fun p => ⟨p.1, p.2.1, rfl, p.2.2.2.1, p.2.2.2.2⟩)
    have hB2 := hB1.write (.putCurrent y)
      (Q := fun d m => RemStage d0 am c x 4 d ∧ m.top = upd m0.top x.height none ∧ m.latest = y ∧
        m.future = m0.future ∧ (∀ t ∈ m0.pending, t ∈ m.pending))
      (fun d m p => ⟨p.1.s4 hy, p.2.1, p.2.2.1, p.2.2.2.1, by intro t ht; rw [p.2.2.2.2]; exact ht⟩)
      (fun d m p => hR _ p.1.recTo)
    have hB3 : Out (fun d m => (RemStage d0 am c x 4 d ∧ m.top = upd m0.top x.height none ∧ m.latest = y ∧
        m.future = m0.future ∧ (∀ t ∈ m0.pending, t ∈ m.pending)) ∧ Unmarked x d m) R
        (unmark (((removeA s x).setMem { (removeA s x).mem with latest := y }).write (.putCurrent y)) x) := by
      unfold unmark
      by_cases he : x.txs.isEmpty = true
      · simp only [he, if_true]
        refine hB2.mono (fun d m p => ⟨p, ?_⟩) (fun _ r => r)
        intro t ht
        have : x.txs = [] := List.isEmpty_iff.mp he
        rw [this] at ht; cases ht
      · simp only [he]
        have hD := Out.delExecs x.txs hB2
          (fun t ht d m p => ⟨p.1.delExec t ht, p.2⟩) (fun d m p => hR _ p.1.recTo)
        refine hD.setMem _ ?_
        intro p
        refine ⟨⟨p.1.1, p.1.2.1, p.1.2.2.1, p.1.2.2.2.1, ?_⟩, ?_⟩
        · intro t ht
          exact addPending_sub _ _ _ t (p.1.2.2.2.2 t ht)
        · intro t ht
          exact ⟨p.2 t ht, addPending_mem _ _ _ p.2 t ht⟩
    refine (hB3.write .delRemoveMark ?_ (fun d m p => hR _ p.1.1.recTo))
    intro d m p
    obtain ⟨⟨st, htop, hlat, hfut, hpend⟩, hun⟩ := p
    refine ⟨⟨d, st, fun t ht => (hun t ht).1, rfl⟩, ⟨y, hy, hlat⟩, htop, hfut, hpend, ?_⟩
    intro t ht
    exact ⟨by simpa [Disk.apply] using (hun t ht).1, (hun t ht).2⟩
  · have fr := fun p => frozen_removeB x p (removeA s x) dead
    split
    · exact Out.dead dead r
    · rename_i p _
      exact Out.dead (fr p).1 (by rw [(fr p).2]; exact r)

/-- `remove` of the head of a clean chain by a live node (reorg step). -/
theorem remove_spec {T : Nat → Option Block} {s : St} {x : Block} {c : List Block} (ha : s.crashed = false)
    (inv : Inv T s.disk s.mem (x :: c)) (hc : c ≠ []) :
    Out (fun d m => Inv T d m c ∧ Unmarked x d m ∧ (∀ t ∈ s.mem.pending, t ∈ m.pending) ∧ m.future = s.mem.future)
        (RemRec c x) (remove s x).1 := by
  refine (remove_core (am := none) (R := RemRec c x) ha (Or.inl ⟨inv.chain, hc, rfl⟩) (Or.inr inv.chain)
    (fun d r => Or.inl r)).mono ?_ (fun _ r => r)
  intro d m p
  obtain ⟨⟨d4, st, hx4, hd⟩, ⟨y, hy, hlat⟩, htop, hfut, hpend, hun⟩ := p
  subst hd
  refine ⟨⟨st.finish hx4, by rw [hy, hlat], ?_, ?_, ?_⟩, hun, hpend, hfut⟩
  · intro k z hk
    rw [htop] at hk
    rcases upd_eq_some hk with ⟨_, hv⟩ | ⟨hne, hm⟩
    · cases hv
    · show (d4.apply .delRemoveMark).heights k = some z
      simpa [Disk.apply] using st.keep k z hne (inv.cache k z hm)
  · intro k f hk
    rw [hfut] at hk
    exact inv.fut k f hk
  · intro z hz
    exact inv.fromT z (List.mem_cons_of_mem _ hz)

/-! ### `insertBlock` -/

/-- progress of `insertBlock x` on a disk that held chain `c` (`d0` = disk before) -/
structure AddStage (d0 : Disk) (c : List Block) (x : Block) (n : Nat) (d : Disk) : Prop where
  pend : Pending d c x
  noRem : d.removeMark = none
  keep : ∀ k z, k ≠ x.height → d0.heights k = some z → d.heights k = some z
  b : 1 ≤ n → d.blocks x.hash = some x
  h : 2 ≤ n → d.heights x.height = some x
  s : 3 ≤ n → d.roots x.hash = true
  v : 4 ≤ n → d.verify x.height = true
  cur : 5 ≤ n → d.current = some x

theorem AddStage.start {d0 : Disk} {c : List Block} {y x : Block} (ci : ChainInv d0 c)
    (hy : c.head? = some y) (hp : x.pre = y.hash) (hh : y.height < x.height) (hn : d0.blocks x.hash = none)
    (hfresh : ∀ z ∈ c, ∀ t ∈ x.txs, t ∉ z.txs) :
    AddStage d0 c x 0 (d0.apply (.putAddMark x)) where
  pend := ci.begin_add hy hp hh hn hfresh
  noRem := ci.noRemove
  keep := fun _ _ _ h => h
  b := by intro h; omega
  h := by intro h; omega
  s := by intro h; omega
  v := by intro h; omega
  cur := by intro h; omega

theorem AddStage.s1 {d0 d : Disk} {c : List Block} {x : Block} (p : AddStage d0 c x 0 d) :
    AddStage d0 c x 1 (d.apply (.putBlock x)) where
  pend := p.pend.write .putBlock
  noRem := p.noRem
  keep := p.keep
  b := by intro _; simp [Disk.apply]
  h := by intro h; omega
  s := by intro h; omega
  v := by intro h; omega
  cur := by intro h; omega

theorem AddStage.s2 {d0 d : Disk} {c : List Block} {x : Block} (p : AddStage d0 c x 1 d) :
    AddStage d0 c x 2 (d.apply (.putHeight x.height x)) where
  pend := p.pend.write .putHeight
  noRem := p.noRem
  keep := by
    intro k z hk hz
    show upd d.heights x.height (some x) k = some z
    rw [upd_other _ _ hk]; exact p.keep k z hk hz
  b := fun _ => p.b (by omega)
  h := by intro _; simp [Disk.apply]
  s := by intro h; omega
  v := by intro h; omega
  cur := by intro h; omega

theorem AddStage.s3 {d0 d : Disk} {c : List Block} {x : Block} (p : AddStage d0 c x 2 d) :
    AddStage d0 c x 3 (d.apply (.commitState x.hash)) where
  pend := p.pend.write .commitState
  noRem := p.noRem
  keep := p.keep
  b := fun _ => p.b (by omega)
  h := fun _ => p.h (by omega)
  s := by intro _; simp [Disk.apply]
  v := by intro h; omega
  cur := by intro h; omega

theorem AddStage.s4 {d0 d : Disk} {c : List Block} {x : Block} (p : AddStage d0 c x 3 d) :
    AddStage d0 c x 4 (d.apply (.putVerify x.height)) where
  pend := p.pend.write .putVerify
  noRem := p.noRem
  keep := p.keep
  b := fun _ => p.b (by omega)
  h := fun _ => p.h (by omega)
  s := fun _ => p.s (by omega)
  v := by intro _; simp [Disk.apply]
  cur := by intro h; omega

theorem AddStage.exec {d0 d : Disk} {c : List Block} {x : Block} (p : AddStage d0 c x 4 d) :
    AddStage d0 c x 4 (d.apply (.putExecuted x.txs x.hash)) where
  pend := p.pend.write .putExecuted
  noRem := p.noRem
  keep := p.keep
  b := p.b
  h := p.h
  s := p.s
  v := p.v
  cur := p.cur

theorem AddStage.s5 {d0 d : Disk} {c : List Block} {x : Block} (p : AddStage d0 c x 4 d) :
    AddStage d0 c x 5 (d.apply (.putCurrent x)) where
  pend := p.pend.write .putCurrentX
  noRem := p.noRem
  keep := p.keep
  b := fun _ => p.b (by omega)
  h := fun _ => p.h (by omega)
  s := fun _ => p.s (by omega)
  v := fun _ => p.v (by omega)
  cur := by intro _; rfl

theorem AddStage.finish {d0 d : Disk} {c : List Block} {x : Block} (p : AddStage d0 c x 5 d)
    (hx : ∀ t ∈ x.txs, d.executed t = some x.hash) : ChainInv (d.apply .delAddMark) (x :: c) := by
  have := p.pend.finish_added (p.b (by omega)) (p.h (by omega)) (p.v (by omega)) (p.s (by omega)) (p.cur (by omega)) hx
  have e : d.apply .delAddMark = { d with addMark := none, removeMark := none } := by
    cases d; simp only [Disk.apply]; congr; exact p.noRem
  rw [e]; exact this

theorem AddStage.recTo {d0 d : Disk} {c : List Block} {x : Block} {n : Nat} (p : AddStage d0 c x n d) : RecTo d c :=
  Or.inr ⟨x, p.pend⟩

/-- pool effect of inserting `b`: its transactions are executed in `b` and no longer pending -/
def Marked (b : Block) (d : Disk) (m : Mem) : Prop := ∀ t ∈ b.txs, d.executed t = some b.hash ∧ t ∉ m.pending

theorem insertAB_spec {T : Nat → Option Block} {s : St} {b y : Block} {c : List Block} (ha : s.crashed = false)
    (inv : Inv T s.disk s.mem c) (hp : b.pre = y.hash) (hy : c.head? = some y) (hh : y.height < b.height)
    (hn : s.disk.blocks b.hash = none) (hT : T b.hash = some b) (hfresh : ∀ z ∈ c, ∀ t ∈ b.txs, t ∉ z.txs) :
    Out (fun d m => Inv T d m (b :: c) ∧ Marked b d m ∧ m.future = s.mem.future ∧ m.verified = s.mem.verified ∧
          (∀ t ∈ s.mem.pending, t ∉ b.txs → t ∈ m.pending))
        (fun d => RecTo d c) (insertB (insertA s b) b) := by
  let d0 := s.disk
  let m0 := s.mem
  have h0 : Out (fun d m => d = d0 ∧ m = m0) (fun d => RecTo d c) s := Out.alive ha ⟨rfl, rfl⟩
  have h1 := h0.write (.putAddMark b) (Q := fun d m => AddStage d0 c b 0 d ∧ m = m0)
    (fun d m p => ⟨by rw [p.1]; exact AddStage.start inv.chain hy hp hh hn hfresh, p.2⟩)
    (fun d m p => Or.inl (by rw [p.1]; exact inv.chain))
  have h2 := h1.write (.putBlock b) (Q := fun d m => AddStage d0 c b 1 d ∧ m = m0)
    (fun d m p => ⟨p.1.s1, p.2⟩) (fun d m p => p.1.recTo)
  have h3 := h2.write (.putHeight b.height b) (Q := fun d m => AddStage d0 c b 2 d ∧ m = m0)
    (fun d m p => ⟨p.1.s2, p.2⟩) (fun d m p => p.1.recTo)
  have h4 := h3.write (.commitState b.hash) (Q := fun d m => AddStage d0 c b 3 d ∧ m = m0)
    (fun d m p => ⟨p.1.s3, p.2⟩) (fun d m p => p.1.recTo)
  have h5 := h4.write (.putVerify b.height) (Q := fun d m => AddStage d0 c b 4 d ∧ m = m0)
    (fun d m p => ⟨p.1.s4, p.2⟩) (fun d m p => p.1.recTo)
  have h6 : Out (fun d m => (AddStage d0 c b 4 d ∧ m = m0) ∧ ∀ t ∈ b.txs, d.executed t = some b.hash) (fun d => RecTo d c)
      (markTxs ((((((s.write (.putAddMark b)).write (.putBlock b)).write (.putHeight b.height b)).write
        (.commitState b.hash)).write (.putVerify b.height))) b) := by
    unfold markTxs
    by_cases he : b.txs.isEmpty = true
    · simp only [he, if_true]
      refine h5.mono (fun d m p => ⟨p, ?_⟩) (fun _ r => r)
      intro t ht
      have : b.txs = [] := List.isEmpty_iff.mp he
      rw [this] at ht; cases ht
    · simp only [he]
      exact h5.write _ (fun d m p => ⟨⟨p.1.exec, p.2⟩, by
        intro t ht; simp [Disk.apply, markExec, ht]⟩) (fun d m p => p.1.recTo)
  have h7 := h6.setMem (poolMem (markTxs ((((((s.write (.putAddMark b)).write (.putBlock b)).write (.putHeight b.height b)).write
        (.commitState b.hash)).write (.putVerify b.height))) b).mem b)
    (Q := fun d m => AddStage d0 c b 4 d ∧ (∀ t ∈ b.txs, d.executed t = some b.hash) ∧ m = poolMem m0 b)
    (fun p => ⟨p.1.1, p.2, by rw [p.1.2]⟩)
  have h8 := h7.write (.putCurrent b)
    (Q := fun d m => AddStage d0 c b 5 d ∧ (∀ t ∈ b.txs, d.executed t = some b.hash) ∧ m = poolMem m0 b)
    (fun d m p => ⟨p.1.s5, by simpa [Disk.apply] using p.2.1, p.2.2⟩) (fun d m p => p.1.recTo)
  have h9 := h8.setMem { (((markTxs ((((((s.write (.putAddMark b)).write (.putBlock b)).write (.putHeight b.height b)).write
        (.commitState b.hash)).write (.putVerify b.height))) b).setMem (poolMem (markTxs ((((((s.write (.putAddMark b)).write (.putBlock b)).write (.putHeight b.height b)).write
        (.commitState b.hash)).write (.putVerify b.height))) b).mem b)).write (.putCurrent b)).mem with latest := b }
    (Q := fun d m => AddStage d0 c b 5 d ∧ (∀ t ∈ b.txs, d.executed t = some b.hash) ∧ m = { poolMem m0 b with latest := b })
    (fun p => ⟨p.1, p.2.1, by rw [p.2.2]⟩)
  have h10 := h9.write .delAddMark
    (Q := fun d m => Inv T d m (b :: c) ∧ Marked b d m ∧ m.future = s.mem.future ∧ m.verified = s.mem.verified ∧
      (∀ t ∈ s.mem.pending, t ∉ b.txs → t ∈ m.pending)) ?_ (fun d m p => p.1.recTo)
  · exact h10
  · intro d m p
    obtain ⟨st, hex, hm⟩ := p
    subst hm
    refine ⟨⟨st.finish hex, rfl, ?_, ?_, ?_⟩, ?_, rfl, rfl, ?_⟩
    · intro k z hk
      have hk' : upd m0.top b.height (some b) k = some z := hk
      rcases upd_eq_some hk' with ⟨he, hv⟩ | ⟨hne, hm⟩
      · simp at hv; subst hv; subst he
        show (d.apply .delAddMark).heights b.height = some b
        simpa [Disk.apply] using st.h (by omega)
      · show (d.apply .delAddMark).heights k = some z
        simpa [Disk.apply] using st.keep k z hne (inv.cache k z hm)
    · intro k f hk
      exact inv.fut k f hk
    · intro z hz
      rcases List.mem_cons.mp hz with e | e
      · subst e; exact hT
      · exact inv.fromT z e
    · intro t ht
      refine ⟨by simpa [Disk.apply] using hex t ht, ?_⟩
      show t ∉ (m0.pending.filter (fun t => !(b.txs.contains t)))
      simp [List.mem_filter, ht]
    · intro t ht hnb
      show t ∈ (m0.pending.filter (fun t => !(b.txs.contains t)))
      simp [List.mem_filter, hnb]; exact ht


/-! ### the verified cache in `insertBlock` -/

theorem contains_lruAdd (l : List Nat) (k : Nat) : (lruAdd verifiedCap l k).contains k = true := by
  simp [lruAdd, verifiedCap]

/-- the state `insertBlock` continues with after a hit in the verified cache -/
def touchVerified (s : St) (b : Block) : St := s.setMem { s.mem with verified := lruGet s.mem.verified b.hash }

theorem insertBlock_hit (cont : St → Block → St) (s : St) (b : Block) (hv : s.mem.verified.contains b.hash = true) :
    insertBlock cont s b =
      match (insertB (insertA (touchVerified s b) b) b).mem.future b.hash with
      | some f => (cont (insertB (insertA (touchVerified s b) b) b) f, .succ)
      | none => (insertB (insertA (touchVerified s b) b) b, .succ) := by
  unfold insertBlock
  simp only
  have hmem : (insertA s b).mem = s.mem := by simp [insertA]
  have hc : saveStatesCache (insertA s b).mem.verified b = some (lruGet s.mem.verified b.hash) := by
    rw [hmem]; unfold saveStatesCache; rw [if_pos hv]
  rw [hc]
  simp only
  have e : (insertA s b).setMem { (insertA s b).mem with verified := lruGet s.mem.verified b.hash } =
      insertA (touchVerified s b) b := by
    unfold insertA touchVerified
    rw [writes_mem, writes_setMem_comm]
  rw [e]
  rfl

theorem touchVerified_inv {T : Nat → Option Block} {s : St} {b : Block} {c : List Block} (inv : Inv T s.disk s.mem c) :
    Inv T (touchVerified s b).disk (touchVerified s b).mem c :=
  ⟨inv.chain, inv.latest, inv.cache, inv.fut, inv.fromT⟩

end Rangers.Proofs.ChainStore
