import Rangers.Proofs.Evm12Logs
/-! C12: an induction principle over frame trees for world invariants, and two instances:
the log numbering (`LogsIndexed`) and well-formedness of the observation (`Obs.WF`). Core Lean only. -/
namespace Rangers.Model.Evm12

/-- `P` is kept by every primitive state access the frame entry points and opcodes perform -/
structure PrimInv (env : Env) (P : World → Prop) : Prop where
  setState : ∀ w a k v, P w → P (w.setState a k v)
  setNonce : ∀ w a n, P w → P (w.setNonce a n)
  createAccount : ∀ w a, P w → P (w.createAccount a)
  addBalance : ∀ w a v, P w → P (w.addBalance a v)
  subBalance : ∀ w a v, P w → P (w.subBalance a v)
  setCode : ∀ w a c, P w → P (w.setCode a c)
  suicide : ∀ w a, P w → P (w.suicide a)
  addLog : ∀ w a n t, P w → P (w.addLog a n t)
  setTransient : ∀ w a k v, P w → P (w.setTransient a k v)
  addAccess : ∀ w a, P w → P (w.addAccess a)
  selfdestructRefund : ∀ w a, P w → P (w.selfdestructRefund a)
  stake : ∀ w a n, P w → P (stakeEffect env a n w)
  unstake : ∀ w a n, P w → P (unstakeEffect env a n w)
  /-- `RevertToSnapshot` to a world that satisfied `P` -/
  revert : ∀ saved cur, P saved → P (env.rv saved cur)

variable {env : Env} {P : World → Prop}

theorem PrimInv.transfer (h : PrimInv env P) (w : World) (a b : Addr) (v : Nat) (hw : P w) : P (w.transfer a b v) :=
  h.addBalance _ _ _ (h.subBalance _ _ _ hw)

theorem PrimInv.iteCreate (h : PrimInv env P) (w : World) (t : Addr) (hw : P w) :
    P (if w.exists? t = true then w else w.createAccount t) := by
  split
  · exact hw
  · exact h.createAccount _ _ hw

/-- what the statements before `run` leave behind satisfies `P` (snapshot world and current world) -/
def Entry.all (P : World → Prop) : Entry → Prop
  | .fail w' _ => P w'
  | .skip w' => P w'
  | .enter saved w' _ _ _ => P saved ∧ P w'

theorem callEnter_inv (h : PrimInv env P) (depth : Nat) (ro : Bool) (self : Addr) (kind : CallKind)
    (target : Addr) (value : Nat) (w : World) (hw : P w) :
    (callEnter env depth ro self kind target value w).all P := by
  unfold callEnter
  by_cases hd : depth > CallCreateDepth
  · simp only [hd, ↓reduceIte]; exact hw
  · simp only [hd, ↓reduceIte]
    cases kind <;> simp only
    · by_cases h1 : (value != 0 && !w.canTransfer self value) = true
      · simp only [h1, ↓reduceIte]; exact hw
      · simp only [h1, Bool.false_eq_true, ↓reduceIte]
        by_cases h2 : (!w.exists? target && !env.isPrecompile target && value == 0) = true
        · simp only [h2, ↓reduceIte]; exact hw
        · simp only [h2, Bool.false_eq_true, ↓reduceIte]
          exact ⟨hw, h.transfer _ _ _ _ (h.iteCreate w target hw)⟩
    · by_cases h1 : (!w.canTransfer self value) = true
      · simp only [h1, ↓reduceIte]; exact hw
      · simp only [h1, Bool.false_eq_true, ↓reduceIte]; exact ⟨hw, hw⟩
    · exact ⟨hw, hw⟩
    · exact ⟨hw, h.addBalance _ _ _ hw⟩

theorem authEnter_inv (h : PrimInv env P) (depth : Nat) (ro : Bool) (au target : Addr) (value : Nat) (w : World)
    (hw : P w) : (authEnter env depth ro au target value w).all P := by
  unfold authEnter
  by_cases hd : depth > CallCreateDepth
  · simp only [hd, ↓reduceIte]; exact hw
  · simp only [hd, ↓reduceIte]
    by_cases h1 : (value != 0 && !w.canTransfer env.origin value) = true
    · simp only [h1, ↓reduceIte]; exact hw
    · simp only [h1, Bool.false_eq_true, ↓reduceIte]
      have h0 := h.setNonce w au (w.getNonce au + 1) hw
      by_cases h2 : (!(w.setNonce au (w.getNonce au + 1)).exists? target && !env.isPrecompile target
          && value == 0) = true
      · simp only [h2, ↓reduceIte]; exact h0
      · simp only [h2, Bool.false_eq_true, ↓reduceIte]
        exact ⟨h0, h.transfer _ _ _ _ (h.iteCreate _ target h0)⟩

theorem createEnter_inv (h : PrimInv env P) (depth : Nat) (ro : Bool) (self : Addr) (value : Nat) (addr : Addr)
    (w : World) (hw : P w) : (createEnter env depth ro self value addr w).all P := by
  unfold createEnter
  by_cases hd : depth > CallCreateDepth
  · simp only [hd, ↓reduceIte]; exact hw
  · simp only [hd, ↓reduceIte]
    by_cases h1 : (!w.canTransfer self value) = true
    · simp only [h1, ↓reduceIte]; exact hw
    · simp only [h1, Bool.false_eq_true, ↓reduceIte]
      have h0 : P (if env.createBumpsNonce = true then w.setNonce self (w.getNonce self + 1) else w) := by
        split
        · exact h.setNonce _ _ _ hw
        · exact hw
      generalize (if env.createBumpsNonce = true then w.setNonce self (w.getNonce self + 1) else w) = w1 at h0
      have h2 := h.addAccess w1 addr h0
      split
      · exact h2
      · exact ⟨h2, h.transfer _ _ _ _ (h.setNonce _ _ _ (h.createAccount _ _ h2))⟩

theorem runCallee_inv (callee : Callee) (pe : Option Err) (k : Nat → Bool → Addr → World → Result)
    (hk : ∀ d r s w0, P w0 → P (k d r s w0).world) (depth : Nat) (ro : Bool) (self : Addr) (w : World) (hw : P w) :
    P (runCallee callee pe k depth ro self w).world := by
  cases callee
  · exact hw
  · exact hk _ _ _ _ hw
  · exact hw

theorem callFrameK_inv (h : PrimInv env P) (depth : Nat) (ro : Bool) (self : Addr) (kind : CallKind) (target : Addr)
    (value : Nat) (k : Nat → Bool → Addr → World → Result) (pe : Option Err)
    (hk : ∀ d r s w0, P w0 → P (k d r s w0).world) (w : World) (hw : P w) :
    P (callFrameK env depth ro self kind target value k pe w).world := by
  have hs := callEnter_inv h depth ro self kind target value w hw
  unfold callFrameK
  cases he : callEnter env depth ro self kind target value w with
  | fail w' e => rw [he] at hs; exact hs
  | skip w' => rw [he] at hs; exact hs
  | enter saved w' self' ro' callee =>
    rw [he] at hs
    show P (callExit env kind saved (runCallee callee pe k depth ro' self' w')).world
    unfold callExit
    simp only
    split
    · exact h.revert _ _ hs.1
    · exact runCallee_inv callee pe k hk _ _ _ _ hs.2

theorem authFrameK_inv (h : PrimInv env P) (depth : Nat) (ro : Bool) (au : Option Addr) (n : Nat) (target : Addr)
    (value : Nat) (k : Nat → Bool → Addr → World → Result) (pe : Option Err)
    (hk : ∀ d r s w0, P w0 → P (k d r s w0).world) (w : World) (hw : P w) :
    P (authFrameK env depth ro au n target value k pe w).world := by
  unfold authFrameK
  cases au with
  | none => exact hw
  | some a =>
    simp only
    split
    · exact hw
    · have hs := authEnter_inv h depth ro a target value w hw
      cases he : authEnter env depth ro a target value w with
      | fail w' e => rw [he] at hs; exact hs
      | skip w' => rw [he] at hs; exact hs
      | enter saved w' self' ro' callee =>
        rw [he] at hs
        simp only [authExit]
        split
        · exact h.revert _ _ hs.1
        · exact runCallee_inv callee pe k hk _ _ _ _ hs.2

theorem createExit_inv (h : PrimInv env P) (saved : World) (addr : Addr) (r : Result) (hs : P saved) (hr : P r.world) :
    P (createExit env saved addr r).world := by
  have hst : P (createStored addr r).1 := by
    unfold createStored
    split
    · split
      · exact h.setCode _ _ _ hr
      · exact hr
      · exact h.setCode _ _ _ hr
    · exact hr
  unfold createExit
  simp only
  split
  · exact h.revert _ _ hs
  · exact hst

theorem createFrameK_inv (h : PrimInv env P) (depth : Nat) (ro : Bool) (self : Addr) (two : Bool) (salt value : Nat)
    (k : Nat → Bool → Addr → World → Result) (hk : ∀ d r s w0, P w0 → P (k d r s w0).world) (w : World) (hw : P w) :
    P (createFrameK env depth ro self two salt value k w).world := by
  unfold createFrameK
  simp only
  have hs := createEnter_inv h depth ro self value (createAddr w self two salt) w hw
  cases he : createEnter env depth ro self value (createAddr w self two salt) w with
  | fail w' e => rw [he] at hs; exact hs
  | skip w' => rw [he] at hs; exact hs
  | enter saved w' self' ro' callee =>
    rw [he] at hs
    exact createExit_inv h saved _ _ hs.1 (hk _ _ _ _ hs.2)

/-- **Frame induction principle**: a predicate kept by every primitive state access and by reverting to a
    world that satisfied it is kept by every frame body, whatever the tree, depth, and failure pattern. -/
theorem run_inv (h : PrimInv env P) :
    ∀ (f : Frame) (depth : Nat) (ro : Bool) (self : Addr) (w : World) (clogs : List Log) (tr : List Event),
      P w → P (run env depth ro self w clogs tr f).world := by
  intro f
  induction f with
  | done e => intro depth ro self w clogs tr hw; cases e <;> exact hw
  | sstore k v rest ih =>
    intro depth ro self w clogs tr hw
    rw [run]; split
    · exact hw
    · exact ih _ _ _ _ _ _ (h.setState _ _ _ _ hw)
  | tstore k v rest ih =>
    intro depth ro self w clogs tr hw
    rw [run]; split
    · exact hw
    · split
      · exact hw
      · exact ih _ _ _ _ _ _ (h.setTransient _ _ _ _ hw)
  | log n tag rest ih =>
    intro depth ro self w clogs tr hw
    rw [run]; split
    · exact hw
    · exact ih _ _ _ _ _ _ (h.addLog _ _ _ _ hw)
  | selfdestruct ben =>
    intro depth ro self w clogs tr hw
    rw [run]; split
    · exact hw
    · exact h.suicide _ _ (h.addBalance _ _ _ (h.selfdestructRefund _ _ hw))
  | call id kind target value body rest ihb ihr =>
    intro depth ro self w clogs tr hw
    rw [run]; split
    · exact hw
    · exact ihr _ _ _ _ _ _ (callFrameK_inv h depth ro self kind target value _ _
        (fun d r s w0 hw0 => ihb d r s w0 [] [] hw0) w hw)
  | create id two salt value init rest ihb ihr =>
    intro depth ro self w clogs tr hw
    rw [run]
    by_cases hb : roBlocked ro (if two = true then Op.create2 else Op.create) value = true
    · simp only [hb, ↓reduceIte]; exact hw
    · simp only [hb, Bool.false_eq_true, ↓reduceIte]
      exact ihr _ _ _ _ _ _ (createFrameK_inv h depth ro self two salt value _
        (fun d r s w0 hw0 => ihb d r s w0 [] [] hw0) w hw)
  | authcall id au n target value body rest ihb ihr =>
    intro depth ro self w clogs tr hw
    rw [run]; split
    · exact hw
    · exact ihr _ _ _ _ _ _ (authFrameK_inv h depth ro au n target value _ _
        (fun d r s w0 hw0 => ihb d r s w0 [] [] hw0) _ (h.addAccess _ _ hw))
  | stake a rest ih =>
    intro depth ro self w clogs tr hw
    rw [run]; split
    · exact hw
    · exact ih _ _ _ _ _ _ (h.stake _ _ _ hw)
  | unstake a rest ih =>
    intro depth ro self w clogs tr hw
    rw [run]; split
    · exact hw
    · exact ih _ _ _ _ _ _ (h.unstake _ _ _ hw)
  | unstakeall rest ih =>
    intro depth ro self w clogs tr hw
    rw [run]; split
    · exact hw
    · split
      · exact hw
      · exact ih _ _ _ _ _ _ (h.unstake _ _ _ hw)
  | stakenum a rest ih =>
    intro depth ro self w clogs tr hw
    rw [run]; split
    · exact hw
    · split
      · exact hw
      · exact ih _ _ _ _ _ _ hw

end Rangers.Model.Evm12
