import Rangers.Model.Miner
/-! Helper lemmas for C20: storage algebra, failure leaves the state alone. Core Lean only. -/
namespace Rangers.Miner

theorem u64_u64be (n : Nat) : u64 (u64be n) = n % 2 ^ 64 := by
  simp [u64, u64be, beToNat]
  omega

theorem u64be_length (n : Nat) : (u64be n).length = 8 := by simp [u64be]

theorem u64_nil : u64 [] = 0 := by simp [u64]

theorem get_set (s : Store) (k v q : Bytes) : (s.set k v).get q = if q = k then v else s.get q := by
  simp only [Store.get, Store.set, List.lookup_cons]
  by_cases h : q = k
  · simp [h]
  · have : (q == k) = false := by simpa using h
    simp [this, h]

theorem get_set_same (s : Store) (k v : Bytes) : (s.set k v).get k = v := by simp [get_set]

theorem get_set_ne (s : Store) (k v q : Bytes) (h : q ≠ k) : (s.set k v).get q = s.get q := by simp [get_set, h]

@[simp] theorem write_live (st : State) (d d' : DbId) (k v : Bytes) :
    (st.write d k v).live d' = if d' = d then (st.live d).set k v else st.live d' := by
  simp only [State.write, State.setLive]

@[simp] theorem write_trie (st : State) (d : DbId) (k v : Bytes) : (st.write d k v).trie = st.trie := rfl
@[simp] theorem write_bal (st : State) (d : DbId) (k v : Bytes) : (st.write d k v).bal = st.bal := rfl
@[simp] theorem write_code (st : State) (d : DbId) (k v : Bytes) : (st.write d k v).code = st.code := rfl
@[simp] theorem write_escrow (st : State) (d : DbId) (k v : Bytes) : (st.write d k v).escrow = st.escrow := rfl
@[simp] theorem write_pending (st : State) (d : DbId) (k v : Bytes) : (st.write d k v).pending = st.pending := rfl
@[simp] theorem write_height (st : State) (d : DbId) (k v : Bytes) : (st.write d k v).height = st.height := rfl

theorem write_get (st : State) (d d' : DbId) (k v q : Bytes) :
    ((st.write d k v).live d').get q = if d' = d ∧ q = k then v else (st.live d').get q := by
  rw [write_live]
  by_cases hd : d' = d
  · subst hd; simp [get_set]
  · simp [hd]


@[simp] theorem setBal_live (st : State) (a : Bytes) (n : Nat) : (st.setBal a n).live = st.live := rfl
@[simp] theorem setBal_trie (st : State) (a : Bytes) (n : Nat) : (st.setBal a n).trie = st.trie := rfl
@[simp] theorem setBal_code (st : State) (a : Bytes) (n : Nat) : (st.setBal a n).code = st.code := rfl
@[simp] theorem setBal_escrow (st : State) (a : Bytes) (n : Nat) : (st.setBal a n).escrow = st.escrow := rfl
@[simp] theorem setBal_pending (st : State) (a : Bytes) (n : Nat) : (st.setBal a n).pending = st.pending := rfl
@[simp] theorem setBal_height (st : State) (a : Bytes) (n : Nat) : (st.setBal a n).height = st.height := rfl

theorem balOf_setBal (st : State) (a b : Bytes) (n : Nat) :
    (st.setBal a n).balOf b = if b = a then n else st.balOf b := by
  simp only [State.balOf, State.setBal, List.lookup_cons]
  by_cases h : b = a
  · simp [h]
  · have : (b == a) = false := by simpa using h
    simp [this, h]

/-! ### a failing `Execute` returns the state it was given -/

theorem addMiner_fail (cfg : Cfg) (st : State) (p : Bytes) (i : Info) (s : Nat) (a : Bytes) :
    (addMiner cfg st p i s a).1 ≠ "ok" → (addMiner cfg st p i s a).2 = st := by
  unfold addMiner
  repeat' split
  all_goals simp

theorem execApply_fail (cfg : Cfg) (st : State) (src id : Bytes) (t s : Nat) (ac pk vrf : Bytes) :
    (execApply cfg st src id t s ac pk vrf).1 ≠ "ok" → (execApply cfg st src id t s ac pk vrf).2 = st := by
  unfold execApply
  split
  · simp
  · split
    · simp
    · exact addMiner_fail _ _ _ _ _ _

theorem addStake_fail (cfg : Cfg) (st : State) (p id : Bytes) (dl : Nat) :
    (addStake cfg st p id dl).1 ≠ "ok" → (addStake cfg st p id dl).2 = st := by
  unfold addStake
  repeat' split
  all_goals simp

theorem execAdd_fail (cfg : Cfg) (st : State) (src id : Bytes) (dl : Nat) :
    (execAdd cfg st src id dl).1 ≠ "ok" → (execAdd cfg st src id dl).2 = st := by
  unfold execAdd
  split
  · simp
  · split
    · simp
    · exact addStake_fail _ _ _ _ _

theorem execRefund_fail (cfg : Cfg) (st : State) (src id : Bytes) (am : Nat) :
    (execRefund cfg st src id am).1 ≠ "ok" → (execRefund cfg st src id am).2 = st := by
  unfold execRefund
  repeat' split
  all_goals simp

theorem execChacc_fail (cfg : Cfg) (st : State) (src id na : Bytes) :
    (execChacc cfg st src id na).1 ≠ "ok" → (execChacc cfg st src id na).2 = st := by
  unfold execChacc
  repeat' split
  all_goals simp

theorem execute_fail (cfg : Cfg) (st : State) (tx : Tx) (h : (execute cfg st tx).1 ≠ "ok") :
    (execute cfg st tx).2 = st := by
  cases tx with
  | apply src id t s ac pk vrf => exact execApply_fail _ _ _ _ _ _ _ _ _ h
  | add src id dl => exact execAdd_fail _ _ _ _ _ h
  | refund src id am => exact execRefund_fail _ _ _ _ _ h
  | chacc src id na => exact execChacc_fail _ _ _ _ _ h
  | bad k src => cases k <;> rfl

end Rangers.Miner
