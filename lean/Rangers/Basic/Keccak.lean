import Rangers.Basic.Hex
/-
Executable Keccak-256 (the pre-NIST padding 0x01 used by Ethereum / go-rangers
`common/sha3.NewKeccak256`). Core Lean only; 25 UInt64 lanes in an `Array`.
Checked against the Go implementation in every C02 correspondence run
(op `keccak <hex>`). Theorems never reason about its internals: the trie model
takes the hash function as a parameter.
-/
namespace Rangers.Keccak

def roundConstants : Array UInt64 := #[
  0x0000000000000001, 0x0000000000008082, 0x800000000000808a, 0x8000000080008000,
  0x000000000000808b, 0x0000000080000001, 0x8000000080008081, 0x8000000000008009,
  0x000000000000008a, 0x0000000000000088, 0x0000000080008009, 0x000000008000000a,
  0x000000008000808b, 0x800000000000008b, 0x8000000000008089, 0x8000000000008003,
  0x8000000000008002, 0x8000000000000080, 0x000000000000800a, 0x800000008000000a,
  0x8000000080008081, 0x8000000000008080, 0x0000000080000001, 0x8000000080008008]

def rotc : Array UInt64 := #[1,3,6,10,15,21,28,36,45,55,2,14,27,41,56,8,25,43,62,18,39,61,20,44]
def piln : Array Nat := #[10,7,11,17,18,3,5,16,8,21,24,4,15,23,19,13,12,2,20,14,22,9,6,1]

@[inline] def rol (x : UInt64) (n : UInt64) : UInt64 := (x <<< n) ||| (x >>> (64 - n))

@[inline] def g (a : Array UInt64) (i : Nat) : UInt64 := a.getD i 0

/-- θ step. -/
def theta (a : Array UInt64) : Array UInt64 :=
  let c0 := g a 0 ^^^ g a 5 ^^^ g a 10 ^^^ g a 15 ^^^ g a 20
  let c1 := g a 1 ^^^ g a 6 ^^^ g a 11 ^^^ g a 16 ^^^ g a 21
  let c2 := g a 2 ^^^ g a 7 ^^^ g a 12 ^^^ g a 17 ^^^ g a 22
  let c3 := g a 3 ^^^ g a 8 ^^^ g a 13 ^^^ g a 18 ^^^ g a 23
  let c4 := g a 4 ^^^ g a 9 ^^^ g a 14 ^^^ g a 19 ^^^ g a 24
  let d0 := c4 ^^^ rol c1 1
  let d1 := c0 ^^^ rol c2 1
  let d2 := c1 ^^^ rol c3 1
  let d3 := c2 ^^^ rol c4 1
  let d4 := c3 ^^^ rol c0 1
  #[g a 0 ^^^ d0, g a 1 ^^^ d1, g a 2 ^^^ d2, g a 3 ^^^ d3, g a 4 ^^^ d4,
    g a 5 ^^^ d0, g a 6 ^^^ d1, g a 7 ^^^ d2, g a 8 ^^^ d3, g a 9 ^^^ d4,
    g a 10 ^^^ d0, g a 11 ^^^ d1, g a 12 ^^^ d2, g a 13 ^^^ d3, g a 14 ^^^ d4,
    g a 15 ^^^ d0, g a 16 ^^^ d1, g a 17 ^^^ d2, g a 18 ^^^ d3, g a 19 ^^^ d4,
    g a 20 ^^^ d0, g a 21 ^^^ d1, g a 22 ^^^ d2, g a 23 ^^^ d3, g a 24 ^^^ d4]

/-- ρ and π steps (the usual in-place chain starting from lane 1). -/
def rhoPi (a : Array UInt64) : Array UInt64 :=
  let rec go (i : Nat) (fuel : Nat) (t : UInt64) (a : Array UInt64) : Array UInt64 :=
    match fuel with
    | 0 => a
    | fuel + 1 =>
      let j := piln.getD i 0
      let b := g a j
      go (i + 1) fuel b (a.setIfInBounds j (rol t (rotc.getD i 0)))
  go 0 24 (g a 1) a

@[inline] def chi5 (b0 b1 b2 b3 b4 : UInt64) : Array UInt64 → Array UInt64 := fun out =>
  ((((out.push (b0 ^^^ (~~~ b1 &&& b2))).push (b1 ^^^ (~~~ b2 &&& b3))).push (b2 ^^^ (~~~ b3 &&& b4))).push
    (b3 ^^^ (~~~ b4 &&& b0))).push (b4 ^^^ (~~~ b0 &&& b1))

/-- χ step. -/
def chi (a : Array UInt64) : Array UInt64 :=
  let o := Array.mkEmpty 25
  let o := chi5 (g a 0) (g a 1) (g a 2) (g a 3) (g a 4) o
  let o := chi5 (g a 5) (g a 6) (g a 7) (g a 8) (g a 9) o
  let o := chi5 (g a 10) (g a 11) (g a 12) (g a 13) (g a 14) o
  let o := chi5 (g a 15) (g a 16) (g a 17) (g a 18) (g a 19) o
  chi5 (g a 20) (g a 21) (g a 22) (g a 23) (g a 24) o

def round (a : Array UInt64) (rc : UInt64) : Array UInt64 :=
  let a := chi (rhoPi (theta a))
  a.setIfInBounds 0 (g a 0 ^^^ rc)

/-- Keccak-f[1600]. -/
def permute (a : Array UInt64) : Array UInt64 := roundConstants.foldl round a

/-- little-endian lane from (up to) 8 bytes -/
def laneOf (bs : List UInt8) : UInt64 :=
  (bs.take 8).foldr (fun b acc => (acc <<< 8) ||| b.toUInt64) 0

def rate : Nat := 136

/-- XOR one 136-byte block into the first 17 lanes. -/
def absorbBlock (st : Array UInt64) (blk : List UInt8) : Array UInt64 :=
  let rec go (i : Nat) (fuel : Nat) (bs : List UInt8) (st : Array UInt64) : Array UInt64 :=
    match fuel with
    | 0 => st
    | fuel + 1 => go (i + 1) fuel (bs.drop 8) (st.setIfInBounds i (g st i ^^^ laneOf bs))
  go 0 17 blk st

/-- multi-rate padding with domain byte 0x01 (original Keccak). -/
def pad (msg : List UInt8) : List UInt8 :=
  let r := msg.length % rate
  let padLen := rate - r
  if padLen = 1 then msg ++ [0x81]
  else msg ++ [0x01] ++ List.replicate (padLen - 2) 0 ++ [0x80]

def absorb (st : Array UInt64) (bs : List UInt8) (fuel : Nat) : Array UInt64 :=
  match fuel with
  | 0 => st
  | fuel + 1 =>
    if bs.isEmpty then st
    else absorb (permute (absorbBlock st (bs.take rate))) (bs.drop rate) fuel

def laneBytes (x : UInt64) : List UInt8 :=
  [x.toUInt8, (x >>> 8).toUInt8, (x >>> 16).toUInt8, (x >>> 24).toUInt8,
   (x >>> 32).toUInt8, (x >>> 40).toUInt8, (x >>> 48).toUInt8, (x >>> 56).toUInt8]

/-- Keccak-256 of a byte string (32 bytes). -/
def keccak256 (msg : Bytes) : Bytes :=
  let p := pad msg
  let st := absorb (Array.replicate 25 0) p (p.length / rate + 1)
  laneBytes (g st 0) ++ laneBytes (g st 1) ++ laneBytes (g st 2) ++ laneBytes (g st 3)

end Rangers.Keccak
