/-
Hex and small parsing helpers shared by every driver. Core Lean only.
Byte strings travel on the line protocol as lower-case hex, "-" for empty.
-/
namespace Rangers

abbrev Bytes := List UInt8

def hexDigit (n : Nat) : Char :=
  if n < 10 then Char.ofNat (48 + n) else Char.ofNat (87 + n)

def hexOfByte (b : UInt8) : String :=
  String.ofList [hexDigit (b.toNat / 16), hexDigit (b.toNat % 16)]

def toHex (bs : Bytes) : String :=
  if bs.isEmpty then "-" else String.join (bs.map hexOfByte)

def hexVal? (c : Char) : Option Nat :=
  if '0' ≤ c ∧ c ≤ '9' then some (c.toNat - 48)
  else if 'a' ≤ c ∧ c ≤ 'f' then some (c.toNat - 87)
  else if 'A' ≤ c ∧ c ≤ 'F' then some (c.toNat - 55)
  else none

def hexPairs? : List Char → Option Bytes
  | [] => some []
  | [_] => none
  | a :: b :: rest => do
    let x ← hexVal? a
    let y ← hexVal? b
    let r ← hexPairs? rest
    pure (UInt8.ofNat (x * 16 + y) :: r)

/-- Parse a hex token; "-" is the empty byte string. `none` on malformed input
    (the driver then answers `bad-op`, it never defaults). -/
def ofHex? (s : String) : Option Bytes :=
  if s == "-" then some [] else hexPairs? s.toList

/-- Big-endian bytes to Nat. -/
def beToNat (bs : Bytes) : Nat := bs.foldl (fun acc b => acc * 256 + b.toNat) 0

/-- Minimal big-endian bytes of a Nat (empty for 0), like `big.Int.Bytes()`. -/
def natToBE (n : Nat) : Bytes :=
  let rec go (fuel : Nat) (n : Nat) (acc : Bytes) : Bytes :=
    match fuel with
    | 0 => acc
    | fuel + 1 => if n = 0 then acc else go fuel (n / 256) (UInt8.ofNat (n % 256) :: acc)
  go (n + 1) n []

/-- Left-pad with zero bytes to length `n` (no truncation). -/
def padLeft (n : Nat) (bs : Bytes) : Bytes := List.replicate (n - bs.length) 0 ++ bs

def splitWords (line : String) : List String :=
  (line.splitOn " ").filter (fun w => w ≠ "")

end Rangers
