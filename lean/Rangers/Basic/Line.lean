/-
Line-protocol loop: one op per input line, one output line per op.
-/
namespace Rangers

def trimLine (s : String) : String :=
  let cs := s.toList.reverse.dropWhile (fun c => c == '\n' || c == '\r' || c == ' ')
  String.ofList cs.reverse

partial def lineLoop {σ : Type} (h : IO.FS.Stream) (out : IO.FS.Stream)
    (step : σ → String → σ × String) (s : σ) : IO Unit := do
  let line ← h.getLine
  if line.isEmpty then
    out.flush
    return ()
  let (s', o) := step s (trimLine line)
  out.putStrLn o
  lineLoop h out step s'

/-- Run a stateful line driver on stdin/stdout. -/
def runLines {σ : Type} (init : σ) (step : σ → String → σ × String) : IO Unit := do
  let i ← IO.getStdin
  let o ← IO.getStdout
  lineLoop i o step init

end Rangers
