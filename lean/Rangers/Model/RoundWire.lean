import Rangers.Basic.Hex
import Rangers.Model.Round
/-
Field-level decoding of a verify message, after the protobuf runtime has split the packet into its
byte fields (src/consensus/net/msg_decode.go `UnMarshalConsensusVerifyMessage`, `pbToSignData`;
`common.BytesToHash`; `groupsig.ID.Deserialize/Serialize/IsValid`; `groupsig.Signature.Deserialize`,
`bn256.G1.Unmarshal`'s length guard). Core Lean only.

The protobuf layer itself (required fields present, well-formed varints) stays the `Wire`
constructors of `Model/Round.lean`; this file is what the node's own code does with the bytes.
-/
namespace Rangers.Model.Round
open Rangers

/-- `common.BytesToHash` / `Hash.SetBytes`: longer input is cropped from the LEFT (the last 32 bytes
are kept), shorter input is left-padded with zeros. -/
def bytesToHash (b : Bytes) : Bytes :=
  if b.length > 32 then b.drop (b.length - 32) else padLeft 32 b

/-- `ID.Deserialize` = `big.Int.SetBytes`: the id is the big-endian value; leading zero bytes and the
length of the field do not matter. -/
def idOfBytes (b : Bytes) : Nat := beToNat b

/-- `ID.Serialize` (hence `GetHexString`, evaluated in the first log line of `round1.Update`) panics
iff the minimal big-endian form is longer than 32 bytes, i.e. iff the value is ≥ 2^256. -/
def idOversize (b : Bytes) : Bool := decide (2 ^ 256 ≤ idOfBytes b)

/-- `Signature.Deserialize` + `G1.Unmarshal`: an empty field is an error, fewer than 64 bytes make
`Unmarshal` fail before it allocates the point — the signature stays nil. 64 bytes or more always leave
a non-nil point (possibly not on the curve; bytes past 64 are ignored). -/
def sigIsNil (b : Bytes) : Bool := decide (b.length < 64)

/-- The byte fields of a `ConsensusVerifyMessage` whose `Sign` sub-message is present. -/
structure VFields where
  blockHash : Bytes
  randomSign : Bytes
  dataHash : Bytes
  dataSign : Bytes
  signMember : Bytes

/-- What the decoder hands to `OnMessageVerify`. -/
structure VDecoded where
  blockHash : Bytes
  dataHash : Bytes
  signer : Nat
  oversize : Bool
  signerNonZero : Bool
  sigNil : Bool
  randNil : Bool
  deriving DecidableEq, Repr

/-- `pbToSignData` returns nil for an empty `DataSign` (the only error `Signature.Deserialize` reports),
the caller dereferences it: panic, recovered by `ConsensusHandler.Handle`, packet dropped. Nothing else
is rejected at this level. -/
def decodeFields (f : VFields) : Option VDecoded :=
  if f.dataSign.isEmpty then none
  else some
    { blockHash := bytesToHash f.blockHash
      dataHash := bytesToHash f.dataHash
      signer := idOfBytes f.signMember
      oversize := idOversize f.signMember
      signerNonZero := decide (idOfBytes f.signMember ≠ 0)
      sigNil := sigIsNil f.dataSign
      randNil := sigIsNil f.randomSign }

/-- The shape fields of the round's `VMsg` this decoding determines. -/
def VDecoded.idShape (d : VDecoded) : IdShape := if d.oversize then .oversize else .ok

end Rangers.Model.Round
