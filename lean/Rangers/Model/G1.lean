import Rangers.Basic.Hex
import Rangers.Model.ModArith
/-!
Executable mirror of what `bn256.G1` exposes (core Lean only): affine points of
`y² = x³ + b` over `Nat` mod `p`, with `add`, `double`, `neg`, `mul`, `marshal`,
`unmarshal`, `isOnCurve`.  `p` and `b` are parameters (`Generated.Bn256.fieldP`,
`curveB` in the driver).

The Go code works in Jacobian coordinates on Montgomery-encoded limbs; what it
*exposes* (through `Marshal`) is the affine point, and its add/double formulas
(add-2007-bl, dbl-2009-l) are the chord/tangent rule written projectively — they
never use the curve equation — so this affine transcription agrees with it on
every pair of coordinates, on the curve or not (checked by the correspondence run,
which also feeds off-curve points). Case structure kept from `curve.go`:
* `Add`: infinity on either side returns the other; equal `x` and equal `y` doubles;
  equal `x`, different `y` gives infinity (`z = … · h = 0`).
* `Double`: `y = 0` gives infinity (`z = 2·y·z = 0`).
* `Mul`: MSB-first double-and-add over `bitLen .. 0` of the *unreduced* scalar.
* `Unmarshal`: needs 64 bytes, ignores the rest, reduces each coordinate mod `p` (no range
  check), `(0,0)` is infinity, otherwise the on-curve test; on failure the receiver *keeps*
  the off-curve coordinates (and `Signature.Deserialize` drops the error).
-/
namespace Rangers.Model.G1
open Rangers Rangers.Model.ModArith

inductive Point where
  | inf
  | aff (x y : Nat)
  deriving Repr, DecidableEq, BEq

structure Curve where
  p : Nat
  b : Nat

def fadd (c : Curve) (a b : Nat) : Nat := (a + b) % c.p
def fsub (c : Curve) (a b : Nat) : Nat := (a + (c.p - b % c.p)) % c.p
def fmul (c : Curve) (a b : Nat) : Nat := (a * b) % c.p
/-- Field inverse (`0` for non-invertible input, as `gfP.Invert` = `a^(p-2)` gives for `0`). -/
def finv (c : Curve) (a : Nat) : Nat :=
  match modInverse (a % c.p) c.p with
  | some v => v
  | none => 0

def isOnCurve (c : Curve) : Point → Bool
  | .inf => true
  | .aff x y => fmul c y y == fadd c (fmul c (fmul c x x) x) (c.b % c.p)

def double (c : Curve) : Point → Point
  | .inf => .inf
  | .aff x y =>
    if y = 0 then .inf
    else
      let l := fmul c (fmul c 3 (fmul c x x)) (finv c (fmul c 2 y))
      let x3 := fsub c (fsub c (fmul c l l) x) x
      let y3 := fsub c (fmul c l (fsub c x x3)) y
      .aff x3 y3

def add (c : Curve) : Point → Point → Point
  | .inf, q => q
  | a, .inf => a
  | .aff x1 y1, .aff x2 y2 =>
    if x1 = x2 then
      if y1 = y2 then double c (.aff x1 y1) else .inf
    else
      let l := fmul c (fsub c y2 y1) (finv c (fsub c x2 x1))
      let x3 := fsub c (fsub c (fmul c l l) x1) x2
      let y3 := fsub c (fmul c l (fsub c x1 x3)) y1
      .aff x3 y3

def neg (c : Curve) : Point → Point
  | .inf => .inf
  | .aff x y => .aff x (fsub c 0 y)

/-- `curvePoint.Mul`: `for i := BitLen; i >= 0; i-- { t = 2·sum; if bit i { sum = t + a } else { sum = t } }`. -/
def mulAux (c : Curve) (a : Point) (k : Nat) : Nat → Point → Point
  | 0, sum =>
    let t := double c sum
    if k.testBit 0 then add c t a else t
  | i + 1, sum =>
    let t := double c sum
    mulAux c a k i (if k.testBit (i + 1) then add c t a else t)

def bitLen (n : Nat) : Nat := if n = 0 then 0 else Nat.log2 n + 1

def mul (c : Curve) (a : Point) (k : Nat) : Point := mulAux c a k (bitLen k) .inf

/-- `G1.Marshal`: 64 bytes, all zero for infinity. -/
def marshal : Point → Bytes
  | .inf => List.replicate 64 0
  | .aff x y => padLeft 32 (natToBE x) ++ padLeft 32 (natToBE y)

inductive Unm where
  | ok (pt : Point)
  | short
  | malformed (pt : Point)
  deriving Repr, DecidableEq

/-- `G1.Unmarshal`. -/
def unmarshal (c : Curve) (m : Bytes) : Unm :=
  if m.length < 64 then .short
  else
    let x := beToNat (m.take 32) % c.p
    let y := beToNat ((m.drop 32).take 32) % c.p
    if x = 0 ∧ y = 0 then .ok .inf
    else if isOnCurve c (.aff x y) then .ok (.aff x y) else .malformed (.aff x y)

/-! ### `groupsig.Signature` around a `bn256.G1` (`sig.go`) — `none` is the nil point pointer -/

/-- `Signature.Deserialize` / `DeserializeSign`: empty input is an error before the point is touched;
    otherwise `G1.Unmarshal` with its error DROPPED — fewer than 64 bytes leave the pointer nil, an
    off-curve pair stays in the value. -/
def deserializeSign (c : Curve) (b : Bytes) : Option Point :=
  if b.length = 0 then none
  else match unmarshal c b with
    | .ok p => some p
    | .malformed p => some p
    | .short => none

/-- `Signature.Serialize`: empty for the nil point, else `Marshal`. -/
def serializeSign : Option Point → Bytes
  | none => []
  | some p => marshal p

/-- `Signature.IsValid`: non-empty serialisation and on the curve (infinity counts as on the curve). -/
def sigIsValid (c : Curve) : Option Point → Bool
  | none => false
  | some p => isOnCurve c p

/-- `Sign(sec, msg)` given `H(msg)`: `ScalarMult(H(m), sec)` with the unreduced key. -/
def sign (c : Curve) (hm : Point) (sk : Nat) : Point := mul c hm sk

end Rangers.Model.G1
