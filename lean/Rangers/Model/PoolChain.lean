import Rangers.Model.Pool
/-!
# The block chain's side of the pool contract (C17)

The slice of `core.blockChain` that decides *which* `MarkExecuted` / `UnMarkExecuted` calls the pool sees and in
which order: `AddBlockOnChain` = `consensusVerify` (nil / parent unknown → parked as a future block / already on
chain) then `addBlockOnChain` (already there; `verifyBlock` with the proposal-008 refusal of a block that carries a
transaction with an executed record; extends the head → `insertBlock` → `updateTxPool` → `MarkExecuted`; otherwise
fork choice by `TotalQN`, then by `chainPvGreatThanRemote` (prove value, then block hash) against the local block
above the common ancestor; `removeFromCommonAncestor` → `remove` → `UnMarkExecuted` top-down; then insertion),
`src/core/blockchain_add.go`, `blockchain.go:remove`, `blockchain_verify.go:verifyBlock`, `blockchain_sync.go`.

Abstracted (assumed of a delivered block, as the harness' block builder guarantees): state / receipt / tx roots and
request ids verify, stub consensus says valid, every store write succeeds. Which transactions of a block get a
receipt is the block's `skip` list (what `VMExecutor.Execute` leaves out: `Type == 0`, not addable): the receipts
are the remaining transactions in block order. Not modelled: the `verifiedBlocks` cache (a block verified earlier
skips the proposal-008 test), consuming `futureBlocks` when the awaited parent arrives (`successOnChainCallBack`;
the driver answers `unmodelled` there), `hashDB` entries of blocks that failed half-way. Core Lean only.
-/
namespace Rangers.Pool.Chain
open Rangers Rangers.Pool

structure CBlock where
  id : Nat             -- header.Hash
  pre : Nat            -- header.PreHash
  height : Nat
  totalQN : Nat
  pv : Nat             -- header.ProveValue
  txs : List Tx        -- block.Transactions
  skip : List Nat      -- hashes among `txs` that execution leaves without a receipt
  evicted : List Nat   -- header.EvictedTxs
  deriving Repr

/-- the receipts `saveStates` hands to `updateTxPool`: one per executed transaction, in block order -/
def CBlock.receipts (b : CBlock) : List Nat := (b.txs.map (·.hash)).filter (fun h => !b.skip.contains h)

structure CSt where
  pool : Pool
  chain : List CBlock      -- canonical chain, head first (what `hashDB` / `heightDB` hold)
  future : List Nat := []  -- `futureBlocks`: parent hashes a parked block waits for
  deriving Repr

/-- `types.AddBlockResult` -/
inductive Res where
  | failed      -- AddBlockFailed            -1
  | succ        -- AddBlockSucc               0
  | existed     -- BlockExisted               1
  | qnLess      -- BlockTotalQnLessThanLocal  2
  | noPre       -- NoPreOnChain               3
  deriving DecidableEq, Repr

def Res.code : Res → Int
  | .failed => -1 | .succ => 0 | .existed => 1 | .qnLess => 2 | .noPre => 3

def onChain (ch : List CBlock) (id : Nat) : Bool := ch.any (fun b => b.id == id)

/-- `insertBlock` (writes assumed to succeed): the pool is told first, then the head moves. -/
def insert (st : CSt) (b : CBlock) : CSt :=
  { st with pool := (st.pool.markExecuted b.receipts b.txs b.evicted).1, chain := b :: st.chain }

/-- `removeFromCommonAncestor`: blocks above the ancestor leave the chain head-first, each through
`blockChain.remove` → `UnMarkExecuted(block)`. -/
def removeTo (anc : Nat) : List CBlock → Pool → List CBlock × Pool
  | [], p => ([], p)
  | b :: rest, p => if b.id = anc then (b :: rest, p) else removeTo anc rest (p.unmarkE b.txs b.evicted)

/-- `chainPvGreatThanRemote(localNext, coming)` -/
def pvGreater (loc coming : CBlock) : Bool :=
  if loc.pv > coming.pv then true else if loc.pv < coming.pv then false else decide (loc.id > coming.id)

/-- the proposal-008 test of `verifyBlock`: no transaction of the block has an executed record -/
def fresh (p : Pool) (b : CBlock) : Bool := b.txs.all (fun t => !p.isExecuted t.hash)

/-- `AddBlockOnChain(b)` for a non-nil block. -/
def addBlock (st : CSt) (b : CBlock) : CSt × Res :=
  -- consensusVerify
  if !onChain st.chain b.pre then ({ st with future := b.pre :: st.future }, .noPre)
  else if onChain st.chain b.id then (st, .existed)
  else
    -- addBlockOnChain
    match st.chain with
    | [] => (st, .failed)
    | top :: _ =>
      if !fresh st.pool b then (st, .failed)
      else if b.pre = top.id then (insert st b, .succ)
      else if b.totalQN < top.totalQN then (st, .qnLess)
      else
        let reorg : CSt × Res :=
          match removeTo b.pre st.chain st.pool with
          | (ch', p') => (insert { st with pool := p', chain := ch' } b, .succ)
        if b.totalQN > top.totalQN then reorg
        else
          match st.chain.find? (fun x => x.height == (st.chain.find? (fun a => a.id == b.pre)).elim 0 (·.height) + 1) with
          | none => (st, .failed)
          | some localNext => if pvGreater localNext b then (st, .qnLess) else reorg

end Rangers.Pool.Chain
