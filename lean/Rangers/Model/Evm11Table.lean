import Rangers.Model.Evm11Basic
/-!
# C11 model, part 2: the shape of a jump-table entry

`OpInfo` mirrors `vm.operation` (jump_table.go).  The three function-valued
fields of the Go struct (`execute`, `memorySize`, `dynamicGas`) become
enumerations naming the *transcribed* function; the translator
(`gen/cmd/c11facts`) maps the function names it reads off the live table
(`runtime.FuncForPC`) to these constructors and emits `.unknown` for any name it
has no transcription for, which `Props.C11.table_known` rejects.
-/
namespace Rangers.Evm11

inductive BinOp
  | add | mul | sub | div | sdiv | mod | smod | exp | signextend
  | lt | gt | slt | sgt | eq | and | or | xor | byte | shl | shr | sar
  deriving DecidableEq, Repr, Inhabited

inductive UnOp
  | iszero | not
  deriving DecidableEq, Repr, Inhabited

inductive TernOp
  | addmod | mulmod
  deriving DecidableEq, Repr, Inhabited

/-- zero-operand opcodes that push one word taken from the execution context -/
inductive EnvOp
  | address | origin | caller | callvalue | calldatasize | codesize | gasprice
  | coinbase | timestamp | number | difficulty | gaslimit | pc | msize | gas
  | chainid | returndatasize | selfbalance | basefee | blobbasefee | push0
  deriving DecidableEq, Repr, Inhabited

/-- one-operand opcodes that replace the top word by a word computed from the
    operand and the context / the state oracle -/
inductive MapOp
  | balance | calldataload | extcodesize | extcodehash | blockhash | mload
  | sload | tload | blobhash | getstake
  deriving DecidableEq, Repr, Inhabited

inductive CopyOp
  | calldatacopy | codecopy | returndatacopy | mcopy
  deriving DecidableEq, Repr, Inhabited

inductive CallKind
  | call | callcode | delegatecall | staticcall
  deriving DecidableEq, Repr, Inhabited

/-- the transcribed `execute` functions -/
inductive Exec
  | stop
  | bin (o : BinOp)
  | un (o : UnOp)
  | tern (o : TernOp)
  | sha3
  | env (o : EnvOp)
  | map (o : MapOp)
  | pop
  | mstore | mstore8 | sstore | tstore
  | jump | jumpi | jumpdest
  | push1
  | push (adv : Nat) (nbytes : Nat)
  | dup (n : Nat)
  | swap (n : Nat)
  | log (n : Nat)
  | copy (o : CopyOp)
  | extcodecopy
  | create | create2
  | call (k : CallKind)
  | ret | revert | selfdestruct
  | printf | stake | unstake | unstakeall | stakenum
  | auth | authcall
  | unknown
  deriving DecidableEq, Repr, Inhabited

/-- the transcribed `memorySize` functions: `two a b` is `calcMemSize64(Back a, Back b)`,
    `fixed a n` is `calcMemSize64WithUint(Back a, n)`, `max2 a b c d` is the
    larger of `two a b` and `two c d` (call family), `mcopy` is `memoryMcopy`. -/
inductive MemFn
  | none
  | two (off len : Nat)
  | fixed (off : Nat) (n : Nat)
  | max2 (o1 l1 o2 l2 : Nat)
  | mcopy
  | unknown
  deriving DecidableEq, Repr, Inhabited

/-- the transcribed `dynamicGas` functions -/
inductive DynFn
  | none
  | pureMem                 -- pureMemoryGascost (gasReturn, gasMLoad, …, gasCreate, gasAuth)
  | copier (pos : Nat)      -- memoryCopierGas(pos)
  | sstore                  -- gasSStore
  | sstore2200              -- gasSStoreEIP2200
  | log (n : Nat)           -- makeGasLog(n)
  | sha3                    -- gasSha3
  | create2                 -- gasCreate2
  | expFrontier | expEIP158
  | call | callcode | delegatecall | staticcall
  | selfdestruct
  | authcall
  | unknown
  deriving DecidableEq, Repr, Inhabited

structure OpInfo where
  exec : Exec
  constGas : Nat
  minStack : Nat
  maxStack : Nat
  mem : MemFn
  dyn : DynFn
  halts : Bool
  jumps : Bool
  writes : Bool
  reverts : Bool
  returns : Bool
  deriving DecidableEq, Repr, Inhabited

/-- words popped by the transcribed `execute` function -/
def Exec.pops : Exec → Nat
  | .stop => 0 | .bin _ => 2 | .un _ => 1 | .tern _ => 3 | .sha3 => 2
  | .env _ => 0 | .map _ => 1 | .pop => 1
  | .mstore => 2 | .mstore8 => 2 | .sstore => 2 | .tstore => 2
  | .jump => 1 | .jumpi => 2 | .jumpdest => 0
  | .push1 => 0 | .push _ _ => 0
  | .dup n => n | .swap n => n + 1
  | .log n => n + 2
  | .copy _ => 3 | .extcodecopy => 4
  | .create => 3 | .create2 => 4
  | .call .call => 7 | .call .callcode => 7 | .call .delegatecall => 6 | .call .staticcall => 6
  | .ret => 2 | .revert => 2 | .selfdestruct => 1
  | .printf => 0 | .stake => 2 | .unstake => 2 | .unstakeall => 1 | .stakenum => 1
  | .auth => 3 | .authcall => 9
  | .unknown => 0

/-- words pushed by the transcribed `execute` function when it does not fail -/
def Exec.pushes : Exec → Nat
  | .stop => 0 | .bin _ => 1 | .un _ => 1 | .tern _ => 1 | .sha3 => 1
  | .env _ => 1 | .map _ => 1 | .pop => 0
  | .mstore => 0 | .mstore8 => 0 | .sstore => 0 | .tstore => 0
  | .jump => 0 | .jumpi => 0 | .jumpdest => 0
  | .push1 => 1 | .push _ _ => 1
  | .dup n => n + 1 | .swap n => n + 1
  | .log _ => 0
  | .copy _ => 0 | .extcodecopy => 0
  | .create => 1 | .create2 => 1
  | .call _ => 1
  | .ret => 0 | .revert => 0 | .selfdestruct => 0
  | .printf => 0 | .stake => 1 | .unstake => 1 | .unstakeall => 1 | .stakenum => 1
  | .auth => 1 | .authcall => 1
  | .unknown => 0

abbrev JumpTable := Array (Option OpInfo)

end Rangers.Evm11
