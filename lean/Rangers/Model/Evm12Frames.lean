import Rangers.Model.Evm12World
import Rangers.Generated.C12Facts
/-
C12 model, part 2: the six frame entry points of src/vm/evm.go
(`Call`, `CallCode`, `DelegateCall`, `StaticCall`, `create`, `AuthCall`), the
read-only guard of `EVMInterpreter.Run` (interpreter.go:205-214) and the
state-modifying opcodes, transcribed statement by statement over `World`.

Programs are *frame trees*: the body of a frame is a straight-line list of
state-modifying actions and nested frames with an `Ending`. Gas is abstracted:
a frame runs out of gas exactly when its ending says so (`oog`), a CREATE cannot
pay for storing its code exactly when its init code ends in `retBig`; the harness
compiles a tree to real bytecode with gas budgets that make this so. Stack,
memory, jumps and the computational opcodes are C10/C11's business.

`Env.rv saved cur` is `StateDB.RevertToSnapshot(snapshot)`: what it does to the
world is a PARAMETER of this model. Property theorems assume of it only what C04
proves of the journal (`obs (rv saved cur) = obs saved`); the driver instantiates
it with "restore the saved world", and the correspondence run checks that choice
against the real `AccountDB`.

Which opcodes the interpreter refuses in a read-only frame is not written here:
`opWrites` looks the `writes` flag up in `Generated.C12.opFacts`, which the
translator re-extracts from jump_table.go / eips.go on every run.
-/
namespace Rangers.Model.Evm12

/-- vm/errors.go, as far as frames distinguish them. -/
inductive Err where
  | depth | insufficientBalance | collision | writeProtection | outOfGas | invalidOp
  | reverted | codeStoreOutOfGas | maxCodeSize | noSuchMiner | precompileFail
  deriving DecidableEq, Repr, Inhabited

def Err.name : Err → String
  | .depth => "depth" | .insufficientBalance => "insufficient" | .collision => "collision"
  | .writeProtection => "write-protection" | .outOfGas => "oog" | .invalidOp => "invalid"
  | .reverted => "reverted" | .codeStoreOutOfGas => "codestore-oog" | .maxCodeSize => "maxcodesize"
  | .noSuchMiner => "no-such-miner" | .precompileFail => "precompile-fail"

/-- The state-relevant opcodes. -/
inductive Op where
  | sstore | tstore | log (n : Fin 5) | selfdestruct
  | call | callcode | delegatecall | staticcall | create | create2 | authcall
  | stake | unstake | unstakeall | stakenum
  deriving DecidableEq, Repr, Inhabited

def Op.name : Op → String
  | .sstore => "SSTORE" | .tstore => "TSTORE" | .log n => "LOG" ++ toString n
  | .selfdestruct => "SELFDESTRUCT" | .call => "CALL" | .callcode => "CALLCODE"
  | .delegatecall => "DELEGATECALL" | .staticcall => "STATICCALL" | .create => "CREATE"
  | .create2 => "CREATE2" | .authcall => "AUTHCALL" | .stake => "STAKE" | .unstake => "UNSTAKE"
  | .unstakeall => "UNSTAKEALL" | .stakenum => "STAKENUM"

def findFact (name : String) : List Generated.C12.OpFact → Option Generated.C12.OpFact
  | [] => none
  | f :: fs => if f.name = name then some f else findFact name fs

/-- `operation.writes` of the live jump table (absent opcode: `false`; that every
    `Op` is present is a separate generated-fact theorem). -/
def opWrites (o : Op) : Bool :=
  match findFact o.name Generated.C12.opFacts with
  | some f => f.writes
  | none => false

/-- interpreter.go:205-214: `in.readOnly && (operation.writes || (op == CALL && value != 0))`. -/
def roBlocked (ro : Bool) (o : Op) (value : Nat) : Bool :=
  ro && (opWrites o || (o == .call && value != 0))

inductive CallKind where
  | call | callcode | delegatecall | staticcall
  deriving DecidableEq, Repr, Inhabited

def CallKind.op : CallKind → Op
  | .call => .call | .callcode => .callcode | .delegatecall => .delegatecall | .staticcall => .staticcall

/-- How a frame body ends. `retCode t` / `retBig` / `retHuge` are RETURNs of 2 / 24576 /
    MaxCodeSize+1 (= 245761) bytes: in a CREATE frame they mean "code stored", "cannot pay for code
    storage" (24576*200*30 gas exceeds what the harness ever hands a frame), "max code size
    exceeded"; elsewhere they are plain successes. -/
inductive Ending where
  | stop | revert | invalid | oog | retCode (tag : Nat) | retBig | retHuge
  deriving DecidableEq, Repr, Inhabited

/-- A frame body. Child frames carry an `id` (used only for the trace). -/
inductive Frame where
  | done (e : Ending)
  | sstore (k v : Nat) (rest : Frame)
  | tstore (k v : Nat) (rest : Frame)
  | log (n : Fin 5) (tag : Nat) (rest : Frame)
  | selfdestruct (beneficiary : Addr)
  | call (id : Nat) (kind : CallKind) (target : Addr) (value : Nat) (body rest : Frame)
  | create (id : Nat) (two : Bool) (salt : Nat) (value : Nat) (init rest : Frame)
  | authcall (id : Nat) (authorized : Option Addr) (authNonce : Nat) (target : Addr) (value : Nat)
      (body rest : Frame)
  | stake (amount : Nat) (rest : Frame)
  | unstake (amount : Nat) (rest : Frame)
  | unstakeall (rest : Frame)
  | stakenum (pointer : Addr) (rest : Frame)
  deriving Repr, Inhabited

/-- The outcome of `RunPrecompiledContract` as the frame tree records it in the (otherwise
    unused) body of a call to a precompile: `oog` = supplied gas below `RequiredGas`,
    `invalid` = `Run` rejects the input, anything else = success. -/
def precompileOutcome : Frame → Option Err
  | .done .oog => some .outOfGas
  | .done .invalid => some .precompileFail
  | _ => none

structure Env where
  /-- `evm.Origin` (sponsor of AUTHCALL, refund target of UNSTAKE) -/
  origin : Addr
  /-- `RevertToSnapshot`: saved world, current world ↦ resulting world -/
  rv : World → World → World
  /-- `!common.IsProposal006() || common.IsProposal007()` (evm.go:409) -/
  createBumpsNonce : Bool := true
  isPrecompile : Addr → Bool := fun _ => false
  /-- miner account ↦ whether `GetMinerIdByAccount` finds a miner (STAKE family) -/
  isMiner : Addr → Bool := fun _ => false

inductive RetKind where
  | none | code (tag : Nat) | big | huge
  deriving DecidableEq, Repr, Inhabited

/-- one trace entry per child frame that returned: id, success flag, world then -/
structure Event where
  id : Nat
  ok : Bool
  world : World
  /-- the error the child frame returned (for the branch statistics of the driver) -/
  err : Option Err := none

/-- What `EVMInterpreter.Run` / a frame entry point hands back. `logs` is the
    *returned* log list (`callContext.logs`), distinct from the journaled
    `world.logs`. -/
structure Result where
  world : World
  logs : List Log := []
  err : Option Err := none
  ret : RetKind := .none
  trace : List Event := []

def Result.ok (r : Result) : Bool := r.err.isNone

def CallCreateDepth : Nat := 1024

/-- what an entry point runs after its snapshot: nothing (empty code), the callee's byte code
    through the interpreter, or `RunPrecompiledContract` -/
inductive Callee where
  | none | code | precompile
  deriving DecidableEq, Repr, Inhabited

/-- Outcome of the statements of an entry point that precede `run`. -/
inductive Entry where
  /-- returned with an error before `Snapshot()` (world as left) -/
  | fail (w : World) (e : Err)
  /-- returned `nil` after `Snapshot()` without running anything (call to a
      non-existent account without value) -/
  | skip (w : World)
  /-- about to run: snapshot world, current world, context address, read-only flag, what runs -/
  | enter (saved w : World) (self : Addr) (ro : Bool) (callee : Callee)

def calleeOf (env : Env) (w : World) (target : Addr) : Callee :=
  if env.isPrecompile target then .precompile
  else if w.getCode target != .empty then .code else .none

/-- what runs between the snapshot and the revert block of the call-like entry points:
    `RunPrecompiledContract` (no state access; `pe` is its error), the interpreter on the callee's
    code (`k`), or nothing -/
def runCallee (callee : Callee) (pe : Option Err) (k : Nat → Bool → Addr → World → Result)
    (depth : Nat) (ro : Bool) (self : Addr) (w : World) : Result :=
  match callee with
  | .precompile => { world := w, err := pe }
  | .code => k (depth + 1) ro self w
  | .none => { world := w }

/-- `Call` / `CallCode` / `DelegateCall` / `StaticCall` up to `run`. `self` is the
    calling frame's context address (`caller.Address()`). -/
def callEnter (env : Env) (depth : Nat) (ro : Bool) (self : Addr) (kind : CallKind)
    (target : Addr) (value : Nat) (w : World) : Entry :=
  if depth > CallCreateDepth then .fail w .depth else
  match kind with
  | .call =>
    if value != 0 && !w.canTransfer self value then .fail w .insufficientBalance else
    -- snapshot := Snapshot()
    if !w.exists? target && !env.isPrecompile target && value == 0 then .skip w else
    let w1 := if w.exists? target then w else w.createAccount target
    let w2 := w1.transfer self target value
    .enter w w2 target ro (calleeOf env w2 target)
  | .callcode =>
    if !w.canTransfer self value then .fail w .insufficientBalance else
    .enter w w self ro (calleeOf env w target)
  | .delegatecall =>
    .enter w w self ro (calleeOf env w target)
  | .staticcall =>
    -- snapshot, then AddBalance(addr, big0) "to trigger a touch"
    let w1 := w.addBalance target 0
    .enter w w1 target true (calleeOf env w1 target)

/-- the tail of the four call entry points: revert on any error; `CallCode`
    returns `nil` logs. -/
def callExit (env : Env) (kind : CallKind) (saved : World) (r : Result) : Result :=
  { r with
    world := if r.err.isSome then env.rv saved r.world else r.world
    logs := if kind = .callcode then [] else r.logs
    ret := .none }

/-- `AuthCall` up to `run`: the authorized account's nonce is bumped BEFORE the snapshot. -/
def authEnter (env : Env) (depth : Nat) (ro : Bool) (authorized target : Addr) (value : Nat)
    (w : World) : Entry :=
  if depth > CallCreateDepth then .fail w .depth else
  if value != 0 && !w.canTransfer env.origin value then .fail w .insufficientBalance else
  let w0 := w.setNonce authorized (w.getNonce authorized + 1)
  -- snapshot := Snapshot()
  if !w0.exists? target && !env.isPrecompile target && value == 0 then .skip w0 else
  let w1 := if w0.exists? target then w0 else w0.createAccount target
  let w2 := w1.transfer env.origin target value
  .enter w0 w2 target ro (calleeOf env w2 target)

def authExit (env : Env) (saved : World) (r : Result) : Result :=
  { r with world := if r.err.isSome then env.rv saved r.world else r.world, ret := .none }

def createAddr (w : World) (self : Addr) (two : Bool) (salt : Nat) : Addr :=
  if two then .created2 self salt else .created self (w.getNonce self)

/-- `create` up to `run`. Nonce bump and access-list insertion precede the snapshot. -/
def createEnter (env : Env) (depth : Nat) (ro : Bool) (self : Addr) (value : Nat) (addr : Addr)
    (w : World) : Entry :=
  if depth > CallCreateDepth then .fail w .depth else
  if !w.canTransfer self value then .fail w .insufficientBalance else
  let w1 := if env.createBumpsNonce then w.setNonce self (w.getNonce self + 1) else w
  let w2 := w1.addAccess addr
  if w2.getNonce addr != 0 || w2.getCode addr != .empty then .fail w2 .collision else
  -- snapshot := Snapshot()
  let w3 := (w2.createAccount addr).setNonce addr 1
  let w4 := w3.transfer self addr value
  .enter w2 w4 addr ro .code

/-- code deposit of `create`: `SetCode` when the init code succeeded and its return data can be
    paid for, `ErrCodeStoreOutOfGas` when it cannot -/
def createStored (addr : Addr) (r : Result) : World × Option Err :=
  if r.err.isNone && !(r.ret == .huge) then
    match r.ret with
    | .code t => (r.world.setCode addr (.deployed t), none)
    | .big => (r.world, some .codeStoreOutOfGas)
    | _ => (r.world.setCode addr .empty, none)
  else (r.world, r.err)

/-- the tail of `create`: code deposit, then the revert condition
    `maxCodeSizeExceeded || (err != nil && err != ErrCodeStoreOutOfGas)`. -/
def createExit (env : Env) (saved : World) (addr : Addr) (r : Result) : Result :=
  let maxEx := r.ret == .huge
  let stored := createStored addr r
  let err := stored.2
  let w := if maxEx || (err.isSome && err != some .codeStoreOutOfGas) then env.rv saved stored.1
           else stored.1
  { r with world := w, err := if maxEx && err.isNone then some .maxCodeSize else err, ret := .none }

def endingResult (w : World) (clogs : List Log) (tr : List Event) : Ending → Result
  | .stop => { world := w, logs := clogs, trace := tr }
  | .revert => { world := w, logs := clogs, err := some .reverted, trace := tr }
  | .invalid => { world := w, err := some .invalidOp, trace := tr }
  | .oog => { world := w, err := some .outOfGas, trace := tr }
  | .retCode t => { world := w, logs := clogs, ret := .code t, trace := tr }
  | .retBig => { world := w, logs := clogs, ret := .big, trace := tr }
  | .retHuge => { world := w, logs := clogs, ret := .huge, trace := tr }

def failWith (w : World) (tr : List Event) (e : Err) : Result :=
  { world := w, err := some e, trace := tr }

/-- one RPG in wei: STAKE/UNSTAKE amounts are whole RPG (`amount` units = `oneRPG * amount` wei on the stack) -/
def oneRPG : Nat := 1000000000000000000

/-- `opStake` -> `MinerManagerImpl.AddStake(self, miner, amount)`: only for a contract that is a registered
    miner account; nothing for amount 0 or a balance below the amount; else the balance goes down and the
    miner's stake up (`SubBalance`, `UpdateMiner`). The opcode itself never fails (it pushes a flag). -/
def stakeEffect (env : Env) (self : Addr) (amount : Nat) (w : World) : World :=
  if env.isMiner self && amount != 0 && w.canTransfer self (oneRPG * amount) then
    let w1 := w.subBalance self (oneRPG * amount)
    { w1 with stake := w1.stake.set self (w1.getStake self + amount) }
  else w

/-- `opUnStake` -> `RefundManagerImpl.GetRefundStake(height, miner, self, amount)`: refused when the stake is
    smaller; else the stake goes down (a contract's miner record is never deleted: `RemoveMiner` keeps it
    with the remaining stake) and a refund to `evm.Origin` is scheduled in the refund account of a later
    height (not observed here). `amount = none` is UNSTAKEALL. -/
def unstakeEffect (env : Env) (self : Addr) (amount : Option Nat) (w : World) : World :=
  if env.isMiner self then
    match amount with
    | none => { w with stake := w.stake.set self 0 }
    | some n => if w.getStake self < n then w else { w with stake := w.stake.set self (w.getStake self - n) }
  else w

/-- `evm.Call` / `CallCode` / `DelegateCall` / `StaticCall`, with the interpreter run of
    the callee's code passed in as `k depth readOnly self world` and the outcome of a precompile run
    as `pe`. Every path after the snapshot goes through `callExit` (the revert block), except the
    `skip` return, which has touched nothing. -/
def callFrameK (env : Env) (depth : Nat) (ro : Bool) (self : Addr) (kind : CallKind)
    (target : Addr) (value : Nat) (k : Nat → Bool → Addr → World → Result) (pe : Option Err)
    (w : World) : Result :=
  match callEnter env depth ro self kind target value w with
  | .fail w' e => { world := w', err := some e }
  | .skip w' => { world := w' }
  | .enter saved w' self' ro' callee =>
    callExit env kind saved (runCallee callee pe k depth ro' self' w')

/-- `evm.create` (behind `Create` and `Create2`). -/
def createFrameK (env : Env) (depth : Nat) (ro : Bool) (self : Addr) (two : Bool) (salt value : Nat)
    (k : Nat → Bool → Addr → World → Result) (w : World) : Result :=
  let addr := createAddr w self two salt
  match createEnter env depth ro self value addr w with
  | .fail w' e => { world := w', err := some e }
  | .skip w' => { world := w' }
  | .enter saved w' self' ro' _ => createExit env saved addr (k (depth + 1) ro' self' w')

/-- `opAuthCall` + `evm.AuthCall`: no frame (flag false) when nothing is authorized or the
    nonce operand differs from the authorized account's nonce. `authorized` is the frame's
    `callContext.authorized` at this point: `none` = no AUTH has succeeded in this frame yet
    (an authorization, once given, stays for the rest of the frame; the harness re-AUTHs before
    every authorized AUTHCALL and only emits `none` before the first one). -/
def authFrameK (env : Env) (depth : Nat) (ro : Bool) (authorized : Option Addr) (authNonce : Nat)
    (target : Addr) (value : Nat) (k : Nat → Bool → Addr → World → Result) (pe : Option Err)
    (w : World) : Result :=
  match authorized with
  | none => { world := w, err := some .invalidOp }
  | some au =>
    if w.getNonce au != authNonce then { world := w, err := some .invalidOp } else
    match authEnter env depth ro au target value w with
    | .fail w' e => { world := w', err := some e }
    | .skip w' => { world := w' }
    | .enter saved w' self' ro' callee =>
      authExit env saved (runCallee callee pe k depth ro' self' w')

/-- `EVMInterpreter.Run` on a frame body. `depth` is `evm.depth` inside this frame,
    `ro` the sticky `in.readOnly`, `self` the context address, `clogs` the frame's
    `callContext.logs` so far, `tr` the trace so far. -/
def run (env : Env) (depth : Nat) (ro : Bool) (self : Addr) (w : World) (clogs : List Log)
    (tr : List Event) : Frame → Result
  | .done e => endingResult w clogs tr e
  | .sstore k v rest =>
    if roBlocked ro .sstore 0 then failWith w tr .writeProtection else
    run env depth ro self (w.setState self k v) clogs tr rest
  | .tstore k v rest =>
    if roBlocked ro .tstore 0 then failWith w tr .writeProtection else
    -- opTstore tests interpreter.readOnly itself
    if ro then failWith w tr .writeProtection else
    run env depth ro self (w.setTransient self k v) clogs tr rest
  | .log n tag rest =>
    if roBlocked ro (.log n) 0 then failWith w tr .writeProtection else
    run env depth ro self (w.addLog self n tag) (clogs ++ [w.newLog self n tag]) tr rest
  | .selfdestruct ben =>
    if roBlocked ro .selfdestruct 0 then failWith w tr .writeProtection else
    -- the gas function runs first (refund counter), then opSuicide
    let w0 := w.selfdestructRefund self
    { world := (w0.addBalance ben (w0.getBalance self)).suicide self, logs := clogs, trace := tr }
  | .call id kind target value body rest =>
    if roBlocked ro kind.op value then failWith w tr .writeProtection else
    let r := callFrameK env depth ro self kind target value
      (fun d ro' self' w' => run env d ro' self' w' [] [] body) (precompileOutcome body) w
    run env depth ro self r.world (clogs ++ r.logs)
      (tr ++ r.trace ++ [{ id := id, ok := r.ok, world := r.world, err := r.err }]) rest
  | .create id two salt value init rest =>
    if roBlocked ro (if two then .create2 else .create) value then failWith w tr .writeProtection else
    let r := createFrameK env depth ro self two salt value
      (fun d ro' self' w' => run env d ro' self' w' [] [] init) w
    run env depth ro self r.world (clogs ++ r.logs)
      (tr ++ r.trace ++ [{ id := id, ok := r.ok, world := r.world, err := r.err }]) rest
  | .authcall id authorized authNonce target value body rest =>
    if roBlocked ro .authcall value then failWith w tr .writeProtection else
    -- gasAuthCall (gas_table.go:369-371) warms the target before the opcode executes
    let r := authFrameK env depth ro authorized authNonce target value
      (fun d ro' self' w' => run env d ro' self' w' [] [] body) (precompileOutcome body) (w.addAccess target)
    run env depth ro self r.world (clogs ++ r.logs)
      (tr ++ r.trace ++ [{ id := id, ok := r.ok, world := r.world, err := r.err }]) rest
  | .stake amount rest =>
    if roBlocked ro .stake 0 then failWith w tr .writeProtection else
    run env depth ro self (stakeEffect env self amount w) clogs tr rest
  | .unstake amount rest =>
    if roBlocked ro .unstake 0 then failWith w tr .writeProtection else
    run env depth ro self (unstakeEffect env self (some amount) w) clogs tr rest
  | .unstakeall rest =>
    if roBlocked ro .unstakeall 0 then failWith w tr .writeProtection else
    if !env.isMiner self then failWith w tr .noSuchMiner else
    run env depth ro self (unstakeEffect env self none w) clogs tr rest
  | .stakenum pointer rest =>
    if roBlocked ro .stakenum 0 then failWith w tr .writeProtection else
    if !env.isMiner pointer then failWith w tr .noSuchMiner else
    run env depth ro self w clogs tr rest

/-- `evm.Call` / `CallCode` / `DelegateCall` / `StaticCall` on a callee whose code is `body`. -/
def callFrame (env : Env) (depth : Nat) (ro : Bool) (self : Addr) (kind : CallKind)
    (target : Addr) (value : Nat) (body : Frame) (w : World) : Result :=
  callFrameK env depth ro self kind target value
    (fun d ro' self' w' => run env d ro' self' w' [] [] body) (precompileOutcome body) w

/-- `evm.Create` / `Create2` with init code `init`. -/
def createFrame (env : Env) (depth : Nat) (ro : Bool) (self : Addr) (two : Bool) (salt value : Nat)
    (init : Frame) (w : World) : Result :=
  createFrameK env depth ro self two salt value
    (fun d ro' self' w' => run env d ro' self' w' [] [] init) w

/-- `evm.AuthCall` (behind the `AUTHCALL` opcode's own checks). -/
def authFrame (env : Env) (depth : Nat) (ro : Bool) (authorized : Option Addr) (authNonce : Nat)
    (target : Addr) (value : Nat) (body : Frame) (w : World) : Result :=
  authFrameK env depth ro authorized authNonce target value
    (fun d ro' self' w' => run env d ro' self' w' [] [] body) (precompileOutcome body) w

/-- the driver's `RevertToSnapshot`: restore the saved world (journaled fields are
    all of `World`). -/
def restore : World → World → World := fun saved _ => saved

end Rangers.Model.Evm12
