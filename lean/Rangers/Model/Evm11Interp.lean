import Rangers.Model.Evm11Gas
import Rangers.Model.Evm11Keccak
import Rangers.Model.Evm11Secp
import Rangers.Model.Evm11Precomp
/-!
# C11 model, part 4: the interpreter loop, the frame skeleton, precompile pricing

Transcribed from `src/vm/interpreter.go` (`EVMInterpreter.Run`), `instructions.go`,
`evm.go` (`Call`, `CallCode`, `DelegateCall`, `StaticCall`, `create`, `Create`,
`Create2`), `contracts.go` (`RunPrecompiledContract`, every `RequiredGas`).

* The loop takes **fuel**; `Props.C11.fuel_suffices` shows the fuel the driver
  supplies is never exhausted.
* Everything the code asks the StateDB, the precompiles' `Run` and the block-hash
  callback is replayed from the oracle tape (`Global`); a call the model did not
  expect, or an expected call that is missing, is the explicit outcome
  `Fault.desync` (a tie failure, never silently defaulted).
* What the model does not cover (a successful `ecrecover` inside AUTH, hence a
  live AUTHCALL) is the explicit outcome `Fault.unmodelled`.
-/
namespace Rangers.Evm11

inductive Fault
  | outOfGas | invalidOpCode | stackUnderflow | stackOverflow | writeProtection
  | gasUintOverflow | invalidJump | returnDataOutOfBounds | customOpError
  | depth | insufficientBalance | addressCollision | maxCodeSizeExceeded
  | codeStoreOutOfGas | precompileError | reverted
  | desync (expected : String)
  | unmodelled
  | outOfFuel
  | stackBug            -- an `execute` transcription found fewer operands than the table promised
  deriving DecidableEq, Repr, Inhabited

/-- outcomes that are artefacts of the model / the tie, not results of the code:
    they abort the whole run and are reported as such -/
def Fault.isAbort : Fault → Bool
  | .desync _ | .unmodelled | .outOfFuel | .stackBug => true
  | _ => false

/-- immutable execution context (vm.Context + fork flags) -/
structure Ctx where
  table : JumpTable
  gc : GasCfg
  bumpNonce : Bool          -- `!IsProposal006() || IsProposal007()` in evm.create
  origin : Nat
  gasPrice : Word
  coinbase : Nat
  gasLimit : Nat
  number : Nat
  time : Word
  difficulty : Word
  chainId : Word
  deriving Inhabited

structure Frame where
  code : BA
  isCode : Array Bool       -- JUMPDEST analysis (analysis.go): false inside PUSH data
  pc : Nat
  gas : Nat
  stack : List Word         -- head = top
  mem : Mem
  self : Nat                -- contract.Address()
  caller : Nat              -- contract.Caller()
  value : Word
  input : BA
  authorized : Option Nat
  deriving Inhabited

/-! ## word arithmetic (instructions.go over holiman/uint256) -/

def toSigned (a : Word) : Int := if a < 2 ^ 255 then (a : Int) else (a : Int) - (2 ^ 256 : Nat)
def ofSigned (i : Int) : Word := (i % ((2 ^ 256 : Nat) : Int)).toNat

def powMod (b e : Nat) : Nat :=
  let rec go (fuel : Nat) (b e acc : Nat) : Nat :=
    match fuel with
    | 0 => acc
    | f + 1 =>
      if e = 0 then acc
      else go f (b * b % W256) (e / 2) (if e % 2 = 1 then acc * b % W256 else acc)
  go 257 (b % W256) e 1

def evalBin (o : BinOp) (x y : Word) : Word :=
  match o with
  | .add => (x + y) % W256
  | .mul => (x * y) % W256
  | .sub => (x + W256 - y) % W256
  | .div => if y = 0 then 0 else x / y
  | .sdiv =>
    if y = 0 then 0 else
    let a := toSigned x; let b := toSigned y
    ofSigned (Int.tdiv a b)
  | .mod => if y = 0 then 0 else x % y
  | .smod =>
    if y = 0 then 0 else
    let a := toSigned x; let b := toSigned y
    ofSigned (Int.tmod a b)
  | .exp => powMod x y
  | .signextend =>
    -- x = back (byte index), y = num
    if x < 31 then
      let bit := x * 8 + 7
      let mask := 2 ^ (bit + 1) - 1
      if (y >>> bit) % 2 = 1 then (y ||| (W256 - 1 - mask)) % W256 else y &&& mask
    else y
  | .lt => if x < y then 1 else 0
  | .gt => if x > y then 1 else 0
  | .slt => if toSigned x < toSigned y then 1 else 0
  | .sgt => if toSigned x > toSigned y then 1 else 0
  | .eq => if x = y then 1 else 0
  | .and => x &&& y
  | .or => x ||| y
  | .xor => x ^^^ y
  | .byte => if x < 32 then (y >>> (8 * (31 - x))) % 256 else 0
  | .shl => if x < 256 then (y <<< x) % W256 else 0
  | .shr => if x < 256 then y >>> x else 0
  | .sar =>
    if y < 2 ^ 255 then (if x < 256 then y >>> x else 0)
    else if x < 256 then W256 - 1 - ((W256 - 1 - y) >>> x) else W256 - 1

def evalUn (o : UnOp) (x : Word) : Word :=
  match o with
  | .iszero => if x = 0 then 1 else 0
  | .not => W256 - 1 - x % W256

def evalTern (o : TernOp) (x y z : Word) : Word :=
  match o with
  | .addmod => if z = 0 then 0 else (x + y) % z
  | .mulmod => if z = 0 then 0 else (x * y) % z

/-! ## memory access (memory.go) -/

/-- `Memory.GetPtr/GetCopy(offset, size)` once the memory has been resized -/
def memRead (m : Mem) (off size : Nat) : BA :=
  if size = 0 then #[] else m.data.extract off (off + size)

def writeBytes (d : BA) (off : Nat) (val : BA) (n : Nat) : BA :=
  (List.range n).foldl (fun d i => d.setIfInBounds (off + i) (val.getD i 0)) d

/-- `Memory.Set(offset, size, value)`: copies `min(size, len value)` bytes -/
def memWrite (m : Mem) (off size : Nat) (val : BA) : Mem :=
  { m with data := writeBytes m.data off val (min size val.size) }

/-! ## JUMPDEST analysis -/

def analyse (code : BA) : Array Bool :=
  let rec go (fuel pc : Nat) (acc : Array Bool) : Array Bool :=
    match fuel with
    | 0 => acc
    | f + 1 =>
      if pc ≥ code.size then acc else
      let op := (code.getD pc 0).toNat
      if 0x60 ≤ op ∧ op ≤ 0x7f then
        let n := op - 0x5f
        let acc := (List.range n).foldl (fun a i => a.setIfInBounds (pc + 1 + i) false) acc
        go f (pc + n + 1) acc
      else go f (pc + 1) acc
  go code.size 0 (Array.replicate code.size true)

/-! ### the bit-vector encoding of the analysis (`codeBitmap`, `bitvec.set`, `bitvec.set8` of analysis.go)

`analyse` above is what the bit vector *means*; the definitions below are where `codeBitmap`
*writes*: it allocates `len(code)/8 + 1 + 4` bytes and, for a PUSHn at `pc`, marks the n data
positions starting at `pc+1` — eight at a time with `set8(p)` (bytes `p/8` and `p/8+1`), the rest
one by one with `set(p)` (byte `p/8`) — also when the data is truncated by the end of the code. -/

/-- `make(bitvec, len(code)/8+1+4)` -/
def bitvecLen (code : BA) : Nat := code.size / 8 + 1 + 4

/-- byte indices of the bit vector written for `numbits` data positions starting at `p` -/
def pushWrites (p numbits : Nat) : List Nat :=
  ((List.range (numbits / 8)).flatMap (fun k => [(p + 8 * k) / 8, (p + 8 * k) / 8 + 1])) ++
  ((List.range (numbits % 8)).map (fun j => (p + 8 * (numbits / 8) + j) / 8))

/-- all byte indices `codeBitmap(code)` writes, in scan order -/
def bitmapWrites (code : BA) : List Nat :=
  let rec go (fuel pc : Nat) : List Nat :=
    match fuel with
    | 0 => []
    | f + 1 =>
      if pc ≥ code.size then [] else
      let op := (code.getD pc 0).toNat
      if 0x60 ≤ op ∧ op ≤ 0x7f then
        pushWrites (pc + 1) (op - 0x5f) ++ go f (pc + 1 + (op - 0x5f))
      else go f (pc + 1)
  go code.size 0

/-- `Contract.validJumpdest` -/
def validJumpdest (fr : Frame) (dest : Word) : Bool :=
  decide (dest < 2 ^ 64) && decide (dest < fr.code.size) &&
    ((fr.code.getD dest 0) == 0x5b) && fr.isCode.getD dest false

/-! ## precompiles: `RequiredGas` of contracts.go -/

def blsDiscount : Array Nat := #[1200, 888, 764, 641, 594, 547, 500, 453, 438, 423, 408, 394, 379, 364, 349, 334, 330, 326, 322, 318, 314, 310, 306, 302, 298, 294, 289, 285, 281, 277, 273, 269, 268, 266, 265, 263, 262, 260, 259, 257, 256, 254, 253, 251, 250, 248, 247, 245, 244, 242, 241, 239, 238, 236, 235, 233, 232, 231, 229, 228, 226, 225, 223, 222, 221, 220, 219, 219, 218, 217, 216, 216, 215, 214, 213, 213, 212, 211, 211, 210, 209, 208, 208, 207, 206, 205, 205, 204, 203, 202, 202, 201, 200, 199, 199, 198, 197, 196, 196, 195, 194, 193, 193, 192, 191, 191, 190, 189, 188, 188, 187, 186, 185, 185, 184, 183, 182, 182, 181, 180, 179, 179, 178, 177, 176, 176, 175, 174]

def multiExpGas (len per mulGas : Nat) : Nat :=
  let k := len / per
  if k = 0 then 0 else
  let discount := if k < 128 then blsDiscount.getD (k - 1) 0 else blsDiscount.getD 127 0
  wmul (wmul k mulGas) discount / 1000

/-- `bigModExp.RequiredGas` (EIP-198 pricing, math/big arithmetic) -/
def modExpGas (input : BA) : Nat :=
  let baseLen := beNat (getData input 0 32)
  let expLen := beNat (getData input 32 32)
  let modLen := beNat (getData input 64 32)
  let rest := if input.size > 96 then input.extract 96 input.size else #[]
  let expHead : Nat :=
    if rest.size ≤ baseLen then 0
    else if expLen > 32 then beNat (getData rest (lo64 baseLen) 32)
    else beNat (getData rest (lo64 baseLen) (lo64 expLen))
  let msb := if bitLen expHead > 0 then bitLen expHead - 1 else 0
  let adjExpLen := (if expLen > 32 then 8 * (expLen - 32) else 0) + msb
  let x := max modLen baseLen
  let gas :=
    if x ≤ 64 then x * x
    else if x ≤ 1024 then x * x / 4 + (96 * x - 3072)
    else x * x / 16 + (480 * x - 199680)
  let gas := gas * (max adjExpLen 1) / 20
  if bitLen gas > 64 then maxU64 else gas

def precompileGas (addr : Nat) (input : BA) : Nat :=
  let words := (input.size + 31) / 32
  match addr with
  | 1 => 3000
  | 2 => wadd (wmul words 12) 60
  | 3 => wadd (wmul words 120) 600
  | 4 => wadd (wmul words 3) 15
  | 5 => modExpGas input
  | 6 => 150
  | 7 => 6000
  | 8 => 45000 + (input.size / 192) * 34000
  | 9 => if input.size ≠ 213 then 0 else beNat (input.extract 0 4)
  | 10 => 600
  | 11 => 12000
  | 12 => multiExpGas input.size 160 12000
  | 13 => 4500
  | 14 => 55000
  | 15 => multiExpGas input.size 288 55000
  | 16 => 115000 + (input.size / 384) * 23000
  | 17 => 5500
  | 18 => 110000
  | _ => 0

def isPrecompile (addr : Nat) : Bool := decide (1 ≤ addr ∧ addr ≤ 18)

/-- the input-length gate at the top of each precompile's `Run` (contracts.go): `false` means
    `Run` returns an input-length error before touching the input -/
def precompileLenOk (addr : Nat) (n : Nat) : Bool :=
  match addr with
  | 8 => n % 192 == 0
  | 9 => n == 213
  | 10 => n == 256
  | 11 => n == 160
  | 12 => n != 0 && n % 160 == 0
  | 13 => n == 512
  | 14 => n == 288
  | 15 => n != 0 && n % 288 == 0
  | 16 => n != 0 && n % 384 == 0
  | 17 => n == 64
  | 18 => n == 128
  | _ => true

/-- `bigModExp.Run`: the three operand lengths are the header words **truncated to 64 bits**
    (`new(big.Int).SetBytes(…).Uint64()`), whereas `RequiredGas` priced the untruncated words;
    `Run` allocates `getData(input, …, len)` buffers of these sizes (RightPadBytes) and the
    `modLen`-byte left-padded result. Zero when base and modulus lengths are both zero. -/
def modExpRunAlloc (input : BA) : Nat :=
  let b64 := beNat (getData input 0 32) % 2 ^ 64
  let e64 := beNat (getData input 32 32) % 2 ^ 64
  let m64 := beNat (getData input 64 32) % 2 ^ 64
  if b64 = 0 ∧ m64 = 0 then 0 else b64 + e64 + m64 + m64

/-- bytes `Run` allocates whose amount is dictated by the *content* of the input rather than
    by its length (fixed-size paddings of ecrecover / bn256, the modexp operand buffers) -/
def precompileRunAlloc (addr : Nat) (input : BA) : Nat :=
  match addr with
  | 1 => 128 + 65 + 32
  | 5 => modExpRunAlloc input
  | 6 => 64 + 64 + 64
  | 7 => 64 + 32 + 64
  | 9 => 64
  | _ => 0

/-! ## results -/

/-- result of `EVMInterpreter.Run` plus the gas left in the contract -/
structure RunRes where
  ret : BA
  err : Option Fault
  gas : Nat
  g : Global
  deriving Inhabited

/-- result of `evm.Call` / `Create` … -/
structure CallRes where
  ret : BA
  gas : Nat                  -- leftOverGas
  err : Option Fault
  g : Global
  addr : Nat := 0            -- created address
  deriving Inhabited

inductive Req
  | call (k : CallKind) (addr : Nat) (value : Word) (input : BA) (gas : Nat) (retOff retSize : Nat) (inOff : Nat)
  | create (salt : Option Word) (value : Word) (init : BA) (gas : Nat)
  | authcall (authorized : Nat) (addr : Nat) (value : Word) (input : BA) (gas : Nat) (retOff retSize : Nat)
  deriving Inhabited

/-- what a non-failing `execute` changed (gas is deliberately absent: no
    `execute` other than the call family touches `contract.Gas`) -/
structure Upd where
  push : List Word
  mem : Mem
  pc : Nat
  g : Global
  res : BA
  authorized : Option Nat

inductive ExecOut
  | upd (u : Upd)
  | fault (e : Fault) (g : Global)
  | invoke (r : Req) (deduct : Nat) (g : Global)

/-! ## `execute` -/

def envWord (cx : Ctx) (fr : Frame) (g : Global) (o : EnvOp) : Option (Word × Global) :=
  match o with
  | .address => some (fr.self, g)
  | .origin => some (cx.origin, g)
  | .caller => some (fr.caller, g)
  | .callvalue => some (fr.value, g)
  | .calldatasize => some (fr.input.size, g)
  | .codesize => some (fr.code.size, g)
  | .gasprice => some (cx.gasPrice, g)
  | .coinbase => some (cx.coinbase, g)
  | .timestamp => some (cx.time, g)
  | .number => some (cx.number, g)
  | .difficulty => some (cx.difficulty, g)
  | .gaslimit => some (cx.gasLimit, g)
  | .pc => some (fr.pc, g)
  | .msize => some (fr.mem.size, g)
  | .gas => some (fr.gas, g)
  | .chainid => some (cx.chainId, g)
  | .returndatasize => some (g.rd.size, g)
  | .selfbalance => g.askHexNat ("gb:" ++ hexAddr fr.self)
  | .basefee => some (0, g)
  | .blobbasefee => some (0, g)
  | .push0 => some (0, g)

def mapWord (cx : Ctx) (fr : Frame) (g : Global) (o : MapOp) (x : Word) : Option (Word × Global) :=
  match o with
  | .balance => g.askHexNat ("gb:" ++ hexAddr (addrOf x))
  | .calldataload => if x < 2 ^ 64 then some (beNat (getData fr.input x 32), g) else some (0, g)
  | .extcodesize => g.askNat ("gs:" ++ hexAddr (addrOf x))
  | .extcodehash =>
    match g.askBool ("em:" ++ hexAddr (addrOf x)) with
    | none => none
    | some (true, g1) => some (0, g1)
    | some (false, g1) => g1.askHexNat ("gh:" ++ hexAddr (addrOf x))
  | .blockhash =>
    if ¬ x < 2 ^ 64 then some (0, g) else
    let upper := cx.number % 2 ^ 64
    let lower := if upper < 257 then 0 else upper - 256
    if x ≥ lower ∧ x < upper then g.askHexNat ("bh:" ++ toString x) else some (0, g)
  | .mload => some (beNat (memRead fr.mem (lo64 x) 32), g)
  | .sload => g.askHexNat ("gst:" ++ hexAddr fr.self ++ ":" ++ hexWord x)
  | .tload => g.askHexNat ("gts:" ++ hexAddr fr.self ++ ":" ++ hexWord x)
  | .blobhash => some (0, g)
  | .getstake => some (10, g)          -- no miner is registered in the modelled world

def secpN : Nat := 0xFFFFFFFFFFFFFFFFFFFFFFFFFFFFFFFEBAAEDCE6AF48A03BBFD25E8CD0364141

/-- `calAuthHash` + `validateAuthAddr` of instructions.go: keccak(0x03 ‖ chainId ‖ invoker ‖ commit),
    first under the EIP-191 prefix, then raw; true iff the recovered address is `authority` -/
def authRecovers (chainId : Nat) (invoker : Nat) (commit : BA) (r s vAdapt authority : Nat) : Bool :=
  let msg := #[(0x03 : UInt8)] ++ natBE 32 chainId ++ natBE 32 invoker ++ commit
  let hash := Keccak.keccak256 msg
  let prefixed := Keccak.keccak256 ("\x19Ethereum Signed Message:\n32".toUTF8.data ++ hash)
  match Secp.recoverAddress (beNat prefixed) r s vAdapt with
  | some a => if a = authority then true else
      (match Secp.recoverAddress (beNat hash) r s vAdapt with
       | some b => b = authority
       | none => false)
  | none =>
      (match Secp.recoverAddress (beNat hash) r s vAdapt with
       | some b => b = authority
       | none => false)

def hexTopics (ts : List Word) : String := String.intercalate "." (ts.map hexWord)

/-- The transcribed `execute` functions. `args` are the `e.pops` words popped
    (head = former top), `fr` is the frame after gas was charged and memory resized,
    with `fr.stack` already reduced to the words below the operands. -/
def execOp (cx : Ctx) (ro : Bool) (e : Exec) (fr : Frame) (args : List Word) (g : Global)
    (callGasTemp : Nat) : ExecOut :=
  let keep (push : List Word) (g : Global) : ExecOut :=
    .upd ⟨push, fr.mem, fr.pc, g, #[], fr.authorized⟩
  let bug : ExecOut := .fault .stackBug g
  match e with
  | .stop =>
    match args with
    | [] => keep [] g
    | _ => bug
  | .bin o =>
    match args with
    | [x, y] => keep [evalBin o x y] g
    | _ => bug
  | .un o =>
    match args with
    | [x] => keep [evalUn o x] g
    | _ => bug
  | .tern o =>
    match args with
    | [x, y, z] => keep [evalTern o x y z] g
    | _ => bug
  | .sha3 =>
    match args with
    | [off, size] =>
      keep [beNat (Keccak.keccak256 (memRead fr.mem (lo64 off) (lo64 size)))] g
    | _ => bug
  | .env o =>
    match args with
    | [] =>
      match envWord cx fr g o with
      | some (w, g') => keep [w] g'
      | none => .fault (.desync "env") g
    | _ => bug
  | .map o =>
    match args with
    | [x] =>
      match mapWord cx fr g o x with
      | some (w, g') => keep [w] g'
      | none => .fault (.desync "map") g
    | _ => bug
  | .pop =>
    match args with
    | [_] => keep [] g
    | _ => bug
  | .mstore =>
    match args with
    | [off, val] =>
      .upd ⟨[], memWrite fr.mem (lo64 off) 32 (word32 (val % W256)), fr.pc, g, #[], fr.authorized⟩
    | _ => bug
  | .mstore8 =>
    match args with
    | [off, val] =>
      .upd ⟨[], memWrite fr.mem (lo64 off) 1 #[UInt8.ofNat (val % 256)], fr.pc, g, #[], fr.authorized⟩
    | _ => bug
  | .sstore =>
    match args with
    | [loc, val] =>
      match g.tell ("sst:" ++ hexAddr fr.self ++ ":" ++ hexWord loc ++ ":" ++ hexWord val) with
      | some g' => keep [] g'
      | none => .fault (.desync "sst") g
    | _ => bug
  | .tstore =>
    match args with
    | [loc, val] =>
      if ro then .fault .writeProtection g else
      -- AccountDB.SetTransientState reads the old value first (through the concrete type, not the proxy)
      match g.tell ("sts:" ++ hexAddr fr.self ++ ":" ++ hexWord loc ++ ":" ++ hexWord val) with
      | some g' => keep [] g'
      | none => .fault (.desync "sts") g
    | _ => bug
  | .jump =>
    match args with
    | [pos] =>
      if validJumpdest fr pos then .upd ⟨[], fr.mem, pos, g, #[], fr.authorized⟩
      else .fault .invalidJump g
    | _ => bug
  | .jumpi =>
    match args with
    | [pos, cond] =>
      if cond ≠ 0 then
        if validJumpdest fr pos then .upd ⟨[], fr.mem, pos, g, #[], fr.authorized⟩
        else .fault .invalidJump g
      else .upd ⟨[], fr.mem, fr.pc + 1, g, #[], fr.authorized⟩
    | _ => bug
  | .jumpdest =>
    match args with
    | [] => keep [] g
    | _ => bug
  | .push1 =>
    match args with
    | [] =>
      let pc := fr.pc + 1
      let w := if pc < fr.code.size then (fr.code.getD pc 0).toNat else 0
      .upd ⟨[w], fr.mem, pc, g, #[], fr.authorized⟩
    | _ => bug
  | .push adv n =>
    match args with
    | [] =>
      let codeLen := fr.code.size
      let startMin := min codeLen (fr.pc + 1)
      let endMin := min codeLen (startMin + n)
      let sl := fr.code.extract startMin endMin
      let w := beNat (sl ++ Array.replicate (n - sl.size) (0 : UInt8))
      .upd ⟨[w], fr.mem, fr.pc + adv, g, #[], fr.authorized⟩
    | _ => bug
  | .dup n =>
    if n = 0 ∨ args.length ≠ n then .fault .stackBug g
    else keep (args.getD (n - 1) 0 :: args) g
  | .swap n =>
    match args with
    | [] => .fault .stackBug g
    | top :: below =>
      if n = 0 ∨ below.length ≠ n then .fault .stackBug g
      else keep (below.getD (n - 1) 0 :: (below.take (n - 1) ++ [top])) g
  | .log n =>
    match args with
    | mStart :: mSize :: topics =>
      if topics.length ≠ n then .fault .stackBug g else
      let d := memRead fr.mem (lo64 mStart) (lo64 mSize)
      match g.tell ("lg:" ++ hexAddr fr.self ++ ":" ++ hexTopics topics ++ ":" ++ hexBA d) with
      | some g' => keep [] g'
      | none => .fault (.desync "lg") g
    | _ => bug
  | .copy .calldatacopy =>
    match args with
    | [memOff, dataOff, len] =>
      let dOff := if dataOff < 2 ^ 64 then dataOff else maxU64
      .upd ⟨[], memWrite fr.mem (lo64 memOff) (lo64 len) (getData fr.input dOff (lo64 len)), fr.pc, g, #[], fr.authorized⟩
    | _ => bug
  | .copy .codecopy =>
    match args with
    | [memOff, codeOff, len] =>
      let cOff := if codeOff < 2 ^ 64 then codeOff else maxU64
      .upd ⟨[], memWrite fr.mem (lo64 memOff) (lo64 len) (getData fr.code cOff (lo64 len)), fr.pc, g, #[], fr.authorized⟩
    | _ => bug
  | .copy .returndatacopy =>
    match args with
    | [memOff, dataOff, len] =>
      if ¬ dataOff < 2 ^ 64 then .fault .returnDataOutOfBounds g else
      let e := (dataOff + len) % W256
      if ¬ e < 2 ^ 64 ∨ g.rd.size < e then .fault .returnDataOutOfBounds g else
      .upd ⟨[], memWrite fr.mem (lo64 memOff) (lo64 len) (g.rd.extract dataOff e), fr.pc, g, #[], fr.authorized⟩
    | _ => bug
  | .copy .mcopy =>
    match args with
    | [dst, src, len] =>
      let data := memRead fr.mem (lo64 src) (lo64 len)
      .upd ⟨[], memWrite fr.mem (lo64 dst) (lo64 len) data, fr.pc, g, #[], fr.authorized⟩
    | _ => bug
  | .extcodecopy =>
    match args with
    | [a, memOff, codeOff, len] =>
      let cOff := if codeOff < 2 ^ 64 then codeOff else maxU64
      match g.askBytes ("gc:" ++ hexAddr (addrOf a)) with
      | none => .fault (.desync "gc") g
      | some (code, g') =>
        .upd ⟨[], memWrite fr.mem (lo64 memOff) (lo64 len) (getData code cOff (lo64 len)), fr.pc, g', #[], fr.authorized⟩
    | _ => bug
  | .create =>
    match args with
    | [value, off, size] =>
      let input := memRead fr.mem (lo64 off) (lo64 size)
      let gas := wsub fr.gas (fr.gas / 64)
      .invoke (.create none value input gas) gas g
    | _ => bug
  | .create2 =>
    match args with
    | [value, off, size, salt] =>
      let input := memRead fr.mem (lo64 off) (lo64 size)
      let gas := wsub fr.gas (fr.gas / 64)
      .invoke (.create (some salt) value input gas) gas g
    | _ => bug
  | .call .call =>
    match args with
    | [_, addr, value, inOff, inSize, retOff, retSize] =>
      let args := memRead fr.mem (lo64 inOff) (lo64 inSize)
      let gas := if value ≠ 0 then wadd callGasTemp 2300 else callGasTemp
      .invoke (.call .call (addrOf addr) value args gas (lo64 retOff) (lo64 retSize) (lo64 inOff)) 0 g
    | _ => bug
  | .call .callcode =>
    match args with
    | [_, addr, value, inOff, inSize, retOff, retSize] =>
      let args := memRead fr.mem (lo64 inOff) (lo64 inSize)
      let gas := if value ≠ 0 then wadd callGasTemp 2300 else callGasTemp
      .invoke (.call .callcode (addrOf addr) value args gas (lo64 retOff) (lo64 retSize) (lo64 inOff)) 0 g
    | _ => bug
  | .call .delegatecall =>
    match args with
    | [_, addr, inOff, inSize, retOff, retSize] =>
      let args := memRead fr.mem (lo64 inOff) (lo64 inSize)
      .invoke (.call .delegatecall (addrOf addr) 0 args callGasTemp (lo64 retOff) (lo64 retSize) (lo64 inOff)) 0 g
    | _ => bug
  | .call .staticcall =>
    match args with
    | [_, addr, inOff, inSize, retOff, retSize] =>
      let args := memRead fr.mem (lo64 inOff) (lo64 inSize)
      .invoke (.call .staticcall (addrOf addr) 0 args callGasTemp (lo64 retOff) (lo64 retSize) (lo64 inOff)) 0 g
    | _ => bug
  | .ret =>
    match args with
    | [off, size] =>
      .upd ⟨[], fr.mem, fr.pc, g, memRead fr.mem (lo64 off) (lo64 size), fr.authorized⟩
    | _ => bug
  | .revert =>
    match args with
    | [off, size] =>
      .upd ⟨[], fr.mem, fr.pc, g, memRead fr.mem (lo64 off) (lo64 size), fr.authorized⟩
    | _ => bug
  | .selfdestruct =>
    match args with
    | [beneficiary] =>
      match g.askHexNat ("gb:" ++ hexAddr fr.self) with
      | none => .fault (.desync "gb") g
      | some (bal, g1) =>
        match g1.tell ("ab:" ++ hexAddr (addrOf beneficiary) ++ ":" ++ hexNatMin bal) with
        | none => .fault (.desync "ab") g1
        | some g2 =>
          match g2.ask ("su:" ++ hexAddr fr.self) with
          | none => .fault (.desync "su") g2
          | some (_, g3) => keep [] g3
    | _ => bug
  | .printf =>
    match args with
    | [] => keep [] g
    | _ => bug
  | .stake =>
    match args with
    | [_, _] => keep [0] g            -- no miner registered: pushBool(false)
    | _ => bug
  | .unstake =>
    match args with
    | [_, _] => keep [0] g
    | _ => bug
  | .unstakeall =>
    match args with
    | [_] => .fault .customOpError g
    | _ => bug
  | .stakenum =>
    match args with
    | [_] => .fault .customOpError g
    | _ => bug
  | .auth =>
    match args with
    | [authority, off, len] =>
      if lo64 len < 128 then keep [0] g else
      -- after the fix: the four words are read zero-padded from memory (getData)
      let o := lo64 off
      let v := beNat (getData fr.mem.data o 32)
      let r := beNat (getData fr.mem.data (wadd o 32) 32)
      let s := beNat (getData fr.mem.data (wadd o 64) 32)
      let commit := getData fr.mem.data (wadd o 96) 32
      let vAdapt := if v % 256 > 26 then (v % 256 + 256 - 27) % 256 else v % 256
      let valid := r ≥ 1 ∧ s ≥ 1 ∧ s ≤ secpN / 2 ∧ r < secpN ∧ s < secpN ∧ (vAdapt = 0 ∨ vAdapt = 1)
      -- `callContext.authorized = nil` happens before the signature is looked at
      if ¬ valid then .upd ⟨[0], fr.mem, fr.pc, g, #[], none⟩ else
      let ok := authRecovers cx.chainId fr.self commit r s vAdapt (addrOf authority)
      if ok then .upd ⟨[1], fr.mem, fr.pc, g, #[], some (addrOf authority)⟩
      else .upd ⟨[0], fr.mem, fr.pc, g, #[], none⟩
    | _ => bug
  | .authcall =>
    match args with
    | [nonce, _, addr, value, valueExt, argsOff, argsLen, retOff, retLen] =>
      if valueExt ≠ 0 then keep [0] g
      else match fr.authorized with
        | none => keep [0] g
        | some auth =>
          let data := memRead fr.mem (lo64 argsOff) (lo64 argsLen)
          match g.askNat ("gn:" ++ hexAddr auth) with
          | none => .fault (.desync "gn") g
          | some (expected, g1) =>
            if expected < lo64 nonce then
              .upd ⟨[0], memWrite fr.mem (lo64 retOff) (lo64 retLen) "nonce too high".toUTF8.data, fr.pc, g1, #[], fr.authorized⟩
            else if expected > lo64 nonce then
              .upd ⟨[0], memWrite fr.mem (lo64 retOff) (lo64 retLen) "nonce too low".toUTF8.data, fr.pc, g1, #[], fr.authorized⟩
            else
              .invoke (.authcall auth (addrOf addr) value data callGasTemp (lo64 retOff) (lo64 retLen)) 0 g1
    | _ => bug
  | .unknown => .fault .invalidOpCode g

/-! ## `EVMInterpreter.Run`: one iteration up to `execute` -/

inductive PreOut
  | fault (e : Fault) (g : Global)
  | ok (info : OpInfo) (fr : Frame) (args : List Word) (g : Global) (callGasTemp : Nat)

/-- `UseGas` -/
def useGas (gas cost : Nat) : Option Nat := if gas < cost then none else some (gas - cost)

def stepPre (cx : Ctx) (ro : Bool) (fr : Frame) (g : Global) : PreOut :=
  let op := (fr.code.getD fr.pc 0).toNat           -- contract.GetOp(pc): 0 beyond the code
  match cx.table.getD op none with
  | none => .fault .invalidOpCode g
  | some info =>
    let sLen := fr.stack.length
    if sLen < info.minStack then .fault .stackUnderflow g
    else if sLen > info.maxStack then .fault .stackOverflow g
    else if ro ∧ (info.writes ∨ (op = 0xf1 ∧ back fr.stack 2 ≠ 0)) then .fault .writeProtection g
    else
      match useGas fr.gas info.constGas with
      | none => .fault .outOfGas g
      | some gas1 =>
        -- memory size, word-rounded, with both overflow checks
        let ms : Option Nat :=
          match memSizeFn info.mem fr.stack with
          | none => some 0
          | some (sz, ov) =>
            if ov then none else
            let r := safeMul (toWordSize sz) 32
            if r.2 then none else some r.1
        match ms with
        | none => .fault .gasUintOverflow g
        | some memorySize =>
          match dynGas cx.gc info.dyn fr.stack fr.mem memorySize gas1 fr.self g with
          | .desync k => .fault (.desync k) g
          | .err g' => .fault .outOfGas g'
          | .ok cost m' g' cgt =>
            match useGas gas1 cost with
            | none => .fault .outOfGas g'
            | some gas2 =>
              let m'' := if memorySize > 0 then m'.resize memorySize else m'
              .ok info { fr with gas := gas2, mem := m'', stack := fr.stack.drop info.exec.pops }
                (fr.stack.take info.exec.pops) g' cgt

/-! ## frames -/

def emptyCodeHash : Nat := 0xc5d2460186f7233c927e7db2dcc703c0e500b653ca82273b7bfad8045d85a470

def mkFrame (code : BA) (gas self caller : Nat) (value : Word) (input : BA) : Frame :=
  { code := code, isCode := analyse code, pc := 0, gas := gas, stack := [], mem := Mem.empty,
    self := self, caller := caller, value := value, input := input, authorized := none }

abbrev Runner := (depth : Nat) → (ro : Bool) → Frame → Global → RunRes

/-- `run(evm, contract, input, readOnly)` → `Interpreter.Run`: depth++, returnData = nil,
    empty code returns at once. `depth` is `evm.depth` *before* the increment. -/
def runContract (run : Runner) (depth : Nat) (ro : Bool) (fr : Frame) (g : Global) : RunRes :=
  let g := { g with rd := #[] }
  if fr.code.size = 0 then ⟨#[], none, fr.gas, g⟩
  else run (depth + 1) ro fr g

/-- `RunPrecompiledContract` -/
def runPrecompile (addr : Nat) (input : BA) (gas : Nat) (g : Global) : CallRes :=
  let cost := precompileGas addr input
  if gas < cost then ⟨#[], 0, some .outOfGas, g, 0⟩ else
  match g.ask ("pc:" ++ hexAddr addr ++ ":" ++ hexBA input) with
  | none => ⟨#[], 0, some (.desync ("pc:" ++ hexAddr addr ++ ":" ++ hexBA input)), g, 0⟩
  | some (a, g') =>
    if a.startsWith "ok:" then
      -- a `Run` that succeeded passed its input-length gate
      if ¬ precompileLenOk addr input.size then ⟨#[], 0, some (.desync "pc-length-gate"), g', 0⟩ else
      match unhex? (String.ofList (a.toList.drop 3)) with
      | some out =>
        -- where the body of `Run` is modelled, the recorded output must be the model's
        match precompileRunModel addr input with
        | some (some expected) => if expected = out then ⟨out, gas - cost, none, g', 0⟩ else ⟨#[], 0, some (.desync "pc-output"), g', 0⟩
        | some none => ⟨#[], 0, some (.desync "pc-should-fail"), g', 0⟩
        | none => ⟨out, gas - cost, none, g', 0⟩
      | none => ⟨#[], 0, some (.desync "pc-answer"), g', 0⟩
    else
      match precompileRunModel addr input with
      | some (some _) => ⟨#[], 0, some (.desync "pc-should-succeed"), g', 0⟩
      | _ => ⟨#[], gas - cost, some .precompileError, g', 0⟩

/-- common tail of Call/CallCode/DelegateCall/StaticCall: revert + gas confiscation -/
def finishCallRes (snap : String) (ret : BA) (gas : Nat) (err : Option Fault) (g : Global) : CallRes :=
  match err with
  | none => ⟨ret, gas, none, g, 0⟩
  | some e =>
    if e.isAbort then ⟨ret, gas, some e, g, 0⟩ else
    match g.tell ("rv:" ++ snap) with
    | none => ⟨ret, gas, some (.desync "rv"), g, 0⟩
    | some g' => ⟨ret, if e = .reverted then gas else 0, some e, g', 0⟩

/-- `evm.Call / CallCode / DelegateCall / StaticCall` (evm.go). `fr` is the calling
    frame (`caller ContractRef`); at top level a pseudo-frame whose `self` is the origin. -/
def evmCall (run : Runner) (depth : Nat) (ro : Bool) (k : CallKind)
    (callerSelf callerCaller : Nat) (callerValue : Word)
    (addr : Nat) (value : Word) (input : BA) (gas : Nat) (g : Global) : CallRes :=
  if depth > 1024 then ⟨#[], gas, some .depth, g, 0⟩ else
  let bad (k : String) (g : Global) : CallRes := ⟨#[], gas, some (.desync k), g, 0⟩
  -- CanTransfer
  let canTransfer : Option (Bool × Global) :=
    match k with
    | .call =>
      if value ≠ 0 then
        match g.askHexNat ("gb:" ++ hexAddr callerSelf) with
        | some (bal, g') => some (decide (bal ≥ value), g')
        | none => none
      else some (true, g)
    | .callcode =>
      match g.askHexNat ("gb:" ++ hexAddr callerSelf) with
      | some (bal, g') => some (decide (bal ≥ value), g')
      | none => none
    | _ => some (true, g)
  match canTransfer with
  | none => bad "gb" g
  | some (false, g0) => ⟨#[], gas, some .insufficientBalance, g0, 0⟩
  | some (true, g0) =>
  match g0.ask "sp" with
  | none => bad "sp" g0
  | some (snap, g1) =>
  match k with
  | .call =>
    match g1.askBool ("ex:" ++ hexAddr addr) with
    | none => bad "ex" g1
    | some (exist, g2) =>
      if ¬ exist ∧ ¬ isPrecompile addr ∧ value = 0 then ⟨#[], gas, none, g2, 0⟩ else
      let g3? := if exist then some g2 else g2.tell ("ca:" ++ hexAddr addr)
      match g3? with
      | none => bad "ca" g2
      | some g3 =>
      match g3.tell ("sb:" ++ hexAddr callerSelf ++ ":" ++ hexNatMin value) with
      | none => bad "sb" g3
      | some g4 =>
      match g4.tell ("ab:" ++ hexAddr addr ++ ":" ++ hexNatMin value) with
      | none => bad "ab" g4
      | some g5 =>
        if isPrecompile addr then
          let r := runPrecompile addr input gas g5
          finishCallRes snap r.ret r.gas r.err r.g
        else
          match g5.askBytes ("gc:" ++ hexAddr addr) with
          | none => bad "gc" g5
          | some (code, g6) =>
            if code.size = 0 then ⟨#[], gas, none, g6, 0⟩ else
            match g6.ask ("gh:" ++ hexAddr addr) with
            | none => bad "gh" g6
            | some (_, g7) =>
              let r := runContract run depth ro (mkFrame code gas addr callerSelf value input) g7
              finishCallRes snap r.ret r.gas r.err r.g
  | .callcode =>
    if isPrecompile addr then
      let r := runPrecompile addr input gas g1
      finishCallRes snap r.ret r.gas r.err r.g
    else
      match g1.ask ("gh:" ++ hexAddr addr) with
      | none => bad "gh" g1
      | some (_, g2) =>
      match g2.askBytes ("gc:" ++ hexAddr addr) with
      | none => bad "gc" g2
      | some (code, g3) =>
        let r := runContract run depth ro (mkFrame code gas callerSelf callerSelf value input) g3
        finishCallRes snap r.ret r.gas r.err r.g
  | .delegatecall =>
    if isPrecompile addr then
      let r := runPrecompile addr input gas g1
      finishCallRes snap r.ret r.gas r.err r.g
    else
      match g1.ask ("gh:" ++ hexAddr addr) with
      | none => bad "gh" g1
      | some (_, g2) =>
      match g2.askBytes ("gc:" ++ hexAddr addr) with
      | none => bad "gc" g2
      | some (code, g3) =>
        let r := runContract run depth ro (mkFrame code gas callerSelf callerCaller callerValue input) g3
        finishCallRes snap r.ret r.gas r.err r.g
  | .staticcall =>
    match g1.tell ("ab:" ++ hexAddr addr ++ ":") with
    | none => bad "ab" g1
    | some g2 =>
    if isPrecompile addr then
      let r := runPrecompile addr input gas g2
      finishCallRes snap r.ret r.gas r.err r.g
    else
      match g2.ask ("gh:" ++ hexAddr addr) with
      | none => bad "gh" g2
      | some (_, g3) =>
      match g3.askBytes ("gc:" ++ hexAddr addr) with
      | none => bad "gc" g3
      | some (code, g4) =>
        let r := runContract run depth true (mkFrame code gas addr callerSelf 0 input) g4
        finishCallRes snap r.ret r.gas r.err r.g

/-- RLP of `[address, nonce]` (crypto.CreateAddress) -/
def rlpAddrNonce (addr nonce : Nat) : BA :=
  let nb : BA :=
    if nonce = 0 then #[0x80]
    else if nonce < 128 then #[UInt8.ofNat nonce]
    else
      let rec len (fuel n acc : Nat) : Nat :=
        match fuel with
        | 0 => acc
        | f + 1 => if n = 0 then acc else len f (n / 256) (acc + 1)
      let l := len 9 nonce 0
      #[UInt8.ofNat (0x80 + l)] ++ natBE l nonce
  let payload := #[(0x94 : UInt8)] ++ natBE 20 addr ++ nb
  #[UInt8.ofNat (0xc0 + payload.size)] ++ payload

def createAddress (addr nonce : Nat) : Nat :=
  beNat ((Keccak.keccak256 (rlpAddrNonce addr nonce)).extract 12 32)

def createAddress2 (addr : Nat) (salt : Word) (init : BA) : Nat :=
  beNat ((Keccak.keccak256 (#[(0xff : UInt8)] ++ natBE 20 addr ++ word32 salt ++ Keccak.keccak256 init)).extract 12 32)

def maxCodeSize : Nat := 245760

def isAbortErr (e : Option Fault) : Bool :=
  match e with
  | some e => e.isAbort
  | none => false

/-- `evm.create`: code deposit (`createDataGas`, `SetCode`) after a successful init run -/
def createDeposit (p26 : Bool) (address : Nat) (r : RunRes) : CallRes :=
  let createDataGas := wmul r.ret.size 200
  let createDataGas := if p26 then wmul createDataGas gasMagnification else createDataGas
  match useGas r.gas createDataGas with
  | some gasLeft =>
    match r.g.tell ("sc:" ++ hexAddr address ++ ":" ++ hexBA r.ret) with
    | some g' => ⟨r.ret, gasLeft, none, g', address⟩
    | none => ⟨r.ret, r.gas, some (.desync "sc"), r.g, address⟩
  | none => ⟨r.ret, r.gas, some .codeStoreOutOfGas, r.g, address⟩     -- kept: no revert, gas stays

/-- `evm.create`: revert to the snapshot and confiscate the gas unless the init code reverted -/
def createRevert (address : Nat) (snap : String) (tooBig : Bool) (r : RunRes) : CallRes :=
  match r.g.tell ("rv:" ++ snap) with
  | none => ⟨r.ret, r.gas, some (.desync "rv"), r.g, address⟩
  | some g' =>
    ⟨r.ret, if r.err ≠ some .reverted then 0 else r.gas,
      if tooBig ∧ r.err.isNone then some .maxCodeSizeExceeded else r.err, g', address⟩

/-- the part of `evm.create` after the init code ran: size check, code deposit,
    revert + gas confiscation -/
def createFinish (p26 : Bool) (address : Nat) (snap : String) (r : RunRes) : CallRes :=
  if isAbortErr r.err then ⟨r.ret, r.gas, r.err, r.g, address⟩ else
  let tooBig := decide (r.ret.size > maxCodeSize)
  if r.err.isNone ∧ ¬ tooBig then createDeposit p26 address r
  else createRevert address snap tooBig r

/-- `evm.Create` / `evm.Create2` → `evm.create` -/
def evmCreate (cx : Ctx) (run : Runner) (depth : Nat) (ro : Bool) (callerSelf : Nat)
    (salt : Option Word) (value : Word) (init : BA) (gas : Nat) (g : Global) : CallRes :=
  let bad (k : String) (g : Global) : CallRes := ⟨#[], gas, some (.desync k), g, 0⟩
  -- Create: address from the caller's nonce; Create2: from salt and init-code hash
  let addr? : Option (Nat × Global) :=
    match salt with
    | none =>
      match g.askNat ("gn:" ++ hexAddr callerSelf) with
      | some (n, g') => some (createAddress callerSelf n, g')
      | none => none
    | some s => some (createAddress2 callerSelf s init, g)
  match addr? with
  | none => bad "gn" g
  | some (address, g0) =>
  if depth > 1024 then ⟨#[], gas, some .depth, g0, 0⟩ else
  match g0.askHexNat ("gb:" ++ hexAddr callerSelf) with
  | none => bad "gb" g0
  | some (bal, g1) =>
  if bal < value then ⟨#[], gas, some .insufficientBalance, g1, 0⟩ else
  match g1.askNat ("gn:" ++ hexAddr callerSelf) with
  | none => bad "gn" g1
  | some (nonce, g2) =>
  let g3? := if cx.bumpNonce then g2.tell ("sn:" ++ hexAddr callerSelf ++ ":" ++ toString (wadd nonce 1)) else some g2
  match g3? with
  | none => bad "sn" g2
  | some g3 =>
  match g3.tell ("aal:" ++ hexAddr address) with
  | none => bad ("aal:" ++ hexAddr address) g3
  | some g4 =>
  match g4.askHexNat ("gh:" ++ hexAddr address) with
  | none => bad "gh" g4
  | some (hash, g5) =>
  match g5.askNat ("gn:" ++ hexAddr address) with
  | none => bad "gn" g5
  | some (n2, g6) =>
  if n2 ≠ 0 ∨ (hash ≠ 0 ∧ hash ≠ emptyCodeHash) then ⟨#[], 0, some .addressCollision, g6, 0⟩ else
  match g6.ask "sp" with
  | none => bad "sp" g6
  | some (snap, g7) =>
  match g7.tell ("ca:" ++ hexAddr address) with
  | none => bad "ca" g7
  | some g8 =>
  match g8.tell ("sn:" ++ hexAddr address ++ ":1") with
  | none => bad "sn1" g8
  | some g9 =>
  match g9.tell ("sb:" ++ hexAddr callerSelf ++ ":" ++ hexNatMin value) with
  | none => bad "sb" g9
  | some g10 =>
  match g10.tell ("ab:" ++ hexAddr address ++ ":" ++ hexNatMin value) with
  | none => bad "ab" g10
  | some g11 =>
    createFinish cx.gc.p26 address snap
      (runContract run depth ro (mkFrame init gas address callerSelf value #[]) g11)

/-- `evm.AuthCall(sponsor = origin, caller = authorized, …)` (evm.go) -/
def evmAuthCall (cx : Ctx) (run : Runner) (depth : Nat) (ro : Bool) (auth : Nat)
    (addr : Nat) (value : Word) (input : BA) (gas : Nat) (g : Global) : CallRes :=
  if depth > 1024 then ⟨#[], gas, some .depth, g, 0⟩ else
  let bad (k : String) (g : Global) : CallRes := ⟨#[], gas, some (.desync k), g, 0⟩
  let sponsor := cx.origin
  let canTransfer : Option (Bool × Global) :=
    if value ≠ 0 then
      match g.askHexNat ("gb:" ++ hexAddr sponsor) with
      | some (bal, g') => some (decide (bal ≥ value), g')
      | none => none
    else some (true, g)
  match canTransfer with
  | none => bad "gb" g
  | some (false, g0) => ⟨#[], gas, some .insufficientBalance, g0, 0⟩
  | some (true, g0) =>
  match g0.askNat ("gn:" ++ hexAddr auth) with
  | none => bad "gn" g0
  | some (nonce, ga) =>
  match ga.tell ("sn:" ++ hexAddr auth ++ ":" ++ toString (wadd nonce 1)) with
  | none => bad "sn" ga
  | some gb =>
  match gb.ask "sp" with
  | none => bad "sp" gb
  | some (snap, g1) =>
  match g1.askBool ("ex:" ++ hexAddr addr) with
  | none => bad "ex" g1
  | some (exist, g2) =>
    if ¬ exist ∧ ¬ isPrecompile addr ∧ value = 0 then ⟨#[], gas, none, g2, 0⟩ else
    let g3? := if exist then some g2 else g2.tell ("ca:" ++ hexAddr addr)
    match g3? with
    | none => bad "ca" g2
    | some g3 =>
    match g3.tell ("sb:" ++ hexAddr sponsor ++ ":" ++ hexNatMin value) with
    | none => bad "sb" g3
    | some g4 =>
    match g4.tell ("ab:" ++ hexAddr addr ++ ":" ++ hexNatMin value) with
    | none => bad "ab" g4
    | some g5 =>
      if isPrecompile addr then
        let r := runPrecompile addr input gas g5
        finishCallRes snap r.ret r.gas r.err r.g
      else
        match g5.askBytes ("gc:" ++ hexAddr addr) with
        | none => bad "gc" g5
        | some (code, g6) =>
          if code.size = 0 then ⟨#[], gas, none, g6, 0⟩ else
          match g6.ask ("gh:" ++ hexAddr addr) with
          | none => bad "gh" g6
          | some (_, g7) =>
            let r := runContract run depth ro (mkFrame code gas addr auth value input) g7
            finishCallRes snap r.ret r.gas r.err r.g

/-- dispatch of an `ExecOut.invoke` -/
def doInvoke (cx : Ctx) (run : Runner) (depth : Nat) (ro : Bool) (fr : Frame) (r : Req) (g : Global) : CallRes :=
  match r with
  | .call k addr value input gas _ _ _ =>
    evmCall run depth ro k fr.self fr.caller fr.value addr value input gas g
  | .create salt value init gas =>
    evmCreate cx run depth ro fr.self salt value init gas g
  | .authcall auth addr value input gas _ _ =>
    evmAuthCall cx run depth ro auth addr value input gas g

/-- what `opCall…`/`opCreate…` do with the callee's result -/
def resume (fr : Frame) (r : Req) (cr : CallRes) : Frame × BA :=
  match r with
  | .call _ addr _ input _ retOff retSize inOff =>
    let flag : Word := if cr.err.isSome then 0 else 1
    let mem := if cr.err.isNone ∨ cr.err = some .reverted then memWrite fr.mem retOff retSize cr.ret else fr.mem
    -- the identity precompile returns its input slice itself (`dataCopy.Run: return in`), which
    -- aliases the caller's memory: `returnData` is copied only after the result was written
    -- back at `retOffset`, so it sees that write where the two windows overlap
    let res := if addr = 4 ∧ cr.err.isNone ∧ input.size > 0 then memRead mem inOff input.size else cr.ret
    ({ fr with stack := flag :: fr.stack, mem := mem, gas := wadd fr.gas cr.gas }, res)
  | .authcall _ _ _ _ _ retOff retSize =>
    let flag : Word := if cr.err.isSome then 0 else 1
    let mem := if cr.err.isNone ∨ cr.err = some .reverted then memWrite fr.mem retOff retSize cr.ret else fr.mem
    ({ fr with stack := flag :: fr.stack, mem := mem, gas := wadd fr.gas cr.gas }, cr.ret)
  | .create _ _ _ _ =>
    let w : Word := if cr.err.isSome then 0 else cr.addr
    ({ fr with stack := w :: fr.stack, gas := wadd fr.gas cr.gas },
      if cr.err = some .reverted then cr.ret else #[])

/-! ## the loop -/

/-- what `Run` does after `execute` returned without error: set the return data,
    then `reverts` / `halts` / `pc++` as the table's flags say, and loop (`cont`) -/
def finishStep (info : OpInfo) (cont : Frame → Global → RunRes) (fr2 : Frame) (res : BA) (g2 : Global) : RunRes :=
  let g3 := if info.returns then { g2 with rd := res } else g2
  if info.reverts then ⟨res, some .reverted, fr2.gas, g3⟩
  else if info.halts then ⟨res, none, fr2.gas, g3⟩
  else cont (if info.jumps then fr2 else { fr2 with pc := fr2.pc + 1 }) g3

/-- ghost bookkeeping at the head of an iteration -/
def Global.observe (g : Global) (depth stackLen : Nat) : Global :=
  { g with steps := g.steps + 1, hwStack := max g.hwStack stackLen, hwDepth := max g.hwDepth depth }

/-- `EVMInterpreter.Run`'s `for` loop. `depth` is `evm.depth` inside this Run. -/
def runLoop (cx : Ctx) : (fuel : Nat) → Runner
  | 0, _, _, fr, g => ⟨#[], some .outOfFuel, fr.gas, g⟩
  | fuel + 1, depth, ro, fr, g =>
    match stepPre cx ro fr (g.observe depth fr.stack.length) with
    | .fault e g' => ⟨#[], some e, fr.gas, g'⟩
    | .ok info fr1 args g1 cgt =>
      match execOp cx ro info.exec fr1 args g1 cgt with
      | .fault e g2 => ⟨#[], some e, fr1.gas, g2⟩
      | .upd u =>
        finishStep info (runLoop cx fuel depth ro)
          { fr1 with stack := u.push ++ fr1.stack, mem := u.mem, pc := u.pc, authorized := u.authorized } u.res u.g
      | .invoke req deduct g2 =>
        let fr2 := { fr1 with gas := fr1.gas - deduct }
        let cr := doInvoke cx (runLoop cx fuel) depth ro fr2 req g2
        if isAbortErr cr.err then ⟨#[], cr.err, fr2.gas, cr.g⟩
        else finishStep info (runLoop cx fuel depth ro) (resume fr2 req cr).1 (resume fr2 req cr).2 cr.g

/-- top-level `evm.Call` from an externally owned `origin` (contract_executor.go) -/
def topCall (cx : Ctx) (fuel : Nat) (addr : Nat) (value : Word) (input : BA) (gas : Nat) (g : Global) : CallRes :=
  evmCall (runLoop cx fuel) 0 false .call cx.origin cx.origin 0 addr value input gas g

/-- top-level `evm.StaticCall` (what `eth_call`-style read-only entry points use) -/
def topStaticCall (cx : Ctx) (fuel : Nat) (addr : Nat) (input : BA) (gas : Nat) (g : Global) : CallRes :=
  evmCall (runLoop cx fuel) 0 false .staticcall cx.origin cx.origin 0 addr 0 input gas g

/-- top-level `evm.Create` -/
def topCreate (cx : Ctx) (fuel : Nat) (value : Word) (init : BA) (gas : Nat) (g : Global) : CallRes :=
  evmCreate cx (runLoop cx fuel) 0 false cx.origin none value init gas g

end Rangers.Evm11
