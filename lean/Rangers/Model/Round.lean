/-
Model of the signing round of go-rangers' verify group
(src/consensus/logical: processor_party.go, party.go, round_sign_piece.go,
round_sign_finalizer.go; src/consensus/net/msg_decode.go for the wire step).

Core Lean only, total, executable. Cryptography is a parameter (`Crypto G`):
the model transcribes the control flow of the handlers and calls the oracle
exactly where the Go code calls groupsig.VerifySig / RecoverGroupSignature /
Signature.IsNil / IsValid. Byte strings that are only ever compared or signed
(block hash, previous beacon value, dataHash, message ids) are `Nat` tags.

Sequentialisation: Processor.waitUntilDone (a goroutine) removes a party once
it reported an error or completion; here that happens right after the message
that caused it (`Proc.deliver`), i.e. the model covers the schedules in which
the reaper runs before the next message. Timing (10 s timeout) is not modelled.
-/
namespace Rangers.Model.Round

abbrev Id := Nat
/-- Tag of a byte string (block hash, beacon value, signed data). Only equality is used. -/
abbrev Data := Nat
abbrev MsgId := Nat

/-- The cryptographic calls made by the round, as an oracle.
`verify id d s` = `groupsig.VerifySig(pk, d, s)` with `pk` the sign public key
registered for `id` in the joined-group info. -/
structure Crypto (G : Type) where
  isNil : G → Bool
  isValid : G → Bool
  verify : Id → Data → G → Bool
  verifyGroup : Data → G → Bool
  recover : List (Id × G) → G
  /-- `getRandomKSignInfo`: the k entries chosen when the map holds more than k. -/
  pick : List (Id × G) → Nat → List (Id × G)

/-- What round0 established before round1 starts, plus the chain stub's answers. -/
structure Env where
  /-- `bh.Hash` -/
  hash : Data
  /-- `preBH.Random` -/
  prevRandom : Data
  /-- `group.GetMemberCount()` -/
  groupSize : Nat
  /-- ids with an entry in `JoinedGroupInfo.MemberSignPubkeyMap` -/
  pkKnown : List Id
  /-- `blockchain.HasBlockByHash(bh.Hash)` -/
  blockExists : Bool
  /-- the translator's fact: `round1.Update` compares `si.GetDataHash()` with `bh.Hash`
      before it counts the share. -/
  bindsHash : Bool
  /-- the translator's fact: the loop of `round1.Start` handles each stored message under its own
      `recover` (a panicking message is dropped, the loop goes on) instead of letting the panic escape. -/
  startRecovers : Bool := false
  deriving Repr

/-- `model.Param.GetGroupK`: ⌈n·51/100⌉. -/
def groupK (n : Nat) : Nat := (n * 51 + 99) / 100

/-- How the signer id bytes behave: `oversize` (> 32 bytes) makes
`ID.Serialize` panic in the first log line of `round1.Update`. -/
inductive IdShape | ok | oversize
  deriving DecidableEq, Repr

/-- A decoded `ConsensusVerifyMessage`. -/
structure VMsg (G : Type) where
  mid : MsgId
  /-- `cvm.BlockHash`: the key the processor files the message under -/
  blockHash : Data
  signer : Id
  idShape : IdShape
  /-- `signerID.IsValid()` (id ≠ 0) -/
  signerNonZero : Bool
  /-- `si.dataHash` -/
  dataHash : Data
  sig : G
  /-- `cvm.RandomSign` -/
  rand : G

/-- What arrives from the network. `UnMarshalConsensusVerifyMessage` fails on a
protobuf error and panics (recovered by `ConsensusHandler.Handle`) when the
`Sign` sub-message is missing or its `DataSign` is empty. -/
inductive Wire (G : Type)
  | protoBad
  | noSign
  | emptyDataSign
  | ok (m : VMsg G)

def decode {G : Type} : Wire G → Option (VMsg G)
  | .ok m => some m
  | _ => none


/-! ### Shape facts re-read from the source by the translator (gen/cmd/c15facts) -/

/-- The guards and effects of `round1.Update` the translator recognises (anything else is `unknown`). -/
inductive UStep
  | typeCheck | checkBlockExisted | pkGuard | bindHash | verifySign | randNil | randVerify
  | gAdd | gAddGuard | rAdd | finish | returnNil | unknown
  deriving DecidableEq, Repr

/-- `round2.checkSignature`. -/
inductive CStep
  | verifyBlockSig | verifyRandomSig | returnNil | unknown
  deriving DecidableEq, Repr

/-- `SignInfo.VerifySign`. -/
inductive VStep
  | signerNonZero | verifyOverDataHash | unknown
  deriving DecidableEq, Repr

/-- `round2.Start`. -/
inductive R2Step
  | finishedGuard | setFinished | checkBlockExisted | checkSignature | generateBlock | generateGuard
  | addOnChainAsync | signalDone | returnNil | unknown
  deriving DecidableEq, Repr

/-- `groupSignGenerator.AddWitnessSign` / `addWitnessForce` / `genGroupSign`. -/
inductive GStep
  | recoveredGuard | force | dupGuard | store | atThreshold | belowThreshold
  | alreadyValid | nilGuard | storeRecovered | emptyNote | returnTrue | unknown
  deriving DecidableEq, Repr

/-- `Processor.loadOrNewSignParty`. -/
inductive PStep
  | lock | deferUnlock | routeToParty | dropFinished | parkAppend | createParty | unknown
  deriving DecidableEq, Repr

/-- route to a live party; drop for a finished key; otherwise (verify message) PARK it by plain append —
no look at what is already parked, in particular no dedup by the (unauthenticated) signer id;
otherwise (cast message) create the party. -/
def expectedLoadPartySteps : List PStep :=
  [.lock, .deferUnlock, .routeToParty, .dropFinished, .parkAppend, .createParty]

def expectedStart2Steps : List R2Step :=
  [.finishedGuard, .setFinished, .checkBlockExisted, .checkSignature, .generateBlock, .generateGuard,
   .addOnChainAsync, .signalDone, .returnNil]

def expectedAddWitnessSignSteps : List GStep := [.recoveredGuard, .force]
def expectedAddWitnessForceSteps : List GStep := [.dupGuard, .store, .atThreshold, .belowThreshold]
def expectedGenGroupSignSteps : List GStep := [.alreadyValid, .nilGuard, .storeRecovered, .emptyNote, .returnTrue]

/-- Package-level variables the functions on the path may mention: only the curve order read by
`recoverSignature`. A verification cache, a pooled point or a scratch buffer added to the path makes
the regenerated list differ. -/
def expectedPathGlobals : List String := ["recoverSignature:curveOrder"]

/-- The statement order `update` (below) transcribes, for either value of the `bindsHash` fact. -/
def expectedUpdateSteps (bindsHash : Bool) : List UStep :=
  [.typeCheck, .checkBlockExisted, .pkGuard] ++ (if bindsHash then [.bindHash] else []) ++
  [.verifySign, .randNil, .randVerify, .gAdd, .gAddGuard, .rAdd, .finish, .returnNil]

def expectedCheckSignatureSteps : List CStep := [.verifyBlockSig, .verifyRandomSig, .returnNil]

def expectedVerifySignSteps : List VStep := [.signerNonZero, .verifyOverDataHash]

/-! ### groupSignGenerator -/

structure Gen (G : Type) where
  threshold : Nat
  /-- `witnessSignMap`, in insertion order (keys are unique) -/
  witness : List (Id × G)
  /-- `groupSign`; `none` is the zero value -/
  groupSign : Option G

def Gen.new {G : Type} (threshold : Nat) : Gen G := ⟨threshold, [], none⟩

/-- `SignRecovered` = `groupSign.IsValid()` (non-nil and on the curve). -/
def Gen.recovered {G : Type} (c : Crypto G) (g : Gen G) : Bool :=
  match g.groupSign with
  | some s => !c.isNil s && c.isValid s
  | none => false

def Gen.has {G : Type} (g : Gen G) (id : Id) : Bool := g.witness.any (fun e => e.1 == id)

/-- `genGroupSign`: `RecoverGroupSignature` never returns nil, so it reports success. -/
def Gen.genGroupSign {G : Type} (c : Crypto G) (g : Gen G) : Gen G × Bool :=
  if g.recovered c then (g, true)
  else
    let chosen := if g.threshold < g.witness.length then c.pick g.witness g.threshold else g.witness
    ({ g with groupSign := some (c.recover (chosen.take g.threshold)) }, true)

/-- `addWitnessForce`: (generator, add, generated). -/
def Gen.addWitnessForce {G : Type} (c : Crypto G) (g : Gen G) (id : Id) (s : G) : Gen G × Bool × Bool :=
  if g.has id then (g, false, false)
  else
    let g1 := { g with witness := g.witness ++ [(id, s)] }
    if g1.witness.length ≥ g1.threshold then
      let r := g1.genGroupSign c
      (r.1, true, r.2)
    else (g1, true, false)

/-- `AddWitnessSign`. -/
def Gen.addWitnessSign {G : Type} (c : Crypto G) (g : Gen G) (id : Id) (s : G) : Gen G × Bool × Bool :=
  if g.recovered c then (g, false, true) else g.addWitnessForce c id s

/-! ### round1 / round2 -/

/-- State shared by round0/1/2 of one party (`baseRound` + `round1` + `round2` fields). -/
structure RState (G : Type) where
  /-- 1 or 2 -/
  number : Nat
  canProcessed : Bool
  started : Bool
  /-- `baseRound.processed` (message ids) -/
  processed : List MsgId
  /-- `futureMessages` in the order `round1.Start` will range over them -/
  future : List (VMsg G)
  gSign : Gen G
  rSign : Gen G
  /-- `bh.Signature`, `bh.Random` (`none`: still what the proposer sent / empty) -/
  bhSignature : Option G
  bhRandom : Option G
  /-- `round2.finished` -/
  finished : Bool
  /-- `GenerateBlock` was called with these `bh.Signature`, `bh.Random` -/
  generated : Option (Option G × Option G)

/-- Why `round1.Update` did what it did (for the evidence distribution; the Go
code only logs it). -/
inductive Outcome
  | panicked | blockExisted | noPubKey | otherHash | badSign | randNil | badRand
  | alreadyHad | added | recovered
  deriving DecidableEq, Repr

def Outcome.toString : Outcome → String
  | .panicked => "panic" | .blockExisted => "exists" | .noPubKey => "nopk"
  | .otherHash => "otherhash" | .badSign => "badsign" | .randNil => "randnil"
  | .badRand => "badrand" | .alreadyHad => "had" | .added => "added" | .recovered => "recovered"

/-- Result of a handler: new state, and `true` when it returned a non-nil `*Error`. -/
structure Step (G : Type) where
  st : RState G
  err : Bool
  out : Outcome

/-- `round1.Update` (round_sign_piece.go). A panic leaves the state untouched
(it happens while the arguments of the first log call are evaluated). -/
def update {G : Type} (c : Crypto G) (env : Env) (st : RState G) (m : VMsg G) : Step G :=
  if m.idShape = .oversize then ⟨st, false, .panicked⟩
  else if env.blockExists then ⟨st, true, .blockExisted⟩
  else if !env.pkKnown.contains m.signer then ⟨st, false, .noPubKey⟩
  else if env.bindsHash && m.dataHash != env.hash then ⟨st, false, .otherHash⟩
  else if !(m.signerNonZero && c.verify m.signer m.dataHash m.sig) then ⟨st, false, .badSign⟩
  else if c.isNil m.rand then ⟨st, false, .randNil⟩
  else if !c.verify m.signer env.prevRandom m.rand then ⟨st, false, .badRand⟩
  else
    let ga := st.gSign.addWitnessSign c m.signer m.sig
    if !ga.2.1 then ⟨st, false, .alreadyHad⟩
    else
      let ra := st.rSign.addWitnessSign c m.signer m.rand
      let st1 := { st with gSign := ga.1, rSign := ra.1 }
      if ra.2.1 && ga.2.2 && ra.2.2 then
        ⟨{ st1 with bhSignature := ga.1.groupSign, bhRandom := ra.1.groupSign, canProcessed := true },
          false, .recovered⟩
      else ⟨st1, false, .added⟩

/-- The loop of `round1.Start` over the stored future messages:
(state, an `Update` returned an error, a panic escaped). The generators keep
whatever the messages before the failing one wrote. -/
def startLoop {G : Type} (c : Crypto G) (env : Env) : RState G → List (VMsg G) → RState G × Bool × Bool
  | st, [] => (st, false, false)
  | st, m :: rest =>
    let r := update c env st m
    if r.out = .panicked then
      (if env.startRecovers then startLoop c env r.st rest else (r.st, false, true))
    else if r.err then (r.st, true, false)
    else startLoop c env r.st rest

/-- `round1.Start`: (state, returned error, panicked). With no stored message it
returns before `started` is set (as the code does). -/
def start1 {G : Type} (c : Crypto G) (env : Env) (st : RState G) : RState G × Bool × Bool :=
  if st.started then (st, false, false)
  else
    let k := groupK env.groupSize
    let st := { st with gSign := Gen.new k, rSign := Gen.new k }
    if st.future.isEmpty then (st, false, false)
    else
      let r := startLoop c env st st.future
      if r.2.1 || r.2.2 then r
      else
        ({ r.1 with processed := r.1.processed ++ st.future.map (·.mid), future := [], started := true },
          false, false)

/-- `groupsig.VerifySig(gpk, d, *DeserializeSign(bytes))` on a header field:
an empty field deserialises to a nil signature, which `VerifySig` rejects, as it
rejects points that are not on the curve. -/
def sigOk {G : Type} (c : Crypto G) (d : Data) : Option G → Bool
  | some s => !c.isNil s && c.isValid s && c.verifyGroup d s
  | none => false

/-- `round2.Start` with `checkSignature` (round_sign_finalizer.go). Returns the
state and whether an error was returned. -/
def start2 {G : Type} (c : Crypto G) (env : Env) (st : RState G) : RState G × Bool :=
  if st.finished then (st, true)
  else
    let st := { st with finished := true }
    if env.blockExists then (st, true)
    else if !sigOk c env.hash st.bhSignature then (st, true)
    else if !sigOk c env.prevRandom st.bhRandom then (st, true)
    else ({ st with generated := some (st.bhSignature, st.bhRandom) }, false)

/-! ### baseParty.Update from round1 on -/

/-- Where the party is. `ended`: `p.rnd == nil`. -/
inductive Phase | r1 | r2 | ended
  deriving DecidableEq, Repr

structure Party (G : Type) where
  phase : Phase
  rs : RState G
  /-- something was sent on `Err` / `Done` and not yet collected -/
  errPending : Bool
  donePending : Bool

/-- `round1.CanAccept` for a verify message: 0 unless the id was seen. -/
def canAccept1 {G : Type} (st : RState G) (m : VMsg G) : Bool :=
  !(st.processed.contains m.mid) && !(st.future.any (fun f => f.mid == m.mid))

/-- The advance loop at the end of `baseParty.Update`. From round1 it can take at
most two steps (→ round2 → ended). -/
def advance {G : Type} (c : Crypto G) (env : Env) (p : Party G) : Party G :=
  match p.phase with
  | .ended => p
  | .r1 =>
    if !p.rs.canProcessed then p
    else
      -- NextRound: canProcessed := true, number := 2; then round2.Start
      let rs := { p.rs with canProcessed := true, number := 2 }
      let r := start2 c env rs
      if r.2 then { p with phase := .r2, rs := r.1, errPending := true }
      else
        -- `r.done <- 1`, Start returned nil; the loop goes on: round2.CanProceed, NextRound = nil
        { p with phase := .ended, rs := r.1, donePending := true }
  | .r2 =>
    if !p.rs.canProcessed then p else { p with phase := .ended }

/-- `baseParty.Update(msg)` for a verify message while the party is in round1 or later.
A panic inside is recovered by the deferred handler: the state stays as it was. -/
def partyUpdate {G : Type} (c : Crypto G) (env : Env) (p : Party G) (m : VMsg G) : Party G × Outcome :=
  match p.phase with
  | .ended => (p, .alreadyHad)
  | .r2 => (advance c env p, .alreadyHad)
  | .r1 =>
    if !canAccept1 p.rs m then (advance c env p, .alreadyHad)
    else
      let r := update c env p.rs m
      if r.out = .panicked then (p, .panicked)
      else if r.err then ({ p with rs := r.st, errPending := true }, r.out)
      else (advance c env { p with rs := r.st }, r.out)

/-- The round state `round0.NextRound` hands to round1 (generators not yet created). -/
def RState.init {G : Type} (processed : List MsgId) (future : List (VMsg G)) : RState G where
  number := 1
  canProcessed := false
  started := false
  processed := processed
  future := future
  gSign := Gen.new 0
  rSign := Gen.new 0
  bhSignature := none
  bhRandom := none
  finished := false
  generated := none

/-- Entering round1 the way `baseParty.Update`'s loop does after round0 finished:
`NextRound` (number 1, canProcessed false, started false), `round1.Start`, and on. -/
def enter {G : Type} (c : Crypto G) (env : Env) (processed : List MsgId) (future : List (VMsg G)) : Party G :=
  let rs : RState G := RState.init processed future
  let r := start1 c env rs
  let p : Party G := { phase := .r1, rs := r.1, errPending := false, donePending := false }
  if r.2.2 then p                                   -- panic recovered in baseParty.Update
  else if r.2.1 then { p with errPending := true }  -- Start returned an error
  else advance c env p

/-! ### Processor.OnMessageVerify -/

/-! ### `Processor.futureMessages` / `finishedParty`: hashicorp/golang-lru

`simplelru.LRU`: a recency list, most recently used first. `Add` of a present key updates the value
and moves it to the front; `Add` of a new key pushes it to the front and evicts the oldest entry when
the size exceeds the capacity; `Get` moves the key to the front; `Peek`/`Contains` do not; `Remove`. -/

structure Lru (V : Type) where
  cap : Nat
  /-- most recently used first -/
  items : List (Data × V)

def Lru.empty {V : Type} (cap : Nat) : Lru V := ⟨cap, []⟩

def Lru.peek {V : Type} (c : Lru V) (k : Data) : Option V :=
  (c.items.find? (fun e => e.1 == k)).map (·.2)

def Lru.contains {V : Type} (c : Lru V) (k : Data) : Bool := c.items.any (fun e => e.1 == k)

def Lru.remove {V : Type} (c : Lru V) (k : Data) : Lru V :=
  { c with items := c.items.filter (fun e => !(e.1 == k)) }

/-- `Add`: the key ends up in front; a new key may push the oldest one out. -/
def Lru.add {V : Type} (c : Lru V) (k : Data) (v : V) : Lru V :=
  if c.contains k then { c with items := (k, v) :: (c.remove k).items }
  else { c with items := ((k, v) :: c.items).take c.cap }

/-- `Get`: value and the cache with the key moved to the front. -/
def Lru.get {V : Type} (c : Lru V) (k : Data) : Option V × Lru V :=
  match c.peek k with
  | some v => (some v, { c with items := (k, v) :: (c.remove k).items })
  | none => (none, c)

/-- `ProcessorfutureMessages` capacity (`Processor.Init`: `common.CreateLRUCache(50)`). -/
def futureCap : Nat := 50

structure Proc (G : Type) where
  party : Party G
  /-- the party is in `partyManager` under the block hash -/
  inManager : Bool
  /-- the block hash is in `finishedParty` -/
  done : Bool
  /-- `Processor.futureMessages`: messages filed under keys with no party -/
  stray : Lru (List (VMsg G))
  /-- how the party ended: "err" / "done" -/
  ending : Option Bool

/-- The parking branch of `loadOrNewSignParty`: `Get(key)` (recency!), append, `Add(key, msgs)`. -/
def park {G : Type} (l : Lru (List (VMsg G))) (k : Data) (m : VMsg G) : Lru (List (VMsg G)) :=
  let r := l.get k
  r.2.add k ((r.1.getD []) ++ [m])

def strayCount {G : Type} (l : Lru (List (VMsg G))) (k : Data) : Nat :=
  match l.peek k with
  | some ms => ms.length
  | none => 0

/-- What `waitUntilDone` does when `Err` or `Done` fires. `ending = some true` for done. -/
def settle {G : Type} (pr : Proc G) : Proc G :=
  if pr.party.errPending then
    { pr with party := { pr.party with errPending := false }, inManager := false, done := true, ending := some false }
  else if pr.party.donePending then
    { pr with party := { pr.party with donePending := false }, inManager := false, done := true, ending := some true }
  else pr

/-- `OnMessageVerify` + `loadOrNewSignParty(…, isNew=false)` followed by the reaper. -/
def Proc.onVerify {G : Type} (c : Crypto G) (env : Env) (pr : Proc G) (m : VMsg G) : Proc G × Outcome :=
  if m.blockHash == env.hash then
    if pr.inManager then
      let r := partyUpdate c env pr.party m
      (settle { pr with party := r.1 }, r.2)
    else if pr.done then (pr, .alreadyHad)
    else ({ pr with stray := park pr.stray m.blockHash m }, .alreadyHad)
  else ({ pr with stray := park pr.stray m.blockHash m }, .alreadyHad)

/-- A network packet: decode (drop on error / recovered panic), then `OnMessageVerify`. -/
def Proc.deliver {G : Type} (c : Crypto G) (env : Env) (pr : Proc G) (w : Wire G) : Proc G × Outcome :=
  match decode w with
  | none => (pr, .panicked)
  | some m => pr.onVerify c env m

/-- The processor right after the party entered round1 with the given stored messages. -/
def Proc.init {G : Type} (c : Crypto G) (env : Env) (future : List (VMsg G)) : Proc G :=
  settle { party := enter c env [] future, inManager := true, done := false, stray := Lru.empty futureCap, ending := none }

/-- The same with the message ids round0 had already processed (the cast message's id). -/
def Proc.initWith {G : Type} (c : Crypto G) (env : Env) (processed : List MsgId) (future : List (VMsg G)) : Proc G :=
  settle { party := enter c env processed future, inManager := true, done := false, stray := Lru.empty futureCap, ending := none }

def Proc.run {G : Type} (c : Crypto G) (env : Env) (pr : Proc G) : List (Wire G) → Proc G
  | [] => pr
  | w :: ws => Proc.run c env (pr.deliver c env w).1 ws

/-- The environment with the chain stub's answer replaced (the block may reach the
chain through another path while the round is collecting). -/
def Env.withChain (env : Env) (b : Bool) : Env := { env with blockExists := b }

/-- A history: each packet arrives while `HasBlockByHash(bh.Hash)` answers `b`. -/
def Proc.runX {G : Type} (c : Crypto G) (env : Env) (pr : Proc G) : List (Bool × Wire G) → Proc G
  | [] => pr
  | (b, w) :: ws => Proc.runX c env (pr.deliver c (env.withChain b) w).1 ws

/-! ### The symbolic group used by the driver (and as the witness that the
crypto hypotheses of the theorems are satisfiable) -/

/-- Symbolic signatures: which key signed which data. -/
inductive Sym
  | nil
  /-- bytes that decode to a point nobody's key produced; `onCurve` = passes `IsValid` -/
  | junk (onCurve : Bool)
  /-- `sk_signer · H(d)` -/
  | share (signer : Id) (d : Data)
  /-- the group signature `sk · H(d)` -/
  | group (d : Data)
  /-- a Lagrange combination that is not a group signature (some part is foreign) -/
  | combo (parts : List (Id × Id × Data))
  deriving DecidableEq, Repr

/-- Entries as stored in a generator: (map key, the share's signer, the share's data). -/
def symParts : List (Id × Sym) → Option (List (Id × Id × Data))
  | [] => some []
  | (i, .share s d) :: rest => (symParts rest).map (fun ps => (i, s, d) :: ps)
  | _ => none

/-- `k` distinct members, each contributing its own share on `d`. -/
def comboIsGroup (k : Nat) (members : List Id) (d : Data) (ps : List (Id × Id × Data)) : Bool :=
  ps.length == k && ps.all (fun p => p.1 == p.2.1 && p.2.2 == d && members.contains p.1) &&
    decide ((ps.map (·.1)).Nodup)

/-- Ideal threshold BLS over a DKG with `members` and threshold `k`: a share verifies exactly under
its signer's key for its data; recovery yields the group signature on `d` exactly when it combines
`k` distinct members' own shares on `d`. -/
def symCrypto (k : Nat) (members : List Id) : Crypto Sym where
  isNil s := s == .nil
  isValid s := match s with
    | .nil => false
    | .junk b => b
    | _ => true
  verify id d s := s == .share id d
  verifyGroup d s := s == .group d
  recover l := match symParts l with
    | some ((i, s, d) :: rest) =>
      if comboIsGroup k members d ((i, s, d) :: rest) then .group d else .combo ((i, s, d) :: rest)
    | some [] => .combo []
    | none => .junk true
  pick l k := l.take k

end Rangers.Model.Round
