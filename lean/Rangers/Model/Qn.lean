import Rangers.Basic.Hex
import Rangers.Model.Vrf
/-!
Model of the VRF qualification rule (`consensus/logical/vrf_with_stake.go`):
`calcPotentialProposal`, `calcStakeRatio`, `calcVrfValueRatio`, `calQn`,
`validateProve`, and the header check `verifyBlockVRF`.

`big.Rat` values are exact fractions (`Frac`, not normalised; only compared and
divided). The two floating-point steps are modelled from their documented
behaviour: `float64(uint64)` and `big.Rat.Float64()` round to the nearest
53-bit significand, ties to even. `uint64(f)` of a float outside [0, 2^64) is
implementation-specific in Go and is an explicit `undefined` outcome here.
Division by a zero `big.Rat` panics in Go and is an explicit `panic` outcome.
-/
namespace Rangers.Model.Qn
open Rangers

structure Params where
  maxQN : Nat
  potentialProposal : Nat
  potentialProposalMax : Nat
  potentialProposalIndex : Nat
deriving Repr, DecidableEq

def two64 : Nat := 2 ^ 64
def max256 : Nat := 2 ^ 256 - 1

/-- number of bits of `n` (0 for 0) -/
def bitLen (n : Nat) : Nat := if n = 0 then 0 else Nat.log2 n + 1

/-- Round-half-even division: nearest integer to a/b (b > 0). -/
def divRoundEven (a b : Nat) : Nat :=
  let q := a / b
  let r := a % b
  if 2 * r > b ∨ (2 * r = b ∧ q % 2 = 1) then q + 1 else q

/-- `float64(n)` for a `uint64` n, as the exact integer it denotes. -/
def roundNat53 (n : Nat) : Nat :=
  let bits := bitLen n
  if bits ≤ 53 then n else divRoundEven n (2 ^ (bits - 53)) * 2 ^ (bits - 53)

/-- `calcPotentialProposal` (the product wraps at 64 bits as in Go). -/
def calcPotentialProposal (P : Params) (totalStake : Nat) : Nat :=
  let pp := (totalStake * P.potentialProposalIndex % two64) / 100
  if pp < P.potentialProposal then P.potentialProposal
  else if pp > P.potentialProposalMax then P.potentialProposalMax
  else pp

/-- exact fraction; `den > 0` is an invariant of every value built below -/
structure Frac where
  num : Int
  den : Nat
deriving Repr, DecidableEq

def Frac.lt (a b : Frac) : Bool := a.num * b.den < b.num * a.den

/-- reinterpret a 64-bit pattern as `int64` -/
def toInt64 (n : Nat) : Int :=
  let m := n % two64
  if m < 2 ^ 63 then (m : Int) else (m : Int) - (two64 : Int)

/-- `calcStakeRatio`; `none` = `Quo` by a zero rat panics (totalStake = 0). -/
def calcStakeRatio (P : Params) (difficulty totalStake : Nat) : Option Frac :=
  let n := toInt64 (difficulty * calcPotentialProposal P totalStake)
  let dn := roundNat53 totalStake
  if dn = 0 then none else some ⟨n, dn⟩

/-- `calcVrfValueRatio` of an (already padded, ≥ 32 byte) proof. -/
def calcVrfValueRatio (prove : Bytes) : Frac := ⟨(beToNat (prove.take 32) : Nat), max256⟩

inductive QnOut where
  | panic                 -- big.Rat division by zero
  | undefined             -- uint64() of a float outside [0, 2^64): implementation-specific
  | val (qn : Nat)
deriving Repr, DecidableEq

/-- binary exponent of a/b (a, b > 0): the `e` with 2^e ≤ a/b < 2^(e+1) -/
def binExp (a b : Nat) : Int :=
  let e0 : Int := (bitLen a : Int) - (bitLen b : Int)
  let ge : Bool := if e0 ≥ 0 then a ≥ b * 2 ^ e0.toNat else a * 2 ^ (-e0).toNat ≥ b
  if ge then e0 else e0 - 1

/-- ⌊float64(a/b)⌋ for a, b > 0, where float64 rounds a/b to 53 significant
    bits, ties to even. `none` when the binary exponent leaves the normal range. -/
def floorFloat (a b : Nat) : Option Nat :=
  if a = 0 then some 0 else
  let e := binExp a b
  if e < -1022 ∨ e > 1023 then none else
  -- significand q = round(a/b · 2^(52-e)) ∈ [2^52, 2^53]; value = q · 2^(e-52)
  let sh : Int := 52 - e
  if sh ≥ 0 then some (divRoundEven (a * 2 ^ sh.toNat) b / 2 ^ sh.toNat)
  else some (divRoundEven a (b * 2 ^ (-sh).toNat) * 2 ^ (-sh).toNat)

/-- `if stakeRatio.Cmp(rat1) > 0 { stakeRatio.Set(rat1) }` -/
def capRatio (s : Frac) : Frac := if (s.den : Int) < s.num then ⟨1, 1⟩ else s

/-- `calQn` after the cap; v ≥ 0. -/
def calQnCore (P : Params) (v s : Frac) : QnOut :=
  if P.maxQN = 0 then .panic
  else if s.num = 0 then .panic
  else
    -- r = v / (s / maxQN) = (v.num · s.den · maxQN) / (v.den · s.num)
    let rn : Nat := v.num.toNat * s.den * P.maxQN
    let rdAbs : Nat := v.den * s.num.natAbs
    if rn = 0 then .val 1
    else if s.num > 0 then
      match floorFloat rn rdAbs with
      | none => .undefined
      | some fl =>
        -- `math.Floor(r) + 1` is a float addition (rounds at 53 bits), then `uint64(..)`
        let q := roundNat53 (fl + 1)
        if q < two64 then .val q else .undefined
    else
      -- r < 0: ⌊-g⌋ + 1 is 0 when g < 1 (g = 1.0 exactly is left undefined), negative otherwise
      match floorFloat rn rdAbs with
      | none => .undefined
      | some fl => if fl = 0 then .val 0 else .undefined

/-- `calQn(vrfValueRatio, stakeRatio)`. -/
def calQn (P : Params) (v s : Frac) : QnOut := calQnCore P v (capRatio s)

inductive VOut where
  | noStake                       -- totalStake = 0: (false, 0)
  | panic
  | res (ok : Bool) (qn : QnOut)
deriving Repr, DecidableEq

/-- `validateProve(prove, height, workingMiners, totalStake)`; `threshold` is
    `Proposal025Block + GetRewardBlocks()` of the running configuration. -/
def validateProve (P : Params) (threshold : Nat) (prove : Bytes) (height workingMiners totalStake : Nat) : VOut :=
  if totalStake = 0 then .noStake
  else
    let prove := Vrf.tryZeroPadding prove
    let v := calcVrfValueRatio prove
    let difficulty := if workingMiners ≠ 0 ∧ height > threshold then totalStake / workingMiners else 1
    match calcStakeRatio P difficulty totalStake with
    | none => .panic
    | some s =>
      let ok := v.lt s
      match calQn P v s with
      | .panic => .panic
      | q => .res ok q

/-- `verifyBlockVRF` from the header fields it reads. -/
inductive HOut where
  | verifyErr (e : Vrf.Err)
  | verifyFalse
  | notSatisfy
  | qnError
  | panic
  | undefined
  | ok
deriving Repr, DecidableEq

def verifyBlockVRF (P : Params) (threshold : Nat) (pk : Bytes) (proveValue : Nat) (msg : Bytes)
    (height workingMiners totalStake totalQN preTotalQN : Nat) : HOut :=
  let prove := Vrf.ofBig proveValue
  match Vrf.verify pk prove msg with
  | .error e => .verifyErr e
  | .ok false => .verifyFalse
  | .ok true =>
    match validateProve P threshold prove height workingMiners totalStake with
    | .panic => .panic
    | .noStake => .notSatisfy
    | .res false _ => .notSatisfy
    | .res true .panic => .panic
    | .res true .undefined => .undefined
    | .res true (.val qn) => if totalQN ≠ (qn + preTotalQN) % two64 then .qnError else .ok

end Rangers.Model.Qn
