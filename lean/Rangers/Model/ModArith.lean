/-!
Modular arithmetic on `Nat` as `math/big` does it (core Lean only).

* `emod`       : `big.Int.Mod` with a positive modulus (Euclidean, result in `[0,n)`).
* `modInverse` : `big.Int.ModInverse(g, n)`: `none` when `gcd(g,n) ≠ 1` (Go returns nil and
                 leaves the receiver unchanged), otherwise the inverse in `[0,n)`.
-/
namespace Rangers.Model.ModArith

/-- `big.Int.Mod(a, n)` for `n > 0`: Euclidean remainder. -/
def emod (a : Int) (n : Nat) : Nat := (a % (n : Int)).toNat

/-- Extended Euclid. Invariant: `r0 ≡ s0 * a` and `r1 ≡ s1 * a (mod n)` for the
    starting pair `(n, a)`. Fuel is consumed one unit per division step; `r1 + 1` suffices. -/
def xgcdAux : Nat → Nat → Nat → Int → Int → Nat × Int
  | 0, r0, _, s0, _ => (r0, s0)
  | fuel + 1, r0, r1, s0, s1 =>
    if r1 = 0 then (r0, s0)
    else xgcdAux fuel r1 (r0 % r1) s1 (s0 - ((r0 / r1 : Nat) : Int) * s1)

/-- `(g, s)` with `g = gcd(a, n)` and `s * a ≡ g (mod n)`. -/
def xgcd (a n : Nat) : Nat × Int := xgcdAux (a + 1) n a 0 1

/-- `big.Int.ModInverse(a, n)` for `a ≥ 0`, `n > 0`. -/
def modInverse (a n : Nat) : Option Nat :=
  let gs := xgcd a n
  if gs.1 = 1 then some (emod gs.2 n) else none

end Rangers.Model.ModArith
