import Rangers.Basic.Hex
/-!
# C11 model, part 1: words, 64-bit wrap-around arithmetic, byte helpers

Core Lean only.  EVM words are `Nat` reduced mod 2^256 at every producing
operation; gas and sizes are `Nat` with Go's `uint64` wrap-around made explicit
(`wadd`, `wsub`, `wmul`) so that an overflow is *visible* in the model and the
theorems can talk about it with `omega`.
-/
namespace Rangers.Evm11

abbrev Word := Nat

def W256 : Nat := 2 ^ 256
def U64 : Nat := 2 ^ 64
def maxU64 : Nat := 2 ^ 64 - 1

/-- Go `a + b` on uint64. -/
def wadd (a b : Nat) : Nat := (a + b) % 2 ^ 64
/-- Go `a - b` on uint64 (wraps below zero). -/
def wsub (a b : Nat) : Nat := (a % 2 ^ 64 + 2 ^ 64 - b % 2 ^ 64) % 2 ^ 64
/-- Go `a * b` on uint64. -/
def wmul (a b : Nat) : Nat := (a * b) % 2 ^ 64

/-- `utility.SafeAdd`: sum and overflow flag. -/
def safeAdd (a b : Nat) : Nat × Bool := (wadd a b, decide (a + b ≥ 2 ^ 64))
/-- `utility.SafeMul`: product and overflow flag. -/
def safeMul (a b : Nat) : Nat × Bool := (wmul a b, decide (a * b ≥ 2 ^ 64))

/-- `uint256.Int.IsUint64`. -/
def isU64 (w : Word) : Bool := decide (w < 2 ^ 64)
/-- `uint256.Int.Uint64()` : low 64 bits. -/
def lo64 (w : Word) : Nat := w % 2 ^ 64

/-- `toWordSize` of common.go. -/
def toWordSize (size : Nat) : Nat :=
  if size > maxU64 - 31 then maxU64 / 32 + 1 else (size + 31) / 32

/-! ## bytes -/

abbrev BA := Array UInt8

def baOfList (l : List UInt8) : BA := l.toArray

/-- `getData(data, start, size)` of common.go: zero-padded slice, overflow safe
    (`start`, `size` are uint64 values; `end = start + size` wraps like Go). -/
def getData (data : BA) (start size : Nat) : BA :=
  let length := data.size
  let start := if start > length then length else start
  let e := wadd start size
  let e := if e > length then length else e
  let sl := data.extract start e
  sl ++ Array.replicate (size - sl.size) (0 : UInt8)

/-- big-endian bytes to Nat -/
def beNat (b : BA) : Nat := b.foldl (fun acc x => acc * 256 + x.toNat) 0

/-- `n` as exactly `len` big-endian bytes (truncating high bytes). -/
def natBE (len : Nat) (n : Nat) : BA :=
  (Array.range len).map (fun i => UInt8.ofNat ((n >>> (8 * (len - 1 - i))) % 256))

def word32 (w : Word) : BA := natBE 32 w

/-- low 20 bytes of a word, as an address number -/
def addrOf (w : Word) : Nat := w % 2 ^ 160

def hexNib (n : Nat) : Char := if n < 10 then Char.ofNat (48 + n) else Char.ofNat (87 + n)

def hexBA (b : BA) : String :=
  String.ofList (b.foldr (fun x acc => hexNib (x.toNat / 16) :: hexNib (x.toNat % 16) :: acc) [])

def hexAddr (a : Nat) : String := hexBA (natBE 20 a)
def hexWord (w : Nat) : String := hexBA (natBE 32 w)

/-- minimal big-endian hex of a Nat ("" for 0), like `big.Int.Bytes()` in hex -/
def hexNatMin (n : Nat) : String :=
  let rec len (fuel n acc : Nat) : Nat :=
    match fuel with
    | 0 => acc
    | f + 1 => if n = 0 then acc else len f (n / 256) (acc + 1)
  hexBA (natBE (len 40 n 0) n)

def unhex? (s : String) : Option BA :=
  match hexPairs? s.toList with
  | some l => some l.toArray
  | none => none

end Rangers.Evm11
