import Rangers.Model.Bls14G1
/-!
C14 model, part 3: `groupsig.Signature` / `Pubkey` / `Seckey` / `ID` wrappers and
`VerifySig`, transcribed guard by guard. The pairing comparison
`PairIsEuqal(Pair(σ, g₂), Pair(H(m), pk))` is a parameter (`PairEq`): the
optimal-ate implementation is in the trusted base, the decision logic around it is not.
-/
namespace Rangers.Model.Bls14
open Rangers

/-! ### Signature -/

/-- `Signature{value G1}`. -/
abbrev Sig := G1Val

/-- `Signature.IsNil` = `value.p == nil`. -/
def Sig.isNil : Sig → Bool
  | .nil => true
  | .pt _ => false

/-- `Signature.Serialize`: empty for nil, else `value.Marshal()`. -/
def Sig.serialize : Sig → Bytes
  | .nil => []
  | .pt q => g1Marshal q

/-- `Signature.Deserialize(b)` on receiver `s`: `(new receiver, error?)`.
    Only the empty input is an error; the error of `G1.Unmarshal` is discarded. -/
def Sig.deserialize (s : Sig) (b : Bytes) : Sig × Bool :=
  if b.length == 0 then (s, true) else ((g1Unmarshal s b).1, false)

/-- `DeserializeSign(b)`: fresh receiver, error ignored. -/
def deserializeSign (b : Bytes) : Sig := (Sig.deserialize .nil b).1

/-- `G1.IsValid` = `p.IsOnCurve()`; on a nil pointer the Go code would dereference nil —
    modelled as a separate outcome so that no theorem holds "because of" a default. -/
inductive Tri where
  | yes | no | nilDeref
deriving DecidableEq, Repr

def g1IsValid : G1Val → Tri
  | .nil => .nilDeref
  | .pt q => if q.onCurve then .yes else .no

/-- `Signature.IsValid`: `len(Serialize()) == 0 → false`, else `value.IsValid()`. -/
def Sig.isValid (s : Sig) : Tri :=
  if (Sig.serialize s).length == 0 then .no else g1IsValid s

/-! ### Pubkey -/

abbrev Pub := G2Val

/-- `Pubkey.IsEmpty` = `value.p == nil`; `IsValid = !IsEmpty`. -/
def Pub.isValid : Pub → Bool
  | .nil => false
  | .pt _ => true

/-- `Pubkey.Deserialize(b)` on receiver: `(new receiver, status)`. -/
def Pub.deserialize (s : Pub) (b : Bytes) : Pub × UnmStatus := g2Unmarshal s b

/-- `ByteToPublicKey(b)`: fresh receiver; on any error the zero `Pubkey{}`. -/
def byteToPublicKey (b : Bytes) : Pub :=
  match g2Unmarshal .nil b with
  | (v, .ok _) => v
  | _ => .nil

/-- `Pubkey.Serialize` = `value.Marshal()`; a nil value is first replaced by the zero
    point (infinity) by `Marshal` itself. -/
def Pub.serialize : Pub → Bytes
  | .nil => g2Marshal .inf
  | .pt q => g2Marshal q

/-! ### VerifySig -/

/-- The two pairings and their byte comparison: `pairEq σ g₂ h pk` stands for
    `PairIsEuqal(Pair(σ, g₂), Pair(h, pk))`. -/
abbrev PairEq := Pt → Pt2 → Pt → Pt2 → Bool

inductive Verdict where
  | accept | reject
  | panic     -- nil dereference (unreachable, see `Props.C14.verify_never_panics`)
deriving DecidableEq, Repr

/-- `VerifySig(pub, msg, sig)` with `hm = hashToG1(msg)`:
    ```
    if sig.IsNil() || !sig.IsValid() { return false }
    if !pub.IsValid()               { return false }
    if sig.value.IsNil()            { return false }
    return PairIsEuqal(Pair(&sig.value, g2Base), Pair(Hm, &pub.value))
    ``` -/
def verifySig (pe : PairEq) (hm : Pt) (pub : Pub) (sig : Sig) : Verdict :=
  if Sig.isNil sig then .reject
  else match Sig.isValid sig with
    | .nilDeref => .panic
    | .no => .reject
    | .yes =>
      if !Pub.isValid pub then .reject
      else if Sig.isNil sig then .reject
      else match sig, pub with
        | .pt s, .pt k => if pe s g2Gen hm k then .accept else .reject
        | _, _ => .panic

/-- What the callers do: `VerifySig(ByteToPublicKey(pkb), msg, *DeserializeSign(sigb))`. -/
def verifyBytes (pe : PairEq) (hm : Pt) (pkb sigb : Bytes) : Verdict :=
  verifySig pe hm (byteToPublicKey pkb) (deserializeSign sigb)

/-- `Sign(sec, msg)` = `sec · H(msg)`. -/
def sign (sk : Nat) (hm : Pt) : Sig := .pt (Pt.mul hm sk)

/-! ### scalars and ids (`BnInt` = `big.Int`) -/

/-- `Seckey.Serialize` = `big.Int.Bytes()` (minimal big-endian, empty for 0). -/
def scalarSerialize (n : Nat) : Bytes := natToBE n
/-- `Seckey.Deserialize` / `ID.Deserialize` = `SetBytes` (any length, no reduction). -/
def scalarDeserialize (b : Bytes) : Nat := beToNat b

/-- `ID_LENGTH`. -/
abbrev IDL : Nat := Generated.Bls14.idLength

/-- `ID.Serialize`: left-pad to 32 bytes; `none` = the explicit `panic` for values ≥ 2^256. -/
def idSerialize (n : Nat) : Option Bytes :=
  let b := natToBE n
  if b.length == IDL then some b
  else if b.length > IDL then none
  else some (padLeft IDL b)

/-- `NewSeckeyFromBigInt`: reduce mod the group order. -/
def seckeyFromNat (n : Nat) : Nat := n % R

end Rangers.Model.Bls14
