import Rangers.Basic.Hex
import Rangers.Generated.C09Facts
/-!
C09 model, part 1: the proto2 wire format as gogo/protobuf v1.3.1's table-driven
`Unmarshal`/`Marshal` implement it for the messages of `x.pb.go`, and the explicit
field-by-field converters of `src/middleware/types/serialization.go`.

Core Lean only (the driver `drv_c09` executes exactly these definitions).

Conventions
* `Option Bytes` = a Go `[]byte` / `*string` field: `none` is nil, `some []` is non-nil empty.
* `Option Nat`   = a Go `*uint64` / `*int32` field; int32 values are kept as their 32-bit pattern.
* every error of `proto.Unmarshal` (truncation, bad wire type when skipping, missing
  required field, in the message or in any nested chunk) is the single outcome `err`:
  `UnMarshalX` discards the partial object on any error.
-/
namespace Rangers.Wire
open Rangers

/-! ## Varints (`decodeVarint` / `encodeVarint` of table_unmarshal.go) -/

/-- `decodeVarint`: at most ten bytes, the tenth may only carry bit 63. `fuel` = bytes still allowed. -/
def readVarint : Nat → Bytes → Option (Nat × Bytes)
  | 0, _ => none
  | _ + 1, [] => none
  | f + 1, b :: rest =>
    if b.toNat < 128 then
      (if f = 0 ∧ 2 ≤ b.toNat then none else some (b.toNat, rest))
    else if f = 0 then none
    else match readVarint f rest with
      | none => none
      | some (v, r) => some (b.toNat - 128 + 128 * v, r)

def getVarint (bs : Bytes) : Option (Nat × Bytes) := readVarint 10 bs

/-- `encodeVarint`; `fuel` bounds the loop (9 continuation bytes cover every uint64). -/
def putVarint : Nat → Nat → Bytes
  | 0, n => [UInt8.ofNat n]
  | f + 1, n => if n < 128 then [UInt8.ofNat n] else UInt8.ofNat (n % 128 + 128) :: putVarint f (n / 128)

def encVarint (n : Nat) : Bytes := putVarint 9 n

/-! ## Raw fields: what one pass of `unmarshalInfo.unmarshal` sees at one nesting level -/

inductive Raw where
  | vint (num v : Nat)
  | len (num : Nat) (b : Bytes)
  | other (num wire : Nat)       -- fixed32 / fixed64 / group: never matches a field of our schema
  deriving Repr, DecidableEq, Inhabited

/-- `findEndGroup`: returns the bytes after the matching end-group tag. -/
def findEnd : Nat → Nat → Bytes → Option Bytes
  | 0, _, _ => none
  | f + 1, depth, bs =>
    match getVarint bs with
    | none => none
    | some (x, r) =>
      match x % 8 with
      | 0 => match getVarint r with
        | none => none
        | some (_, r2) => findEnd f depth r2
      | 1 => if r.length < 8 then none else findEnd f depth (r.drop 8)
      | 2 => match getVarint r with
        | none => none
        | some (m, r2) => if r2.length < m then none else findEnd f depth (r2.drop m)
      | 3 => findEnd f (depth + 1) r
      | 4 => if depth ≤ 1 then some r else findEnd f (depth - 1) r
      | 5 => if r.length < 4 then none else findEnd f depth (r.drop 4)
      | _ => none

/-- One iteration of the unmarshal loop: tag, then the payload selected by the wire type. -/
def rawStep (bs : Bytes) : Option (Raw × Bytes) :=
  match getVarint bs with
  | none => none
  | some (x, r) =>
    let num := x / 8
    if num = 0 then none      -- "illegal tag 0"
    else match x % 8 with
    | 0 => match getVarint r with
      | none => none
      | some (v, r2) => some (.vint num v, r2)
    | 1 => if r.length < 8 then none else some (.other num 1, r.drop 8)
    | 2 => match getVarint r with
      | none => none
      | some (m, r2) => if r2.length < m then none else some (.len num (r2.take m), r2.drop m)
    | 3 => match findEnd (r.length + 1) 1 r with
      | none => none
      | some r2 => some (.other num 3, r2)
    | 5 => if r.length < 4 then none else some (.other num 5, r.drop 4)
    | _ => none

def rawFields : Nat → Bytes → Option (List Raw)
  | 0, _ => none
  | _ + 1, [] => some []
  | f + 1, b :: bs =>
    match rawStep (b :: bs) with
    | none => none
    | some (r, rest) =>
      match rawFields f rest with
      | none => none
      | some rs => some (r :: rs)

/-- All fields of one message level; `none` = hard error (`io.ErrUnexpectedEOF`, unknown wire type). -/
def parseRaw (bs : Bytes) : Option (List Raw) := rawFields (bs.length + 1) bs

def encRaw : Raw → Bytes
  | .vint num v => encVarint (num * 8) ++ encVarint v
  | .len num b => encVarint (num * 8 + 2) ++ encVarint b.length ++ b
  | .other _ _ => []

def encRaws : List Raw → Bytes
  | [] => []
  | r :: rs => encRaw r ++ encRaws rs

/-! ### getters: last one wins for scalars, all occurrences for repeated / nested fields.
A known field arriving with another wire type is an unknown field (`errInternalBadWireType`). -/

def lastVint (n : Nat) : List Raw → Option Nat
  | [] => none
  | .vint m v :: rs => match lastVint n rs with
    | some w => some w
    | none => if m = n then some v else none
  | _ :: rs => lastVint n rs

def lastLen (n : Nat) : List Raw → Option Bytes
  | [] => none
  | .len m b :: rs => match lastLen n rs with
    | some w => some w
    | none => if m = n then some b else none
  | _ :: rs => lastLen n rs

def allLen (n : Nat) : List Raw → List Bytes
  | [] => []
  | .len m b :: rs => if m = n then b :: allLen n rs else allLen n rs
  | _ :: rs => allLen n rs

def hasVint (n : Nat) (rs : List Raw) : Bool := (lastVint n rs).isSome
def hasLen (n : Nat) (rs : List Raw) : Bool := (lastLen n rs).isSome

def optVintR (n : Nat) : Option Nat → List Raw
  | none => []
  | some v => [.vint n v]

def optLenR (n : Nat) : Option Bytes → List Raw
  | none => []
  | some b => [.len n b]

def repLenR (n : Nat) : List Bytes → List Raw
  | [] => []
  | b :: bs => .len n b :: repLenR n bs

/-- int32 on the wire: sign-extended to 64 bits; read back by truncation `int32(x)`. -/
def sext32 (v : Nat) : Nat := if v < 2147483648 then v else v + 18446744069414584320
def trunc32 (v : Nat) : Nat := v % 4294967296

def mapM' {α β : Type} (f : α → Option β) : List α → Option (List β)
  | [] => some []
  | a :: as => match f a with
    | none => none
    | some b => match mapM' f as with
      | none => none
      | some bs => some (b :: bs)

def flat {α : Type} : List (List α) → List α
  | [] => []
  | l :: ls => l ++ flat ls

/-- Chunks of a non-repeated nested message field are merged: every chunk must parse and pass
    its own required-field check; the merged value is read from the concatenated raw fields. -/
def mergedChunks (req : List Raw → Bool) (chunks : List Bytes) : Option (List Raw) :=
  match mapM' (fun c => match parseRaw c with
      | none => none
      | some rs => if req rs then some rs else none) chunks with
  | none => none
  | some rss => some (flat rss)

/-! ## The protobuf structs of x.pb.go that serialization.go converts -/

structure PbTxHash where
  hash : Option Bytes
  subHash : Option Bytes
  deriving Repr, DecidableEq, Inhabited

structure PbTx where
  data : Option Bytes
  nonce : Option Nat
  source : Option Bytes
  target : Option Bytes
  type : Option Nat
  hash : Option Bytes
  extraData : Option Bytes
  extraDataType : Option Nat
  sign : Option Bytes
  time : Option Bytes
  requestId : Option Nat
  socketRequestId : Option Bytes
  subTransactions : Option Bytes
  subHash : Option Bytes
  chainId : Option Bytes
  deriving Repr, DecidableEq, Inhabited

structure PbHeader where
  hash : Option Bytes
  height : Option Nat
  preHash : Option Bytes
  preTime : Option Bytes
  proveValue : Option Bytes
  totalQN : Option Nat
  curTime : Option Bytes
  castor : Option Bytes
  groupId : Option Bytes
  signature : Option Bytes
  nonce : Option Nat
  transactions : List PbTxHash
  txTree : Option Bytes
  receiptTree : Option Bytes
  stateTree : Option Bytes
  extraData : Option Bytes
  random : Option Bytes
  proveRoot : Option Bytes
  evictedTxs : Option (List Bytes)      -- `*Hashes`; the inner repeated field
  requestIds : Option Bytes
  deriving Repr, DecidableEq, Inhabited

structure PbBlock where
  header : Option PbHeader
  transactions : List PbTx
  deriving Repr, DecidableEq, Inhabited

structure PbGroupHeader where
  hash : Option Bytes
  parent : Option Bytes
  preGroup : Option Bytes
  createBlockHash : Option Bytes
  beginTime : Option Bytes
  memberRoot : Option Bytes
  createHeight : Option Nat
  extends_ : Option Bytes
  deriving Repr, DecidableEq, Inhabited

structure PbGroup where
  header : Option PbGroupHeader
  id : Option Bytes
  pubKey : Option Bytes
  signature : Option Bytes
  members : List Bytes
  groupHeight : Option Nat
  deriving Repr, DecidableEq, Inhabited

structure PbMember where
  id : Option Bytes
  pubKey : Option Bytes
  deriving Repr, DecidableEq, Inhabited

/-! ### decoders -/

def txHashOfRaws (rs : List Raw) : PbTxHash := ⟨lastLen 1 rs, lastLen 2 rs⟩

def decTxHash (bs : Bytes) : Option PbTxHash :=
  match parseRaw bs with
  | none => none
  | some rs => some (txHashOfRaws rs)

def txOfRaws (rs : List Raw) : PbTx :=
  { data := lastLen 1 rs, nonce := lastVint 2 rs, source := lastLen 3 rs, target := lastLen 4 rs,
    type := (lastVint 5 rs).map trunc32, hash := lastLen 6 rs, extraData := lastLen 7 rs,
    extraDataType := (lastVint 8 rs).map trunc32, sign := lastLen 9 rs, time := lastLen 10 rs,
    requestId := lastVint 11 rs, socketRequestId := lastLen 12 rs, subTransactions := lastLen 13 rs,
    subHash := lastLen 14 rs, chainId := lastLen 15 rs }

def txReq (rs : List Raw) : Bool := hasVint 5 rs

def decTx (bs : Bytes) : Option PbTx :=
  match parseRaw bs with
  | none => none
  | some rs => if txReq rs then some (txOfRaws rs) else none

def decTxSlice (bs : Bytes) : Option (List PbTx) :=
  match parseRaw bs with
  | none => none
  | some rs => mapM' decTx (allLen 1 rs)

def hashesOfRaws (rs : List Raw) : List Bytes := allLen 1 rs

def headerOfRaws (rs : List Raw) : Option PbHeader :=
  match mapM' decTxHash (allLen 12 rs) with
  | none => none
  | some ths =>
    match (match allLen 19 rs with
           | [] => some none
           | c :: cs => match mergedChunks (fun _ => true) (c :: cs) with
             | none => none
             | some ers => some (some (hashesOfRaws ers))) with
    | none => none
    | some ev =>
      some { hash := lastLen 1 rs, height := lastVint 2 rs, preHash := lastLen 3 rs, preTime := lastLen 4 rs,
             proveValue := lastLen 5 rs, totalQN := lastVint 6 rs, curTime := lastLen 7 rs,
             castor := lastLen 8 rs, groupId := lastLen 9 rs, signature := lastLen 10 rs,
             nonce := lastVint 11 rs, transactions := ths, txTree := lastLen 13 rs,
             receiptTree := lastLen 14 rs, stateTree := lastLen 15 rs, extraData := lastLen 16 rs,
             random := lastLen 17 rs, proveRoot := lastLen 18 rs, evictedTxs := ev,
             requestIds := lastLen 20 rs }

def decHeader (bs : Bytes) : Option PbHeader :=
  match parseRaw bs with
  | none => none
  | some rs => headerOfRaws rs

def blockReq (rs : List Raw) : Bool := hasLen 1 rs

def decBlock (bs : Bytes) : Option PbBlock :=
  match parseRaw bs with
  | none => none
  | some rs =>
    if blockReq rs then
      match mergedChunks (fun _ => true) (allLen 1 rs) with
      | none => none
      | some hrs =>
        match headerOfRaws hrs with
        | none => none
        | some h =>
          match mapM' decTx (allLen 2 rs) with
          | none => none
          | some txs => some ⟨some h, txs⟩
    else none

def groupHeaderReq (rs : List Raw) : Bool := hasLen 6 rs && hasVint 7 rs

def groupHeaderOfRaws (rs : List Raw) : PbGroupHeader :=
  { hash := lastLen 1 rs, parent := lastLen 2 rs, preGroup := lastLen 3 rs, createBlockHash := lastLen 4 rs,
    beginTime := lastLen 5 rs, memberRoot := lastLen 6 rs, createHeight := lastVint 7 rs,
    extends_ := lastLen 8 rs }

def groupReq (rs : List Raw) : Bool := hasLen 1 rs

def decGroup (bs : Bytes) : Option PbGroup :=
  match parseRaw bs with
  | none => none
  | some rs =>
    if groupReq rs then
      match mergedChunks groupHeaderReq (allLen 1 rs) with
      | none => none
      | some hrs =>
        some { header := some (groupHeaderOfRaws hrs), id := lastLen 2 rs, pubKey := lastLen 3 rs,
               signature := lastLen 4 rs, members := allLen 5 rs, groupHeight := lastVint 6 rs }
    else none

def memberReq (rs : List Raw) : Bool := hasLen 1 rs && hasLen 2 rs

def decMember (bs : Bytes) : Option PbMember :=
  match parseRaw bs with
  | none => none
  | some rs => if memberReq rs then some ⟨lastLen 1 rs, lastLen 2 rs⟩ else none

/-- `GroupSlice { repeated Group Groups = 1 }`, the argument of `PbToGroups`. -/
def decGroupSlice (bs : Bytes) : Option (List PbGroup) :=
  match parseRaw bs with
  | none => none
  | some rs => mapM' decGroup (allLen 1 rs)

/-! ### encoders (`proto.Marshal`: fields in tag order, nil pointers / nil slices omitted) -/

def rawsOfTxHash (p : PbTxHash) : List Raw := optLenR 1 p.hash ++ optLenR 2 p.subHash

def rawsOfTx (p : PbTx) : List Raw :=
  optLenR 1 p.data ++ optVintR 2 p.nonce ++ optLenR 3 p.source ++ optLenR 4 p.target ++
  optVintR 5 (p.type.map sext32) ++ optLenR 6 p.hash ++ optLenR 7 p.extraData ++
  optVintR 8 (p.extraDataType.map sext32) ++ optLenR 9 p.sign ++ optLenR 10 p.time ++
  optVintR 11 p.requestId ++ optLenR 12 p.socketRequestId ++ optLenR 13 p.subTransactions ++
  optLenR 14 p.subHash ++ optLenR 15 p.chainId

def encTx (p : PbTx) : Bytes := encRaws (rawsOfTx p)

def encTxSlice (ps : List PbTx) : Bytes := encRaws (repLenR 1 (ps.map encTx))

def rawsOfHeader (p : PbHeader) : List Raw :=
  optLenR 1 p.hash ++ optVintR 2 p.height ++ optLenR 3 p.preHash ++ optLenR 4 p.preTime ++
  optLenR 5 p.proveValue ++ optVintR 6 p.totalQN ++ optLenR 7 p.curTime ++ optLenR 8 p.castor ++
  optLenR 9 p.groupId ++ optLenR 10 p.signature ++ optVintR 11 p.nonce ++
  repLenR 12 (p.transactions.map (fun t => encRaws (rawsOfTxHash t))) ++
  optLenR 13 p.txTree ++ optLenR 14 p.receiptTree ++ optLenR 15 p.stateTree ++ optLenR 16 p.extraData ++
  optLenR 17 p.random ++ optLenR 18 p.proveRoot ++
  optLenR 19 (p.evictedTxs.map (fun hs => encRaws (repLenR 1 hs))) ++ optLenR 20 p.requestIds

def encHeader (p : PbHeader) : Bytes := encRaws (rawsOfHeader p)

def rawsOfBlock (p : PbBlock) : List Raw :=
  optLenR 1 (p.header.map encHeader) ++ repLenR 2 (p.transactions.map encTx)

def encBlock (p : PbBlock) : Bytes := encRaws (rawsOfBlock p)

def rawsOfGroupHeader (p : PbGroupHeader) : List Raw :=
  optLenR 1 p.hash ++ optLenR 2 p.parent ++ optLenR 3 p.preGroup ++ optLenR 4 p.createBlockHash ++
  optLenR 5 p.beginTime ++ optLenR 6 p.memberRoot ++ optVintR 7 p.createHeight ++ optLenR 8 p.extends_

def rawsOfGroup (p : PbGroup) : List Raw :=
  optLenR 1 (p.header.map (fun h => encRaws (rawsOfGroupHeader h))) ++ optLenR 2 p.id ++
  optLenR 3 p.pubKey ++ optLenR 4 p.signature ++ repLenR 5 p.members ++ optVintR 6 p.groupHeight

def encGroup (p : PbGroup) : Bytes := encRaws (rawsOfGroup p)

def rawsOfMember (p : PbMember) : List Raw := optLenR 1 p.id ++ optLenR 2 p.pubKey

def encMember (p : PbMember) : Bytes := encRaws (rawsOfMember p)

def encGroupSlice (ps : List PbGroup) : Bytes := encRaws (repLenR 1 (ps.map encGroup))

end Rangers.Wire
