import Rangers.Model.RLP
/-!
# RLP — typed decoding/encoding as functions on byte slices (core Lean only)

`Ty` is the catalogue of Go shapes `makeDecoder`/`makeWriter` distinguish, `Val` the shape
of the Go value.  `decT` follows the typed decoders of decode.go with a list's bound
represented by its content slice (what `Stream.stack` + `willRead` enforce), `encT` the
writers of encode.go.  Accept/reject and the decoded value are exact; *which* error is
returned is not compared for typed ops (the `Stream` model in `RLPStream.lean` is the
error-exact one).

`readHead` is `Stream.readKind` + the bound check of `Stream.Kind` on a slice: unlike
raw.go's `readKind` it does not look at the first content byte (that check sits in
`Stream.Bytes`/`uint`/`decodeByteArray`; `Stream.Raw` has none).
-/
namespace Rangers.RLP
open Rangers

inductive Tag | none | nilOK | tail
  deriving DecidableEq, Repr

inductive Ty
  | uint (bits : Nat)
  | big
  | bool
  | str
  | bytes
  | barr (n : Nat)
  | raw
  | any
  | slice (e : Ty)
  | arr (n : Nat) (e : Ty)
  | ptr (e : Ty)
  | struct (fs : List (Tag × Ty))
  deriving Repr

inductive Val
  | num (n : Nat)
  | bool (b : Bool)
  | bytes (b : Bytes)
  | list (vs : List Val)
  | nil
  | some (v : Val)
  deriving Repr

/-- long-form size as `Stream.readKind` reads it (`readUint` + `< 56` check) -/
def readLong (tl : Bytes) (n : Nat) : Except Err Nat :=
  if n > tl.length then .error .eof
  else if n = 1 then
    match tl with
    | [] => .error .eof
    | b0 :: _ => if b0.toNat < 56 then .error .canonSize else .ok b0.toNat
  else
    match tl with
    | [] => .error .eof
    | b0 :: _ =>
      if b0.toNat = 0 then .error .canonSize
      else if beNat (tl.take n) < 56 then .error .canonSize else .ok (beNat (tl.take n))

/-- Header of the next value of a slice in `Stream` terms: `(kind, tagsize, contentsize)` with the
    raw.go convention `(byte, 0, 1)` for a single byte; fails when the value exceeds the slice. -/
def readHead (buf : Bytes) : Except Err (Kind × Nat × Nat) :=
  match buf with
  | [] => .error .eol
  | b :: tl =>
    let t := b.toNat
    let r : Except Err (Kind × Nat × Nat) :=
      if t < 0x80 then .ok (.byte, 0, 1)
      else if t < 0xb8 then .ok (.string, 1, t - 0x80)
      else if t < 0xc0 then
        match readLong tl (t - 0xb7) with
        | .error e => .error e
        | .ok cs => .ok (.string, t - 0xb7 + 1, cs)
      else if t < 0xf8 then .ok (.list, 1, t - 0xc0)
      else
        match readLong tl (t - 0xf7) with
        | .error e => .error e
        | .ok cs => .ok (.list, t - 0xf7 + 1, cs)
    match r with
    | .error e => .error e
    | .ok (k, ts, cs) =>
      if cs > buf.length - ts then .error .elemTooLarge else .ok (k, ts, cs)

/-- `Stream.Bytes()` on a slice: content and rest. -/
def bytesOf (buf : Bytes) : Except Err (Bytes × Bytes) :=
  match readHead buf with
  | .error e => .error e
  | .ok (k, ts, cs) =>
    let c := (buf.drop ts).take cs
    match k with
    | .list => .error .expectedString
    | .byte => .ok (c, buf.drop (ts + cs))
    | .string => if cs = 1 ∧ headLt128 c = true then .error .canonSize else .ok (c, buf.drop (ts + cs))

/-- `Stream.uint(bits)` on a slice. -/
def uintOf (bits : Nat) (buf : Bytes) : Except Err (Nat × Bytes) :=
  match readHead buf with
  | .error e => .error e
  | .ok (k, ts, cs) =>
    let c := (buf.drop ts).take cs
    let rest := buf.drop (ts + cs)
    match k with
    | .list => .error .expectedString
    | .byte => (match c with
        | [b] => if b.toNat = 0 then .error .canonInt else .ok (b.toNat, rest)
        | _ => .error .eof)
    | .string =>
      if cs > bits / 8 then .error .uintOverflow
      else if cs = 0 then .ok (0, rest)
      else if cs = 1 then
        (if headLt128 c = true then .error .canonSize else .ok (beNat c, rest))
      else match c with
        | [] => .error .eof
        | b0 :: _ => if b0.toNat = 0 then .error .canonInt else .ok (beNat c, rest)

/-- encoding of a nil pointer whose element type is `e` (`makePtrWriter`'s `nilfunc`) -/
def nilEnc : Ty → Bytes
  | .barr _ => [0x80]
  | .struct _ => [0xc0]
  | .arr _ _ => [0xc0]
  | .uint _ => [0x80]
  | .big => [0x80]
  | .bool => [0x80]
  | .str => [0x80]
  | .bytes => [0x80]
  | .raw => []
  | .any => [0xc0]
  | .slice _ => [0xc0]
  | .ptr e => nilEnc e

mutual
  /-- `typeinfo.decoder` for `ty` on a slice: value and rest -/
  def decT : Nat → Ty → Bytes → Except Err (Val × Bytes)
    | 0, _, _ => .error .fuel
    | f + 1, ty, buf =>
      match ty with
      | .raw =>
        match readHead buf with
        | .error e => .error e
        | .ok (k, ts, cs) =>
          let c := (buf.drop ts).take cs
          let rest := buf.drop (ts + cs)
          match k with
          | .byte => .ok (.bytes c, rest)
          | .string => .ok (.bytes (encHead 0x80 0xb7 cs ++ c), rest)
          | .list => .ok (.bytes (encHead 0xc0 0xf7 cs ++ c), rest)
      | .uint bits =>
        match uintOf bits buf with
        | .error e => .error e
        | .ok (n, rest) => .ok (.num n, rest)
      | .bool =>
        match uintOf 8 buf with
        | .error e => .error e
        | .ok (n, rest) => if n = 0 then .ok (.bool false, rest) else if n = 1 then .ok (.bool true, rest) else .error .badBool
      | .big =>
        match bytesOf buf with
        | .error e => .error e
        | .ok (c, rest) =>
          match bigOfContent c with
          | .error e => .error e
          | .ok n => .ok (.num n, rest)
      | .str =>
        match bytesOf buf with
        | .error e => .error e
        | .ok (c, rest) => .ok (.bytes c, rest)
      | .bytes =>
        match bytesOf buf with
        | .error e => .error e
        | .ok (c, rest) => .ok (.bytes c, rest)
      | .barr n =>
        match readHead buf with
        | .error e => .error e
        | .ok (k, ts, cs) =>
          let c := (buf.drop ts).take cs
          let rest := buf.drop (ts + cs)
          match k with
          | .list => .error .expectedString
          | .byte => if n = 0 then .error .strTooLong else if n > 1 then .error .strTooShort else .ok (.bytes c, rest)
          | .string =>
            if n < cs then .error .strTooLong else if n > cs then .error .strTooShort
            else if cs = 1 ∧ headLt128 c = true then .error .canonSize else .ok (.bytes c, rest)
      | .any =>
        match readHead buf with
        | .error e => .error e
        | .ok (k, _, _) =>
          match k with
          | .list => decT f (.slice .any) buf
          | _ => decT f .bytes buf
      | .slice e =>
        match readHead buf with
        | .error e => .error e
        | .ok (k, ts, cs) =>
          match k with
          | .list =>
            match decElems f e ((buf.drop ts).take cs) with
            | .error e => .error e
            | .ok vs => .ok (.list vs, buf.drop (ts + cs))
          | _ => .error .expectedList
      | .arr n e =>
        match readHead buf with
        | .error e => .error e
        | .ok (k, ts, cs) =>
          match k with
          | .list =>
            match decArr f e n ((buf.drop ts).take cs) with
            | .error e => .error e
            | .ok vs => .ok (.list vs, buf.drop (ts + cs))
          | _ => .error .expectedList
      | .ptr e =>
        match decT f e buf with
        | .error e => .error e
        | .ok (v, rest) => .ok (.some v, rest)
      | .struct fs =>
        match readHead buf with
        | .error e => .error e
        | .ok (k, ts, cs) =>
          match k with
          | .list =>
            match decFields f fs ((buf.drop ts).take cs) with
            | .error e => .error e
            | .ok vs => .ok (.list vs, buf.drop (ts + cs))
          | _ => .error .expectedList
  /-- `decodeSliceElems`: elements until the list content is used up -/
  def decElems : Nat → Ty → Bytes → Except Err (List Val)
    | 0, _, _ => .error .fuel
    | f + 1, e, c =>
      match c with
      | [] => .ok []
      | _ :: _ =>
        match decT f e c with
        | .error er => .error er
        | .ok (v, rest) =>
          match decElems f e rest with
          | .error er => .error er
          | .ok vs => .ok (v :: vs)
  /-- `decodeListArray`: exactly `n` elements, then the content must be used up -/
  def decArr : Nat → Ty → Nat → Bytes → Except Err (List Val)
    | 0, _, _, _ => .error .fuel
    | f + 1, e, n, c =>
      match n with
      | 0 => (match c with | [] => .ok [] | _ :: _ => .error .notAtEOL)
      | n + 1 =>
        match c with
        | [] => .error .tooFew
        | _ :: _ =>
          match decT f e c with
          | .error er => .error er
          | .ok (v, rest) =>
            match decArr f e n rest with
            | .error er => .error er
            | .ok vs => .ok (v :: vs)
  /-- the field loop of `makeStructDecoder`, then `ListEnd` -/
  def decFields : Nat → List (Tag × Ty) → Bytes → Except Err (List Val)
    | 0, _, _ => .error .fuel
    | f + 1, fs, c =>
      match fs with
      | [] => (match c with | [] => .ok [] | _ :: _ => .error .notAtEOL)
      | (tag, ty) :: fs' =>
        match tag with
        | .tail =>
          match ty, fs' with
          | .slice e, [] =>
            match decElems f e c with
            | .error er => .error er
            | .ok vs => .ok [.list vs]
          | _, _ => .error .badValue
        | .nilOK =>
          match ty with
          | .ptr e =>
            match c with
            | [] => .error .tooFew
            | _ :: _ =>
              match readHead c with
              | .error er => .error er
              | .ok (k, ts, cs) =>
                if cs = 0 ∧ k ≠ .byte then
                  match decFields f fs' (c.drop ts) with
                  | .error er => .error er
                  | .ok vs => .ok (.nil :: vs)
                else
                  match decT f e c with
                  | .error er => .error er
                  | .ok (v, rest) =>
                    match decFields f fs' rest with
                    | .error er => .error er
                    | .ok vs => .ok (.some v :: vs)
          | _ => .error .badValue
        | .none =>
          match c with
          | [] => .error .tooFew
          | _ :: _ =>
            match decT f ty c with
            | .error er => .error er
            | .ok (v, rest) =>
              match decFields f fs' rest with
              | .error er => .error er
              | .ok vs => .ok (v :: vs)
end

mutual
  /-- `typeinfo.writer` for `ty` -/
  def encT : Ty → Val → Except Err Bytes
    | .uint bits, .num n => if n < 2 ^ bits then .ok (encUint n) else .error .badValue
    | .big, .num n => .ok (encBig n)
    | .big, .nil => .ok [0x80]
    | .bool, .bool b => .ok [if b then 0x01 else 0x80]
    | .str, .bytes b => .ok (encString b)
    | .bytes, .bytes b => .ok (encString b)
    | .barr n, .bytes b => if b.length = n then .ok (encString b) else .error .badValue
    | .raw, .bytes b => .ok b
    | .any, .bytes b => .ok (encString b)
    | .any, .list vs =>
      match encElems .any vs with
      | .error e => .error e
      | .ok p => .ok (encListPayload p)
    | .any, .nil => .ok [0xc0]
    | .slice e, .list vs =>
      match encElems e vs with
      | .error er => .error er
      | .ok p => .ok (encListPayload p)
    | .arr n e, .list vs =>
      if vs.length = n then
        match encElems e vs with
        | .error er => .error er
        | .ok p => .ok (encListPayload p)
      else .error .badValue
    | .ptr e, .nil => .ok (nilEnc e)
    | .ptr e, .some v => encT e v
    | .struct fs, .list vs =>
      match encFields fs vs with
      | .error er => .error er
      | .ok p => .ok (encListPayload p)
    | _, _ => .error .badValue
  def encElems : Ty → List Val → Except Err Bytes
    | _, [] => .ok []
    | e, v :: vs =>
      match encT e v with
      | .error er => .error er
      | .ok a =>
        match encElems e vs with
        | .error er => .error er
        | .ok b => .ok (a ++ b)
  def encFields : List (Tag × Ty) → List Val → Except Err Bytes
    | [], [] => .ok []
    | (.tail, .slice e) :: [], [.list vs] => encElems e vs
    | (.tail, _) :: _, _ => .error .badValue
    | (_, ty) :: fs, v :: vs =>
      match encT ty v with
      | .error er => .error er
      | .ok a =>
        match encFields fs vs with
        | .error er => .error er
        | .ok b => .ok (a ++ b)
    | _, _ => .error .badValue
end

/-! ### recursive Go types, as depth-bounded unfoldings

`Ty` has no recursion construct. A self-referential Go type is represented by its unfolding to a
nesting depth `d`; a value nested no deeper than `d` levels (in particular anything that fits into
`d` input bytes: every level costs at least one byte) is coded by the Go type exactly as by the
unfolding. The driver is told `d` by the harness (`Tree<d>`), always larger than the input. -/

/-- `type Tree struct { V uint64; Kids []Tree }` -/
def treeTy : Nat → Ty
  | 0 => .struct [(.none, .uint 64), (.none, .slice (.struct []))]
  | d + 1 => .struct [(.none, .uint 64), (.none, .slice (treeTy d))]

/-- `type TreeT struct { V uint64; Kids []TreeT "tail" }` -/
def treeTTy : Nat → Ty
  | 0 => .struct [(.none, .uint 64), (.tail, .slice (.struct []))]
  | d + 1 => .struct [(.none, .uint 64), (.tail, .slice (treeTTy d))]

/-- `type TreeP struct { V uint64; Kids []*TreeP }` -/
def treePTy : Nat → Ty
  | 0 => .struct [(.none, .uint 64), (.none, .slice (.ptr (.struct [])))]
  | d + 1 => .struct [(.none, .uint 64), (.none, .slice (.ptr (treePTy d)))]

/-- `type Link struct { V uint64; Next *Link "nil" }` -/
def linkTy : Nat → Ty
  | 0 => .struct [(.none, .uint 64), (.nilOK, .ptr (.struct []))]
  | d + 1 => .struct [(.none, .uint 64), (.nilOK, .ptr (linkTy d))]

/-- `type MA struct { V uint64; B []MB }` with `type MB struct { S []byte; A []MA }` (mutual) -/
def maTy : Nat → Ty
  | 0 => .struct [(.none, .uint 64), (.none, .slice (.struct []))]
  | d + 1 => .struct [(.none, .uint 64), (.none, .slice (.struct [(.none, .bytes), (.none, .slice (maTy d))]))]

def mbTy (d : Nat) : Ty := .struct [(.none, .bytes), (.none, .slice (maTy d))]

mutual
  /-- weight of a type expression for the fuel: recursion depth per input byte.  `interface{}` is
      heavier because every nesting level of the *data* costs three calls. -/
  def tySize : Ty → Nat
    | .any => 5
    | .slice e => tySize e + 1
    | .arr _ e => tySize e + 1
    | .ptr e => tySize e + 1
    | .struct fs => fieldsSize fs + 1
    | _ => 1
  def fieldsSize : List (Tag × Ty) → Nat
    | [] => 0
    | (_, t) :: fs => tySize t + 2 + fieldsSize fs
end

/-- Fuel handed to `decT` by `decodeTy`; `Proofs/RLPTypedFuel.lean` proves it is never exhausted. -/
def typedFuel (ty : Ty) (b : Bytes) : Nat := tySize ty * (b.length + 2) + 1

/-- `DecodeBytes(b, &v)` for `v` of shape `ty`: accept/reject and value. -/
def decodeTy (ty : Ty) (b : Bytes) : Except Err Val :=
  match decT (typedFuel ty b) ty b with
  | .error e => .error e
  | .ok (v, rest) => if rest.isEmpty then .ok v else .error .moreThanOne

end Rangers.RLP
