import Rangers.Basic.Hex
import Rangers.Model.VrfCurve
/-!
Model of the VRF of go-rangers (property C16).

* byte framing: `tryZeroPadding` (both copies: `common/ed25519/vrf.go` and
  `consensus/logical/vrf_with_stake.go`), the slicing of `decodeProof`,
  header transport through `big.Int` (`SetBytes` / `Bytes`), `VRFProof2Hash`,
  `ConsensusHelperImpl.VRFProve2Value`;
* `proveWith` / `verifyWith`: `ECVRFProve` / `ECVRFVerify` written once over an
  interface `Ops` (group operations, point codecs, hash oracles). The property
  theorems are about `proveWith`/`verifyWith` for every `Ops` that satisfies the
  group laws; the driver executes them at `ed25519Ops`, the value-level model of
  the real curve and hashes in `Model/VrfCurve.lean`.
-/
namespace Rangers.Model.Vrf
open Rangers

/-- `ed25519.ProveSize`. -/
def proveSize : Nat := 80
def gammaSize : Nat := 32
def cSize : Nat := 16
def sSize : Nat := 32

/-- `tryZeroPadding`: left-pad to 80 bytes; longer inputs pass unchanged. -/
def tryZeroPadding (pi : Bytes) : Bytes :=
  if pi.length ≥ proveSize then pi else List.replicate (proveSize - pi.length) 0 ++ pi

/-- `VRFProve.Big()` / header field `ProveValue`. -/
def toBig (pi : Bytes) : Nat := beToNat pi

/-- Strip leading zero bytes (what `big.Int.SetBytes(..).Bytes()` does to a byte string). -/
def stripZeros : Bytes → Bytes
  | [] => []
  | b :: rest => if b = 0 then stripZeros rest else b :: rest

/-- `ProveValue.Bytes()`: minimal big-endian bytes, leading zeros dropped. -/
def ofBig (n : Nat) : Bytes := natToBE n

/-- What a verifier gets out of the header for a proof put in by the proposer. -/
def transport (pi : Bytes) : Bytes := stripZeros pi

/-- The three slices `decodeProof` cuts out of an (already padded) proof.
    Slicing a shorter input panics in Go; `tryZeroPadding` runs first in every
    caller, so `none` here is the explicit error branch, never a default. -/
def slices (pi : Bytes) : Option (Bytes × Bytes × Bytes) :=
  if pi.length < proveSize then none
  else some (pi.take 32, (pi.drop 32).take 16, (pi.drop 48).take 32)

/-- `vrf.VRFProof2Hash`: `pi[:32]`, panics on a shorter slice. -/
def proof2Hash (pi : Bytes) : Option Bytes :=
  if pi.length < 32 then none else some (pi.take 32)

/-- `ConsensusHelperImpl.VRFProve2Value` (after the `fix:` commit): the bytes of
    the header value are left-padded to `ProveSize` before `pi[:32]`. -/
def prove2Value (proveValue : Nat) : Option Nat :=
  (proof2Hash (tryZeroPadding (ofBig proveValue))).map beToNat

/-- The behaviour before the fix, kept for the record (`prove2Value_unpadded_differs`). -/
def prove2ValueUnpadded (proveValue : Nat) : Option Nat :=
  (proof2Hash (ofBig proveValue)).map beToNat

/-- The lottery output the qualification rule uses (`calcVrfValueRatio` after padding). -/
def outputOf (pi : Bytes) : Bytes := (tryZeroPadding pi).take 32

inductive Err where
  | malformedSK
  | decode
deriving Repr, DecidableEq

/-- Everything `ECVRFProve`/`ECVRFVerify` call, as an interface. -/
structure Ops (P : Type) where
  /-- scalar modulus of `ScReduce`/`ScMulAdd` -/
  L : Nat
  /-- `GeSub` -/
  sub : P → P → P
  /-- `GeScalarMult` -/
  smul : Nat → P → P
  /-- `GeScalarMultBase` -/
  smulBase : Nat → P
  /-- `stringToPoint` (used for gamma, and for the pk half of sk in prove) -/
  decodeStrict : Bytes → Option P
  /-- `FromBytes` with the returned flag ignored (pk in verify, h) -/
  decodeLax : Bytes → P
  /-- `ToBytes` -/
  encode : P → Bytes
  hashToCurve : Bytes → Bytes → Bytes
  hashPoints : P → P → P → P → Bytes
  expandSecret : Bytes → Nat × Bytes
  nonce : Bytes → Bytes → Nat

/-- little-endian scalar decoding of proof fields -/
def leNat (bs : Bytes) : Nat := VrfCurve.leToNat bs
def natLE (n v : Nat) : Bytes := VrfCurve.natToLE n v

/-- `ECVRFVerify`. -/
def verifyWith {P : Type} (o : Ops P) (pk pi m : Bytes) : Except Err Bool :=
  let pi := tryZeroPadding pi
  match slices pi with
  | none => .error .decode
  | some (gb, cb, sb) =>
    match o.decodeStrict gb with
    | none => .error .decode
    | some gamma =>
      let c := leNat cb
      let s := leNat sb % o.L
      let hP := o.decodeLax (o.hashToCurve m pk)
      let y := o.decodeLax (VrfCurve.fit 32 pk)
      let u := o.sub (o.smulBase s) (o.smul c y)
      let v := o.sub (o.smul s hP) (o.smul c gamma)
      .ok (o.hashPoints hP gamma u v == cb)

/-- `ECVRFProve`. -/
def proveWith {P : Type} (o : Ops P) (sk m : Bytes) : Except Err Bytes :=
  if sk.length ≠ 64 then .error .malformedSK
  else
    let pk := sk.drop 32
    match o.decodeStrict pk with
    | none => .error .malformedSK
    | some _ =>
      let x := (o.expandSecret sk).1
      let trunc := (o.expandSecret sk).2
      let h := o.hashToCurve m pk
      let hP := o.decodeLax h
      let gamma := o.smul x hP
      let k := o.nonce trunc h
      let cb := o.hashPoints hP gamma (o.smulBase k) (o.smul k hP)
      let s := (leNat cb * x + k) % o.L
      .ok (o.encode gamma ++ cb ++ natLE 32 s)

/-- The instance the driver runs: value-level edwards25519 + SHA-512. -/
def ed25519Ops : Ops VrfCurve.Point where
  L := VrfCurve.L
  sub := VrfCurve.sub
  smul := VrfCurve.smul
  smulBase := VrfCurve.smulBase
  decodeStrict := VrfCurve.stringToPoint
  decodeLax := fun b => (VrfCurve.fromBytes b).1
  encode := VrfCurve.encode
  hashToCurve := VrfCurve.hashToCurve
  hashPoints := VrfCurve.hashPoints
  expandSecret := VrfCurve.expandSecret
  nonce := VrfCurve.nonce

def verify (pk pi m : Bytes) : Except Err Bool := verifyWith ed25519Ops pk pi m
def prove (sk m : Bytes) : Except Err Bytes := proveWith ed25519Ops sk m

/-- `verifyBlockVRF`'s first step: the proof is taken from the header's big integer. -/
def verifyHeader (pk : Bytes) (proveValue : Nat) (m : Bytes) : Except Err Bool :=
  verify pk (ofBig proveValue) m

end Rangers.Model.Vrf
