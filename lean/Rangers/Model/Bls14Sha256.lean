import Rangers.Basic.Hex
/-!
Executable SHA-256 (FIPS 180-4) for the C14 driver (copy of Model/WireSha256.lean of C09, own
namespace so the two checks stay independent): `hashToG1` no longer takes the digest from Go.
No theorem is about the compression function's internals; the digest is compared with
crypto/sha256 on every `h2p` line.
-/
namespace Rangers.Model.Bls14.Sha
open Rangers

def K : Array UInt32 := #[
  0x428a2f98, 0x71374491, 0xb5c0fbcf, 0xe9b5dba5, 0x3956c25b, 0x59f111f1, 0x923f82a4, 0xab1c5ed5,
  0xd807aa98, 0x12835b01, 0x243185be, 0x550c7dc3, 0x72be5d74, 0x80deb1fe, 0x9bdc06a7, 0xc19bf174,
  0xe49b69c1, 0xefbe4786, 0x0fc19dc6, 0x240ca1cc, 0x2de92c6f, 0x4a7484aa, 0x5cb0a9dc, 0x76f988da,
  0x983e5152, 0xa831c66d, 0xb00327c8, 0xbf597fc7, 0xc6e00bf3, 0xd5a79147, 0x06ca6351, 0x14292967,
  0x27b70a85, 0x2e1b2138, 0x4d2c6dfc, 0x53380d13, 0x650a7354, 0x766a0abb, 0x81c2c92e, 0x92722c85,
  0xa2bfe8a1, 0xa81a664b, 0xc24b8b70, 0xc76c51a3, 0xd192e819, 0xd6990624, 0xf40e3585, 0x106aa070,
  0x19a4c116, 0x1e376c08, 0x2748774c, 0x34b0bcb5, 0x391c0cb3, 0x4ed8aa4a, 0x5b9cca4f, 0x682e6ff3,
  0x748f82ee, 0x78a5636f, 0x84c87814, 0x8cc70208, 0x90befffa, 0xa4506ceb, 0xbef9a3f7, 0xc67178f2]

def rotr (x : UInt32) (n : UInt32) : UInt32 := (x >>> n) ||| (x <<< (32 - n))

def be32 (a b c d : UInt8) : UInt32 :=
  (a.toUInt32 <<< 24) ||| (b.toUInt32 <<< 16) ||| (c.toUInt32 <<< 8) ||| d.toUInt32

def wordsOf : Bytes → List UInt32
  | a :: b :: c :: d :: rest => be32 a b c d :: wordsOf rest
  | _ => []

def schedule (blk : Array UInt32) : Array UInt32 := Id.run do
  let mut w := blk
  for i in [16:64] do
    let w15 := w[i - 15]!
    let w2 := w[i - 2]!
    let s0 := rotr w15 7 ^^^ rotr w15 18 ^^^ (w15 >>> 3)
    let s1 := rotr w2 17 ^^^ rotr w2 19 ^^^ (w2 >>> 10)
    w := w.push (w[i - 16]! + s0 + w[i - 7]! + s1)
  return w

def compress (h : Array UInt32) (blk : Array UInt32) : Array UInt32 := Id.run do
  let w := schedule blk
  let mut a := h[0]!
  let mut b := h[1]!
  let mut c := h[2]!
  let mut d := h[3]!
  let mut e := h[4]!
  let mut f := h[5]!
  let mut g := h[6]!
  let mut hh := h[7]!
  for i in [0:64] do
    let s1 := rotr e 6 ^^^ rotr e 11 ^^^ rotr e 25
    let ch := (e &&& f) ^^^ ((~~~ e) &&& g)
    let t1 := hh + s1 + ch + K[i]! + w[i]!
    let s0 := rotr a 2 ^^^ rotr a 13 ^^^ rotr a 22
    let mj := (a &&& b) ^^^ (a &&& c) ^^^ (b &&& c)
    let t2 := s0 + mj
    hh := g
    g := f
    f := e
    e := d + t1
    d := c
    c := b
    b := a
    a := t1 + t2
  return #[h[0]! + a, h[1]! + b, h[2]! + c, h[3]! + d, h[4]! + e, h[5]! + f, h[6]! + g, h[7]! + hh]

def u64be (n : Nat) : Bytes :=
  [56, 48, 40, 32, 24, 16, 8, 0].map (fun s => UInt8.ofNat (n / 2 ^ s % 256))

def padMsg (m : Bytes) : Bytes :=
  let l := m.length
  let k := (119 - l % 64) % 64
  m ++ [0x80] ++ List.replicate k 0 ++ u64be (l * 8)

def chunks16 : Nat → List UInt32 → List (Array UInt32)
  | 0, _ => []
  | f + 1, ws => if ws.length < 16 then [] else (ws.take 16).toArray :: chunks16 f (ws.drop 16)

def wordBytes (w : UInt32) : Bytes :=
  [UInt8.ofNat (w >>> 24).toNat, UInt8.ofNat (w >>> 16).toNat, UInt8.ofNat (w >>> 8).toNat, UInt8.ofNat w.toNat]

def sha256 (m : Bytes) : Bytes :=
  let ws := wordsOf (padMsg m)
  let h0 : Array UInt32 := #[0x6a09e667, 0xbb67ae85, 0x3c6ef372, 0xa54ff53a, 0x510e527f, 0x9b05688c, 0x1f83d9ab, 0x5be0cd19]
  let h := (chunks16 (ws.length + 1) ws).foldl compress h0
  (h.toList.map wordBytes).foldr (· ++ ·) []

end Rangers.Model.Bls14.Sha
