import Rangers.Model.Evm10Ops
/-
C10 — the interpreter loop of `EVMInterpreter.Run` (src/vm/interpreter.go) restricted to
what a top-level, non-static frame over the computational opcodes can reach, the
`memorySize` functions (memory_table.go), the dynamic gas functions these opcodes use
(gas_table.go) and the `evm.Call` wrapper's treatment of the result.  Core Lean only.

Gas is modelled only so that the outcome of *every* program over the modelled opcode set
is determined (out-of-gas is an outcome like any other); gas *properties* belong to C11.
All uint64 arithmetic that the code leaves unchecked is written with an explicit
`% 2^64`.
-/
namespace Rangers.Model.Evm10
open U256

inductive MemSizeResult where
  | noFn
  | size (sz : Nat) (overflow : Bool)
  | panic
  | unmodelled (name : String)

/-- `operation.memorySize(stack)`; `Back(n)` is index n from the top. -/
def memorySizeOf (fn : MemFn) (st : List Word) : MemSizeResult :=
  let two (a b : Nat) (k : Word → Word → Nat × Bool) : MemSizeResult :=
    match st[a]?, st[b]? with
    | some x, some y => let r := k x y; .size r.1 r.2
    | _, _ => .panic
  let one (a : Nat) (len : Nat) : MemSizeResult :=
    match st[a]? with
    | some x => let r := calcMemSize64WithUint x len; .size r.1 r.2
    | none => .panic
  -- `memoryCall` and friends: x := calcMemSize64(Back(a), Back(b)); y := calcMemSize64(Back(c), Back(d));
  -- either overflow gives (0, true); else the larger one
  let twoWindows (a b c d : Nat) : MemSizeResult :=
    match st[a]?, st[b]?, st[c]?, st[d]? with
    | some xo, some xl, some yo, some yl =>
      let x := calcMemSize64 xo xl
      if x.2 then .size 0 true
      else
        let y := calcMemSize64 yo yl
        if y.2 then .size 0 true
        else if x.1 > y.1 then .size x.1 false else .size y.1 false
    | _, _, _, _ => .panic
  match fn with
  | .none => .noFn
  | .memorySha3 => two 0 1 calcMemSize64
  | .memoryCallDataCopy => two 0 2 calcMemSize64
  | .memoryReturnDataCopy => two 0 2 calcMemSize64
  | .memoryCodeCopy => two 0 2 calcMemSize64
  | .memoryMLoad => one 0 32
  | .memoryMStore8 => one 0 1
  | .memoryMStore => one 0 32
  | .memoryMcopy =>
    match st[0]?, st[1]?, st[2]? with
    | some dst, some src, some len =>
      let mStart := if gt src dst then src else dst
      let r := calcMemSize64 mStart len
      .size r.1 r.2
    | _, _, _ => .panic
  | .memoryReturn => two 0 1 calcMemSize64
  | .memoryRevert => two 0 1 calcMemSize64
  | .memoryExtCodeCopy => two 1 3 calcMemSize64
  | .memoryCreate => two 1 2 calcMemSize64
  | .memoryCreate2 => two 1 2 calcMemSize64
  | .memoryLog => two 0 1 calcMemSize64
  | .memoryCall => twoWindows 5 6 3 4
  | .memoryDelegateCall => twoWindows 4 5 2 3
  | .memoryStaticCall => twoWindows 4 5 2 3
  | .memoryAuthCall => twoWindows 7 8 5 6
  | .other name => .unmodelled name

/-- `utility.SafeMul` / `SafeAdd` : (result mod 2^64, overflow) -/
def safeMul (x y : Nat) : Nat × Bool := ((x * y) % 2 ^ 64, decide (x * y ≥ 2 ^ 64))
def safeAdd (x y : Nat) : Nat × Bool := ((x + y) % 2 ^ 64, decide (x + y ≥ 2 ^ 64))

/-- `memoryGasCost(mem, newMemSize)` → `none` = ErrGasUintOverflow, else (fee, new lastGasCost). -/
def memoryGasCost (p : GasParams) (memLen lastGasCost newMemSize : Nat) : Option (Nat × Nat) :=
  if newMemSize = 0 then some (0, lastGasCost)
  else if newMemSize > 0x1FFFFFFFE0 then none
  else
    let words := toWordSize newMemSize
    let newMemSize := (words * 32) % 2 ^ 64
    if newMemSize > memLen then
      let square := (words * words) % 2 ^ 64
      let linCoef := (words * p.memoryGas) % 2 ^ 64
      let quadCoef := square / p.quadCoeffDiv
      let newTotalFee := (linCoef + quadCoef) % 2 ^ 64
      let fee := (newTotalFee + 2 ^ 64 - lastGasCost) % 2 ^ 64
      if p.p026 then some ((fee * p.magnification) % 2 ^ 64, newTotalFee)
      else some (fee, newTotalFee)
    else some (0, lastGasCost)

/-- per-word gas added to the memory gas, as in `memoryCopierGas` / `gasSha3` -/
def wordGas (p : GasParams) (memLen last memorySize : Nat) (lenWord : Option Word) (perWord : Nat) :
    Option (Nat × Nat) :=
  match memoryGasCost p memLen last memorySize, lenWord with
  | some (gas, last'), some w =>
    let (words, overflow) := uint64WithOverflow w
    if overflow then none
    else
      let (wg, o1) := safeMul (toWordSize words) perWord
      if o1 then none
      else
        let (g, o2) := safeAdd gas wg
        if o2 then none
        else if p.p026 then
          -- `SafeMul(gas, GasMagnification)` (overflow-checked since fix 35e4fc3)
          let (gm, o3) := safeMul g p.magnification
          if o3 then none else some (gm, last')
        else some (g, last')
  | _, _ => none

inductive DynGasResult where
  | noFn
  /-- (cost, new lastGasCost) -/
  | cost (c : Nat) (last : Nat)
  /-- the gas function returned an error (the loop turns it into ErrOutOfGas) -/
  | error
  | unmodelled (name : String)

/-- `operation.dynamicGas(evm, contract, stack, mem, memorySize)` -/
def dynGasOf (p : GasParams) (fn : GasFn) (st : List Word) (memLen last memorySize : Nat) :
    DynGasResult :=
  let lift (r : Option (Nat × Nat)) : DynGasResult :=
    match r with
    | some (c, l) => .cost c l
    | none => .error
  match fn with
  | .none => .noFn
  | .pureMemoryGascost => lift (memoryGasCost p memLen last memorySize)
  | .copier pos => lift (wordGas p memLen last memorySize st[pos]? p.copyGas)
  | .gasSha3 => lift (wordGas p memLen last memorySize st[1]? p.sha3WordGas)
  | .gasExpFrontier | .gasExpEIP158 =>
    match st[1]? with
    | some e =>
      let perByte := if fn = .gasExpFrontier then p.expByteFrontier else p.expByteEIP158
      let expByteLen := (bitLen e + 7) / 8
      let (g, o) := safeAdd ((expByteLen * perByte) % 2 ^ 64) p.expGas
      if o then .error
      else if p.p026 then .cost ((g * p.magnification) % 2 ^ 64) last else .cost g last
    | none => .error
  | .other name => .unmodelled name

inductive StepResult where
  | next (f : Frame)
  /-- `operation.halts` : (ret, gas left) -/
  | halt (ret : Bytes) (gas : Nat)
  /-- `operation.reverts` -/
  | revert (ret : Bytes) (gas : Nat)
  | fail (e : Err)
  | unmodelled (what : String)

/-- `memorySize`, rounded up to whole words: `memSize, overflow := operation.memorySize(stack)`,
then `SafeMul(toWordSize(memSize), 32)`; 0 when the slot has no memory-size function. -/
def stepMemSize (info : OpInfo) (st : List Word) : Except StepResult Nat :=
  match memorySizeOf info.memSize st with
  | .noFn => .ok 0
  | .panic => .error (.fail .goPanic)
  | .unmodelled n => .error (.unmodelled n)
  | .size sz overflow =>
    if overflow then .error (.fail .gasUintOverflow)
    else if (safeMul (toWordSize sz) 32).2 then .error (.fail .gasUintOverflow)
    else .ok (safeMul (toWordSize sz) 32).1

/-- the dynamic portion of gas: (gas left, new `lastGasCost`) -/
def stepDynGas (p : GasParams) (info : OpInfo) (f : Frame) (gas1 memorySize : Nat) :
    Except StepResult (Nat × Nat) :=
  match dynGasOf p info.dynGas f.stack f.mem.length f.lastGasCost memorySize with
  | .noFn => .ok (gas1, f.lastGasCost)
  | .unmodelled n => .error (.unmodelled n)
  | .error => .error (.fail .outOfGas)
  | .cost c last => if gas1 < c then .error (.fail .outOfGas) else .ok (gas1 - c, last)

/-- the frame `execute` runs on: gas charged, `mem.Resize(memorySize)` done when it is > 0 -/
def preExec (f : Frame) (gas2 last memorySize : Nat) : Frame :=
  { f with gas := gas2, lastGasCost := last,
           mem := if memorySize > 0 then Mem.resize f.mem memorySize else f.mem }

/-- after a successful `execute` that neither halts nor reverts: `returns` stores the result
as return data, `!jumps` advances the pc -/
def postExec (info : OpInfo) (f1 : Frame) (res : Bytes) : Frame :=
  let f2 := if info.returns then { f1 with returnData := res } else f1
  if !info.jumps then { f2 with pc := f2.pc + 1 } else f2

/-- `res, err = operation.execute(&pc, in, callContext)` and the `switch` after it -/
def stepExec (H : Bytes → Bytes) (info : OpInfo) (f : Frame) (gas2 last memorySize : Nat) : StepResult :=
  match execOp H info.exec (preExec f gas2 last memorySize) with
  | .err e => .fail e
  | .unmodelled n => .unmodelled n
  | .ok f1 res =>
    if info.reverts then .revert res f1.gas
    else if info.halts then .halt res f1.gas
    else .next (postExec info f1 res)

/-- One iteration of the `for` loop in `EVMInterpreter.Run` (readOnly = false). -/
def step (H : Bytes → Bytes) (t : Table) (p : GasParams) (f : Frame) : StepResult :=
  match t.get (getOp f.code f.pc) with
  | none => .fail .invalidOpcode
  | some info =>
    if f.stack.length < info.minStack then .fail .stackUnderflow
    else if f.stack.length > info.maxStack then .fail .stackOverflow
    else if f.gas < info.constantGas then .fail .outOfGas
    else
      match stepMemSize info f.stack with
      | .error r => r
      | .ok memorySize =>
        match stepDynGas p info f (f.gas - info.constantGas) memorySize with
        | .error r => r
        | .ok (gas2, last) => stepExec H info f gas2 last memorySize

inductive Outcome where
  | ok (ret : Bytes) (gas : Nat)
  | revert (ret : Bytes) (gas : Nat)
  | fail (e : Err)
  | unmodelled (what : String)
  | outOfFuel
  deriving Repr

/-- The loop. -/
def run (H : Bytes → Bytes) (t : Table) (p : GasParams) : Nat → Frame → Outcome
  | 0, _ => .outOfFuel
  | fuel + 1, f =>
    match step H t p f with
    | .next f' => run H t p fuel f'
    | .halt ret gas => .ok ret gas
    | .revert ret gas => .revert ret gas
    | .fail e => .fail e
    | .unmodelled w => .unmodelled w

/-- `evm.Call` on an existing account holding `code` (value 0, depth 0, not a precompile):
empty code returns immediately with the gas untouched; a failure other than a revert
consumes all gas and drops the return data. -/
def call (H : Bytes → Bytes) (t : Table) (p : GasParams) (fuel : Nat) (code input : Bytes)
    (gas : Nat) : Outcome :=
  if code.length = 0 then .ok [] gas
  else run H t p fuel (Frame.init code input gas)

end Rangers.Model.Evm10
