import Rangers.Basic.Hex
/-!
Model of the go-rangers miner registry and stake accounting (property C20):
`service.MinerManager` (AddMiner / AddStake / UpdateMiner / RemoveMiner /
GetMinerById / minerIterator / GetMinerIdByAccount / totals),
`service.RefundManager` (GetRefundStake / Add / CheckAndMove), the four miner
executors and the way `core.VMExecutor` sequences them (fee, snapshot, revert,
block end). It models the code as it is, including

* the registry iterator walks the account's storage *trie*, which only
  receives the block's writes at `IntermediateRoot`/`Commit` — inside a block
  `GetMinerIdByAccount` and the totals do not see that block's own writes
  (`State.trie` vs `State.live`);
* the four key families `id`, `H id`, `H (H id)`, `H (H (H id))` share one key
  space (`H = common.Sha256` is a parameter of the model);
* `minerRefundExecutor` appends to a *copy* of the per-height refund list, so a
  second account refunding into the same height in one block is dropped
  (`pendingAdd`);
* stake is debited as `Float64ToBigInt(float64 stake)` (`f64`), `uint64`
  addition wraps (`% 2^64`), re-activation uses `>` where application uses `≥`,
  a miner whose account is a contract is never deleted.

Core Lean only (this file is linked into the driver executable).
Scope: chain configuration "dev" at heights ≥ 12 (all proposals up to 027 active
except 025; in particular 003: status lives in its own slot, 012: refund height
= now + 36000, 026: fee 0.001).
-/
namespace Rangers.Miner

/-! ## constants (tied to the source by `Generated/C20Facts.lean`) -/
def validatorStake : Nat := 400
def proposerStake : Nat := 2000
def heightAfterStake : Nat := 300
def refundDelay : Nat := 36000
def wei : Nat := 1000000000000000000
def fee : Nat := 1000000000000000
def statusNormal : Nat := 0
def statusAbort : Nat := 1
def typeValidator : Nat := 0
def typeProposer : Nat := 1
def maxU64 : Nat := 18446744073709551615
def feeAccount : Bytes :=
  [0x39, 0x66, 0xea, 0xfd, 0x38, 0xc5, 0xf1, 0x0c, 0xc9, 0x1e, 0xaa, 0xca, 0xef, 0xf1, 0xb6, 0x68, 0x2b, 0x83, 0xce, 0xd4]
def zeroAddr : Bytes := List.replicate 20 0

/-! ## byte-level helpers -/

/-- `float64(uint64 n)` as an exact integer: round to nearest, ties to even, 53-bit mantissa. -/
def f64 (n : Nat) : Nat :=
  if n < 2 ^ 53 then n
  else
    let e := Nat.log2 n - 52
    let q := n / 2 ^ e
    let r := n % 2 ^ e
    let half := 2 ^ (e - 1)
    let q' := if r > half ∨ (r = half ∧ q % 2 = 1) then q + 1 else q
    q' * 2 ^ e

/-- `utility.Float64ToBigInt(float64(stake))`: what AddMiner/AddStake compare with and debit. -/
def stakeWei (stake : Nat) : Nat := f64 stake * wei

/-- `utility.UInt64ToByte`. -/
def u64be (n : Nat) : Bytes :=
  [UInt8.ofNat (n / 2 ^ 56 % 256), UInt8.ofNat (n / 2 ^ 48 % 256), UInt8.ofNat (n / 2 ^ 40 % 256), UInt8.ofNat (n / 2 ^ 32 % 256),
   UInt8.ofNat (n / 2 ^ 24 % 256), UInt8.ofNat (n / 2 ^ 16 % 256), UInt8.ofNat (n / 2 ^ 8 % 256), UInt8.ofNat (n % 256)]

/-- `utility.ByteToUInt64`: `binary.Read` of 8 bytes; fewer than 8 bytes leave the result 0. -/
def u64 (b : Bytes) : Nat := if b.length < 8 then 0 else beToNat (b.take 8)

/-- `utility.IsEmptyByteSlice`: nil, empty or all zero. -/
def isEmptySlice (b : Bytes) : Bool := b.all (· == 0)

/-- `common.BytesToAddress`: longer than 20 keeps the last 20; shorter is LEFT aligned (`copy(a[:], b)`). -/
def toAddr (b : Bytes) : Bytes :=
  if b.length > 20 then b.drop (b.length - 20) else b ++ List.replicate (20 - b.length) 0

/-! ## storage -/

abbrev Store := List (Bytes × Bytes)

/-- `accountObject.GetData`: absent and deleted both read as empty. -/
def Store.get (s : Store) (k : Bytes) : Bytes := (s.lookup k).getD []
/-- `accountObject.SetData` (newest binding shadows). -/
def Store.set (s : Store) (k v : Bytes) : Store := (k, v) :: s

def dedup : List Bytes → List Bytes
  | [] => []
  | a :: l => if a ∈ l then dedup l else a :: dedup l

/-- Order of the storage-trie iterator: byte-lexicographic, except that a key that is a proper prefix of
    another comes AFTER it (the value slot of a branch node is visited after its 16 children; in
    `keybytesToHex` terms the terminator nibble 16 sorts last). -/
def bytesLe : Bytes → Bytes → Bool
  | [], [] => true
  | [], _ :: _ => false
  | _ :: _, [] => true
  | a :: as, b :: bs => if a < b then true else if b < a then false else bytesLe as bs

def insertKey (k : Bytes) : List Bytes → List Bytes
  | [] => [k]
  | a :: l => if bytesLe k a then k :: a :: l else a :: insertKey k l

def isort : List Bytes → List Bytes
  | [] => []
  | a :: l => insertKey a (isort l)

/-- Keys of a store in trie-iterator order (byte-lexicographic), each once. -/
def Store.keys (s : Store) : List Bytes := isort (dedup (s.map Prod.fst))

/-! ## the registry -/

/-- The immutable part `Miner.GetMinerInfo` serialises under key `id` (post-Proposal003: no status). -/
structure Info where
  id : Bytes
  pk : Bytes
  vrf : Bytes
  applyHeight : Nat
  typ : Nat
deriving DecidableEq, Repr, Inhabited

/-- External functions the registry is built on: the key hash and the JSON codec. -/
structure Cfg where
  H : Bytes → Bytes
  enc : Info → Bytes
  dec : Bytes → Option Info

inductive DbId | val | prop | zero
deriving DecidableEq, Repr

/-- `getMinerDatabaseAddress`: validator → address 1, proposer → address 2, anything else → the zero address. -/
def dbOfType (t : Nat) : DbId := if t = typeValidator then .val else if t = typeProposer then .prop else .zero

structure State where
  live : DbId → Store            -- what GetData sees (cache over trie)
  trie : DbId → Store            -- what the storage-trie iterator sees (as of the last flush)
  bal : List (Bytes × Nat)       -- liquid balance per 20-byte address
  code : List Bytes              -- addresses that are contracts
  escrow : List ((Nat × Bytes) × Nat)   -- refund scheduled: (height, account bytes) ↦ wei
  pending : List (Nat × List (Bytes × Nat))  -- context["refund"] of the block being executed
  height : Nat
  pk : List (Bytes × Bytes) := []   -- MinerManager.pkCache: id ↦ public key; a LevelDB of its own, outside the journal

def State.empty (h : Nat) : State :=
  { live := fun _ => [], trie := fun _ => [], bal := [], code := [], escrow := [], pending := [], height := h, pk := [] }

def State.setLive (st : State) (d : DbId) (s : Store) : State :=
  { st with live := fun j => if j = d then s else st.live j }

def State.write (st : State) (d : DbId) (k v : Bytes) : State := st.setLive d ((st.live d).set k v)

def State.balOf (st : State) (a : Bytes) : Nat := (st.bal.lookup a).getD 0
def State.setBal (st : State) (a : Bytes) (n : Nat) : State := { st with bal := (a, n) :: st.bal }
def State.addBal (st : State) (a : Bytes) (n : Nat) : State := st.setBal a (st.balOf a + n)
def State.subBal (st : State) (a : Bytes) (n : Nat) : State := st.setBal a (st.balOf a - n)
def State.isContract (st : State) (a : Bytes) : Bool := st.code.contains a

def State.escOf (st : State) (h : Nat) (a : Bytes) : Nat := (st.escrow.lookup (h, a)).getD 0
def State.setEsc (st : State) (h : Nat) (a : Bytes) (n : Nat) : State := { st with escrow := ((h, a), n) :: st.escrow }

/-- `MinerManager.GetPubkey`. -/
def State.pkOf (st : State) (id : Bytes) : Option Bytes := st.pk.lookup id
/-- `pkCache.Put`. -/
def State.putPk (st : State) (id key : Bytes) : State := { st with pk := (id, key) :: st.pk }

def slotStake (cfg : Cfg) (id : Bytes) : Bytes := cfg.H id
def slotAcct (cfg : Cfg) (id : Bytes) : Bytes := cfg.H (cfg.H id)
def slotStatus (cfg : Cfg) (id : Bytes) : Bytes := cfg.H (cfg.H (cfg.H id))

/-- A registry record as the readers return it. -/
structure Miner where
  id : Bytes
  typ : Nat
  stake : Nat
  status : Nat
  applyHeight : Nat
  account : Bytes
deriving DecidableEq, Repr, Inhabited

def statusOf (b : Bytes) : Nat :=
  match b with
  | [x] => x.toNat
  | _ => 0

/-- Fill the mutable fields from the three slots derived from `kid`. -/
def readMiner (cfg : Cfg) (s : Store) (info : Info) (kid : Bytes) : Miner :=
  { id := info.id, typ := info.typ, applyHeight := info.applyHeight,
    stake := u64 (s.get (slotStake cfg kid)),
    account := s.get (slotAcct cfg kid),
    status := statusOf (s.get (slotStatus cfg kid)) }

/-- `MinerManager.GetMinerById`. -/
def getMinerById (cfg : Cfg) (st : State) (d : DbId) (id : Bytes) : Option Miner :=
  let data := (st.live d).get id
  if data = [] then none
  else match cfg.dec data with
    | none => none
    | some info => some (readMiner cfg (st.live d) info id)

/-- `MinerManager.GetMiner`: proposer registry first, then validator. -/
def getMiner (cfg : Cfg) (st : State) (id : Bytes) : Option Miner :=
  match getMinerById cfg st .prop id with
  | some m => some m
  | none => getMinerById cfg st .val id

/-- `MinerIterator.Current` on one trie value (`none`: not a record / empty id). Slots are derived
    from the id inside the JSON and read from the live storage. -/
def iterCurrent (cfg : Cfg) (st : State) (d : DbId) (v : Bytes) : Option Miner :=
  if v = [] then none
  else match cfg.dec v with
    | none => none
    | some info => if info.id = [] then none else some (readMiner cfg (st.live d) info info.id)

/-- The records `minerIterator(d)` yields, in iterator order. -/
def iter (cfg : Cfg) (st : State) (d : DbId) : List Miner :=
  ((st.trie d).keys).filterMap (fun k => iterCurrent cfg st d ((st.trie d).get k))

/-- `GetMinerIdByAccount`: validators first, then proposers; abort miners count. -/
def byAccount (cfg : Cfg) (st : State) (a : Bytes) : Option Bytes :=
  ((iter cfg st .val ++ iter cfg st .prop).find? (fun m => m.account = a)).map (·.id)

def active (h : Nat) (m : Miner) : Bool := m.status = statusNormal ∧ m.applyHeight ≤ h

/-- Insert into a Go map modelled as an association list (last write wins, one entry per key). -/
def mapPut (l : List (Bytes × Nat)) (k : Bytes) (v : Nat) : List (Bytes × Nat) :=
  (k, v) :: l.filter (fun e => e.1 ≠ k)

/-- `GetProposerTotalStakeWithDetail`: `uint64` running total and the id ↦ stake map. -/
def totalsFold (ms : List Miner) (h : Nat) : Nat × List (Bytes × Nat) :=
  ms.foldl (fun acc m => if active h m then ((acc.1 + m.stake) % 2 ^ 64, mapPut acc.2 m.id m.stake) else acc) (0, [])

def proposerTotals (cfg : Cfg) (st : State) (h : Nat) : Nat × List (Bytes × Nat) :=
  totalsFold (iter cfg st .prop) h

/-- `GetProposerTotalStake` = number of entries of the detail map. -/
def proposerCount (cfg : Cfg) (st : State) (h : Nat) : Nat := (proposerTotals cfg st h).2.length

/-- `GetAllMinerIdAndAccount` for one type: id ↦ BytesToAddress(account) over active records. -/
def idAndAccount (cfg : Cfg) (st : State) (d : DbId) (h : Nat) : List (Bytes × Bytes) :=
  (iter cfg st d).foldl (fun acc m => if active h m then (m.id, toAddr m.account) :: acc.filter (fun e => e.1 ≠ m.id) else acc) []

/-! ## what the consensus layer reads (consensus/access/miner_access.go), always on a committed state -/

/-- `MinerPoolReader.GetCandidateMiners(h)`: `getAllMiner(validator)` skips the entries `Current()` flags (aborted
    miners), then `CanJoinGroupAt(h)` keeps validators already applied strictly before `h`. -/
def candidates (cfg : Cfg) (st : State) (h : Nat) : List Miner :=
  (iter cfg st .val).filter (fun m => m.status ≠ statusAbort ∧ m.typ = typeValidator ∧ m.applyHeight < h)

/-- `convert2MinerDO` logs `md.ID.GetHexString()` when id or public key is not a valid group-signature value (the
    harness's keys never are); `ID.Serialize` panics ("ID bytes is more than IDLENGTH") when the id, as a big-endian
    number, needs more than 32 bytes. So one registered, not aborted validator with such an id makes the whole
    `GetCandidateMiners` call panic. -/
def idTooLong (id : Bytes) : Bool := (id.dropWhile (· == 0)).length > 32

def candidatesPanic (cfg : Cfg) (st : State) : Bool :=
  (iter cfg st .val).any (fun m => m.status ≠ statusAbort ∧ idTooLong m.id)

/-- `MinerPoolReader.GetProposeMiner(id)`: the proposer registry's record, whatever its status. -/
def proposeMiner (cfg : Cfg) (st : State) (id : Bytes) : Option Miner := getMinerById cfg st .prop id

/-- Add to a Go `map[common.Address]uint64` entry (`detail[addr] = stake + detail[addr]`, `uint64`). -/
def mapAdd (l : List (Bytes × Nat)) (k : Bytes) (v : Nat) : List (Bytes × Nat) :=
  (k, (v + ((l.lookup k).getD 0)) % 2 ^ 64) :: l.filter (fun e => e.1 ≠ k)

/-- `MinerManager.GetValidatorsStake(members)`: stake and account are read straight from the slots of the validator
    registry (no record check); members without stake are skipped; per-address detail and `uint64` total. -/
def validatorsStake (cfg : Cfg) (st : State) (members : List Bytes) : Nat × List (Bytes × Nat) :=
  members.foldl (fun acc id =>
    let s := u64 ((st.live .val).get (slotStake cfg id))
    if s = 0 then acc
    else ((acc.1 + s) % 2 ^ 64, mapAdd acc.2 (toAddr ((st.live .val).get (slotAcct cfg id))) s)) (0, [])

/-! ## writers -/

/-- `MinerManager.UpdateMiner` (Proposal003 active). The registry is chosen by the record's type,
    the keys by the record's id. -/
def updateMiner (cfg : Cfg) (st : State) (m : Miner) (newInfo : Option Info) : State :=
  let d := dbOfType m.typ
  let st := match newInfo with
    | some info => st.write d m.id (cfg.enc info)
    | none => st
  let st := st.write d (slotStake cfg m.id) (u64be m.stake)
  let st := st.write d (slotAcct cfg m.id) m.account
  st.write d (slotStatus cfg m.id) [UInt8.ofNat m.status]

/-- `MinerManager.RemoveMiner`. -/
def removeMiner (cfg : Cfg) (st : State) (id account : Bytes) (typ left : Nat) : State :=
  let d := dbOfType typ
  if left = 0 ∧ ¬ st.isContract (toAddr account) then
    let st := st.write d id []
    let st := st.write d (slotStake cfg id) []
    let st := st.write d (slotAcct cfg id) []
    st.write d (slotStatus cfg id) []
  else
    let st := st.write d (slotStake cfg id) (u64be left)
    st.write d (slotStatus cfg id) [UInt8.ofNat statusAbort]

def minStake (typ : Nat) : Option Nat :=
  if typ = typeProposer then some proposerStake else if typ = typeValidator then some validatorStake else none

/-- The writes of a successful `AddMiner`: debit, then `UpdateMiner(miner, isNew = true)`. -/
def addMinerApply (cfg : Cfg) (st : State) (payer : Bytes) (info : Info) (stake : Nat) (account : Bytes) : State :=
  updateMiner cfg (st.subBal payer (stakeWei stake))
    { id := info.id, typ := info.typ, stake := stake, status := statusNormal, applyHeight := info.applyHeight, account := account }
    (some info)

/-- `MinerManager.AddMiner`; `"ok"` or the error class. -/
def addMiner (cfg : Cfg) (st : State) (payer : Bytes) (info : Info) (stake : Nat) (account : Bytes) : String × State :=
  match minStake info.typ with
  | none => ("fail:type", st)
  | some ms =>
    if stake < ms then ("fail:minstake", st)
    else if isEmptySlice info.vrf ∨ isEmptySlice info.pk then ("fail:keys", st)
    else if st.balOf payer < stakeWei stake then ("fail:balance", st)
    else if (getMiner cfg st info.id).isSome then ("fail:idexists", st)
    else if (byAccount cfg st account).isSome then ("fail:acctexists", st)
    else ("ok", addMinerApply cfg st payer info stake account)

/-- `minerApplyExecutor.Execute` (not mainnet; the harness signs with the zero signature, so an empty
    id cannot be recovered from the signature). -/
def execApply (cfg : Cfg) (st : State) (src id : Bytes) (typ stake : Nat) (acct pk vrf : Bytes) : String × State :=
  if typ > 255 ∨ stake > maxU64 then ("fail:json", st)
  else if isEmptySlice id then ("fail:recover", st)
  else
    let account := if isEmptySlice acct then src else acct
    let info : Info := { id := id, pk := pk, vrf := vrf, applyHeight := st.height + heightAfterStake, typ := typ }
    addMiner cfg st (toAddr src) info stake account

/-- Re-activation test of `AddStake` (strictly above the minimum). -/
def reactivates (typ stake : Nat) : Bool :=
  (typ = typeProposer ∧ stake > proposerStake) ∨ (typ = typeValidator ∧ stake > validatorStake)

/-- The writes of a successful `AddStake` on record `m`. -/
def addStakeApply (cfg : Cfg) (st : State) (payer : Bytes) (m : Miner) (delta : Nat) : State :=
  let stake' := (m.stake + delta) % 2 ^ 64
  updateMiner cfg (st.subBal payer (stakeWei delta))
    { m with stake := stake', status := if reactivates m.typ stake' then statusNormal else m.status } none

/-- `MinerManager.AddStake`. -/
def addStake (cfg : Cfg) (st : State) (payer id : Bytes) (delta : Nat) : String × State :=
  if delta = 0 then ("ok", st)
  else if st.balOf payer < stakeWei delta then ("fail:balance", st)
  else match getMiner cfg st id with
    | none => ("fail:nominer", st)
    | some m => ("ok", addStakeApply cfg st payer m delta)

/-- `minerAddExecutor.Execute`. -/
def execAdd (cfg : Cfg) (st : State) (src id : Bytes) (delta : Nat) : String × State :=
  if delta > maxU64 then ("fail:json", st)
  else if isEmptySlice id then ("fail:recover", st)
  else addStake cfg st (toAddr src) id delta

/-- `RefundInfoList.AddRefundInfo` on an existing entry: add to the first matching id. -/
def bump : List (Bytes × Nat) → Bytes → Nat → List (Bytes × Nat)
  | [], _, _ => []
  | e :: l, a, v => if e.1 = a then (e.1, e.2 + v) :: l else e :: bump l a v

/-- The bookkeeping of `minerRefundExecutor.Execute` on `context["refund"]`: the map value is a struct
    copy, so an append for a *new* account to an *existing* height is lost; an addition to an existing
    account goes through the shared `*big.Int`. -/
def pendingAdd (p : List (Nat × List (Bytes × Nat))) (h : Nat) (a : Bytes) (v : Nat) : List (Nat × List (Bytes × Nat)) :=
  match p.lookup h with
  | none => (h, [(a, v)]) :: p
  | some l =>
    if l.any (fun e => e.1 = a) then p.map (fun e => if e.1 = h then (e.1, bump e.2 a v) else e)
    else p

def needsRemoval (typ left : Nat) : Bool :=
  (typ = typeProposer ∧ left < proposerStake) ∨ (typ = typeValidator ∧ left < validatorStake)

/-- `money == MaxUint64` means "everything". -/
def refundMoney (m : Miner) (amount : Nat) : Nat := if amount = maxU64 then m.stake else amount

/-- The registry writes of a successful `GetRefundStake`: remove/abort below the minimum, else update. -/
def refundCore (cfg : Cfg) (st : State) (id src : Bytes) (m : Miner) (money : Nat) : State :=
  if needsRemoval m.typ (m.stake - money) then removeMiner cfg st id src m.typ (m.stake - money)
  else updateMiner cfg st { m with stake := m.stake - money } none

/-- … followed by the executor's bookkeeping on `context["refund"]`. -/
def refundApply (cfg : Cfg) (st : State) (id src : Bytes) (m : Miner) (money : Nat) : State :=
  let st1 := refundCore cfg st id src m money
  { st1 with pending := pendingAdd st1.pending (st1.height + refundDelay) m.account (money * wei) }

/-- `RefundManager.GetRefundStake` + `minerRefundExecutor.Execute`. -/
def execRefund (cfg : Cfg) (st : State) (src id : Bytes) (amount : Nat) : String × State :=
  if amount > maxU64 then ("fail:amount", st)
  else match getMiner cfg st id with
    | none => ("fail:nominer", st)
    | some m =>
      if src ≠ m.account then ("fail:auth", st)
      else if m.stake < refundMoney m amount then ("fail:stake", st)
      else ("ok", refundApply cfg st id src m (refundMoney m amount))

/-- `minerChangeAccountExecutor.Execute`. -/
def execChacc (cfg : Cfg) (st : State) (src id newAcct : Bytes) : String × State :=
  match getMiner cfg st id with
  | none => ("fail:nominer", st)
  | some m =>
    if m.account = newAcct then ("fail:noneed", st)
    else if m.account ≠ src then ("fail:auth", st)
    else if (byAccount cfg st newAcct).isSome then ("fail:occupied", st)
    else ("ok", updateMiner cfg st { m with account := newAcct } none)

inductive BadKind | applyJson | addJson | chaccJson | refundJson | refundAmount
deriving DecidableEq, Repr

inductive Tx
  | apply (src id : Bytes) (typ stake : Nat) (acct pk vrf : Bytes)
  | add (src id : Bytes) (delta : Nat)
  | refund (src id : Bytes) (amount : Nat)
  | chacc (src id newAcct : Bytes)
  | bad (kind : BadKind) (src : Bytes)
deriving Repr

def Tx.src : Tx → Bytes
  | .apply s .. => s
  | .add s .. => s
  | .refund s .. => s
  | .chacc s .. => s
  | .bad _ s => s

/-- `Execute` of the executor selected by the transaction type. -/
def execute (cfg : Cfg) (st : State) : Tx → String × State
  | .apply src id typ stake acct pk vrf => execApply cfg st src id typ stake acct pk vrf
  | .add src id delta => execAdd cfg st src id delta
  | .refund src id amount => execRefund cfg st src id amount
  | .chacc src id newAcct => execChacc cfg st src id newAcct
  | .bad .refundAmount _ => ("fail:amount", st)
  | .bad _ _ => ("fail:json", st)

/-- `common.HexStringToAddress(tx.Source)`: anything but exactly 20 bytes is the zero address. -/
def feePayer (src : Bytes) : Bytes := if src.length = 20 then src else zeroAddr

/-- `TxPool.ProcessFee` (Proposal026 fee). -/
def processFee (st : State) (src : Bytes) : Option State :=
  let a := feePayer src
  if st.balOf a < fee then none else some ((st.subBal a fee).addBal feeAccount fee)

/-- One transaction as `VMExecutor.Execute` runs it: `BeforeExecute` (fee), snapshot, `Execute`,
    `RevertToSnapshot` on failure. The revert restores the account database; `context["refund"]`
    is outside the journal and is carried over as `Execute` left it. -/
def runTx (cfg : Cfg) (st : State) (tx : Tx) : String × State :=
  match processFee st tx.src with
  | none => ("skip:nofee", st)
  | some st1 =>
    let r := execute cfg st1 tx
    if r.1 = "ok" then r else (r.1, { st1 with pending := r.2.pending })

/-- The one write outside the account state: `AddMiner` ends with `pkCache.Put(miner.Id, miner.PublicKey)` — after
    the last rejecting return and after `UpdateMiner` (pinned by `Generated/C20Facts`), so only an accepted
    application reaches it. Nothing inside the transaction reads the cache, so it is applied to `runTx`'s result. -/
def pkAfter (tx : Tx) (r : String × State) : String × State :=
  match tx with
  | .apply _ id _ _ _ pk _ => if r.1 = "ok" then (r.1, r.2.putPk id pk) else r
  | _ => r

/-- `RefundManager.Add` for one height. -/
def escrowAddList (st : State) (h : Nat) : List (Bytes × Nat) → State
  | [] => st
  | (a, v) :: l => escrowAddList (st.setEsc h a (st.escOf h a + v)) h l

def escrowAddAll (st : State) : List (Nat × List (Bytes × Nat)) → State
  | [] => st
  | (h, l) :: p => escrowAddAll (escrowAddList st h l) p

/-- Accounts that have an escrow entry at height `h`. -/
def escrowKeys (st : State) (h : Nat) : List Bytes :=
  dedup ((st.escrow.filter (fun e => e.1.1 = h)).map (fun e => e.1.2))

/-- `RefundManager.CheckAndMove`: credit `BytesToAddress(key)`, then remove the key
    `BytesToAddress(key).Bytes()` (which is the entry itself only for 20-byte accounts). -/
def checkAndMove (st : State) (h : Nat) : State :=
  let vals := (escrowKeys st h).map (fun a => (a, st.escOf h a))
  vals.foldl (fun st e => (st.addBal (toAddr e.1) e.2).setEsc h (toAddr e.1) 0) st

/-- Block end: `VMExecutor.after` (miner-relevant part), `IntermediateRoot`/`Commit` (the storage
    tries catch up with the cache), next block starts with a fresh context. -/
def endBlock (st : State) (next : Nat) : State :=
  let st := escrowAddAll st st.pending
  let st := checkAndMove st st.height
  { st with trie := st.live, pending := [], height := next }

/-- A block execution that is discarded (cast but not adopted, abandoned fork): the account state falls back to the
    last block end `committed`; the public-key cache is not part of it and keeps what the discarded block wrote. -/
def rewind (committed st : State) : State := { committed with pk := st.pk, height := st.height }

inductive Op
  | tx (t : Tx)
  | endBlock (next : Nat)
deriving Repr

def step (cfg : Cfg) (st : State) : Op → State
  | .tx t => (pkAfter t (runTx cfg st t)).2
  | .endBlock n => endBlock st n

def run (cfg : Cfg) (st : State) (ops : List Op) : State := ops.foldl (step cfg) st

/-! ## the stake opcodes (vm/instructions.go: opStake / opUnStake / opUnStakeAll)

The executing contract `contract` (a 20-byte address, `thisAddress`) acts for the miner whose account it is
(`GetMinerIdByAccount`, i.e. through the block-stale iterator); `origin` is `evm.Origin`. They mutate the
same registry through `AddStake` / `GetRefundStake` and write refunds straight into the escrow
(`RefundManager.Add`), bypassing `context["refund"]`. -/

/-- `RefundManager.Add` of one entry. -/
def State.escAdd (st : State) (h : Nat) (a : Bytes) (v : Nat) : State := st.setEsc h a (st.escOf h a + v)

/-- whole tokens of a wei amount as the opcodes compute them (`BigIntToStrWithoutDot` + `ParseUint`). -/
def wholeTokens (money : Nat) : Nat := money / wei

/-- STAKE: a value that does not fit `uint64` fails to parse → `false`, nothing happens. -/
def vmStake (cfg : Cfg) (st : State) (contract : Bytes) (money : Nat) : State :=
  if wholeTokens money > maxU64 then st
  else match byAccount cfg st contract with
    | none => st
    | some id => (addStake cfg st contract id (wholeTokens money)).2

/-- UNSTAKE: the stake drops by the whole tokens of `money` (parse overflow is ignored and yields
    `MaxUint64` = everything); `money` itself — not its truncation — is escrowed for `origin`, plus the
    excess `real − money` for the miner's account when more was released than asked. -/
def vmUnstake (cfg : Cfg) (st : State) (origin contract : Bytes) (money : Nat) : State :=
  match byAccount cfg st contract with
  | none => st
  | some id =>
    let mwd := if wholeTokens money > maxU64 then maxU64 else wholeTokens money
    match getMiner cfg st id with
    | none => st
    | some m =>
      if contract ≠ m.account then st
      else if m.stake < refundMoney m mwd then st
      else
        let real := refundMoney m mwd * wei
        let h := st.height + refundDelay
        let st1 := refundCore cfg st id contract m (refundMoney m mwd)
        let st2 := if real > money then st1.escAdd h m.account (real - money) else st1
        st2.escAdd h origin money

/-- UNSTAKEALL: `false` = the opcode returns an error and the call is reverted. -/
def vmUnstakeAll (cfg : Cfg) (st : State) (contract : Bytes) : Bool × State :=
  match byAccount cfg st contract with
  | none => (false, st)
  | some id =>
    match getMiner cfg st id with
    | none => (false, st)
    | some m =>
      if contract ≠ m.account then (false, st)
      else (true, (refundCore cfg st id contract m m.stake).escAdd (st.height + refundDelay) m.account (m.stake * wei))

/-! ## the operator-node transaction (type 7, executor/miner_node_executor.go)

`minerNodeExecutor.Execute`: the sender pays 10 tokens (debited, credited to nobody), the miner it controls is looked up
by account (block-stale iterator), the main-node contract is called through the EVM (`generateContractAddress`: the
call must succeed with exactly 4 logs, the 4th carrying ≥ 32 bytes; the address is bytes 12..32 of it) — an external
input `create2 : Option Bytes` here — and the miner's account becomes that address, WITHOUT the
"account already controls a miner" check the change-account transaction makes. -/

def nodePrice : Nat := 10 * wei

/-- `Execute` of the operator-node executor; like the other executors a failing run returns the state it was given
    (the debit is journaled and reverted by `RevertToSnapshot`). -/
def execNode (cfg : Cfg) (st : State) (src : Bytes) (create2 : Option Bytes) : String × State :=
  let owner := toAddr src
  if st.balOf owner < nodePrice then ("fail:rpg", st)
  else
    let st1 := st.subBal owner nodePrice
    match byAccount cfg st1 src with
    | none => ("fail:nominer", st)
    | some id =>
      match getMiner cfg st1 id with
      | none => ("fail:nominer", st)
      | some m =>
        match create2 with
        | none => ("fail:create2", st)
        | some a => ("ok", updateMiner cfg st1 { m with account := a } none)

/-- The transaction as `VMExecutor.Execute` runs it (fee, snapshot, `Execute`, revert on failure). -/
def runNode (cfg : Cfg) (st : State) (src : Bytes) (create2 : Option Bytes) : String × State :=
  match processFee st src with
  | none => ("skip:nofee", st)
  | some st1 =>
    let r := execNode cfg st1 src create2
    if r.1 = "ok" then r else (r.1, st1)

/-- `MinerManager.RemoveUnusedValidator(whitelist)` (run by `core.removeUnusedValidator` at the robin-only heights
    Proposal010Block / Proposal019Block): every validator the (block-stale) iterator yields with status normal whose
    id is not whitelisted is removed with `left = 0` — deleted, or aborted with stake 0 when its account is a
    contract — and nothing is refunded. -/
def removeUnusedValidator (cfg : Cfg) (st : State) (white : List Bytes) : State :=
  ((iter cfg st .val).filter (fun m => m.status = statusNormal ∧ m.id ∉ white)).foldl
    (fun st m => removeMiner cfg st m.id m.account typeValidator 0) st

/-- `MinerManager.InsertMiner` (genesis: no debit, no account/id cross-check). -/
def insertMiner (cfg : Cfg) (st : State) (info : Info) (stake status : Nat) (account : Bytes) : Int × State :=
  if (st.live (dbOfType info.typ)).get info.id ≠ [] then (-1, st)
  else
    let m : Miner := { id := info.id, typ := info.typ, stake := stake, status := status,
                       applyHeight := info.applyHeight, account := account }
    (1, updateMiner cfg (st.putPk info.id info.pk) m (some info))

end Rangers.Miner
