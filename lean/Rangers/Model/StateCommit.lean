/-!
Which account objects `AccountDB.Commit(deleteEmptyObjects)` and `AccountDB.Finalise`
remove from / write to the account trie (`src/storage/account/accountdb.go`).
The guards are transcribed from the source; the translator re-extracts them
verbatim on every run (`TrieDbFacts.commitObjectCases`, `finaliseDeleteGuard`), and
`Props/C03Facts.facts_commit_guards` pins the text this transcription was made from.
Core Lean only.
-/
namespace Rangers.Model.StateCommit

/-- what the per-object step does to the account trie -/
inductive ObjAction where
  | delete   -- `deleteAccountObject`: `trie.TryDelete(addr)`
  | update   -- `CommitTrie` + `updateAccountObject`: `trie.TryUpdate(addr, rlp(data))`
  | none     -- the trie entry of the account is not written
deriving DecidableEq, Repr

/-- an object held by an `AccountDB` (every address looked at or modified since it was opened) -/
structure Obj where
  suicided : Bool
  /-- `addr ∈ accountObjectsDirty`: some setter ran on it (and was not undone as a creation/touch) -/
  dirty : Bool
  /-- `accountObject.empty()`: no code, nonce 0, nothing in `cachedStorage`/`dirtyStorage`
      (storage that is only on disk does not count) -/
  empty : Bool

/-- the `switch` in `AccountDB.Commit`:
    `case suicided || (isDirty && deleteEmptyObjects && empty()): delete`; `case isDirty: update` -/
def commitAction (deleteEmptyObjects : Bool) (o : Obj) : ObjAction :=
  if o.suicided || (o.dirty && deleteEmptyObjects && o.empty) then .delete
  else if o.dirty then .update
  else .none

/-- `AccountDB.Finalise` ranges over `accountObjectsDirty` only:
    `if suicided || (deleteEmptyObjects && empty()) delete else update` -/
def finaliseAction (deleteEmptyObjects : Bool) (o : Obj) : ObjAction :=
  if !o.dirty then .none
  else if o.suicided || (deleteEmptyObjects && o.empty) then .delete
  else .update

end Rangers.Model.StateCommit
