import Rangers.Model.Wire
import Rangers.Model.Json
import Rangers.Model.WireSha256
/-!
C09 model, part 3: the in-memory types of `src/middleware/types` (by content), the
converters of serialization.go in both directions, `MarshalX`/`UnMarshalX`, and the inputs of
the identifying hashes (`BlockHeader.GenHash`, `Transaction.GenHash`, `GroupHeader.GenHash`).

Which pointer dereferences can panic is *not* written down here: it is read from
`Generated.C09` (regenerated from serialization.go on every run).
-/
namespace Rangers.Wire
open Rangers Rangers.Json

inductive Outcome (α : Type) where
  | ok (a : α)
  | err                 -- (zero value, non-nil error)
  | nilObj              -- (nil, nil): neither an object nor an error
  | panic (site : Nat)  -- the goroutine panics (nil pointer dereference) at deref site `fn*100+field`
  deriving Repr, DecidableEq

/-! ### facts read from the source -/

/-- The dereference `*p.Field` in converter `fn` cannot fault: either it is no longer a
    dereference (nil-safe getter) or a `!= nil` test dominates it. -/
def siteSafe (fn field : Nat) : Bool :=
  Generated.C09.derefSites.all (fun s => !(s.fn == fn && s.field == field) || s.guarded)

def derefNat (fn field : Nat) : Option Nat → Outcome Nat
  | some v => .ok v
  | none => if siteSafe fn field then .ok 0 else .panic (fn * 100 + field)

def derefStr (fn field : Nat) : Option Bytes → Outcome Bytes
  | some v => .ok v
  | none => if siteSafe fn field then .ok [] else .panic (fn * 100 + field)

/-! ### in-memory values -/

structure Tx where
  source : Bytes
  target : Bytes
  type : Nat                 -- int32 bit pattern
  time : Bytes
  data : Bytes
  extraData : Bytes
  extraDataType : Nat        -- int32 bit pattern
  subTx : Bytes              -- `json.Marshal(SubTransactions)` ("null" for nil)
  subHash : Bytes            -- 32 bytes
  hash : Bytes               -- 32 bytes
  sign : Option Bytes        -- `*common.Sign` as its 65 bytes r‖s‖recid
  nonce : Nat
  requestId : Nat
  socketRequestId : Bytes
  chainId : Bytes
  deriving Repr, DecidableEq, Inhabited

structure Header where
  hash : Bytes
  height : Nat
  preHash : Bytes
  preTime : GoTime
  proveValue : Option Int
  totalQN : Nat
  curTime : GoTime
  castor : Option Bytes
  groupId : Option Bytes
  signature : Option Bytes
  nonce : Nat
  requestIds : ReqIds
  transactions : Option (List (Bytes × Bytes))
  txTree : Bytes
  receiptTree : Bytes
  stateTree : Bytes
  extraData : Option Bytes
  random : Option Bytes
  evictedTxs : Option (List Bytes)
  deriving Repr, DecidableEq, Inhabited

structure Block where
  header : Option Header     -- `*BlockHeader`, nil possible (PbToBlock keeps a nil header)
  txs : List Tx
  deriving Repr, DecidableEq, Inhabited

structure GroupHeader where
  hash : Bytes
  parent : Option Bytes
  preGroup : Option Bytes
  createBlockHash : Option Bytes
  beginTime : GoTime
  memberRoot : Bytes
  createHeight : Nat
  readyHeight : Nat
  workHeight : Nat
  dismissHeight : Nat
  extends_ : Bytes
  deriving Repr, DecidableEq, Inhabited

structure Group where
  header : GroupHeader
  id : Option Bytes
  pubKey : Option Bytes
  signature : Option Bytes
  members : List Bytes
  groupHeight : Nat
  deriving Repr, DecidableEq, Inhabited

structure Member where
  id : Option Bytes
  pubKey : Option Bytes
  deriving Repr, DecidableEq, Inhabited

/-- `common.BytesToHash`: crop from the left, left-pad with zeros, always 32 bytes. -/
def bytesToHash (b : Bytes) : Bytes :=
  if b.length > 32 then b.drop (b.length - 32) else List.replicate (32 - b.length) 0 ++ b

def optHash (o : Option Bytes) : Bytes := bytesToHash (o.getD [])

/-! ### value → protobuf struct -/

def nonEmpty (b : Bytes) : Option Bytes := if b = [] then none else some b

def txToPb (t : Tx) : PbTx :=
  { data := nonEmpty t.data, nonce := some t.nonce, source := nonEmpty t.source, target := nonEmpty t.target,
    type := some t.type, hash := some t.hash, extraData := some t.extraData,
    extraDataType := some t.extraDataType, sign := t.sign, time := some t.time,
    requestId := some t.requestId, socketRequestId := none, subTransactions := some t.subTx,
    subHash := some t.subHash, chainId := some t.chainId }

/-- `BlockHeaderToPb`; `none` = returns nil because a time does not marshal. -/
def headerToPb (h : Header) : Option PbHeader :=
  match timeToBin h.preTime with
  | none => none
  | some pt =>
    match timeToBin h.curTime with
    | none => none
    | some ct =>
      some { hash := some h.hash, height := some h.height, preHash := some h.preHash, preTime := some pt,
             proveValue := h.proveValue.map (fun v => natToBE v.natAbs), totalQN := some h.totalQN,
             curTime := some ct, castor := h.castor, groupId := h.groupId, signature := h.signature,
             nonce := some h.nonce,
             transactions := (h.transactions.getD []).map (fun p => ⟨some p.1, some p.2⟩),
             txTree := some h.txTree, receiptTree := some h.receiptTree, stateTree := some h.stateTree,
             extraData := h.extraData, random := h.random, proveRoot := none,
             evictedTxs := some (h.evictedTxs.getD []), requestIds := some (encReqIds h.requestIds) }

def groupHeaderToPb (g : GroupHeader) : PbGroupHeader :=
  { hash := some g.hash, parent := g.parent, preGroup := g.preGroup, createBlockHash := g.createBlockHash,
    beginTime := timeToBin g.beginTime, memberRoot := some g.memberRoot,
    createHeight := some g.createHeight, extends_ := some g.extends_ }

def groupToPb (g : Group) : PbGroup :=
  { header := some (groupHeaderToPb g.header), id := g.id, pubKey := g.pubKey, signature := g.signature,
    members := g.members, groupHeight := some g.groupHeight }

/-! ### protobuf struct → value -/

/-- `json.Unmarshal(raw, &subTransactions)` (error ignored) seen through `json.Marshal`: absent, empty
    and `null` give a nil slice; bytes in the modelled `[]UserData` class are decoded and re-rendered
    (sorted maps, omitted empty fields, strings coerced to valid UTF-8); other bytes are left as they
    are (the driver answers `unmodelled` for them). -/
def normSubTx (o : Option Bytes) : Bytes :=
  match o with
  | none => jsonNull
  | some raw =>
    if raw = [] then jsonNull
    else match parseSubTx raw with
      | some l => encSubTx l
      | none => raw

def pbToTx (p : PbTx) : Outcome Tx :=
  match derefStr 1 1 p.data with
  | .ok data =>
    match derefNat 1 2 p.nonce with
    | .ok nonce =>
      match derefNat 1 11 p.requestId with
      | .ok requestId =>
        match derefStr 1 4 p.target with
        | .ok target =>
          match derefNat 1 8 p.extraDataType with
          | .ok edt =>
            match derefNat 1 5 p.type with
            | .ok ty =>
              match derefStr 1 10 p.time with
              | .ok time =>
                match derefStr 1 12 p.socketRequestId with
                | .ok sock =>
                  match derefStr 1 15 p.chainId with
                  | .ok chainId =>
                    .ok { source := p.source.getD [], target := target, type := ty, time := time, data := data,
                          extraData := p.extraData.getD [], extraDataType := edt,
                          subTx := normSubTx p.subTransactions, subHash := optHash p.subHash,
                          hash := optHash p.hash,
                          sign := (match p.sign with
                                   | some b => if b.length = 65 then some b else none
                                   | none => none),
                          nonce := nonce, requestId := requestId, socketRequestId := sock, chainId := chainId }
                  | .err => .err | .nilObj => .nilObj | .panic s => .panic s
                | .err => .err | .nilObj => .nilObj | .panic s => .panic s
              | .err => .err | .nilObj => .nilObj | .panic s => .panic s
            | .err => .err | .nilObj => .nilObj | .panic s => .panic s
          | .err => .err | .nilObj => .nilObj | .panic s => .panic s
        | .err => .err | .nilObj => .nilObj | .panic s => .panic s
      | .err => .err | .nilObj => .nilObj | .panic s => .panic s
    | .err => .err | .nilObj => .nilObj | .panic s => .panic s
  | .err => .err | .nilObj => .nilObj | .panic s => .panic s

def pbToTxs : List PbTx → Outcome (List Tx)
  | [] => .ok []
  | p :: ps =>
    match pbToTx p with
    | .ok t =>
      (match pbToTxs ps with
       | .ok ts => .ok (t :: ts)
       | .err => .err | .nilObj => .nilObj | .panic s => .panic s)
    | .err => .err | .nilObj => .nilObj | .panic s => .panic s

def pbToHeader (p : PbHeader) : Outcome Header :=
  match binToTime (p.preTime.getD []) with
  | none => .nilObj
  | some pt =>
    match binToTime (p.curTime.getD []) with
    | none => .nilObj
    | some ct =>
      match derefNat 2 2 p.height with
      | .ok height =>
        match derefNat 2 11 p.nonce with
        | .ok nonce =>
          match derefNat 2 6 p.totalQN with
          | .ok totalQN =>
            .ok { hash := optHash p.hash, height := height, preHash := optHash p.preHash, preTime := pt,
                  proveValue := p.proveValue.map (fun b => (beToNat b : Int)), totalQN := totalQN, curTime := ct,
                  castor := p.castor, groupId := p.groupId, signature := p.signature, nonce := nonce,
                  requestIds := (match p.requestIds with
                                 | none => .nil
                                 | some raw => decReqIds raw),
                  transactions := some (p.transactions.map (fun t => (optHash t.hash, optHash t.subHash))),
                  txTree := optHash p.txTree, receiptTree := optHash p.receiptTree,
                  stateTree := optHash p.stateTree, extraData := p.extraData, random := p.random,
                  evictedTxs := some ((p.evictedTxs.getD []).map bytesToHash) }
          | .err => .err | .nilObj => .nilObj | .panic s => .panic s
        | .err => .err | .nilObj => .nilObj | .panic s => .panic s
      | .err => .err | .nilObj => .nilObj | .panic s => .panic s

def pbToGroupHeader (o : Option PbGroupHeader) : Outcome GroupHeader :=
  match o with
  | none => if Generated.C09.nilCheckedParams.contains 3 then .nilObj else .panic 300
  | some g =>
    match derefNat 3 7 g.createHeight with
    | .err => .err | .nilObj => .nilObj | .panic s => .panic s
    | .ok ch =>
      match derefStr 3 8 g.extends_ with
      | .ok ext =>
        .ok { hash := optHash g.hash, parent := g.parent, preGroup := g.preGroup,
              createBlockHash := g.createBlockHash,
              beginTime := (binToTime (g.beginTime.getD [])).getD zeroTime,
              memberRoot := optHash g.memberRoot, createHeight := ch, readyHeight := 0, workHeight := 0,
              dismissHeight := 0, extends_ := ext }
      | .err => .err | .nilObj => .nilObj | .panic s => .panic s

def pbToGroup (p : PbGroup) : Outcome Group :=
  match pbToGroupHeader p.header with
  | .ok h =>
    (match derefNat 4 6 p.groupHeight with
     | .ok gh => .ok { header := h, id := p.id, pubKey := p.pubKey, signature := p.signature,
                       members := p.members, groupHeight := gh }
     | .err => .err | .nilObj => .nilObj | .panic s => .panic s)
  | .err => .err | .nilObj => .nilObj | .panic s => .panic s

/-- `PbToBlock`: a header whose times do not parse stays nil inside the block. -/
def pbToBlock (p : PbBlock) : Outcome Block :=
  match p.header with
  | none => .ok ⟨none, []⟩     -- PbToBlockHeader(nil) = nil; unreachable after Unmarshal (Header is required)
  | some ph =>
    match pbToHeader ph with
    | .ok h =>
      (match pbToTxs p.transactions with
       | .ok ts => .ok ⟨some h, ts⟩
       | .err => .err | .nilObj => .nilObj | .panic s => .panic s)
    | .nilObj =>
      (match pbToTxs p.transactions with
       | .ok ts => .ok ⟨none, ts⟩
       | .err => .err | .nilObj => .nilObj | .panic s => .panic s)
    | .err => .err
    | .panic s => .panic s

/-! ### MarshalX / UnMarshalX -/

def marshalTx (t : Tx) : Bytes := encTx (txToPb t)
def marshalTxs (ts : List Tx) : Bytes := encTxSlice (ts.map txToPb)

/-- `MarshalBlockHeader`; `none` = `(nil, nil)`. -/
def marshalHeader (h : Header) : Option Bytes := (headerToPb h).map encHeader

def marshalGroup (g : Group) : Bytes := encGroup (groupToPb g)

/-- `MarshalBlock`. `panic`: nil header (BlockHeaderToPb dereferences it); `err`: the header's
    times do not marshal, so the required `Header` field stays nil and proto.Marshal reports it. -/
def marshalBlock (b : Block) : Outcome Bytes :=
  match b.header with
  | none => .panic 500
  | some h =>
    match headerToPb h with
    | none => .err
    | some ph => .ok (encBlock ⟨some ph, b.txs.map txToPb⟩)

def unmarshalTx (bs : Bytes) : Outcome Tx :=
  match decTx bs with
  | none => .err
  | some p => pbToTx p

def unmarshalTxs (bs : Bytes) : Outcome (List Tx) :=
  match decTxSlice bs with
  | none => .err
  | some ps => pbToTxs ps

def unmarshalHeader (bs : Bytes) : Outcome Header :=
  match decHeader bs with
  | none => .err
  | some p =>
    match pbToHeader p with
    | .nilObj => if Generated.C09.headerNilIsError then .err else .nilObj
    | o => o

def unmarshalBlock (bs : Bytes) : Outcome Block :=
  match decBlock bs with
  | none => .err
  | some p =>
    match pbToBlock p with
    | .ok b => if b.header.isNone && Generated.C09.blockNilHeaderIsError then .err else .ok b
    | o => o

def unmarshalGroup (bs : Bytes) : Outcome Group :=
  match decGroup bs with
  | none => .err
  | some p => pbToGroup p

/-- `PbToGroups`: element-wise `PbToGroup`. -/
def pbToGroups : List PbGroup → Outcome (List Group)
  | [] => .ok []
  | p :: ps =>
    match pbToGroup p with
    | .ok g =>
      (match pbToGroups ps with
       | .ok gs => .ok (g :: gs)
       | .err => .err | .nilObj => .nilObj | .panic s => .panic s)
    | .err => .err | .nilObj => .nilObj | .panic s => .panic s

/-- `proto.Unmarshal` into a `GroupSlice`, then `PbToGroups`. -/
def unmarshalGroups (bs : Bytes) : Outcome (List Group) :=
  match decGroupSlice bs with
  | none => .err
  | some ps => pbToGroups ps

def memberToPb (m : Member) : PbMember := ⟨m.id, m.pubKey⟩
def pbToMember (p : PbMember) : Member := ⟨p.id, p.pubKey⟩

/-- `MarshalMember`: both fields are `required`; proto.Marshal reports a nil one as an error. -/
def marshalMember (m : Member) : Outcome Bytes :=
  if m.id.isNone || m.pubKey.isNone then .err else .ok (encMember (memberToPb m))

def unmarshalMember (bs : Bytes) : Outcome Member :=
  match decMember bs with
  | none => .err
  | some p => .ok (pbToMember p)

/-! ### identifying hashes -/

def i32Dec (v : Nat) : Bytes := if v < 2147483648 then decNat v else 45 :: decNat (4294967296 - v)

/-- input of `Transaction.GenHash`. -/
def txHashInput (t : Tx) : Bytes :=
  t.data ++ decNat t.nonce ++ t.source ++ t.target ++ i32Dec t.type ++ t.time ++ t.extraData ++ t.chainId

def jsonField (name : String) (v : Bytes) : Bytes := quote (ascii name) ++ [58] ++ v

/-- `json.Marshal(header projection)` of `BlockHeader.GenHash`; `none` = json.Marshal fails
    (a time is not RFC 3339 representable) and GenHash hashes the empty string;
    the outer `none`… see `headerHashInput`. -/
def headerJson (h : Header) : Option Bytes :=
  match timeRFC3339 h.preTime with
  | none => none
  | some pt =>
    match timeRFC3339 h.curTime with
    | none => none
    | some ct =>
      some (([123] : Bytes) ++ commaSep [
        jsonField "Height" (decNat h.height),
        jsonField "PreHash" (jsonHash h.preHash),
        jsonField "PreTime" (quote pt),
        jsonField "ProveValue" (match h.proveValue with | none => jsonNull | some v => decInt v),
        jsonField "TotalQN" (decNat h.totalQN),
        jsonField "CurTime" (quote ct),
        jsonField "Castor" (jsonBytes h.castor),
        jsonField "GroupId" jsonNull,
        jsonField "Nonce" (decNat h.nonce),
        jsonField "RequestId" (encReqIds h.requestIds),
        jsonField "Transactions" (match h.transactions with
          | none => jsonNull
          | some l => jsonArr (l.map (fun p => jsonArr [jsonHash p.1, jsonHash p.2]))),
        jsonField "TxTree" (jsonHash h.txTree),
        jsonField "ReceiptTree" (jsonHash h.receiptTree),
        jsonField "StateTree" (jsonHash h.stateTree),
        jsonField "ExtraData" (jsonBytes h.extraData),
        jsonField "ProveRoot" (jsonHash (List.replicate 32 0)),
        jsonField "EvictedTxs" (match h.evictedTxs with
          | none => jsonNull
          | some l => jsonArr (l.map jsonHash))] ++ ([125] : Bytes))

def headerHashInput (h : Header) : Bytes := (headerJson h).getD []

def groupHeaderHashInput (g : GroupHeader) : Bytes :=
  g.parent.getD [] ++ g.preGroup.getD [] ++ g.createBlockHash.getD [] ++ g.memberRoot ++
  beFixed 8 g.createHeight ++ g.extends_

def txGenHash (t : Tx) : Bytes := WireSha.sha256 (txHashInput t)
def headerGenHash (h : Header) : Bytes := WireSha.sha256 (headerHashInput h)
def groupHeaderGenHash (g : GroupHeader) : Bytes := WireSha.sha256 (groupHeaderHashInput g)

end Rangers.Wire
