import Rangers.Model.Bls14G1
import Rangers.Model.Bls14Sha256
/-!
C14 model, part 4: `hashToG1(m)` end to end — SHA-256, reduction mod p, try-and-increment.
-/
namespace Rangers.Model.Bls14
open Rangers

/-- `hashToG1(m)` = `G1.HashToPoint([]byte(m))`; `none` = fuel exhausted (512 consecutive
    non-squares, reported by the driver, never defaulted). -/
def hashToG1 (msg : Bytes) : Option Pt := hashToPoint (Sha.sha256 msg)

end Rangers.Model.Bls14
