import Rangers.Model.RLP
/-!
# RLP — the encoder's two-phase buffer (`encbuf` of encode.go), core Lean only

`encbuf.str` collects all string data, `encbuf.lheads` one `listhead{offset,size}` per list in the
order the lists were opened, `lhsize` the total size of all list headers written so far.
`list()` appends a head whose `size` field temporarily holds `lhsize`; `listEnd` turns it into the
payload size `size() - offset - lh.size` and adds the header length to `lhsize`; `toBytes`
interleaves string data and headers.  `Props/C08Enc.lean` proves the result equals `encode`.
-/
namespace Rangers.RLP
open Rangers

structure EncBuf where
  str : Bytes
  lheads : List (Nat × Nat)   -- (offset, size), in opening order
  lhsize : Nat
  deriving Repr

def EncBuf.empty : EncBuf := { str := [], lheads := [], lhsize := 0 }

/-- `w.size()` -/
def EncBuf.size (w : EncBuf) : Nat := w.str.length + w.lhsize

/-- `w.encodeString(b)` -/
def EncBuf.encodeString (w : EncBuf) (b : Bytes) : EncBuf := { w with str := w.str ++ encString b }

/-- `w.list()`: returns the index of the new head -/
def EncBuf.list (w : EncBuf) : EncBuf × Nat :=
  ({ w with lheads := w.lheads ++ [(w.str.length, w.lhsize)] }, w.lheads.length)

/-- `w.listEnd(lh)` -/
def EncBuf.listEnd (w : EncBuf) (idx : Nat) : EncBuf :=
  match w.lheads[idx]? with
  | none => w
  | some (off, sz0) =>
    let sz := w.size - off - sz0
    { w with lheads := w.lheads.set idx (off, sz),
             lhsize := w.lhsize + (if sz < 56 then 1 else 1 + intsize sz) }

mutual
  /-- the writer for a generic item (`writeBytes` / `makeSliceWriter` on `[]interface{}`) -/
  def wItem : Item → EncBuf → EncBuf
    | .str b, w => w.encodeString b
    | .list xs, w =>
      let (w1, idx) := w.list
      (wItems xs w1).listEnd idx
  def wItems : List Item → EncBuf → EncBuf
    | [], w => w
    | x :: xs, w => wItems xs (wItem x w)
end

/-- the loop of `toBytes`: string data before each header, the header, …, the remaining string data -/
def renderFrom : List (Nat × Nat) → Bytes → Nat → Bytes
  | [], str, pos => str.drop pos
  | (off, sz) :: hs, str, pos =>
    (str.drop pos).take (off - pos) ++ encHead 0xc0 0xf7 sz ++ renderFrom hs str off

/-- `w.toBytes()` -/
def EncBuf.toBytes (w : EncBuf) : Bytes := renderFrom w.lheads w.str 0

/-- `EncodeToBytes(item)` through the buffer -/
def encodeViaBuf (it : Item) : Bytes := (wItem it EncBuf.empty).toBytes

end Rangers.RLP
