import Rangers.Basic.Hex
import Rangers.Model.VrfSha512
/-!
Value-level model of `src/common/ed25519/edwards25519` as used by the VRF:
field elements are naturals mod p = 2^255-19 (the ref10 limb representation is
NOT modelled: `FeMul`, `FeSquare`, `FeInvert`, … are assumed to compute the
field operation they name; that assumption is sampled by the correspondence
run). Group elements keep the extended coordinates (X,Y,Z,T) and the formulas
are the ones the Go code uses (`geAdd`, `GeSub`, `ProjectiveGroupElement.Double`,
`FromBytes`, `ToBytes`), so that degenerate inputs (small-order points, x = 0,
non-canonical y) go through the same arithmetic as in the code.

`GeScalarMult` is the code's sliding window (`slide` + `GeDoubleScalarMultVartime`),
transcribed exactly, so that even an off-curve `pk` (decoding flag ignored by
`ECVRFVerify`) goes through the same arithmetic. `GeScalarMultBase` (signed radix-16
table of multiples of B) is double-and-add here: B is on the curve, only the group
element matters (group law: see Props/C16Curve).
-/
namespace Rangers.Model.VrfCurve
open Rangers

def p : Nat := 2 ^ 255 - 19
def dConst : Nat := 37095705934669439343138083508754565189542113879843219016388785533085940283555
def d2Const : Nat := (2 * dConst) % p
def sqrtM1 : Nat := 19681161376707505956807079304988542015446066515923890162744021073123829784752
def montA : Nat := 486662
/-- Order of the prime-order subgroup (the scalar modulus of `ScReduce`/`ScMulAdd`). -/
def L : Nat := 2 ^ 252 + 27742317777372353535851937790883648493

@[inline] def fadd (a b : Nat) : Nat := (a + b) % p
@[inline] def fsub (a b : Nat) : Nat := (a + (p - b % p)) % p
@[inline] def fmul (a b : Nat) : Nat := (a * b) % p
@[inline] def fneg (a : Nat) : Nat := (p - a % p) % p
@[inline] def fsq (a : Nat) : Nat := (a * a) % p

/-- Square-and-multiply, structural on the bit count. -/
def fpowAux : Nat → Nat → Nat → Nat → Nat
  | 0, _, _, acc => acc
  | fuel + 1, b, e, acc =>
    if e = 0 then acc
    else fpowAux fuel (fsq b) (e / 2) (if e % 2 = 1 then fmul acc b else acc)

def fpow (b e : Nat) : Nat := fpowAux 256 (b % p) e 1

/-- `FeInvert`: z^(p-2); maps 0 to 0. -/
def finv (a : Nat) : Nat := fpow a (p - 2)
/-- `fePow22523`: z^((p-5)/8). -/
def fpow22523 (a : Nat) : Nat := fpow a ((p - 5) / 8)
/-- `chi25519`: z^((p-1)/2). -/
def fchi (a : Nat) : Nat := fpow a ((p - 1) / 2)

/-- Little-endian bytes to Nat. -/
def leToNat (bs : Bytes) : Nat := bs.foldr (fun b acc => acc * 256 + b.toNat) 0

/-- `n` little-endian bytes of a Nat (truncating). -/
def natToLE : Nat → Nat → Bytes
  | 0, _ => []
  | n + 1, v => UInt8.ofNat (v % 256) :: natToLE n (v / 256)

/-- Force a byte string to exactly `n` bytes the way `copy(dst[:], src)` into a
    zeroed `[n]byte` does: truncate or right-pad with zeros. -/
def fit (n : Nat) (bs : Bytes) : Bytes := (bs ++ List.replicate (n - bs.length) 0).take n

/-- `FeFromBytes`: 255 low bits, bit 255 ignored; value may exceed p (not reduced). -/
def feFromBytes (s : Bytes) : Nat := leToNat (fit 32 s) % 2 ^ 255

/-- `FeToBytes`: canonical 32-byte little-endian encoding. -/
def feToBytes (a : Nat) : Bytes := natToLE 32 (a % p)

def feIsNegative (a : Nat) : Nat := (a % p) % 2

structure Point where
  X : Nat
  Y : Nat
  Z : Nat
  T : Nat
deriving Repr, DecidableEq

def Point.zero : Point := ⟨0, 1, 1, 0⟩

instance : Inhabited Point := ⟨Point.zero⟩

/-- Completed (P1xP1) element as produced by add/sub/double. -/
structure Completed where
  X : Nat
  Y : Nat
  Z : Nat
  T : Nat

def Completed.toExtended (r : Completed) : Point :=
  ⟨fmul r.X r.T, fmul r.Y r.Z, fmul r.Z r.T, fmul r.X r.Y⟩

/-- `geAdd` with `q.ToCached()` inlined. -/
def addC (a q : Point) : Completed :=
  let ypx := fadd q.Y q.X
  let ymx := fsub q.Y q.X
  let t2d := fmul q.T d2Const
  let rx := fadd a.Y a.X
  let ry := fsub a.Y a.X
  let rz := fmul rx ypx
  let ry := fmul ry ymx
  let rt := fmul t2d a.T
  let t0 := fmul a.Z q.Z
  let t0 := fadd t0 t0
  ⟨fsub rz ry, fadd rz ry, fadd t0 rt, fsub t0 rt⟩

/-- `GeSub` with `q.ToCached()` inlined. -/
def subC (a q : Point) : Completed :=
  let ypx := fadd q.Y q.X
  let ymx := fsub q.Y q.X
  let t2d := fmul q.T d2Const
  let rx := fadd a.Y a.X
  let ry := fsub a.Y a.X
  let rz := fmul rx ymx
  let ry := fmul ry ypx
  let rt := fmul t2d a.T
  let t0 := fmul a.Z q.Z
  let t0 := fadd t0 t0
  ⟨fsub rz ry, fadd rz ry, fsub t0 rt, fadd t0 rt⟩

/-- `ProjectiveGroupElement.Double` (uses X,Y,Z only). -/
def dblC (a : Point) : Completed :=
  let xx := fsq a.X
  let yy := fsq a.Y
  let b2 := fmul 2 (fsq a.Z)
  let aa := fsq (fadd a.X a.Y)
  let ry := fadd yy xx
  let rz := fsub yy xx
  ⟨fsub aa ry, ry, rz, fsub b2 rz⟩

def add (a b : Point) : Point := (addC a b).toExtended
def sub (a b : Point) : Point := (subC a b).toExtended
def dbl (a : Point) : Point := (dblC a).toExtended

/-- `ToBytes` (same code for Extended and Projective elements). -/
def encode (a : Point) : Bytes :=
  let recip := finv a.Z
  let x := fmul a.X recip
  let y := fmul a.Y recip
  let yb := natToLE 32 (y + 2 ^ 255 * feIsNegative x)
  yb

/-- `ExtendedGroupElement.FromBytes`: the point it leaves in the receiver and
    the flag it returns (several callers ignore the flag). -/
def fromBytes (s : Bytes) : Point × Bool :=
  let s := fit 32 s
  let y := feFromBytes s
  let sign := leToNat s / 2 ^ 255
  let u := fsq y
  let v := fmul u dConst
  let u := fsub u 1
  let v := fadd v 1
  let v3 := fmul (fsq v) v
  let x := fmul (fmul (fsq v3) v) u
  let x := fpow22523 x
  let x := fmul (fmul x v3) u
  let vxx := fmul (fsq x) v
  let hasM := fsub vxx u == 0
  let hasP := fadd vxx u == 0
  let x := if hasM then x else fmul x sqrtM1
  let x := if feIsNegative x != sign then fneg x else x
  (⟨x, y % p, 1, fmul x y⟩, hasM || hasP)

/-- `isCanonical` as written: byte-typed arithmetic. `(c - 1) >> 8` and
    `(0xed - 1 - s[0]) >> 8` are shifts of 8-bit values by 8, i.e. always 0,
    so the function returns 1 for every input. Modelled operation by operation
    on `UInt8`, not simplified. -/
def isCanonical (s : Bytes) : UInt8 :=
  let s := fit 32 s
  let c0 : UInt8 := (s.getD 31 0 &&& 0x7f) ^^^ 0x7f
  let c1 : UInt8 := (List.range 30).foldl (fun c i => c ||| (s.getD (30 - i) 0 ^^^ 0xff)) c0
  let c : UInt8 := UInt8.ofNat (((c1 - 1).toNat >>> 8) % 256)
  let dd : UInt8 := UInt8.ofNat (((0xed - 1 - s.getD 0 0 : UInt8).toNat >>> 8) % 256)
  1 - (c &&& dd &&& 1)

/-- `stringToPoint`. -/
def stringToPoint (s : Bytes) : Option Point :=
  let r := fromBytes s
  if isCanonical s == 0 || !r.2 then none else some r.1

/-- Base point: y = 4/5, x even. -/
def basePoint : Point :=
  (fromBytes (natToLE 32 46316835694926478169428394003475163141307993866256225615783033603165251855960)).1

/-- k·P, double-and-add from the most significant bit (structural on the bit count).
    Used for `GeScalarMultBase` (the code uses a signed radix-16 table of multiples of B;
    B is on the curve, so only the group element matters). -/
def daWith {P : Type} (zero : P) (dbl : P → P) (add : P → P → P) (a : P) : Nat → Nat → P
  | 0, _ => zero
  | n + 1, k =>
    let r := dbl (daWith zero dbl add a n (k / 2))
    if k % 2 = 1 then add r a else r

def smulAux (a : Point) (n k : Nat) : Point := daWith Point.zero dbl add a n k

/-! #### `slide` + `GeDoubleScalarMultVartime` (sliding window, exactly as in the code) -/

/-- carry loop of `slide`: from position k upwards turn 1s into 0s until a 0 is found and set to 1
    (runs off the end of the array silently, like the code). -/
def slideCarry : Nat → Nat → Array Int → Array Int
  | 0, _, r => r
  | fuel + 1, k, r =>
    if k ≥ r.size then r
    else if r[k]! = 0 then r.set! k 1
    else slideCarry fuel (k + 1) (r.set! k 0)

/-- inner loop of `slide` for position i, b = 1..6 -/
def slideInner (i : Nat) : Nat → Nat → Array Int → Array Int
  | 0, _, r => r
  | fuel + 1, b, r =>
    if b > 6 ∨ i + b ≥ r.size then r
    else if r[i + b]! = 0 then slideInner i fuel (b + 1) r
    else
      let sh : Int := r[i + b]! * 2 ^ b
      if r[i]! + sh ≤ 15 then
        slideInner i fuel (b + 1) ((r.set! i (r[i]! + sh)).set! (i + b) 0)
      else if r[i]! - sh ≥ -15 then
        slideInner i fuel (b + 1) (slideCarry r.size (i + b) (r.set! i (r[i]! - sh)))
      else r

def slideOuter : Nat → Nat → Array Int → Array Int
  | 0, _, r => r
  | fuel + 1, i, r =>
    if i ≥ r.size then r
    else slideOuter fuel (i + 1) (if r[i]! ≠ 0 then slideInner i 7 1 r else r)

/-- `slide`: signed sliding-window recoding of a 256-bit scalar (digits odd, |d| ≤ 15, or 0),
    least significant first. -/
def slide (k : Nat) : List Int :=
  let bits : Array Int := (Array.range 256).map (fun i => ((k / 2 ^ i % 2 : Nat) : Int))
  (slideOuter 256 0 bits).toList

/-- The main loop of `GeDoubleScalarMultVartime` for one scalar, over any point operations:
    digits most significant first, leading zeros skipped, `tbl j` = (2j+1)·A. -/
def windowLoop {P : Type} (dbl : P → P) (add sub : P → P → P) (tbl : Nat → P) : List Int → P → P
  | [], acc => acc
  | d :: ds, acc =>
    let t := dbl acc
    let t := if d > 0 then add t (tbl (d.toNat / 2))
             else if d < 0 then sub t (tbl ((-d).toNat / 2)) else t
    windowLoop dbl add sub tbl ds t

/-- table A, 3A, …, 15A built as in the code: A2 = 2A, Ai[j+1] = A2 + Ai[j] -/
def oddTable {P : Type} (dbl : P → P) (add : P → P → P) (a : P) : Nat → P
  | 0 => a
  | j + 1 => add (dbl a) (oddTable dbl add a j)

def windowMulWith {P : Type} (zero : P) (dbl : P → P) (add sub : P → P → P) (digitsLSB : List Int) (a : P) : P :=
  let ds := digitsLSB.reverse.dropWhile (fun d => d == 0)
  windowLoop dbl add sub (oddTable dbl add a) ds zero

/-- a·A by the sliding window, on the model's coordinates (X, Y, Z as in the code). -/
def slideMul (k : Nat) (a : Point) : Point := windowMulWith Point.zero dbl add sub (slide k) a

/-- `GeScalarMult`: sliding window, then the result goes through `ToBytes`/`FromBytes`
    (flag ignored) as in the code. Exact also for an off-curve `a`. -/
def smul (k : Nat) (a : Point) : Point := (fromBytes (encode (slideMul k a))).1

/-- the same with double-and-add (agrees with `smul` on curve points; kept for the theorems) -/
def smulDA (k : Nat) (a : Point) : Point := (fromBytes (encode (smulAux a 256 k))).1

/-! #### `GeScalarMultBase`: signed radix-16 recoding + table of multiples of B, as in the code -/

/-- the 4-bit digits of a scalar, least significant first (`e[2i] = a[i] & 15`, `e[2i+1] = a[i] >> 4`) -/
def nibblesAux : Nat → Nat → List Int
  | 0, _ => []
  | n + 1, k => ((k % 16 : Nat) : Int) :: nibblesAux n (k / 16)

/-- the carry pass: `e[i] += carry; carry = (e[i] + 8) >> 4; e[i] -= carry << 4` for i < 63, then
    `e[63] += carry` -/
def recodeAux : List Int → Int → List Int
  | [], _ => []
  | [e], c => [e + c]
  | e :: e' :: rest, c =>
    let v := e + c
    let c' := (v + 8) / 16
    (v - c' * 16) :: recodeAux (e' :: rest) c'

/-- the 64 signed digits (each in [−8, 8]) `GeScalarMultBase` works with -/
def signedRadix16 (k : Nat) : List Int := recodeAux (nibblesAux 64 k) 0

def evens : List Int → List Int
  | [] => []
  | [a] => [a]
  | a :: _ :: rest => a :: evens rest

def odds : List Int → List Int
  | [] => []
  | [_] => []
  | _ :: b :: rest => b :: odds rest

/-- one pass of `selectPoint` + `geMixedAdd` over the digits of one parity; `tbl pos d` = d·256^pos·B -/
def accumDigits {P : Type} (add : P → P → P) (tbl : Nat → Int → P) : Nat → List Int → P → P
  | _, [], acc => acc
  | pos, d :: ds, acc => accumDigits add tbl (pos + 1) ds (add acc (tbl pos d))

/-- `GeScalarMultBase` over any point operations: odd digits, four doublings, even digits. -/
def baseMulWith {P : Type} (zero : P) (dbl : P → P) (add : P → P → P) (tbl : Nat → Int → P) (e : List Int) : P :=
  let h := accumDigits add tbl 0 (odds e) zero
  let h := dbl (dbl (dbl (dbl h)))
  accumDigits add tbl 0 (evens e) h

/-- −(X, Y, Z, T) -/
def negPoint (q : Point) : Point := ⟨fneg q.X, q.Y, q.Z, fneg q.T⟩

/-- 256^pos · B for pos = 0..31 (the code has the multiples precomputed in `const.go: base`; here they are
    computed once from B) -/
def basePows : Array Point :=
  (List.range 31).foldl (fun (a : Array Point) _ =>
    let q := a.back!
    a.push (dbl (dbl (dbl (dbl (dbl (dbl (dbl (dbl q))))))))) #[basePoint]

def basePow (pos : Nat) : Point := basePows[pos]!

/-- `selectPoint(pos, d)`: |d|·256^pos·B, negated for d < 0, the neutral element for d = 0 -/
def baseTable (pos : Nat) (d : Int) : Point :=
  if d = 0 then Point.zero
  else
    let m := daWith Point.zero dbl add (basePow pos) 5 d.natAbs
    if d < 0 then negPoint m else m

/-- `GeScalarMultBase`. -/
def smulBase (k : Nat) : Point := baseMulWith Point.zero dbl add baseTable (signedRadix16 k)

/-- the same with double-and-add (kept for the theorems and the `smulb2` cross-check op) -/
def smulBaseDA (k : Nat) : Point := smulAux basePoint 256 k

/-- `ScReduce` / the reduction inside `ScMulAdd`. -/
def scReduce (v : Nat) : Nat := v % L

/-- Elligator 2 + cofactor clearing (`fromUniform`). -/
def fromUniform (r : Bytes) : Bytes :=
  let r := fit 32 r
  let xSign := leToNat r / 2 ^ 255
  let rr := feFromBytes r
  let rr2 := fadd (fmul 2 (fsq rr)) 1
  let rr2 := finv rr2
  let x := fneg (fmul montA rr2)
  let x2 := fsq x
  let x3 := fmul x x2
  let e := fadd (fmul x2 montA) (fadd x3 x)
  let e := fchi e
  let eb := feToBytes e
  let eIsMinus1 := (eb.getD 1 0).toNat % 2
  let x := if eIsMinus1 = 1 then fsub (fneg x) montA else x
  let yed := fmul (fsub x 1) (finv (fadd x 1))
  let s := natToLE 32 (yed % p + 2 ^ 255 * xSign)
  let p3 := (fromBytes s).1
  encode (dbl (dbl (dbl p3)))

def suite : Bytes := [0x04]

/-- `hashToCurve(m, pk)`. -/
def hashToCurve (m pk : Bytes) : Bytes :=
  let h := VrfSha512.sha512 (suite ++ [0x01] ++ pk ++ m)
  let r := h.take 32
  let r := r.take 31 ++ [r.getD 31 0 &&& 0x7f]
  fromUniform r

/-- `hashPoints`: first 16 bytes of SHA-512(04 02 ‖ enc p1 ‖ … ‖ enc p4). -/
def hashPoints (p1 p2 p3 p4 : Point) : Bytes :=
  (VrfSha512.sha512 (suite ++ [0x02] ++ encode p1 ++ encode p2 ++ encode p3 ++ encode p4)).take 16

/-- `expandSecret`: clamped scalar x and the nonce key. -/
def expandSecret (sk : Bytes) : Nat × Bytes :=
  let dg := VrfSha512.sha512 (sk.take 32)
  let b0 := dg.getD 0 0 &&& 248
  let b31 := (dg.getD 31 0 &&& 127) ||| 64
  let xb := [b0] ++ (dg.take 31).drop 1 ++ [b31]
  (leToNat xb, (dg.drop 32).take 32)

/-- `vrfNonceGeneration`. -/
def nonce (trunc h : Bytes) : Nat :=
  scReduce (leToNat (VrfSha512.sha512 (fit 32 trunc ++ fit 32 h)))

end Rangers.Model.VrfCurve
