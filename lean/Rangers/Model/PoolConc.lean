import Rangers.Model.Pool
/-!
# Small-step model of concurrent use of the pool (C17, concurrency clause)

Threads run pool operations at the granularity of lock acquire / release and the two halves every
mutating operation of `TxPool` consists of:

* `AddTransaction(t)`:  `s1` = the existence lookup (`isTransactionExisted`, result kept in a thread-local),
                        `s2` = push + `refreshGateNonce` unless found;
* `MarkExecuted(b)`:    `s1` = the receipt loop and the batch writes (executed records reach the store),
                        `s2` = evicted-cache update and removal of the hashes from the pending container.

A thread's program says where it takes `pool.lock`: `[acq, s1, s2, rel]` is the code after the fix
(`fix: serialise AddTransaction, MarkExecuted and UnMarkExecuted on a pool mutex`), `[s1, s2]` the code before
it, `[s1, acq, s2, rel]` the seeded regression C17-a (lookup in front of the lock). Nothing but the program
keeps a thread from touching the pool: `s1`/`s2` are always enabled, `acq` only when the lock is free.
Core Lean only.
-/
namespace Rangers.Pool.Conc
open Rangers Rangers.Pool

inductive Instr where
  | acq | rel | s1 | s2
  deriving DecidableEq, Repr

/-- A mutating pool operation split in two halves; the Boolean is the thread-local carried from the first
to the second (for `add`: "already known"). -/
structure AOp where
  s1 : Pool → Pool × Bool
  s2 : Pool → Bool → Pool

/-- The operation executed alone (what a sequential history does). -/
def AOp.run (o : AOp) (p : Pool) : Pool := o.s2 (o.s1 p).1 (o.s1 p).2

structure Thread where
  op : AOp
  code : List Instr
  loc : Bool := false

structure CState where
  pool : Pool
  lock : Option Nat
  threads : List Thread

def lockedProg : List Instr := [.acq, .s1, .s2, .rel]
def unlockedProg : List Instr := [.s1, .s2]
/-- seeded regression C17-a: the lookup runs before the lock is taken -/
def lookupFirstProg : List Instr := [.s1, .acq, .s2, .rel]

def initState (p0 : Pool) (ts : List (AOp × List Instr)) : CState :=
  { pool := p0, lock := none, threads := ts.map (fun x => { op := x.1, code := x.2 }) }

/-- One step of thread `i`; `none` when it has nothing left or waits for the lock. -/
def stepThread (st : CState) (i : Nat) : Option CState :=
  match st.threads[i]? with
  | none => none
  | some t =>
    match t.code with
    | [] => none
    | .acq :: c =>
      if st.lock = none then some { st with lock := some i, threads := st.threads.set i { t with code := c } } else none
    | .rel :: c => some { st with lock := none, threads := st.threads.set i { t with code := c } }
    | .s1 :: c =>
      some { st with pool := (t.op.s1 st.pool).1, threads := st.threads.set i { t with code := c, loc := (t.op.s1 st.pool).2 } }
    | .s2 :: c => some { st with pool := t.op.s2 st.pool t.loc, threads := st.threads.set i { t with code := c } }

/-- Run a schedule (which thread moves next). -/
def run (st : CState) : List Nat → Option CState
  | [] => some st
  | i :: is => match stepThread st i with
    | some st' => run st' is
    | none => none

def CState.finished (st : CState) : Prop := ∀ t ∈ st.threads, t.code = []

/-- `AddTransaction(t)` in two halves. -/
def addOp (t : Tx) : AOp where
  s1 p := (p, p.existed t.hash)
  s2 p found := if found then p else (p.push t).refreshGate t

/-- `MarkExecuted(receipts with sizes, txs, evicted)` in two halves (no crash). -/
def markOp (rs : List (Nat × Nat)) (txs : List Tx) (evicted : List Nat) : AOp where
  s1 p :=
    if rs = [] then (p, false)
    else
      let s1 := (markLoop txs none rs 0 [] p).1
      (if bsize s1.batch > 0 then s1.flush else s1, false)
  s2 p _ := (p.evictAll evicted).removeHashes (rs.map (·.1) ++ evicted)

end Rangers.Pool.Conc
