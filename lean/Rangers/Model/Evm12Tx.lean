import Rangers.Model.Evm12Frames
/-
C12 model, part 3: transactions executed back to back on one state object.

Transcribes the per-transaction part of `VMExecutor.Execute` (src/core/vmexecutor.go:75-168)
for contract transactions together with `contractExecutor.Execute`
(src/executor/contract_executor.go:102-201), without the gas-fee bookkeeping (C06's):

  if IsProposal013 { accountdb.Prepare(tx.Hash, {}, i) }
  snapshot := accountdb.Snapshot()
  [call tx, Proposal007: SetNonce(source, nonce+1)]  evm.Create / evm.Call
  if failed { RevertToSnapshot(snapshot) }
  [Proposal007, failed: SetNonce(source, nonce+1)]
  receipt.Logs = IsProposal013 ? accountdb.GetLogs(tx.Hash) : context["logs"] (= the returned logs)

`AccountDB.Prepare` (accountdb.go:153-158) assigns thash, bhash, txIndex and a fresh
access list -- and nothing else (the assigned field list is a generated fact).
-/
namespace Rangers.Model.Evm12

structure Cfg where
  /-- `common.IsProposal013()`: Prepare per transaction, receipts from `GetLogs` -/
  p013 : Bool := true
  /-- `common.IsProposal007()` -/
  p007 : Bool := true
  /-- `!IsProposal006() || IsProposal007()` -/
  createBumpsNonce : Bool := true
  isPrecompile : Addr → Bool := fun _ => false
  isMiner : Addr → Bool := fun _ => false

inductive TxKind where
  | call (target : Addr)
  | create
  deriving Repr, Inhabited

structure Tx where
  hash : Nat
  origin : Addr
  kind : TxKind
  value : Nat
  body : Frame
  deriving Repr, Inhabited

structure Receipt where
  failed : Bool
  /-- `receipt.Logs` -/
  logs : List Log
  /-- the `logs` value returned by `evm.Call/Create` (goes into the receipt's result JSON and,
      before Proposal013, into `receipt.Logs`) -/
  returned : List Log
  err : Option Err
  trace : List Event

/-- `AccountDB.Prepare(thash, bhash, ti)` -/
def prepare (w : World) (h i : Nat) : World :=
  { w with thash := h, txIndex := i, access := [] }

def Cfg.env (cfg : Cfg) (rv : World → World → World) (origin : Addr) : Env :=
  { origin := origin, rv := rv, createBumpsNonce := cfg.createBumpsNonce,
    isPrecompile := cfg.isPrecompile, isMiner := cfg.isMiner }

/-- `contractExecutor.Execute`: the outermost frame of the transaction, from the world `w0`
    the block loop snapshots -/
def txFrame (cfg : Cfg) (rv : World → World → World) (tx : Tx) (w0 : World) : Result :=
  let env := cfg.env rv tx.origin
  match tx.kind with
  | .create => createFrame env 0 false tx.origin false 0 tx.value tx.body w0
  | .call target =>
    let w1 := if cfg.p007 then w0.setNonce tx.origin (w0.getNonce tx.origin + 1) else w0
    callFrame env 0 false tx.origin .call target tx.value tx.body w1

/-- the block loop after `Execute`: `RevertToSnapshot(snapshot)` on failure, then (Proposal007,
    failed transaction) the source nonce bump -/
def txFinish (cfg : Cfg) (rv : World → World → World) (tx : Tx) (w0 : World) (r : Result) : World :=
  let w2 := if r.err.isSome then rv w0 r.world else r.world
  if cfg.p007 && r.err.isSome then w2.setNonce tx.origin (w2.getNonce tx.origin + 1) else w2

/-- one transaction of the block loop; `i` is its index among executed transactions -/
def execTx (cfg : Cfg) (rv : World → World → World) (i : Nat) (w : World) (tx : Tx) : World × Receipt :=
  let w0 := if cfg.p013 then prepare w tx.hash i else w
  let r := txFrame cfg rv tx w0
  let w3 := txFinish cfg rv tx w0 r
  (w3, { failed := r.err.isSome,
         logs := if cfg.p013 then w3.getLogs tx.hash else r.logs,
         returned := r.logs, err := r.err, trace := r.trace })

/-- a block: transactions executed back to back on one state object -/
def execBlock (cfg : Cfg) (rv : World → World → World) : Nat → World → List Tx → World × List Receipt
  | _, w, [] => (w, [])
  | i, w, tx :: txs =>
    let (w1, rc) := execTx cfg rv i w tx
    let (w2, rcs) := execBlock cfg rv (i + 1) w1 txs
    (w2, rc :: rcs)

end Rangers.Model.Evm12
