import Rangers.Basic.Hex
/-!
# RLP — pure layer (core Lean only)

Model of `src/storage/rlp/raw.go` (`readKind`, `readSize`, `Split`, `SplitString`,
`SplitList`, `CountValues`) and of the encoder's byte-level output
(`encode.go`: `putint`, `puthead`, `encodeString`, list headers), plus the generic
item tree (`interface{}` decoding seen as a function on byte slices).

All byte arithmetic is done on `Nat` (`b.toNat`), converted with `UInt8.ofNat` at the
boundary; every `uint64` quantity that occurs is < 2^64 by construction (a size is read
from at most 8 bytes), so `Nat` is exact.  Recursion is by fuel; running out of fuel is
an explicit `Err.fuel` result and `Props/C08.lean` proves it unreachable.
-/
namespace Rangers.RLP
open Rangers

/-- Error enum shared with the Go harness (`errName` in harness/cmd/c08/main.go). -/
inductive Err
  | eof            -- io.ErrUnexpectedEOF
  | ioeof          -- io.EOF (top-level readKind adjusts to it)
  | canonSize      -- ErrCanonSize
  | canonInt       -- ErrCanonInt
  | expectedString -- ErrExpectedString
  | expectedList   -- ErrExpectedList
  | elemTooLarge   -- ErrElemTooLarge
  | valueTooLarge  -- ErrValueTooLarge
  | moreThanOne    -- ErrMoreThanOneValue
  | eol            -- EOL
  | notInList      -- errNotInList
  | notAtEOL       -- errNotAtEOL
  | uintOverflow   -- errUintOverflow
  | badBool        -- "rlp: invalid boolean value"
  | tooFew         -- decodeError "too few elements" / "input list has too few elements"
  | strTooLong     -- decodeError "input string too long" (byte arrays)
  | strTooShort    -- decodeError "input string too short" (byte arrays)
  | negative       -- "rlp: cannot encode negative *big.Int"
  | badValue       -- driver-only: value text does not fit the type
  | fuel           -- model-only: recursion fuel exhausted (proved unreachable)
  deriving DecidableEq, Repr

def Err.name : Err → String
  | .eof => "eof" | .ioeof => "ioeof" | .canonSize => "canon-size" | .canonInt => "canon-int"
  | .expectedString => "expected-string" | .expectedList => "expected-list"
  | .elemTooLarge => "elem-too-large" | .valueTooLarge => "value-too-large"
  | .moreThanOne => "more-than-one" | .eol => "eol" | .notInList => "not-in-list"
  | .notAtEOL => "not-at-eol" | .uintOverflow => "uint-overflow" | .badBool => "bad-bool"
  | .tooFew => "too-few" | .strTooLong => "str-too-long" | .strTooShort => "str-too-short"
  | .negative => "negative" | .badValue => "bad-value" | .fuel => "fuel"

inductive Kind | byte | string | list
  deriving DecidableEq, Repr

def Kind.name : Kind → String
  | .byte => "byte" | .string => "string" | .list => "list"

/-! ## integers -/

/-- Big-endian value of a byte string (`binary.BigEndian`, `big.Int.SetBytes`, the shifts of `readSize`). -/
def beNat (bs : Bytes) : Nat := bs.foldl (fun a b => a * 256 + b.toNat) 0

/-- Minimal big-endian bytes of `n` with fuel (`[]` for 0). -/
def toBEf : Nat → Nat → Bytes
  | 0, _ => []
  | f + 1, n => if n = 0 then [] else toBEf f (n / 256) ++ [UInt8.ofNat (n % 256)]

/-- Minimal big-endian bytes: `big.Int.Bytes()`, and `putint` for `n ≠ 0`. Fuel `n` always suffices. -/
def toBE (n : Nat) : Bytes := toBEf n n

/-- `putint(b, i)`: the bytes written (Go writes one zero byte for `i = 0`). -/
def putint (n : Nat) : Bytes := if n = 0 then [0] else toBE n

/-- `intsize(i)`. -/
def intsize (n : Nat) : Nat := (putint n).length

/-- `headsize(size)`. -/
def headsize (size : Nat) : Nat := if size < 56 then 1 else 1 + intsize size

/-! ## encoder output -/

/-- `puthead(buf, smalltag, largetag, size)`: the header bytes. -/
def encHead (small large : Nat) (size : Nat) : Bytes :=
  if size < 56 then [UInt8.ofNat (small + size)]
  else UInt8.ofNat (large + (putint size).length) :: putint size

/-- `encbuf.encodeString` / `writeString`. -/
def encString (b : Bytes) : Bytes :=
  match b with
  | [x] => if x.toNat ≤ 0x7f then [x] else encHead 0x80 0xb7 1 ++ [x]
  | _ => encHead 0x80 0xb7 b.length ++ b

/-- A list whose concatenated element encodings are `payload`. -/
def encListPayload (payload : Bytes) : Bytes := encHead 0xc0 0xf7 payload.length ++ payload

/-- `writeUint`. -/
def encUint (n : Nat) : Bytes :=
  if n = 0 then [0x80] else if n < 128 then [UInt8.ofNat n] else UInt8.ofNat (0x80 + (putint n).length) :: putint n

/-- `writeBigInt` for a non-negative value. -/
def encBig (n : Nat) : Bytes := if n = 0 then [0x80] else encString (toBE n)

/-- Generic RLP item: what `DecodeBytes(b, &interface{})` produces. -/
inductive Item
  | str (b : Bytes)
  | list (xs : List Item)
  deriving Repr

mutual
  def encode : Item → Bytes
    | .str b => encString b
    | .list xs => encListPayload (encodeList xs)
  def encodeList : List Item → Bytes
    | [] => []
    | x :: xs => encode x ++ encodeList xs
end

/-! ## raw.go -/

/-- `len(b) > 0 && b[0] < 128` -/
def headLt128 : Bytes → Bool
  | x :: _ => decide (x.toNat < 128)
  | [] => false

/-- `readSize(b, slen)`; `slen` is 1..8 at every call site. -/
def readSize (b : Bytes) (slen : Nat) : Except Err Nat :=
  if slen > b.length then .error .eof
  else match b with
    | [] => .error .eof
    | b0 :: _ =>
      let s := beNat (b.take slen)
      if s < 56 ∨ b0.toNat = 0 then .error .canonSize else .ok s

/-- `readKind(buf)` of raw.go: `(kind, tagsize, contentsize)`. -/
def readKind (buf : Bytes) : Except Err (Kind × Nat × Nat) :=
  match buf with
  | [] => .error .eof
  | b :: tl =>
    let t := b.toNat
    let r : Except Err (Kind × Nat × Nat) :=
      if t < 0x80 then .ok (.byte, 0, 1)
      else if t < 0xb8 then
        if t - 0x80 = 1 ∧ headLt128 tl = true then .error .canonSize
        else .ok (.string, 1, t - 0x80)
      else if t < 0xc0 then
        match readSize tl (t - 0xb7) with
        | .error e => .error e
        | .ok cs => .ok (.string, t - 0xb7 + 1, cs)
      else if t < 0xf8 then .ok (.list, 1, t - 0xc0)
      else
        match readSize tl (t - 0xf7) with
        | .error e => .error e
        | .ok cs => .ok (.list, t - 0xf7 + 1, cs)
    match r with
    | .error e => .error e
    | .ok (k, ts, cs) =>
      if cs > buf.length - ts then .error .valueTooLarge else .ok (k, ts, cs)

/-- `Split(b)`: `(kind, content, rest)`. -/
def split (b : Bytes) : Except Err (Kind × Bytes × Bytes) :=
  match readKind b with
  | .error e => .error e
  | .ok (k, ts, cs) => .ok (k, (b.drop ts).take cs, b.drop (ts + cs))

def splitString (b : Bytes) : Except Err (Bytes × Bytes) :=
  match split b with
  | .error e => .error e
  | .ok (k, c, r) => if k = .list then .error .expectedString else .ok (c, r)

def splitList (b : Bytes) : Except Err (Bytes × Bytes) :=
  match split b with
  | .error e => .error e
  | .ok (k, c, r) => if k ≠ .list then .error .expectedList else .ok (c, r)

/-- `CountValues` loop with fuel. -/
def countValuesF : Nat → Bytes → Nat → Except Err Nat
  | 0, _, _ => .error .fuel
  | f + 1, b, i =>
    if b.isEmpty then .ok i
    else match readKind b with
      | .error e => .error e
      | .ok (_, ts, cs) => countValuesF f (b.drop (ts + cs)) (i + 1)

def countValues (b : Bytes) : Except Err Nat := countValuesF (b.length + 1) b 0

/-! ## generic decoding as a function on slices (recursive descent over `readKind`) -/

mutual
  /-- one item and the bytes after it -/
  def decItemF : Nat → Bytes → Except Err (Item × Bytes)
    | 0, _ => .error .fuel
    | f + 1, buf =>
      match readKind buf with
      | .error e => .error e
      | .ok (k, ts, cs) =>
        let content := (buf.drop ts).take cs
        let rest := buf.drop (ts + cs)
        match k with
        | .list =>
          match decItemsF f content with
          | .error e => .error e
          | .ok xs => .ok (.list xs, rest)
        | _ => .ok (.str content, rest)
  /-- all items of a list payload -/
  def decItemsF : Nat → Bytes → Except Err (List Item)
    | 0, _ => .error .fuel
    | f + 1, buf =>
      match buf with
      | [] => .ok []
      | _ :: _ =>
        match decItemF f buf with
        | .error e => .error e
        | .ok (x, rest) =>
          match decItemsF f rest with
          | .error e => .error e
          | .ok xs => .ok (x :: xs)
end

def itemFuel (b : Bytes) : Nat := 2 * b.length + 2

/-- First item of `b` and the remaining bytes. -/
def decodeItem (b : Bytes) : Except Err (Item × Bytes) := decItemF (itemFuel b) b

/-- `DecodeBytes(b, &interface{})` at the level of accept/value: exactly one item, no trailing data. -/
def decodeBytes (b : Bytes) : Except Err Item :=
  match decodeItem b with
  | .error e => .error e
  | .ok (it, rest) => if rest.isEmpty then .ok it else .error .moreThanOne

/-! ## integer decoding on items (`decodeUint`, `decodeBigInt` seen on the string content) -/

/-- Content of an RLP string accepted as an unsigned integer of `bits` bits (`Stream.uint`). -/
def uintOfContent (bits : Nat) (c : Bytes) : Except Err Nat :=
  if c.length > bits / 8 then .error .uintOverflow
  else match c with
    | [] => .ok 0
    | b0 :: _ => if b0.toNat = 0 then .error .canonInt else .ok (beNat c)

/-- Content accepted as a big integer (`decodeBigInt`). -/
def bigOfContent (c : Bytes) : Except Err Nat :=
  match c with
  | [] => .ok 0
  | b0 :: _ => if b0.toNat = 0 then .error .canonInt else .ok (beNat c)

end Rangers.RLP
