import Rangers.Model.Round
/-
Canonical statement lists of the handlers of the signing party as the model was written against them
(locals substituted by their definitions, log calls and error texts dropped — renaming a local or
rewording a log line changes nothing here; adding, removing or re-ordering a statement, or changing a
constant, does). The translator regenerates the same lists from the working tree on every run;
`Props/C15Shape.lean` proves they are equal.
-/
namespace Rangers.Model.Round

/-- `baseParty.Update`: lock; deferred unlock + recover; no round → return; `CanAccept` 0 → `Update` (error → `Err`, return), 1 → `StoreMessage`, else nothing; then the advance loop (`CanProceed`, `advance`, `Start`, error → `Err`). Transcribed by `partyUpdate`/`advance`. -/
def expectedPartyUpdateCanon : List String :=
  ["do p.lock()", "stmt defer func() { p.unlock() if r := recover(); r != nil { } }()", "if nil == p.round() {return }", "stmt switch p.round().CanAccept(msg) { case 0: if err := p.round().Update(msg); err != nil { p.Err <- err return } case 1: p.StoreMessage(msg) default: }", "stmt for { if !p.round().CanProceed() { return } if p.advance(); p.round() != nil { if err := p.round().Start(); err != nil { p.Err <- err return } } else { return } }"]

/-- `baseParty.StoreMessage`: keyed by message id (`storeRule`). -/
def expectedStoreMessageCanon : List String :=
  ["set p.futureMessages[msg.GetMessageID()] = msg"]

/-- `round0.CanAccept`: known id → −1; cast → 0; verify → 1 (`storeRule`). -/
def expectedCanAccept0Canon : List String :=
  ["if r.processed[msg.GetMessageID()]#1 {return -1}", "if r.futureMessages[msg.GetMessageID()]#1 {return -1}", "if msg.(*model.ConsensusCastMessage)#1 {return 0}", "set _, msg.(*model.ConsensusCastMessage)#1 = msg.(*model.ConsensusVerifyMessage)", "if msg.(*model.ConsensusCastMessage)#1 {return 1}", "return -1"]

/-- `round1.CanAccept`: known id → −1; cast → 1; verify → 0 (`canAccept1`). -/
def expectedCanAccept1Canon : List String :=
  ["if r.processed[msg.GetMessageID()]#1 {return -1}", "if r.futureMessages[msg.GetMessageID()]#1 {return -1}", "if msg.(*model.ConsensusCastMessage)#1 {return 1}", "set _, msg.(*model.ConsensusCastMessage)#1 = msg.(*model.ConsensusVerifyMessage)", "if msg.(*model.ConsensusCastMessage)#1 {return 0}", "return -1"]

/-- `round2.CanAccept`: −1. -/
def expectedCanAccept2Canon : List String :=
  ["return -1"]

/-- `round1.NextRound` (`advance`). -/
def expectedNextRound1Canon : List String :=
  ["set r.canProcessed = true", "set r.number = 2", "return &round2{round1: r}"]

/-- `Processor.OnMessageVerify`: route by `cvm.BlockHash` with `isNew = false` (`Proc.onVerify`, `Life.onPacket`). -/
def expectedOnMessageVerifyCanon : List String :=
  ["if nil == p.loadOrNewSignParty(cvm.BlockHash.Bytes(), cvm, false) {return }", "do p.loadOrNewSignParty(cvm.BlockHash.Bytes(), cvm, false).Update(cvm)"]

/-- `Processor.waitUntilDone`: closure `fn` (Close, delete from `partyManager`, `finishedParty.Add(id)`), the 10 s timer, `Err`, `Done`, and the changeId step (`settle`, `Life.onTimeout`, `Life.enterSigning`). -/
def expectedWaitUntilDoneCanon : List String :=
  ["closure fn { p.partyLock.Lock(endType) defer p.partyLock.Unlock(endType) party.Close() delete(p.partyManager, party.id) p.finishedParty.Add(party.id, 0) }", "stmt for { select { case <-time.After(10 * time.Second): fn(\"timeout\") return case err := <-party.Err: fn(\"err\") return case <-party.Done: fn(\"done\") return case realKey := <-party.ChangedId: func() { p.partyLock.Lock(\"changeId\") defer p.partyLock.Unlock(\"changeId\") p.finishedParty.Add(key, 0) delete(p.partyManager, key) party.SetId(realKey) p.partyManager[realKey] = party if msgsRaw, ok := p.futureMessages.Get(realKey); ok { msgs := msgsRaw.([]model.ConsensusMessage) p.futureMessages.Remove(realKey) for _, msg := range msgs { if nil == msg { continue } go func(m model.ConsensusMessage) { party.Update(m) }(msg) } } }() } }"]

/-- `Processor.Init`: `finishedParty = CreateLRUCache(300)`. -/
def finishedCap : Nat := 300

end Rangers.Model.Round
