import Rangers.Basic.Hex
import Rangers.Model.RLP
/-!
C07 helpers (core Lean only): Go string renderings used by the transaction
authenticity code, and the RLP coding of the wrapped Ethereum transaction
payload (`eth_tx.txdata`), exactly as `storage/rlp` decodes/encodes that one
struct type.  Go strings are byte sequences, so every string is `Bytes`.

The RLP layer is C08's model (`Model/RLP.lean`); only the typing of the nine items as
`eth_tx.txdata` lives here.
-/
namespace Rangers.Model.TxAuth
open Rangers

/-! ## decimal renderings: strconv.FormatUint / strconv.Itoa / big.Int.String (non-negative) -/

def digitByte (d : Nat) : UInt8 := UInt8.ofNat (48 + d)

/-- Least significant digit first. `fuel > n` always suffices (`decRev_val`). -/
def decRev : Nat → Nat → Bytes
  | 0, _ => []
  | f + 1, n => if n < 10 then [digitByte n] else digitByte (n % 10) :: decRev f (n / 10)

/-- `strconv.FormatUint(n, 10)` = `big.Int.String()` for n ≥ 0. -/
def decimal (n : Nat) : Bytes := (decRev (n + 1) n).reverse

/-- `strconv.Itoa`. -/
def decimalInt (i : Int) : Bytes :=
  if i < 0 then 45 :: decimal i.natAbs else decimal i.natAbs

/-- value of a least-significant-first digit string (inverse of `decRev`). -/
def valRev : Bytes → Nat
  | [] => 0
  | d :: ds => (d.toNat - 48) + 10 * valRev ds

/-! ## hex strings: common.ToHex / common.FromHex / hex.DecodeString (errors ignored) -/

def nibbleByte (n : Nat) : UInt8 := if n < 10 then UInt8.ofNat (48 + n) else UInt8.ofNat (87 + n)

def hexChars : Bytes → Bytes
  | [] => []
  | b :: bs => nibbleByte (b.toNat / 16) :: nibbleByte (b.toNat % 16) :: hexChars bs

/-- `common.ToHex`: "0x" + lower-case hex, "0x0" for the empty string. -/
def toHex0x (bs : Bytes) : Bytes :=
  48 :: 120 :: (if bs.isEmpty then [48] else hexChars bs)

def nibbleVal? (c : UInt8) : Option Nat :=
  if 48 ≤ c ∧ c ≤ 57 then some (c.toNat - 48)
  else if 97 ≤ c ∧ c ≤ 102 then some (c.toNat - 87)
  else if 65 ≤ c ∧ c ≤ 70 then some (c.toNat - 55)
  else none

/-- `hex.DecodeString` with the error dropped (`common.Hex2Bytes`): the pairs
    decoded before the first invalid character; a trailing odd character is ignored. -/
def hexDecodePrefix : Bytes → Bytes
  | a :: b :: rest =>
    match nibbleVal? a, nibbleVal? b with
    | some x, some y => UInt8.ofNat (x * 16 + y) :: hexDecodePrefix rest
    | _, _ => []
  | _ => []

/-- `common.FromHex`. -/
def fromHex (s : Bytes) : Bytes :=
  if s.length > 1 then
    let s1 := match s with
      | 48 :: 120 :: r => r
      | 48 :: 88 :: r => r
      | _ => s
    let s2 := if s1.length % 2 = 1 then 48 :: s1 else s1
    hexDecodePrefix s2
  else []

/-! ## utility.BigIntToStr (18 decimals), non-negative argument -/

/-- `utility.BigIntToStr` on a non-negative big.Int. -/
def bigIntToStr (n : Nat) : Bytes :=
  if n = 0 then [48] else
  let number := decimal n
  let len := number.length
  if len ≤ 18 then
    48 :: 46 :: (List.replicate (18 - len) 48 ++ number)
  else
    number.take (len - 18) ++ 46 :: number.drop (len - 18)

/-! ## RLP of the payload struct — on top of the C08 model (`Model/RLP.lean`)

`rlp.DecodeBytes(b, new(eth_tx.Transaction))` is the generic item decoder of C08
(`RLP.decodeBytes`: canonical sizes, canonical single bytes, exact length, no trailing
data — `Props/C08.lean` proves it lossless and canonical) followed by the typing of the
nine items as the fields of `eth_tx.txdata` (`txOfItem`): two `uint64`, five `*big.Int`,
one byte string and the `rlp:"nil"` recipient.  The field typing uses C08's
`uintOfContent` / `bigOfContent` (`integers_canonical`, `big_integers_canonical`).
-/

/-- The consensus content of an Ethereum legacy transaction (`eth_tx.txdata`). -/
structure EthTx where
  nonce : Nat
  price : Nat
  gas : Nat
  to : Option Bytes
  value : Nat
  data : Bytes
  v : Nat
  r : Nat
  s : Nat
deriving Repr, DecidableEq

def okOpt {α : Type} : Except RLP.Err α → Option α
  | .ok a => some a
  | .error _ => none

/-- `makeOptionalPtrDecoder` over `decodeByteArray` for `*common.Address` with tag
    `rlp:"nil"`: an item of size 0 that is not a single byte — the empty string **or the
    empty list** — is nil; otherwise a string of exactly 20 bytes. -/
def toOfItem : RLP.Item → Option (Option Bytes)
  | .str [] => some none
  | .list [] => some none
  | .str a => if a.length = 20 then some (some a) else none
  | .list _ => none

/-- typing of the decoded item as `eth_tx.txdata` -/
def txOfItem : RLP.Item → Option EthTx
  | .list [.str n, .str p, .str g, to, .str vl, .str d, .str v, .str r, .str s] =>
    match okOpt (RLP.uintOfContent 64 n), okOpt (RLP.bigOfContent p), okOpt (RLP.uintOfContent 64 g),
          toOfItem to, okOpt (RLP.bigOfContent vl), okOpt (RLP.bigOfContent v),
          okOpt (RLP.bigOfContent r), okOpt (RLP.bigOfContent s) with
    | some nonce, some price, some gas, some to, some value, some v, some r, some s =>
      some { nonce, price, gas, to, value, data := d, v, r, s }
    | _, _, _, _, _, _, _, _ => none
  | _ => none

/-- `rlp.DecodeBytes(enc, new(eth_tx.Transaction))`. -/
def decodeTx (enc : Bytes) : Option EthTx :=
  match RLP.decodeBytes enc with
  | .ok it => txOfItem it
  | .error _ => none

def toItem : Option Bytes → RLP.Item
  | none => .str []
  | some a => .str a

/-- the six signed content fields as items (`uint64` and `*big.Int` both write the minimal
    big-endian form, `writeUint` / `writeBigInt`) -/
def coreItems (e : EthTx) : List RLP.Item :=
  [.str (RLP.toBE e.nonce), .str (RLP.toBE e.price), .str (RLP.toBE e.gas), toItem e.to,
   .str (RLP.toBE e.value), .str e.data]

/-- the item `rlp.Encode(&tx.data)` writes -/
def itemOfTx (e : EthTx) : RLP.Item :=
  .list (coreItems e ++ [.str (RLP.toBE e.v), .str (RLP.toBE e.r), .str (RLP.toBE e.s)])

/-- `rlp.Encode(&tx.data)` — the preimage of `Transaction.Hash()`. -/
def encodeTx (e : EthTx) : Bytes := RLP.encode (itemOfTx e)

/-- preimage of `EIP155Signer.Hash`: the six fields, chain id, 0, 0. -/
def sigPreimage155 (chainId : Nat) (e : EthTx) : Bytes :=
  RLP.encode (.list (coreItems e ++ [.str (RLP.toBE chainId), .str [], .str []]))

/-- preimage of `HomesteadSigner.Hash` (= FrontierSigner.Hash). -/
def sigPreimageHomestead (e : EthTx) : Bytes := RLP.encode (.list (coreItems e))

end Rangers.Model.TxAuth
