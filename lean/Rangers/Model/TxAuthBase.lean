import Rangers.Basic.Hex
/-!
C07 helpers (core Lean only): Go string renderings used by the transaction
authenticity code, and the RLP coding of the wrapped Ethereum transaction
payload (`eth_tx.txdata`), exactly as `storage/rlp` decodes/encodes that one
struct type.  Go strings are byte sequences, so every string is `Bytes`.

Kept private to C07 on purpose (other builders own Model/RLP, Json, Decimal).
-/
namespace Rangers.Model.TxAuth
open Rangers

/-! ## decimal renderings: strconv.FormatUint / strconv.Itoa / big.Int.String (non-negative) -/

def digitByte (d : Nat) : UInt8 := UInt8.ofNat (48 + d)

/-- Least significant digit first. `fuel > n` always suffices (`decRev_val`). -/
def decRev : Nat → Nat → Bytes
  | 0, _ => []
  | f + 1, n => if n < 10 then [digitByte n] else digitByte (n % 10) :: decRev f (n / 10)

/-- `strconv.FormatUint(n, 10)` = `big.Int.String()` for n ≥ 0. -/
def decimal (n : Nat) : Bytes := (decRev (n + 1) n).reverse

/-- `strconv.Itoa`. -/
def decimalInt (i : Int) : Bytes :=
  if i < 0 then 45 :: decimal i.natAbs else decimal i.natAbs

/-- value of a least-significant-first digit string (inverse of `decRev`). -/
def valRev : Bytes → Nat
  | [] => 0
  | d :: ds => (d.toNat - 48) + 10 * valRev ds

/-! ## hex strings: common.ToHex / common.FromHex / hex.DecodeString (errors ignored) -/

def nibbleByte (n : Nat) : UInt8 := if n < 10 then UInt8.ofNat (48 + n) else UInt8.ofNat (87 + n)

def hexChars : Bytes → Bytes
  | [] => []
  | b :: bs => nibbleByte (b.toNat / 16) :: nibbleByte (b.toNat % 16) :: hexChars bs

/-- `common.ToHex`: "0x" + lower-case hex, "0x0" for the empty string. -/
def toHex0x (bs : Bytes) : Bytes :=
  48 :: 120 :: (if bs.isEmpty then [48] else hexChars bs)

def nibbleVal? (c : UInt8) : Option Nat :=
  if 48 ≤ c ∧ c ≤ 57 then some (c.toNat - 48)
  else if 97 ≤ c ∧ c ≤ 102 then some (c.toNat - 87)
  else if 65 ≤ c ∧ c ≤ 70 then some (c.toNat - 55)
  else none

/-- `hex.DecodeString` with the error dropped (`common.Hex2Bytes`): the pairs
    decoded before the first invalid character; a trailing odd character is ignored. -/
def hexDecodePrefix : Bytes → Bytes
  | a :: b :: rest =>
    match nibbleVal? a, nibbleVal? b with
    | some x, some y => UInt8.ofNat (x * 16 + y) :: hexDecodePrefix rest
    | _, _ => []
  | _ => []

/-- `common.FromHex`. -/
def fromHex (s : Bytes) : Bytes :=
  if s.length > 1 then
    let s1 := match s with
      | 48 :: 120 :: r => r
      | 48 :: 88 :: r => r
      | _ => s
    let s2 := if s1.length % 2 = 1 then 48 :: s1 else s1
    hexDecodePrefix s2
  else []

/-! ## utility.BigIntToStr (18 decimals), non-negative argument -/

/-- `utility.BigIntToStr` on a non-negative big.Int. -/
def bigIntToStr (n : Nat) : Bytes :=
  if n = 0 then [48] else
  let number := decimal n
  let len := number.length
  if len ≤ 18 then
    48 :: 46 :: (List.replicate (18 - len) 48 ++ number)
  else
    number.take (len - 18) ++ 46 :: number.drop (len - 18)

/-! ## RLP of the payload struct -/

/-- Big-endian integer of `size` bytes as `Stream.readUint` reads it for a
    *size* field: `none` on short input or (size ≥ 2) a leading zero byte. -/
def readSizeBE (size : Nat) (inp : Bytes) : Option (Nat × Bytes) :=
  if size = 0 then some (0, inp)
  else if inp.length < size then none
  else
    let bs := inp.take size
    if size ≥ 2 ∧ bs.head? = some 0 then none
    else some (beToNat bs, inp.drop size)

inductive Kind where
  | byte (b : UInt8)
  | str (size : Nat)
  | list (size : Nat)
deriving Repr, DecidableEq

/-- `Stream.readKind`: header of the next value; `none` on EOF / non-canonical size. -/
def readKind : Bytes → Option (Kind × Bytes)
  | [] => none
  | b :: rest =>
    if b < 0x80 then some (.byte b, rest)
    else if b < 0xB8 then some (.str (b.toNat - 0x80), rest)
    else if b < 0xC0 then
      match readSizeBE (b.toNat - 0xB7) rest with
      | some (sz, r) => if sz < 56 then none else some (.str sz, r)
      | none => none
    else if b < 0xF8 then some (.list (b.toNat - 0xC0), rest)
    else
      match readSizeBE (b.toNat - 0xF7) rest with
      | some (sz, r) => if sz < 56 then none else some (.list sz, r)
      | none => none

def headLt128 : Bytes → Bool
  | b :: _ => b < 128
  | [] => false

/-- `Stream.Bytes`. -/
def decBytes (inp : Bytes) : Option (Bytes × Bytes) :=
  match readKind inp with
  | some (.byte b, r) => some ([b], r)
  | some (.str sz, r) =>
    if r.length < sz then none
    else
      let c := r.take sz
      if sz = 1 ∧ headLt128 c then none
      else some (c, r.drop sz)
  | _ => none

/-- `decodeBigInt`: a byte string without leading zero. -/
def decBig (inp : Bytes) : Option (Nat × Bytes) :=
  match decBytes inp with
  | some (c, r) => if c.head? = some 0 then none else some (beToNat c, r)
  | none => none

/-- `Stream.uint(64)`. -/
def decU64 (inp : Bytes) : Option (Nat × Bytes) :=
  match readKind inp with
  | some (.byte b, r) => if b = 0 then none else some (b.toNat, r)
  | some (.str sz, r) =>
    if sz > 8 then none
    else if r.length < sz then none
    else
      let c := r.take sz
      if c.head? = some 0 then none
      else
        let v := beToNat c
        if sz > 0 ∧ v < 128 then none else some (v, r.drop sz)
  | _ => none

/-- `makeOptionalPtrDecoder` over `decodeByteArray` for `*common.Address` with
    tag `rlp:"nil"`: an *empty string or empty list* is nil; otherwise exactly 20 bytes. -/
def decOptAddr (inp : Bytes) : Option (Option Bytes × Bytes) :=
  match readKind inp with
  | some (.str 0, r) => some (none, r)
  | some (.list 0, r) => some (none, r)
  | some (.str sz, r) =>
    if sz ≠ 20 then none
    else if r.length < 20 then none
    else some (some (r.take 20), r.drop 20)
  | _ => none

/-- The consensus content of an Ethereum legacy transaction (`eth_tx.txdata`). -/
structure EthTx where
  nonce : Nat
  price : Nat
  gas : Nat
  to : Option Bytes
  value : Nat
  data : Bytes
  v : Nat
  r : Nat
  s : Nat
deriving Repr, DecidableEq

def decFields (p : Bytes) : Option EthTx :=
  match decU64 p with
  | none => none
  | some (nonce, p1) =>
  match decBig p1 with
  | none => none
  | some (price, p2) =>
  match decU64 p2 with
  | none => none
  | some (gas, p3) =>
  match decOptAddr p3 with
  | none => none
  | some (to, p4) =>
  match decBig p4 with
  | none => none
  | some (value, p5) =>
  match decBytes p5 with
  | none => none
  | some (data, p6) =>
  match decBig p6 with
  | none => none
  | some (v, p7) =>
  match decBig p7 with
  | none => none
  | some (r, p8) =>
  match decBig p8 with
  | none => none
  | some (s, p9) =>
    if p9.isEmpty then some { nonce, price, gas, to, value, data, v, r, s } else none

/-- `rlp.DecodeBytes(enc, new(eth_tx.Transaction))`: one list whose payload is
    exactly the rest of the input, holding exactly the nine fields. -/
def decodeTx (enc : Bytes) : Option EthTx :=
  match readKind enc with
  | some (.list sz, rest) => if rest.length = sz then decFields rest else none
  | _ => none

def rlpHeader (base : Nat) (len : Nat) : Bytes :=
  if len < 56 then [UInt8.ofNat (base + len)]
  else
    let lb := natToBE len
    UInt8.ofNat (base + 55 + lb.length) :: lb

def encBytes (bs : Bytes) : Bytes :=
  match bs with
  | [b] => if b < 128 then [b] else rlpHeader 0x80 1 ++ bs
  | _ => rlpHeader 0x80 bs.length ++ bs

def encNat (n : Nat) : Bytes := encBytes (natToBE n)

def encTo : Option Bytes → Bytes
  | none => [0x80]
  | some a => encBytes a

def encList (payload : Bytes) : Bytes := rlpHeader 0xC0 payload.length ++ payload

def coreFields (e : EthTx) : Bytes :=
  encNat e.nonce ++ encNat e.price ++ encNat e.gas ++ encTo e.to ++ encNat e.value ++ encBytes e.data

/-- `rlp.Encode(&tx.data)` — the preimage of `Transaction.Hash()`. -/
def encodeTx (e : EthTx) : Bytes :=
  encList (coreFields e ++ encNat e.v ++ encNat e.r ++ encNat e.s)

/-- preimage of `EIP155Signer.Hash`. -/
def sigPreimage155 (chainId : Nat) (e : EthTx) : Bytes :=
  encList (coreFields e ++ encNat chainId ++ [0x80] ++ [0x80])

/-- preimage of `HomesteadSigner.Hash` (= FrontierSigner.Hash). -/
def sigPreimageHomestead (e : EthTx) : Bytes := encList (coreFields e)

end Rangers.Model.TxAuth
