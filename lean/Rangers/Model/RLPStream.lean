import Rangers.Model.RLP
/-!
# RLP — the stateful `Stream` of decode.go (core Lean only)

Fields are the Go fields (`remaining`, `limited`, `kind` with `none` = -1, `size`,
`byteval`, `kinderr`, `stack` with the top of stack at the head); `inp` is what the
underlying `bytes.Reader` still holds.  Two ghost fields record what the totality clause
of C08 is about: `consumed` (bytes taken from the reader) and `allocs` (every size passed
to `make` in `Bytes`/`Raw`).

Every method returns its Go result *and* the stream state, also on error (the Go code
keeps using a stream after some errors, e.g. after `EOL`).

`uint64` subtraction `tos.size - tos.pos` is modelled by truncated `Nat` subtraction;
`Props/C08.lean` (`stream_inv`) proves `pos ≤ size` for every reachable state, so no
wrap-around is ever in play.
-/
namespace Rangers.RLP
open Rangers

structure Stream where
  inp : Bytes
  remaining : Nat
  limited : Bool
  kind : Option Kind
  size : Nat
  byteval : UInt8
  kinderr : Option Err
  stack : List (Nat × Nat)
  consumed : Nat
  allocs : List Nat
  deriving Repr

abbrev Res (α : Type) := Except Err α × Stream

/-- `NewStream(bytes.NewReader(b), limit)`; `limit = 0` auto-detects `len(b)` (bytes.Reader). -/
def newStream (b : Bytes) (limit : Nat) : Stream :=
  { inp := b, remaining := if limit > 0 then limit else b.length, limited := true,
    kind := none, size := 0, byteval := 0, kinderr := none, stack := [], consumed := 0, allocs := [] }

/-- `NewStream(r, 0)` for a reader that is neither `*bytes.Reader` nor `*strings.Reader`. -/
def newStreamUnlimited (b : Bytes) : Stream :=
  { newStream b 0 with remaining := 0, limited := false }

/-- the input-limit half of `willRead` -/
def willReadLimit (s : Stream) (n : Nat) : Option Err × Stream :=
  if s.limited then
    if n > s.remaining then (some .valueTooLarge, s)
    else (none, { s with remaining := s.remaining - n })
  else (none, s)

/-- `willRead(n)` -/
def willRead (s : Stream) (n : Nat) : Option Err × Stream :=
  let s := { s with kind := none }
  match s.stack with
  | (p, sz) :: rest =>
    if n > sz - p then (some .elemTooLarge, s)
    else willReadLimit { s with stack := (p + n, sz) :: rest } n
  | [] => willReadLimit s n

/-- `readByte()` -/
def readByte (s : Stream) : Res UInt8 :=
  match willRead s 1 with
  | (some e, s) => (.error e, s)
  | (none, s) =>
    match s.inp with
    | [] => (.error .eof, s)
    | b :: tl => (.ok b, { s with inp := tl, consumed := s.consumed + 1 })

/-- `readFull(buf)` with `len(buf) = n`; returns the bytes read. -/
def readFull (s : Stream) (n : Nat) : Res Bytes :=
  match willRead s n with
  | (some e, s) => (.error e, s)
  | (none, s) =>
    if n ≤ s.inp.length then
      (.ok (s.inp.take n), { s with inp := s.inp.drop n, consumed := s.consumed + n })
    else (.error .eof, { s with inp := [], consumed := s.consumed + s.inp.length })

/-- `readUint(size)`, `size ≤ 8` at every call site. -/
def readUint (s : Stream) (size : Nat) : Res Nat :=
  if size = 0 then (.ok 0, { s with kind := none })
  else if size = 1 then
    match readByte s with
    | (.ok b, s) => (.ok b.toNat, s)
    | (.error e, s) => (.error e, s)
  else
    match readFull s size with
    | (.error e, s) => (.error e, s)
    | (.ok bs, s) =>
      match bs with
      | [] => (.error .eof, s)
      | b0 :: _ => if b0.toNat = 0 then (.error .canonSize, s) else (.ok (beNat bs), s)

/-- long-form header: `size, err = readUint(n); if err == nil && size < 56 {err = ErrCanonSize}` -/
def readLongSize (s : Stream) (n : Nat) : (Nat × Option Err) × Stream :=
  match readUint s n with
  | (.error e, s) => ((0, some e), s)
  | (.ok size, s) => if size < 56 then ((size, some .canonSize), s) else ((size, none), s)

/-- `Stream.readKind()`: Go returns `(kind, size, err)` and the caller stores all three. -/
def sReadKind (s : Stream) : (Kind × Nat × Option Err) × Stream :=
  match readByte s with
  | (.error e, s) =>
    let e' := if s.stack.isEmpty then
        (match e with | .eof => Err.ioeof | .valueTooLarge => Err.ioeof | x => x) else e
    ((.byte, 0, some e'), s)
  | (.ok b, s) =>
    let s := { s with byteval := 0 }
    let t := b.toNat
    if t < 0x80 then ((.byte, 0, none), { s with byteval := b })
    else if t < 0xb8 then ((.string, t - 0x80, none), s)
    else if t < 0xc0 then
      let ((size, err), s) := readLongSize s (t - 0xb7)
      ((.string, size, err), s)
    else if t < 0xf8 then ((.list, t - 0xc0, none), s)
    else
      let ((size, err), s) := readLongSize s (t - 0xf7)
      ((.list, size, err), s)

/-- the bound check `Kind()` performs after a successful `readKind` -/
def kindBoundErr (s : Stream) (size : Nat) : Option Err :=
  match s.stack with
  | [] => if s.limited ∧ size > s.remaining then some .valueTooLarge else none
  | (p, sz) :: _ => if size > sz - p then some .elemTooLarge else none

/-- `tos != nil && tos.pos == tos.size` -/
def atEnd : List (Nat × Nat) → Bool
  | (p, sz) :: _ => decide (p = sz)
  | [] => false

/-- the `s.kind < 0` branch of `Kind()`: read the next header and cache it -/
def sKindFresh (s : Stream) : Res (Kind × Nat) :=
  let s := { s with kinderr := none }
  if atEnd s.stack = true then (.error .eol, s)
  else
    let r := sReadKind s
    let err : Option Err := match r.1.2.2 with
      | some e => some e
      | none => kindBoundErr r.2 r.1.2.1
    (match err with | none => .ok (r.1.1, r.1.2.1) | some e => .error e,
     { r.2 with kind := some r.1.1, size := r.1.2.1, kinderr := err })

/-- `Kind()` -/
def sKind (s : Stream) : Res (Kind × Nat) :=
  match s.kind with
  | some k =>
    (match s.kinderr with | none => .ok (k, s.size) | some e => .error e, s)
  | none => sKindFresh s

/-- `Bytes()` -/
def sBytes (s : Stream) : Res Bytes :=
  match sKind s with
  | (.error e, s) => (.error e, s)
  | (.ok (k, size), s) =>
    match k with
    | .byte => (.ok [s.byteval], { s with kind := none })
    | .string =>
      let s := { s with allocs := size :: s.allocs }
      match readFull s size with
      | (.error e, s) => (.error e, s)
      | (.ok b, s) =>
        if size = 1 ∧ headLt128 b = true then (.error .canonSize, s)
        else (.ok b, s)
    | .list => (.error .expectedString, s)

/-- `Raw()` -/
def sRaw (s : Stream) : Res Bytes :=
  match sKind s with
  | (.error e, s) => (.error e, s)
  | (.ok (k, size), s) =>
    match k with
    | .byte => (.ok [s.byteval], { s with kind := none })
    | _ =>
      let s := { s with allocs := (headsize size + size) :: s.allocs }
      match readFull s size with
      | (.error e, s) => (.error e, s)
      | (.ok b, s) =>
        if k = .string then (.ok (encHead 0x80 0xb7 size ++ b), s)
        else (.ok (encHead 0xc0 0xf7 size ++ b), s)

/-- `uint(maxbits)` -/
def sUint (s : Stream) (maxbits : Nat) : Res Nat :=
  match sKind s with
  | (.error e, s) => (.error e, s)
  | (.ok (k, size), s) =>
    match k with
    | .byte =>
      if s.byteval.toNat = 0 then (.error .canonInt, s)
      else (.ok s.byteval.toNat, { s with kind := none })
    | .string =>
      if size > maxbits / 8 then (.error .uintOverflow, s)
      else
        match readUint s size with
        | (.error .canonSize, s) => (.error .canonInt, s)
        | (.error e, s) => (.error e, s)
        | (.ok v, s) => if size > 0 ∧ v < 128 then (.error .canonSize, s) else (.ok v, s)
    | .list => (.error .expectedString, s)

/-- `Bool()` -/
def sBool (s : Stream) : Res Bool :=
  match sUint s 8 with
  | (.error e, s) => (.error e, s)
  | (.ok n, s) => if n = 0 then (.ok false, s) else if n = 1 then (.ok true, s) else (.error .badBool, s)

/-- `List()` -/
def sList (s : Stream) : Res Nat :=
  match sKind s with
  | (.error e, s) => (.error e, s)
  | (.ok (k, size), s) =>
    if k ≠ .list then (.error .expectedList, s)
    else (.ok size, { s with stack := (0, size) :: s.stack, kind := none, size := 0 })

/-- `ListEnd()` -/
def sListEnd (s : Stream) : Option Err × Stream :=
  match s.stack with
  | [] => (some .notInList, s)
  | (p, sz) :: rest =>
    if p ≠ sz then (some .notAtEOL, s)
    else
      let rest' := match rest with
        | [] => []
        | (p', sz') :: r => (p' + sz, sz') :: r
      (none, { s with stack := rest', kind := none, size := 0 })

/-! ## `decodeInterface` through the stream -/

mutual
  /-- `decodeInterface` -/
  def sDecodeAny : Nat → Stream → Res Item
    | 0, s => (.error .fuel, s)
    | f + 1, s =>
      match sKind s with
      | (.error e, s) => (.error e, s)
      | (.ok (k, _), s) =>
        if k = .list then
          match sList s with
          | (.error e, s) => (.error e, s)
          | (.ok size, s) =>
            if size = 0 then
              match sListEnd s with
              | (some e, s) => (.error e, s)
              | (none, s) => (.ok (.list []), s)
            else
              match sAnyElems f s with
              | (.error e, s) => (.error e, s)
              | (.ok xs, s) =>
                match sListEnd s with
                | (some e, s) => (.error e, s)
                | (none, s) => (.ok (.list xs), s)
        else
          match sBytes s with
          | (.error e, s) => (.error e, s)
          | (.ok b, s) => (.ok (.str b), s)
  /-- `decodeSliceElems` with `decodeInterface` as element decoder -/
  def sAnyElems : Nat → Stream → Res (List Item)
    | 0, s => (.error .fuel, s)
    | f + 1, s =>
      match sDecodeAny f s with
      | (.error .eol, s) => (.ok [], s)
      | (.error e, s) => (.error e, s)
      | (.ok x, s) =>
        match sAnyElems f s with
        | (.error e, s) => (.error e, s)
        | (.ok xs, s) => (.ok (x :: xs), s)
end

/-- Fuel for `sDecodeAny` from any stream state: the first value may come from a cached
    `Kind` (no byte consumed), every later recursive call consumes at least one byte or fails. -/
def anyFuel (s : Stream) : Nat := 2 * s.inp.length + 4

/-- `DecodeBytes(b, &interface{})`, error-exact. -/
def sDecodeBytesAny (b : Bytes) : Except Err Item :=
  match sDecodeAny (anyFuel (newStream b b.length)) (newStream b b.length) with
  | (.error e, _) => .error e
  | (.ok it, s) => if s.inp.isEmpty then .ok it else .error .moreThanOne

end Rangers.RLP

namespace Rangers.RLP

/-- The public `Stream` methods, as data (what a caller — a typed decoder, a `DecodeRLP`
    implementation, the op scripts of the correspondence run — can do to a stream). -/
inductive SOp
  | kind | bytes | raw | uint (bits : Nat) | bool | list | listEnd | any
  deriving Repr

/-- State after one method call (results are dropped; see the individual methods). -/
def SOp.run (op : SOp) (s : Stream) : Stream :=
  match op with
  | .kind => (sKind s).2
  | .bytes => (sBytes s).2
  | .raw => (sRaw s).2
  | .uint bits => (sUint s bits).2
  | .bool => (sBool s).2
  | .list => (sList s).2
  | .listEnd => (sListEnd s).2
  | .any => (sDecodeAny (anyFuel s) s).2

def runOps : List SOp → Stream → Stream
  | [], s => s
  | op :: ops, s => runOps ops (op.run s)

end Rangers.RLP
