import Rangers.Basic.Hex
import Rangers.Basic.Keccak
import Rangers.Generated.C16Facts
/-!
How the node builds the VRF message (`consensus/logical`): `CalDeltaByTime` (time slot of the
block relative to its parent) and `genVrfMsg` (the parent's `Random`, hashed `delta − 1`
times with SHA3-256 = `base.Data2CommonHash`).
-/
namespace Rangers.Model.VrfMsg
open Rangers

/-- SHA3-256 padding (domain bits 0x06), rate 136 -/
def sha3Pad (msg : Bytes) : Bytes :=
  let r := msg.length % Keccak.rate
  let padLen := Keccak.rate - r
  if padLen = 1 then msg ++ [0x86]
  else msg ++ [0x06] ++ List.replicate (padLen - 2) 0 ++ [0x80]

/-- `sha3.Sum256` (golang.org/x/crypto/sha3), on the shared Keccak-f[1600] permutation -/
def sha3_256 (msg : Bytes) : Bytes :=
  let p := sha3Pad msg
  let st := Keccak.absorb (Array.replicate 25 0) p (p.length / Keccak.rate + 1)
  Keccak.laneBytes (Keccak.g st 0) ++ Keccak.laneBytes (Keccak.g st 1) ++
    Keccak.laneBytes (Keccak.g st 2) ++ Keccak.laneBytes (Keccak.g st 3)

/-- `model.MAX_GROUP_BLOCK_TIME` (seconds per cast slot), from the generated facts -/
def maxGroupBlockTime : Nat := Generated.C16Facts.maxGroupBlockTime

/-- `int(d.Seconds())` for a duration of `ns` nanoseconds. `Seconds()` is
    `float64(sec) + float64(nsec)/1e9`; below 2^23 seconds the float sum never reaches the next
    integer, so truncation gives `sec` (toward zero). Beyond that: `none` (not modelled). -/
def secondsTrunc (ns : Int) : Option Int :=
  let sec := ns.tdiv 1000000000
  if sec.natAbs < 2 ^ 23 then some sec else none

/-- `CalDeltaByTime(after, before)` with `ns = after − before`. Go's `/` truncates toward zero. -/
def calDelta (ns : Int) : Option Int :=
  if maxGroupBlockTime = 0 then none
  else (secondsTrunc ns).map (fun s => s.tdiv maxGroupBlockTime + 1)

/-- `genVrfMsg(random, delta)`: hash `delta − 1` times (not at all when `delta ≤ 1`). -/
def hashTimes : Nat → Bytes → Bytes
  | 0, m => m
  | n + 1, m => hashTimes n (sha3_256 m)

def genVrfMsg (random : Bytes) (delta : Int) : Bytes := hashTimes (delta - 1).toNat random

/-- the message `verifyBlockVRF` / `genProve` use for a block cast `ns` after its parent -/
def blockMsg (random : Bytes) (ns : Int) : Option Bytes := (calDelta ns).map (genVrfMsg random)

end Rangers.Model.VrfMsg
